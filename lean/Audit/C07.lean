import CEProofs.C07
#print axioms CE.Disc.C07.history_independent
#print axioms CE.Disc.C07.globals_untouched
#print axioms CE.Disc.C07.deterministic
#print axioms CE.Disc.C07.presentation_independent
#print axioms CE.Disc.C07.presentation_independent_stream
#print axioms CE.Disc.C07.presentation_independent_lasso
#print axioms CE.Disc.C07.presentation_independent_rows
#print axioms CE.Disc.C07.presentation_independent_world
