import CEProofs.C10Gauss
#print axioms CE.Gauss.cov_row_perm
#print axioms CE.Gauss.row_perm
#print axioms CE.Gauss.swap_xy
#print axioms CE.Gauss.swap_xy_dets
#print axioms CE.Gauss.z_col_perm
#print axioms CE.Gauss.z_col_perm_dets
