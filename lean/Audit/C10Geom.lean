import CEProofs.C10Geom
#print axioms CE.Geom.isRot_colperm
#print axioms CE.Geom.corrColPermInv_of_rot
#print axioms CE.Geom.H_colperm_partial
#print axioms CE.Geom.geomMI_swap_xy_partial
#print axioms CE.Geom.clamp_geomMI_swap_xy_partial
#print axioms CE.Geom.geomCMI_swap_xy_partial
#print axioms CE.Geom.geomCMI_z_col_perm_partial
#print axioms CE.Geom.geomMI_row_perm
#print axioms CE.Geom.geomCMI_row_perm
