import CEProofs.C17
#print axioms CE.Stats.tpr_def
#print axioms CE.Stats.tpr_no_edges
#print axioms CE.Stats.fpr_def
#print axioms CE.Stats.fpr_no_negatives
#print axioms CE.Stats.rates_in_unit
#print axioms CE.Stats.identical
#print axioms CE.Stats.complement
#print axioms CE.Stats.auc_trapezoid
#print axioms CE.Stats.auc_bounds
