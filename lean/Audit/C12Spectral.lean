import CEProofs.C12Spectral
#print axioms CE.Geom.quadForm_spec
#print axioms CE.Geom.inEll_iff_quadForm
#print axioms CE.Geom.passQ_iff
#print axioms CE.Geom.ellCount_castR
#print axioms CE.Geom.charCoeffs_eq_sum_minors
#print axioms CE.Geom.charCoeffs_spec
#print axioms CE.Geom.charCoeffs_spec_esymm
#print axioms CE.Geom.sv_eq_of_charCoeffs
#print axioms CE.Svd.charpoly_gram_eq_prod
#print axioms CE.Svd.sum_minors_gram_eq_esymm
#print axioms CE.Svd.sv_eq_of_esymm
