import CEProofs.C05
#print axioms CE.Disc.planted_is_first_accepted_std
#print axioms CE.Disc.planted_is_first_accepted_alt
#print axioms CE.Disc.planted_is_first_accepted
#print axioms CE.Disc.planted_recovered_std
#print axioms CE.Disc.planted_recovered_alt
#print axioms CE.Disc.planted_recovered
#print axioms CE.Disc.backward_keeps
#print axioms CE.Disc.discover_edge_of_selected
#print axioms CE.Disc.planted_recovered_discover
#print axioms CE.Disc.lasso_selected_edge
