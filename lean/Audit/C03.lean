import CEProofs.C03
#print axioms CE.Disc.thr_bracket
#print axioms CE.Disc.p_value_def
#print axioms CE.Disc.pass_def
#print axioms CE.Disc.coherent_pass_bracket
#print axioms CE.Disc.coherent_fail_bracket
#print axioms CE.Disc.count_ge_le_of_pass
#print axioms CE.Disc.pass_imp_p_le
#print axioms CE.Disc.fail_imp_p_ge
#print axioms CE.Disc.all_tied_not_pass
#print axioms CE.Disc.surrogates
#print axioms CE.Disc.permute_perm
#print axioms CE.Disc.shuffleTest_spec
#print axioms CE.Disc.decideTestG_codeShape
