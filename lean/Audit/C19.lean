import CEProofs.C19
#print axioms CE.Syn.logistic_mem
#print axioms CE.Syn.step_mem
#print axioms CE.Syn.orbit_mem
#print axioms CE.Syn.rowNormalise_ok
#print axioms CE.Syn.orbit_mem_rowNormalised
