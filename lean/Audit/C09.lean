import CEProofs.C09
#print axioms CE.Dispatch.dispatch_value
#print axioms CE.Dispatch.dispatch_floor
#print axioms CE.Dispatch.floor_not_finite_negative
#print axioms CE.Dispatch.floor_nonfinite
#print axioms CE.Dispatch.kde_alias
#print axioms CE.Dispatch.unknown_raises
