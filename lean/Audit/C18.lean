import CEProofs.C18
#print axioms CE.Syn.linear_in_eps
#print axioms CE.Syn.linear_in_eps_two
#print axioms CE.Syn.residual
#print axioms CE.Syn.residual_sub
#print axioms CE.Syn.linearSeries_shape
#print axioms CE.Syn.buildA_entry
#print axioms CE.Syn.support
#print axioms CE.Syn.buildA_shape
#print axioms CE.Syn.radius_scaling
#print axioms CE.Syn.radius_scaling_small
#print axioms CE.Syn.rate_formula
#print axioms CE.Syn.rate_formula_index
#print axioms CE.Syn.rate_ge_floor
#print axioms CE.Syn.rate_eq
#print axioms CE.Syn.rate_eq_of_nonneg
