import CEProofs.C15
#print axioms CE.Graph.C15.empty
#print axioms CE.Graph.C15.rows_eq_edges
#print axioms CE.Graph.C15.columns
#print axioms CE.Graph.C15.column_const
#print axioms CE.Graph.C15.cols_nodup
#print axioms CE.Graph.C15.rows_sublist
#print axioms CE.Graph.C15.rows_directed
#print axioms CE.Graph.C15.sym_nodup
#print axioms CE.Graph.C15.sym_once
#print axioms CE.Graph.C15.cols_pcmci
