import CEProofs.C16
#print axioms CE.Lin.sub_edges
#print axioms CE.Lin.partition
#print axioms CE.Lin.partition_perm
#print axioms CE.Lin.maxLag_spec
#print axioms CE.Lin.companion_empty
#print axioms CE.Lin.companion_empty'
#print axioms CE.Lin.companion_entry
#print axioms CE.Lin.companion_edge
