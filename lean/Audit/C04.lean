import CEProofs.C04
#print axioms CE.Disc.C04.card_extreme_le
#print axioms CE.Disc.C04.card_extreme_pos_eq
#print axioms CE.Disc.C04.exactness
#print axioms CE.Disc.C04.level_bound
#print axioms CE.Disc.shuffle_level_group
#print axioms CE.Disc.shuffle_level
#print axioms CE.Disc.shuffle_level_prob
#print axioms CE.Disc.level_lt
#print axioms CE.Disc.level_le_alpha_plus_inv_n
#print axioms CE.Disc.verdict_eq_shuffleTest
#print axioms CE.Disc.shuffle_level_model
#print axioms CE.Disc.c04_level_partial
#print axioms CE.Disc.literal_bound_fails
