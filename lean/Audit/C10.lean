import CEProofs.C10Knn
import CEProofs.C10Gauss
#print axioms CE.Knn.row_perm_mi
#print axioms CE.Knn.row_perm_cmi
#print axioms CE.Knn.row_perm_mi_idx
#print axioms CE.Knn.row_perm_cmi_idx
#print axioms CE.Knn.swap_xy_mi
#print axioms CE.Knn.swap_xy_cmi
#print axioms CE.Knn.z_col_perm_cmi
#print axioms CE.Gauss.row_perm
#print axioms CE.Gauss.swap_xy
#print axioms CE.Gauss.z_col_perm
