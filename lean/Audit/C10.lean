import CEProofs.C10Knn
import CEProofs.C10Gauss
import CEProofs.C10Kde
#print axioms CE.Knn.row_perm_mi
#print axioms CE.Knn.row_perm_cmi
#print axioms CE.Knn.row_perm_mi_idx
#print axioms CE.Knn.row_perm_cmi_idx
#print axioms CE.Knn.swap_xy_mi
#print axioms CE.Knn.swap_xy_cmi
#print axioms CE.Knn.z_col_perm_cmi
#print axioms CE.Gauss.row_perm
#print axioms CE.Gauss.swap_xy
#print axioms CE.Gauss.z_col_perm
#print axioms CE.Kde.entropy_row_perm
#print axioms CE.Kde.mi_row_perm
#print axioms CE.Kde.mi_row_perm_idx
#print axioms CE.Kde.cmi_row_perm
#print axioms CE.Kde.cmi_row_perm_idx
#print axioms CE.Kde.sqdist_swap
#print axioms CE.Kde.mi_swap_xy
#print axioms CE.Kde.cmi_swap_xy
#print axioms CE.Kde.sqdist_colperm
#print axioms CE.Kde.cmi_z_col_perm
#print axioms CE.Kde.entropy_formula
#print axioms CE.Kde.mi_def
#print axioms CE.Kde.cmi_def
