import CEProofs.C10Knn
import CEProofs.C10Gauss
import CEProofs.C10Kde
import CEProofs.C10Poisson
import CEProofs.C10Geom
import CEProofs.C10GeomSvd
#print axioms CE.Knn.row_perm_mi
#print axioms CE.Knn.row_perm_cmi
#print axioms CE.Knn.row_perm_mi_idx
#print axioms CE.Knn.row_perm_cmi_idx
#print axioms CE.Knn.swap_xy_mi
#print axioms CE.Knn.swap_xy_cmi
#print axioms CE.Knn.z_col_perm_cmi
#print axioms CE.Gauss.row_perm
#print axioms CE.Gauss.swap_xy
#print axioms CE.Gauss.z_col_perm
#print axioms CE.Kde.entropy_row_perm
#print axioms CE.Kde.mi_row_perm
#print axioms CE.Kde.mi_row_perm_idx
#print axioms CE.Kde.cmi_row_perm
#print axioms CE.Kde.cmi_row_perm_idx
#print axioms CE.Kde.sqdist_swap
#print axioms CE.Kde.mi_swap_xy
#print axioms CE.Kde.cmi_swap_xy
#print axioms CE.Kde.sqdist_colperm
#print axioms CE.Kde.cmi_z_col_perm
#print axioms CE.Kde.entropy_formula
#print axioms CE.Kde.mi_def
#print axioms CE.Kde.cmi_def
#print axioms CE.PoissonMI.square_eq_matOfFn
#print axioms CE.PoissonMI.poissonMI_closed_form
#print axioms CE.PoissonMI.poissonMI_closed_form_list
#print axioms CE.PoissonMI.poissonMI_var_perm
#print axioms CE.PoissonMI.poissonMI_var_equiv
#print axioms CE.PoissonMI.poissonMI_var_perm_list
#print axioms CE.PoissonMI.poissonMI_swap_xy
#print axioms CE.PoissonMI.poissonMI_col_perm
#print axioms CE.PoissonMI.poissonMIVec_var_perm
#print axioms CE.PoissonMI.poissonMIVec_swap_xy
#print axioms CE.PoissonMI.entropyVec_permSymm
#print axioms CE.PoissonMI.poissonMI_symm_needed
#print axioms CE.Geom.isRot_colperm
#print axioms CE.Geom.corrColPermInv_of_rot
#print axioms CE.Geom.H_colperm_partial
#print axioms CE.Geom.geomMI_swap_xy_partial
#print axioms CE.Geom.clamp_geomMI_swap_xy_partial
#print axioms CE.Geom.geomCMI_swap_xy_partial
#print axioms CE.Geom.geomCMI_z_col_perm_partial
#print axioms CE.Geom.geomMI_row_perm
#print axioms CE.Geom.geomCMI_row_perm
#print axioms CE.Geom.colPerm_eq_rotOf
#print axioms CE.Geom.permQ_orth
#print axioms CE.Geom.corrColPermInv_envSvd
#print axioms CE.Geom.H_colperm_real
#print axioms CE.Geom.geomMI_swap_xy_real
#print axioms CE.Geom.clamp_geomMI_swap_xy_real
#print axioms CE.Geom.geomCMI_swap_xy_real
#print axioms CE.Geom.geomCMI_z_col_perm_real
