import CEProofs.C10Kde
#print axioms CE.Kde.entropy_row_perm
#print axioms CE.Kde.mi_row_perm
#print axioms CE.Kde.mi_row_perm_idx
#print axioms CE.Kde.cmi_row_perm
#print axioms CE.Kde.cmi_row_perm_idx
#print axioms CE.Kde.sqdist_swap
#print axioms CE.Kde.mi_swap_xy
#print axioms CE.Kde.cmi_swap_xy
#print axioms CE.Kde.sqdist_colperm
#print axioms CE.Kde.cmi_z_col_perm
#print axioms CE.Kde.entropy_formula
#print axioms CE.Kde.mi_def
#print axioms CE.Kde.cmi_def
