import CEProofs.C10Poisson
#print axioms CE.PoissonMI.square_eq_matOfFn
#print axioms CE.PoissonMI.poissonMI_closed_form
#print axioms CE.PoissonMI.poissonMI_closed_form_list
#print axioms CE.PoissonMI.poissonMI_var_perm
#print axioms CE.PoissonMI.poissonMI_var_equiv
#print axioms CE.PoissonMI.poissonMI_var_perm_list
#print axioms CE.PoissonMI.poissonMI_swap_xy
#print axioms CE.PoissonMI.poissonMI_col_perm
#print axioms CE.PoissonMI.poissonMIVec_var_perm
#print axioms CE.PoissonMI.poissonMIVec_swap_xy
#print axioms CE.PoissonMI.entropyVec_permSymm
#print axioms CE.PoissonMI.poissonMI_symm_needed
