import CEProofs.C01
#print axioms CE.Disc.C01.lagged_entry
#print axioms CE.Disc.C01.lagged_entry_sub
#print axioms CE.Disc.C01.label_colId
#print axioms CE.Disc.C01.colId_label
#print axioms CE.Disc.C01.label_bijective
#print axioms CE.Disc.C01.edges_closed_form_draws
#print axioms CE.Disc.C01.edges_closed_form
#print axioms CE.Disc.C01.edge_semantics
#print axioms CE.Disc.C01.edge_semantics_edges
#print axioms CE.Disc.C01.pvalue_formula
#print axioms CE.Disc.C01.example_run
