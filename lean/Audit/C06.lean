import CEProofs.C06
#print axioms CE.Disc.C06.rejects
#print axioms CE.Disc.C06.only_errors
#print axioms CE.Disc.C06.edge_wf
#print axioms CE.Disc.C06.p_in_unit
#print axioms CE.Disc.C06.nodes_exact
#print axioms CE.Disc.C06.no_duplicate_triple
#print axioms CE.Disc.C06.cmi_not_finite_negative
