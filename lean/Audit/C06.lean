import CEProofs.C06
import CEProofs.C06Lasso
#print axioms CE.Disc.C06.rejects
#print axioms CE.Disc.C06.only_errors
#print axioms CE.Disc.C06.edge_wf
#print axioms CE.Disc.C06.p_in_unit
#print axioms CE.Disc.C06.nodes_exact
#print axioms CE.Disc.C06.no_duplicate_triple
#print axioms CE.Disc.C06.cmi_not_finite_negative
#print axioms CE.Disc.C06.selOfCoef_spec
#print axioms CE.Disc.C06.selOfCoef_sorted
#print axioms CE.Disc.C06.lassoOK_of_coef
