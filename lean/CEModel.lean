import CEModel.Num
import CEModel.JsonIO
import CEModel.Stats
