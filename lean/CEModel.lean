import CEModel.Num
import CEModel.JsonIO
import CEModel.Stats
import CEModel.Discovery
import CEModel.DiscoveryIO
