import Lean.Data.Json
import CEModel
open Lean CE

def handlers : List (String × (Json → R Json)) := [
  ("tpr_fpr", Stats.hTprFpr),
  ("auc", Stats.hAuc),
  ("discover", Disc.hDiscover),
  ("ocse", Disc.hOcse),
  ("spec_ok", Disc.hSpecOk),
  ("shuffle_decide", Disc.hShuffleDecide),
  ("lag_index", Disc.hLagCols),
  ("sel_of_coef", Disc.hSelOfCoef),
  ("logistic_step", Syn.hLogisticStep),
  ("row_normalise", Syn.hRowNormalise),
  ("linear_series", Syn.hLinearSeries),
  ("build_a", Syn.hBuildA),
  ("poisson_rate", Syn.hPoissonRate),
  ("subnetwork", Lin.hSubnetwork),
  ("companion", Lin.hCompanion),
  ("pcmci_to_graph", Graph.hPcmciToGraph),
  ("graph_to_pcmci", Graph.hGraphToPcmci),
  ("round_trips", Graph.hRoundTrips),
  ("export_frame", Graph.hExportFrame),
  ("export_pcmci", Graph.hExportPcmci),
  ("knn", Knn.hKnn),
  ("gauss_ratio", Gauss.hGaussRatio),
  ("poisson_entropy", Poisson.hPoissonEntropy),
  ("joint_entropy", Poisson.hJointEntropy),
  ("optimise", Plot.hOptimise),
  ("seed_order", Plot.hSeedOrder),
  ("style", Plot.hStyle),
  ("floor", Dispatch.hFloor),
  ("kde", Kde.hKde),
  ("geom_parts", Geom.hGeomParts),
  ("geom_spectral", Geom.hGeomSpectral),
  ("poisson_mi", PoissonMI.hPoissonMI),
  ("poisson_mi_args", PoissonMI.hPoissonMIArgs)
]

def handle (j : Json) : Json :=
  let id := (j.getObjVal? "id").toOption.getD .null
  match j.getObjVal? "op" with
  | .ok (.str op) =>
    match handlers.lookup op with
    | some h =>
      match h j with
      | .ok r => Json.mkObj [("id", id), ("ok", r)]
      | .error e => Json.mkObj [("id", id), ("err", .str e)]
    | none => Json.mkObj [("id", id), ("err", .str "bad-op")]
  | _ => Json.mkObj [("id", id), ("err", .str "bad-op")]

partial def loop (h : IO.FS.Stream) (out : IO.FS.Stream) : IO Unit := do
  let line ← h.getLine
  if line.isEmpty then return ()
  let resp := match Json.parse line with
    | .ok j => handle j
    | .error e => Json.mkObj [("id", .null), ("err", .str s!"bad-json {e}")]
  out.putStrLn resp.compress
  loop h out

def main : IO Unit := do
  let out ← IO.getStdout
  loop (← IO.getStdin) out
  out.flush
