import CEProofs.C17
