import CEProofs.C17
import CEProofs.C03
import CEProofs.C04
import CEProofs.C09
