import CEModel.JsonIO
import CEModel.Poisson
/-! Model of `kde_entropy`, `kde_mutual_information`, `kde_conditional_mutual_information`
(C11 KDE part, C10), Gaussian kernel. One definition over core type classes: executed at `Float`,
reasoned about over any field with `exp`/`log` *uninterpreted* (the invariance theorems hold for
whatever those functions are). -/
namespace CE.Kde

section generic
variable {α : Type} [Add α] [Sub α] [Mul α] [Div α] [Neg α] [OfNat α 0]

def sumL : List α → α
  | [] => 0
  | a :: as => a + sumL as

/-- squared Euclidean distance between two rows -/
def sqdist (a b : List α) : α := sumL (List.zipWith (fun x y => (x - y) * (x - y)) a b)

/-- kernel density estimate at `x`: `c · Σ_j exp(−|x − x_j|² / (2h²)) / N`
(`c` = normalisation `(2π)^{−d/2} h^{−d}`, `twoHsq = 2h²`, `n = N` as an element of `α`) -/
def density (exp : α → α) (c twoHsq n : α) (rows : List (List α)) (x : List α) : α :=
  c * sumL (rows.map (fun xj => exp (-(sqdist x xj / twoHsq)))) / n

/-- `kde_entropy`: minus the mean log density at the samples themselves -/
def entropy (exp log : α → α) (c twoHsq n : α) (rows : List (List α)) : α :=
  -(sumL (rows.map (fun x => log (density exp c twoHsq n rows x))) / n)

/-- bandwidth-dependent constants for a sample of dimension `d`: `(c, 2h²)` -/
abbrev Consts (α : Type) := Nat → α × α

def hcat (X Y : List (List α)) : List (List α) := List.zipWith (· ++ ·) X Y

def dim (X : List (List α)) : Nat := (X.headD []).length

/-- `kde_mutual_information`: `H(X) + H(Y) − H(X,Y)` -/
def mi (exp log : α → α) (k : Consts α) (n : α) (X Y : List (List α)) : α :=
  let H := fun (S : List (List α)) => entropy exp log (k (dim S)).1 (k (dim S)).2 n S
  H X + H Y - H (hcat X Y)

/-- `kde_conditional_mutual_information`: `H(X,Z) + H(Y,Z) − H(X,Y,Z) − H(Z)` -/
def cmi (exp log : α → α) (k : Consts α) (n : α) (X Y Z : List (List α)) : α :=
  let H := fun (S : List (List α)) => entropy exp log (k (dim S)).1 (k (dim S)).2 n S
  H (hcat X Z) + H (hcat Y Z) - H (hcat (hcat X Y) Z) - H Z

end generic

/-! ### Float instance: bandwidth rules as the installed scikit-learn defines them -/

def pi : Float := 3.141592653589793

/-- `bw = "scott"`: `N^(−1/(d+4))`; `"silverman"`: `(N (d+2)/4)^(−1/(d+4))`; numeric: itself -/
def bandwidth (rule : String) (num : Float) (N d : Nat) : Float :=
  match rule with
  | "scott" => Float.pow N.toFloat (-1 / (d.toFloat + 4))
  | "silverman" => Float.pow (N.toFloat * (d.toFloat + 2) / 4) (-1 / (d.toFloat + 4))
  | _ => num

def constsF (rule : String) (num : Float) (N : Nat) : Consts Float := fun d =>
  let h := bandwidth rule num N d
  (Float.pow (2 * pi) (-(d.toFloat) / 2) * Float.pow h (-(d.toFloat)), 2 * h * h)

open Lean in
def hKde (j : Json) : R Json := do
  let rule ← jStr (← jField j "rule")
  let num ← match jFieldOpt j "h" with
    | some h => Poisson.jFloat h
    | none => pure 0
  let X ← jMat Poisson.jFloat (← jField j "X")
  let N := X.length
  let k := constsF rule num N
  let n := N.toFloat
  match jFieldOpt j "Y" with
  | none => return Poisson.floatJ (entropy Float.exp Float.log (k (dim X)).1 (k (dim X)).2 n X)
  | some yj =>
    let Y ← jMat Poisson.jFloat yj
    match jFieldOpt j "Z" with
    | none => return Poisson.floatJ (mi Float.exp Float.log k n X Y)
    | some zj =>
      let Z ← jMat Poisson.jFloat zj
      return Poisson.floatJ (cmi Float.exp Float.log k n X Y Z)

end CE.Kde
