import CEModel.JsonIO
/-! Model of the dispatcher `conditional_mutual_information` (C09). The tables are
*regenerated from the Python AST on every run* (`harness/gen_tables.py` → `Generated/Tables.lean`);
this file defines their type, the semantics of a dispatch under a table, the decidable
well-formedness check `tableOK`, and the zero floor. -/
namespace CE.Dispatch

/-- a call `callee(X, Y[, Z], kw = <name>, …)`: keyword ↦ name of the variable passed -/
structure Call where
  callee : String
  kws    : List (String × String)
  deriving Repr, DecidableEq, Inhabited

structure Tables where
  /-- branches of the `if method == …` chain: names handled ↦ call of the conditional estimator
  (keyword values are parameters of the dispatcher) -/
  dispatch   : List (List String × Call)
  /-- `if Z is None:` path of each conditional estimator: `some call` (keyword values are parameters
  of that estimator) or `none` when the value is computed inline -/
  fallback   : List (String × Option Call)
  /-- setting parameters (besides X, Y, Z) each function accepts, from its signature -/
  accepts    : List (String × List String)
  /-- the final `else` raises `ValueError` -/
  elseRaises : Bool
  /-- the result is `max(0.0, cmi)` iff `np.isfinite(cmi)`, else `cmi` unchanged -/
  floorShape : Bool
  deriving Repr, DecidableEq, Inhabited

/-- where the value of a setting that reaches an estimator comes from -/
inductive Src
  | given (dispatcherParam : String)   -- the caller's value of that dispatcher parameter
  | default                            -- silently the callee's default
  deriving Repr, DecidableEq, Inhabited

def accepted (t : Tables) (fn : String) : List String := (t.accepts.lookup fn).getD []

/-- settings arriving at `call.callee` when the variables of the calling scope have sources `env` -/
def flow (t : Tables) (env : String → Src) (call : Call) : List (String × Src) :=
  (accepted t call.callee).map (fun p =>
    match call.kws.lookup p with
    | some v => (p, env v)
    | none => (p, .default))

/-- Which base estimator is evaluated for `name`, and the source of each of its settings.
`none` = the dispatcher raises `ValueError`. -/
def resolve (t : Tables) (name : String) (zPresent : Bool) : Option (String × List (String × Src)) :=
  match t.dispatch.find? (fun b => b.1.contains name) with
  | none => none
  | some b =>
    let condSettings := flow t (fun v => .given v) b.2
    if zPresent then some (b.2.callee, condSettings)
    else
      match t.fallback.lookup b.2.callee with
      | some (some call) =>
        some (call.callee, flow t (fun v => (condSettings.lookup v).getD .default) call)
      | _ => some (b.2.callee, condSettings)     -- computed inline by the conditional estimator

/-- documented: estimator evaluated for each public name, with and without conditioning set -/
def expectedFn : String → Bool → Option String
  | "gaussian", true => some "gaussian_conditional_mutual_information"
  | "gaussian", false => some "gaussian_mutual_information"
  | "kde", true => some "kde_conditional_mutual_information"
  | "kde", false => some "kde_mutual_information"
  | "kernel_density", true => some "kde_conditional_mutual_information"
  | "kernel_density", false => some "kde_mutual_information"
  | "knn", true => some "knn_conditional_mutual_information"
  | "knn", false => some "knn_mutual_information"
  | "geometric_knn", true => some "geometric_knn_conditional_mutual_information"
  | "geometric_knn", false => some "geometric_knn_mutual_information"
  | "poisson", _ => some "poisson_conditional_mutual_information"
  | _, _ => none

/-- documented settings of each estimator family -/
def expectedSettings : String → List String
  | "kde" => ["bandwidth", "kernel"]
  | "kernel_density" => ["bandwidth", "kernel"]
  | "knn" => ["metric", "k"]
  | "geometric_knn" => ["metric", "k"]
  | _ => []

def publicNames : List String := ["gaussian", "kde", "kernel_density", "knn", "geometric_knn", "poisson"]

/-- one (name, path) is dispatched correctly: the documented estimator is evaluated and every
setting it accepts is the caller's value of the same-named dispatcher parameter -/
def entryOK (t : Tables) (name : String) (zPresent : Bool) : Bool :=
  match resolve t name zPresent, expectedFn name zPresent with
  | some (fn, settings), some efn =>
    fn == efn &&
    (expectedSettings name).all (fun p => settings.lookup p == some (.given p)) &&
    settings.all (fun ps => ps.2 == .given ps.1)
  | _, _ => false

def tableOK (t : Tables) : Bool :=
  publicNames.all (fun n => entryOK t n true && entryOK t n false) &&
  t.elseRaises && t.floorShape &&
  -- no branch handles a name outside the public list
  t.dispatch.all (fun b => b.1.all publicNames.contains)

/-- `tableOK` except for the listed (name, zPresent) entries (known findings) -/
def tableOKExcept (t : Tables) (skip : List (String × Bool)) : Bool :=
  publicNames.all (fun n => (skip.contains (n, true) || entryOK t n true) &&
                            (skip.contains (n, false) || entryOK t n false)) &&
  t.elseRaises && t.floorShape && t.dispatch.all (fun b => b.1.all publicNames.contains)

/-- the zero floor: `max(0.0, v)` for finite `v`, anything else unchanged -/
def floor (v : Val) : Val :=
  match v with
  | .fin q => .fin (max 0 q)
  | other => other

/-- value returned by the dispatcher under table `t`: `est fn settings` is what estimator `fn`
yields on the caller's data when its settings come from the given sources -/
def dispatchValue (t : Tables) (est : String → List (String × Src) → Val) (name : String)
    (zPresent : Bool) : Option Val :=
  (resolve t name zPresent).map (fun r => if t.floorShape then floor (est r.1 r.2) else est r.1 r.2)

open Lean in
def hFloor (j : Json) : R Json := do
  return valJ (floor (← jVal (← jField j "v")))

end CE.Dispatch
