import CEModel.Discovery
import CEModel.OcseSpec
/-! Driver handlers for the discovery model: scripted estimators / oracles. -/
open Lean
namespace CE.Disc

def hashP : Nat := 2147483647

def ratToNatMod (q : Rat) : Nat := (q.num % (hashP : Int)).toNat

/-- Scripted estimator shared (by construction) with `harness/props/disc_common.py`:
invariant under joint row reordering and under reordering of the conditioning columns,
sensitive to everything else. `levels` distinct values `k/levels`; NaN when the predictor
column coincides with a conditioning column and `nanOwn` is set. -/
def hashEst (levels : Nat) (salt : Nat) (nanOwn : Bool) : Est := fun x y z =>
  if nanOwn && z.any (fun c => c == x) then .nan else
  let n := x.length
  let acc := (List.range n).foldl (fun (acc : Nat) r =>
    let xv := ratToNatMod (x.getD r 0)
    let yv := ratToNatMod (y.getD r 0)
    let zs := z.foldl (fun (a : Nat) c =>
      let zv := ratToNatMod (c.getD r 0)
      (a + (zv + 11) * (zv + 13)) % hashP) 1
    (acc + (((xv + 3 + salt) * (yv + 5)) % hashP) * zs) % hashP) 0
  .fin (((acc % levels : Nat) : Rat) / (levels : Rat))

def phaseJ : Phase → Json
  | .fwd => "fwd" | .bwd => "bwd" | .edge => "edge"

def evJ (e : Ev) : Json :=
  Json.arr #[phaseJ e.phase, ratJ e.level, natJ e.cand, listJ natJ e.cond, valJ e.obs, .bool e.pass, ratJ e.p]

def edgeJ (e : Edge) : Json :=
  Json.arr #[natJ e.src, natJ e.dst, natJ e.lag, valJ e.cmi, ratJ e.p]

def resultJ (r : Result) : Json :=
  Json.mkObj [("edges", listJ edgeJ r.edges), ("events", listJ evJ r.evs),
    ("draws", natJ r.draws), ("sel", listJ (listJ natJ) r.sel)]

def errJ : Err → Json
  | .notImplemented => Json.mkObj [("error", "NotImplementedError")]
  | .valueError => Json.mkObj [("error", "ValueError")]

/-- op `discover` -/
def hDiscover (j : Json) : R Json := do
  let s ← jMat jRat (← jField j "series")
  let T := s.length
  let n ← jNat (← jField j "n")
  let P : Params := {
    method := ← jStr (← jField j "method"), information := ← jStr (← jField j "information"),
    L := ← jNat (← jField j "L"), αf := ← jRat (← jField j "af"), αb := ← jRat (← jField j "ab"),
    nShuffles := ← jNat (← jField j "nsh") }
  let perms ← jList (jList jNat) (← jField j "perms")
  let lasso ← match jFieldOpt j "lasso" with
    | some l => jList (jList jNat) l
    | none => pure []
  let levels ← jNat (← jField j "levels")
  let salt ← jNat (← jField j "salt")
  let nanOwn ← jBool (← jField j "nan_own")
  let permsA := perms.toArray
  let lassoA := lasso.toArray
  match discover P (hashEst levels salt nanOwn) (fun c => permsA.getD c []) (fun i => lassoA.getD i []) s T n with
  | .ok r => return resultJ r
  | .error e => return errJ e

/-- table-driven oracles for op `ocse`: `f` entries `[cand, [Z…], value]` (missing ⇒ a huge value, so a
candidate the implementation never evaluated would win), slot `c` holds either a verdict
`[pass, p]` or a visiting order. -/
def tableOracles (ftab : List (Nat × List Nat × Val)) (tests : Array (Bool × Rat)) (orders : Array (List Nat)) :
    Oracles where
  f j Z := match ftab.find? (fun e => e.1 == j && e.2.1 == Z) with
    | some e => e.2.2
    | none => .fin 999999
  test c _ _ _ _ := tests.getD c (false, 0)
  order c _ := orders.getD c []
  cost := 1

def jFEntry (j : Json) : R (Nat × List Nat × Val) := do
  match (← jArr j) with
  | [a, b, c] => return (← jNat a, ← jList jNat b, ← jVal c)
  | _ => throw "bad f entry"

def jSlot (j : Json) : R ((Bool × Rat) × List Nat) := do
  match j with
  | .obj _ =>
    match jFieldOpt j "order" with
    | some o => return ((false, 0), ← jList jNat o)
    | none => return ((← jBool (← jField j "pass"), ← jRat (← jField j "p")), [])
  | _ => throw "bad slot"

/-- op `ocse`: run one target's selection (and optionally the edge loop) on scripted oracles -/
def hOcse (j : Json) : R Json := do
  let variant ← jStr (← jField j "variant")
  let n ← jNat (← jField j "ncand")
  let zinit ← jList jNat (← jField j "zinit")
  let αf ← jRat (← jField j "af")
  let αb ← jRat (← jField j "ab")
  let ftab ← jList jFEntry (← jField j "f")
  let slots ← jList jSlot (← jField j "slots")
  let o := tableOracles ftab (slots.map (·.1)).toArray (slots.map (·.2)).toArray
  let st ← match variant with
    | "standard" => pure (ocseStd o αf αb n zinit 0)
    | "alternative" => pure (ocseAlt o αf αb n 0)
    | "standard_forward" => pure (fwdStd o αf n (List.range n) zinit { S := [], c := 0, evs := [] })
    | "alternative_forward" => pure (fwdAlt o αf n n { S := [], c := 0, evs := [] })
    | "backward" => pure (backward o αb { S := zinit, c := 0, evs := [] })
    | _ => throw "bad variant"
  return Json.mkObj [("S", listJ natJ st.S), ("events", listJ evJ st.evs), ("draws", natJ st.c)]

def jPhase (j : Json) : R Phase := do
  match (← jStr j) with
  | "fwd" => return .fwd
  | "bwd" => return .bwd
  | "edge" => return .edge
  | _ => throw "bad phase"

def jEv (j : Json) : R Ev := do
  match (← jArr j) with
  | [ph, lv, c, z, o, pa, p] =>
    return { phase := ← jPhase ph, level := ← jRat lv, cand := ← jNat c, cond := ← jList jNat z,
             obs := ← jVal o, pass := ← jBool pa, p := ← jRat p }
  | _ => throw "bad event"

/-- op `spec_ok`: judge a trace RECORDED FROM THE IMPLEMENTATION by the declarative checker -/
def hSpecOk (j : Json) : R Json := do
  let variant ← jBool (← jField j "standard")
  let n ← jNat (← jField j "ncand")
  let zinit ← jList jNat (← jField j "zinit")
  let αf ← jRat (← jField j "af")
  let αb ← jRat (← jField j "ab")
  let ftab ← jList jFEntry (← jField j "f")
  let evs ← jList jEv (← jField j "events")
  let result ← jList jNat (← jField j "result")
  let o := tableOracles ftab #[] #[]
  return .bool (specOK variant o.f αf αb n zinit evs result)

/-- op `shuffle_decide`: threshold bracket, exact threshold, p-value and verdict from null values -/
def hShuffleDecide (j : Json) : R Json := do
  let null ← jList jVal (← jField j "null")
  let obs ← jVal (← jField j "obs")
  let α ← jRat (← jField j "alpha")
  let r := decideTest null obs α
  let n := null.length
  let h : Rat := ((n : Rat) - 1) * (1 - α)
  let lo := h.floor.toNat
  let hi := min (lo + 1) (n - 1)
  let sorted := match null.mapM finOf with
    | some qs => sortRat qs
    | none => []
  return Json.mkObj [("thr", valJ r.thr), ("pass", .bool r.pass), ("p", ratJ r.p),
    ("lo", natJ lo), ("hi", natJ hi), ("slo", optJ ratJ (sorted[lo]?)), ("shi", optJ ratJ (sorted[hi]?))]

/-- op `sel_of_coef`: LASSO selection from a coefficient vector, and the LassoLarsIC/Lasso branch -/
def hSelOfCoef (j : Json) : R Json := do
  let coef ← jList jRat (← jField j "coef")
  let rows ← jNat (← jField j "rows")
  let ncols ← jNat (← jField j "ncols")
  return Json.mkObj [("sel", listJ natJ (selOfCoef coef)), ("lars", .bool (lassoUsesLarsIC rows ncols))]

/-- op `lag_index`: the time index and variable of every entry of X_lagged / target (coded check) -/
def hLagCols (j : Json) : R Json := do
  let s ← jMat jRat (← jField j "series")
  let L ← jNat (← jField j "L")
  let T := s.length
  let n ← jNat (← jField j "n")
  let cols := (List.range (n * L)).map (fun c => xCol s L T c)
  let tg := (List.range n).map (fun i => targetCol s L T i)
  return Json.mkObj [("xcols", matJ ratJ cols), ("targets", matJ ratJ tg),
    ("labels", listJ (fun c => Json.arr #[natJ (label L c).1, natJ (label L c).2]) (List.range (n * L)))]

end CE.Disc
