import CEModel.Geometric
import CEModel.Gaussian
import CEModel.JsonIO
/-! Exact (rational) invariants of the local ellipsoid correction of `geometric_knn_entropy` (C12):
for a local configuration `Y` (rows in ℚ^d) with Gram matrix `G = YᵀY`

* `charCoeffs`: the elementary symmetric polynomials `e_1 … e_d` of the eigenvalues of `G`
  (sums of principal minors) — the squared singular values of `Y` are exactly the roots of
  `λ^d − e_1 λ^(d−1) + e_2 λ^(d−2) − …`, so `e_m(S²)` of the singular values `S` returned by the
  SVD routine must reproduce them;
* `quadForm`: `zᵀ G⁻¹ z` by Cramer's rule — the basis-free value of the ellipsoid test
  `Σ_j ((z·v_j)/σ_j)²` of `hyperellipsoid_check` when `G` is invertible.

Everything is a polynomial expression in `detF` (proved equal to Mathlib's `Matrix.det`). -/
open Lean
namespace CE.Geom

open CE.Gauss (detF)

abbrev QMat := List (List Rat)

def qentry (M : QMat) (r c : Nat) : Rat := (M.getD r []).getD c 0

/-- `G = YᵀY` (d × d) -/
def gram (Y : QMat) (d : Nat) : QMat :=
  (List.range d).map fun a => (List.range d).map fun b => (Y.map fun y => y.getD a 0 * y.getD b 0).sum

/-- determinant of the principal submatrix on the (increasing) index list `idx` -/
def minor (G : QMat) (idx : List Nat) : Rat :=
  detF idx.length (fun a b => qentry G (idx.getD a.val 0) (idx.getD b.val 0))

/-- all sublists of `l` of length `m`, in lexicographic order -/
def choose : List Nat → Nat → List (List Nat)
  | _, 0 => [[]]
  | [], _ + 1 => []
  | x :: xs, m + 1 => (choose xs m).map (x :: ·) ++ choose xs (m + 1)

/-- `e_m` of the eigenvalues of `G`: sum of the principal `m × m` minors, `m = 1 … d` -/
def charCoeffs (G : QMat) (d : Nat) : List Rat :=
  (List.range d).map fun m => ((choose (List.range d) (m + 1)).map (minor G)).sum

/-- `G` with column `j` replaced by `z` -/
def replaceCol (G : QMat) (j : Nat) (z : List Rat) : QMat :=
  G.zipIdx.map fun (row, a) => row.zipIdx.map fun (v, b) => if b = j then z.getD a 0 else v

/-- `zᵀ G⁻¹ z` by Cramer's rule (`none` when `det G = 0`) -/
def quadForm (G : QMat) (d : Nat) (z : List Rat) : Option Rat :=
  let dt := minor G (List.range d)
  if dt = 0 then none
  else some (((List.range d).map fun j => z.getD j 0 * minor (replaceCol G j z) (List.range d)).sum / dt)

end CE.Geom
