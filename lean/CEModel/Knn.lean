import CEModel.JsonIO
/-! Model of the KSG k-nearest-neighbour estimators `knn_mutual_information` and
`knn_conditional_mutual_information` (C11, C10). Exact over ℚ: distances are replaced by
order-isomorphic *keys* (squared Euclidean distance, so no square root), and the digamma
function at positive integers by harmonic numbers (Euler's constant cancels). -/
namespace CE.Knn

abbrev Pt := List Rat
abbrev Sample := List Pt           -- list of rows

inductive Metric | euclidean | cityblock | chebyshev
  deriving Repr, BEq, DecidableEq, Inhabited

def absR (q : Rat) : Rat := if q < 0 then -q else q

/-- order-isomorphic image of the distance between two rows -/
def key : Metric → Pt → Pt → Rat
  | .euclidean, a, b => (List.zipWith (fun x y => (x - y) * (x - y)) a b).foldl (· + ·) 0
  | .cityblock, a, b => (List.zipWith (fun x y => absR (x - y)) a b).foldl (· + ·) 0
  | .chebyshev, a, b => (List.zipWith (fun x y => absR (x - y)) a b).foldl max 0

/-- `np.column_stack((X, Y))` -/
def hcat (X Y : Sample) : Sample := List.zipWith (· ++ ·) X Y

def sortRat (l : List Rat) : List Rat := l.mergeSort (fun a b => decide (a ≤ b))

/-- keys from row `x` to every row of `S` (the row of the distance matrix, self included) -/
def keyRow (m : Metric) (S : Sample) (x : Pt) : List Rat := S.map (key m x)

/-- `np.sort(cdist(JS, JS), axis=1)[:, k]` for sample `i`: the whole row is sorted, the
self-distance 0 included, and index `k` is taken -/
def radius (m : Metric) (k : Nat) (JS : Sample) (x : Pt) : Rat := (sortRat (keyRow m JS x)).getD k 0

/-- `np.sum(D < eps[:, None], axis=1) - 1` for sample `i` (count over all samples, minus the sample
itself). Truncated subtraction: the real code yields −1 when `eps = 0` (duplicate points). -/
def countIn (m : Metric) (S : Sample) (x : Pt) (eps : Rat) : Nat :=
  (keyRow m S x).countP (fun d => decide (d < eps)) - 1

/-- harmonic number `H_n = Σ_{i=1}^n 1/i`; `digamma(n+1) = −γ + H_n` -/
def harm : Nat → Rat
  | 0 => 0
  | n + 1 => harm n + 1 / ((n : Rat) + 1)

def sumR (l : List Rat) : Rat := l.foldl (· + ·) 0
def mean (l : List Rat) : Rat := sumR l / (l.length : Rat)

/-- KSG mutual information with an arbitrary `ψ` on positive integers (as the code computes it) -/
def knnMIψ (ψ : Nat → Rat) (m : Metric) (k : Nat) (X Y : Sample) : Rat :=
  let JS := hcat X Y
  let N := X.length
  let terms := (List.zipWith (fun (x : Pt) (y : Pt) => (x, y)) X Y).map (fun xy =>
    let eps := radius m k JS (xy.1 ++ xy.2)
    ψ (countIn m X xy.1 eps + 1) + ψ (countIn m Y xy.2 eps + 1))
  ψ k + ψ N - mean terms

/-- γ-free rational form: `H_{k−1} + H_{N−1} − ⟨H_{n_x} + H_{n_y}⟩` -/
def knnMI (m : Metric) (k : Nat) (X Y : Sample) : Rat :=
  let JS := hcat X Y
  let N := X.length
  let terms := (List.zipWith (fun (x : Pt) (y : Pt) => (x, y)) X Y).map (fun xy =>
    let eps := radius m k JS (xy.1 ++ xy.2)
    harm (countIn m X xy.1 eps) + harm (countIn m Y xy.2 eps))
  harm (k - 1) + harm (N - 1) - mean terms

def zip3 (X Y Z : Sample) : List (Pt × Pt × Pt) :=
  List.zipWith (fun x yz => (x, yz)) X (List.zipWith (fun y z => (y, z)) Y Z)

/-- KSG conditional mutual information with an arbitrary `ψ` -/
def knnCMIψ (ψ : Nat → Rat) (m : Metric) (k : Nat) (X Y Z : Sample) : Rat :=
  let JS := hcat (hcat X Y) Z
  let XZ := hcat X Z
  let YZ := hcat Y Z
  let terms := (zip3 X Y Z).map (fun t =>
    let x := t.1; let y := t.2.1; let z := t.2.2
    let eps := radius m k JS (x ++ y ++ z)
    ψ (countIn m XZ (x ++ z) eps + 1) + ψ (countIn m YZ (y ++ z) eps + 1) - ψ (countIn m Z z eps + 1))
  ψ k - mean terms

/-- γ-free rational form: `H_{k−1} − ⟨H_{n_xz} + H_{n_yz} − H_{n_z}⟩` -/
def knnCMI (m : Metric) (k : Nat) (X Y Z : Sample) : Rat :=
  let JS := hcat (hcat X Y) Z
  let XZ := hcat X Z
  let YZ := hcat Y Z
  let terms := (zip3 X Y Z).map (fun t =>
    let x := t.1; let y := t.2.1; let z := t.2.2
    let eps := radius m k JS (x ++ y ++ z)
    harm (countIn m XZ (x ++ z) eps) + harm (countIn m YZ (y ++ z) eps) - harm (countIn m Z z eps))
  harm (k - 1) - mean terms

/-! ### Declarative reading of the documented formula (the "brute-force" specification) -/

/-- keys from `x` to the OTHER samples: the sample list with position `i` removed -/
def othersKeys (m : Metric) (S : Sample) (i : Nat) : List Rat :=
  (S.eraseIdx i).map (key m (S.getD i []))

/-- distance key to the `k`-th nearest OTHER sample (`k ≥ 1`) -/
def radiusSpec (m : Metric) (k : Nat) (JS : Sample) (i : Nat) : Rat :=
  (sortRat (othersKeys m JS i)).getD (k - 1) 0

/-- number of OTHER samples strictly inside the radius -/
def countSpec (m : Metric) (S : Sample) (i : Nat) (eps : Rat) : Nat :=
  (othersKeys m S i).countP (fun d => decide (d < eps))

def knnMISpec (m : Metric) (k : Nat) (X Y : Sample) : Rat :=
  let JS := hcat X Y
  let N := X.length
  let terms := (List.range N).map (fun i =>
    let eps := radiusSpec m k JS i
    harm (countSpec m X i eps) + harm (countSpec m Y i eps))
  harm (k - 1) + harm (N - 1) - mean terms

def knnCMISpec (m : Metric) (k : Nat) (X Y Z : Sample) : Rat :=
  let JS := hcat (hcat X Y) Z
  let N := X.length
  let terms := (List.range N).map (fun i =>
    let eps := radiusSpec m k JS i
    harm (countSpec m (hcat X Z) i eps) + harm (countSpec m (hcat Y Z) i eps) - harm (countSpec m Z i eps))
  harm (k - 1) - mean terms

open Lean in
def jMetric (j : Json) : R Metric := do
  match (← jStr j) with
  | "euclidean" => return .euclidean
  | "cityblock" => return .cityblock
  | "chebyshev" => return .chebyshev
  | s => throw s!"unsupported metric {s}"

/-- smallest relative gap between a radius and any key it is compared with (near-tie filter).
Exact ties are not counted: they are decided identically (strict `<` is false) in exact and in
floating-point arithmetic (e.g. Chebyshev, where the joint key IS one of the marginal keys). -/
def minGap (m : Metric) (k : Nat) (JS : Sample) (margs : List Sample) : Rat :=
  let gaps := (List.range JS.length).flatMap (fun i =>
    let eps := radius m k JS (JS.getD i [])
    margs.flatMap (fun S => (keyRow m S (S.getD i [])).map (fun d =>
      if eps = 0 then 0 else if d = eps then 1 else absR (d - eps) / eps)))
  gaps.foldl min 1

open Lean in
def hKnn (j : Json) : R Json := do
  let m ← jMetric (← jField j "metric")
  let k ← jNat (← jField j "k")
  let X ← jMat jRat (← jField j "X")
  let Y ← jMat jRat (← jField j "Y")
  match jFieldOpt j "Z" with
  | none =>
    return Json.mkObj [("value", ratJ (knnMI m k X Y)), ("spec", ratJ (knnMISpec m k X Y)),
      ("gap", ratJ (minGap m k (hcat X Y) [X, Y]))]
  | some zj =>
    let Z ← jMat jRat zj
    return Json.mkObj [("value", ratJ (knnCMI m k X Y Z)), ("spec", ratJ (knnCMISpec m k X Y Z)),
      ("gap", ratJ (minGap m k (hcat (hcat X Y) Z) [hcat X Z, hcat Y Z, Z]))]

end CE.Knn
