/-! Exact number transport: IEEE-754 doubles as rationals, and NumPy-style extended values.
Core Lean only (no Mathlib), so that the driver links as a native executable. -/
namespace CE

/-- `2^e` as a rational for any integer `e`. -/
def pow2 (e : Int) : Rat :=
  if e ≥ 0 then ((2 ^ e.toNat : Nat) : Rat) else 1 / ((2 ^ (-e).toNat : Nat) : Rat)

/-- Extended value as NumPy sees a float64: NaN, ±∞ or a finite (rational) number. -/
inductive Val where
  | nan | ninf | pinf
  | fin (q : Rat)
  deriving Repr, BEq, DecidableEq, Inhabited

/-- Decode the 64-bit pattern of an IEEE double. -/
def valOfBits (bits : Nat) : Val :=
  let sign : Nat := bits / 2^63
  let expo : Nat := (bits / 2^52) % 2^11
  let frac : Nat := bits % 2^52
  if expo = 2047 then
    (if frac ≠ 0 then .nan else if sign = 1 then .ninf else .pinf)
  else
    let mant : Nat := if expo = 0 then frac else frac + 2^52
    let e : Int := (if expo = 0 then (1 : Int) else (expo : Int)) - 1075
    let mag : Rat := (mant : Rat) * pow2 e
    .fin (if sign = 1 then -mag else mag)

/-- Decode the 64-bit pattern of a finite IEEE double into the rational it denotes
(`none` for NaN and infinities). -/
def ratOfBits (bits : Nat) : Option Rat :=
  match valOfBits bits with
  | .fin q => some q
  | _ => none

namespace Val

/-- IEEE `a <= b`: false as soon as a NaN is involved. -/
def le : Val → Val → Bool
  | nan, _ => false
  | _, nan => false
  | ninf, _ => true
  | _, pinf => true
  | pinf, _ => false
  | _, ninf => false
  | fin a, fin b => decide (a ≤ b)

/-- IEEE `a < b`. -/
def lt : Val → Val → Bool
  | nan, _ => false
  | _, nan => false
  | pinf, _ => false
  | _, ninf => false
  | ninf, _ => true
  | _, pinf => true
  | fin a, fin b => decide (a < b)

def ge (a b : Val) : Bool := le b a
def gt (a b : Val) : Bool := lt b a

def isNan : Val → Bool
  | nan => true
  | _ => false

def isFinite : Val → Bool
  | fin _ => true
  | _ => false

end Val

end CE
