import CEModel.Kde
/-! Model of `geometric_knn_entropy(X, Xdist, k)` (`core/information/entropy.py`),
`geometric_knn_mutual_information` and `geometric_knn_conditional_mutual_information` (C12).

One definition over core type classes (like `Kde.lean` / `Poisson.lean`); it mirrors the Python
control flow. Everything numerical that the proofs must not look into is a *parameter*, collected
in `Env`: `log`, `sqrt`, the SVD-based local correction `corr Y_i Z_i` (`Y_i` = centred
neighbourhood, `Z_i` = neighbour offsets: SVD of `Y_i`, ellipsoid membership count of the rows of
`Z_i`, singular-value ratios, their 1e-12 guards), the embedding `cast : ℕ → α`, the guard constant
`tiny` (1e-12) and its replacement value `logTiny` (−12.0). The constants `log N`, `log c_d`
(log unit-ball volume) and `d / N` are computed by the caller and passed in as elements of `α`.

Deviations from the Python, all outside the quantifier of C12:
* `argsortIdx` is a *stable* argsort (`List.mergeSort` on `(key, index)` pairs); NumPy's default
  `argsort` (introsort) is not stable, but the property is over tie-free samples, where every
  argsort agrees.
* The mean of the corrections is over all `N` samples: `corr` is total here. The Python's
  `try/except LinAlgError` + `np.isfinite` filtering (mean over the *successful* corrections only,
  with a warning) is a runtime detail of LAPACK's SVD and is not modelled.
* The harness does not execute this file at `Float`; C12 uses an independent Python reference
  evaluation. The definitions are nevertheless executable. -/
namespace CE.Geom
open CE.Kde (sumL sqdist hcat dim)

/-- the uninterpreted numerical ingredients -/
structure Env (α : Type) where
  log     : α → α
  sqrt    : α → α
  /-- local ellipsoid correction of one sample: `corr Y_i Z_i` -/
  corr    : List (List α) → List (List α) → α
  cast    : Nat → α
  /-- `1e-12` -/
  tiny    : α
  /-- `-12.0` -/
  logTiny : α

section generic
variable {α : Type} [Add α] [Sub α] [Mul α] [Div α] [LE α] [DecidableLE α] [LT α] [DecidableLT α]
  [OfNat α 0]

/-- `np.argsort(keys)`: positions ordered by key (stable: equal keys keep their order) -/
def argsortIdx (keys : List α) : List Nat :=
  (keys.zipIdx.mergeSort (fun a b => decide (a.1 ≤ b.1))).map (·.2)

/-- `np.argsort(Xdist[i, :])[1 : k+1]` -/
def knnIdx (keys : List α) (k : Nat) : List Nat := ((argsortIdx keys).drop 1).take k

/-- `X[j, :]` -/
def row (X : List (List α)) (j : Nat) : List α := X.getD j []

def vsub (a b : List α) : List α := List.zipWith (· - ·) a b

/-- `l2dist(X[i, :], X[Xknn[i, k-1], :])`: the *Euclidean* distance to the k-th neighbour,
whatever metric produced `Xdist` -/
def rho (E : Env α) (X : List (List α)) (k i : Nat) (nbrs : List Nat) : α :=
  E.sqrt (sqdist (row X i) (row X (nbrs.getD (k - 1) 0)))

/-- `np.log(dist) if dist > 1e-12 else -12.0` -/
def logDist (E : Env α) (X : List (List α)) (k i : Nat) (nbrs : List Nat) : α :=
  let r := rho E X k i nbrs
  if E.tiny < r then E.log r else E.logTiny

/-- `np.mean(P, axis=0)` -/
def colMean (E : Env α) (P : List (List α)) : List α :=
  (List.range (dim P)).map (fun j => sumL (P.map (·.getD j 0)) / E.cast P.length)

/-- `Y_i = X[[i] + Xknn[i, :], :] - mean(…, axis=0)` -/
def centred (E : Env α) (X : List (List α)) (i : Nat) (nbrs : List Nat) : List (List α) :=
  let P := (i :: nbrs).map (row X)
  P.map (fun r => vsub r (colMean E P))

/-- `Z_i = X[Xknn[i, :], :] - X[i, :]` -/
def offsets (X : List (List α)) (i : Nat) (nbrs : List Nat) : List (List α) :=
  nbrs.map (fun j => vsub (row X j) (row X i))

/-- `geometric_knn_entropy(X, Xdist, k)`:
`log N + log c_d + (d/N) Σ_i logDist_i + mean_i corr(Y_i, Z_i)` -/
def entropy (E : Env α) (logN logCd dOverN : α) (X Xdist : List (List α)) (k : Nat) : α :=
  let nb := fun i => knnIdx (Xdist.getD i []) k
  let idx := List.range X.length
  logN + logCd
    + dOverN * sumL (idx.map (fun i => logDist E X k i (nb i)))
    + sumL (idx.map (fun i => E.corr (centred E X i (nb i)) (offsets X i (nb i))))
        / E.cast X.length

/-- `X - np.mean(X, axis=0)`: the first statement of `geometric_knn_entropy` since fix `dab500f`
(the distance matrix `Xdist` is the caller's, computed from the un-centred sample) -/
def centreAll (E : Env α) (X : List (List α)) : List (List α) :=
  X.map (fun r => vsub r (colMean E X))

/-- `geometric_knn_entropy(X, Xdist, k)` as the code now runs it: on the centred sample, with the
caller's distance matrix. `CEProofs/C12.lean` (`entropyCode_eq`) proves it equal to `entropy`. -/
def entropyCode (E : Env α) (logN logCd dOverN : α) (X Xdist : List (List α)) (k : Nat) : α :=
  entropy E logN logCd dOverN (centreAll E X) Xdist k

/-- `cdist(X, X, 'euclidean')` up to the order isomorphism `s ↦ √s`: squared Euclidean keys -/
def sqKeys (X : List (List α)) : List (List α) :=
  X.map (fun xi => X.map (fun xj => sqdist xi xj))

/-- the entropy with the distance matrix computed from the sample itself (Euclidean metric) -/
def entropyOf (E : Env α) (logN logCd dOverN : α) (X : List (List α)) (k : Nat) : α :=
  entropy E logN logCd dOverN X (sqKeys X) k

/-- dimension-dependent constants `d ↦ (log c_d, d / N)` -/
abbrev Consts (α : Type) := Nat → α × α

/-- entropy of a block with the constants of its own dimension -/
def H (E : Env α) (logN : α) (c : Consts α) (S : List (List α)) (k : Nat) : α :=
  entropyOf E logN (c (dim S)).1 (c (dim S)).2 S k

/-- `HX + HY - HXY` of `geometric_knn_mutual_information` (before the final clamp) -/
def geomMI (E : Env α) (logN : α) (c : Consts α) (X Y : List (List α)) (k : Nat) : α :=
  H E logN c X k + H E logN c Y k - H E logN c (hcat X Y) k

/-- `geometric_knn_conditional_mutual_information`: `HXZ + HYZ - HXYZ - HZ` (returned as is) -/
def geomCMI (E : Env α) (logN : α) (c : Consts α) (X Y Z : List (List α)) (k : Nat) : α :=
  H E logN c (hcat X Z) k + H E logN c (hcat Y Z) k - H E logN c (hcat (hcat X Y) Z) k
    - H E logN c Z k

/-- the tail of `geometric_knn_mutual_information`: `max(0.0, mi)` (a non-finite `mi` is replaced
by `0.0` before; at `Float` this definition sends NaN to `0` as well). The conditional function
does **not** clamp. -/
def clampMI (mi : α) : α := if 0 < mi then mi else 0

end generic
end CE.Geom
