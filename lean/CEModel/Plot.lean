import CEModel.JsonIO
/-! Model of the layout and styling arithmetic of `causationentropy/core/plotting.py` (C20):
community seed order, the simulated-annealing optimiser under an arbitrary move/accept stream,
circular positions (in turns), per-lag normalisation, colour-map index, arc radius. -/
namespace CE.Plot

/-! ## seed order -/

/-- order-preserving de-duplication (`seen` set of the Python code) -/
def dedup : List Nat → List Nat → List Nat
  | _, [] => []
  | seen, n :: ns => if seen.contains n then dedup seen ns else n :: dedup (n :: seen) ns

/-- `_communities_seed_order`: communities (any output of the community routine, as iterated),
sorted by decreasing size (stable), members by decreasing degree (stable), de-duplicated, then
every graph node not yet seen, in graph order -/
def seedOrder (comms : List (List Nat)) (deg : Nat → Nat) (nodes : List Nat) : List Nat :=
  let sorted := comms.mergeSort (fun a b => decide (a.length ≥ b.length))
  let order := sorted.flatMap (fun c => c.mergeSort (fun a b => decide (deg a ≥ deg b)))
  dedup [] (order ++ nodes)

/-! ## optimiser -/

/-- `cur[i], cur[j] = cur[j], cur[i]` -/
def swapAt (l : List Nat) (i j : Nat) : List Nat :=
  match l[i]?, l[j]? with
  | some a, some b => (l.set i b).set j a
  | _, _ => l

/-- `cur[i:j+1] = reversed(cur[i:j+1])` -/
def revBlock (l : List Nat) (i j : Nat) : List Nat :=
  l.take i ++ ((l.drop i).take (j + 1 - i)).reverse ++ (l.drop i).drop (j + 1 - i)

inductive Move | swap (i j : Nat) | rev (i j : Nat)
  deriving Repr, BEq, DecidableEq, Inhabited

def applyMove (l : List Nat) : Move → List Nat
  | .swap i j => swapAt l i j
  | .rev i j => revBlock l i j

/-- `optimize_circular_order` under a given stream of proposed moves and accept decisions -/
def optimise (best : List Nat) : List (Move × Bool) → List Nat
  | [] => best
  | (m, acc) :: rest => optimise (if acc then applyMove best m else best) rest

/-! ## positions, normalisation, styling -/

/-- angle of the node at list position `i`, in turns: `theta = 2π · i / N` -/
def turn (N i : Nat) : Rat := (i : Rat) / (N : Rat)

def maxR : List Rat → Rat
  | [] => 0
  | [a] => a
  | a :: as => max a (maxR as)

/-- `norm_cmis = cmis / (cmis.max() if cmis.max() > 0 else 1.0)` -/
def normalise (cmis : List Rat) : List Rat :=
  let m := maxR cmis
  let d := if m > 0 then m else 1
  cmis.map (· / d)

/-- `widths = w0 + (w1 − w0) · norm_cmis` -/
def widths (w0 w1 : Rat) (cmis : List Rat) : List Rat := (normalise cmis).map (fun x => w0 + (w1 - w0) * x)

/-- `colormaps[i % len(colormaps)]` -/
def cmapIndex (i m : Nat) : Nat := i % m

/-- arc radius of a lag group: `0` for lag 1, else `0.1 · (index among the lags > 1 + 1)` -/
def arcRadius (sortedLags : List Int) (lag : Int) : Rat :=
  if lag = 1 then 0 else
  match (sortedLags.filter (· > 1)).idxOf? lag with
  | some k => ((k : Rat) + 1) / 10
  | none => 1 / 10

/-- `max(0.0, float(cmi))` per edge, grouped by lag in first-appearance order then sorted by lag -/
def lagGroups (edges : List (Int × Rat)) : List (Int × List Rat) :=
  let lags := (edges.map (·.1)).eraseDups.mergeSort (fun a b => decide (a ≤ b))
  lags.map (fun l => (l, (edges.filter (·.1 == l)).map (fun e => max 0 e.2)))

open Lean in
def jMove (j : Json) : R (Move × Bool) := do
  match (← jArr j) with
  | [k, a, b, c] =>
    let i ← jNat a; let jj ← jNat b; let acc ← jBool c
    match (← jStr k) with
    | "swap" => return (.swap i jj, acc)
    | "rev" => return (.rev i jj, acc)
    | _ => throw "bad move"
  | _ => throw "bad move"

open Lean in
def hOptimise (j : Json) : R Json := do
  let seed ← jList jNat (← jField j "seed")
  let steps ← jList jMove (← jField j "steps")
  return listJ natJ (optimise seed steps)

open Lean in
def hSeedOrder (j : Json) : R Json := do
  let comms ← jList (jList jNat) (← jField j "comms")
  let degs ← jList jNat (← jField j "deg")
  let nodes ← jList jNat (← jField j "nodes")
  let degA := degs.toArray
  return listJ natJ (seedOrder comms (fun n => degA.getD n 0) nodes)

open Lean in
def hStyle (j : Json) : R Json := do
  let es ← jList (fun e => do
      match (← jArr e) with
      | [a, b] => return ((← jInt a), (← jRat b))
      | _ => throw "bad edge") (← jField j "edges")
  let w0 ← jRat (← jField j "w0")
  let w1 ← jRat (← jField j "w1")
  let ncm ← jNat (← jField j "ncmaps")
  let groups := lagGroups es
  let lags := groups.map (·.1)
  return listJ (fun (p : Nat × (Int × List Rat)) =>
      Json.mkObj [("lag", intJ p.2.1), ("norm", listJ ratJ (normalise p.2.2)),
        ("widths", listJ ratJ (widths w0 w1 p.2.2)), ("cmap", natJ (cmapIndex p.1 ncm)),
        ("rad", ratJ (arcRadius lags p.2.1))]) (groups.zipIdx.map (fun q => (q.2, q.1)))

end CE.Plot
