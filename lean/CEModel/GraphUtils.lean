import CEModel.JsonIO
/-! Model of `causationentropy/graph/utils.py` (C14 conversions, C15 tabular export).
Node identity is the position in `G.nodes()`; edge lists are in NetworkX iteration order. -/
namespace CE.Graph

inductive Err | valueError
  deriving Repr, BEq, DecidableEq, Inhabited

/-- documented `LINK_TYPE_SEMANTICS` (the run-time table is passed in and compared by an obligation) -/
def stdSem : List (String × String) :=
  [("-->", "directed"), ("<--", "directed"), ("o-o", "undirected"),
   ("-?>", "possible_directed"), ("x-x", "conflicting")]

/-! ## PCMCI result → graph -/

/-- an edge of the produced MultiDiGraph -/
structure PEdge where
  u    : Nat
  v    : Nat
  lag  : Nat
  val  : Rat
  p    : Rat
  type : String
  sig  : Option Bool
  deriving Repr, BEq, DecidableEq, Inhabited

/-- a PCMCI result after the rank-2 lift: `N × N × Lp1` arrays as index functions -/
structure Pcmci where
  N    : Nat
  Lp1  : Nat
  mark : Nat → Nat → Nat → String
  val  : Nat → Nat → Nat → Rat
  p    : Nat → Nat → Nat → Rat

/-- edges contributed by the entry `[i, j, lag]` (mirrors the if-chain of `pcmci_to_networkx`) -/
def edgesOfEntry (sem : List (String × String)) (binarize : Bool) (level : Rat)
    (i j lag : Nat) (m : String) (val p : Rat) : Except Err (List PEdge) :=
  if m = "" then .ok [] else
  match sem.lookup m with
  | none => .error .valueError
  | some ty =>
    let sig : Option Bool := if binarize then some (decide (p < level)) else none
    let e (a b : Nat) : PEdge := { u := a, v := b, lag := lag, val := val, p := p, type := ty, sig := sig }
    if m = "-->" then .ok [e i j]
    else if m = "<--" then .ok [e j i]
    else if m = "o-o" ∨ m = "x-x" then (if i < j then .ok [e i j, e j i] else .ok [])
    else if m = "-?>" then .ok [e i j]
    else .ok []

/-- all index triples in loop order `for i, for j, for lag` -/
def triples (N Lp1 : Nat) : List (Nat × Nat × Nat) :=
  (List.range N).flatMap (fun i => (List.range N).flatMap (fun j =>
    (List.range Lp1).map (fun l => (i, j, l))))

/-- `pcmci_to_networkx` after the shape checks -/
def toGraph (sem : List (String × String)) (binarize : Bool) (level : Rat) (P : Pcmci) :
    Except Err (List PEdge) :=
  (triples P.N P.Lp1).foldlM (fun acc t =>
    match edgesOfEntry sem binarize level t.1 t.2.1 t.2.2 (P.mark t.1 t.2.1 t.2.2)
        (P.val t.1 t.2.1 t.2.2) (P.p t.1 t.2.1 t.2.2) with
    | .ok es => .ok (acc ++ es)
    | .error e => .error e) []

/-! ## graph → PCMCI result -/

/-- an edge as NetworkX hands it to `networkx_to_pcmci` (attributes optional) -/
structure InEdge where
  u    : Nat
  v    : Nat
  lag  : Option Nat
  type : Option String
  val  : Option Rat
  cmi  : Option Rat
  p    : Option Rat
  deriving Repr, BEq, DecidableEq, Inhabited

structure Cell where
  mark : String
  val  : Rat
  p    : Rat
  deriving Repr, BEq, DecidableEq, Inhabited

def emptyCell : Cell := { mark := "", val := 0, p := 1 }

/-- write log and the set of processed symmetric keys -/
structure WState where
  writes    : List ((Nat × Nat × Nat) × Cell)
  processed : List (Nat × Nat × Nat)
  deriving Inhabited

def tauMax (es : List InEdge) : Nat := es.foldl (fun m e => max m (e.lag.getD 0)) 0

/-- one iteration of the edge loop of `networkx_to_pcmci` -/
def writeEdge (st : WState) (e : InEdge) : Except Err WState :=
  let lag := e.lag.getD 0
  let ty := e.type.getD "directed"
  let val := e.val.getD (e.cmi.getD 0)
  let p := e.p.getD 1
  if ty = "directed" then
    .ok { st with writes := st.writes ++ [((e.u, e.v, lag), { mark := "-->", val := val, p := p })] }
  else if ty = "undirected" ∨ ty = "conflicting" then
    let key := (min e.u e.v, max e.u e.v, lag)
    if st.processed.contains key then .ok st else
    let sym := if ty = "undirected" then "o-o" else "x-x"
    let c : Cell := { mark := sym, val := val, p := p }
    .ok { writes := st.writes ++ [((e.u, e.v, lag), c), ((e.v, e.u, lag), c)],
          processed := key :: st.processed }
  else if ty = "possible_directed" then
    .ok { st with writes := st.writes ++ [((e.u, e.v, lag), { mark := "-?>", val := val, p := p })] }
  else .error .valueError

/-- value of an array entry = last write to it, else the initial fill -/
def readCell (writes : List ((Nat × Nat × Nat) × Cell)) (k : Nat × Nat × Nat) : Cell :=
  match writes.reverse.find? (fun w => w.1 == k) with
  | some w => w.2
  | none => emptyCell

/-- `networkx_to_pcmci`: returns `tau_max` and the final cell of every entry -/
def toPcmci (es : List InEdge) : Except Err (Nat × (Nat → Nat → Nat → Cell)) :=
  match es.foldlM writeEdge { writes := [], processed := [] } with
  | .ok st => .ok (tauMax es, fun i j l => readCell st.writes (i, j, l))
  | .error e => .error e

/-- produced graph edge re-read as input of the reverse conversion -/
def PEdge.toIn (e : PEdge) : InEdge :=
  { u := e.u, v := e.v, lag := some e.lag, type := some e.type, val := some e.val, cmi := none, p := some e.p }

def pcmciOfCells (N : Nat) (r : Nat × (Nat → Nat → Nat → Cell)) : Pcmci :=
  { N := N, Lp1 := r.1 + 1, mark := fun i j l => (r.2 i j l).mark,
    val := fun i j l => (r.2 i j l).val, p := fun i j l => (r.2 i j l).p }

/-! ## C15 tabular export -/

/-- a node label: identity (position in `G.nodes()`) and its Python `str()` -/
structure Node where
  id  : Nat
  str : String
  deriving Repr, BEq, DecidableEq, Inhabited

inductive DCell
  | node (n : Node) | int (i : Int) | rat (q : Rat) | none | str (s : String) | bool (b : Bool)
  deriving Repr, BEq, DecidableEq, Inhabited

/-- edge of a discovered network as `network_to_dataframe` reads it -/
structure XEdge where
  u   : Node
  v   : Node
  lag : Option Int
  cmi : Option Rat
  p   : Option Rat
  deriving Repr, BEq, DecidableEq, Inhabited

def baseCols : List String := ["Source", "Sink", "Lag", "CMI", "P_Value"]

/-- documented metadata columns in their documented order, with the parameter feeding each -/
def stdMeta : List (String × String) :=
  [("method", "Method"), ("information", "Information"), ("alpha_forward", "Alpha_Forward"),
   ("alpha_backward", "Alpha_Backward"), ("metric", "Metric"), ("bandwidth", "Bandwidth"),
   ("k_means", "K_Means"), ("n_shuffles", "N_Shuffles"), ("max_lag", "Max_Lag")]

structure Frame where
  cols : List String
  rows : List (List DCell)
  deriving Repr, BEq, DecidableEq, Inhabited

/-- `network_to_dataframe`: `paramCols` = (parameter → column) pairs in the order of the `if` chain,
`order` = `metadata_order`, `supplied` = parameters that are not `None` with their values -/
def exportFrame (paramCols : List (String × String)) (order : List String)
    (supplied : List (String × DCell)) (es : List XEdge) : Frame :=
  if es.isEmpty then { cols := baseCols, rows := [] } else
  let present : List (String × DCell) :=
    paramCols.filterMap (fun pc => (supplied.lookup pc.1).map (fun v => (pc.2, v)))
  let metaCols := order.filter (fun c => (present.lookup c).isSome)
  { cols := baseCols ++ metaCols,
    rows := es.map (fun e =>
      [DCell.node e.u, DCell.node e.v, DCell.int (e.lag.getD 0),
       (match e.cmi with | some q => DCell.rat q | none => DCell.none),
       (match e.p with | some q => DCell.rat q | none => DCell.none)]
      ++ metaCols.map (fun c => (present.lookup c).getD DCell.none)) }

/-- edge of a PCMCI-style graph as `pcmci_network_to_dataframe` reads it -/
structure YEdge where
  u    : Node
  v    : Node
  lag  : Option Int
  type : Option String
  val  : Option Rat
  cmi  : Option Rat
  p    : Option Rat
  sig  : Option Bool
  deriving Repr, BEq, DecidableEq, Inhabited

structure YRow where
  src  : Node
  snk  : Node
  lag  : Int
  val  : Option Rat
  p    : Option Rat
  type : String
  sig  : Option Bool
  deriving Repr, BEq, DecidableEq, Inhabited

/-- rows of `pcmci_network_to_dataframe` (symmetric links listed once, canonical endpoints) -/
def exportPcmciRows (es : List YEdge) : List YRow :=
  (es.foldl (fun (acc : List YRow × List (Nat × Nat × Int × String)) e =>
    let ty := e.type.getD "directed"
    let lag := e.lag.getD 0
    let mk (s t : Node) : YRow :=
      { src := s, snk := t, lag := lag, val := (match e.val with | some q => some q | none => e.cmi),
        p := e.p, type := ty, sig := e.sig }
    if ty = "undirected" ∨ ty = "conflicting" then
      -- sorted((u, v), key=str) is stable: swap only when str(v) < str(u)
      let (s, t) := if e.v.str < e.u.str then (e.v, e.u) else (e.u, e.v)
      let key := (s.id, t.id, lag, ty)
      if acc.2.contains key then acc else (acc.1 ++ [mk s t], key :: acc.2)
    else (acc.1 ++ [mk e.u e.v], acc.2)) ([], [])).1

def pcmciBaseCols : List String := ["Source", "Sink", "Lag", "Val", "P_Value", "Link_Type"]

/-- column header of `pcmci_network_to_dataframe` -/
def exportPcmciCols (rows : List YRow) : List String :=
  if rows.isEmpty then pcmciBaseCols ++ ["Significant"]
  else pcmciBaseCols ++ (if rows.any (fun r => r.sig.isSome) then ["Significant"] else [])

end CE.Graph
