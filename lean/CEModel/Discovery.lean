import CEModel.JsonIO
/-! Model of `causationentropy/core/discovery.py`: lag indexing, the permutation test,
forward/backward selection (both oCSE variants), and the edge loop of `discover_network`.

The information estimator, the verdicts of the significance test and the backward visiting
order are *parameters* (oracles); the theorems in `CEProofs` quantify over all of them.
`discover` instantiates them with an abstract estimator `est` and a recorded permutation
stream, exactly in the order in which the Python code consumes its generator. -/
namespace CE.Disc

abbrev Mat := List (List Rat)      -- list of rows
abbrev Col := List Rat

/-! ## Lag indexing (C01) -/

/-- entry `(t, j)` of a series given as list of rows (0 outside; never used outside) -/
def entry (s : Mat) (t j : Nat) : Rat := (s.getD t []).getD j 0

/-- `series[max_lag - tau : T - tau, j]`: row `r` holds the value of variable `j` at time `L + r - τ` -/
def lagCol (s : Mat) (L T j τ : Nat) : Col :=
  (List.range (T - L)).map (fun r => entry s (L - τ + r) j)

/-- `series[max_lag:, i]`: row `r` holds the value of variable `i` at time `L + r` -/
def targetCol (s : Mat) (L T i : Nat) : Col :=
  (List.range (T - L)).map (fun r => entry s (L + r) i)

/-- position of `(variable j, lag τ)` in `X_lagged` / `feature_names` -/
def colId (L j τ : Nat) : Nat := j * L + (τ - 1)

/-- `feature_names[c]` -/
def label (L c : Nat) : Nat × Nat := (c / L, c % L + 1)

/-- column `c` of `X_lagged` -/
def xCol (s : Mat) (L T c : Nat) : Col := lagCol s L T (label L c).1 (label L c).2

/-! ## NumPy `argmax` -/

/-- order used by `argmax`: NaN is the top element (the first NaN wins), otherwise `≤`. -/
def leTop (a b : Val) : Bool := b.isNan || (!a.isNan && Val.le a b)

/-- index of the first maximal element w.r.t. a total preorder `le` -/
def argmaxIdx {V : Type} (le : V → V → Bool) : List V → Nat
  | []          => 0
  | [_]         => 0
  | v :: w :: vs =>
      let k := argmaxIdx le (w :: vs)
      if le ((w :: vs).getD k w) v then 0 else k + 1

/-! ## Permutation test (C03) -/

structure TestResult where
  thr   : Val
  value : Val
  pass  : Bool
  p     : Rat
  deriving Repr, BEq, Inhabited

/-- `X[perm, :]` for a single column -/
def permute (x : Col) (perm : List Nat) : Col := perm.map (fun r => x.getD r 0)

def sortRat (l : List Rat) : List Rat := l.mergeSort (fun a b => decide (a ≤ b))

/-- `np.percentile(null, 100 (1-α))`, linear interpolation, on finite values -/
def percentile (null : List Rat) (α : Rat) : Rat :=
  let n := null.length
  let s := sortRat null
  let h : Rat := ((n : Rat) - 1) * (1 - α)
  let lo := h.floor.toNat
  let hi := min (lo + 1) (n - 1)
  let γ : Rat := h - (lo : Rat)
  s.getD lo 0 + γ * (s.getD hi 0 - s.getD lo 0)

def finOf : Val → Option Rat
  | .fin q => some q
  | _ => none

/-- threshold, p-value and verdict from the null values -/
def decideTest (null : List Val) (obs : Val) (α : Rat) : TestResult :=
  let n := null.length
  let thr : Val :=
    match null.mapM finOf with
    | some qs => .fin (percentile qs α)
    | none => .nan            -- NaN in the null (infinite surrogates are outside the model)
  let cnt := null.countP (fun v => Val.ge v obs)
  { thr := thr, value := obs, pass := Val.gt obs thr, p := (cnt : Rat) / (n : Rat) }

/-! ### the decision with its comparison operators as data (regenerated from the source by the
translator, `harness/gen_tables.py: shuffle_shape`) -/

/-- a NumPy comparison operator -/
inductive Cmp | gt | ge | lt | le
  deriving Repr, DecidableEq, Inhabited

/-- `a <op> b` with IEEE semantics (every comparison with NaN is false) -/
def Cmp.eval : Cmp → Val → Val → Bool
  | .gt, a, b => Val.gt a b
  | .ge, a, b => Val.ge a b
  | .lt, a, b => Val.lt a b
  | .le, a, b => Val.le a b

/-- `"Pass": observed <passOp> threshold`, `"P_value": np.mean(null <pOp> observed)` -/
structure DecisionShape where
  passOp : Cmp
  pOp    : Cmp
  deriving Repr, DecidableEq, Inhabited

/-- `decideTest` for any pair of comparison operators -/
def decideTestG (sh : DecisionShape) (null : List Val) (obs : Val) (α : Rat) : TestResult :=
  let n := null.length
  let thr : Val :=
    match null.mapM finOf with
    | some qs => .fin (percentile qs α)
    | none => .nan
  let cnt := null.countP (fun v => sh.pOp.eval v obs)
  { thr := thr, value := obs, pass := sh.passOp.eval obs thr, p := (cnt : Rat) / (n : Rat) }

/-- the operators of the pinned (post-fix `dcc3217`) `shuffle_test`: strict verdict, non-strict count -/
def codeShape : DecisionShape := { passOp := .gt, pOp := .ge }

/-- abstract estimator: predictor column, target column, conditioning columns (`[]` = `None`) -/
abbrev Est := Col → Col → List Col → Val

/-- `shuffle_test`: one surrogate per permutation, X permuted, Y and Z untouched -/
def shuffleTest (est : Est) (perms : List (List Nat)) (x y : Col) (z : List Col) (obs : Val) (α : Rat) :
    TestResult :=
  decideTest (perms.map (fun π => est (permute x π) y z)) obs α

/-! ## Selection (C02) -/

inductive Phase | fwd | bwd | edge
  deriving Repr, BEq, DecidableEq, Inhabited

/-- one significance test as the outside world sees it -/
structure Ev where
  phase : Phase
  level : Rat
  cand  : Nat
  cond  : List Nat
  obs   : Val
  pass  : Bool
  p     : Rat
  deriving Repr, BEq, Inhabited

/-- Oracles: `f cand Z` information of column `cand` given the *ordered* conditioning ids `Z`;
`test c α cand Z v` verdict and p-value of the test started when `c` generator draws have been
made; `order c S` the backward visiting order drawn at that moment; `cost` draws per test. -/
structure Oracles where
  f     : Nat → List Nat → Val
  test  : Nat → Rat → Nat → List Nat → Val → Bool × Rat
  order : Nat → List Nat → List Nat
  cost  : Nat

structure St where
  S   : List Nat
  c   : Nat
  evs : List Ev
  deriving Inhabited

def mkEv (ph : Phase) (α : Rat) (j : Nat) (Z : List Nat) (v : Val) (r : Bool × Rat) : Ev :=
  { phase := ph, level := α, cand := j, cond := Z, obs := v, pass := r.1, p := r.2 }

/-- `standard_forward`: `cands` undecided, `Z` current conditioning ids (initial ++ accepted) -/
def fwdStd (o : Oracles) (α : Rat) : Nat → List Nat → List Nat → St → St
  | 0,      _,     _, st => st
  | fuel+1, cands, Z, st =>
    if cands.isEmpty then st else
    let vals := cands.map (fun j => o.f j Z)
    let k := argmaxIdx leTop vals
    let j := cands.getD k 0
    let v := vals.getD k .nan
    let r := o.test st.c α j Z v
    let st' : St := { st with c := st.c + o.cost, evs := st.evs ++ [mkEv .fwd α j Z v r] }
    if r.1 then fwdStd o α fuel (cands.eraseIdx k) (Z ++ [j]) { st' with S := st.S ++ [j] }
    else fwdStd o α fuel (cands.eraseIdx k) Z st'

/-- `alternative_forward`: candidates `0..n-1`, `remaining = setdiff1d(candidates, S)` (ascending),
conditioning on the accepted ones only, stop at the first rejection -/
def fwdAlt (o : Oracles) (α : Rat) (n : Nat) : Nat → St → St
  | 0,      st => st
  | fuel+1, st =>
    let remaining := (List.range n).filter (fun j => !st.S.contains j)
    if remaining.isEmpty then st else
    let vals := remaining.map (fun j => o.f j st.S)
    let k := argmaxIdx leTop vals
    let j := remaining.getD k 0
    let v := vals.getD k .nan
    let r := o.test st.c α j st.S v
    let st' : St := { st with c := st.c + o.cost, evs := st.evs ++ [mkEv .fwd α j st.S v r] }
    if r.1 then fwdAlt o α n fuel { st' with S := st.S ++ [j] } else st'

/-- one visit of `backward` -/
def bwdStep (o : Oracles) (α : Rat) (st : St) (j : Nat) : St :=
  let Z := if st.S.length > 1 then st.S.filter (fun k => k != j) else []
  let v := o.f j Z
  let r := o.test st.c α j Z v
  { S := if r.1 then st.S else st.S.erase j, c := st.c + o.cost,
    evs := st.evs ++ [mkEv .bwd α j Z v r] }

/-- `backward`: one draw for the visiting order, then one test per accepted predictor -/
def backward (o : Oracles) (α : Rat) (st : St) : St :=
  let visit := o.order st.c st.S
  visit.foldl (bwdStep o α) { st with c := st.c + 1 }

def ocseStd (o : Oracles) (αf αb : Rat) (n : Nat) (zinit : List Nat) (c : Nat) : St :=
  backward o αb (fwdStd o αf n (List.range n) zinit { S := [], c := c, evs := [] })

def ocseAlt (o : Oracles) (αf αb : Rat) (n : Nat) (c : Nat) : St :=
  backward o αb (fwdAlt o αf n n { S := [], c := c, evs := [] })

/-! ## The edge loop of `discover_network` (C01, C06) -/

structure Edge where
  src : Nat
  dst : Nat
  lag : Nat
  cmi : Val
  p   : Rat
  deriving Repr, BEq, Inhabited

/-- edges of target `i` from its selected set, with their tests (level `αb`) -/
def edgeLoop (o : Oracles) (αb : Rat) (L i : Nat) (S : List Nat) (c : Nat) : List Edge × List Ev × Nat :=
  S.foldl (fun (acc : List Edge × List Ev × Nat) s =>
    let (es, evs, c) := acc
    let Z := S.filter (fun k => k != s)
    let v := o.f s Z
    let r := o.test c αb s Z v
    (es ++ [{ src := (label L s).1, dst := i, lag := (label L s).2, cmi := v, p := r.2 }],
     evs ++ [mkEv .edge αb s Z v r], c + o.cost)) ([], [], c)

/-- `np.where(lasso.coef_ != 0)[0].tolist()`: the LASSO selection as a function of the fitted coefficient vector
(the coefficients themselves are sklearn's: an input of the model) -/
def selOfCoef (coef : List Rat) : List Nat :=
  (List.range coef.length).filter (fun i => coef.getD i 0 != 0)

/-- branch of `lasso_optimal_causation_entropy`: LassoLarsIC iff there are more samples than predictors + 1 -/
def lassoUsesLarsIC (rows ncols : Nat) : Bool := decide (rows > ncols + 1)

inductive Method | standard | alternative | informationLasso | lasso
  deriving Repr, BEq, DecidableEq, Inhabited

inductive Err | notImplemented | valueError
  deriving Repr, BEq, DecidableEq, Inhabited

structure Params where
  method : String
  information : String
  L : Nat
  αf : Rat
  αb : Rat
  nShuffles : Nat

def parseMethod : String → Option Method
  | "standard" => some .standard
  | "alternative" => some .alternative
  | "information_lasso" => some .informationLasso
  | "lasso" => some .lasso
  | _ => none

def supportedInformation : List String := ["gaussian", "knn", "kde", "geometric_knn", "poisson"]

structure Result where
  edges : List Edge
  evs   : List Ev
  draws : Nat
  sel   : List (List Nat)        -- selected column ids per target
  deriving Inhabited

/-- targets `0..n-1` in order; `orc i` are the oracles of target `i`; `lasso i` the LASSO set -/
def discoverWith (m : Method) (orc : Nat → Oracles) (lasso : Nat → List Nat)
    (αf αb : Rat) (L n : Nat) : Result :=
  (List.range n).foldl (fun (acc : Result) i =>
    let o := orc i
    let st : St :=
      match m with
      | .standard => ocseStd o αf αb (n * L) ((List.range L).map (fun t => colId L i (t + 1))) acc.draws
      | .alternative => ocseAlt o αf αb (n * L) acc.draws
      | _ => { S := lasso i, c := acc.draws, evs := [] }
    let (es, evs, c) := edgeLoop o αb L i st.S st.c
    { edges := acc.edges ++ es, evs := acc.evs ++ st.evs ++ evs, draws := c, sel := acc.sel ++ [st.S] })
    { edges := [], evs := [], draws := 0, sel := [] }

/-- oracles of target `i` induced by an estimator and a recorded permutation stream -/
def oraclesOf (est : Est) (perms : Nat → List Nat) (s : Mat) (L T nSh i : Nat) : Oracles where
  f j Z := est (xCol s L T j) (targetCol s L T i) (Z.map (xCol s L T))
  test c α j Z v :=
    let r := shuffleTest est ((List.range nSh).map (fun k => perms (c + k)))
      (xCol s L T j) (targetCol s L T i) (Z.map (xCol s L T)) v α
    (r.pass, r.p)
  order c _ := perms c
  cost := nSh

/-- `discover_network` on a `T × n` series (guards in the order of the Python code) -/
def discover (P : Params) (est : Est) (perms : Nat → List Nat) (lasso : Nat → List Nat)
    (s : Mat) (T n : Nat) : Except Err Result :=
  match parseMethod P.method with
  | none => .error .notImplemented
  | some m =>
    if !supportedInformation.contains P.information then .error .notImplemented
    else if T ≤ P.L + 2 then .error .valueError
    else .ok (discoverWith m (fun i => oraclesOf est perms s P.L T P.nShuffles i) lasso P.αf P.αb P.L n)

end CE.Disc
