import CEModel.Geometric
import CEModel.GeomSpectral
import CEModel.JsonIO
/-! Driver handler for the geometric-kNN model (C12): the part of `geometric_knn_entropy` that the
Lean theorems reason about — neighbour lists, the k-th neighbour distance, the centred
neighbourhood `Y_i` and the neighbour offsets `Z_i` handed to the SVD-based correction — evaluated
exactly over ℚ, for comparison with what the implementation hands to `l2dist`, `np.linalg.svd` and
`hyperellipsoid_check`. -/
open Lean
namespace CE.Geom

def envQ : Env Rat :=
  { log := id, sqrt := id, corr := fun _ _ => 0, cast := fun n => (n : Rat), tiny := 0, logTiny := 0 }

/-- op `geom_parts`: `{X, k}` ↦ per sample: neighbour indices, squared distance to the k-th
neighbour, `Y_i`, `Z_i` -/
def hGeomParts (j : Json) : R Json := do
  let X ← jMat jRat (← jField j "X")
  let k ← jNat (← jField j "k")
  let keys := sqKeys X
  return listJ (fun i =>
    let nb := knnIdx (keys.getD i []) k
    Json.mkObj [("nbrs", listJ natJ nb),
      ("rho2", ratJ (Kde.sqdist (row X i) (row X (nb.getD (k - 1) 0)))),
      ("Y", matJ ratJ (centred envQ X i nb)), ("Z", matJ ratJ (offsets X i nb))])
    (List.range X.length)

/-- op `geom_spectral`: `{X, k}` ↦ per sample: the exact spectral invariants of the local
configuration — `e_1 … e_d` of the Gram matrix of `Y_i` and `zᵀ G⁻¹ z` for every row `z` of `Z_i`
(`null` when the Gram matrix is singular) -/
def hGeomSpectral (j : Json) : R Json := do
  let X ← jMat jRat (← jField j "X")
  let k ← jNat (← jField j "k")
  let d := (X.headD []).length
  let keys := sqKeys X
  return listJ (fun i =>
    let nb := knnIdx (keys.getD i []) k
    let G := gram (centred envQ X i nb) d
    Json.mkObj [("e", listJ ratJ (charCoeffs G d)),
      ("q", listJ (fun z => match quadForm G d z with | some q => ratJ q | none => Json.null) (offsets X i nb))])
    (List.range X.length)

end CE.Geom
