import CEModel.Poisson
/-! Model of the **unconditional branch** (`if Z is None:`) of
`poisson_conditional_mutual_information(X, Y, Z)`
(`core/information/conditional_mutual_information.py`), for C10 (Poisson part).

```
SXY   = np.corrcoef(X.T, Y.T)                                   -- INPUT `C` of the model
l_est = SXY - np.diag(np.diag(SXY))                             -- `lEst`
np.fill_diagonal(SXY, np.diagonal(SXY) - np.sum(l_est, axis=0)) -- `newDiag`, `sxy`
Dcov  = np.diag(SXY) + np.sum(l_est, axis=0)                    -- `dcov`
TF    = poisson_joint_entropy(SXY)                              -- `Poisson.jointEntropy`
FT    = np.sum(poisson_entropy(Dcov))
return FT - TF                                                  -- `poissonMI`
```

Trusted / modelled elsewhere (NOT in this file):
* `np.corrcoef`: the `d × d` matrix `C` (`d = k_x + k_y`) is the *input* of the model, a list of
  rows of exact rationals. That NumPy's `corrcoef` returns a symmetric matrix with unit diagonal,
  that it does not depend on the order of the samples (rows of `X`, `Y`), and that reordering /
  exchanging the variables permutes its rows and columns simultaneously, is the
  covariance-matrix part of C10 (`CEModel/Gaussian.lean`, `CEProofs/C10Gauss.lean`) and NumPy.
* the scalar Poisson entropy: the executable path takes the `2d` values of `poisson_entropy` as
  data (`poissonMIWith`); the theorems take it as a function (`poissonMI H`, and `poissonMIVec HV`
  for the vectorised call, whose number of series terms is shared by the entries of one call;
  see `CEModel/Poisson.lean` / C13). `np.abs(lambdas)` is part of `H`.
* IEEE rounding: over ℚ, `Dcov_j = (C_jj − s_j) + s_j = C_jj` exactly.

All index arithmetic is over `List.range C.length` with the totalised entry `ent` (0 outside the
matrix): for a square matrix (all the theorems assume it, the handler checks it) no default is
ever read. -/
namespace CE.PoissonMI
open CE.Poisson (jointEntropy)

/-- entry `(i, j)` of a list-of-rows matrix (never out of range for a square matrix) -/
def ent (C : List (List Rat)) (i j : Nat) : Rat := (C.getD i []).getD j 0

/-- `np.diag(M)` / `np.diagonal(M)` of a matrix: the vector of its diagonal entries -/
def diagVec (C : List (List Rat)) : List Rat :=
  (List.range C.length).map (fun i => ent C i i)

/-- `np.diag(v)` of a vector: the diagonal matrix -/
def diagMat (v : List Rat) : List (List Rat) :=
  (List.range v.length).map (fun i =>
    (List.range v.length).map (fun j => if i = j then v.getD i 0 else 0))

/-- element-wise `A - B` of two `d × d` matrices (`d` = number of rows of `A`) -/
def matSub (A B : List (List Rat)) : List (List Rat) :=
  (List.range A.length).map (fun i =>
    (List.range A.length).map (fun j => ent A i j - ent B i j))

/-- `l_est = SXY - np.diag(np.diag(SXY))`: the off-diagonal part -/
def lEst (C : List (List Rat)) : List (List Rat) := matSub C (diagMat (diagVec C))

/-- `np.sum(L, axis=0)`: column sums `s_j = Σ_i L[i][j]` -/
def colSums (L : List (List Rat)) : List Rat :=
  (List.range L.length).map (fun j => ((List.range L.length).map (fun i => ent L i j)).sum)

def vsub (a b : List Rat) : List Rat := List.zipWith (· - ·) a b
def vadd (a b : List Rat) : List Rat := List.zipWith (· + ·) a b

/-- `np.fill_diagonal(C, v)` (as a new matrix) -/
def fillDiagonal (C : List (List Rat)) (v : List Rat) : List (List Rat) :=
  (List.range C.length).map (fun i =>
    (List.range C.length).map (fun j => if i = j then v.getD i 0 else ent C i j))

/-- `np.diagonal(SXY) - np.sum(l_est, axis=0)`: the new diagonal `C_jj − s_j` -/
def newDiag (C : List (List Rat)) : List Rat := vsub (diagVec C) (colSums (lEst C))

/-- `SXY` after `np.fill_diagonal(SXY, …)` -/
def sxy (C : List (List Rat)) : List (List Rat) := fillDiagonal C (newDiag C)

/-- `Dcov = np.diag(SXY) + np.sum(l_est, axis=0)` (with the *updated* `SXY`) -/
def dcov (C : List (List Rat)) : List Rat := vadd (diagVec (sxy C)) (colSums (lEst C))

/-- `FT - TF`, given `hs1 = poisson_entropy(np.diag(SXY))` (inside `poisson_joint_entropy`) and
`hs2 = poisson_entropy(Dcov)` as data. This is the executable path. -/
def poissonMIWith (hs1 hs2 : List Rat) (C : List (List Rat)) : Rat :=
  hs2.sum - jointEntropy hs1 (sxy C)

/-- the branch with the scalar entropy `H` applied entry by entry -/
def poissonMI (H : Rat → Rat) (C : List (List Rat)) : Rat :=
  poissonMIWith ((diagVec (sxy C)).map H) ((dcov C).map H) C

/-- the branch with the *vectorised* entropy call `HV = poisson_entropy` (one call per vector, as
in the Python: the truncation index of the series is shared by the entries of one call) -/
def poissonMIVec (HV : List Rat → List Rat) (C : List (List Rat)) : Rat :=
  poissonMIWith (HV (diagVec (sxy C))) (HV (dcov C)) C

/-- `C.shape == (d, d)` -/
def isSquare (C : List (List Rat)) : Bool := C.all (fun r => r.length == C.length)

open Lean in
/-- op `"poisson_mi"`: `{"C": d×d matrix, "H": [H(newDiag_0..d-1), H(Dcov_0..d-1)]}` ↦ `FT − TF` -/
def hPoissonMI (j : Json) : R Json := do
  let C ← jMat jRat (← jField j "C")
  let H ← jList jRat (← jField j "H")
  if !isSquare C then throw "C is not square"
  if H.length != 2 * C.length then throw "H must have 2*d entries"
  return ratJ (poissonMIWith (H.take C.length) (H.drop C.length) C)

open Lean in
/-- op `"poisson_mi_args"`: `{"C": d×d matrix}` ↦ the `2d` arguments at which the entropy is
evaluated, `{"diag": np.diag(SXY) after fill_diagonal, "dcov": Dcov}` (exact) -/
def hPoissonMIArgs (j : Json) : R Json := do
  let C ← jMat jRat (← jField j "C")
  if !isSquare C then throw "C is not square"
  return Json.mkObj [("diag", listJ ratJ (diagVec (sxy C))), ("dcov", listJ ratJ (dcov C))]

end CE.PoissonMI
