import CEModel.GraphUtils
import CEModel.Linalg
/-! Driver handlers for the graph-utility models. -/
open Lean
namespace CE.Graph

def jOptNat (j : Json) (k : String) : R (Option Nat) :=
  match jFieldOpt j k with
  | some v => do return some (← jNat v)
  | none => return none

def jOptStr (j : Json) (k : String) : R (Option String) :=
  match jFieldOpt j k with
  | some v => do return some (← jStr v)
  | none => return none

def jOptBool (j : Json) (k : String) : R (Option Bool) :=
  match jFieldOpt j k with
  | some v => do return some (← jBool v)
  | none => return none

def jPair (j : Json) : R (String × String) := do
  match (← jArr j) with
  | [a, b] => return (← jStr a, ← jStr b)
  | _ => throw "bad pair"

def get3 {α} (a : Array (Array (Array α))) (d : α) (i j l : Nat) : α :=
  ((a.getD i #[]).getD j #[]).getD l d

def arr3 {α} (l : List (List (List α))) : Array (Array (Array α)) :=
  (l.map (fun m => (m.map (fun r => r.toArray)).toArray)).toArray

def pedgeJ (e : PEdge) : Json :=
  Json.arr #[natJ e.u, natJ e.v, natJ e.lag, ratJ e.val, ratJ e.p, .str e.type, optJ Json.bool e.sig]

def errJ : Err → Json
  | .valueError => Json.mkObj [("error", "ValueError")]

def jPcmci (j : Json) : R Pcmci := do
  let N ← jNat (← jField j "N")
  let Lp1 ← jNat (← jField j "Lp1")
  let g := arr3 (← jList (jList (jList jStr)) (← jField j "graph"))
  let v := arr3 (← jList (jList (jList jRat)) (← jField j "val"))
  let p := arr3 (← jList (jList (jList jRat)) (← jField j "p"))
  return { N := N, Lp1 := Lp1, mark := get3 g "", val := get3 v 0, p := get3 p 1 }

def hPcmciToGraph (j : Json) : R Json := do
  let P ← jPcmci j
  let sem ← jList jPair (← jField j "sem")
  let bin ← jBool (← jField j "binarize")
  let level ← jRat (← jField j "level")
  match toGraph sem bin level P with
  | .ok es => return Json.mkObj [("edges", listJ pedgeJ es)]
  | .error e => return errJ e

def jInEdge (j : Json) : R InEdge := do
  return { u := ← jNat (← jField j "u"), v := ← jNat (← jField j "v"), lag := ← jOptNat j "lag",
           type := ← jOptStr j "type", val := ← Lin.jOptRat j "val", cmi := ← Lin.jOptRat j "cmi",
           p := ← Lin.jOptRat j "p" }

def cellsJ (N : Nat) (r : Nat × (Nat → Nat → Nat → Cell)) : Json :=
  let idx := List.range N
  let lags := List.range (r.1 + 1)
  let cube (f : Cell → Json) : Json :=
    listJ (fun i => listJ (fun jj => listJ (fun l => f (r.2 i jj l)) lags) idx) idx
  Json.mkObj [("tau_max", natJ r.1), ("graph", cube (fun c => .str c.mark)),
    ("val", cube (fun c => ratJ c.val)), ("p", cube (fun c => ratJ c.p))]

def hGraphToPcmci (j : Json) : R Json := do
  let N ← jNat (← jField j "N")
  let es ← jList jInEdge (← jField j "edges")
  match toPcmci es with
  | .ok r => return cellsJ N r
  | .error e => return errJ e

/-- PCMCI → graph → PCMCI and graph → PCMCI → graph in one call (the model composes its own outputs) -/
def hRoundTrips (j : Json) : R Json := do
  let sem ← jList jPair (← jField j "sem")
  match jFieldOpt j "graph" with
  | some _ =>
    let P ← jPcmci j
    match toGraph sem false 0 P with
    | .error e => return errJ e
    | .ok es =>
      match toPcmci (es.map PEdge.toIn) with
      | .error e => return errJ e
      | .ok r => return cellsJ P.N r
  | none =>
    let N ← jNat (← jField j "N")
    let es ← jList jInEdge (← jField j "edges")
    match toPcmci es with
    | .error e => return errJ e
    | .ok r =>
      match toGraph sem false 0 (pcmciOfCells N r) with
      | .ok es' => return Json.mkObj [("edges", listJ pedgeJ es')]
      | .error e => return errJ e

def jNode (j : Json) : R Node := do
  return { id := ← jNat (← jField j "id"), str := ← jStr (← jField j "str") }

def jDCell (j : Json) : R DCell := do
  match j with
  | .null => return .none
  | _ =>
    match jFieldOpt j "node" with
    | some n => return .node (← jNode n)
    | none =>
    match jFieldOpt j "int" with
    | some i => return .int (← jInt i)
    | none =>
    match jFieldOpt j "rat" with
    | some q => return .rat (← jRat q)
    | none =>
    match jFieldOpt j "str" with
    | some s => return .str (← jStr s)
    | none =>
    match jFieldOpt j "bool" with
    | some b => return .bool (← jBool b)
    | none => throw "bad cell"

def dcellJ : DCell → Json
  | .node n => Json.mkObj [("node", natJ n.id)]
  | .int i => Json.mkObj [("int", intJ i)]
  | .rat q => Json.mkObj [("rat", ratJ q)]
  | .none => .null
  | .str s => Json.mkObj [("str", .str s)]
  | .bool b => Json.mkObj [("bool", .bool b)]

def jXEdge (j : Json) : R XEdge := do
  return { u := ← jNode (← jField j "u"), v := ← jNode (← jField j "v"), lag := ← Lin.jOptInt j "lag",
           cmi := ← Lin.jOptRat j "cmi", p := ← Lin.jOptRat j "p" }

def jSupplied (j : Json) : R (String × DCell) := do
  match (← jArr j) with
  | [a, b] => return (← jStr a, ← jDCell b)
  | _ => throw "bad supplied"

def hExportFrame (j : Json) : R Json := do
  let pc ← jList jPair (← jField j "param_cols")
  let order ← jList jStr (← jField j "order")
  let sup ← jList jSupplied (← jField j "supplied")
  let es ← jList jXEdge (← jField j "edges")
  let f := exportFrame pc order sup es
  return Json.mkObj [("cols", listJ Json.str f.cols), ("rows", matJ dcellJ f.rows)]

def jYEdge (j : Json) : R YEdge := do
  return { u := ← jNode (← jField j "u"), v := ← jNode (← jField j "v"), lag := ← Lin.jOptInt j "lag",
           type := ← jOptStr j "type", val := ← Lin.jOptRat j "val", cmi := ← Lin.jOptRat j "cmi",
           p := ← Lin.jOptRat j "p", sig := ← jOptBool j "sig" }

def hExportPcmci (j : Json) : R Json := do
  let es ← jList jYEdge (← jField j "edges")
  let rows := exportPcmciRows es
  return Json.mkObj [("cols", listJ Json.str (exportPcmciCols rows)),
    ("rows", listJ (fun (r : YRow) => Json.arr #[natJ r.src.id, natJ r.snk.id, intJ r.lag, optJ ratJ r.val,
        optJ ratJ r.p, .str r.type, optJ Json.bool r.sig]) rows)]

end CE.Graph
