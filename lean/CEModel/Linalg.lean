import CEModel.JsonIO
/-! Model of `subnetwork` and `companion_matrix` in `causationentropy/core/linalg.py` (C16).
Nodes are identified with their position in `G.nodes()`; the edge list is the one NetworkX
iterates (`G.edges(keys=True, data=True)`). -/
namespace CE.Lin

/-- an edge of the multigraph: endpoints (node positions), optional attributes -/
structure GEdge where
  u   : Nat
  v   : Nat
  lag : Option Int
  cmi : Option Rat
  p   : Option Rat
  deriving Repr, BEq, DecidableEq, Inhabited

/-- an edge of the lag-`k` subnetwork (a simple digraph) -/
structure SEdge where
  u   : Nat
  v   : Nat
  cmi : Rat
  p   : Rat
  deriving Repr, BEq, DecidableEq, Inhabited

/-- `subnetwork(G, lag)`: edges whose `lag` attribute equals `k`, with `cmi` (default 0.0) and
`p_value` (default 1.0). (For duplicate `(u, v)` at the same lag NetworkX keeps the last
attributes; the property restricts to unique `(u, v, lag)` triples.) -/
def subEdges (es : List GEdge) (k : Int) : List SEdge :=
  (es.filter (fun e => e.lag == some k)).map
    (fun e => { u := e.u, v := e.v, cmi := e.cmi.getD 0, p := e.p.getD 1 })

/-- largest lag over all edges (missing lag counts as 0; `default=0` for no edges) -/
def maxLag (es : List GEdge) : Int :=
  es.foldl (fun m e => max m (e.lag.getD 0)) 0

abbrev NMat := List (List Nat)

def zeros (r c : Nat) : NMat := List.replicate r (List.replicate c 0)

/-- `C[r0 : r0+rows(B), c0 : c0+cols(B)] = B` -/
def setBlock (C : NMat) (r0 c0 : Nat) (B : NMat) : NMat :=
  C.mapIdx (fun r row =>
    if r0 ≤ r ∧ r < r0 + B.length then
      let brow := B.getD (r - r0) []
      row.mapIdx (fun c x => if c0 ≤ c ∧ c < c0 + brow.length then brow.getD (c - c0) 0 else x)
    else row)

/-- `nx.adjacency_matrix(H).toarray()`: rows = source, columns = target, node insertion order -/
def adjacency (n : Nat) (es : List SEdge) : NMat :=
  (List.range n).map (fun u => (List.range n).map (fun v =>
    if es.any (fun e => e.u == u && e.v == v) then 1 else 0))

def identity (n : Nat) : NMat :=
  (List.range n).map (fun i => (List.range n).map (fun j => if i = j then 1 else 0))

/-- `companion_matrix(G)` for a graph with `n` nodes -/
def companion (n : Nat) (es : List GEdge) : NMat :=
  let K := (maxLag es).toNat
  if K = 0 then [] else
  let C0 := zeros (n * K) (n * K)
  let C1 := (List.range K).foldl
    (fun C l => setBlock C 0 (l * n) (adjacency n (subEdges es ((l : Int) + 1)))) C0
  (List.range (K - 1)).foldl (fun C k => setBlock C ((k + 1) * n) (k * n) (identity n)) C1

open Lean in
def jOptInt (j : Json) (k : String) : R (Option Int) :=
  match jFieldOpt j k with
  | some v => do return some (← jInt v)
  | none => return none

open Lean in
def jOptRat (j : Json) (k : String) : R (Option Rat) :=
  match jFieldOpt j k with
  | some v => do return some (← jRat v)
  | none => return none

open Lean in
def jGEdge (j : Json) : R GEdge := do
  return { u := ← jNat (← jField j "u"), v := ← jNat (← jField j "v"),
           lag := ← jOptInt j "lag", cmi := ← jOptRat j "cmi", p := ← jOptRat j "p" }

open Lean in
def hSubnetwork (j : Json) : R Json := do
  let es ← jList jGEdge (← jField j "edges")
  let k ← jInt (← jField j "lag")
  return listJ (fun (e : SEdge) => Json.arr #[natJ e.u, natJ e.v, ratJ e.cmi, ratJ e.p]) (subEdges es k)

open Lean in
def hCompanion (j : Json) : R Json := do
  let es ← jList jGEdge (← jField j "edges")
  let n ← jNat (← jField j "n")
  return matJ natJ (companion n es)

end CE.Lin
