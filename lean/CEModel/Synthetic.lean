import CEModel.JsonIO
/-! Model of `causationentropy/datasets/synthetic.py` (C18, C19): the arithmetic of the three
generators. Random draws and the spectral radius are *inputs* (recorded from the run). -/
namespace CE.Syn

abbrev Vec := List Rat
abbrev Mat := List (List Rat)

def dot : Vec → Vec → Rat
  | a :: as, b :: bs => a * b + dot as bs
  | _, _ => 0

def total : Vec → Rat
  | a :: as => a + total as
  | [] => 0

def matVec (A : Mat) (x : Vec) : Vec := A.map (fun row => dot row x)

/-! ## C19 coupled logistic maps -/

def logistic (r x : Rat) : Rat := r * x * (1 - x)

/-- component of the update: `f_i − σ (f_i − Σ_j M_ij f_j)` -/
def stepRow (σ fi : Rat) (row f : Vec) : Rat := fi - σ * (fi - dot row f)

/-- `XY[i] = f − σ · (L f)`, `L = I − M`, `f = logistic_map(XY[i−1], r)` -/
def step (r σ : Rat) (M : Mat) (x : Vec) : Vec :=
  let f := x.map (logistic r)
  (M.zip f).map (fun p => stepRow σ p.2 p.1 f)

def orbit (r σ : Rat) (M : Mat) (x0 : Vec) : Nat → Vec
  | 0 => x0
  | t + 1 => step r σ M (orbit r σ M x0 t)

/-- row normalisation performed by the code: rows with positive sum are divided by it -/
def rowNormalise (A : Mat) : Mat :=
  A.map (fun row => if total row > 0 then row.map (· / total row) else row)

/-- the update that the pinned (pre-fix) tree performed: coupling through the transposed matrix -/
def transpose (n : Nat) (A : Mat) : Mat :=
  (List.range n).map (fun j => A.map (fun row => row.getD j 0))

/-! ## C18 linear stochastic Gaussian process -/

def vadd (a b : Vec) : Vec := List.zipWith (· + ·) a b
def vscale (c : Rat) (a : Vec) : Vec := a.map (c * ·)

/-- `X_0 = ε w_0`, `X_t = A X_{t−1} + ε w_t`; returns the rows in order -/
def linearSeriesAux (A : Mat) (ε : Rat) : Vec → List Vec → List Vec
  | _, [] => []
  | prev, w :: ws =>
    let x := vadd (matVec A prev) (vscale ε w)
    x :: linearSeriesAux A ε x ws

def linearSeries (A : Mat) (ε : Rat) : List Vec → List Vec
  | [] => []
  | w0 :: ws => vscale ε w0 :: linearSeriesAux A ε (vscale ε w0) ws

/-- `A = (Adjᵀ ∘ R)`, divided by the spectral radius `rad` when `rad > thresh`, times `ρ`.
`adjT` is the transposed adjacency, `R` the recorded uniform draws, `rad` comes from LAPACK. -/
def buildA (adjT R : Mat) (rad thresh ρ : Rat) : Mat :=
  let A0 := List.zipWith (fun ra rr => List.zipWith (· * ·) ra rr) adjT R
  let A1 := if rad > thresh then A0.map (fun row => row.map (· / rad)) else A0
  A1.map (fun row => row.map (· * ρ))

/-! ## C18 Poisson network -/

/-- rate of node `i` given the previous row: `max(floor, λ + c · Σ_j A[j][i] x_j)` -/
def poissonRate (floor lam c : Rat) (A : Mat) (x : Vec) (i : Nat) : Rat :=
  let infl := c * total (List.zipWith (· * ·) (A.map (fun row => row.getD i 0)) x)
  max floor (lam + infl)

open Lean in
def hLogisticStep (j : Json) : R Json := do
  let r ← jRat (← jField j "r")
  let σ ← jRat (← jField j "sigma")
  let M ← jMat jRat (← jField j "M")
  let x ← jList jRat (← jField j "x")
  return listJ ratJ (step r σ M x)

open Lean in
def hRowNormalise (j : Json) : R Json := do
  let A ← jMat jRat (← jField j "A")
  return matJ ratJ (rowNormalise A)

open Lean in
def hLinearSeries (j : Json) : R Json := do
  let A ← jMat jRat (← jField j "A")
  let ε ← jRat (← jField j "eps")
  let ws ← jMat jRat (← jField j "w")
  return matJ ratJ (linearSeries A ε ws)

open Lean in
def hBuildA (j : Json) : R Json := do
  let adjT ← jMat jRat (← jField j "adjT")
  let Rm ← jMat jRat (← jField j "R")
  let rad ← jRat (← jField j "rad")
  let th ← jRat (← jField j "thresh")
  let ρ ← jRat (← jField j "rho")
  return matJ ratJ (buildA adjT Rm rad th ρ)

open Lean in
def hPoissonRate (j : Json) : R Json := do
  let fl ← jRat (← jField j "floor")
  let lam ← jRat (← jField j "lam")
  let c ← jRat (← jField j "c")
  let A ← jMat jRat (← jField j "A")
  let x ← jList jRat (← jField j "x")
  return listJ ratJ ((List.range x.length).map (poissonRate fl lam c A x))

end CE.Syn
