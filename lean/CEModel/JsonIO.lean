import Lean.Data.Json
import CEModel.Num
/-! JSON transport for the line protocol (Appendix A of DESIGN.md). Numbers are
`{"b": <uint64 bits>}` (an IEEE double), `{"q": ["num","den"]}` (exact), a bare integer,
or `"nan" | "inf" | "-inf"`. Rationals go back as `["num","den"]` strings. -/
open Lean
namespace CE

abbrev R := Except String

def jInt (j : Json) : R Int :=
  match j with
  | .num n => if n.exponent = 0 then .ok n.mantissa else .error "non-integer number"
  | .str s => match s.toInt? with | some i => .ok i | none => .error s!"bad int {s}"
  | _ => .error "expected int"

def jNat (j : Json) : R Nat := do
  let i ← jInt j
  if i < 0 then .error "negative" else .ok i.toNat

def jStr (j : Json) : R String :=
  match j with
  | .str s => .ok s
  | _ => .error "expected string"

def jBool (j : Json) : R Bool :=
  match j with
  | .bool b => .ok b
  | _ => .error "expected bool"

def jArr (j : Json) : R (List Json) :=
  match j with
  | .arr a => .ok a.toList
  | _ => .error "expected array"

def jField (j : Json) (k : String) : R Json :=
  match j.getObjVal? k with
  | .ok v => .ok v
  | .error _ => .error s!"missing field {k}"

def jFieldOpt (j : Json) (k : String) : Option Json :=
  match j.getObjVal? k with
  | .ok .null => none
  | .ok v => some v
  | .error _ => none

/-- extended value -/
def jVal (j : Json) : R Val :=
  match j with
  | .str "nan" => .ok .nan
  | .str "inf" => .ok .pinf
  | .str "-inf" => .ok .ninf
  | .num n => if n.exponent = 0 then .ok (.fin (n.mantissa : Rat)) else .error "non-integer literal"
  | .obj _ =>
    match j.getObjVal? "b" with
    | .ok b => do let n ← jNat b; .ok (valOfBits n)
    | .error _ =>
      match j.getObjVal? "q" with
      | .ok (.arr #[a, b]) => do
          let n ← jInt a; let d ← jInt b
          if d = 0 then .error "zero denominator" else .ok (.fin ((n : Rat) / (d : Rat)))
      | _ => .error "bad number object"
  | _ => .error "bad number"

/-- finite exact number -/
def jRat (j : Json) : R Rat := do
  match (← jVal j) with
  | .fin q => .ok q
  | _ => .error "non-finite"

def jList {α} (f : Json → R α) (j : Json) : R (List α) := do
  (← jArr j).mapM f

def jMat {α} (f : Json → R α) (j : Json) : R (List (List α)) := jList (jList f) j

def ratJ (q : Rat) : Json := .arr #[.str (toString q.num), .str (toString q.den)]

def valJ : Val → Json
  | .nan => .str "nan"
  | .pinf => .str "inf"
  | .ninf => .str "-inf"
  | .fin q => ratJ q

def natJ (n : Nat) : Json := .num (JsonNumber.fromNat n)
def intJ (n : Int) : Json := .num (JsonNumber.fromInt n)
def listJ {α} (f : α → Json) (l : List α) : Json := .arr (l.map f).toArray
def matJ {α} (f : α → Json) (l : List (List α)) : Json := listJ (listJ f) l
def optJ {α} (f : α → Json) : Option α → Json
  | none => .null
  | some a => f a

end CE
