import CEModel.Discovery
/-! Decidable checker for the oCSE selection rule on a *recorded event trace* (C02, layer L1).

`specOK variant f αf αb n zinit evs result` replays the declarative rule along the recorded tests
`evs` of one target (forward tests first, then backward tests) and the reported parent list `result`:

* every forward test is at level `αf`, on a still undecided candidate, conditioned on
  `zinit ++ accepted-so-far` (standard) / `accepted-so-far` (alternative) **compared as a set with
  multiplicities** (`List.isPerm`: estimators ignore column order), its observed value is `f` of the
  candidate given the event's own conditioning list and is `leTop`-maximal among the `f`-values of
  all undecided candidates given that same list; the candidate is accepted iff the verdict is true;
  standard: a rejected candidate is discarded and the phase ends when no candidate is left;
  alternative: undecided = all not yet accepted, the phase ends at the first rejection or when
  nothing is left;
* then every member of the forward set is tested exactly once, in any order, at level `αb`,
  conditioned on the survivors at that moment minus itself (as a set), observed value `f`, and
  removed iff it fails;
* `result` is a permutation of the survivors.

`evs` must contain the `fwd`/`bwd` events of ONE target only (any `edge`-phase event is rejected;
the caller filters them out). Core Lean only: the driver calls it on traces recorded from the Python implementation.
`CEProofs/C02.lean` proves `specOK_of_model` (accepts every trace of the model, all oracles) and
`specOK_sound` (acceptance implies the Prop-level rule `OcseSpec List.Perm`). -/
namespace CE.Disc

/-- backward part: `V` predictors still to be visited, `S` current survivors -/
def chkBwd (f : Nat → List Nat → Val) (α : Rat) : List Nat → List Nat → List Ev → List Nat → Bool
  | V, S, [], result => V.isEmpty && result.isPerm S
  | V, S, e :: es, result =>
    decide (e.phase = .bwd) && decide (e.level = α) && V.contains e.cand &&
    e.cond.isPerm (S.filter (fun k => k != e.cand)) && decide (e.obs = f e.cand e.cond) &&
    chkBwd f α (V.erase e.cand) (if e.pass then S else S.filter (fun k => k != e.cand)) es result

/-- forward part: `U` undecided candidates, `S` accepted so far, `z0` initial conditioning ids;
`alt = true` stops at the first rejection. Hands over to `chkBwd` when the forward phase is over. -/
def chkFwd (alt : Bool) (f : Nat → List Nat → Val) (αf αb : Rat) (z0 : List Nat) :
    List Nat → List Nat → List Ev → List Nat → Bool
  | U, S, [], result => U.isEmpty && chkBwd f αb S S [] result
  | U, S, e :: es, result =>
    if e.phase = .fwd then
      decide (e.level = αf) && U.contains e.cand && e.cond.isPerm (z0 ++ S) &&
      decide (e.obs = f e.cand e.cond) && U.all (fun c => leTop (f c e.cond) e.obs) &&
      (if e.pass then chkFwd alt f αf αb z0 (U.erase e.cand) (S ++ [e.cand]) es result
       else if alt then chkBwd f αb S S es result
       else chkFwd alt f αf αb z0 (U.erase e.cand) S es result)
    else U.isEmpty && chkBwd f αb S S (e :: es) result

/-- `variant = true`: standard oCSE (initial conditioning `zinit`); `variant = false`: alternative
oCSE (`zinit` is ignored, the initial conditioning is empty). `n` = number of candidates `0..n-1`. -/
def specOK (variant : Bool) (f : Nat → List Nat → Val) (αf αb : Rat) (n : Nat) (zinit : List Nat)
    (evs : List Ev) (result : List Nat) : Bool :=
  chkFwd (!variant) f αf αb (if variant then zinit else []) (List.range n) [] evs result

end CE.Disc
