import CEModel.JsonIO
/-! Model of the Gaussian estimators `gaussian_mutual_information` /
`gaussian_conditional_mutual_information` (C08, C10) over ℚ. The estimator is
`½ · log ratio`; the logarithm is applied outside (by the harness), every theorem is about
`ratio`, a quotient of correlation determinants computed without square roots. -/
namespace CE.Gauss

abbrev Sample := List (List Rat)     -- list of rows

/-- `Fin.succAbove` without Mathlib: skip index `j` -/
def skip {n : Nat} (j : Fin (n + 1)) (i : Fin n) : Fin (n + 1) :=
  if i.val < j.val then i.castSucc else i.succ

/-- determinant by Laplace expansion along the first row -/
def detF : (n : Nat) → (Fin n → Fin n → Rat) → Rat
  | 0, _ => 1
  | n + 1, A =>
    ((List.finRange (n + 1)).map (fun j =>
      (if j.val % 2 = 0 then (1 : Rat) else -1) * A 0 j * detF n (fun a b => A a.succ (skip j b)))).sum

def entry (W : Sample) (r c : Nat) : Rat := (W.getD r []).getD c 0

def colMean (W : Sample) (c : Nat) : Rat :=
  ((List.range W.length).map (fun r => entry W r c)).sum / (W.length : Rat)

/-- sample covariance (`ddof = 1`) of columns `a` and `b` -/
def cov (W : Sample) (a b : Nat) : Rat :=
  let ma := colMean W a
  let mb := colMean W b
  ((List.range W.length).map (fun r => (entry W r a - ma) * (entry W r b - mb))).sum
    / ((W.length : Rat) - 1)

/-- the covariance entries of the listed columns, computed once (rows = first index) -/
def covTable (W : Sample) (cols : List Nat) : List (List Rat) :=
  cols.map (fun a => cols.map (fun b => cov W a b))

/-- determinant of the correlation matrix of the listed columns, with no square roots:
`det(cov[cols, cols]) / Π cov[c, c]` -/
def corrDet (W : Sample) (cols : List Nat) : Rat :=
  let C := (covTable W cols).map (·.toArray) |>.toArray
  detF cols.length (fun a b => (C.getD a.val #[]).getD b.val 0)
    / (cols.map (fun c => cov W c c)).prod

/-- columns `[lo, lo+len)` -/
def span (lo len : Nat) : List Nat := (List.range len).map (· + lo)

/-- `exp(2 · I(X;Y|Z))`: `W` holds the columns of X (first `kx`), Y (next `ky`), Z (last `kz`) -/
def ratio (W : Sample) (kx ky kz : Nat) : Rat :=
  let X := span 0 kx
  let Y := span kx ky
  let Z := span (kx + ky) kz
  corrDet W (X ++ Z) * corrDet W (Y ++ Z) / (corrDet W Z * corrDet W (X ++ Y ++ Z))

/-- the four determinants separately (the sentinel / singular branches are decided on them) -/
def dets (W : Sample) (kx ky kz : Nat) : List Rat :=
  let X := span 0 kx
  let Y := span kx ky
  let Z := span (kx + ky) kz
  [corrDet W (X ++ Z), corrDet W (Y ++ Z), corrDet W Z, corrDet W (X ++ Y ++ Z)]

open Lean in
def hGaussRatio (j : Json) : R Json := do
  let W ← jMat jRat (← jField j "W")
  let kx ← jNat (← jField j "kx")
  let ky ← jNat (← jField j "ky")
  let kz ← jNat (← jField j "kz")
  return Json.mkObj [("ratio", ratJ (ratio W kx ky kz)), ("dets", listJ ratJ (dets W kx ky kz))]

end CE.Gauss
