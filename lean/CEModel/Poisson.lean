import CEModel.JsonIO
/-! Model of `poisson_entropy` / `poisson_joint_entropy` (C13), written once over core type
classes: executed at `Float` (reference evaluation), reasoned about over any ordered field
with the probability mass function `pmf : ℕ → α → α` abstract. -/
namespace CE.Poisson

section generic
variable {α : Type} [Add α] [Sub α] [Mul α] [Neg α] [LT α] [DecidableLT α] [Max α]
  [OfNat α 0] [OfNat α 1]

/-- `np.max` of a non-empty list (`d` for the empty list) -/
def maxL (d : α) : List α → α
  | [] => d
  | [a] => a
  | a :: as => max a (maxL d as)

/-- mass accumulated before iteration `i`: terms `0 .. i-1` (`Psum`) -/
def psum (pmf : Nat → α → α) (lam : α) : Nat → α
  | 0 => 0
  | i + 1 => psum pmf lam i + pmf i lam

/-- value of `small` when the loop condition is evaluated before iteration `i` (repaired rule:
`small = np.max(prob)` once `i ≥ np.max(lambdas)`); `cast` is the embedding ℕ → α -/
def smallAt (cast : Nat → α) (pmf : Nat → α → α) (lams : List α) (i : Nat) : α :=
  if 2 ≤ i ∧ ¬ (cast (i - 1) < maxL 0 lams) then maxL 0 (lams.map (pmf (i - 1))) else 1

/-- the pinned (pre-fix) rule used the smallest probability instead -/
def minL (d : α) : List α → α
  | [] => d
  | [a] => a
  | a :: as => let m := minL d as; if a < m then a else m

def smallAtMin (cast : Nat → α) (pmf : Nat → α → α) (lams : List α) (i : Nat) : α :=
  if 2 ≤ i ∧ ¬ (cast (i - 1) < maxL 0 lams) then minL 0 (lams.map (pmf (i - 1))) else 1

/-- loop condition before iteration `i ≥ 1`:
`np.max(1 - Psum) > tol1 and small > tol2` -/
def cont (cast : Nat → α) (pmf : Nat → α → α) (tol1 tol2 : α) (lams : List α) (i : Nat) : Bool :=
  decide (tol1 < maxL 0 (lams.map (fun l => 1 - psum pmf l i))) &&
  decide (tol2 < smallAt cast pmf lams i)

/-- `p log p` with the zero-probability mask of the repaired code -/
def plogp (log : α → α) (p : α) : α := if 0 < p then p * log p else 0

/-- loop state of `poisson_entropy`: next index, `Psum`, `small`, running `-Σ p log p` per rate -/
structure St (α : Type) where
  i     : Nat
  psums : List α
  small : α
  ent   : List α

/-- `while np.max(1 - Psum) > tol1 and small > tol2` -/
def condB (tol1 tol2 : α) (st : St α) : Bool :=
  decide (tol1 < maxL 0 (st.psums.map (fun s => 1 - s))) && decide (tol2 < st.small)

/-- loop body -/
def stepSt (cast : Nat → α) (pmf : Nat → α → α) (log : α → α) (lams : List α) (st : St α) : St α :=
  let prob := lams.map (pmf st.i)
  { i := st.i + 1,
    psums := List.zipWith (· + ·) st.psums prob,
    small := if cast st.i < maxL 0 lams then st.small else maxL 0 prob,
    ent := List.zipWith (fun e p => e - plogp log p) st.ent prob }

def initSt (pmf : Nat → α → α) (log : α → α) (lams : List α) : St α :=
  { i := 1, psums := lams.map (pmf 0), small := 1, ent := lams.map (fun l => 0 - plogp log (pmf 0 l)) }

def run (cast : Nat → α) (pmf : Nat → α → α) (log : α → α) (tol1 tol2 : α) (lams : List α) :
    Nat → St α → St α
  | 0, st => st
  | fuel + 1, st =>
    if condB tol1 tol2 st then run cast pmf log tol1 tol2 lams fuel (stepSt cast pmf log lams st) else st

/-- `poisson_entropy(lambdas)` on a vector of non-negative rates -/
def entropyVec (cast : Nat → α) (pmf : Nat → α → α) (log : α → α) (tol1 tol2 : α) (fuel : Nat)
    (lams : List α) : List α :=
  (run cast pmf log tol1 tol2 lams fuel (initSt pmf log lams)).ent

/-- closed form of the number of terms: first `i ≥ 1` at which the loop condition fails -/
def stopIndex (cast : Nat → α) (pmf : Nat → α → α) (tol1 tol2 : α) (lams : List α) : Nat → Nat → Nat
  | 0, i => i
  | fuel + 1, i => if cont cast pmf tol1 tol2 lams i then stopIndex cast pmf tol1 tol2 lams fuel (i + 1) else i

/-- closed form of one entry: `-Σ_{k<K} plogp(pmf k λ)` -/
def entropySum (pmf : Nat → α → α) (log : α → α) (lam : α) : Nat → α
  | 0 => 0
  | k + 1 => entropySum pmf log lam k - plogp log (pmf k lam)

end generic

/-! ### joint entropy (exact) -/

/-- `Σ_i H(C_ii) + Σ_{i<j} C_ij` given the marginal entropies of the diagonal rates -/
def jointEntropy (H : List Rat) (C : List (List Rat)) : Rat :=
  H.sum + ((List.range C.length).map (fun i =>
    ((List.range C.length).map (fun j => if i < j then (C.getD i []).getD j 0 else 0)).sum)).sum

/-! ### Float instance -/

def logFact (k : Nat) : Float := (List.range k).foldl (fun acc i => acc + Float.log (i.toFloat + 1)) 0

/-- Poisson pmf in log space, independent of SciPy -/
def pmfF (k : Nat) (lam : Float) : Float :=
  if lam == 0 then (if k = 0 then 1 else 0)
  else Float.exp (-lam + k.toFloat * Float.log lam - logFact k)

/-- independent reference: the entropy series summed far into the tail -/
def entropyRef (lam : Float) : Float :=
  let K := (lam + 40 * Float.sqrt lam + 60).toUInt64.toNat
  -- incremental log-pmf to stay O(K)
  let rec go (k : Nat) (fuel : Nat) (logp : Float) (acc : Float) : Float :=
    match fuel with
    | 0 => acc
    | fuel + 1 =>
      let p := Float.exp logp
      let acc := if p > 0 then acc - p * logp else acc
      go (k + 1) fuel (logp + Float.log lam - Float.log (k.toFloat + 1)) acc
  if lam == 0 then 0 else go 0 (K + 1) (-lam) 0

open Lean in
def jFloat (j : Json) : R Float := do
  match j with
  | .obj _ => do
    let b ← jNat (← jField j "b")
    return Float.ofBits b.toUInt64
  | .num n => return n.toFloat
  | _ => throw "bad float"

open Lean in
def floatJ (f : Float) : Json := Json.mkObj [("b", natJ f.toBits.toNat)]

open Lean in
def hPoissonEntropy (j : Json) : R Json := do
  let lams ← jList jFloat (← jField j "lams")
  let v := entropyVec (α := Float) (fun n => n.toFloat) pmfF Float.log 1e-16 1e-75 100000 lams
  return Json.mkObj [("vec", listJ floatJ v), ("ref", listJ floatJ (lams.map entropyRef)),
    ("K", natJ (run (α := Float) (fun n => n.toFloat) pmfF Float.log 1e-16 1e-75 lams 100000 (initSt pmfF Float.log lams)).i)]

open Lean in
def hJointEntropy (j : Json) : R Json := do
  let H ← jList jRat (← jField j "H")
  let C ← jMat jRat (← jField j "C")
  return ratJ (jointEntropy H C)

end CE.Poisson
