import CEModel.JsonIO
/-! C17 — model of `causationentropy/core/stats.py`: `Compute_TPR_FPR` and `auc`.
The matrices enter flattened as the list of entry pairs `(A[i][j], B[i][j])`;
`n` is the side length. Everything is exact (ℚ). -/
namespace CE.Stats

/-- `np.sum((A - B) > 0)` -/
def falseNeg (ps : List (Rat × Rat)) : Nat := ps.countP (fun p => decide (p.1 - p.2 > 0))
/-- `np.sum((A - B) < 0)` -/
def falsePos (ps : List (Rat × Rat)) : Nat := ps.countP (fun p => decide (p.1 - p.2 < 0))
/-- `np.sum(A)` -/
def totalPos (ps : List (Rat × Rat)) : Rat := (ps.map (·.1)).sum

/-- `Compute_TPR_FPR(A, B)` on the flattened pair list of two `n × n` matrices. -/
def tprFpr (n : Nat) (ps : List (Rat × Rat)) : Rat × Rat :=
  let P := totalPos ps
  let Nneg : Rat := (n : Rat) * ((n : Rat) - 1) - P
  let tpr := if P > 0 then 1 - (falseNeg ps : Rat) / P else 1
  let fpr := if Nneg > 0 then (falsePos ps : Rat) / Nneg else 0
  (tpr, fpr)

/-- `np.trapezoid(ys, xs)`: Σ (x_{i+1} − x_i)(y_i + y_{i+1})/2 -/
def auc : List Rat → List Rat → Rat
  | y₀ :: y₁ :: ys, x₀ :: x₁ :: xs => (x₁ - x₀) * (y₀ + y₁) / 2 + auc (y₁ :: ys) (x₁ :: xs)
  | _, _ => 0

open Lean in
def hTprFpr (j : Json) : R Json := do
  let A ← jMat jRat (← jField j "A")
  let B ← jMat jRat (← jField j "B")
  let n := A.length
  if B.length ≠ n ∨ A.any (·.length ≠ n) ∨ B.any (·.length ≠ n) then throw "shape"
  let ps := (A.flatten).zip (B.flatten)
  let (t, f) := tprFpr n ps
  return Json.mkObj [("tpr", ratJ t), ("fpr", ratJ f)]

open Lean in
def hAuc (j : Json) : R Json := do
  let ys ← jList jRat (← jField j "y")
  let xs ← jList jRat (← jField j "x")
  if ys.length ≠ xs.length then throw "shape"
  return ratJ (auc ys xs)

end CE.Stats
