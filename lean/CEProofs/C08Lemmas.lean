import CEModel.Gaussian
import Mathlib.LinearAlgebra.Matrix.Determinant.Basic
import Mathlib.LinearAlgebra.Matrix.SchurComplement
import Mathlib.Algebra.BigOperators.Fin
import Mathlib.Algebra.BigOperators.Field
import Mathlib.Data.Rat.Defs
import Mathlib.Algebra.Order.BigOperators.Ring.Finset
import Mathlib.Data.List.Perm.Basic
import Mathlib.Data.List.Forall2
import Mathlib.Tactic.FieldSimp
import Mathlib.Tactic.Ring
import Mathlib.Tactic.Linarith

/-! # C08 / C10 — bridge from the list-based Gaussian model to Mathlib's `Matrix.det`

`CE.Gauss.detF` (Laplace expansion along the first row, core Lean only) is Mathlib's determinant;
`corrDet` is re-expressed through the matrix view `covM` and the transport lemmas used by
`CEProofs/C08.lean` and `CEProofs/C10Gauss.lean` are proved here. -/
namespace CE.Gauss
open Matrix

/-! ## `detF` is `Matrix.det` -/

theorem skip_eq_succAbove {n : ℕ} (j : Fin (n + 1)) (i : Fin n) : skip j i = j.succAbove i := by
  unfold skip Fin.succAbove
  simp only [Fin.lt_def, Fin.val_castSucc]

theorem sign_eq (j : ℕ) : (if j % 2 = 0 then (1 : ℚ) else -1) = (-1) ^ j := by
  rcases Nat.even_or_odd j with h | h
  · rw [if_pos (Nat.even_iff.mp h), h.neg_one_pow]
  · rw [if_neg (by rw [Nat.odd_iff.mp h]; decide), h.neg_one_pow]

/-- **Bridge.** The model's Laplace-expansion determinant is Mathlib's determinant. -/
theorem detF_eq_det : ∀ (n : ℕ) (A : Fin n → Fin n → ℚ), detF n A = Matrix.det (Matrix.of A)
  | 0, A => by simp [detF]
  | n + 1, A => by
    rw [Matrix.det_succ_row_zero, detF, ← Fin.sum_univ_def]
    apply Finset.sum_congr rfl
    intro j _
    rw [detF_eq_det n, sign_eq]
    congr 2

/-! ## List sums / products as `Finset` sums / products -/

theorem sum_range_map (n : ℕ) (f : ℕ → ℚ) :
    ((List.range n).map f).sum = ∑ r ∈ Finset.range n, f r := by
  induction n with
  | zero => simp
  | succ n ih => rw [List.range_succ, List.map_append, List.sum_append, ih, Finset.sum_range_succ]; simp

theorem prod_map_eq (cols : List ℕ) (f : ℕ → ℚ) :
    (cols.map f).prod = ∏ i : Fin cols.length, f (cols.getD i.val 0) := by
  rw [← List.prod_ofFn]
  congr 1
  apply List.ext_getElem
  · simp
  · intro i h1 h2
    simp

/-! ## Matrix view -/

/-- covariance sub-matrix of the columns listed by `e` -/
def covE (W : Sample) {ι : Type} (e : ι → ℕ) : Matrix ι ι ℚ :=
  Matrix.of fun a b => cov W (e a) (e b)

/-- cross-covariance block between the columns listed by `e` and those listed by `f` -/
def crossE (W : Sample) {ι κ : Type} (e : ι → ℕ) (f : κ → ℕ) : Matrix ι κ ℚ :=
  Matrix.of fun a b => cov W (e a) (f b)

/-- the `i`-th listed column -/
def colAt (cols : List ℕ) (i : Fin cols.length) : ℕ := cols.getD i.val 0

/-- **matrix view** of `cov W` restricted to the listed columns -/
def covM (W : Sample) (cols : List ℕ) : Matrix (Fin cols.length) (Fin cols.length) ℚ :=
  covE W (colAt cols)

/-- correlation determinant of the columns listed by `e` (Mathlib determinant) -/
def corrE (W : Sample) {m : ℕ} (e : Fin m → ℕ) : ℚ :=
  (covE W e).det / ∏ i, cov W (e i) (e i)

theorem corrDet_eq (W : Sample) (cols : List ℕ) :
    corrDet W cols = (covM W cols).det / (cols.map (fun c => cov W c c)).prod := by
  unfold corrDet
  simp only []
  rw [detF_eq_det]
  congr 2
  funext a b
  simp [covTable, covM, covE, colAt, Matrix.of_apply, Array.getD_eq_getD_getElem?]

theorem corrDet_eq_corrE_colAt (W : Sample) (cols : List ℕ) :
    corrDet W cols = corrE W (colAt cols) := by
  rw [corrDet_eq, prod_map_eq]
  rfl

/-- master transfer lemma: any enumeration `e` of the list gives the same value -/
theorem corrDet_eq_corrE (W : Sample) (cols : List ℕ) {m : ℕ} (e : Fin m → ℕ)
    (h : cols.length = m) (he : ∀ i : Fin m, cols.getD i.val 0 = e i) :
    corrDet W cols = corrE W e := by
  subst h
  have : e = colAt cols := by
    funext i
    rw [← he i]
    rfl
  rw [this, corrDet_eq_corrE_colAt]

/-! ## Reordering the listed columns -/

theorem corrE_reindex (W : Sample) {m m' : ℕ} (σ : Fin m ≃ Fin m') (e : Fin m' → ℕ) :
    corrE W (e ∘ σ) = corrE W e := by
  unfold corrE
  have h1 : covE W (e ∘ σ) = (covE W e).submatrix σ σ := by
    ext i j; simp [covE, Matrix.submatrix_apply]
  rw [h1, Matrix.det_submatrix_equiv_self]
  congr 1
  exact Equiv.prod_comp σ (fun i => cov W (e i) (e i))

/-- a list permutation is induced by a bijection of positions -/
theorem perm_exists_equiv {α : Type} {l l' : List α} (h : l.Perm l') :
    ∃ σ : Fin l.length ≃ Fin l'.length, ∀ i, l'.get (σ i) = l.get i := by
  induction h with
  | nil => exact ⟨Equiv.refl _, fun i => i.elim0⟩
  | @cons x l₁ l₂ _ ih =>
    obtain ⟨σ, hσ⟩ := ih
    refine ⟨(finSuccEquiv l₁.length).trans ((Equiv.optionCongr σ).trans
      (finSuccEquiv l₂.length).symm), ?_⟩
    intro i
    refine Fin.cases ?_ (fun j => ?_) i
    · simp
    · simpa using hσ j
  | swap x y l =>
    refine ⟨Equiv.swap (0 : Fin (l.length + 2)) 1, ?_⟩
    intro i
    refine Fin.cases ?_ (fun j => ?_) i
    · simp
    · refine Fin.cases ?_ (fun k => ?_) j
      · simp
      · have h0 : (k.succ.succ : Fin (l.length + 2)) ≠ 0 := Fin.succ_ne_zero _
        have h1 : (k.succ.succ : Fin (l.length + 2)) ≠ 1 := by
          intro h; exact Fin.succ_ne_zero k (Fin.succ_injective _ h)
        rw [Equiv.swap_apply_of_ne_of_ne h0 h1]
        rfl
  | trans _ _ ih₁ ih₂ =>
    obtain ⟨σ, hσ⟩ := ih₁
    obtain ⟨τ, hτ⟩ := ih₂
    exact ⟨σ.trans τ, fun i => by rw [Equiv.trans_apply, hτ, hσ]⟩

/-- `corrDet` depends only on the multiset of listed columns -/
theorem corrDet_perm (W : Sample) {cols cols' : List ℕ} (h : cols.Perm cols') :
    corrDet W cols = corrDet W cols' := by
  obtain ⟨σ, hσ⟩ := perm_exists_equiv h
  rw [corrDet_eq_corrE_colAt W cols', ← corrE_reindex W σ (colAt cols')]
  apply corrDet_eq_corrE W cols _ rfl
  intro i
  have := hσ i
  simp only [List.get_eq_getElem] at this
  simp [colAt, this]

theorem corrDet_nil (W : Sample) : corrDet W [] = 1 := by
  simp [corrDet, detF, covTable]

/-! ## `cov` as a `Finset` sum; dependence on the listed columns only -/

theorem colMean_eq (W : Sample) (c : ℕ) :
    colMean W c = (∑ r ∈ Finset.range W.length, entry W r c) / (W.length : ℚ) := by
  unfold colMean; rw [sum_range_map]

theorem cov_eq (W : Sample) (a b : ℕ) :
    cov W a b = (∑ r ∈ Finset.range W.length,
      (entry W r a - colMean W a) * (entry W r b - colMean W b)) / ((W.length : ℚ) - 1) := by
  unfold cov; simp only []; rw [sum_range_map]

theorem cov_comm (W : Sample) (a b : ℕ) : cov W a b = cov W b a := by
  rw [cov_eq, cov_eq]
  congr 1
  exact Finset.sum_congr rfl (fun r _ => mul_comm _ _)

/-- column `c'` of `W'` is column `c` of `W` (on the rows that exist) -/
def ColEq (W' W : Sample) (c' c : ℕ) : Prop := ∀ r < W.length, entry W' r c' = entry W r c

theorem colMean_congr {W' W : Sample} (hlen : W'.length = W.length) {c' c : ℕ}
    (h : ColEq W' W c' c) : colMean W' c' = colMean W c := by
  rw [colMean_eq, colMean_eq, hlen]
  congr 1
  exact Finset.sum_congr rfl (fun r hr => h r (Finset.mem_range.mp hr))

theorem cov_congr {W' W : Sample} (hlen : W'.length = W.length) {a' a b' b : ℕ}
    (ha : ColEq W' W a' a) (hb : ColEq W' W b' b) : cov W' a' b' = cov W a b := by
  rw [cov_eq, cov_eq, hlen, colMean_congr hlen ha, colMean_congr hlen hb]
  congr 1
  refine Finset.sum_congr rfl (fun r hr => ?_)
  rw [ha r (Finset.mem_range.mp hr), hb r (Finset.mem_range.mp hr)]

theorem corrE_congr {W' W : Sample} (hlen : W'.length = W.length) {m : ℕ} (e' e : Fin m → ℕ)
    (h : ∀ i, ColEq W' W (e' i) (e i)) : corrE W' e' = corrE W e := by
  unfold corrE covE
  have hc : ∀ i j, cov W' (e' i) (e' j) = cov W (e i) (e j) :=
    fun i j => cov_congr hlen (h i) (h j)
  simp only [hc]

/-- `corrDet` only looks at the listed columns -/
theorem corrDet_congr {W' W : Sample} (hlen : W'.length = W.length) {cols' cols : List ℕ}
    (h : List.Forall₂ (ColEq W' W) cols' cols) : corrDet W' cols' = corrDet W cols := by
  rw [List.forall₂_iff_get] at h
  obtain ⟨hl, hget⟩ := h
  rw [corrDet_eq_corrE_colAt W cols,
    corrDet_eq_corrE W' cols' (fun i : Fin cols.length => cols'.getD i.val 0) hl (fun _ => rfl)]
  apply corrE_congr hlen
  intro i
  have hi' : i.val < cols'.length := by rw [hl]; exact i.isLt
  have := hget i.val hi' i.isLt
  simp only [List.get_eq_getElem] at this
  simpa [colAt, hi'] using this

/-! ## Per-column affine maps -/

/-- column `c` of `W'` is `a · (column c of W) + b` -/
def ColAffine (W' W : Sample) (c : ℕ) (a b : ℚ) : Prop :=
  ∀ r < W.length, entry W' r c = a * entry W r c + b

theorem colMean_affine {W' W : Sample} (hlen : W'.length = W.length) (hN : W.length ≠ 0)
    {c : ℕ} {a b : ℚ} (h : ColAffine W' W c a b) : colMean W' c = a * colMean W c + b := by
  rw [colMean_eq, colMean_eq, hlen]
  have hN' : (W.length : ℚ) ≠ 0 := Nat.cast_ne_zero.mpr hN
  rw [Finset.sum_congr rfl (fun r hr => h r (Finset.mem_range.mp hr)),
    Finset.sum_add_distrib, ← Finset.mul_sum]
  simp only [Finset.sum_const, Finset.card_range, nsmul_eq_mul]
  field_simp

theorem cov_affine {W' W : Sample} (hlen : W'.length = W.length) {c d : ℕ} {a b a' b' : ℚ}
    (hc : ColAffine W' W c a b) (hd : ColAffine W' W d a' b') :
    cov W' c d = a * a' * cov W c d := by
  by_cases hN : W.length = 0
  · rw [cov_eq, cov_eq, hlen, hN]; simp
  rw [cov_eq, cov_eq, hlen, colMean_affine hlen hN hc, colMean_affine hlen hN hd,
    mul_div_assoc', Finset.mul_sum]
  congr 1
  refine Finset.sum_congr rfl (fun r hr => ?_)
  rw [hc r (Finset.mem_range.mp hr), hd r (Finset.mem_range.mp hr)]
  ring

theorem corrE_affine {W' W : Sample} (hlen : W'.length = W.length) {m : ℕ} (e : Fin m → ℕ)
    (a b : Fin m → ℚ) (ha : ∀ i, a i ≠ 0) (h : ∀ i, ColAffine W' W (e i) (a i) (b i)) :
    corrE W' e = corrE W e := by
  unfold corrE
  have hcov : ∀ i j, cov W' (e i) (e j) = a i * a j * cov W (e i) (e j) :=
    fun i j => cov_affine hlen (h i) (h j)
  have hsub : covE W' e
      = Matrix.of (fun i j => a j * (Matrix.of (fun i j => a i * covE W e i j)) i j) := by
    ext i j
    simp only [covE, Matrix.of_apply, hcov]
    ring
  rw [hsub, Matrix.det_mul_row, Matrix.det_mul_column]
  have hprod : ∏ i, cov W' (e i) (e i)
      = (∏ i, a i) * (∏ i, a i) * ∏ i, cov W (e i) (e i) := by
    simp only [hcov]
    rw [Finset.prod_mul_distrib, Finset.prod_mul_distrib]
  rw [hprod]
  have hne : (∏ i, a i) ≠ 0 := Finset.prod_ne_zero_iff.mpr (fun i _ => ha i)
  by_cases hz : (∏ i, cov W (e i) (e i)) = 0
  · simp [hz]
  · field_simp

/-- `corrDet` is invariant under per-column affine maps with nonzero scale -/
theorem corrDet_affine {W' W : Sample} (hlen : W'.length = W.length) (a b : ℕ → ℚ)
    (cols : List ℕ) (ha : ∀ c ∈ cols, a c ≠ 0)
    (h : ∀ c ∈ cols, ColAffine W' W c (a c) (b c)) : corrDet W' cols = corrDet W cols := by
  rw [corrDet_eq_corrE_colAt, corrDet_eq_corrE_colAt]
  have hmem : ∀ i : Fin cols.length, colAt cols i ∈ cols := by
    intro i
    simp [colAt]
  exact corrE_affine hlen (colAt cols) (fun i => a (colAt cols i)) (fun i => b (colAt cols i))
    (fun i => ha _ (hmem i)) (fun i => h _ (hmem i))

/-! ## `span`, `ratio` on arbitrary column lists, column-selected samples -/

@[simp] theorem span_length (lo n : ℕ) : (span lo n).length = n := by simp [span]

theorem span_getElem (lo n i : ℕ) (h : i < (span lo n).length) : (span lo n)[i] = i + lo := by
  simp [span]

theorem mem_span {lo n c : ℕ} : c ∈ span lo n ↔ lo ≤ c ∧ c < lo + n := by
  simp only [span, List.mem_map, List.mem_range]
  constructor
  · rintro ⟨i, hi, rfl⟩; omega
  · rintro ⟨h1, h2⟩; exact ⟨c - lo, by omega, by omega⟩

theorem span_add (lo a b : ℕ) : span lo (a + b) = span lo a ++ span (lo + a) b := by
  apply List.ext_getElem
  · simp
  · intro i h1 h2
    simp only [span_length] at h1
    rw [List.getElem_append]
    split
    · simp [span_getElem]
    · rename_i h
      simp only [span_length, not_lt] at h
      simp only [span_getElem, span_length]
      omega

/-- the quotient of correlation determinants on arbitrary column lists `X`, `Y`, `Z` -/
def ratioL (W : Sample) (X Y Z : List ℕ) : ℚ :=
  corrDet W (X ++ Z) * corrDet W (Y ++ Z) / (corrDet W Z * corrDet W (X ++ Y ++ Z))

theorem ratio_eq_ratioL (W : Sample) (kx ky kz : ℕ) :
    ratio W kx ky kz = ratioL W (span 0 kx) (span kx ky) (span (kx + ky) kz) := rfl

/-- `W'` is the column-selected sample: same number of rows, and column `i` of `W'` is column
`cs[i]` of `W` (for `i < cs.length`; further columns of `W'` are unconstrained) -/
def IsColSel (W' W : Sample) (cs : List ℕ) : Prop :=
  W'.length = W.length ∧ ∀ i (h : i < cs.length), ColEq W' W i cs[i]

theorem IsColSel.forall₂ {W' W : Sample} {A B C : List ℕ} (h : IsColSel W' W (A ++ B ++ C))
    {lo n : ℕ} (hA : A.length = lo) (hB : B.length = n) :
    List.Forall₂ (ColEq W' W) (span lo n) B := by
  subst hA hB
  rw [List.forall₂_iff_get]
  refine ⟨by simp, ?_⟩
  intro i h1 h2
  have h3 : i + A.length < (A ++ B ++ C).length := by simp; omega
  have := h.2 (i + A.length) h3
  have hg : (A ++ B ++ C)[i + A.length] = B[i] := by
    simp [h2]
  rw [hg] at this
  simpa [span_getElem] using this

/-- the four determinants of the model on the column-selected sample -/
theorem dets_of_colSel {W' W : Sample} {A B C : List ℕ} (h : IsColSel W' W (A ++ B ++ C)) :
    dets W' A.length B.length C.length
      = [corrDet W (A ++ C), corrDet W (B ++ C), corrDet W C, corrDet W (A ++ B ++ C)] := by
  have hA : List.Forall₂ (ColEq W' W) (span 0 A.length) A := by
    have h' : IsColSel W' W ([] ++ A ++ (B ++ C)) := by simpa using h
    exact h'.forall₂ rfl rfl
  have hB : List.Forall₂ (ColEq W' W) (span A.length B.length) B := h.forall₂ rfl rfl
  have hC : List.Forall₂ (ColEq W' W) (span (A.length + B.length) C.length) C := by
    have h' : IsColSel W' W ((A ++ B) ++ C ++ []) := by simpa using h
    exact h'.forall₂ (by simp) rfl
  unfold dets
  simp only
  rw [corrDet_congr h.1 (List.rel_append hA hC), corrDet_congr h.1 (List.rel_append hB hC),
    corrDet_congr h.1 hC, corrDet_congr h.1 (List.rel_append (List.rel_append hA hB) hC)]

theorem ratio_eq_of_dets (W : Sample) (kx ky kz : ℕ) {d1 d2 d3 d4 : ℚ}
    (h : dets W kx ky kz = [d1, d2, d3, d4]) : ratio W kx ky kz = d1 * d2 / (d3 * d4) := by
  unfold dets at h
  simp only [List.cons.injEq, and_true] at h
  obtain ⟨h1, h2, h3, h4⟩ := h
  unfold ratio
  simp only
  rw [h1, h2, h3, h4]

/-- **key lemma**: the model's `ratio` on the column-selected sample is `ratioL` on the original -/
theorem ratio_of_colSel {W' W : Sample} {A B C : List ℕ} (h : IsColSel W' W (A ++ B ++ C)) :
    ratio W' A.length B.length C.length = ratioL W A B C :=
  ratio_eq_of_dets W' _ _ _ (dets_of_colSel h)

/-! ## Concrete column-selected / affinely transformed samples (hypotheses are satisfiable) -/

/-- the sample whose columns are the columns `cs` of `W`, in that order (`np.hstack` of slices) -/
def selectCols (W : Sample) (cs : List ℕ) : Sample :=
  W.map (fun row => cs.map (fun c => row.getD c 0))

theorem isColSel_selectCols (W : Sample) (cs : List ℕ) : IsColSel (selectCols W cs) W cs := by
  refine ⟨by simp [selectCols], ?_⟩
  intro i hi r hr
  simp [entry, selectCols, hr, hi]

/-- the first `d` columns of `W`, column `c` replaced by `a c · column + b c` -/
def affineMap (a b : ℕ → ℚ) (d : ℕ) (W : Sample) : Sample :=
  W.map (fun row => (List.range d).map (fun c => a c * row.getD c 0 + b c))

theorem affineMap_length (a b : ℕ → ℚ) (d : ℕ) (W : Sample) :
    (affineMap a b d W).length = W.length := by simp [affineMap]

theorem affineMap_entry (a b : ℕ → ℚ) (d : ℕ) (W : Sample) {r c : ℕ} (hr : r < W.length)
    (hc : c < d) : entry (affineMap a b d W) r c = a c * entry W r c + b c := by
  simp [entry, affineMap, hr, hc]

/-! ## Block structure of `covM W (A ++ Z)` -/

/-- positions of `A ++ Z` = positions of `A` ⊕ positions of `Z` -/
def appendEquiv (A Z : List ℕ) : Fin A.length ⊕ Fin Z.length ≃ Fin (A ++ Z).length :=
  finSumFinEquiv.trans (finCongr (List.length_append).symm)

theorem colAt_appendEquiv (A Z : List ℕ) (s : Fin A.length ⊕ Fin Z.length) :
    colAt (A ++ Z) (appendEquiv A Z s) = Sum.elim (colAt A) (colAt Z) s := by
  rcases s with i | j
  · simp [colAt, appendEquiv, List.getElem?_append_left i.isLt]
  · simp [colAt, appendEquiv, List.getElem_append_right]

theorem det_covM_append (W : Sample) (A Z : List ℕ) :
    (covM W (A ++ Z)).det = (covE W (Sum.elim (colAt A) (colAt Z))).det := by
  rw [← Matrix.det_submatrix_equiv_self (appendEquiv A Z) (covM W (A ++ Z))]
  congr 1
  ext s t
  simp only [covM, covE, Matrix.submatrix_apply, Matrix.of_apply, colAt_appendEquiv]

theorem covE_sum (W : Sample) {ι κ : Type} (eA : ι → ℕ) (eZ : κ → ℕ) :
    covE W (Sum.elim eA eZ)
      = Matrix.fromBlocks (covE W eA) (crossE W eA eZ) (crossE W eZ eA) (covE W eZ) := by
  ext s t
  rcases s with i | j <;> rcases t with k | l <;> rfl

/-! ## Linear combinations of columns: bilinearity of `cov` -/

/-- column `c'` of `W'` is `Σ i, t i · (column e i of W) + b` -/
def ColLin (W' W : Sample) (c' : ℕ) {ι : Type} [Fintype ι] (e : ι → ℕ) (t : ι → ℚ) (b : ℚ) :
    Prop :=
  ∀ r < W.length, entry W' r c' = (∑ i, t i * entry W r (e i)) + b

theorem cov_of_length_zero (W : Sample) (h : W.length = 0) (a b : ℕ) : cov W a b = 0 := by
  rw [cov_eq, h]; simp

theorem colMean_lin {W' W : Sample} (hlen : W'.length = W.length) (hN : W.length ≠ 0) {c' : ℕ}
    {ι : Type} [Fintype ι] {e : ι → ℕ} {t : ι → ℚ} {b : ℚ} (h : ColLin W' W c' e t b) :
    colMean W' c' = (∑ i, t i * colMean W (e i)) + b := by
  rw [colMean_eq, hlen]
  have hN' : (W.length : ℚ) ≠ 0 := Nat.cast_ne_zero.mpr hN
  rw [Finset.sum_congr rfl (fun r hr => h r (Finset.mem_range.mp hr)), Finset.sum_add_distrib,
    Finset.sum_comm]
  simp only [colMean_eq, ← Finset.mul_sum, Finset.sum_const, Finset.card_range, nsmul_eq_mul]
  rw [add_div, Finset.sum_div]
  congr 1
  · exact Finset.sum_congr rfl (fun i _ => by rw [mul_div_assoc])
  · field_simp

theorem cov_lin {W' W : Sample} (hlen : W'.length = W.length) {c' d' : ℕ}
    {ι κ : Type} [Fintype ι] [Fintype κ] {e : ι → ℕ} {f : κ → ℕ} {t : ι → ℚ} {s : κ → ℚ}
    {b b' : ℚ} (hc : ColLin W' W c' e t b) (hd : ColLin W' W d' f s b') :
    cov W' c' d' = ∑ i, ∑ k, t i * s k * cov W (e i) (f k) := by
  by_cases hN : W.length = 0
  · rw [cov_of_length_zero W' (hlen.trans hN)]
    simp [cov_of_length_zero W hN]
  rw [cov_eq, hlen, colMean_lin hlen hN hc, colMean_lin hlen hN hd]
  have h1 : ∀ {α : Type} [Fintype α] (g : α → ℕ) (u : α → ℚ) (bb : ℚ) (r : ℕ),
      (∑ i, u i * entry W r (g i)) + bb - ((∑ i, u i * colMean W (g i)) + bb)
        = ∑ i, u i * (entry W r (g i) - colMean W (g i)) := by
    intro α _ g u bb r
    rw [add_sub_add_right_eq_sub, ← Finset.sum_sub_distrib]
    exact Finset.sum_congr rfl (fun i _ => by ring)
  have hcen : ∀ r ∈ Finset.range W.length,
      (entry W' r c' - ((∑ i, t i * colMean W (e i)) + b))
        * (entry W' r d' - ((∑ k, s k * colMean W (f k)) + b'))
      = ∑ i, ∑ k, t i * s k *
          ((entry W r (e i) - colMean W (e i)) * (entry W r (f k) - colMean W (f k))) := by
    intro r hr
    rw [hc r (Finset.mem_range.mp hr), hd r (Finset.mem_range.mp hr), h1, h1,
      Finset.sum_mul_sum]
    exact Finset.sum_congr rfl (fun i _ => Finset.sum_congr rfl (fun k _ => by ring))
  rw [Finset.sum_congr rfl hcen, Finset.sum_comm, Finset.sum_div]
  refine Finset.sum_congr rfl (fun i _ => ?_)
  rw [Finset.sum_comm, Finset.sum_div]
  refine Finset.sum_congr rfl (fun k _ => ?_)
  rw [← Finset.mul_sum, cov_eq, mul_div_assoc]

/-- matrix form: if the columns `e'` of `W'` are `(columns e of W) · T + offsets`, then
`cov' = Tᵀ · cov · T` -/
theorem covE_lin {W' W : Sample} (hlen : W'.length = W.length) {ι κ : Type} [Fintype ι]
    [Fintype κ] (e : ι → ℕ) (e' : κ → ℕ) (T : Matrix ι κ ℚ) (b : κ → ℚ)
    (h : ∀ j, ColLin W' W (e' j) e (fun i => T i j) (b j)) :
    covE W' e' = Tᵀ * covE W e * T := by
  ext j l
  simp only [covE, Matrix.of_apply, Matrix.mul_apply, Matrix.transpose_apply]
  rw [cov_lin hlen (h j) (h l), Finset.sum_comm]
  refine Finset.sum_congr rfl (fun k _ => ?_)
  rw [Finset.sum_mul]
  exact Finset.sum_congr rfl (fun i _ => by ring)

theorem det_covE_lin {W' W : Sample} (hlen : W'.length = W.length) {ι : Type} [Fintype ι]
    [DecidableEq ι] (e e' : ι → ℕ) (T : Matrix ι ι ℚ) (b : ι → ℚ)
    (h : ∀ j, ColLin W' W (e' j) e (fun i => T i j) (b j)) :
    (covE W' e').det = T.det ^ 2 * (covE W e).det := by
  rw [covE_lin hlen e e' T b h, Matrix.det_mul, Matrix.det_mul, Matrix.det_transpose]
  ring

/-- the columns `A` are kept, the columns `Z` are replaced by `Z · M + offsets`: every
covariance determinant of `A ++ Z` is multiplied by `det M ^ 2` -/
theorem det_covM_mix {W' W : Sample} (hlen : W'.length = W.length) (A Z : List ℕ)
    (M : Matrix (Fin Z.length) (Fin Z.length) ℚ) (b : Fin Z.length → ℚ)
    (hA : ∀ c ∈ A, ColEq W' W c c)
    (hZ : ∀ j, ColLin W' W (colAt Z j) (colAt Z) (fun i => M i j) (b j)) :
    (covM W' (A ++ Z)).det = M.det ^ 2 * (covM W (A ++ Z)).det := by
  rw [det_covM_append, det_covM_append]
  have hT : (Matrix.fromBlocks (1 : Matrix (Fin A.length) (Fin A.length) ℚ) 0 0 M).det = M.det := by
    rw [Matrix.det_fromBlocks_zero₂₁, Matrix.det_one, one_mul]
  rw [← hT]
  apply det_covE_lin hlen _ _ _ (Sum.elim (fun _ => 0) b)
  intro j r hr
  rcases j with i | j
  · have hi : colAt A i ∈ A := by simp [colAt]
    simp [Fintype.sum_sum_type, Matrix.one_apply, hA _ hi r hr]
  · simpa [Fintype.sum_sum_type] using hZ j r hr

/-! ## Schur complement: partial covariance given `Z` -/

/-- `σ_Zb`: covariances of the columns `Z` with column `b` -/
def covVec (W : Sample) (Z : List ℕ) (b : ℕ) : Fin Z.length → ℚ := fun j => cov W (colAt Z j) b

/-- partial covariance of columns `a`, `b` given the columns `Z`:
`c_ab − σ_aZ · Σ_Z⁻¹ · σ_Zb`, an entry of the Schur complement -/
noncomputable def pcov (W : Sample) (Z : List ℕ) (a b : ℕ) : ℚ :=
  cov W a b - covVec W Z a ⬝ᵥ ((covM W Z)⁻¹ *ᵥ covVec W Z b)

/-- `S(A|Z)`: the Schur complement of `Σ_Z` in `Σ_{A∪Z}` -/
noncomputable def pcovM (W : Sample) (Z A : List ℕ) : Matrix (Fin A.length) (Fin A.length) ℚ :=
  Matrix.of fun i k => pcov W Z (colAt A i) (colAt A k)

theorem pcovM_eq (W : Sample) (Z A : List ℕ) :
    pcovM W Z A = covM W A
      - crossE W (colAt A) (colAt Z) * (covM W Z)⁻¹ * crossE W (colAt Z) (colAt A) := by
  ext i k
  rw [Matrix.mul_assoc]
  simp only [pcovM, pcov, covM, covE, crossE, covVec, Matrix.of_apply, Matrix.sub_apply,
    Matrix.mul_apply, dotProduct, Matrix.mulVec]
  congr 1
  refine Finset.sum_congr rfl (fun j _ => ?_)
  rw [cov_comm W (colAt A i) (colAt Z j)]

/-- **Schur**: `det Σ_{A∪Z} = det Σ_Z · det S(A|Z)` -/
theorem det_covM_schur (W : Sample) (A Z : List ℕ) (hZ : (covM W Z).det ≠ 0) :
    (covM W (A ++ Z)).det = (covM W Z).det * (pcovM W Z A).det := by
  rw [det_covM_append, covE_sum]
  let _ : Invertible (covE W (colAt Z)) :=
    Matrix.invertibleOfIsUnitDet _ (isUnit_iff_ne_zero.mpr hZ)
  rw [Matrix.det_fromBlocks₂₂, Matrix.invOf_eq_nonsing_inv, pcovM_eq]
  rfl

theorem covM_transpose (W : Sample) (Z : List ℕ) : (covM W Z)ᵀ = covM W Z := by
  ext i j
  simp only [covM, covE, Matrix.transpose_apply, Matrix.of_apply]
  exact cov_comm W _ _

theorem pcov_comm (W : Sample) (Z : List ℕ) (a b : ℕ) : pcov W Z a b = pcov W Z b a := by
  unfold pcov
  rw [cov_comm W a b]
  congr 1
  rw [Matrix.dotProduct_mulVec, ← Matrix.mulVec_transpose, Matrix.transpose_nonsing_inv,
    covM_transpose, dotProduct_comm]

/-! ## Least-squares residuals -/

/-- column `c'` of `W'` is the residual `column a − Σ_j β j · column Z_j − offset` -/
def ColResid (W' W : Sample) (c' : ℕ) (Z : List ℕ) (a : ℕ) (β : Fin Z.length → ℚ) (b : ℚ) :
    Prop :=
  ∀ r < W.length, entry W' r c' = entry W r a - (∑ j, β j * entry W r (colAt Z j)) - b

theorem ColResid.colLin {W' W : Sample} {c' : ℕ} {Z : List ℕ} {a : ℕ} {β : Fin Z.length → ℚ}
    {b : ℚ} (h : ColResid W' W c' Z a β b) :
    ColLin W' W c' (fun o : Option (Fin Z.length) => o.elim a (colAt Z))
      (fun o => o.elim 1 (fun j => - β j)) (-b) := by
  intro r hr
  rw [h r hr, Fintype.sum_option]
  simp only [Option.elim_none, Option.elim_some, one_mul, neg_mul, Finset.sum_neg_distrib]
  ring

/-- covariance of two residual columns when the coefficients of the second solve the normal
equations `Σ_Z β = σ_Zb` (i.e. are least-squares regression coefficients with intercept) -/
theorem cov_resid {W' W : Sample} (hlen : W'.length = W.length) {a' b' a b : ℕ} {Z : List ℕ}
    {βa βb : Fin Z.length → ℚ} {ca cb : ℚ}
    (ha : ColResid W' W a' Z a βa ca) (hb : ColResid W' W b' Z b βb cb)
    (hnb : covM W Z *ᵥ βb = covVec W Z b) :
    cov W' a' b' = cov W a b - covVec W Z a ⬝ᵥ βb := by
  rw [cov_lin hlen ha.colLin hb.colLin]
  simp only [Fintype.sum_option, Option.elim_none, Option.elim_some]
  have hn : ∀ i, ∑ k, cov W (colAt Z i) (colAt Z k) * βb k = cov W (colAt Z i) b := by
    intro i
    have := congrFun hnb i
    simpa [Matrix.mulVec, dotProduct, covM, covE, covVec] using this
  have hzero : ∑ i, (-βa i * 1 * cov W (colAt Z i) b
      + ∑ k, -βa i * -βb k * cov W (colAt Z i) (colAt Z k)) = 0 := by
    refine Finset.sum_eq_zero (fun i _ => ?_)
    rw [← hn i, Finset.mul_sum, ← Finset.sum_add_distrib]
    exact Finset.sum_eq_zero (fun k _ => by ring)
  rw [hzero, add_zero]
  simp only [dotProduct, covVec, one_mul, sub_eq_add_neg, ← Finset.sum_neg_distrib]
  congr 1
  refine Finset.sum_congr rfl (fun k _ => ?_)
  rw [cov_comm W (colAt Z k) a]
  ring

/-- the least-squares coefficients `Σ_Z⁻¹ σ_Zb` -/
noncomputable def lsCoef (W : Sample) (Z : List ℕ) (b : ℕ) : Fin Z.length → ℚ :=
  (covM W Z)⁻¹ *ᵥ covVec W Z b

theorem lsCoef_normal (W : Sample) (Z : List ℕ) (b : ℕ) (hZ : (covM W Z).det ≠ 0) :
    covM W Z *ᵥ lsCoef W Z b = covVec W Z b := by
  unfold lsCoef
  rw [Matrix.mulVec_mulVec, Matrix.mul_nonsing_inv _ (isUnit_iff_ne_zero.mpr hZ), Matrix.one_mulVec]

/-- **partial covariance = covariance of least-squares residuals** -/
theorem cov_resid_eq_pcov {W' W : Sample} (hlen : W'.length = W.length) {a' b' a b : ℕ}
    {Z : List ℕ} {ca cb : ℚ} (hZ : (covM W Z).det ≠ 0)
    (ha : ColResid W' W a' Z a (lsCoef W Z a) ca) (hb : ColResid W' W b' Z b (lsCoef W Z b) cb) :
    cov W' a' b' = pcov W Z a b := by
  rw [cov_resid hlen ha hb (lsCoef_normal W Z b hZ)]
  rfl

/-- a concrete two-column sample holding the least-squares residuals of columns `a`, `b` on `Z` -/
noncomputable def residSample (W : Sample) (Z : List ℕ) (a b : ℕ) : Sample :=
  W.map (fun row =>
    [row.getD a 0 - ∑ j, lsCoef W Z a j * row.getD (colAt Z j) 0,
     row.getD b 0 - ∑ j, lsCoef W Z b j * row.getD (colAt Z j) 0])

theorem residSample_length (W : Sample) (Z : List ℕ) (a b : ℕ) :
    (residSample W Z a b).length = W.length := by simp [residSample]

theorem residSample_col0 (W : Sample) (Z : List ℕ) (a b : ℕ) :
    ColResid (residSample W Z a b) W 0 Z a (lsCoef W Z a) 0 := by
  intro r hr
  simp [entry, residSample, hr]

theorem residSample_col1 (W : Sample) (Z : List ℕ) (a b : ℕ) :
    ColResid (residSample W Z a b) W 1 Z b (lsCoef W Z b) 0 := by
  intro r hr
  simp [entry, residSample, hr]

/-! ## Cauchy–Schwarz for sample covariances -/

theorem cov_self_nonneg (W : Sample) (a : ℕ) : 0 ≤ cov W a a := by
  by_cases hN : W.length = 0
  · rw [cov_of_length_zero W hN]
  rw [cov_eq]
  apply div_nonneg (Finset.sum_nonneg (fun r _ => mul_self_nonneg _))
  have : (1 : ℚ) ≤ W.length := by exact_mod_cast Nat.one_le_iff_ne_zero.mpr hN
  linarith

theorem cov_sq_le (W : Sample) (a b : ℕ) : cov W a b ^ 2 ≤ cov W a a * cov W b b := by
  rw [cov_eq, cov_eq, cov_eq, div_pow, div_mul_div_comm, ← sq]
  apply div_le_div_of_nonneg_right _ (sq_nonneg _)
  have := Finset.sum_mul_sq_le_sq_mul_sq (Finset.range W.length)
    (fun r => entry W r a - colMean W a) (fun r => entry W r b - colMean W b)
  simpa [sq] using this

theorem pcov_self_nonneg (W : Sample) (Z : List ℕ) (a : ℕ) (hZ : (covM W Z).det ≠ 0) :
    0 ≤ pcov W Z a a := by
  rw [← cov_resid_eq_pcov (residSample_length W Z a a) hZ (residSample_col0 W Z a a)
    (residSample_col0 W Z a a)]
  exact cov_self_nonneg _ _

theorem pcov_sq_le (W : Sample) (Z : List ℕ) (a b : ℕ) (hZ : (covM W Z).det ≠ 0) :
    pcov W Z a b ^ 2 ≤ pcov W Z a a * pcov W Z b b := by
  have hl := residSample_length W Z a b
  have h0 := residSample_col0 W Z a b
  have h1 := residSample_col1 W Z a b
  rw [← cov_resid_eq_pcov hl hZ h0 h1, ← cov_resid_eq_pcov hl hZ h0 h0,
    ← cov_resid_eq_pcov hl hZ h1 h1]
  exact cov_sq_le _ _ _

end CE.Gauss
