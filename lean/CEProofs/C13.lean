import CEProofs.C13Lemmas
import Mathlib.Algebra.BigOperators.Fin
import Mathlib.Algebra.Order.BigOperators.Ring.Finset
import Mathlib.Algebra.Order.Ring.Abs
import Mathlib.Data.Rat.Defs
import Mathlib.Logic.Function.Iterate
import Mathlib.Tactic.NormNum

/-! # C13 — Poisson entropy is the true Poisson entropy, element by element

All statements are about the executable model `CE.Poisson` (`CEModel/Poisson.lean`, section
`generic`, and `jointEntropy`) that the correspondence check compares with `poisson_entropy` /
`poisson_joint_entropy` of `core/information/entropy.py` (repaired tree: `small = np.max(prob)`,
`np.where(P > 0, P*np.log(P), 0.0)`).

The generic definitions are instantiated at an arbitrary linearly ordered field `α`
(`[Field α] [LinearOrder α] [IsStrictOrderedRing α]`; Mathlib's instances unify with the core
classes of the model — no specialisation to ℚ was necessary), with the probability mass
function `pmf : ℕ → α → α` and `log : α → α` abstract and `cast : ℕ → α` any monotone map
(`Nat.cast` in particular: `mono_natCast`). ℚ ⊂ every such field covers every finite IEEE double.

What is proved

* `loop_invariant`, `condB_along_run`, `run_closed_form`, `entropyVec_closed_form`,
  `stop_index_spec`: the while loop is the closed form — after `t` iterations the state is
  `(1+t, psum(1+t), smallAt(1+t), entropySum(1+t))`, the loop test is `cont … i`, the result
  is `entropySum · K` with `K = stopIndex … fuel 1` the first index at which `cont` fails.
* `cont_mono`, `stop_index_mono`, `vector_is_scalar_plus_tail`, `tail_bound`,
  `tail_bound_mass`, `elementwise_independent`, `elementwise_independent_mass`,
  `elementwise_independent_small`: element-wise independence of a vector call (repaired rule).
* `contMin_not_mono`, `stopIndexMin_not_mono`: the pinned `np.min` rule violates it.
* `plogp_zero`, `entropy_rate_zero`, `entropyVec_rate_zero`: `0·log 0 := 0`; entropy 0 at rate 0.
* `joint_def`, `entry_eq_getElem`, `joint_perm_symm`: joint entropy formula and its symmetry.

What is **not** proved here (it would be called `c13_accuracy_partial`; the statement is absent):
that the truncated series is within 1e-9 of the infinite series `-Σ_k p_k log p_k` of the true
Poisson law for every `λ ≤ 500`. That needs a Poisson tail estimate *and* an error bound for
SciPy's `pmf`; it is checked numerically by the harness against an independent log-space
summation. Also outside the model: `np.abs(lambdas)` (the model takes the rates after `abs`), the
shape handling (`squeeze`, `axis=0`) and IEEE rounding of the additions. -/
namespace CE.Poisson

set_option linter.unusedSectionVars false

variable {α : Type} [Field α] [LinearOrder α] [IsStrictOrderedRing α]

/-- `Nat.cast` is an admissible `cast` -/
theorem mono_natCast : Monotone (fun n : ℕ => (n : α)) := fun _ _ h => Nat.cast_le.mpr h

/-! ## The loop in closed form -/

/-- **Loop invariant.** After `t` executions of the loop body from the initial state the state is
`i = 1+t`, `Psum_j = Σ_{k<1+t} pmf k λ_j`, `small = smallAt (1+t)`, `ent_j = -Σ_{k<1+t} plogp`. -/
theorem loop_invariant (cast : ℕ → α) (hcast : Monotone cast) (pmf : ℕ → α → α) (log : α → α)
    (lams : List α) (t : ℕ) :
    (stepSt cast pmf log lams)^[t] (initSt pmf log lams) =
      { i := 1 + t,
        psums := lams.map (fun l => psum pmf l (1 + t)),
        small := smallAt cast pmf lams (1 + t),
        ent := lams.map (fun l => entropySum pmf log l (1 + t)) } := by
  show _ = stateAt cast pmf log lams (1 + t)
  induction t with
  | zero => exact initSt_eq cast pmf log lams
  | succ t ih =>
    rw [Function.iterate_succ_apply', ih, stepSt_stateAt cast hcast pmf log lams (1 + t) (by omega)]
    rfl

/-- along the run the `while` test is the closed-form condition `cont … (1+t)` -/
theorem condB_along_run (cast : ℕ → α) (hcast : Monotone cast) (pmf : ℕ → α → α) (log : α → α)
    (tol1 tol2 : α) (lams : List α) (t : ℕ) :
    condB tol1 tol2 ((stepSt cast pmf log lams)^[t] (initSt pmf log lams)) =
      cont cast pmf tol1 tol2 lams (1 + t) := by
  rw [loop_invariant cast hcast]
  exact condB_stateAt cast pmf log tol1 tol2 lams (1 + t)

/-- **Closed form of the loop.** With `K = stopIndex … fuel 1`, the final state is
`(K, psum K, smallAt K, entropySum K)`: exactly the terms `k = 0 … K-1` have been summed. -/
theorem run_closed_form (cast : ℕ → α) (hcast : Monotone cast) (pmf : ℕ → α → α) (log : α → α)
    (tol1 tol2 : α) (lams : List α) (fuel : ℕ) :
    run cast pmf log tol1 tol2 lams fuel (initSt pmf log lams) =
      { i := stopIndex cast pmf tol1 tol2 lams fuel 1,
        psums := lams.map (fun l => psum pmf l (stopIndex cast pmf tol1 tol2 lams fuel 1)),
        small := smallAt cast pmf lams (stopIndex cast pmf tol1 tol2 lams fuel 1),
        ent := lams.map (fun l =>
          entropySum pmf log l (stopIndex cast pmf tol1 tol2 lams fuel 1)) } := by
  rw [initSt_eq cast]
  exact run_stateAt cast hcast pmf log tol1 tol2 lams fuel 1 (le_refl _)

/-- `poisson_entropy(lams)[j] = -Σ_{k<K} plogp (pmf k λ_j)`, the same `K` for every entry -/
theorem entropyVec_closed_form (cast : ℕ → α) (hcast : Monotone cast) (pmf : ℕ → α → α)
    (log : α → α) (tol1 tol2 : α) (fuel : ℕ) (lams : List α) :
    entropyVec cast pmf log tol1 tol2 fuel lams =
      lams.map (fun l => entropySum pmf log l (stopIndex cast pmf tol1 tol2 lams fuel 1)) := by
  unfold entropyVec
  rw [run_closed_form cast hcast]

/-- `entropySum`/`psum` really are the documented finite sums -/
theorem entropySum_def (pmf : ℕ → α → α) (log : α → α) (lam : α) (K : ℕ) :
    entropySum pmf log lam K = - ∑ k ∈ Finset.range K, plogp log (pmf k lam) ∧
    psum pmf lam K = ∑ k ∈ Finset.range K, pmf k lam :=
  ⟨entropySum_eq_sum pmf log lam K, psum_eq_sum pmf lam K⟩

/-- **What `K` is.** `1 ≤ K ≤ 1 + fuel`, the loop condition holds at every `1 ≤ k < K`, and either
the fuel ran out (`K = 1 + fuel`) or the condition fails at `K`. -/
theorem stop_index_spec (cast : ℕ → α) (pmf : ℕ → α → α) (tol1 tol2 : α) (lams : List α)
    (fuel : ℕ) :
    1 ≤ stopIndex cast pmf tol1 tol2 lams fuel 1 ∧
    stopIndex cast pmf tol1 tol2 lams fuel 1 ≤ 1 + fuel ∧
    (∀ k, 1 ≤ k → k < stopIndex cast pmf tol1 tol2 lams fuel 1 →
      cont cast pmf tol1 tol2 lams k = true) ∧
    (stopIndex cast pmf tol1 tol2 lams fuel 1 = 1 + fuel ∨
      cont cast pmf tol1 tol2 lams (stopIndex cast pmf tol1 tol2 lams fuel 1) = false) :=
  ⟨le_stopIndex cast pmf tol1 tol2 lams fuel 1, stopIndex_le cast pmf tol1 tol2 lams fuel 1,
   fun k h1 h2 => cont_before_stop cast pmf tol1 tol2 lams fuel 1 k h1 h2,
   stop_reason cast pmf tol1 tol2 lams fuel 1⟩

/-! ## Element-wise independence (repaired `np.max` rule) -/

/-- **Step lemma.** Whenever the scalar call on `lam ∈ lams` would continue before iteration `i`,
the vector call continues as well. Only `tol2 < 1` is needed (the hypotheses `0 ≤ lam`,
`pmf ≤ 1`, `0 ≤ tol1` of the design sketch are superfluous for the committed `maxL`, which is
exactly `np.max` on non-empty lists). -/
theorem cont_mono (cast : ℕ → α) (pmf : ℕ → α → α) (tol1 tol2 : α) (htol2 : tol2 < 1)
    (lams : List α) (lam : α) (hmem : lam ∈ lams) (i : ℕ)
    (h : cont cast pmf tol1 tol2 [lam] i = true) : cont cast pmf tol1 tol2 lams i = true := by
  unfold cont at h ⊢
  rw [Bool.and_eq_true, decide_eq_true_eq, decide_eq_true_eq] at h ⊢
  obtain ⟨h1, h2⟩ := h
  constructor
  · -- mass rule: `1 - Psum_j ≤ max_j (1 - Psum_j)`
    exact lt_of_lt_of_le h1 (maxL_map_singleton_le (fun l => 1 - psum pmf l i) lams lam hmem)
  · -- `small` rule
    unfold smallAt at h2 ⊢
    have hmaxlam : lam ≤ maxL 0 lams := le_maxL 0 lams lam hmem
    by_cases hv : 2 ≤ i ∧ ¬ (cast (i - 1) < maxL 0 lams)
    · rw [if_pos hv]
      have hsj : 2 ≤ i ∧ ¬ (cast (i - 1) < maxL 0 [lam]) :=
        ⟨hv.1, fun hc => hv.2 (lt_of_lt_of_le hc hmaxlam)⟩
      rw [if_pos hsj] at h2
      exact lt_of_lt_of_le h2 (maxL_map_singleton_le (pmf (i - 1)) lams lam hmem)
    · rw [if_neg hv]; exact htol2

example : cont (fun n => (n : ℚ)) (fun k _ => if k < 3 then 1/4 else 0) (1/100) (1/100) [2] 2
    = true := by decide +kernel

/-- **The vector call runs at least as many terms as the scalar call on any of its rates**
(same fuel; from any common start index, in particular `1`). -/
theorem stop_index_mono (cast : ℕ → α) (pmf : ℕ → α → α) (tol1 tol2 : α) (htol2 : tol2 < 1)
    (lams : List α) (lam : α) (hmem : lam ∈ lams) (fuel : ℕ) (i : ℕ) :
    stopIndex cast pmf tol1 tol2 [lam] fuel i ≤ stopIndex cast pmf tol1 tol2 lams fuel i := by
  induction fuel generalizing i with
  | zero => exact le_refl _
  | succ fuel ih =>
    unfold stopIndex
    by_cases hc : cont cast pmf tol1 tol2 [lam] i = true
    · rw [if_pos hc, if_pos (cont_mono cast pmf tol1 tol2 htol2 lams lam hmem i hc)]
      exact ih (i + 1)
    · rw [if_neg hc]
      exact le_stopIndex cast pmf tol1 tol2 lams (fuel + 1) i

/-- **The `j`-th entry of a vector call is the scalar result plus the next terms of the same
series**: with `K_j`/`K_vec` the numbers of terms of the scalar/vector call, `K_j ≤ K_vec`, the
scalar call returns `[entropySum λ_j K_j]` and the vector entry is
`entropySum λ_j K_j − Σ_{K_j ≤ k < K_vec} plogp (pmf k λ_j)`. -/
theorem vector_is_scalar_plus_tail (cast : ℕ → α) (hcast : Monotone cast) (pmf : ℕ → α → α)
    (log : α → α) (tol1 tol2 : α) (htol2 : tol2 < 1) (fuel : ℕ) (lams : List α)
    (j : ℕ) (hj : j < lams.length) :
    stopIndex cast pmf tol1 tol2 [lams[j]] fuel 1 ≤ stopIndex cast pmf tol1 tol2 lams fuel 1 ∧
    entropyVec cast pmf log tol1 tol2 fuel [lams[j]] =
      [entropySum pmf log lams[j] (stopIndex cast pmf tol1 tol2 [lams[j]] fuel 1)] ∧
    (entropyVec cast pmf log tol1 tol2 fuel lams)[j]? =
      some (entropySum pmf log lams[j] (stopIndex cast pmf tol1 tol2 [lams[j]] fuel 1) -
        ∑ k ∈ Finset.Ico (stopIndex cast pmf tol1 tol2 [lams[j]] fuel 1)
          (stopIndex cast pmf tol1 tol2 lams fuel 1), plogp log (pmf k lams[j])) := by
  have hK := stop_index_mono cast pmf tol1 tol2 htol2 lams lams[j] (List.getElem_mem hj) fuel 1
  refine ⟨hK, ?_, ?_⟩
  · rw [entropyVec_closed_form cast hcast]; rfl
  · rw [entropyVec_closed_form cast hcast, List.getElem?_map, List.getElem?_eq_getElem hj,
      Option.map_some, ← entropySum_sub pmf log lams[j] _ _ hK]

/-- one term: `|plogp p| ≤ B·p` when `0 ≤ p` and `|log p| ≤ B` for `p > 0` -/
theorem abs_plogp_le (log : α → α) (B p : α) (hp : 0 ≤ p) (hlog : 0 < p → |log p| ≤ B) :
    |plogp log p| ≤ B * p := by
  unfold plogp
  by_cases h : 0 < p
  · rw [if_pos h, abs_mul, abs_of_pos h, mul_comm]
    exact mul_le_mul_of_nonneg_right (hlog h) hp
  · have : p = 0 := le_antisymm (not_lt.mp h) hp
    rw [if_neg h, this]; simp

/-- **Tail bound.** If `pmf ≥ 0` and `|log p| ≤ B` at the non-zero terms of the tail `a ≤ k < b`
(`B = 745` covers every positive double), then `|Σ_tail p log p| ≤ B · Σ_tail p`. -/
theorem tail_bound (pmf : ℕ → α → α) (log : α → α) (lam B : α) (a b : ℕ)
    (hpos : ∀ k ∈ Finset.Ico a b, 0 ≤ pmf k lam)
    (hlog : ∀ k ∈ Finset.Ico a b, 0 < pmf k lam → |log (pmf k lam)| ≤ B) :
    |∑ k ∈ Finset.Ico a b, plogp log (pmf k lam)| ≤ B * ∑ k ∈ Finset.Ico a b, pmf k lam := by
  rw [Finset.mul_sum]
  exact le_trans (Finset.abs_sum_le_sum_abs _ _)
    (Finset.sum_le_sum fun k hk => abs_plogp_le log B _ (hpos k hk) (hlog k hk))

/-- … and the tail mass is the difference of the accumulated masses `Psum` -/
theorem tail_bound_mass (pmf : ℕ → α → α) (log : α → α) (lam B : α) (a b : ℕ) (hab : a ≤ b)
    (hpos : ∀ k ∈ Finset.Ico a b, 0 ≤ pmf k lam)
    (hlog : ∀ k ∈ Finset.Ico a b, 0 < pmf k lam → |log (pmf k lam)| ≤ B) :
    |∑ k ∈ Finset.Ico a b, plogp log (pmf k lam)| ≤ B * (psum pmf lam b - psum pmf lam a) := by
  rw [psum_sub pmf lam a b hab]
  exact tail_bound pmf log lam B a b hpos hlog

/-- **Element-wise independence.** For every entry `j` of a vector call: the entry `v` exists,
the scalar call on `λ_j` returns a single value `s`, and
`|v − s| ≤ B · (Psum_j(K_vec) − Psum_j(K_j))`, the mass of the extra terms. -/
theorem elementwise_independent (cast : ℕ → α) (hcast : Monotone cast) (pmf : ℕ → α → α)
    (log : α → α) (tol1 tol2 : α) (htol2 : tol2 < 1) (fuel : ℕ) (lams : List α)
    (j : ℕ) (hj : j < lams.length) (B : α)
    (hpos : ∀ k, 0 ≤ pmf k lams[j])
    (hlog : ∀ k, 0 < pmf k lams[j] → |log (pmf k lams[j])| ≤ B) :
    ∃ v s, (entropyVec cast pmf log tol1 tol2 fuel lams)[j]? = some v ∧
      entropyVec cast pmf log tol1 tol2 fuel [lams[j]] = [s] ∧
      |v - s| ≤ B * (psum pmf lams[j] (stopIndex cast pmf tol1 tol2 lams fuel 1) -
        psum pmf lams[j] (stopIndex cast pmf tol1 tol2 [lams[j]] fuel 1)) := by
  obtain ⟨hK, hs, hv⟩ :=
    vector_is_scalar_plus_tail cast hcast pmf log tol1 tol2 htol2 fuel lams j hj
  refine ⟨_, _, hv, hs, ?_⟩
  rw [sub_sub_cancel_left, abs_neg]
  exact tail_bound_mass pmf log lams[j] B _ _ hK (fun k _ => hpos k) (fun k _ => hlog k)

/-- … hence by at most `B ·` (mass the scalar call left unsummed), and by at most `B · tol1`
(`745e-16` in the real code) when the scalar call ended on the mass rule. Needs `Psum ≤ 1`. -/
theorem elementwise_independent_mass (cast : ℕ → α) (hcast : Monotone cast) (pmf : ℕ → α → α)
    (log : α → α) (tol1 tol2 : α) (htol2 : tol2 < 1) (fuel : ℕ) (lams : List α)
    (j : ℕ) (hj : j < lams.length) (B : α) (hB : 0 ≤ B)
    (hpos : ∀ k, 0 ≤ pmf k lams[j])
    (hmass : ∀ n, psum pmf lams[j] n ≤ 1)
    (hlog : ∀ k, 0 < pmf k lams[j] → |log (pmf k lams[j])| ≤ B) :
    ∃ v s, (entropyVec cast pmf log tol1 tol2 fuel lams)[j]? = some v ∧
      entropyVec cast pmf log tol1 tol2 fuel [lams[j]] = [s] ∧
      |v - s| ≤ B * (1 - psum pmf lams[j] (stopIndex cast pmf tol1 tol2 [lams[j]] fuel 1)) ∧
      (¬ (tol1 < 1 - psum pmf lams[j] (stopIndex cast pmf tol1 tol2 [lams[j]] fuel 1)) →
        |v - s| ≤ B * tol1) := by
  obtain ⟨v, s, hv, hs, hd⟩ :=
    elementwise_independent cast hcast pmf log tol1 tol2 htol2 fuel lams j hj B hpos hlog
  have hm := hmass (stopIndex cast pmf tol1 tol2 lams fuel 1)
  have h1 : |v - s| ≤
      B * (1 - psum pmf lams[j] (stopIndex cast pmf tol1 tol2 [lams[j]] fuel 1)) :=
    le_trans hd (mul_le_mul_of_nonneg_left (by linarith) hB)
  exact ⟨v, s, hv, hs, h1, fun hm =>
    le_trans h1 (mul_le_mul_of_nonneg_left (not_lt.mp hm) hB)⟩

/-- … and when the scalar call ended on the `small` rule (its last probability was `≤ tol2`,
`1e-75` in the real code) and `pmf · λ_j` is non-increasing beyond the rate, every extra term is
`≤ tol2`, so the difference is at most `B · (K_vec − K_j) · tol2`. -/
theorem elementwise_independent_small (cast : ℕ → α) (hcast : Monotone cast) (pmf : ℕ → α → α)
    (log : α → α) (tol1 tol2 : α) (htol2 : tol2 < 1) (fuel : ℕ) (lams : List α)
    (j : ℕ) (hj : j < lams.length) (B : α) (hB : 0 ≤ B)
    (hpos : ∀ k, 0 ≤ pmf k lams[j])
    (hdecr : ∀ k k', ¬ (cast k < lams[j]) → k ≤ k' → pmf k' lams[j] ≤ pmf k lams[j])
    (hlog : ∀ k, 0 < pmf k lams[j] → |log (pmf k lams[j])| ≤ B)
    (hsmall : ¬ (tol2 < smallAt cast pmf [lams[j]]
      (stopIndex cast pmf tol1 tol2 [lams[j]] fuel 1))) :
    ∃ v s, (entropyVec cast pmf log tol1 tol2 fuel lams)[j]? = some v ∧
      entropyVec cast pmf log tol1 tol2 fuel [lams[j]] = [s] ∧
      |v - s| ≤ B * (((stopIndex cast pmf tol1 tol2 lams fuel 1 -
        stopIndex cast pmf tol1 tol2 [lams[j]] fuel 1 : ℕ) : α) * tol2) := by
  obtain ⟨v, s, hv, hs, hd⟩ :=
    elementwise_independent cast hcast pmf log tol1 tol2 htol2 fuel lams j hj B hpos hlog
  refine ⟨v, s, hv, hs, le_trans hd (mul_le_mul_of_nonneg_left ?_ hB)⟩
  have hK := stop_index_mono cast pmf tol1 tol2 htol2 lams lams[j] (List.getElem_mem hj) fuel 1
  rw [psum_sub pmf lams[j] _ _ hK]
  -- the scalar call's last probability is `≤ tol2`, and it was taken beyond the rate
  unfold smallAt at hsmall
  by_cases hg : 2 ≤ stopIndex cast pmf tol1 tol2 [lams[j]] fuel 1 ∧
      ¬ (cast (stopIndex cast pmf tol1 tol2 [lams[j]] fuel 1 - 1) < maxL 0 [lams[j]])
  · rw [if_pos hg] at hsmall
    simp only [List.map_cons, List.map_nil, maxL_singleton] at hsmall hg
    have hterm : ∀ k ∈ Finset.Ico (stopIndex cast pmf tol1 tol2 [lams[j]] fuel 1)
        (stopIndex cast pmf tol1 tol2 lams fuel 1), pmf k lams[j] ≤ tol2 := by
      intro k hk
      have hk' := (Finset.mem_Ico.mp hk).1
      exact le_trans (hdecr _ k hg.2 (by omega)) (not_lt.mp hsmall)
    calc ∑ k ∈ Finset.Ico _ _, pmf k lams[j] ≤ ∑ _k ∈ Finset.Ico
          (stopIndex cast pmf tol1 tol2 [lams[j]] fuel 1)
          (stopIndex cast pmf tol1 tol2 lams fuel 1), tol2 := Finset.sum_le_sum hterm
      _ = _ := by rw [Finset.sum_const, Nat.card_Ico, nsmul_eq_mul]
  · rw [if_neg hg] at hsmall
    exact absurd htol2 hsmall

/-! ### Non-vacuity: a concrete rational instance

`toyPmf`: point mass at `0` for rate `0`, uniform on `{0,1}` for rate `1`, uniform on `{0,1,2,3}`
otherwise; `toyLog x = x − 1` (so `toyLog 1 = 0`, `|toyLog p| ≤ 1` on `(0,1]`). -/

def toyPmf (k : ℕ) (lam : ℚ) : ℚ :=
  if lam = 0 then (if k = 0 then 1 else 0)
  else if lam = 1 then (if k < 2 then 1/2 else 0)
  else (if k < 4 then 1/4 else 0)

def toyLog (x : ℚ) : ℚ := x - 1

/-- the scalar call on rate 1 sums 2 terms, the vector call 4 terms (both end on the mass rule) -/
example : stopIndex (fun n => (n : ℚ)) toyPmf (1/100) (1/100) [1] 10 1 = 2 ∧
    stopIndex (fun n => (n : ℚ)) toyPmf (1/100) (1/100) [0, 1, 2] 10 1 = 4 := by decide +kernel

example : entropyVec (fun n => (n : ℚ)) toyPmf toyLog (1/100) (1/100) 10 [0, 1, 2]
    = [0, 1/2, 3/4] := by decide +kernel

example : entropyVec (fun n => (n : ℚ)) toyPmf toyLog (1/100) (1/100) 10 [1] = [1/2] ∧
    entropyVec (fun n => (n : ℚ)) toyPmf toyLog (1/100) (1/100) 10 [2] = [3/4] := by
  decide +kernel

theorem toyPmf_nonneg (k : ℕ) (lam : ℚ) : 0 ≤ toyPmf k lam := by
  unfold toyPmf; split_ifs <;> norm_num

theorem toyPmf_le_one (k : ℕ) (lam : ℚ) : toyPmf k lam ≤ 1 := by
  unfold toyPmf; split_ifs <;> norm_num

theorem toyLog_bound (p : ℚ) (hp : 0 < p) (hp1 : p ≤ 1) : |toyLog p| ≤ 1 := by
  unfold toyLog; rw [abs_le]; constructor <;> linarith

/-- the hypotheses of `elementwise_independent` are satisfiable (entry 1 of `[0, 1, 2]`, `B = 1`) -/
example : ∃ v s,
    (entropyVec (fun n => (n : ℚ)) toyPmf toyLog (1/100) (1/100) 10 [0, 1, 2])[1]? = some v ∧
    entropyVec (fun n => (n : ℚ)) toyPmf toyLog (1/100) (1/100) 10 [([0, 1, 2] : List ℚ)[1]] = [s] ∧
    |v - s| ≤ 1 * (psum toyPmf ([0, 1, 2] : List ℚ)[1]
        (stopIndex (fun n => (n : ℚ)) toyPmf (1/100) (1/100) [0, 1, 2] 10 1) -
      psum toyPmf ([0, 1, 2] : List ℚ)[1]
        (stopIndex (fun n => (n : ℚ)) toyPmf (1/100) (1/100) [([0, 1, 2] : List ℚ)[1]] 10 1)) :=
  elementwise_independent (fun n => (n : ℚ)) mono_natCast toyPmf toyLog (1/100) (1/100)
    (by norm_num) 10 [0, 1, 2] 1 (by decide) 1 (fun k => toyPmf_nonneg k _)
    (fun k hk => toyLog_bound _ hk (toyPmf_le_one k _))

/-- the hypotheses of `tail_bound` are satisfiable with a non-zero tail -/
example : |∑ k ∈ Finset.Ico 1 3, plogp toyLog (toyPmf k 2)| ≤
    1 * ∑ k ∈ Finset.Ico 1 3, toyPmf k 2 :=
  tail_bound toyPmf toyLog 2 1 1 3 (fun k _ => toyPmf_nonneg k _)
    (fun k _ hk => toyLog_bound _ hk (toyPmf_le_one k _))

example : ∑ k ∈ Finset.Ico 1 3, plogp toyLog (toyPmf k 2) = -(3/8) := by decide +kernel

/-- the `small`-rule case of `elementwise_independent_small` occurs: with `tol1 = 0` the scalar
call on rate 2 ends because its last probability is `0 ≤ tol2` -/
example : ¬ ((1/100 : ℚ) < smallAt (fun n => (n : ℚ)) toyPmf [2]
    (stopIndex (fun n => (n : ℚ)) toyPmf (-1) (1/100) [2] 10 1)) := by decide +kernel

theorem toyPmf_antitone (lam : ℚ) (k k' : ℕ) (h : k ≤ k') : toyPmf k' lam ≤ toyPmf k lam := by
  unfold toyPmf; split_ifs <;> first | (exfalso; omega) | norm_num

/-- all hypotheses of `elementwise_independent_small` are satisfiable (entry 1 of `[0, 2]`) -/
example : ∃ v s,
    (entropyVec (fun n => (n : ℚ)) toyPmf toyLog (-1) (1/100) 10 [0, 2])[1]? = some v ∧
    entropyVec (fun n => (n : ℚ)) toyPmf toyLog (-1) (1/100) 10 [([0, 2] : List ℚ)[1]] = [s] ∧
    |v - s| ≤ 1 * (((stopIndex (fun n => (n : ℚ)) toyPmf (-1) (1/100) [0, 2] 10 1 -
      stopIndex (fun n => (n : ℚ)) toyPmf (-1) (1/100) [([0, 2] : List ℚ)[1]] 10 1 : ℕ) : ℚ)
        * (1/100)) :=
  elementwise_independent_small (fun n => (n : ℚ)) mono_natCast toyPmf toyLog (-1) (1/100)
    (by norm_num) 10 [0, 2] 1 (by decide) 1 (by norm_num) (fun k => toyPmf_nonneg k _)
    (fun k k' _ h => toyPmf_antitone _ k k' h)
    (fun k hk => toyLog_bound _ hk (toyPmf_le_one k _)) (by decide +kernel)

/-! ## The pinned `np.min` rule breaks element-wise independence -/

/-- loop condition with the pinned rule `small = np.min(prob)` -/
def contMin (cast : ℕ → α) (pmf : ℕ → α → α) (tol1 tol2 : α) (lams : List α) (i : ℕ) : Bool :=
  decide (tol1 < maxL 0 (lams.map (fun l => 1 - psum pmf l i))) &&
  decide (tol2 < smallAtMin cast pmf lams i)

/-- number of terms with the pinned rule -/
def stopIndexMin (cast : ℕ → α) (pmf : ℕ → α → α) (tol1 tol2 : α) (lams : List α) : ℕ → ℕ → ℕ
  | 0, i => i
  | fuel + 1, i =>
    if contMin cast pmf tol1 tol2 lams i then stopIndexMin cast pmf tol1 tol2 lams fuel (i + 1)
    else i

/-- for a scalar call the two rules coincide (`np.min = np.max` on one element) -/
theorem contMin_singleton (cast : ℕ → α) (pmf : ℕ → α → α) (tol1 tol2 lam : α) (i : ℕ) :
    contMin cast pmf tol1 tol2 [lam] i = cont cast pmf tol1 tol2 [lam] i := rfl

/-- **Negative witness (the repaired defect).** With the pinned rule `cont_mono` is false, even
for a genuine pmf (`0 ≤ pmf ≤ 1`), non-negative rates and tolerances in `[0, 1)`: the scalar call
on rate `2` continues before iteration 3, the vector call on `[0, 2]` stops there, because the
rate `0` has probability `0` at `k = 2` (on the real code: `[1e-30, 5.0]`). -/
theorem contMin_not_mono :
    ∃ (pmf : ℕ → ℚ → ℚ) (tol1 tol2 : ℚ) (lams : List ℚ) (lam : ℚ) (i : ℕ),
      tol2 < 1 ∧ 0 ≤ tol1 ∧ lam ∈ lams ∧ (∀ l ∈ lams, 0 ≤ l) ∧
      (∀ k l, 0 ≤ pmf k l ∧ pmf k l ≤ 1) ∧
      contMin (fun n => (n : ℚ)) pmf tol1 tol2 [lam] i = true ∧
      contMin (fun n => (n : ℚ)) pmf tol1 tol2 lams i = false :=
  ⟨toyPmf, 1/100, 1/100, [0, 2], 2, 3, by norm_num, by norm_num, by simp, by simp,
    fun k l => ⟨toyPmf_nonneg k l, toyPmf_le_one k l⟩, by decide +kernel, by decide +kernel⟩

/-- … hence the pinned vector call sums fewer terms than the scalar call (3 instead of 4) and its
entry for rate 2 is `9/16` instead of `3/4`; the repaired rule gives 4 terms and `3/4`. -/
theorem stopIndexMin_not_mono :
    stopIndexMin (fun n => (n : ℚ)) toyPmf (1/100) (1/100) [2] 10 1 = 4 ∧
    stopIndexMin (fun n => (n : ℚ)) toyPmf (1/100) (1/100) [0, 2] 10 1 = 3 ∧
    entropySum toyPmf toyLog 2 4 = 3/4 ∧ entropySum toyPmf toyLog 2 3 = 9/16 ∧
    stopIndex (fun n => (n : ℚ)) toyPmf (1/100) (1/100) [0, 2] 10 1 = 4 ∧
    entropyVec (fun n => (n : ℚ)) toyPmf toyLog (1/100) (1/100) 10 [0, 2] = [0, 3/4] := by
  decide +kernel

/-! ## Zero-probability terms and rate 0 -/

/-- `0 · log 0 := 0`: a zero-probability term contributes nothing, whatever `log 0` is -/
theorem plogp_zero (log : α → α) : plogp log 0 = 0 := by
  unfold plogp; rw [if_neg (lt_irrefl _)]

/-- non-positive "probabilities" are masked as well -/
theorem plogp_of_nonpos (log : α → α) (p : α) (hp : p ≤ 0) : plogp log p = 0 := by
  unfold plogp; rw [if_neg (not_lt.mpr hp)]

/-- **Entropy at rate 0 is 0** for any number of terms, when `pmf · 0` is the point mass at 0 and
`log 1 = 0` (on the unrepaired tree the entry was `nan`). -/
theorem entropy_rate_zero (pmf : ℕ → α → α) (log : α → α) (h0 : pmf 0 0 = 1)
    (hk : ∀ k, pmf (k + 1) 0 = 0) (hlog : log 1 = 0) (K : ℕ) :
    entropySum pmf log 0 K = 0 := by
  induction K with
  | zero => rfl
  | succ K ih =>
    show entropySum pmf log 0 K - plogp log (pmf K 0) = 0
    rw [ih]
    cases K with
    | zero => rw [h0]; unfold plogp; rw [if_pos one_pos, hlog]; ring
    | succ K => rw [hk, plogp_zero]; ring

/-- … in a vector call too: every entry whose rate is 0 is exactly 0 -/
theorem entropyVec_rate_zero (cast : ℕ → α) (hcast : Monotone cast) (pmf : ℕ → α → α)
    (log : α → α) (tol1 tol2 : α) (fuel : ℕ) (lams : List α) (h0 : pmf 0 0 = 1)
    (hk : ∀ k, pmf (k + 1) 0 = 0) (hlog : log 1 = 0) (j : ℕ) (hj : j < lams.length)
    (hz : lams[j] = 0) :
    (entropyVec cast pmf log tol1 tol2 fuel lams)[j]? = some 0 := by
  rw [entropyVec_closed_form cast hcast, List.getElem?_map, List.getElem?_eq_getElem hj,
    Option.map_some, hz, entropy_rate_zero pmf log h0 hk hlog]

example : toyPmf 0 0 = 1 ∧ (∀ k, toyPmf (k + 1) 0 = 0) ∧ toyLog 1 = 0 := by
  refine ⟨by simp [toyPmf], fun k => by simp [toyPmf], by simp [toyLog]⟩

/-! ## Joint entropy -/

section joint
open Finset

/-- entry `(i, j)` of a list-of-rows matrix as the model reads it -/
def entry (C : List (List ℚ)) (i j : ℕ) : ℚ := (C.getD i []).getD j 0

/-- inside the matrix `entry` is the real entry (so for a square `n × n` matrix every pair
`i < j < n` of `joint_def` reads a real entry, no default) -/
theorem entry_eq_getElem (C : List (List ℚ)) (i j : ℕ) (hi : i < C.length)
    (hj : j < C[i].length) : entry C i j = C[i][j] := by
  unfold entry
  have h1 : C.getD i [] = C[i] := by
    rw [List.getD_eq_getElem?_getD, List.getElem?_eq_getElem hi, Option.getD_some]
  rw [h1, List.getD_eq_getElem?_getD, List.getElem?_eq_getElem hj, Option.getD_some]

/-- the strictly upper-triangular index pairs `i < j < n` (`np.triu(Cov, 1)`) -/
def upperPairs (n : ℕ) : Finset (ℕ × ℕ) := (range n ×ˢ range n).filter (fun p => p.1 < p.2)

theorem sum_range_map (f : ℕ → ℚ) (n : ℕ) : ((List.range n).map f).sum = ∑ i ∈ range n, f i := by
  induction n with
  | zero => rfl
  | succ n ih => rw [List.range_succ, List.map_append, List.sum_append, ih, sum_range_succ]; simp

/-- **Joint entropy = marginal entropies + strictly upper triangle.**
`jointEntropy H C = Σ H + Σ_{i<j<n} C[i][j]` with `n` the number of rows. -/
theorem joint_def (H : List ℚ) (C : List (List ℚ)) :
    jointEntropy H C = H.sum + ∑ p ∈ upperPairs C.length, entry C p.1 p.2 := by
  unfold jointEntropy upperPairs
  rw [sum_filter, sum_product]
  simp only [sum_range_map]
  rfl

example : jointEntropy [1, 2, 3] [[10, 1, 2], [7, 20, 4], [8, 9, 30]] = 6 + (1 + 2 + 4) := by
  decide +kernel

/-- list-of-rows form of a matrix given as a function -/
def matOfFn {n : ℕ} (M : Fin n → Fin n → ℚ) : List (List ℚ) := List.ofFn (fun i => List.ofFn (M i))

theorem jointEntropy_ofFn {n : ℕ} (h : Fin n → ℚ) (M : Fin n → Fin n → ℚ) :
    jointEntropy (List.ofFn h) (matOfFn M) =
      ∑ i, h i + ∑ i, ∑ j, if i < j then M i j else 0 := by
  rw [joint_def, List.sum_ofFn]
  congr 1
  unfold upperPairs matOfFn
  rw [List.length_ofFn, sum_filter, sum_product, Finset.sum_range]
  apply sum_congr rfl
  intro i _
  rw [Finset.sum_range]
  apply sum_congr rfl
  intro j _
  simp [entry, List.getD_eq_getElem?_getD]

/-- for a symmetric matrix twice the strict upper triangle is the total minus the diagonal -/
theorem two_mul_upper {n : ℕ} (M : Fin n → Fin n → ℚ) (hsymm : ∀ i j, M i j = M j i) :
    2 * ∑ i, ∑ j, (if i < j then M i j else 0) = ∑ i, ∑ j, M i j - ∑ i, M i i := by
  have hsplit : ∀ i j : Fin n, M i j =
      (if i < j then M i j else 0) + (if j < i then M j i else 0) + (if i = j then M i i else 0) := by
    intro i j
    rcases lt_trichotomy i j with h | h | h
    · simp [h, not_lt_of_gt h, ne_of_lt h]
    · subst h; simp
    · simp [h, not_lt_of_gt h, ne_of_gt h, hsymm i j]
  have hdiag : ∑ i : Fin n, ∑ j, (if i = j then M i i else 0) = ∑ i, M i i := by
    apply sum_congr rfl; intro i _; simp
  have hlow : ∑ i : Fin n, ∑ j, (if j < i then M j i else 0) =
      ∑ i, ∑ j, (if i < j then M i j else 0) := sum_comm
  calc 2 * ∑ i, ∑ j, (if i < j then M i j else 0)
      = (∑ i, ∑ j, (if i < j then M i j else 0) + ∑ i : Fin n, ∑ j, (if j < i then M j i else 0)
          + ∑ i : Fin n, ∑ j, (if i = j then M i i else 0)) - ∑ i, M i i := by
        rw [hlow, hdiag]; ring
    _ = ∑ i, ∑ j, M i j - ∑ i, M i i := by
        congr 1
        simp only [← sum_add_distrib]
        exact sum_congr rfl fun i _ => sum_congr rfl fun j _ => (hsplit i j).symm

/-- **P1: relabelling symmetry.** For a symmetric matrix, permuting the variables (rows and
columns of `C` simultaneously, and the marginal entropies `H` accordingly) leaves the joint
entropy unchanged. (False for non-symmetric matrices: `triu` then picks other entries.) -/
theorem joint_perm_symm {n : ℕ} (h : Fin n → ℚ) (M : Fin n → Fin n → ℚ)
    (hsymm : ∀ i j, M i j = M j i) (σ : Equiv.Perm (Fin n)) :
    jointEntropy (List.ofFn (fun i => h (σ i))) (matOfFn (fun i j => M (σ i) (σ j))) =
      jointEntropy (List.ofFn h) (matOfFn M) := by
  rw [jointEntropy_ofFn, jointEntropy_ofFn, Equiv.sum_comp σ h]
  congr 1
  have h1 := two_mul_upper (fun i j => M (σ i) (σ j)) (fun i j => hsymm _ _)
  have h2 := two_mul_upper M hsymm
  have h3 : ∑ i, ∑ j, M (σ i) (σ j) = ∑ i, ∑ j, M i j := by
    rw [← Equiv.sum_comp σ (fun i => ∑ j, M i j)]
    exact sum_congr rfl fun i _ => Equiv.sum_comp σ (fun j => M (σ i) j)
  have h4 : ∑ i, M (σ i) (σ i) = ∑ i, M i i := Equiv.sum_comp σ (fun i => M i i)
  linarith

/-- a concrete instance: the symmetric matrix `M i j = i + j + i·j` on 3 variables, swapping 0 and 1 -/
example : jointEntropy (List.ofFn (fun i : Fin 3 => ((Equiv.swap 0 1 i : Fin 3) : ℚ)))
      (matOfFn (fun i j : Fin 3 => ((Equiv.swap (0 : Fin 3) 1 i : ℕ) : ℚ) + (Equiv.swap (0 : Fin 3) 1 j : ℕ)
        + (Equiv.swap (0 : Fin 3) 1 i : ℕ) * (Equiv.swap (0 : Fin 3) 1 j : ℕ))) =
    jointEntropy (List.ofFn (fun i : Fin 3 => (i : ℚ)))
      (matOfFn (fun i j : Fin 3 => ((i : ℕ) : ℚ) + (j : ℕ) + (i : ℕ) * (j : ℕ))) :=
  joint_perm_symm (fun i : Fin 3 => (i : ℚ)) (fun i j : Fin 3 => ((i : ℕ) : ℚ) + (j : ℕ) + (i : ℕ) * (j : ℕ))
    (fun i j => by ring) (Equiv.swap 0 1)

/-- symmetry is necessary: swapping the two variables of `[[0, 1], [0, 0]]` changes the value -/
example : jointEntropy [0, 0] [[0, 1], [0, 0]] ≠ jointEntropy [0, 0] [[0, 0], [1, 0]] := by
  decide +kernel

end joint

end CE.Poisson
