import CEModel.Knn
import Mathlib.Data.List.Sort
import Mathlib.Data.List.Perm.Basic
import Mathlib.Data.List.Fold
import Mathlib.Data.List.GetD
import Mathlib.Data.List.Nodup
import Mathlib.Data.Rat.Defs
import Mathlib.Algebra.Order.Field.Basic
import Mathlib.Algebra.Order.Ring.Rat
import Mathlib.Algebra.Order.AbsoluteValue.Basic
import Mathlib.Algebra.BigOperators.Group.List.Basic
import Mathlib.Tactic.Linarith
import Mathlib.Tactic.Positivity
import Mathlib.Tactic.Ring
import Mathlib.Tactic.FieldSimp
import Mathlib.Tactic.NormNum

/-! # Shared lemmas for C11 (kNN part) and C10 (kNN part)

Facts about the executable model `CE.Knn` (`CEModel/Knn.lean`): folds as sums, the sorted key row
depends only on the multiset of keys, the self-distance bookkeeping (`kth_with_self`,
`count_with_self`), algebra of `key` (non-negativity, symmetry, `key x x = 0`, behaviour under
concatenation and coordinate permutation) and the two primitives `radius` / `countIn`
re-expressed over an arbitrary list of "sample records". -/
namespace CE.Knn

/-! ### folds -/

theorem foldl_add_eq (l : List ℚ) (c : ℚ) : l.foldl (· + ·) c = c + l.sum := by
  induction l generalizing c with
  | nil => simp
  | cons a l ih => simp only [List.foldl_cons, List.sum_cons, ih]; ring

theorem sumR_eq_sum (l : List ℚ) : sumR l = l.sum := by
  unfold sumR; rw [foldl_add_eq]; ring

theorem absR_eq_abs (q : ℚ) : absR q = |q| := by
  unfold absR
  split
  · next h => rw [abs_of_neg h]
  · next h => rw [abs_of_nonneg (not_lt.mp h)]

/-! ### `key` as "aggregate of per-coordinate discrepancies" -/

/-- per-coordinate discrepancy of the metric -/
def coord : Metric → ℚ → ℚ → ℚ
  | .euclidean, x, y => (x - y) * (x - y)
  | .cityblock, x, y => |x - y|
  | .chebyshev, x, y => |x - y|

/-- aggregation over coordinates: sum, or maximum (with 0) -/
def agg : Metric → List ℚ → ℚ
  | .euclidean, l => l.sum
  | .cityblock, l => l.sum
  | .chebyshev, l => l.foldr max 0

/-- binary form of the aggregation -/
def kop : Metric → ℚ → ℚ → ℚ
  | .euclidean => (· + ·)
  | .cityblock => (· + ·)
  | .chebyshev => max

theorem key_eq (m : Metric) (a b : Pt) : key m a b = agg m (List.zipWith (coord m) a b) := by
  cases m
  · simp only [key, agg]; rw [foldl_add_eq, zero_add]; rfl
  · simp only [key, agg]; rw [foldl_add_eq, zero_add]
    simp only [absR_eq_abs]; rfl
  · simp only [key, agg]; rw [List.foldl_eq_foldr]
    simp only [absR_eq_abs]; rfl

theorem coord_nonneg (m : Metric) (x y : ℚ) : 0 ≤ coord m x y := by
  cases m <;> simp only [coord]
  · exact mul_self_nonneg _
  · exact abs_nonneg _
  · exact abs_nonneg _

theorem coord_self (m : Metric) (x : ℚ) : coord m x x = 0 := by
  cases m <;> simp [coord]

theorem coord_symm (m : Metric) (x y : ℚ) : coord m x y = coord m y x := by
  cases m <;> simp only [coord]
  · ring
  · exact abs_sub_comm _ _
  · exact abs_sub_comm _ _

theorem coord_eq_zero (m : Metric) (x y : ℚ) : coord m x y = 0 ↔ x = y := by
  cases m <;> simp only [coord]
  · rw [mul_self_eq_zero, sub_eq_zero]
  · rw [abs_eq_zero, sub_eq_zero]
  · rw [abs_eq_zero, sub_eq_zero]

theorem agg_nil (m : Metric) : agg m [] = 0 := by cases m <;> rfl

theorem agg_nonneg (m : Metric) (l : List ℚ) (h : ∀ d ∈ l, 0 ≤ d) : 0 ≤ agg m l := by
  cases m
  · exact List.sum_nonneg h
  · exact List.sum_nonneg h
  · simp only [agg]
    cases l with
    | nil => simp
    | cons a l => simp only [List.foldr_cons]; exact le_max_of_le_left (h a (List.mem_cons_self ..))

theorem agg_cons (m : Metric) (a : ℚ) (l : List ℚ) : agg m (a :: l) = kop m a (agg m l) := by
  cases m <;> simp [agg, kop]

theorem kop_comm (m : Metric) (a b : ℚ) : kop m a b = kop m b a := by
  cases m <;> simp only [kop]
  · exact add_comm _ _
  · exact add_comm _ _
  · exact max_comm _ _

theorem kop_assoc (m : Metric) (a b c : ℚ) : kop m (kop m a b) c = kop m a (kop m b c) := by
  cases m <;> simp only [kop]
  · exact add_assoc _ _ _
  · exact add_assoc _ _ _
  · exact max_assoc _ _ _

theorem kop_zero_left (m : Metric) (a : ℚ) (h : 0 ≤ a) : kop m 0 a = a := by
  cases m <;> simp [kop, h]

theorem kop_nonneg (m : Metric) (a b : ℚ) (ha : 0 ≤ a) (hb : 0 ≤ b) : 0 ≤ kop m a b := by
  cases m <;> simp only [kop]
  · exact add_nonneg ha hb
  · exact add_nonneg ha hb
  · exact le_max_of_le_left ha

theorem kop_pos_left (m : Metric) (a b : ℚ) (ha : 0 < a) (hb : 0 ≤ b) : 0 < kop m a b := by
  cases m <;> simp only [kop]
  · exact add_pos_of_pos_of_nonneg ha hb
  · exact add_pos_of_pos_of_nonneg ha hb
  · exact lt_max_of_lt_left ha

theorem kop_eq_zero (m : Metric) (a b : ℚ) (ha : 0 ≤ a) (hb : 0 ≤ b) :
    kop m a b = 0 ↔ a = 0 ∧ b = 0 := by
  cases m <;> simp only [kop]
  · exact add_eq_zero_iff_of_nonneg ha hb
  · exact add_eq_zero_iff_of_nonneg ha hb
  · constructor
    · intro h
      have h1 : a ≤ 0 := h ▸ le_max_left a b
      have h2 : b ≤ 0 := h ▸ le_max_right a b
      exact ⟨le_antisymm h1 ha, le_antisymm h2 hb⟩
    · rintro ⟨rfl, rfl⟩; simp

theorem agg_append (m : Metric) (l₁ l₂ : List ℚ) (h₂ : ∀ d ∈ l₂, 0 ≤ d) :
    agg m (l₁ ++ l₂) = kop m (agg m l₁) (agg m l₂) := by
  induction l₁ with
  | nil => rw [List.nil_append, agg_nil, kop_zero_left _ _ (agg_nonneg m l₂ h₂)]
  | cons a l ih => rw [List.cons_append, agg_cons, ih, agg_cons, kop_assoc]

theorem agg_perm (m : Metric) {l₁ l₂ : List ℚ} (h : l₁.Perm l₂) : agg m l₁ = agg m l₂ := by
  cases m
  · exact h.sum_eq
  · exact h.sum_eq
  · exact h.foldr_eq 0

theorem zipWith_coord_nonneg (m : Metric) (a b : Pt) : ∀ d ∈ List.zipWith (coord m) a b, 0 ≤ d := by
  intro d hd
  obtain ⟨i, hi, rfl⟩ := List.getElem_of_mem hd
  rw [List.getElem_zipWith]; exact coord_nonneg _ _ _

theorem key_nonneg (m : Metric) (a b : Pt) : 0 ≤ key m a b := by
  rw [key_eq]; exact agg_nonneg m _ (zipWith_coord_nonneg m a b)

theorem key_self (m : Metric) (a : Pt) : key m a a = 0 := by
  rw [key_eq]
  induction a with
  | nil => exact agg_nil m
  | cons x a ih =>
    rw [List.zipWith_cons_cons, agg_cons, ih, coord_self, kop_zero_left _ _ le_rfl]

theorem key_symm (m : Metric) (a b : Pt) : key m a b = key m b a := by
  rw [key_eq, key_eq, List.zipWith_comm]
  congr 2
  funext x y
  exact coord_symm m y x

/-- the key of concatenated rows is the `kop`-combination (sum, resp. max) of the keys of the parts -/
theorem key_append (m : Metric) (a b c d : Pt) (h : a.length = c.length) :
    key m (a ++ b) (c ++ d) = kop m (key m a c) (key m b d) := by
  rw [key_eq, key_eq, key_eq, List.zipWith_append h, agg_append m _ _ (zipWith_coord_nonneg m b d)]

/-- for rows of equal width the key vanishes exactly when the rows coincide -/
theorem key_eq_zero (m : Metric) (a b : Pt) (h : a.length = b.length) : key m a b = 0 ↔ a = b := by
  induction a generalizing b with
  | nil =>
    cases b with
    | nil => simp [key_self]
    | cons y b => simp at h
  | cons x a ih =>
    cases b with
    | nil => simp at h
    | cons y b =>
      have h' : a.length = b.length := by simpa using h
      have := ih b h'
      rw [key_eq, List.zipWith_cons_cons, agg_cons,
        kop_eq_zero m _ _ (coord_nonneg m x y) (agg_nonneg m _ (zipWith_coord_nonneg m a b)),
        coord_eq_zero, ← key_eq, this]
      simp

/-- applying the same rearrangement of coordinates to both rows does not change the key -/
theorem key_colperm (m : Metric) (idx : List ℕ) (n : ℕ) (hidx : idx.Perm (List.range n))
    (a b : Pt) (ha : a.length = n) (hb : b.length = n) :
    key m (idx.map (a.getD · 0)) (idx.map (b.getD · 0)) = key m a b := by
  rw [key_eq, key_eq, List.zipWith_map, List.zipWith_self]
  have hab : List.zipWith (coord m) a b
      = (List.range n).map (fun j => coord m (a.getD j 0) (b.getD j 0)) := by
    apply List.ext_getElem
    · simp [ha, hb]
    · intro i h1 h2
      have hi : i < n := by simpa using h2
      simp [List.getD_eq_getElem?_getD, ha, hb, hi]
  rw [hab]
  exact agg_perm m (hidx.map _)

/-! ### sorting: depends only on the multiset; self-distance bookkeeping -/

theorem sortRat_perm (l : List ℚ) : (sortRat l).Perm l := List.mergeSort_perm _ _

theorem sortRat_sorted (l : List ℚ) : List.Pairwise (· ≤ ·) (sortRat l) :=
  List.pairwise_mergeSort' (r := (· ≤ · : ℚ → ℚ → Prop)) l

theorem sortRat_perm_eq {l₁ l₂ : List ℚ} (h : l₁.Perm l₂) : sortRat l₁ = sortRat l₂ :=
  ((sortRat_perm l₁).trans (h.trans (sortRat_perm l₂).symm)).eq_of_pairwise'
    (sortRat_sorted l₁) (sortRat_sorted l₂)

/-- index `k+1` of the sorted row that contains the self key `0` and otherwise non-negative keys is
index `k` of the sorted list of the other keys -/
theorem kth_with_self_nonneg (row others : List ℚ) (hperm : row.Perm (0 :: others))
    (hnn : ∀ d ∈ others, 0 ≤ d) (k : ℕ) (d : ℚ) :
    (sortRat row).getD (k + 1) d = (sortRat others).getD k d := by
  have hs : sortRat row = 0 :: sortRat others := by
    rw [sortRat_perm_eq hperm]
    have hp : (sortRat (0 :: others)).Perm (0 :: sortRat others) :=
      (sortRat_perm _).trans ((sortRat_perm _).symm.cons 0)
    have p2 : List.Pairwise (· ≤ ·) (0 :: sortRat others) := by
      refine List.pairwise_cons.mpr ⟨?_, sortRat_sorted _⟩
      intro a ha
      exact hnn a ((sortRat_perm _).subset ha)
    exact hp.eq_of_pairwise' (sortRat_sorted _) p2
  rw [hs]; simp

/-- (DESIGN B.6) the tie-free form: the other keys are positive -/
theorem kth_with_self (row others : List ℚ) (hperm : row.Perm (0 :: others))
    (hpos : ∀ d ∈ others, 0 < d) (k : ℕ) (d : ℚ) :
    (sortRat row).getD (k + 1) d = (sortRat others).getD k d :=
  kth_with_self_nonneg row others hperm (fun d hd => le_of_lt (hpos d hd)) k d

/-- "count `<` over the whole row, minus one" is the count over the other keys, as soon as the
radius is positive (the self key `0` is then counted exactly once) -/
theorem count_with_self (row others : List ℚ) (hperm : row.Perm (0 :: others)) (eps : ℚ)
    (heps : 0 < eps) :
    row.countP (fun d => decide (d < eps)) - 1 = others.countP (fun d => decide (d < eps)) := by
  rw [hperm.countP_eq]
  simp [heps]

/-! ### `radius` and `countIn` under reordering / relabelling of the sample list -/

theorem radius_perm (m : Metric) (k : ℕ) {S S' : Sample} (h : S.Perm S') (x : Pt) :
    radius m k S x = radius m k S' x := by
  unfold radius keyRow
  rw [sortRat_perm_eq (h.map _)]

theorem countIn_perm (m : Metric) {S S' : Sample} (h : S.Perm S') (x : Pt) (eps : ℚ) :
    countIn m S x eps = countIn m S' x eps := by
  unfold countIn keyRow
  rw [(h.map _).countP_eq]

theorem radius_congr {τ : Type} (m : Metric) (k : ℕ) (T : List τ) (g g' : τ → Pt) (x x' : Pt)
    (h : ∀ s ∈ T, key m x (g s) = key m x' (g' s)) :
    radius m k (T.map g) x = radius m k (T.map g') x' := by
  unfold radius keyRow
  rw [List.map_map, List.map_map]
  congr 2
  exact List.map_congr_left (fun s hs => h s hs)

theorem countIn_congr {τ : Type} (m : Metric) (T : List τ) (g g' : τ → Pt) (x x' : Pt) (eps : ℚ)
    (h : ∀ s ∈ T, key m x (g s) = key m x' (g' s)) :
    countIn m (T.map g) x eps = countIn m (T.map g') x' eps := by
  unfold countIn keyRow
  rw [List.map_map, List.map_map]
  congr 2
  exact List.map_congr_left (fun s hs => h s hs)

theorem mean_perm {l l' : List ℚ} (h : l.Perm l') : mean l = mean l' := by
  unfold mean; rw [sumR_eq_sum, sumR_eq_sum, h.sum_eq, h.length_eq]

/-! ### the estimators as functions of the list of sample records -/

/-- the summand of `knnMI` for record `p`, as a function of the list of `(x, y)` records -/
def miTerm (m : Metric) (k : ℕ) (P : List (Pt × Pt)) (p : Pt × Pt) : ℚ :=
  harm (countIn m (P.map Prod.fst) p.1 (radius m k (P.map (fun q => q.1 ++ q.2)) (p.1 ++ p.2)))
  + harm (countIn m (P.map Prod.snd) p.2 (radius m k (P.map (fun q => q.1 ++ q.2)) (p.1 ++ p.2)))

/-- `knnMI` as a function of the list of `(x, y)` records -/
def miOf (m : Metric) (k : ℕ) (P : List (Pt × Pt)) : ℚ :=
  harm (k - 1) + harm (P.length - 1) - mean (P.map (miTerm m k P))

/-- the summand of `knnCMI` for record `t`, as a function of the list of `(x, y, z)` records -/
def cmiTerm (m : Metric) (k : ℕ) (T : List (Pt × Pt × Pt)) (t : Pt × Pt × Pt) : ℚ :=
  harm (countIn m (T.map (fun s => s.1 ++ s.2.2)) (t.1 ++ t.2.2)
      (radius m k (T.map (fun s => s.1 ++ s.2.1 ++ s.2.2)) (t.1 ++ t.2.1 ++ t.2.2)))
    + harm (countIn m (T.map (fun s => s.2.1 ++ s.2.2)) (t.2.1 ++ t.2.2)
      (radius m k (T.map (fun s => s.1 ++ s.2.1 ++ s.2.2)) (t.1 ++ t.2.1 ++ t.2.2)))
    - harm (countIn m (T.map (fun s => s.2.2)) t.2.2
      (radius m k (T.map (fun s => s.1 ++ s.2.1 ++ s.2.2)) (t.1 ++ t.2.1 ++ t.2.2)))

/-- `knnCMI` as a function of the list of `(x, y, z)` records -/
def cmiOf (m : Metric) (k : ℕ) (T : List (Pt × Pt × Pt)) : ℚ :=
  harm (k - 1) - mean (T.map (cmiTerm m k T))

theorem hcat_map {τ : Type} (T : List τ) (f g : τ → Pt) :
    hcat (T.map f) (T.map g) = T.map (fun t => f t ++ g t) := by
  unfold hcat; rw [List.zipWith_map, List.zipWith_self]

theorem knnMI_records (m : Metric) (k : ℕ) (P : List (Pt × Pt)) :
    knnMI m k (P.map Prod.fst) (P.map Prod.snd) = miOf m k P := by
  unfold knnMI miOf miTerm
  simp only [hcat_map, List.zipWith_map, List.zipWith_self, List.length_map, List.map_map]
  rfl

theorem zip3_map (T : List (Pt × Pt × Pt)) :
    zip3 (T.map (·.1)) (T.map (·.2.1)) (T.map (·.2.2)) = T := by
  unfold zip3
  simp only [List.zipWith_map, List.zipWith_self]
  simp

theorem knnCMI_records (m : Metric) (k : ℕ) (T : List (Pt × Pt × Pt)) :
    knnCMI m k (T.map (·.1)) (T.map (·.2.1)) (T.map (·.2.2)) = cmiOf m k T := by
  unfold knnCMI cmiOf cmiTerm
  rw [zip3_map]
  simp only [hcat_map]

theorem zip_records {X Y : Sample} (h : X.length = Y.length) :
    X = (X.zip Y).map Prod.fst ∧ Y = (X.zip Y).map Prod.snd :=
  ⟨(List.map_fst_zip (le_of_eq h)).symm, (List.map_snd_zip (le_of_eq h.symm)).symm⟩

theorem zip3_records {X Y Z : Sample} (hxy : X.length = Y.length) (hyz : Y.length = Z.length) :
    X = (zip3 X Y Z).map (·.1) ∧ Y = (zip3 X Y Z).map (·.2.1) ∧ Z = (zip3 X Y Z).map (·.2.2) := by
  unfold zip3
  refine ⟨?_, ?_, ?_⟩ <;>
  · apply List.ext_getElem
    · simp [hxy, hyz]
    · intro i h1 h2; simp

theorem knnMI_eq_miOf (m : Metric) (k : ℕ) {X Y : Sample} (h : X.length = Y.length) :
    knnMI m k X Y = miOf m k (X.zip Y) := by
  rw [← knnMI_records, ← (zip_records h).1, ← (zip_records h).2]

theorem knnCMI_eq_cmiOf (m : Metric) (k : ℕ) {X Y Z : Sample} (hxy : X.length = Y.length)
    (hyz : Y.length = Z.length) : knnCMI m k X Y Z = cmiOf m k (zip3 X Y Z) := by
  obtain ⟨h1, h2, h3⟩ := zip3_records hxy hyz
  rw [← knnCMI_records, ← h1, ← h2, ← h3]

theorem length_hcat (X Y : Sample) : (hcat X Y).length = min X.length Y.length := by
  unfold hcat; exact List.length_zipWith

theorem hcat_getD (X Y : Sample) (i : ℕ) (hx : i < X.length) (hy : i < Y.length) :
    (hcat X Y).getD i [] = X.getD i [] ++ Y.getD i [] := by
  have hi : i < (List.zipWith (· ++ ·) X Y).length := by rw [List.length_zipWith]; omega
  unfold hcat
  rw [List.getD_eq_getElem _ _ hi, List.getD_eq_getElem _ _ hx, List.getD_eq_getElem _ _ hy,
    List.getElem_zipWith]

theorem zipWith_pair_eq (X Y : Sample) (h : X.length = Y.length) :
    List.zipWith (fun (x : Pt) (y : Pt) => (x, y)) X Y
      = (List.range X.length).map (fun i => (X.getD i [], Y.getD i [])) := by
  apply List.ext_getElem
  · simp [h]
  · intro i h1 h2
    have hx : i < X.length := by simpa using h2
    have hy : i < Y.length := h ▸ hx
    simp [hx, hy]

theorem zip3_eq (X Y Z : Sample) (hxy : X.length = Y.length) (hyz : Y.length = Z.length) :
    zip3 X Y Z = (List.range X.length).map (fun i => (X.getD i [], Y.getD i [], Z.getD i [])) := by
  unfold zip3
  apply List.ext_getElem
  · simp [hxy, hyz]
  · intro i h1 h2
    have hx : i < X.length := by simpa using h2
    have hy : i < Y.length := hxy ▸ hx
    have hz : i < Z.length := hyz ▸ hy
    simp [hx, hy, hz]

end CE.Knn
