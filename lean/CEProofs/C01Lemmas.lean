import CEModel.Discovery
import CEProofs.SelNodup
import Mathlib.Data.List.Basic
import Mathlib.Data.List.Range
import Mathlib.Data.List.Flatten

/-! # Structure of `edgeLoop`, `discoverWith` and `discover` (shared by C01, C06, C07)

The two loops of `discover_network` (over targets, and over the selected columns of one target)
are characterised once, in closed form:

* `edgeLoop_eq` — the edge loop of one target emits, in order, one edge `edgeAt … d_k c_k` per
  selected column `c_k`, where `d_k = c + k * cost` is the draw counter at which its test starts;
* `discoverWith_eq` — the result of `discoverWith` is the concatenation over targets `0..n-1`
  of those lists, the draw counter being threaded through selection and edge loop
  (`drawsBefore`, `stAt`);
* `discover_ok` / `discover_cases` — the guards of `discover`.

Everything here holds for arbitrary oracles. Namespace `CE.Disc.Loop`. -/
namespace CE.Disc.Loop
open CE.Disc

/-- conditioning ids used for the edge of selected column `c`: the *other* selected columns, in
selection order (`other_selected = [idx for idx in S if idx != s]`) -/
def others (S : List Nat) (c : Nat) : List Nat := S.filter (fun k => k != c)

/-- the edge emitted for selected column `c` of target `i` when its test starts at draw `d` -/
def edgeAt (o : Oracles) (αb : Rat) (L i : Nat) (S : List Nat) (d c : Nat) : Edge :=
  { src := (label L c).1, dst := i, lag := (label L c).2, cmi := o.f c (others S c),
    p := (o.test d αb c (others S c) (o.f c (others S c))).2 }

/-- the logged test event of that edge -/
def evAt (o : Oracles) (αb : Rat) (S : List Nat) (d c : Nat) : Ev :=
  mkEv .edge αb c (others S c) (o.f c (others S c))
    (o.test d αb c (others S c) (o.f c (others S c)))

/-- edges emitted for the columns `l` (a suffix of `S`), first test starting at draw `d` -/
def edgesFrom (o : Oracles) (αb : Rat) (L i : Nat) (S : List Nat) : Nat → List Nat → List Edge
  | _, [] => []
  | d, c :: l => edgeAt o αb L i S d c :: edgesFrom o αb L i S (d + o.cost) l

def evsFrom (o : Oracles) (αb : Rat) (S : List Nat) : Nat → List Nat → List Ev
  | _, [] => []
  | d, c :: l => evAt o αb S d c :: evsFrom o αb S (d + o.cost) l

theorem foldl_edgeStep (o : Oracles) (αb : Rat) (L i : Nat) (S : List Nat) :
    ∀ (l : List Nat) (es : List Edge) (evs : List Ev) (d : Nat),
      l.foldl (fun (acc : List Edge × List Ev × Nat) s =>
        let (es, evs, c) := acc
        let Z := S.filter (fun k => k != s)
        let v := o.f s Z
        let r := o.test c αb s Z v
        (es ++ [{ src := (label L s).1, dst := i, lag := (label L s).2, cmi := v, p := r.2 }],
         evs ++ [mkEv .edge αb s Z v r], c + o.cost)) (es, evs, d)
      = (es ++ edgesFrom o αb L i S d l, evs ++ evsFrom o αb S d l, d + l.length * o.cost)
  | [], es, evs, d => by simp [edgesFrom, evsFrom]
  | c :: l, es, evs, d => by
      rw [List.foldl_cons]
      dsimp only
      rw [foldl_edgeStep o αb L i S l]
      simp only [edgesFrom, evsFrom, edgeAt, evAt, others, List.append_assoc, List.singleton_append,
        List.length_cons, Prod.mk.injEq, true_and]
      rw [Nat.add_mul]; omega

/-- **edge loop in closed form** -/
theorem edgeLoop_eq (o : Oracles) (αb : Rat) (L i : Nat) (S : List Nat) (c : Nat) :
    edgeLoop o αb L i S c =
      (edgesFrom o αb L i S c S, evsFrom o αb S c S, c + S.length * o.cost) := by
  unfold edgeLoop
  rw [foldl_edgeStep]
  simp

theorem edgesFrom_length (o : Oracles) (αb : Rat) (L i : Nat) (S : List Nat) :
    ∀ (l : List Nat) (d : Nat), (edgesFrom o αb L i S d l).length = l.length
  | [], _ => rfl
  | _ :: l, d => by simp [edgesFrom, edgesFrom_length o αb L i S l]

/-- the `k`-th edge belongs to the `k`-th column and its test starts at draw `d + k * cost` -/
theorem edgesFrom_getElem? (o : Oracles) (αb : Rat) (L i : Nat) (S : List Nat) :
    ∀ (l : List Nat) (d k : Nat),
      (edgesFrom o αb L i S d l)[k]? = l[k]?.map (fun c => edgeAt o αb L i S (d + k * o.cost) c)
  | [], _, _ => by simp [edgesFrom]
  | c :: l, d, 0 => by simp [edgesFrom]
  | c :: l, d, k+1 => by
      simp only [edgesFrom, List.getElem?_cons_succ]
      rw [edgesFrom_getElem? o αb L i S l]
      congr 2
      funext c
      congr 1
      rw [Nat.add_mul]; omega

theorem mem_edgesFrom {o : Oracles} {αb : Rat} {L i : Nat} {S : List Nat} {l : List Nat} {d : Nat}
    {e : Edge} (he : e ∈ edgesFrom o αb L i S d l) :
    ∃ k c, l[k]? = some c ∧ e = edgeAt o αb L i S (d + k * o.cost) c := by
  obtain ⟨k, hk⟩ := List.mem_iff_getElem?.1 he
  rw [edgesFrom_getElem?] at hk
  cases hl : l[k]? with
  | none => simp [hl] at hk
  | some c => exact ⟨k, c, hl, by simpa [hl] using hk.symm⟩

/-- every field that does not depend on the draw counter, as a plain `map` over the columns -/
theorem edgesFrom_map (o : Oracles) (αb : Rat) (L i : Nat) (S : List Nat) :
    ∀ (l : List Nat) (d : Nat),
      (edgesFrom o αb L i S d l).map (fun e => (e.src, e.dst, e.lag, e.cmi)) =
        l.map (fun c => ((label L c).1, i, (label L c).2, o.f c (others S c)))
  | [], _ => rfl
  | _ :: l, d => by simp [edgesFrom, edgeAt, edgesFrom_map o αb L i S l]

theorem edgesFrom_dst {o : Oracles} {αb : Rat} {L i : Nat} {S : List Nat} {l : List Nat} {d : Nat}
    {e : Edge} (he : e ∈ edgesFrom o αb L i S d l) : e.dst = i := by
  obtain ⟨k, c, -, rfl⟩ := mem_edgesFrom he
  rfl

/-! ## The loop over targets -/

/-- selection of target `i` started when `c` draws have been made -/
def selSt (m : Method) (orc : Nat → Oracles) (lasso : Nat → List Nat) (αf αb : Rat) (L n i c : Nat) :
    St :=
  match m with
  | .standard =>
      ocseStd (orc i) αf αb (n * L) ((List.range L).map (fun t => colId L i (t + 1))) c
  | .alternative => ocseAlt (orc i) αf αb (n * L) c
  | _ => { S := lasso i, c := c, evs := [] }

/-- number of generator draws made before target `i` is started -/
def drawsBefore (m : Method) (orc : Nat → Oracles) (lasso : Nat → List Nat) (αf αb : Rat)
    (L n : Nat) : Nat → Nat
  | 0 => 0
  | i+1 =>
    let st := selSt m orc lasso αf αb L n i (drawsBefore m orc lasso αf αb L n i)
    st.c + st.S.length * (orc i).cost

/-- state after the selection of target `i` (`.S` selected set, `.c` draws made so far) -/
def stAt (m : Method) (orc : Nat → Oracles) (lasso : Nat → List Nat) (αf αb : Rat) (L n i : Nat) :
    St :=
  selSt m orc lasso αf αb L n i (drawsBefore m orc lasso αf αb L n i)

/-- edges of target `i` -/
def edgesOf (m : Method) (orc : Nat → Oracles) (lasso : Nat → List Nat) (αf αb : Rat) (L n i : Nat) :
    List Edge :=
  edgesFrom (orc i) αb L i (stAt m orc lasso αf αb L n i).S (stAt m orc lasso αf αb L n i).c
    (stAt m orc lasso αf αb L n i).S

/-- events of target `i`: selection events, then the edge tests -/
def evsOf (m : Method) (orc : Nat → Oracles) (lasso : Nat → List Nat) (αf αb : Rat) (L n i : Nat) :
    List Ev :=
  (stAt m orc lasso αf αb L n i).evs ++
    evsFrom (orc i) αb (stAt m orc lasso αf αb L n i).S (stAt m orc lasso αf αb L n i).c
      (stAt m orc lasso αf αb L n i).S

theorem discoverWith_foldl (m : Method) (orc : Nat → Oracles) (lasso : Nat → List Nat)
    (αf αb : Rat) (L n : Nat) (k : Nat) :
    (List.range k).foldl (fun (acc : Result) i =>
      let o := orc i
      let st : St :=
        match m with
        | .standard => ocseStd o αf αb (n * L) ((List.range L).map (fun t => colId L i (t + 1))) acc.draws
        | .alternative => ocseAlt o αf αb (n * L) acc.draws
        | _ => { S := lasso i, c := acc.draws, evs := [] }
      let (es, evs, c) := edgeLoop o αb L i st.S st.c
      { edges := acc.edges ++ es, evs := acc.evs ++ st.evs ++ evs, draws := c, sel := acc.sel ++ [st.S] })
      { edges := [], evs := [], draws := 0, sel := [] }
    = { edges := (List.range k).flatMap (edgesOf m orc lasso αf αb L n),
        evs := (List.range k).flatMap (evsOf m orc lasso αf αb L n),
        draws := drawsBefore m orc lasso αf αb L n k,
        sel := (List.range k).map (fun i => (stAt m orc lasso αf αb L n i).S) } := by
  induction k with
  | zero => simp [drawsBefore]
  | succ k ih =>
    rw [List.range_succ, List.foldl_append, ih]
    simp only [List.foldl_cons, List.foldl_nil, edgeLoop_eq, List.flatMap_append,
      List.flatMap_singleton, List.map_append, List.map_singleton, List.append_assoc]
    cases m <;> simp only [edgesOf, evsOf, drawsBefore, stAt, selSt]

/-- **`discoverWith` in closed form** -/
theorem discoverWith_eq (m : Method) (orc : Nat → Oracles) (lasso : Nat → List Nat)
    (αf αb : Rat) (L n : Nat) :
    discoverWith m orc lasso αf αb L n =
      { edges := (List.range n).flatMap (edgesOf m orc lasso αf αb L n),
        evs := (List.range n).flatMap (evsOf m orc lasso αf αb L n),
        draws := drawsBefore m orc lasso αf αb L n n,
        sel := (List.range n).map (fun i => (stAt m orc lasso αf αb L n i).S) } := by
  unfold discoverWith
  exact discoverWith_foldl m orc lasso αf αb L n n

/-- the selected sets: for the two oCSE methods duplicate-free and in range for every oracle
record; for the two LASSO methods the oracle list `lasso i` itself -/
theorem stAt_S_lasso (m : Method) (orc : Nat → Oracles) (lasso : Nat → List Nat) (αf αb : Rat)
    (L n i : Nat) (hm : m = .informationLasso ∨ m = .lasso) :
    (stAt m orc lasso αf αb L n i).S = lasso i := by
  rcases hm with rfl | rfl <;> rfl

theorem stAt_good (m : Method) (orc : Nat → Oracles) (lasso : Nat → List Nat) (αf αb : Rat)
    (L n i : Nat)
    (hl : (m = .informationLasso ∨ m = .lasso) → SelNodup.Good (n * L) (lasso i)) :
    SelNodup.Good (n * L) (stAt m orc lasso αf αb L n i).S := by
  cases m
  · exact SelNodup.ocseStd_good ..
  · exact SelNodup.ocseAlt_good ..
  · exact hl (Or.inl rfl)
  · exact hl (Or.inr rfl)

/-! ## The guards of `discover` -/

/-- the four supported method names -/
def methodNames : List String := ["standard", "alternative", "information_lasso", "lasso"]

theorem parseMethod_eq_none_iff (x : String) : parseMethod x = none ↔ x ∉ methodNames := by
  unfold parseMethod methodNames
  split <;> simp_all

theorem parseMethod_eq_some_iff (x : String) (m : Method) :
    parseMethod x = some m ↔
      (x = "standard" ∧ m = .standard) ∨ (x = "alternative" ∧ m = .alternative) ∨
      (x = "information_lasso" ∧ m = .informationLasso) ∨ (x = "lasso" ∧ m = .lasso) := by
  unfold parseMethod
  split <;> simp_all [eq_comm]

/-- the two methods whose selected set is the LASSO oracle -/
def IsLassoMethod (x : String) : Prop := x = "information_lasso" ∨ x = "lasso"

theorem isLassoMethod_of_parse {x : String} {m : Method} (h : parseMethod x = some m)
    (hm : m = .informationLasso ∨ m = .lasso) : IsLassoMethod x := by
  rcases (parseMethod_eq_some_iff _ _).1 h with ⟨_, rfl⟩ | ⟨_, rfl⟩ | ⟨hx, rfl⟩ | ⟨hx, rfl⟩
  · rcases hm with h | h <;> cases h
  · rcases hm with h | h <;> cases h
  · exact Or.inl hx
  · exact Or.inr hx

theorem parse_of_isLassoMethod {x : String} {m : Method} (h : parseMethod x = some m)
    (hx : IsLassoMethod x) : m = .informationLasso ∨ m = .lasso := by
  rcases (parseMethod_eq_some_iff _ _).1 h with ⟨hx', rfl⟩ | ⟨hx', rfl⟩ | ⟨_, rfl⟩ | ⟨_, rfl⟩
  · rcases hx with h | h <;> rw [hx'] at h <;> simp at h
  · rcases hx with h | h <;> rw [hx'] at h <;> simp at h
  · exact Or.inl rfl
  · exact Or.inr rfl

theorem discover_ok {P : Params} {est : Est} {perms : Nat → List Nat} {lasso : Nat → List Nat}
    {s : Mat} {T n : Nat} {r : Result} (h : discover P est perms lasso s T n = .ok r) :
    ∃ m, parseMethod P.method = some m ∧ P.information ∈ supportedInformation ∧ P.L + 2 < T ∧
      r = discoverWith m (fun i => oraclesOf est perms s P.L T P.nShuffles i) lasso P.αf P.αb P.L n := by
  unfold discover at h
  cases hm : parseMethod P.method with
  | none => simp [hm] at h
  | some m =>
    simp only [hm] at h
    by_cases hi : P.information ∈ supportedInformation
    · by_cases hT : T ≤ P.L + 2
      · simp [hi, hT] at h
      · simp only [List.contains_eq_mem, hi, hT, decide_true, Bool.not_true, Bool.false_eq_true,
          ↓reduceIte, Except.ok.injEq] at h
        exact ⟨m, rfl, hi, by omega, h.symm⟩
    · simp [hi] at h

end CE.Disc.Loop
