import CEProofs.C12
import CEProofs.C12SvdLemmas

/-! # C12 — the SVD-based local correction is similarity invariant: the rotation and scaling laws
without any hypothesis about `corr`

`CEProofs/C12.lean` proves the four transformation laws of the geometric k-NN entropy
(`geom_laws_partial`) but, for scaling and rotation, takes the invariance of the uninterpreted local
correction `Env.corr` as hypotheses (`hcorr_scale`, `hcorr_rot`). Here the correction gets its
mathematical definition over ℝ — `corrMath`, built on Mathlib's `LinearMap.singularValues` — the two
invariances are PROVED for it, and `geom_laws_partial` is instantiated at the real environment
`envSvd` (`log = Real.log`, `sqrt = Real.sqrt`, `corr = corrMath`, `tiny = 1e-12`, `logTiny = -12`):
`geom_laws_real`. What remains as hypotheses are explicit conditions on the sample only.

## The definition and the code (`entropy.py:31-61`, `181-217`)

For one sample `i` the code computes `U, S, Vt = svd(Y_i)` (`Y_i` centred neighbourhood, `(k+1) × d`;
`r = len(S) = min(k+1, d)`), tests every offset row `z` of `Z_i` with
`Σ_{j<r} ((z·v_j)/σ_j)² ≤ 1`, and returns
`-log(max(1, #passing rows)) + Σ_{l < min(d, r)} log(σ_l/σ_0)` with the guards: the sum only if
`σ_0 > 1e-12`; a term is skipped if `σ_l ≤ 1e-12`; a term is `-12` if `σ_l/σ_0 ≤ 1e-12`.

* `matOf n d Y`: the `n × d` matrix of the list of rows `Y`; `svOf Y l = sv (matOf …) l`
  `= (Matrix.toEuclideanLin (matOf …)).singularValues l` — Mathlib's singular values: square roots of
  the eigenvalues of `Yᵀ Y`, descending, zero-indexed, `0` beyond the rank; these are NumPy's
  `S[l]` for `l < min(k+1, d)`.
* `singRatioSum`, `ratioTerm`: the guarded sum, literally (`min n d` terms).
* `inEll M z := det (MᵀM) ≠ 0 ∧ zᵀ (MᵀM)⁻¹ z ≤ 1`: the ellipsoid test, basis-free.
  `inEll_iff_svd_sum` (from the bridge lemmas `CE.Svd.qf_eq_sum_eigenbasis / _singular / _sv`)
  justifies it: if the Gram matrix `G = YᵀY` is invertible (this forces `k ≥ d`: a centred
  configuration has rank `≤ k`; then `r = d` and the SVD sum runs over a full basis), then for
  EVERY orthonormal basis `v_j` of right singular vectors (`G v_j = σ_j² v_j`, one exists:
  `CE.Svd.exists_right_singular_basis`) — whatever basis the SVD routine returns, also with repeated
  singular values — `Σ_j ((z·v_j)/σ_j)² = zᵀ G⁻¹ z`.
  If `G` is singular (always when `k < d`), some `σ_j` with `j < r` is `0` in exact arithmetic and
  the code divides by it (`inf`/`nan`, the comparison is `False`; in floating point: rounding
  noise); `inEll` is `False` there. The model is meant for — and only claimed faithful at —
  configurations with invertible Gram matrix; the invariance theorems need no such hypothesis
  (`det G` and `G⁻¹ = 0` transform consistently).
* `corrMath Y Z = logHyper + singRatioSum` of `matOf Y.length (dim Y) Y` and the rows of `Z`.

## Property theorems

* linear algebra (`CEProofs/C12SvdLemmas.lean`): `CE.Svd.singularValues_rot`, `sv_rot`
  (singular values of `Y Qᵀ` = those of `Y` for `QᵀQ = 1`), `singularValues_scale`, `sv_scale`
  (`σ_l(aY) = |a| σ_l(Y)`), `qf_rot`, `qf_scale` (the quadratic form of the test), the bridge lemmas.
* `corrMath_rot`: `corrMath (Y.map (rotOf Q)) (Z.map (rotOf Q)) = corrMath Y Z` for every orthogonal
  `Q` and every configuration of width `d` — unconditional.
* `corrMath_scale`: the same for `vscale a`, `a > 0`, provided no singular-value guard changes
  sides: `∀ l < min n d, (1e-12 < σ_l ↔ 1e-12 < a σ_l)` (the ratio guards cannot change sides: the
  ratios are invariant). Without this hypothesis the statement is FALSE: `corrMath_scale_needs_guard`.
* `rotOf_isRot`: `v ↦ Q v` is a rotation in the sense of `IsRot` of `C12.lean`.
* `geom_rotate_svd`, `geom_scale_svd`, and the combined `geom_laws_real`.
* Non-vacuity: `d = 2`, `k = 2`, `N = 4` (`X4`), the 3-4-5 rotation, every factor `a > 1e-12`. -/

set_option linter.unusedSectionVars false

namespace CE.Geom
open CE.Kde CE.Svd Matrix

/-! ### the correction of one local configuration, at matrix level -/

/-- `1e-12` -/
noncomputable def tinyR : ℝ := 1 / 10 ^ 12

section mat
variable {n d : ℕ}

/-- the ellipsoid test of one offset row `z` (`hyperellipsoid_check`), basis-free: the Gram matrix
`G = MᵀM` of the centred configuration is invertible and `zᵀ G⁻¹ z ≤ 1`. `inEll_iff_svd_sum`: for
invertible `G` this is the code's `Σ_j ((z·v_j)/σ_j)² ≤ 1`, whatever right singular basis `v_j` the
SVD returns. For singular `G` the code divides by a zero singular value (`nan`/`inf` compare
`False`; numerically: noise); the test is `False` here. -/
def inEll (M : Matrix (Fin n) (Fin d) ℝ) (z : Fin d → ℝ) : Prop :=
  (Mᵀ * M).det ≠ 0 ∧ qf (Mᵀ * M) z ≤ 1

open Classical in
/-- `hyperellipsoid_sum`: number of offset rows passing the test -/
noncomputable def ellCount (M : Matrix (Fin n) (Fin d) ℝ) (Z : List (Fin d → ℝ)) : ℕ :=
  Z.countP (fun z => decide (inEll M z))

/-- `log_hyper = -np.log(max(1, hyperellipsoid_sum))` -/
noncomputable def logHyper (M : Matrix (Fin n) (Fin d) ℝ) (Z : List (Fin d → ℝ)) : ℝ :=
  -Real.log (max 1 (ellCount M Z : ℝ))

/-- one term of `sing_ratio_sum`: skipped (`0`) if `σ_l ≤ 1e-12 · σ_0` (the rank decision is RELATIVE
to the largest singular value since the repair of the units-dependence defect, DESIGN A.3);
`log(σ_l/σ_0)` if the ratio is `> 1e-12`, else `-12.0` -/
noncomputable def ratioTerm (s0 sl : ℝ) : ℝ :=
  if tinyR * s0 < sl then (if tinyR < sl / s0 then Real.log (sl / s0) else -12) else 0

/-- the pre-fix term: an ABSOLUTE threshold `σ_l > 1e-12` (kept as the negative witness:
`ratioTermAbs_not_scale_invariant`) -/
noncomputable def ratioTermAbs (s0 sl : ℝ) : ℝ :=
  if tinyR < sl then (if tinyR < sl / s0 then Real.log (sl / s0) else -12) else 0

/-- one term is invariant under a common scaling of both singular values: no guard hypothesis -/
theorem ratioTerm_scale (a s0 sl : ℝ) (ha : 0 < a) : ratioTerm (a * s0) (a * sl) = ratioTerm s0 sl := by
  unfold ratioTerm
  have h : tinyR * (a * s0) < a * sl ↔ tinyR * s0 < sl := by
    rw [show tinyR * (a * s0) = a * (tinyR * s0) by ring]
    exact mul_lt_mul_iff_right₀ ha
  rw [mul_div_mul_left _ _ ha.ne']
  simp only [h]

/-- `sing_ratio_sum`: `0` unless `σ_0 > 1e-12`; then the sum over `l < min(d, len(S))`, where
`len(S) = min(n, d)` (`n = k+1` rows) -/
noncomputable def singRatioSum (M : Matrix (Fin n) (Fin d) ℝ) : ℝ :=
  if tinyR < sv M 0 then ∑ l ∈ Finset.range (min n d), ratioTerm (sv M 0) (sv M l) else 0

/-- `correction = log_hyper + sing_ratio_sum` -/
noncomputable def corrMat (M : Matrix (Fin n) (Fin d) ℝ) (Z : List (Fin d → ℝ)) : ℝ :=
  logHyper M Z + singRatioSum M

theorem inEll_rot (M : Matrix (Fin n) (Fin d) ℝ) (Q : Matrix (Fin d) (Fin d) ℝ) (hQ : Qᵀ * Q = 1)
    (z : Fin d → ℝ) : inEll (M * Qᵀ) (Q *ᵥ z) ↔ inEll M z := by
  unfold inEll
  rw [gram_rot, det_rot _ _ hQ, qf_rot _ _ hQ]

theorem inEll_scale (M : Matrix (Fin n) (Fin d) ℝ) (a : ℝ) (ha : a ≠ 0) (z : Fin d → ℝ) :
    inEll (a • M) (a • z) ↔ inEll M z := by
  unfold inEll
  rw [gram_scale, det_scale_ne_zero_iff _ _ ha, qf_scale _ _ ha]

theorem ellCount_rot (M : Matrix (Fin n) (Fin d) ℝ) (Q : Matrix (Fin d) (Fin d) ℝ)
    (hQ : Qᵀ * Q = 1) (Z : List (Fin d → ℝ)) :
    ellCount (M * Qᵀ) (Z.map (Q *ᵥ ·)) = ellCount M Z := by
  unfold ellCount
  rw [List.countP_map]
  apply List.countP_congr
  intro z _
  simp only [Function.comp, decide_eq_true_eq]
  exact inEll_rot M Q hQ z

theorem ellCount_scale (M : Matrix (Fin n) (Fin d) ℝ) (a : ℝ) (ha : a ≠ 0)
    (Z : List (Fin d → ℝ)) : ellCount (a • M) (Z.map (a • ·)) = ellCount M Z := by
  unfold ellCount
  rw [List.countP_map]
  apply List.countP_congr
  intro z _
  simp only [Function.comp, decide_eq_true_eq]
  exact inEll_scale M a ha z

/-- **corrMat_rot.** Rotating the rows of the configuration (`M ↦ M Qᵀ`, i.e. every row `y ↦ Q y`)
and the offset rows (`z ↦ Q z`) by an orthogonal `Q` leaves the correction unchanged. -/
theorem corrMat_rot (M : Matrix (Fin n) (Fin d) ℝ) (Q : Matrix (Fin d) (Fin d) ℝ)
    (hQ : Qᵀ * Q = 1) (Z : List (Fin d → ℝ)) :
    corrMat (M * Qᵀ) (Z.map (Q *ᵥ ·)) = corrMat M Z := by
  unfold corrMat logHyper singRatioSum
  rw [ellCount_rot M Q hQ, sv_rot M Q hQ]

/-- **corrMat_scale.** Scaling the configuration and the offsets by `a > 0` leaves the correction
unchanged, provided no singular-value guard changes sides (`hguard`). The ellipsoid count needs no
hypothesis; the ratio guards need none either (the ratios `σ_l/σ_0` are invariant). -/
theorem corrMat_scale_sigma0 (M : Matrix (Fin n) (Fin d) ℝ) (a : ℝ) (ha : 0 < a)
    (hguard : 0 < min n d → (tinyR < sv M 0 ↔ tinyR < a * sv M 0)) (Z : List (Fin d → ℝ)) :
    corrMat (a • M) (Z.map (a • ·)) = corrMat M Z := by
  unfold corrMat logHyper
  rw [ellCount_scale M a ha.ne']
  congr 1
  unfold singRatioSum
  have hsv : ∀ l, sv (a • M) l = a * sv M l := fun l => by rw [sv_scale, abs_of_pos ha]
  rcases Nat.eq_zero_or_pos (min n d) with h0 | hpos
  · simp [h0]
  · have hterm : ∀ l ∈ Finset.range (min n d),
        ratioTerm (sv (a • M) 0) (sv (a • M) l) = ratioTerm (sv M 0) (sv M l) := by
      intro l _
      rw [hsv, hsv, ratioTerm_scale _ _ _ ha]
    rw [Finset.sum_congr rfl hterm, hsv 0]
    simp only [← hguard hpos]

/-- (the statement with the guard hypothesis on every singular value, as before the repair; only the
one on `σ_0` is used any more: `corrMat_scale_sigma0`) -/
theorem corrMat_scale (M : Matrix (Fin n) (Fin d) ℝ) (a : ℝ) (ha : 0 < a)
    (hguard : ∀ l < min n d, (tinyR < sv M l ↔ tinyR < a * sv M l)) (Z : List (Fin d → ℝ)) :
    corrMat (a • M) (Z.map (a • ·)) = corrMat M Z :=
  corrMat_scale_sigma0 M a ha (fun hpos => hguard 0 hpos) Z

end mat

/-! ### from lists of rows to matrices -/

/-- the `n × d` real matrix of a list of rows (missing entries read as `0`) -/
def matOf (n d : ℕ) (Y : List (List ℝ)) : Matrix (Fin n) (Fin d) ℝ :=
  Matrix.of fun i j => (Y.getD i []).getD j 0

/-- a row as a vector of `ℝ^d` -/
def vecOf (d : ℕ) (z : List ℝ) : Fin d → ℝ := fun j => z.getD j 0

/-- the orthogonal map `v ↦ Q v` on rows -/
def rotOf {d : ℕ} (Q : Matrix (Fin d) (Fin d) ℝ) (v : List ℝ) : List ℝ :=
  List.ofFn (Q *ᵥ vecOf d v)

/-- the correction of a configuration of `n` rows of width `d` -/
noncomputable def corrND (n d : ℕ) (Y Z : List (List ℝ)) : ℝ :=
  corrMat (matOf n d Y) (Z.map (vecOf d))

/-- **the local ellipsoid correction** of `geometric_knn_entropy`, mathematically:
`Y` = centred neighbourhood (`k+1` rows), `Z` = neighbour offsets (`k` rows) -/
noncomputable def corrMath (Y Z : List (List ℝ)) : ℝ := corrND Y.length (dim Y) Y Z

/-- the singular values of a configuration -/
noncomputable def svOf (Y : List (List ℝ)) (l : ℕ) : ℝ := sv (matOf Y.length (dim Y) Y) l

theorem rotOf_length {d : ℕ} (Q : Matrix (Fin d) (Fin d) ℝ) (v : List ℝ) :
    (rotOf Q v).length = d := by simp [rotOf]

theorem vecOf_ofFn {d : ℕ} (f : Fin d → ℝ) : vecOf d (List.ofFn f) = f := by
  funext j
  simp [vecOf]

theorem vecOf_rotOf {d : ℕ} (Q : Matrix (Fin d) (Fin d) ℝ) (v : List ℝ) :
    vecOf d (rotOf Q v) = Q *ᵥ vecOf d v := vecOf_ofFn _

theorem vecOf_nil (d : ℕ) : vecOf d [] = 0 := by
  funext j; simp [vecOf]

theorem ofFn_vecOf {d : ℕ} (v : List ℝ) (hv : v.length = d) : List.ofFn (vecOf d v) = v := by
  apply List.ext_getElem
  · simp [hv]
  · intro i h1 h2
    simp [vecOf, h2]

theorem vecOf_vscale (d : ℕ) (a : ℝ) (v : List ℝ) : vecOf d (vscale a v) = a • vecOf d v := by
  funext j
  simp only [vecOf, getD_vscale, Pi.smul_apply, smul_eq_mul]

theorem getD_map_nil (f : List ℝ → List ℝ) (Y : List (List ℝ)) (i : ℕ) (d : ℕ)
    (hf : vecOf d (f []) = 0) :
    vecOf d ((Y.map f).getD i []) = vecOf d (f (Y.getD i [])) := by
  by_cases hi : i < Y.length
  · rw [List.getD_eq_getElem _ _ (by simpa using hi), List.getD_eq_getElem _ _ hi, List.getElem_map]
  · rw [List.getD_eq_default _ _ (by simpa using hi), List.getD_eq_default _ _ (by omega), hf,
      vecOf_nil]

theorem matOf_row (n d : ℕ) (Y : List (List ℝ)) (i : Fin n) :
    matOf n d Y i = vecOf d (Y.getD i []) := rfl

theorem matOf_rot (n : ℕ) {d : ℕ} (Q : Matrix (Fin d) (Fin d) ℝ) (Y : List (List ℝ)) :
    matOf n d (Y.map (rotOf Q)) = matOf n d Y * Qᵀ := by
  ext i j
  have h0 : vecOf d (rotOf Q []) = 0 := by rw [vecOf_rotOf, vecOf_nil, Matrix.mulVec_zero]
  have := congrFun (getD_map_nil (rotOf Q) Y i d h0) j
  rw [vecOf_rotOf] at this
  change vecOf d ((Y.map (rotOf Q)).getD i []) j = _
  rw [this, Matrix.mul_apply, Matrix.mulVec, dotProduct]
  apply Finset.sum_congr rfl
  intro k _
  rw [Matrix.transpose_apply, mul_comm]
  rfl

theorem matOf_scale (n d : ℕ) (a : ℝ) (Y : List (List ℝ)) :
    matOf n d (Y.map (vscale a)) = a • matOf n d Y := by
  ext i j
  have h0 : vecOf d (vscale a []) = 0 := by rw [vecOf_vscale, vecOf_nil, smul_zero]
  have := congrFun (getD_map_nil (vscale a) Y i d h0) j
  rw [vecOf_vscale] at this
  change vecOf d ((Y.map (vscale a)).getD i []) j = _
  rw [this]
  rfl

theorem corrND_rot (n : ℕ) {d : ℕ} (Q : Matrix (Fin d) (Fin d) ℝ) (hQ : Qᵀ * Q = 1)
    (Y Z : List (List ℝ)) : corrND n d (Y.map (rotOf Q)) (Z.map (rotOf Q)) = corrND n d Y Z := by
  unfold corrND
  rw [matOf_rot, List.map_map, ← corrMat_rot (matOf n d Y) Q hQ, List.map_map]
  congr 1
  apply List.map_congr_left
  intro z _
  exact vecOf_rotOf Q z

theorem corrND_scale (n d : ℕ) (a : ℝ) (ha : 0 < a) (Y Z : List (List ℝ))
    (hguard : ∀ l < min n d, (tinyR < sv (matOf n d Y) l ↔ tinyR < a * sv (matOf n d Y) l)) :
    corrND n d (Y.map (vscale a)) (Z.map (vscale a)) = corrND n d Y Z := by
  unfold corrND
  rw [matOf_scale, List.map_map, ← corrMat_scale (matOf n d Y) a ha hguard, List.map_map]
  congr 1
  apply List.map_congr_left
  intro z _
  exact vecOf_vscale d a z

theorem corrND_scale_sigma0 (n d : ℕ) (a : ℝ) (ha : 0 < a) (Y Z : List (List ℝ))
    (hguard : 0 < min n d → (tinyR < sv (matOf n d Y) 0 ↔ tinyR < a * sv (matOf n d Y) 0)) :
    corrND n d (Y.map (vscale a)) (Z.map (vscale a)) = corrND n d Y Z := by
  unfold corrND
  rw [matOf_scale, List.map_map, ← corrMat_scale_sigma0 (matOf n d Y) a ha hguard, List.map_map]
  congr 1
  apply List.map_congr_left
  intro z _
  exact vecOf_vscale d a z

theorem dim_map_vscale (a : ℝ) (Y : List (List ℝ)) : dim (Y.map (vscale a)) = dim Y := by
  cases Y with
  | nil => rfl
  | cons r Y => simp [dim, vscale]

theorem dim_map_rotOf {d : ℕ} (Q : Matrix (Fin d) (Fin d) ℝ) (Y : List (List ℝ))
    (hY : ∀ r ∈ Y, r.length = d) (hne : Y ≠ []) : dim (Y.map (rotOf Q)) = d ∧ dim Y = d := by
  obtain ⟨r, Y', rfl⟩ := List.exists_cons_of_ne_nil hne
  exact ⟨by simp [dim, rotOf_length], by simpa [dim] using hY r (by simp)⟩

/-- **corrMath_rot.** The mathematical correction is invariant under an orthogonal map of the local
configuration — no genericity or guard hypothesis. -/
theorem corrMath_rot {d : ℕ} (Q : Matrix (Fin d) (Fin d) ℝ) (hQ : Qᵀ * Q = 1)
    (Y Z : List (List ℝ)) (hY : ∀ r ∈ Y, r.length = d) :
    corrMath (Y.map (rotOf Q)) (Z.map (rotOf Q)) = corrMath Y Z := by
  unfold corrMath
  by_cases hne : Y = []
  · subst hne
    simp only [List.map_nil, List.length_nil]
    unfold corrND
    rw [List.map_map]
    congr 1
    apply List.map_congr_left
    intro z _
    funext j
    exact absurd j.2 (by simp [dim])
  · obtain ⟨h1, h2⟩ := dim_map_rotOf Q Y hY hne
    rw [List.length_map, h1, h2]
    exact corrND_rot _ Q hQ Y Z

/-- **corrMath_scale.** The mathematical correction is invariant under scaling the local
configuration by `a > 0`, provided no `1e-12` guard on a singular value changes sides:
`1e-12 < σ_l ↔ 1e-12 < a σ_l` for the `min n d` singular values the code looks at (weaker than "all
guards inactive": rank-deficient configurations, `σ_l = 0`, are allowed). The hypothesis cannot be
dropped: `corrMath_scale_needs_guard`. -/
theorem corrMath_scale (a : ℝ) (ha : 0 < a) (Y Z : List (List ℝ))
    (hguard : ∀ l < min Y.length (dim Y), (tinyR < svOf Y l ↔ tinyR < a * svOf Y l)) :
    corrMath (Y.map (vscale a)) (Z.map (vscale a)) = corrMath Y Z := by
  unfold corrMath
  rw [List.length_map, dim_map_vscale]
  exact corrND_scale _ _ a ha Y Z hguard

/-- **corrMath_scale_sigma0.** Since the rank decision on `σ_l` is relative to `σ_0` (repair of the
units-dependence defect), the scaling law of the correction needs the guard hypothesis for the LARGEST
singular value only (`σ_0 > 1e-12` is the code's test for "the neighbourhood is not a single point").
For the pre-fix absolute threshold this is false: `ratioTermAbs_not_scale_invariant`. -/
theorem corrMath_scale_sigma0 (a : ℝ) (ha : 0 < a) (Y Z : List (List ℝ))
    (hguard : 0 < min Y.length (dim Y) → (tinyR < svOf Y 0 ↔ tinyR < a * svOf Y 0)) :
    corrMath (Y.map (vscale a)) (Z.map (vscale a)) = corrMath Y Z := by
  unfold corrMath
  rw [List.length_map, dim_map_vscale]
  exact corrND_scale_sigma0 _ _ a ha Y Z hguard

/-- **ratioTermAbs_not_scale_invariant.** The pre-fix term (absolute threshold `σ_l > 1e-12`) is NOT
invariant under a common scaling: `σ_0 = 1`, `σ_l = 1e-12` is skipped (`0`), the same configuration
in units ten times smaller (`a = 10`) contributes `-12`. In floating point the role of `σ_l = 1e-12`
is played by the rounding noise `ε·‖Y‖` of a rank-deficient neighbourhood (`k < d`), which crosses
`1e-12` when the data have spread `≳ 1e3`: the failing input of DESIGN A.3. -/
theorem ratioTermAbs_not_scale_invariant :
    ∃ a s0 sl : ℝ, 0 < a ∧ ratioTermAbs (a * s0) (a * sl) ≠ ratioTermAbs s0 sl := by
  refine ⟨10, 1, tinyR, by norm_num, ?_⟩
  have h1 : ¬ tinyR < tinyR := lt_irrefl _
  have h2 : tinyR < 10 * tinyR := by unfold tinyR; norm_num
  have h3 : (10 * tinyR) / (10 * 1) = tinyR := by ring
  unfold ratioTermAbs
  rw [h3]
  simp [h1, h2]

/-- the singular values of a rotated configuration -/
theorem svOf_rot {d : ℕ} (Q : Matrix (Fin d) (Fin d) ℝ) (hQ : Qᵀ * Q = 1)
    (Y : List (List ℝ)) (hY : ∀ r ∈ Y, r.length = d) (hne : Y ≠ []) :
    svOf (Y.map (rotOf Q)) = svOf Y := by
  obtain ⟨h1, h2⟩ := dim_map_rotOf Q Y hY hne
  unfold svOf
  rw [List.length_map, h1, h2, matOf_rot, sv_rot _ _ hQ]

/-- the singular values of a scaled configuration -/
theorem svOf_scale (a : ℝ) (ha : 0 ≤ a) (Y : List (List ℝ)) (l : ℕ) :
    svOf (Y.map (vscale a)) l = a * svOf Y l := by
  unfold svOf
  rw [List.length_map, dim_map_vscale, matOf_scale, sv_scale, abs_of_nonneg ha]

/-! ### `rotOf Q` is a rotation in the sense of `IsRot` -/

theorem eq_of_vecOf {d : ℕ} (u v : List ℝ) (hu : u.length = d) (hv : v.length = d)
    (h : vecOf d u = vecOf d v) : u = v := by
  rw [← ofFn_vecOf u hu, ← ofFn_vecOf v hv, h]

theorem vecOf_vsub {d : ℕ} (x y : List ℝ) (hx : x.length = d) (hy : y.length = d) :
    vecOf d (vsub x y) = vecOf d x - vecOf d y := by
  funext j
  have h1 : (j : ℕ) < x.length := by rw [hx]; exact j.2
  have h2 : (j : ℕ) < y.length := by rw [hy]; exact j.2
  simp [vecOf, vsub, h1, h2]

theorem sqnorm_eq_dot {d : ℕ} (v : List ℝ) (hv : v.length = d) :
    sqnorm v = vecOf d v ⬝ᵥ vecOf d v := by
  unfold sqnorm
  rw [sumL_eq_sum]
  conv_lhs => rw [← ofFn_vecOf v hv]
  rw [List.map_ofFn, List.sum_ofFn]
  rfl

theorem sum_vecOf_apply (d : ℕ) (P : List (List ℝ)) (j : Fin d) :
    (P.map (vecOf d)).sum j = (P.map (fun r => r.getD j 0)).sum := by
  induction P with
  | nil => rfl
  | cons r P ih => simp only [List.map_cons, List.sum_cons, Pi.add_apply, ih]; rfl

theorem colMean_length (E : Env ℝ) (P : List (List ℝ)) : (colMean E P).length = dim P := by
  simp [colMean]

theorem vecOf_colMean (E : Env ℝ) (hcast : ∀ m, E.cast m = (m : ℝ)) {d : ℕ} (P : List (List ℝ))
    (hdim : dim P = d) : vecOf d (colMean E P) = (P.length : ℝ)⁻¹ • (P.map (vecOf d)).sum := by
  funext j
  have hj : (j : ℕ) < dim P := by rw [hdim]; exact j.2
  simp only [vecOf, colMean, Pi.smul_apply, smul_eq_mul, sum_vecOf_apply]
  rw [List.getD_eq_getElem _ _ (by simpa using hj)]
  simp only [List.getElem_map, List.getElem_range, hcast, sumL_eq_sum]
  rw [div_eq_inv_mul]

theorem sum_map_mulVec {d : ℕ} (Q : Matrix (Fin d) (Fin d) ℝ) (L : List (Fin d → ℝ)) :
    (L.map (Q *ᵥ ·)).sum = Q *ᵥ L.sum := by
  induction L with
  | nil => simp
  | cons v L ih => simp only [List.map_cons, List.sum_cons, ih, Matrix.mulVec_add]

/-- **rotOf_isRot.** For an orthogonal matrix `Q` (`Qᵀ Q = 1`) the row map `v ↦ Q v` is a rotation in
the sense of `IsRot` (linear on differences and column means, preserves sums of squares), for every
`Env ℝ` whose `cast` is the canonical embedding of ℕ. -/
theorem rotOf_isRot (E : Env ℝ) (hcast : ∀ m, E.cast m = (m : ℝ)) {d : ℕ}
    (Q : Matrix (Fin d) (Fin d) ℝ) (hQ : Qᵀ * Q = 1) : IsRot E d (rotOf Q) where
  sub := by
    intro x y hx hy
    apply eq_of_vecOf (d := d)
    · exact vsub_length _ _ d (rotOf_length Q x) (rotOf_length Q y)
    · exact rotOf_length Q _
    · rw [vecOf_vsub _ _ (rotOf_length Q x) (rotOf_length Q y), vecOf_rotOf, vecOf_rotOf, vecOf_rotOf,
        vecOf_vsub _ _ hx hy, Matrix.mulVec_sub]
  norm := by
    intro v hv
    rw [sqnorm_eq_dot _ (rotOf_length Q v), sqnorm_eq_dot _ hv, vecOf_rotOf, mulVec_dot,
      Matrix.mulVec_mulVec, hQ, Matrix.one_mulVec]
  mean := by
    intro P hP hw
    obtain ⟨r, P', rfl⟩ := List.exists_cons_of_ne_nil hP
    have hdim : dim (r :: P') = d := by simpa [dim] using hw r (by simp)
    have hdim' : dim ((r :: P').map (rotOf Q)) = d := by simp [dim, rotOf_length]
    apply eq_of_vecOf (d := d)
    · rw [colMean_length, hdim']
    · exact rotOf_length Q _
    · rw [vecOf_colMean E hcast _ hdim', vecOf_rotOf, vecOf_colMean E hcast _ hdim, List.length_map,
        List.map_map, Matrix.mulVec_smul, ← sum_map_mulVec, List.map_map]
      congr 3
      funext z
      exact vecOf_rotOf Q z

/-! ### the scaling law with a hypothesis on the local configurations of the sample only -/

section field
variable {α : Type} [Field α] [LinearOrder α] [IsStrictOrderedRing α]

/-- `entropy_scale` of `C12.lean` with `hcorr_scale` required only at the local configurations
`(Y_i, Z_i)` of the sample (the hypothesis over all `Y Z` is false for a correction with absolute
`1e-12` guards). -/
theorem entropy_scale_local (E : Env α) (a : α) (ha : 0 < a) (htiny : 0 ≤ E.tiny)
    (hsqrt : ∀ s, 0 ≤ s → E.sqrt (a * a * s) = a * E.sqrt s)
    (hlog : ∀ u v, 0 < u → 0 < v → E.log (u * v) = E.log u + E.log v)
    (F : α → α) (hF : ∀ u v, (F u ≤ F v ↔ u ≤ v))
    (logN logCd dOverN dA : α) (X Xdist : List (List α)) (k : ℕ)
    (hcorr_scale : ∀ i < X.length,
      E.corr ((centred E X i (knnIdx (Xdist.getD i []) k)).map (vscale a))
          ((offsets X i (knnIdx (Xdist.getD i []) k)).map (vscale a))
        = E.corr (centred E X i (knnIdx (Xdist.getD i []) k))
          (offsets X i (knnIdx (Xdist.getD i []) k)))
    (hd : dOverN * (X.length : α) = dA)
    (hg : ∀ i < X.length, E.tiny < rho E X k i (knnIdx (Xdist.getD i []) k))
    (hg' : ∀ i < X.length,
      E.tiny < rho E (scale a X) k i (knnIdx ((Xdist.map (·.map F)).getD i []) k)) :
    entropy E logN logCd dOverN (scale a X) (Xdist.map (·.map F)) k
      = entropy E logN logCd dOverN X Xdist k + dA * E.log a := by
  have hN : (scale a X).length = X.length := by simp [scale]
  simp only [knnIdx_map_rows F hF] at hg'
  simp only [entropy, hN, knnIdx_map_rows F hF]
  rw [rho_term_scale E a ha htiny hsqrt hlog X k (fun i => knnIdx (Xdist.getD i []) k) hg hg']
  have e2 : (List.range X.length).map
        (fun i => E.corr (centred E (scale a X) i (knnIdx (Xdist.getD i []) k))
          (offsets (scale a X) i (knnIdx (Xdist.getD i []) k)))
      = (List.range X.length).map
        (fun i => E.corr (centred E X i (knnIdx (Xdist.getD i []) k))
          (offsets X i (knnIdx (Xdist.getD i []) k))) :=
    List.map_congr_left (fun i hi => by
      rw [centred_scale, offsets_scale, hcorr_scale i (List.mem_range.mp hi)])
  rw [e2, ← hd]
  ring

/-- `geom_scale` with the local form of `hcorr_scale` -/
theorem geom_scale_local (E : Env α) (a : α) (ha : 0 < a) (htiny : 0 ≤ E.tiny)
    (hsqrt : ∀ s, 0 ≤ s → E.sqrt (a * a * s) = a * E.sqrt s)
    (hlog : ∀ u v, 0 < u → 0 < v → E.log (u * v) = E.log u + E.log v)
    (logN logCd dOverN dA : α) (X : List (List α)) (k : ℕ)
    (hcorr_scale : ∀ i < X.length,
      E.corr ((centred E X i (knnIdx ((sqKeys X).getD i []) k)).map (vscale a))
          ((offsets X i (knnIdx ((sqKeys X).getD i []) k)).map (vscale a))
        = E.corr (centred E X i (knnIdx ((sqKeys X).getD i []) k))
          (offsets X i (knnIdx ((sqKeys X).getD i []) k)))
    (hd : dOverN * (X.length : α) = dA)
    (hg : ∀ i < X.length, E.tiny < rho E X k i (knnIdx ((sqKeys X).getD i []) k))
    (hg' : ∀ i < X.length, E.tiny < a * rho E X k i (knnIdx ((sqKeys X).getD i []) k)) :
    entropyOf E logN logCd dOverN (scale a X) k
      = entropyOf E logN logCd dOverN X k + dA * E.log a := by
  have hF : ∀ u v : α, (a * a * u ≤ a * a * v ↔ u ≤ v) := fun u v =>
    ⟨fun h => le_of_mul_le_mul_left h (mul_pos ha ha),
     fun h => mul_le_mul_of_nonneg_left h (mul_pos ha ha).le⟩
  unfold entropyOf
  rw [sqKeys_scale]
  refine entropy_scale_local E a ha htiny hsqrt hlog (a * a * ·) hF logN logCd dOverN dA X _ k
    hcorr_scale hd hg ?_
  intro i hi
  rw [knnIdx_map_rows _ hF, rho_scale E a hsqrt]
  exact hg' i hi

end field

/-! ### the real instance -/

/-- the real-number environment of `geometric_knn_entropy`: real `log` and `sqrt`, the mathematical
SVD-based correction `corrMath`, the guard constants of the code -/
noncomputable def envSvd : Env ℝ :=
  { log := Real.log, sqrt := Real.sqrt, corr := corrMath, cast := Nat.cast,
    tiny := tinyR, logTiny := -12 }

theorem tinyR_pos : 0 < tinyR := by unfold tinyR; positivity

theorem centred_length (E : Env ℝ) (X : List (List ℝ)) (i : ℕ) (nbrs : List ℕ) :
    (centred E X i nbrs).length = nbrs.length + 1 := by simp [centred]

theorem knnIdx_length_le (keys : List ℝ) (k : ℕ) : (knnIdx keys k).length ≤ k := by
  unfold knnIdx; exact List.length_take_le _ _

theorem dim_centred_le (E : Env ℝ) {d : ℕ} (X : List (List ℝ)) (hw : ∀ r ∈ X, r.length = d)
    (i : ℕ) (nbrs : List ℕ) : dim (centred E X i nbrs) ≤ d := by
  simp only [centred, dim, List.map_cons, List.headD_cons, vsub, List.length_zipWith]
  exact le_trans (Nat.min_le_left _ _) (row_length_le hw i)

/-- **geom_rotate_svd.** Rotation law for the real instance, for every sample matrix of row width
`d`, every `k`, every orthogonal `Q`: no hypothesis about the correction, the guards, ties or
generic position. -/
theorem geom_rotate_svd {d : ℕ} (Q : Matrix (Fin d) (Fin d) ℝ) (hQ : Qᵀ * Q = 1)
    (logN logCd dOverN : ℝ) (X : List (List ℝ)) (k : ℕ) (hw : ∀ r ∈ X, r.length = d) :
    entropyOf envSvd logN logCd dOverN (X.map (rotOf Q)) k
      = entropyOf envSvd logN logCd dOverN X k :=
  geom_rotate envSvd d (rotOf Q) (rotOf_isRot envSvd (fun _ => rfl) Q hQ)
    (fun Y Z hY _ => corrMath_rot Q hQ Y Z hY) logN logCd dOverN X k hw

/-- **geom_scale_svd.** Scaling law for the real instance: `H(aX) = H(X) + d · log a` (`d` enters
through the caller's `dOverN · N = dA`), for `a > 0`, under guard conditions on the sample only:
`hg`, `hg'` — the distance guards are inactive on both samples (`ρ_i > 1e-12`, `a ρ_i > 1e-12`);
`hsv` — for every local configuration `Y_i` no singular-value guard changes sides. -/
theorem geom_scale_svd (a : ℝ) (ha : 0 < a) (logN logCd dOverN dA : ℝ) (X : List (List ℝ))
    (k d : ℕ) (hw : ∀ r ∈ X, r.length = d) (hd : dOverN * (X.length : ℝ) = dA)
    (hg : ∀ i < X.length, tinyR < rho envSvd X k i (knnIdx ((sqKeys X).getD i []) k))
    (hg' : ∀ i < X.length, tinyR < a * rho envSvd X k i (knnIdx ((sqKeys X).getD i []) k))
    (hsv : ∀ i < X.length, ∀ l < min (k + 1) d,
      (tinyR < svOf (centred envSvd X i (knnIdx ((sqKeys X).getD i []) k)) l
        ↔ tinyR < a * svOf (centred envSvd X i (knnIdx ((sqKeys X).getD i []) k)) l)) :
    entropyOf envSvd logN logCd dOverN (scale a X) k
      = entropyOf envSvd logN logCd dOverN X k + dA * Real.log a := by
  refine geom_scale_local envSvd a ha tinyR_pos.le (hsqrt_real a ha.le) hlog_real logN logCd dOverN
    dA X k ?_ hd hg hg'
  intro i hi
  apply corrMath_scale a ha
  intro l hl
  apply hsv i hi
  have h1 := centred_length envSvd X i (knnIdx ((sqKeys X).getD i []) k)
  have h2 := knnIdx_length_le ((sqKeys X).getD i []) k
  have h3 := dim_centred_le envSvd X hw i (knnIdx ((sqKeys X).getD i []) k)
  omega

/-- **geom_scale_svd_sigma0.** The scaling law with the guard hypothesis on the LARGEST singular value
of every local configuration only (`hsv0`) -- what is left of `hsv` after the repair that made the
rank decision relative. In particular rank-deficient neighbourhoods (`k < d`, `σ_l = 0`) and data in
any units satisfy it as soon as `σ_0(Y_i)` and `a σ_0(Y_i)` exceed `1e-12`. -/
theorem geom_scale_svd_sigma0 (a : ℝ) (ha : 0 < a) (logN logCd dOverN dA : ℝ) (X : List (List ℝ))
    (k d : ℕ) (hw : ∀ r ∈ X, r.length = d) (hd : dOverN * (X.length : ℝ) = dA)
    (hg : ∀ i < X.length, tinyR < rho envSvd X k i (knnIdx ((sqKeys X).getD i []) k))
    (hg' : ∀ i < X.length, tinyR < a * rho envSvd X k i (knnIdx ((sqKeys X).getD i []) k))
    (hsv0 : ∀ i < X.length,
      (tinyR < svOf (centred envSvd X i (knnIdx ((sqKeys X).getD i []) k)) 0
        ↔ tinyR < a * svOf (centred envSvd X i (knnIdx ((sqKeys X).getD i []) k)) 0)) :
    entropyOf envSvd logN logCd dOverN (scale a X) k
      = entropyOf envSvd logN logCd dOverN X k + dA * Real.log a := by
  refine geom_scale_local envSvd a ha tinyR_pos.le (hsqrt_real a ha.le) hlog_real logN logCd dOverN
    dA X k ?_ hd hg hg'
  intro i hi
  exact corrMath_scale_sigma0 a ha _ _ (fun _ => hsv0 i hi)

/-- **geom_laws_real.** The four transformation laws of C12 for the real instance `envSvd` of the
model (real `log`, `sqrt`; mathematical SVD correction `corrMath`; the code's guard constants), for
a sample matrix `X` of row width `d`. Compared with `geom_laws_partial` the hypotheses
`hcorr_scale`, `hcorr_rot`, `hsqrt`, `hlog`, `hcast`, `0 ≤ tiny` are gone:
* translation, sample order: as before (unconditional / tie-free sample and `1 ≤ k < N`);
* orthogonal maps: every `Q` with `QᵀQ = 1` — unconditional;
* scaling by `a > 0`: distance guards inactive on both samples, and no singular-value guard of a
  local configuration changes sides (`1e-12 < σ_l(Y_i) ↔ 1e-12 < a σ_l(Y_i)`, `l < min(k+1, d)`);
  in particular it holds when all guards are inactive on both samples.
What is modelled, not proved: that LAPACK's floating-point SVD computes the mathematical singular
values and a right singular basis (then `inEll_iff_svd_sum` identifies the code's test with `inEll`
at configurations with invertible Gram matrix). -/
theorem geom_laws_real (logN logCd dOverN dA : ℝ) (X : List (List ℝ)) (k d : ℕ)
    (hw : ∀ r ∈ X, r.length = d) (hd : dOverN * (X.length : ℝ) = dA) :
    -- translation
    (∀ t : List ℝ, t.length = d →
      entropyOf envSvd logN logCd dOverN (translate X t) k = entropyOf envSvd logN logCd dOverN X k)
    -- sample order
    ∧ ((∀ r ∈ sqKeys X, r.Nodup) → 1 ≤ k → k < X.length →
        ∀ idx : List ℕ, idx.Perm (List.range X.length) →
        entropyOf envSvd logN logCd dOverN (idx.map (row X)) k
          = entropyOf envSvd logN logCd dOverN X k)
    -- scaling by a > 0
    ∧ (∀ a : ℝ, 0 < a →
        (∀ i < X.length, tinyR < rho envSvd X k i (knnIdx ((sqKeys X).getD i []) k)
          ∧ tinyR < a * rho envSvd X k i (knnIdx ((sqKeys X).getD i []) k)) →
        (∀ i < X.length, ∀ l < min (k + 1) d,
          (tinyR < svOf (centred envSvd X i (knnIdx ((sqKeys X).getD i []) k)) l
            ↔ tinyR < a * svOf (centred envSvd X i (knnIdx ((sqKeys X).getD i []) k)) l)) →
        entropyOf envSvd logN logCd dOverN (scale a X) k
          = entropyOf envSvd logN logCd dOverN X k + dA * Real.log a)
    -- orthogonal maps
    ∧ (∀ Q : Matrix (Fin d) (Fin d) ℝ, Qᵀ * Q = 1 →
        entropyOf envSvd logN logCd dOverN (X.map (rotOf Q)) k
          = entropyOf envSvd logN logCd dOverN X k) := by
  obtain ⟨h1, h2, -, -⟩ := geom_laws_partial envSvd (fun _ => rfl) logN logCd dOverN dA X k d hw hd
  refine ⟨h1, h2, ?_, ?_⟩
  · intro a ha hg hsv
    exact geom_scale_svd a ha logN logCd dOverN dA X k d hw hd (fun i hi => (hg i hi).1)
      (fun i hi => (hg i hi).2) hsv
  · intro Q hQ
    exact geom_rotate_svd Q hQ logN logCd dOverN X k hw

/-- **geom_laws_real_sigma0.** The four laws for the repaired code (rank decision relative to `σ_0`):
as `geom_laws_real`, but the scaling law needs, besides the two distance guards, only that the test
`σ_0(Y_i) > 1e-12` ("the neighbourhood is not a single point") is decided alike on both samples —
no condition on the other singular values: rank-deficient neighbourhoods (`k < d`) and data in any
units are covered. -/
theorem geom_laws_real_sigma0 (logN logCd dOverN dA : ℝ) (X : List (List ℝ)) (k d : ℕ)
    (hw : ∀ r ∈ X, r.length = d) (hd : dOverN * (X.length : ℝ) = dA) :
    (∀ t : List ℝ, t.length = d →
      entropyOf envSvd logN logCd dOverN (translate X t) k = entropyOf envSvd logN logCd dOverN X k)
    ∧ ((∀ r ∈ sqKeys X, r.Nodup) → 1 ≤ k → k < X.length →
        ∀ idx : List ℕ, idx.Perm (List.range X.length) →
        entropyOf envSvd logN logCd dOverN (idx.map (row X)) k
          = entropyOf envSvd logN logCd dOverN X k)
    ∧ (∀ a : ℝ, 0 < a →
        (∀ i < X.length, tinyR < rho envSvd X k i (knnIdx ((sqKeys X).getD i []) k)
          ∧ tinyR < a * rho envSvd X k i (knnIdx ((sqKeys X).getD i []) k)) →
        (∀ i < X.length,
          (tinyR < svOf (centred envSvd X i (knnIdx ((sqKeys X).getD i []) k)) 0
            ↔ tinyR < a * svOf (centred envSvd X i (knnIdx ((sqKeys X).getD i []) k)) 0)) →
        entropyOf envSvd logN logCd dOverN (scale a X) k
          = entropyOf envSvd logN logCd dOverN X k + dA * Real.log a)
    ∧ (∀ Q : Matrix (Fin d) (Fin d) ℝ, Qᵀ * Q = 1 →
        entropyOf envSvd logN logCd dOverN (X.map (rotOf Q)) k
          = entropyOf envSvd logN logCd dOverN X k) := by
  obtain ⟨h1, h2, -, h4⟩ := geom_laws_real logN logCd dOverN dA X k d hw hd
  refine ⟨h1, h2, ?_, h4⟩
  intro a ha hg hsv0
  exact geom_scale_svd_sigma0 a ha logN logCd dOverN dA X k d hw hd (fun i hi => (hg i hi).1)
    (fun i hi => (hg i hi).2) hsv0

/-! ### how `corrMath` relates to the code -/

/-- **Faithfulness of the ellipsoid test.** If the Gram matrix of the configuration is invertible,
then for EVERY orthonormal basis `b` of right singular vectors (`MᵀM b_j = σ_j² b_j` with Mathlib's
sorted singular values `σ_j = sv M j`; one exists: `CE.Svd.exists_right_singular_basis`) the model's
test `inEll M z` is the code's test `Σ_j ((z·b_j)/σ_j)² ≤ 1`. -/
theorem inEll_iff_svd_sum {n d : ℕ} (M : Matrix (Fin n) (Fin d) ℝ) (hdet : (Mᵀ * M).det ≠ 0)
    (b : OrthonormalBasis (Fin d) ℝ (EuclideanSpace ℝ (Fin d)))
    (hb : ∀ j : Fin d, (Mᵀ * M) *ᵥ WithLp.ofLp (b j) = (sv M j ^ 2) • WithLp.ofLp (b j))
    (z : Fin d → ℝ) :
    inEll M z ↔ ∑ j : Fin d, ((z ⬝ᵥ WithLp.ofLp (b j)) / sv M j) ^ 2 ≤ 1 := by
  unfold inEll
  rw [qf_eq_sum_sv M hdet b hb z]
  exact and_iff_right hdet

/-- a quantitative generic-position bound `c ≤ σ_l` with `c > 1e-12`, `a c > 1e-12` gives the guard
condition of the scaling law -/
theorem svOf_guard_of_le (Y : List (List ℝ)) (a c : ℝ) (ha : 0 < a) (hc : tinyR < c)
    (hac : tinyR < a * c) (l : ℕ) (h : c ≤ svOf Y l) :
    (tinyR < svOf Y l ↔ tinyR < a * svOf Y l) :=
  ⟨fun _ => lt_of_lt_of_le hac (mul_le_mul_of_nonneg_left h ha.le), fun _ => lt_of_lt_of_le hc h⟩

/-! ### the guard hypothesis of the scaling law cannot be dropped -/

/-- **corrMath_scale_needs_guard.** The guard hypothesis of `corrMath_scale` cannot be dropped: the
configuration with rows `(1, 0)`, `(0, 1/2)` (singular values `1, 1/2`; correction `log(1/2)`) scaled
by `a = 1e-12` has `σ_0 = 1e-12`, which fails the test `σ_0 > 1e-12`: the correction becomes `0`.
So the hypothesis `hcorr_scale` of `geom_laws_partial` (over ALL `Y Z`) is false for `corrMath`. -/
theorem corrMath_scale_needs_guard :
    ∃ (a : ℝ) (Y Z : List (List ℝ)), 0 < a
      ∧ corrMath (Y.map (vscale a)) (Z.map (vscale a)) ≠ corrMath Y Z := by
  refine ⟨tinyR, [[1, 0], [0, 1 / 2]], [], tinyR_pos, ?_⟩
  have hM : matOf 2 2 [[1, 0], [0, 1 / 2]] = Matrix.diagonal ![1, 1 / 2] := by
    ext i j
    fin_cases i <;> fin_cases j <;> simp [matOf]
  have hanti : Antitone (![1, 1 / 2] : Fin 2 → ℝ) := by
    intro i j hij
    fin_cases i <;> fin_cases j <;> first | (exfalso; revert hij; decide) | norm_num
  have hnn : ∀ i, 0 ≤ (![1, 1 / 2] : Fin 2 → ℝ) i := by
    intro i; fin_cases i <;> simp
  have s0 : sv (matOf 2 2 [[1, 0], [0, 1 / 2]]) 0 = 1 := by
    rw [hM]; simpa using sv_diagonal _ hanti hnn 0
  have s1 : sv (matOf 2 2 [[1, 0], [0, 1 / 2]]) 1 = 1 / 2 := by
    rw [hM]; simpa using sv_diagonal _ hanti hnn 1
  have h1 : tinyR < 1 := by unfold tinyR; norm_num
  have h2 : tinyR < 2⁻¹ := by unfold tinyR; norm_num
  have e1 : corrMath [[1, 0], [0, 1 / 2]] [] = Real.log (1 / 2) := by
    change corrMat (matOf 2 2 [[1, 0], [0, 1 / 2]]) [] = _
    generalize matOf 2 2 [[1, 0], [0, 1 / 2]] = M at s0 s1
    simp [corrMat, logHyper, ellCount, singRatioSum, ratioTerm, s0, s1, h1, h2,
      Finset.sum_range_succ]
  have e2 : corrMath (([[1, 0], [0, 1 / 2]] : List (List ℝ)).map (vscale tinyR))
      (([] : List (List ℝ)).map (vscale tinyR)) = 0 := by
    change corrMat (matOf 2 2 (([[1, 0], [0, 1 / 2]] : List (List ℝ)).map (vscale tinyR))) [] = _
    rw [matOf_scale]
    generalize matOf 2 2 [[1, 0], [0, 1 / 2]] = M at s0 s1
    simp [corrMat, logHyper, ellCount, singRatioSum, sv_scale, s0, abs_of_pos tinyR_pos]
  rw [e1, e2]
  have : Real.log (1 / 2) < 0 := Real.log_neg (by norm_num) (by norm_num)
  exact fun h => absurd h.symm this.ne

/-! ### the hypotheses are satisfiable: `d = 2`, `k = 2`, `N = 4` -/

section examples

/-- the rotation of ℝ² by the angle of the 3-4-5 triangle -/
noncomputable def Q345 : Matrix (Fin 2) (Fin 2) ℝ := !![3/5, -4/5; 4/5, 3/5]

theorem Q345_orth : Q345ᵀ * Q345 = 1 := by
  ext i j
  fin_cases i <;> fin_cases j <;> norm_num [Q345, Matrix.mul_apply, Fin.sum_univ_two]

/-- the sample of the examples: 4 points of ℝ² (3 × the sample of `C12.lean`) -/
noncomputable def X4 : List (List ℝ) := [[0, 3], [9, 3], [3, 15], [21, 6]]

theorem X4_width : ∀ r ∈ X4, r.length = 2 := by simp [X4]

example : X4.map (rotOf Q345) = [[-12/5, 9/5], [3, 9], [-51/5, 57/5], [39/5, 102/5]] := by
  simp only [X4, rotOf, List.map_cons, List.map_nil, List.ofFn_succ, List.ofFn_zero]
  norm_num [Q345, vecOf, Matrix.mulVec, dotProduct, Fin.sum_univ_two]

/-- rotation law, `d = 2`, `k = 2`, `N = 4` -/
example : entropyOf envSvd (Real.log 4) (Real.log Real.pi) (2 / 4) (X4.map (rotOf Q345)) 2
    = entropyOf envSvd (Real.log 4) (Real.log Real.pi) (2 / 4) X4 2 :=
  geom_rotate_svd Q345 Q345_orth _ _ _ X4 2 X4_width

theorem X4_keys : sqKeys X4
    = [[0, 81, 153, 450], [81, 0, 180, 153], [153, 180, 0, 405], [450, 153, 405, 0]] := by
  norm_num [X4, sqKeys, sqdist, sumL]

theorem X4_nb0 : knnIdx ([0, 81, 153, 450] : List ℝ) 2 = [1, 2] := by
  rw [knnIdx_eq_of_sorted _ [0, 1, 2, 3] (by decide) (by norm_num)]; rfl
theorem X4_nb1 : knnIdx ([81, 0, 180, 153] : List ℝ) 2 = [0, 3] := by
  rw [knnIdx_eq_of_sorted _ [1, 0, 3, 2] (by decide) (by norm_num)]; rfl
theorem X4_nb2 : knnIdx ([153, 180, 0, 405] : List ℝ) 2 = [0, 1] := by
  rw [knnIdx_eq_of_sorted _ [2, 0, 1, 3] (by decide) (by norm_num)]; rfl
theorem X4_nb3 : knnIdx ([450, 153, 405, 0] : List ℝ) 2 = [1, 2] := by
  rw [knnIdx_eq_of_sorted _ [3, 1, 2, 0] (by decide) (by norm_num)]; rfl

/-- the four centred local configurations `Y_i` -/
theorem X4_Y0 : centred envSvd X4 0 [1, 2] = [[-4, -4], [5, -4], [-1, 8]] := by
  norm_num [centred, colMean, row, dim, sumL, vsub, envSvd, X4, List.range_succ]

theorem X4_Y1 : centred envSvd X4 1 [0, 3] = [[-1, -1], [-10, -1], [11, 2]] := by
  norm_num [centred, colMean, row, dim, sumL, vsub, envSvd, X4, List.range_succ]
theorem X4_Y2 : centred envSvd X4 2 [0, 1] = [[-1, 8], [-4, -4], [5, -4]] := by
  norm_num [centred, colMean, row, dim, sumL, vsub, envSvd, X4, List.range_succ]
theorem X4_Y3 : centred envSvd X4 3 [1, 2] = [[10, -2], [-2, -5], [-8, 7]] := by
  norm_num [centred, colMean, row, dim, sumL, vsub, envSvd, X4, List.range_succ]

/-- generic position, quantitatively: every singular value of a `3 × 2` configuration whose rows
`(p, q)` satisfy `Σ (p x + q y)² ≥ x² + y²` is at least `1` -/
theorem svOf_three_ge_one (p0 q0 p1 q1 p2 q2 : ℝ)
    (h : ∀ x y : ℝ, x ^ 2 + y ^ 2 ≤ (p0 * x + q0 * y) ^ 2 + (p1 * x + q1 * y) ^ 2
      + (p2 * x + q2 * y) ^ 2) (l : ℕ) (hl : l < 2) :
    1 ≤ svOf [[p0, q0], [p1, q1], [p2, q2]] l := by
  have hM : matOf 3 2 [[p0, q0], [p1, q1], [p2, q2]] = !![p0, q0; p1, q1; p2, q2] := by
    ext i j
    fin_cases i <;> fin_cases j <;> rfl
  change 1 ≤ sv (matOf 3 2 [[p0, q0], [p1, q1], [p2, q2]]) l
  rw [hM]
  apply le_sv_of_forall _ 1 zero_le_one _ hl
  intro v
  have := h (v 0) (v 1)
  simp [dotProduct, Matrix.mulVec, Fin.sum_univ_succ] at this ⊢
  nlinarith [this]

theorem X4_rho_ge_one : ∀ i < X4.length,
    1 ≤ rho envSvd X4 2 i (knnIdx ((sqKeys X4).getD i []) 2) := by
  intro i hi
  rw [X4_keys]
  have hi' : i = 0 ∨ i = 1 ∨ i = 2 ∨ i = 3 := by
    have : i < 4 := hi
    omega
  have hs : ∀ x : ℝ, 1 ≤ x → 1 ≤ envSvd.sqrt x := fun x hx => by
    exact Real.le_sqrt_of_sq_le (by simpa using hx)
  rcases hi' with rfl | rfl | rfl | rfl
  · simp only [List.getD_cons_zero, X4_nb0]
    unfold rho; apply hs; norm_num [row, sqdist, sumL, X4]
  · simp only [List.getD_cons_succ, List.getD_cons_zero, X4_nb1]
    unfold rho; apply hs; norm_num [row, sqdist, sumL, X4]
  · simp only [List.getD_cons_succ, List.getD_cons_zero, X4_nb2]
    unfold rho; apply hs; norm_num [row, sqdist, sumL, X4]
  · simp only [List.getD_cons_succ, List.getD_cons_zero, X4_nb3]
    unfold rho; apply hs; norm_num [row, sqdist, sumL, X4]

theorem X4_sv_ge_one : ∀ i < X4.length, ∀ l < 2,
    1 ≤ svOf (centred envSvd X4 i (knnIdx ((sqKeys X4).getD i []) 2)) l := by
  intro i hi l hl
  rw [X4_keys]
  have hi' : i = 0 ∨ i = 1 ∨ i = 2 ∨ i = 3 := by
    have : i < 4 := hi
    omega
  rcases hi' with rfl | rfl | rfl | rfl
  · simp only [List.getD_cons_zero, X4_nb0, X4_Y0]
    exact svOf_three_ge_one _ _ _ _ _ _ (fun x y => by nlinarith [sq_nonneg (x - y)]) l hl
  · simp only [List.getD_cons_succ, List.getD_cons_zero, X4_nb1, X4_Y1]
    exact svOf_three_ge_one _ _ _ _ _ _ (fun x y => by nlinarith [sq_nonneg (5 * y + 33 * x)]) l hl
  · simp only [List.getD_cons_succ, List.getD_cons_zero, X4_nb2, X4_Y2]
    exact svOf_three_ge_one _ _ _ _ _ _ (fun x y => by nlinarith [sq_nonneg (x - y)]) l hl
  · simp only [List.getD_cons_succ, List.getD_cons_zero, X4_nb3, X4_Y3]
    exact svOf_three_ge_one _ _ _ _ _ _ (fun x y => by nlinarith [sq_nonneg (7 * y - 6 * x)]) l hl

/-- scaling law, `d = 2`, `k = 2`, `N = 4`, every factor `a > 1e-12` (in particular the range
`[0.1, 10]` of C12): `H(aX) = H(X) + 2 · log a` -/
example (a : ℝ) (ha : tinyR < a) :
    entropyOf envSvd (Real.log 4) (Real.log Real.pi) (2 / 4) (scale a X4) 2
      = entropyOf envSvd (Real.log 4) (Real.log Real.pi) (2 / 4) X4 2 + 2 * Real.log a := by
  have ha0 : 0 < a := lt_trans tinyR_pos ha
  have h1 : tinyR < 1 := by unfold tinyR; norm_num
  apply geom_scale_svd a ha0 _ _ _ _ X4 2 2 X4_width (by norm_num [X4])
  · intro i hi
    exact lt_of_lt_of_le h1 (X4_rho_ge_one i hi)
  · intro i hi
    have := X4_rho_ge_one i hi
    nlinarith
  · intro i hi l hl
    exact svOf_guard_of_le _ a 1 ha0 h1 (by simpa using ha) l (X4_sv_ge_one i hi l (by omega))

/-- the offsets `Z_0` of sample 0 -/
example : offsets X4 0 [1, 2] = [[9, 0], [3, 12]] := by
  norm_num [offsets, row, vsub, X4]

/-- `corrMath_rot` at the local configuration `(Y_0, Z_0)` of `X4` -/
example : corrMath (([[-4, -4], [5, -4], [-1, 8]] : List (List ℝ)).map (rotOf Q345))
      (([[9, 0], [3, 12]] : List (List ℝ)).map (rotOf Q345))
    = corrMath [[-4, -4], [5, -4], [-1, 8]] [[9, 0], [3, 12]] :=
  corrMath_rot Q345 Q345_orth _ _ (by simp)

/-- `corrMath_scale` there, for every factor `a > 1e-12` -/
example (a : ℝ) (ha : tinyR < a) :
    corrMath (([[-4, -4], [5, -4], [-1, 8]] : List (List ℝ)).map (vscale a))
      (([[9, 0], [3, 12]] : List (List ℝ)).map (vscale a))
    = corrMath [[-4, -4], [5, -4], [-1, 8]] [[9, 0], [3, 12]] :=
  corrMath_scale a (lt_trans tinyR_pos ha) _ _ (fun l hl =>
    svOf_guard_of_le _ a 1 (lt_trans tinyR_pos ha) (by unfold tinyR; norm_num) (by simpa using ha) l
      (svOf_three_ge_one _ _ _ _ _ _ (fun x y => by nlinarith [sq_nonneg (x - y)]) l
        (by simp [dim] at hl; omega)))

/-- generic position of `Y_0`: its Gram matrix `[[42, -12], [-12, 96]]` has determinant `3888`, so
`inEll_iff_svd_sum` applies: the model's ellipsoid test is the SVD sum of the code -/
example : ((matOf 3 2 [[-4, -4], [5, -4], [-1, 8]])ᵀ * matOf 3 2 [[-4, -4], [5, -4], [-1, 8]]).det
    = 3888 := by
  rw [Matrix.det_fin_two]
  norm_num [Matrix.mul_apply, Fin.sum_univ_three, matOf]

end examples
end CE.Geom
