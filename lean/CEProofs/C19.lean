import CEModel.Synthetic
import Mathlib.Algebra.Order.Field.Basic
import Mathlib.Data.Rat.Defs
import Mathlib.Tactic.Linarith
import Mathlib.Tactic.Positivity
import Mathlib.Tactic.Ring
import Mathlib.Tactic.FieldSimp
import Mathlib.Tactic.NormNum

/-! # C19 — the coupled logistic-map network stays inside the unit interval

All statements are about `CE.Syn.logistic`, `stepRow`, `step`, `orbit`, `rowNormalise`, the
executable model (over core `Rat` = ℚ) that the correspondence check compares with
`logisic_dynamics` of `datasets/synthetic.py`. `M` is the matrix the update really uses
(`L = I − M`); after the repair it is the row-normalised adjacency matrix.

No shape hypothesis is needed for the range statements: `dot` truncates to the shorter
argument and `List.zip` to the shorter list, so rows of `M` may have any length and `M` may
have any number of rows. Only the length statement needs `M.length = x.length`. -/
namespace CE.Syn

/-- every entry of the vector lies in `[0, 1]` -/
def InUnit (x : Vec) : Prop := ∀ b ∈ x, 0 ≤ b ∧ b ≤ 1

/-- every entry of the matrix is non-negative -/
def NonnegMat (M : Mat) : Prop := ∀ row ∈ M, ∀ a ∈ row, 0 ≤ a

/-- every row sums to at most 1 (a sub-stochastic matrix, together with `NonnegMat`) -/
def RowsLeOne (M : Mat) : Prop := ∀ row ∈ M, total row ≤ 1

/-! ## one component -/

/-- `0 ≤ r ≤ 4`, `x ∈ [0,1]` ⇒ `r x (1 − x) ∈ [0,1]`. -/
theorem logistic_mem (r x : ℚ) (hr0 : 0 ≤ r) (hr4 : r ≤ 4) (hx0 : 0 ≤ x) (hx1 : x ≤ 1) :
    0 ≤ logistic r x ∧ logistic r x ≤ 1 := by
  unfold logistic
  have h1x : 0 ≤ 1 - x := by linarith
  have h1 : 0 ≤ x * (1 - x) := mul_nonneg hx0 h1x
  have h2 : x * (1 - x) ≤ 1 / 4 := by nlinarith [sq_nonneg (x - 1 / 2)]
  constructor
  · have := mul_nonneg hr0 h1
    calc (0 : ℚ) ≤ r * (x * (1 - x)) := this
      _ = r * x * (1 - x) := by ring
  · have h3 : r * (x * (1 - x)) ≤ 4 * (x * (1 - x)) := mul_le_mul_of_nonneg_right hr4 h1
    calc r * x * (1 - x) = r * (x * (1 - x)) := by ring
      _ ≤ 4 * (x * (1 - x)) := h3
      _ ≤ 1 := by linarith

example : 0 ≤ logistic 4 (1 / 2) ∧ logistic 4 (1 / 2) ≤ 1 :=
  logistic_mem 4 (1 / 2) (by norm_num) (by norm_num) (by norm_num) (by norm_num)

theorem total_nonneg : ∀ (m : Vec), (∀ a ∈ m, 0 ≤ a) → 0 ≤ total m := by
  intro m
  induction m with
  | nil => intro _; simp [total]
  | cons a as ih =>
    intro hm
    have ha := hm a (by simp)
    have := ih (fun x hx => hm x (by simp [hx]))
    simp only [total]
    linarith

/-- `0 ≤ Σ_j m_j f_j ≤ Σ_j m_j` for `m ≥ 0` and `f ∈ [0,1]ⁿ` (any lengths). -/
theorem dot_bounds : ∀ (m f : Vec), (∀ a ∈ m, 0 ≤ a) → InUnit f →
    0 ≤ dot m f ∧ dot m f ≤ total m := by
  intro m
  induction m with
  | nil => intro f _ _; simp [dot, total]
  | cons a as ih =>
    intro f hm hf
    cases f with
    | nil =>
      simp only [dot]
      exact ⟨le_refl _, total_nonneg _ hm⟩
    | cons b bs =>
      have ha := hm a (by simp)
      have hb := hf b (by simp)
      obtain ⟨h1, h2⟩ := ih bs (fun x hx => hm x (by simp [hx])) (fun x hx => hf x (by simp [hx]))
      simp only [dot, total]
      constructor
      · have := mul_nonneg ha hb.1; linarith
      · have : a * b ≤ a := by nlinarith [hb.2]
        linarith

/-- one component of the update is a sub-convex combination `(1−σ) f_i + σ Σ_j M_ij f_j`. -/
theorem stepRow_mem (σ fi : ℚ) (row f : Vec)
    (hσ0 : 0 ≤ σ) (hσ1 : σ ≤ 1) (hfi : 0 ≤ fi ∧ fi ≤ 1)
    (hrow : ∀ a ∈ row, 0 ≤ a) (hsum : total row ≤ 1) (hf : InUnit f) :
    0 ≤ stepRow σ fi row f ∧ stepRow σ fi row f ≤ 1 := by
  obtain ⟨h1, h2⟩ := dot_bounds row f hrow hf
  unfold stepRow
  have hd1 : dot row f ≤ 1 := le_trans h2 hsum
  have e : fi - σ * (fi - dot row f) = (1 - σ) * fi + σ * dot row f := by ring
  rw [e]
  have h1σ : 0 ≤ 1 - σ := by linarith
  constructor
  · have := mul_nonneg h1σ hfi.1; have := mul_nonneg hσ0 h1; linarith
  · have : (1 - σ) * fi ≤ (1 - σ) * 1 := mul_le_mul_of_nonneg_left hfi.2 h1σ
    have : σ * dot row f ≤ σ * 1 := mul_le_mul_of_nonneg_left hd1 hσ0
    linarith

/-! ## one update of the whole state -/

theorem logistic_map_inUnit (r : ℚ) (x : Vec) (hr0 : 0 ≤ r) (hr4 : r ≤ 4) (hx : InUnit x) :
    InUnit (x.map (logistic r)) := by
  intro b hb
  obtain ⟨a, ha, rfl⟩ := List.mem_map.1 hb
  exact logistic_mem r a hr0 hr4 (hx a ha).1 (hx a ha).2

theorem step_length (r σ : ℚ) (M : Mat) (x : Vec) (hlen : M.length = x.length) :
    (step r σ M x).length = x.length := by
  simp [step, hlen]

/-- **C19 `step_mem`.** `M ≥ 0` entry-wise with every row sum `≤ 1`, `0 ≤ σ ≤ 1`, `0 ≤ r ≤ 4`,
`x ∈ [0,1]ⁿ` ⇒ every entry of `step r σ M x` is in `[0,1]`; and the length is preserved when
`M` has one row per state component. (Rows of `M` may have any length.) -/
theorem step_mem (r σ : ℚ) (M : Mat) (x : Vec)
    (hM : NonnegMat M) (hsum : RowsLeOne M)
    (hσ0 : 0 ≤ σ) (hσ1 : σ ≤ 1) (hr0 : 0 ≤ r) (hr4 : r ≤ 4) (hx : InUnit x) :
    InUnit (step r σ M x) ∧ (M.length = x.length → (step r σ M x).length = x.length) := by
  refine ⟨?_, step_length r σ M x⟩
  have hf := logistic_map_inUnit r x hr0 hr4 hx
  intro b hb
  unfold step at hb
  obtain ⟨p, hp, rfl⟩ := List.mem_map.1 hb
  obtain ⟨hp1, hp2⟩ := List.of_mem_zip (a := p.1) (b := p.2) hp
  exact stepRow_mem σ p.2 p.1 _ hσ0 hσ1 (hf _ hp2) (hM _ hp1) (hsum _ hp1) hf

/-- the hypotheses of `step_mem` are satisfiable and non-trivial: 3-node star, row-normalised -/
example : NonnegMat [[0, 1 / 2, 1 / 2], [1, 0, 0], [1, 0, 0]] ∧
    RowsLeOne [[0, 1 / 2, 1 / 2], [1, 0, 0], [1, 0, 0]] ∧ InUnit [1 / 2, 1 / 3, 1] := by
  refine ⟨?_, ?_, ?_⟩
  · intro row hrow a ha
    simp only [List.mem_cons, List.not_mem_nil, or_false] at hrow
    rcases hrow with rfl | rfl | rfl <;>
      (simp only [List.mem_cons, List.not_mem_nil, or_false] at ha
       rcases ha with rfl | rfl | rfl <;> norm_num)
  · intro row hrow
    simp only [List.mem_cons, List.not_mem_nil, or_false] at hrow
    rcases hrow with rfl | rfl | rfl <;> norm_num [total]
  · intro b hb
    simp only [List.mem_cons, List.not_mem_nil, or_false] at hb
    rcases hb with rfl | rfl | rfl <;> norm_num

/-! ## the whole series -/

theorem orbit_length (r σ : ℚ) (M : Mat) (x0 : Vec) (hlen : M.length = x0.length) (t : ℕ) :
    (orbit r σ M x0 t).length = x0.length := by
  induction t with
  | zero => rfl
  | succ t ih =>
    show (step r σ M (orbit r σ M x0 t)).length = x0.length
    rw [step_length _ _ _ _ (by rw [ih, hlen]), ih]

/-- **C19 `orbit_mem`.** Every value of the generated series lies in `[0,1]`: for every time `t`,
every state length, every sub-stochastic non-negative `M`, every `0 ≤ r ≤ 4`, `0 ≤ σ ≤ 1` and
every initial state in the unit cube (`rng.random(n)` draws from `[0,1)`). -/
theorem orbit_mem (r σ : ℚ) (M : Mat) (x0 : Vec)
    (hM : NonnegMat M) (hsum : RowsLeOne M)
    (hσ0 : 0 ≤ σ) (hσ1 : σ ≤ 1) (hr0 : 0 ≤ r) (hr4 : r ≤ 4) (hx : InUnit x0) (t : ℕ) :
    InUnit (orbit r σ M x0 t) := by
  induction t with
  | zero => exact hx
  | succ t ih => exact (step_mem r σ M _ hM hsum hσ0 hσ1 hr0 hr4 ih).1

/-! ## the normalisation performed by the code yields such an `M` -/

theorem total_map_div (row : Vec) (c : ℚ) : total (row.map (· / c)) = total row / c := by
  induction row with
  | nil => simp [total]
  | cons a as ih => simp only [List.map_cons, total, ih]; ring

/-- a single normalised row: entries `≥ 0`; sum 1 if the original sum is positive, else the
row is unchanged and its sum is 0 -/
theorem normRow_ok (row : Vec) (hrow : ∀ a ∈ row, 0 ≤ a) :
    let row' := if total row > 0 then row.map (· / total row) else row
    (∀ a ∈ row', 0 ≤ a) ∧ row'.length = row.length ∧
      ((0 < total row ∧ total row' = 1) ∨ (total row = 0 ∧ row' = row ∧ total row' = 0)) := by
  intro row'
  have h0 := total_nonneg row hrow
  by_cases h : total row > 0
  · have e : row' = row.map (· / total row) := if_pos h
    rw [e]
    refine ⟨?_, by simp, Or.inl ⟨h, ?_⟩⟩
    · intro a ha
      obtain ⟨b, hb, rfl⟩ := List.mem_map.1 ha
      exact div_nonneg (hrow b hb) h0
    · rw [total_map_div]; exact div_self (ne_of_gt h)
  · have e : row' = row := if_neg h
    have hz : total row = 0 := le_antisymm (not_lt.1 h) h0
    rw [e]
    exact ⟨hrow, rfl, Or.inr ⟨hz, rfl, hz⟩⟩

/-- a non-negative vector with sum 0 is all zeros (so the un-normalised rows are the rows of
isolated nodes) -/
theorem eq_zero_of_total_eq_zero : ∀ (row : Vec), (∀ a ∈ row, 0 ≤ a) → total row = 0 →
    ∀ a ∈ row, a = 0 := by
  intro row
  induction row with
  | nil => intro _ _ a ha; simp at ha
  | cons b bs ih =>
    intro hrow ht a ha
    have hb := hrow b (by simp)
    have hbs := total_nonneg bs (fun x hx => hrow x (by simp [hx]))
    simp only [total] at ht
    rcases List.mem_cons.1 ha with rfl | ha
    · linarith
    · exact ih (fun x hx => hrow x (by simp [hx])) (by linarith) a ha

/-- **C19 `rowNormalise_ok`.** For any matrix with non-negative entries (e.g. a 0/1 adjacency
matrix) the normalisation the code performs keeps the shape, keeps entries non-negative, and row
`i` of the result sums to 1 when row `i` of `A` has a positive sum, and is the unchanged all-zero
row (sum 0) otherwise. In particular it satisfies the hypotheses of `step_mem`. -/
theorem rowNormalise_ok (A : Mat) (hA : NonnegMat A) :
    (rowNormalise A).length = A.length ∧
    NonnegMat (rowNormalise A) ∧ RowsLeOne (rowNormalise A) ∧
    (∀ row ∈ rowNormalise A, total row = 1 ∨ total row = 0) ∧
    (∀ i (h : i < A.length) (h' : i < (rowNormalise A).length),
      (rowNormalise A)[i].length = A[i].length ∧
      ((0 < total A[i] ∧ total (rowNormalise A)[i] = 1) ∨
       ((∀ a ∈ A[i], a = 0) ∧ (rowNormalise A)[i] = A[i] ∧ total (rowNormalise A)[i] = 0))) := by
  have key : ∀ row ∈ rowNormalise A, ∃ r0 ∈ A,
      row = if total r0 > 0 then r0.map (· / total r0) else r0 := by
    intro row hrow
    obtain ⟨r0, h0, rfl⟩ := List.mem_map.1 hrow
    exact ⟨r0, h0, rfl⟩
  refine ⟨by simp [rowNormalise], ?_, ?_, ?_, ?_⟩
  · intro row hrow
    obtain ⟨r0, h0, rfl⟩ := key row hrow
    exact (normRow_ok r0 (hA r0 h0)).1
  · intro row hrow
    obtain ⟨r0, h0, rfl⟩ := key row hrow
    rcases (normRow_ok r0 (hA r0 h0)).2.2 with ⟨_, h⟩ | ⟨_, _, h⟩
    · exact le_of_eq h
    · exact le_trans (le_of_eq h) zero_le_one
  · intro row hrow
    obtain ⟨r0, h0, rfl⟩ := key row hrow
    rcases (normRow_ok r0 (hA r0 h0)).2.2 with ⟨_, h⟩ | ⟨_, _, h⟩
    · exact Or.inl h
    · exact Or.inr h
  · intro i h h'
    have e : (rowNormalise A)[i] =
        if total A[i] > 0 then A[i].map (· / total A[i]) else A[i] := by
      simp [rowNormalise]
    have hAi := hA A[i] (List.getElem_mem h)
    obtain ⟨_, h2, h3⟩ := normRow_ok A[i] hAi
    rw [e]
    refine ⟨h2, ?_⟩
    rcases h3 with h3 | ⟨hz, h4, h5⟩
    · exact Or.inl h3
    · exact Or.inr ⟨eq_zero_of_total_eq_zero _ hAi hz, h4, h5⟩

example : NonnegMat [[0, 1, 1], [1, 0, 0], [0, 0, 0]] := by
  intro row hrow a ha
  simp only [List.mem_cons, List.not_mem_nil, or_false] at hrow
  rcases hrow with rfl | rfl | rfl <;>
    (simp only [List.mem_cons, List.not_mem_nil, or_false] at ha
     rcases ha with rfl | rfl | rfl <;> norm_num)

/-- **C19 `orbit_mem_rowNormalised`.** The series generated with the row-normalised matrix of
*any* non-negative adjacency matrix (every graph, every seed, isolated nodes included) stays in
`[0,1]` at every time, and keeps its length `n` when `A` has `n` rows. -/
theorem orbit_mem_rowNormalised (r σ : ℚ) (A : Mat) (x0 : Vec) (hA : NonnegMat A)
    (hσ0 : 0 ≤ σ) (hσ1 : σ ≤ 1) (hr0 : 0 ≤ r) (hr4 : r ≤ 4) (hx : InUnit x0) (t : ℕ) :
    InUnit (orbit r σ (rowNormalise A) x0 t) ∧
    (A.length = x0.length → (orbit r σ (rowNormalise A) x0 t).length = x0.length) := by
  obtain ⟨hl, h1, h2, _⟩ := rowNormalise_ok A hA
  exact ⟨orbit_mem r σ _ x0 h1 h2 hσ0 hσ1 hr0 hr4 hx t,
    fun h => orbit_length r σ _ x0 (by rw [hl, h]) t⟩

/-! ## negative witness: the update of the pinned (pre-fix) tree

The pinned tree coupled through the *transpose* of the row-normalised matrix (column-stochastic
instead of row-stochastic). For a 3-node star with both leaves and the centre at `½`, `r = 4`,
`σ = 1`, the centre moves to `2` in one step. This documents the repaired defect; `step_mem` does
not apply because the centre's row of the transposed matrix sums to 2. -/

def star3 : Mat := [[0, 1, 1], [1, 0, 0], [1, 0, 0]]

example : rowNormalise star3 = [[0, 1 / 2, 1 / 2], [1, 0, 0], [1, 0, 0]] := by
  norm_num [rowNormalise, star3, total]

example : transpose 3 (rowNormalise star3) = [[0, 1, 1], [1 / 2, 0, 0], [1 / 2, 0, 0]] := by
  norm_num [rowNormalise, star3, total, transpose, List.range, List.range.loop]

/-- per-component witness of DESIGN.md Appendix B.5 -/
example : stepRow 1 1 [0, 1, 1] [1, 1, 1] = 2 := by
  norm_num [stepRow, dot]

/-- the pre-fix update leaves the unit interval -/
example : step 4 1 (transpose 3 (rowNormalise star3)) [1 / 2, 1 / 2, 1 / 2] = [2, 1 / 2, 1 / 2] := by
  norm_num [rowNormalise, star3, total, transpose, List.range, List.range.loop, step, stepRow,
    dot, logistic]

/-- the repaired update on the same input stays inside -/
example : step 4 1 (rowNormalise star3) [1 / 2, 1 / 2, 1 / 2] = [1, 1, 1] := by
  norm_num [rowNormalise, star3, total, step, stepRow, dot, logistic]

end CE.Syn
