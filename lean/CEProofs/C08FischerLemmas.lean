import CEProofs.C08Lemmas
import Mathlib.Analysis.Matrix.Order
import Mathlib.LinearAlgebra.Matrix.SchurComplement

/-! # C08 — lemmas for Fischer's inequality and the positive semidefiniteness of sample covariances

Part 1 (`CE.Fischer`): real matrix theory that Mathlib does not have — `det (1 + Q) ≥ 1` for
positive semidefinite `Q`, monotonicity of `det` on the Loewner order, Fischer's inequality with a
positive definite corner, singularity of a PSD block matrix with a singular corner.

Part 2 (`CE.Gauss`): the rational covariance matrices of the model, cast to `ℝ`, are positive
semidefinite; so are the partial covariance matrices `S(A|Z)` (Schur complements). -/

namespace CE.Fischer
open Matrix
open scoped MatrixOrder

variable {m n : Type*} [Fintype m] [Fintype n] [DecidableEq m] [DecidableEq n]

/-- `det (1 + Q) ≥ 1` for positive semidefinite `Q` (spectral theorem: `∏ (1 + λᵢ)`, `λᵢ ≥ 0`) -/
theorem one_le_det_one_add {Q : Matrix n n ℝ} (hQ : Q.PosSemidef) : 1 ≤ (1 + Q).det := by
  have hH := hQ.1
  have hsp := hH.spectral_theorem
  rw [Unitary.conjStarAlgAut_apply] at hsp
  set U : Matrix n n ℝ := (hH.eigenvectorUnitary : Matrix n n ℝ) with hU
  have hUU : U * star U = 1 := Unitary.coe_mul_star_self _
  have h1 : (1 : Matrix n n ℝ) + Q
      = U * diagonal (fun i => 1 + hH.eigenvalues i) * star U := by
    have hd : diagonal (fun i => 1 + hH.eigenvalues i)
        = (1 : Matrix n n ℝ) + diagonal (RCLike.ofReal ∘ hH.eigenvalues) := by
      rw [← diagonal_one, diagonal_add]
      rfl
    rw [hd, mul_add, add_mul, mul_one, hUU, ← hsp]
  rw [h1, det_mul, det_mul, mul_right_comm, ← det_mul, hUU, det_one, one_mul, det_diagonal]
  calc (1 : ℝ) = ∏ _i : n, (1 : ℝ) := by simp
    _ ≤ ∏ i, (1 + hH.eigenvalues i) :=
      Finset.prod_le_prod (fun _ _ => zero_le_one) (fun i _ => by
        have := hQ.eigenvalues_nonneg i
        linarith)


/-- monotonicity of `det` on the Loewner order, additive form: `det S ≤ det (S + P)` for positive
semidefinite `S`, `P` -/
theorem det_le_det_add {S P : Matrix n n ℝ} (hS : S.PosSemidef) (hP : P.PosSemidef) :
    S.det ≤ (S + P).det := by
  by_cases h0 : S.det = 0
  · rw [h0]; exact (hS.add hP).det_nonneg
  obtain ⟨L, rfl⟩ := CStarAlgebra.nonneg_iff_eq_star_mul_self.mp hS.nonneg
  have hL : L.det ≠ 0 := by
    intro h; apply h0; rw [det_mul, h, mul_zero]
  have hLu : IsUnit L.det := isUnit_iff_ne_zero.mpr hL
  have hQ : (L⁻¹ᴴ * P * L⁻¹).PosSemidef := hP.conjTranspose_mul_mul_same L⁻¹
  have h1 : star L * L + P = star L * (1 + L⁻¹ᴴ * P * L⁻¹) * L := by
    have e1 : star L * L⁻¹ᴴ = 1 := by
      rw [star_eq_conjTranspose, ← conjTranspose_mul, nonsing_inv_mul _ hLu, conjTranspose_one]
    rw [mul_add, add_mul, mul_one, ← mul_assoc, ← mul_assoc, e1, one_mul, mul_assoc,
      nonsing_inv_mul _ hLu, mul_one]
  rw [h1, det_mul, det_mul, det_mul]
  have h2 := one_le_det_one_add hQ
  have h3 : 0 ≤ (star L).det * L.det := by
    rw [← det_mul]; exact hS.det_nonneg
  nlinarith


/-- `det S ≤ det C` whenever `0 ≤ S ≤ C` in the Loewner order -/
theorem det_le_det_of_sub_posSemidef {S C : Matrix n n ℝ} (hS : S.PosSemidef)
    (hCS : (C - S).PosSemidef) : S.det ≤ C.det := by
  have := det_le_det_add hS hCS
  rwa [add_sub_cancel] at this

/-- **Fischer's inequality**, positive definite corner: for a real positive semidefinite block
matrix `[[A, B], [Bᵀ, D]]` with `A` positive definite, `det M ≤ det A · det D`. -/
theorem fischer_inequality_of_posDef {A : Matrix m m ℝ} (B : Matrix m n ℝ) (D : Matrix n n ℝ)
    (hA : A.PosDef) (hM : (fromBlocks A B Bᴴ D).PosSemidef) :
    (fromBlocks A B Bᴴ D).det ≤ A.det * D.det := by
  let _ : Invertible A := hA.isUnit.invertible
  have hS : (D - Bᴴ * A⁻¹ * B).PosSemidef := (PosDef.fromBlocks₁₁ B D hA).mp hM
  have hP : (Bᴴ * A⁻¹ * B).PosSemidef := hA.inv.posSemidef.conjTranspose_mul_mul_same B
  rw [det_fromBlocks₁₁, invOf_eq_nonsing_inv]
  apply mul_le_mul_of_nonneg_left _ hA.det_pos.le
  apply det_le_det_of_sub_posSemidef hS
  rwa [sub_sub_cancel]


/-- a positive semidefinite block matrix with singular leading block is singular -/
theorem det_fromBlocks_eq_zero_of_det_eq_zero {A : Matrix m m ℝ} {B : Matrix m n ℝ}
    {C : Matrix n m ℝ} {D : Matrix n n ℝ} (hM : (fromBlocks A B C D).PosSemidef)
    (h0 : A.det = 0) : (fromBlocks A B C D).det = 0 := by
  obtain ⟨v, hv, hAv⟩ := exists_mulVec_eq_zero_iff.mpr h0
  apply exists_mulVec_eq_zero_iff.mp
  refine ⟨Sum.elim v 0, ?_, ?_⟩
  · intro h
    apply hv
    funext i
    have := congrFun h (Sum.inl i)
    simpa using this
  · rw [← hM.dotProduct_mulVec_zero_iff, fromBlocks_mulVec]
    have e1 : (Sum.elim v (0 : n → ℝ)) ∘ Sum.inl = v := rfl
    have e2 : (Sum.elim v (0 : n → ℝ)) ∘ Sum.inr = 0 := rfl
    rw [e1, e2, hAv, mulVec_zero, mulVec_zero, add_zero, add_zero]
    have e3 : star (Sum.elim v (0 : n → ℝ)) = Sum.elim (star v) 0 := by
      funext i; rcases i with i | i <;> simp
    rw [e3, sumElim_dotProduct_sumElim, dotProduct_zero, zero_dotProduct, add_zero]

end CE.Fischer

namespace CE.Gauss
open Matrix

/-! ## casting rational matrices to `ℝ` -/

/-- entrywise cast `ℚ → ℝ` -/
noncomputable def toR {ι κ : Type*} (M : Matrix ι κ ℚ) : Matrix ι κ ℝ := M.map (Rat.castHom ℝ)

@[simp] theorem toR_apply {ι κ : Type*} (M : Matrix ι κ ℚ) (i : ι) (j : κ) :
    toR M i j = ((M i j : ℚ) : ℝ) := rfl

theorem toR_det {ι : Type*} [Fintype ι] [DecidableEq ι] (M : Matrix ι ι ℚ) :
    ((M.det : ℚ) : ℝ) = (toR M).det :=
  RingHom.map_det (Rat.castHom ℝ) M

theorem toR_mul {ι κ μ : Type*} [Fintype κ] (M : Matrix ι κ ℚ) (N : Matrix κ μ ℚ) :
    toR (M * N) = toR M * toR N := Matrix.map_mul

theorem toR_sub {ι κ : Type*} (M N : Matrix ι κ ℚ) : toR (M - N) = toR M - toR N := by
  ext i j; simp

theorem toR_one {ι : Type*} [DecidableEq ι] : toR (1 : Matrix ι ι ℚ) = 1 := by
  ext i j; simp [Matrix.one_apply]; split <;> simp

theorem toR_zero {ι κ : Type*} : toR (0 : Matrix ι κ ℚ) = 0 := by
  ext i j; simp

theorem toR_fromBlocks {ι κ : Type*} (A : Matrix ι ι ℚ) (B : Matrix ι κ ℚ) (C : Matrix κ ι ℚ)
    (D : Matrix κ κ ℚ) : toR (fromBlocks A B C D) = fromBlocks (toR A) (toR B) (toR C) (toR D) :=
  fromBlocks_map A B C D _

theorem toR_inv {ι : Type*} [Fintype ι] [DecidableEq ι] (M : Matrix ι ι ℚ) (h : M.det ≠ 0) :
    toR M⁻¹ = (toR M)⁻¹ := by
  symm
  apply inv_eq_right_inv
  rw [← toR_mul, mul_nonsing_inv _ (isUnit_iff_ne_zero.mpr h), toR_one]

/-! ## sample covariance matrices are positive semidefinite -/

/-- the real sample covariance matrix of any family of columns is positive semidefinite: it is
`(N − 1)⁻¹ · GᵀG` for the centred data matrix `G` (for `N ≤ 1` the model's matrix is `0`). -/
theorem covE_posSemidef (W : Sample) {ι : Type} [Fintype ι] (e : ι → ℕ) :
    (toR (covE W e)).PosSemidef := by
  by_cases hN : W.length = 0
  · have : covE W e = 0 := by
      ext i j; simp [covE, cov_of_length_zero W hN]
    rw [this, toR_zero]
    exact PosSemidef.zero
  · let G : Matrix (Fin W.length) ι ℝ :=
      Matrix.of fun r i => ((entry W r (e i) - colMean W (e i) : ℚ) : ℝ)
    have hG : toR (covE W e) = ((W.length : ℝ) - 1)⁻¹ • (Gᴴ * G) := by
      ext i j
      rw [Matrix.smul_apply, Matrix.mul_apply, smul_eq_mul]
      simp only [toR_apply, covE, of_apply, conjTranspose_apply, star_trivial, G]
      rw [cov_eq, ← Fin.sum_univ_eq_sum_range
        (fun r => (entry W r (e i) - colMean W (e i)) * (entry W r (e j) - colMean W (e j)))]
      push_cast
      rw [div_eq_inv_mul]
    rw [hG]
    apply (posSemidef_conjTranspose_mul_self G).smul
    apply inv_nonneg.mpr
    have : (1 : ℝ) ≤ W.length := by exact_mod_cast Nat.one_le_iff_ne_zero.mpr hN
    linarith

theorem det_covM_nonneg (W : Sample) (cols : List ℕ) : 0 ≤ (covM W cols).det := by
  have := (covE_posSemidef W (colAt cols)).det_nonneg
  rw [← toR_det] at this
  exact_mod_cast this

/-! ## partial covariance matrices `S(A|Z)` for arbitrary column families -/

/-- `S(e|Z)`: partial covariance of the columns listed by `e` given the columns `Z` -/
noncomputable def pcovE (W : Sample) (Z : List ℕ) {ι : Type} (e : ι → ℕ) : Matrix ι ι ℚ :=
  Matrix.of fun i k => pcov W Z (e i) (e k)

/-- partial cross-covariance block -/
noncomputable def pcrossE (W : Sample) (Z : List ℕ) {ι κ : Type} (e : ι → ℕ) (f : κ → ℕ) :
    Matrix ι κ ℚ :=
  Matrix.of fun i k => pcov W Z (e i) (f k)

theorem pcovM_eq_pcovE (W : Sample) (Z A : List ℕ) : pcovM W Z A = pcovE W Z (colAt A) := rfl

theorem pcovE_eq (W : Sample) (Z : List ℕ) {ι : Type} (e : ι → ℕ) :
    pcovE W Z e = covE W e
      - crossE W e (colAt Z) * (covM W Z)⁻¹ * crossE W (colAt Z) e := by
  ext i k
  rw [Matrix.mul_assoc]
  simp only [pcovE, pcov, covM, covE, crossE, covVec, Matrix.of_apply, Matrix.sub_apply,
    Matrix.mul_apply, dotProduct, Matrix.mulVec]
  congr 1
  refine Finset.sum_congr rfl (fun j _ => ?_)
  rw [cov_comm W (e i) (colAt Z j)]

theorem pcovE_sum (W : Sample) (Z : List ℕ) {ι κ : Type} (eA : ι → ℕ) (eB : κ → ℕ) :
    pcovE W Z (Sum.elim eA eB)
      = Matrix.fromBlocks (pcovE W Z eA) (pcrossE W Z eA eB) (pcrossE W Z eB eA)
          (pcovE W Z eB) := by
  ext s t
  rcases s with i | j <;> rcases t with k | l <;> rfl

theorem det_pcovM_append (W : Sample) (Z A B : List ℕ) :
    (pcovM W Z (A ++ B)).det = (pcovE W Z (Sum.elim (colAt A) (colAt B))).det := by
  rw [← Matrix.det_submatrix_equiv_self (appendEquiv A B) (pcovM W Z (A ++ B))]
  congr 1
  ext s t
  simp only [pcovM, pcovE, Matrix.submatrix_apply, Matrix.of_apply, colAt_appendEquiv]

/-- the partial covariance matrix `S(e|Z)` (Schur complement of `Σ_Z` in the positive
semidefinite `Σ_{e ∪ Z}`) is positive semidefinite -/
theorem pcovE_posSemidef (W : Sample) (Z : List ℕ) {ι : Type} [Fintype ι] [DecidableEq ι]
    (e : ι → ℕ) (hZ : (covM W Z).det ≠ 0) : (toR (pcovE W Z e)).PosSemidef := by
  have hS := covE_posSemidef W (Sum.elim e (colAt Z))
  rw [covE_sum, toR_fromBlocks] at hS
  have hD : (toR (covE W (colAt Z))).PosDef := by
    apply (covE_posSemidef W (colAt Z)).posDef_iff_det_ne_zero.mpr
    rw [← toR_det]
    exact_mod_cast hZ
  have hBt : toR (crossE W (colAt Z) e) = (toR (crossE W e (colAt Z)))ᴴ := by
    ext i j
    simp [crossE, cov_comm W (colAt Z i) (e j)]
  rw [hBt] at hS
  let _ : Invertible (toR (covE W (colAt Z))) := hD.isUnit.invertible
  have h := (PosDef.fromBlocks₂₂ _ _ hD).mp hS
  have e1 : toR (pcovE W Z e) = toR (covE W e)
      - toR (crossE W e (colAt Z)) * (toR (covE W (colAt Z)))⁻¹
        * (toR (crossE W e (colAt Z)))ᴴ := by
    rw [pcovE_eq, toR_sub, toR_mul, toR_mul, toR_inv _ hZ, hBt]
    rfl
  rw [e1]
  exact h

theorem det_pcovM_nonneg (W : Sample) (Z A : List ℕ) (hZ : (covM W Z).det ≠ 0) :
    0 ≤ (pcovM W Z A).det := by
  have := (pcovE_posSemidef W Z (colAt A) hZ).det_nonneg
  rw [← toR_det] at this
  exact_mod_cast this

end CE.Gauss
