import CEProofs.C06
import Mathlib.Data.List.Sort

/-! # C06 (supplement) — the LASSO selection satisfies the oracle's range predicate

`selOfCoef coef` mirrors `np.where(lasso.coef_ != 0)[0].tolist()`. Whatever coefficient vector
sklearn returns (an input of the model), the selected ids are strictly ascending, duplicate-free
and in range, so the hypothesis `LassoOK` of the C06 theorems is discharged for the real code as
soon as the coefficient vector has one entry per lagged predictor (`n * L`). -/
namespace CE.Disc.C06

theorem selOfCoef_mem (coef : List ℚ) (c : ℕ) :
    c ∈ selOfCoef coef ↔ c < coef.length ∧ coef.getD c 0 ≠ 0 := by
  unfold selOfCoef
  simp [List.mem_filter, List.mem_range]

/-- selected ids are in range -/
theorem selOfCoef_lt (coef : List ℚ) : ∀ c ∈ selOfCoef coef, c < coef.length :=
  fun c hc => ((selOfCoef_mem coef c).mp hc).1

/-- … duplicate-free -/
theorem selOfCoef_nodup (coef : List ℚ) : (selOfCoef coef).Nodup :=
  List.Nodup.filter _ List.nodup_range

/-- … strictly ascending (the order in which `np.where` lists them) -/
theorem selOfCoef_sorted (coef : List ℚ) : (selOfCoef coef).Pairwise (· < ·) :=
  List.Pairwise.filter _ List.pairwise_lt_range

/-- exactly the predictors with a non-zero coefficient are selected -/
theorem selOfCoef_spec (coef : List ℚ) (c : ℕ) (hc : c < coef.length) :
    c ∈ selOfCoef coef ↔ coef[c] ≠ 0 := by
  rw [selOfCoef_mem]
  simp [hc, List.getD_eq_getElem?_getD]

/-- **`lassoOK_of_coef`.** For ANY fitted coefficient vectors of the right length the LASSO oracle
`i ↦ selOfCoef (coef i)` satisfies `LassoOK`. -/
theorem lassoOK_of_coef (coef : ℕ → List ℚ) (n L : ℕ) (hlen : ∀ i, i < n → (coef i).length = n * L) :
    LassoOK (fun i => selOfCoef (coef i)) n L := by
  intro i hi
  refine ⟨selOfCoef_nodup _, fun c hc => ?_⟩
  have := selOfCoef_lt _ c hc
  rwa [hlen i hi] at this

example : selOfCoef [0, 3/2, 0, -1, 0] = [1, 3] := by decide +kernel
example : lassoUsesLarsIC 12 10 = true ∧ lassoUsesLarsIC 11 10 = false := by decide

end CE.Disc.C06
