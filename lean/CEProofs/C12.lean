import CEModel.Geometric
import CEProofs.C10Kde
import Mathlib.Algebra.Order.Field.Basic
import Mathlib.Data.List.Sort
import Mathlib.Tactic.Linarith
import Mathlib.Tactic.Positivity
import Mathlib.Tactic.FieldSimp
import Mathlib.Analysis.Real.Sqrt
import Mathlib.Analysis.SpecialFunctions.Log.Basic

/-! # C12 — the geometric k-NN entropy obeys the laws of a differential entropy estimate

Model: `CE.Geom.entropy`, `entropyOf`, `geomMI`, `geomCMI` (`CEModel/Geometric.lean`), the mirror of
`geometric_knn_entropy(X, Xdist, k)`, `geometric_knn_mutual_information` and
`geometric_knn_conditional_mutual_information`. `α` is any linear ordered field; `log`, `sqrt`, the
SVD-based local correction `corr Y_i Z_i`, `tiny`, `logTiny` are the uninterpreted fields of `Env`;
`log N`, `log c_d`, `d/N` are arbitrary elements of `α` supplied by the caller.

What is proved (property theorems; all other lemmas are helpers):

* translation — `sqdist_translate`, `knn_translate_invariant`, `entropy_translate` (any supplied
  distance matrix), `geom_translate`: **unconditional** (no hypothesis on `log`, `sqrt`, `corr`,
  guards or ties): keys, neighbour lists, `ρ_i`, the centred neighbourhoods `Y_i` and the offsets
  `Z_i` of the shifted sample are literally those of the sample. Needs `cast = Nat.cast` (column
  means) and a sample matrix of constant row width.
* scaling — `sqdist_scale`, `argsort_scale`, `knn_scale_invariant`, `rho_scale`, `rho_term_scale`,
  `entropy_scale` (any supplied distance matrix, order-preserving transformation of its entries),
  `geom_scale`: `H(aX) = H(X) + d · log a` for `a > 0`, `log` additive on positive products, `sqrt`
  homogeneous, guards inactive on both samples, **given** `hcorr_scale`. `geom_scale_real`: the
  instance `log = Real.log`, `sqrt = Real.sqrt`. Tie-freeness is *not* needed: the model's argsort
  is stable and only looks at comparisons (`List.map_mergeSort`); for the real code tie-freeness is
  what makes NumPy's (unstable) argsort agree with the model.
* orthogonal maps (P1) — `sqdist_rotate`, `knn_rotate_invariant`, `geom_rotate`, for any map `R` that
  respects differences and column means and preserves sums of squares (`IsRot`), **given**
  `hcorr_rot`.
* sample order (P1) — `geom_row_perm`: tie-free sample, `1 ≤ k < N`; **unconditional** in `log`,
  `sqrt`, `corr` (neighbour indices are relabelled; `ρ`, `Y`, `Z` of sample `i'` of the reordered
  sample are literally those of sample `idx[i']`).
* `geom_laws_partial` — the four laws in one statement; its doc-comment says what is missing
  (`hcorr_scale`, `hcorr_rot`: similarity invariance of the SVD-based correction).
* `geomMI_def`, `geomCMI_def` (definitional), `clampMI_eq_max`.

The fourth clause of C12 ("equals an independent evaluation of its published formula") is the
model's definition; its weight is carried by the reference evaluation in the harness. -/

set_option linter.unusedSectionVars false

namespace CE.Geom
open CE.Kde

section field
variable {α : Type} [Field α] [LinearOrder α] [IsStrictOrderedRing α]

/-! ### sample transformations -/

/-- pointwise sum of two rows -/
def vadd (a t : List α) : List α := List.zipWith (· + ·) a t
/-- a row multiplied by a scalar -/
def vscale (a : α) (r : List α) : List α := r.map (a * ·)
/-- the sample shifted by the vector `t` -/
def translate (X : List (List α)) (t : List α) : List (List α) := X.map (vadd · t)
/-- the sample scaled by the factor `a` -/
def scale (a : α) (X : List (List α)) : List (List α) := X.map (vscale a)

/-! ### rows -/

theorem row_map (f : List α → List α) (hf : f [] = []) (X : List (List α)) (j : ℕ) :
    row (X.map f) j = f (row X j) := by
  unfold row
  rw [List.getD_eq_getElem?_getD, List.getD_eq_getElem?_getD, List.getElem?_map]
  cases X[j]? <;> simp [hf]

theorem row_translate (X : List (List α)) (t : List α) (j : ℕ) :
    row (translate X t) j = vadd (row X j) t := row_map (vadd · t) (by simp [vadd]) X j

theorem row_scale (a : α) (X : List (List α)) (j : ℕ) :
    row (scale a X) j = vscale a (row X j) := row_map (vscale a) (by simp [vscale]) X j

theorem row_mem {X : List (List α)} {j : ℕ} (hj : j < X.length) : row X j ∈ X := by
  unfold row
  rw [List.getD_eq_getElem _ _ hj]
  exact List.getElem_mem hj

theorem row_length {X : List (List α)} {d j : ℕ} (hw : ∀ r ∈ X, r.length = d) (hj : j < X.length) :
    (row X j).length = d := hw _ (row_mem hj)

theorem row_length_le {X : List (List α)} {d : ℕ} (hw : ∀ r ∈ X, r.length = d) (j : ℕ) :
    (row X j).length ≤ d := by
  by_cases hj : j < X.length
  · exact (row_length hw hj).le
  · unfold row
    rw [List.getD_eq_default _ _ (by omega)]
    simp

/-! ### translation -/

/-- **sqdist_translate.** `|(x + t) − (y + t)|² = |x − y|²`. -/
theorem sqdist_translate (x y t : List α) (hx : x.length ≤ t.length) (hy : y.length ≤ t.length) :
    sqdist (vadd x t) (vadd y t) = sqdist x y := by
  unfold sqdist vadd
  congr 1
  apply List.ext_getElem
  · simp only [List.length_zipWith]; omega
  · intro i h1 h2
    simp only [List.getElem_zipWith]
    ring

theorem vsub_vadd (x y t : List α) (hx : x.length ≤ t.length) (hy : y.length ≤ t.length) :
    vsub (vadd x t) (vadd y t) = vsub x y := by
  unfold vsub vadd
  apply List.ext_getElem
  · simp only [List.length_zipWith]; omega
  · intro i h1 h2
    simp only [List.getElem_zipWith]
    ring

theorem sqKeys_translate (X : List (List α)) (t : List α) (hw : ∀ r ∈ X, r.length = t.length) :
    sqKeys (translate X t) = sqKeys X := by
  unfold sqKeys translate
  rw [List.map_map]
  apply List.map_congr_left
  intro xi hi
  simp only [Function.comp, List.map_map]
  apply List.map_congr_left
  intro xj hj
  exact sqdist_translate _ _ _ (hw _ hi).le (hw _ hj).le

theorem rho_translate (E : Env α) (X : List (List α)) (t : List α)
    (hw : ∀ r ∈ X, r.length = t.length) (k i : ℕ) (nbrs : List ℕ) :
    rho E (translate X t) k i nbrs = rho E X k i nbrs := by
  unfold rho
  rw [row_translate, row_translate,
    sqdist_translate _ _ _ (row_length_le hw _) (row_length_le hw _)]

theorem logDist_translate (E : Env α) (X : List (List α)) (t : List α)
    (hw : ∀ r ∈ X, r.length = t.length) (k i : ℕ) (nbrs : List ℕ) :
    logDist E (translate X t) k i nbrs = logDist E X k i nbrs := by
  unfold logDist
  rw [rho_translate E X t hw]

/-- the neighbour offsets `Z_i` of the shifted sample are literally those of the sample -/
theorem offsets_translate (X : List (List α)) (t : List α)
    (hw : ∀ r ∈ X, r.length = t.length) (i : ℕ) (nbrs : List ℕ) :
    offsets (translate X t) i nbrs = offsets X i nbrs := by
  unfold offsets
  apply List.map_congr_left
  intro j _
  rw [row_translate, row_translate, vsub_vadd _ _ _ (row_length_le hw _) (row_length_le hw _)]

theorem sum_map_add_const {β : Type} (l : List β) (f : β → α) (c : α) :
    (l.map (fun r => f r + c)).sum = (l.map f).sum + (l.length : α) * c := by
  induction l with
  | nil => simp
  | cons a l ih => simp only [List.map_cons, List.sum_cons, ih, List.length_cons]; push_cast; ring

theorem colMean_translate (E : Env α) (hcast : ∀ m, E.cast m = (m : α)) (P : List (List α))
    (t : List α) (hP : P ≠ []) (hw : ∀ r ∈ P, r.length = t.length) :
    colMean E (P.map (vadd · t)) = vadd (colMean E P) t := by
  obtain ⟨a, P', rfl⟩ := List.exists_cons_of_ne_nil hP
  have ha : a.length = t.length := hw a (by simp)
  have hdim : dim (a :: P') = t.length := by simpa [dim] using ha
  have hdim' : dim ((a :: P').map (vadd · t)) = t.length := by simp [dim, vadd, ha]
  have hm : ((a :: P').length : α) ≠ 0 := by
    have : (0 : α) < ((a :: P').length : α) := by exact_mod_cast Nat.succ_pos _
    exact ne_of_gt this
  unfold colMean
  rw [hdim, hdim']
  unfold vadd
  apply List.ext_getElem
  · simp
  · intro j h1 h2
    have hj : j < t.length := by simpa using h1
    simp only [List.getElem_map, List.getElem_range, List.getElem_zipWith, List.length_map,
      List.map_map, hcast]
    have e : (a :: P').map ((fun r => r.getD j 0) ∘ fun x => List.zipWith (· + ·) x t)
        = (a :: P').map (fun r => r.getD j 0 + t[j]) := by
      apply List.map_congr_left
      intro r hr
      have hr' : j < r.length := by rw [hw r hr]; exact hj
      simp [Function.comp, hr', hj]
    rw [e, sumL_eq_sum, sumL_eq_sum, sum_map_add_const]
    field_simp

/-- the centred neighbourhood `Y_i` of the shifted sample is literally that of the sample -/
theorem centred_translate (E : Env α) (hcast : ∀ m, E.cast m = (m : α)) (X : List (List α))
    (t : List α) (hw : ∀ r ∈ X, r.length = t.length) (i : ℕ) (nbrs : List ℕ)
    (hi : i < X.length) (hn : ∀ j ∈ nbrs, j < X.length) :
    centred E (translate X t) i nbrs = centred E X i nbrs := by
  have eP : (i :: nbrs).map (row (translate X t)) = ((i :: nbrs).map (row X)).map (vadd · t) := by
    rw [List.map_map]
    exact List.map_congr_left (fun j _ => row_translate X t j)
  have hPw : ∀ r ∈ (i :: nbrs).map (row X), r.length = t.length := by
    intro r hr
    obtain ⟨j, hj, rfl⟩ := List.mem_map.mp hr
    rcases List.mem_cons.mp hj with rfl | hj
    · exact row_length hw hi
    · exact row_length hw (hn j hj)
  have hm : (colMean E ((i :: nbrs).map (row X))).length = t.length := by
    unfold colMean
    simp [dim, row_length hw hi]
  simp only [centred]
  rw [eP, colMean_translate E hcast _ t (by simp) hPw, List.map_map]
  apply List.map_congr_left
  intro r hr
  exact vsub_vadd _ _ _ (hPw r hr).le hm.le

/-! ### neighbour indices are valid row indices -/

theorem mem_argsortIdx {keys : List α} {j : ℕ} (h : j ∈ argsortIdx keys) : j < keys.length := by
  unfold argsortIdx at h
  obtain ⟨⟨x, i⟩, hp, rfl⟩ := List.mem_map.mp h
  rw [List.mem_mergeSort] at hp
  exact (List.mem_zipIdx' hp).1

theorem mem_knnIdx {keys : List α} {k j : ℕ} (h : j ∈ knnIdx keys k) : j < keys.length :=
  mem_argsortIdx (List.mem_of_mem_drop (List.mem_of_mem_take h))

theorem getD_length_le {Xd : List (List α)} {N : ℕ} (hD : ∀ r ∈ Xd, r.length ≤ N) (i : ℕ) :
    (Xd.getD i []).length ≤ N := by
  by_cases hi : i < Xd.length
  · rw [List.getD_eq_getElem _ _ hi]; exact hD _ (List.getElem_mem hi)
  · rw [List.getD_eq_default _ _ (by omega)]; simp

theorem sqKeys_row_length (X : List (List α)) : ∀ r ∈ sqKeys X, r.length ≤ X.length := by
  intro r hr
  unfold sqKeys at hr
  obtain ⟨x, _, rfl⟩ := List.mem_map.mp hr
  simp

/-- **entropy_translate** (any supplied `N × N` distance matrix — every metric `cdist` offers is
translation invariant, so the caller passes the same `Xdist`). No hypothesis on `corr`. -/
theorem entropy_translate (E : Env α) (hcast : ∀ m, E.cast m = (m : α)) (logN logCd dOverN : α)
    (X Xdist : List (List α)) (t : List α) (k : ℕ) (hw : ∀ r ∈ X, r.length = t.length)
    (hD : ∀ r ∈ Xdist, r.length ≤ X.length) :
    entropy E logN logCd dOverN (translate X t) Xdist k = entropy E logN logCd dOverN X Xdist k := by
  have hN : (translate X t).length = X.length := by simp [translate]
  have hnb : ∀ i, ∀ j ∈ knnIdx (Xdist.getD i []) k, j < X.length := by
    intro i j hj
    have h1 := mem_knnIdx hj
    have h2 := getD_length_le hD i
    omega
  simp only [entropy, hN]
  have e1 : (List.range X.length).map
        (fun i => logDist E (translate X t) k i (knnIdx (Xdist.getD i []) k))
      = (List.range X.length).map (fun i => logDist E X k i (knnIdx (Xdist.getD i []) k)) :=
    List.map_congr_left (fun i _ => logDist_translate E X t hw k i _)
  have e2 : (List.range X.length).map
        (fun i => E.corr (centred E (translate X t) i (knnIdx (Xdist.getD i []) k))
          (offsets (translate X t) i (knnIdx (Xdist.getD i []) k)))
      = (List.range X.length).map
        (fun i => E.corr (centred E X i (knnIdx (Xdist.getD i []) k))
          (offsets X i (knnIdx (Xdist.getD i []) k))) :=
    List.map_congr_left (fun i hi => by
      rw [centred_translate E hcast X t hw i _ (List.mem_range.mp hi) (hnb i),
        offsets_translate X t hw])
  rw [e1, e2]

/-- **knn_translate_invariant.** Shifting the sample changes neither the distance keys, nor the
neighbour lists, nor any `ρ_i`, nor the local configurations `Y_i`, `Z_i`. -/
theorem knn_translate_invariant (E : Env α) (hcast : ∀ m, E.cast m = (m : α)) (X : List (List α))
    (t : List α) (hw : ∀ r ∈ X, r.length = t.length) (k i : ℕ) (hi : i < X.length) :
    sqKeys (translate X t) = sqKeys X
    ∧ knnIdx ((sqKeys (translate X t)).getD i []) k = knnIdx ((sqKeys X).getD i []) k
    ∧ rho E (translate X t) k i (knnIdx ((sqKeys X).getD i []) k)
        = rho E X k i (knnIdx ((sqKeys X).getD i []) k)
    ∧ centred E (translate X t) i (knnIdx ((sqKeys X).getD i []) k)
        = centred E X i (knnIdx ((sqKeys X).getD i []) k)
    ∧ offsets (translate X t) i (knnIdx ((sqKeys X).getD i []) k)
        = offsets X i (knnIdx ((sqKeys X).getD i []) k) := by
  refine ⟨sqKeys_translate X t hw, by rw [sqKeys_translate X t hw], rho_translate E X t hw k i _,
    centred_translate E hcast X t hw i _ hi ?_, offsets_translate X t hw i _⟩
  intro j hj
  have h1 := mem_knnIdx hj
  have h2 := getD_length_le (sqKeys_row_length X) i
  omega

/-- **geom_translate.** The geometric k-NN entropy (Euclidean keys computed from the sample) is
unchanged by translating the sample — unconditionally in `log`, `sqrt`, `corr`, the guards and
ties: every intermediate quantity is literally the same. `X` is a matrix of row width `|t|`;
`cast` is the canonical embedding of ℕ. -/
theorem geom_translate (E : Env α) (hcast : ∀ m, E.cast m = (m : α)) (logN logCd dOverN : α)
    (X : List (List α)) (t : List α) (k : ℕ) (hw : ∀ r ∈ X, r.length = t.length) :
    entropyOf E logN logCd dOverN (translate X t) k = entropyOf E logN logCd dOverN X k := by
  unfold entropyOf
  rw [sqKeys_translate X t hw]
  exact entropy_translate E hcast logN logCd dOverN X _ t k hw (sqKeys_row_length X)

/-! ### scaling: keys, argsort, neighbours -/

theorem sum_map_mul (c : α) (l : List α) : (l.map (c * ·)).sum = c * l.sum := by
  induction l with
  | nil => simp
  | cons a l ih => simp only [List.map_cons, List.sum_cons, ih]; ring

/-- **sqdist_scale.** `|a x − a y|² = a² |x − y|²`. -/
theorem sqdist_scale (a : α) (x y : List α) :
    sqdist (vscale a x) (vscale a y) = a * a * sqdist x y := by
  unfold sqdist vscale
  have e : List.zipWith (fun u v : α => (u - v) * (u - v)) (x.map (a * ·)) (y.map (a * ·))
      = (List.zipWith (fun u v : α => (u - v) * (u - v)) x y).map (a * a * ·) := by
    rw [List.zipWith_map, List.map_zipWith]
    congr 1
    funext u v
    ring
  rw [e, sumL_eq_sum, sumL_eq_sum, sum_map_mul]

theorem sqdist_nonneg (x y : List α) : 0 ≤ sqdist x y := by
  unfold sqdist
  rw [sumL_eq_sum]
  apply List.sum_nonneg
  intro z hz
  obtain ⟨i, hi, rfl⟩ := List.getElem_of_mem hz
  simp only [List.getElem_zipWith]
  exact mul_self_nonneg _

/-- the argsort only looks at the comparisons between the keys: an order-preserving map of the
keys does not change it (ties included — the model's argsort is stable) -/
theorem argsortIdx_map (F : α → α) (keys : List α)
    (hF : ∀ u ∈ keys, ∀ v ∈ keys, (F u ≤ F v ↔ u ≤ v)) :
    argsortIdx (keys.map F) = argsortIdx keys := by
  unfold argsortIdx
  have hmem : ∀ p ∈ keys.zipIdx, p.1 ∈ keys := by
    rintro ⟨x, i⟩ hp
    have := List.mem_zipIdx' hp
    rw [this.2]
    exact List.getElem_mem _
  rw [List.zipIdx_map, ← List.map_mergeSort (r := fun a b : α × ℕ => decide (a.1 ≤ b.1))
    (f := Prod.map F id), List.map_map]
  · congr 1
  · intro p hp q hq
    simp only [Prod.map_fst]
    exact (decide_eq_decide.mpr (hF p.1 (hmem p hp) q.1 (hmem q hq))).symm

/-- **argsort_scale.** For `c > 0` the argsort of the keys `c · s_j` is the argsort of `s_j`. -/
theorem argsort_scale (c : α) (hc : 0 < c) (keys : List α) :
    argsortIdx (keys.map (c * ·)) = argsortIdx keys :=
  argsortIdx_map _ keys (fun _ _ _ _ =>
    ⟨fun h => le_of_mul_le_mul_left h hc, fun h => mul_le_mul_of_nonneg_left h hc.le⟩)

theorem sqKeys_scale (a : α) (X : List (List α)) :
    sqKeys (scale a X) = (sqKeys X).map (·.map (a * a * ·)) := by
  unfold sqKeys scale
  rw [List.map_map, List.map_map]
  apply List.map_congr_left
  intro xi _
  simp only [Function.comp, List.map_map]
  apply List.map_congr_left
  intro xj _
  exact sqdist_scale a xi xj

theorem knnIdx_map_rows (F : α → α) (hF : ∀ u v, (F u ≤ F v ↔ u ≤ v)) (Xdist : List (List α))
    (i k : ℕ) :
    knnIdx ((Xdist.map (·.map F)).getD i []) k = knnIdx (Xdist.getD i []) k := by
  have : (Xdist.map (·.map F)).getD i [] = (Xdist.getD i []).map F :=
    row_map (·.map F) (by simp) Xdist i
  rw [this]
  unfold knnIdx
  rw [argsortIdx_map F _ (fun u _ v _ => hF u v)]

/-- **knn_scale_invariant.** Scaling the sample by `a > 0` leaves every neighbour list unchanged. -/
theorem knn_scale_invariant (a : α) (ha : 0 < a) (X : List (List α)) (i k : ℕ) :
    knnIdx ((sqKeys (scale a X)).getD i []) k = knnIdx ((sqKeys X).getD i []) k := by
  rw [sqKeys_scale]
  exact knnIdx_map_rows (a * a * ·) (fun u v =>
    ⟨fun h => le_of_mul_le_mul_left h (mul_pos ha ha),
     fun h => mul_le_mul_of_nonneg_left h (mul_pos ha ha).le⟩) (sqKeys X) i k

/-! ### scaling: the distance term -/

/-- **rho_scale.** `ρ'_i = a · ρ_i`, given `sqrt (a² s) = a · sqrt s` on `s ≥ 0`. -/
theorem rho_scale (E : Env α) (a : α) (hsqrt : ∀ s, 0 ≤ s → E.sqrt (a * a * s) = a * E.sqrt s)
    (X : List (List α)) (k i : ℕ) (nbrs : List ℕ) :
    rho E (scale a X) k i nbrs = a * rho E X k i nbrs := by
  unfold rho
  rw [row_scale, row_scale, sqdist_scale, hsqrt _ (sqdist_nonneg _ _)]

theorem logDist_scale (E : Env α) (a : α) (ha : 0 < a) (htiny : 0 ≤ E.tiny)
    (hsqrt : ∀ s, 0 ≤ s → E.sqrt (a * a * s) = a * E.sqrt s)
    (hlog : ∀ u v, 0 < u → 0 < v → E.log (u * v) = E.log u + E.log v)
    (X : List (List α)) (k i : ℕ) (nbrs : List ℕ)
    (hg : E.tiny < rho E X k i nbrs) (hg' : E.tiny < rho E (scale a X) k i nbrs) :
    logDist E (scale a X) k i nbrs = E.log a + logDist E X k i nbrs := by
  unfold logDist
  simp only [hg, hg', if_true]
  rw [rho_scale E a hsqrt, hlog a _ ha (lt_of_le_of_lt htiny hg)]

theorem sum_map_const_add {β : Type} (l : List β) (f : β → α) (c : α) :
    (l.map (fun r => c + f r)).sum = (l.length : α) * c + (l.map f).sum := by
  induction l with
  | nil => simp
  | cons a l ih => simp only [List.map_cons, List.sum_cons, ih, List.length_cons]; push_cast; ring

/-- **rho_term_scale.** With all guards inactive (on the sample and on the scaled sample) the sum
of the log-distances grows by exactly `N · log a`; multiplied by `d / N` this is `d · log a`. -/
theorem rho_term_scale (E : Env α) (a : α) (ha : 0 < a) (htiny : 0 ≤ E.tiny)
    (hsqrt : ∀ s, 0 ≤ s → E.sqrt (a * a * s) = a * E.sqrt s)
    (hlog : ∀ u v, 0 < u → 0 < v → E.log (u * v) = E.log u + E.log v)
    (X : List (List α)) (k : ℕ) (nb : ℕ → List ℕ)
    (hg : ∀ i < X.length, E.tiny < rho E X k i (nb i))
    (hg' : ∀ i < X.length, E.tiny < rho E (scale a X) k i (nb i)) :
    sumL ((List.range X.length).map (fun i => logDist E (scale a X) k i (nb i)))
      = (X.length : α) * E.log a
        + sumL ((List.range X.length).map (fun i => logDist E X k i (nb i))) := by
  have e : (List.range X.length).map (fun i => logDist E (scale a X) k i (nb i))
      = (List.range X.length).map (fun i => E.log a + logDist E X k i (nb i)) :=
    List.map_congr_left (fun i hi => logDist_scale E a ha htiny hsqrt hlog X k i (nb i)
      (hg i (List.mem_range.mp hi)) (hg' i (List.mem_range.mp hi)))
  rw [e, sumL_eq_sum, sumL_eq_sum, sum_map_const_add, List.length_range]

/-! ### scaling: the local configurations are scaled -/

theorem vsub_vscale (a : α) (x y : List α) :
    vsub (vscale a x) (vscale a y) = vscale a (vsub x y) := by
  unfold vsub vscale
  rw [List.zipWith_map, List.map_zipWith]
  congr 1
  funext _ _
  ring

theorem getD_vscale (a : α) (r : List α) (j : ℕ) : (vscale a r).getD j 0 = a * r.getD j 0 := by
  unfold vscale
  rw [List.getD_eq_getElem?_getD, List.getD_eq_getElem?_getD, List.getElem?_map]
  cases r[j]? <;> simp

theorem colMean_scale (E : Env α) (a : α) (P : List (List α)) :
    colMean E (P.map (vscale a)) = vscale a (colMean E P) := by
  have hdim : dim (P.map (vscale a)) = dim P := by
    cases P with
    | nil => rfl
    | cons r P => simp [dim, vscale]
  unfold colMean
  rw [hdim]
  unfold vscale
  rw [List.map_map]
  apply List.map_congr_left
  intro j _
  simp only [Function.comp, List.map_map, List.length_map]
  have e : P.map ((fun r => r.getD j 0) ∘ fun r => r.map (a * ·))
      = (P.map (fun r => r.getD j 0)).map (a * ·) := by
    rw [List.map_map]
    apply List.map_congr_left
    intro r _
    exact getD_vscale a r j
  rw [e, sumL_eq_sum, sumL_eq_sum, sum_map_mul]
  ring

/-- the centred neighbourhood `Y_i` of the scaled sample is `a · Y_i` -/
theorem centred_scale (E : Env α) (a : α) (X : List (List α)) (i : ℕ) (nbrs : List ℕ) :
    centred E (scale a X) i nbrs = (centred E X i nbrs).map (vscale a) := by
  have eP : (i :: nbrs).map (row (scale a X)) = ((i :: nbrs).map (row X)).map (vscale a) := by
    rw [List.map_map]
    exact List.map_congr_left (fun j _ => row_scale a X j)
  simp only [centred]
  rw [eP, colMean_scale]
  simp only [List.map_map]
  apply List.map_congr_left
  intro r _
  simp only [Function.comp]
  exact vsub_vscale a _ _

/-- the neighbour offsets `Z_i` of the scaled sample are `a · Z_i` -/
theorem offsets_scale (a : α) (X : List (List α)) (i : ℕ) (nbrs : List ℕ) :
    offsets (scale a X) i nbrs = (offsets X i nbrs).map (vscale a) := by
  unfold offsets
  rw [List.map_map]
  apply List.map_congr_left
  intro j _
  simp only [Function.comp]
  rw [row_scale, row_scale, vsub_vscale]

/-! ### scaling: the entropy -/

/-- **entropy_scale** (any supplied distance matrix whose entries are transformed by an
order-preserving map `F` — `F = (a · )` for the three metrics of `cdist`, `F = (a² · )` for the
squared Euclidean keys of `entropyOf`). -/
theorem entropy_scale (E : Env α) (a : α) (ha : 0 < a) (htiny : 0 ≤ E.tiny)
    (hsqrt : ∀ s, 0 ≤ s → E.sqrt (a * a * s) = a * E.sqrt s)
    (hlog : ∀ u v, 0 < u → 0 < v → E.log (u * v) = E.log u + E.log v)
    (hcorr_scale : ∀ Y Z, E.corr (Y.map (vscale a)) (Z.map (vscale a)) = E.corr Y Z)
    (F : α → α) (hF : ∀ u v, (F u ≤ F v ↔ u ≤ v))
    (logN logCd dOverN dA : α) (X Xdist : List (List α)) (k : ℕ)
    (hd : dOverN * (X.length : α) = dA)
    (hg : ∀ i < X.length, E.tiny < rho E X k i (knnIdx (Xdist.getD i []) k))
    (hg' : ∀ i < X.length,
      E.tiny < rho E (scale a X) k i (knnIdx ((Xdist.map (·.map F)).getD i []) k)) :
    entropy E logN logCd dOverN (scale a X) (Xdist.map (·.map F)) k
      = entropy E logN logCd dOverN X Xdist k + dA * E.log a := by
  have hN : (scale a X).length = X.length := by simp [scale]
  simp only [knnIdx_map_rows F hF] at hg'
  simp only [entropy, hN, knnIdx_map_rows F hF]
  rw [rho_term_scale E a ha htiny hsqrt hlog X k (fun i => knnIdx (Xdist.getD i []) k) hg hg']
  have e2 : (List.range X.length).map
        (fun i => E.corr (centred E (scale a X) i (knnIdx (Xdist.getD i []) k))
          (offsets (scale a X) i (knnIdx (Xdist.getD i []) k)))
      = (List.range X.length).map
        (fun i => E.corr (centred E X i (knnIdx (Xdist.getD i []) k))
          (offsets X i (knnIdx (Xdist.getD i []) k))) :=
    List.map_congr_left (fun i _ => by rw [centred_scale, offsets_scale, hcorr_scale])
  rw [e2, ← hd]
  ring

/-- **geom_scale.** For `a > 0`, `H(aX) = H(X) + d · log a`, where `d` enters through the caller's
constant `dOverN` (`dOverN · N = d`), for `log` additive on positive products, `sqrt` homogeneous
(`hsqrt`), all `1e-12` guards inactive on both samples, and **given** `hcorr_scale`: the local
correction is invariant under scaling of the local configuration `(Y_i, Z_i)`. Ties are allowed
(the model's argsort is stable; for the real code tie-freeness makes NumPy's argsort determined). -/
theorem geom_scale (E : Env α) (a : α) (ha : 0 < a) (htiny : 0 ≤ E.tiny)
    (hsqrt : ∀ s, 0 ≤ s → E.sqrt (a * a * s) = a * E.sqrt s)
    (hlog : ∀ u v, 0 < u → 0 < v → E.log (u * v) = E.log u + E.log v)
    (hcorr_scale : ∀ Y Z, E.corr (Y.map (vscale a)) (Z.map (vscale a)) = E.corr Y Z)
    (logN logCd dOverN dA : α) (X : List (List α)) (k : ℕ)
    (hd : dOverN * (X.length : α) = dA)
    (hg : ∀ i < X.length, E.tiny < rho E X k i (knnIdx ((sqKeys X).getD i []) k))
    (hg' : ∀ i < X.length,
      E.tiny < rho E (scale a X) k i (knnIdx ((sqKeys (scale a X)).getD i []) k)) :
    entropyOf E logN logCd dOverN (scale a X) k
      = entropyOf E logN logCd dOverN X k + dA * E.log a := by
  unfold entropyOf
  rw [sqKeys_scale] at hg' ⊢
  exact entropy_scale E a ha htiny hsqrt hlog hcorr_scale (a * a * ·) (fun u v =>
    ⟨fun h => le_of_mul_le_mul_left h (mul_pos ha ha),
     fun h => mul_le_mul_of_nonneg_left h (mul_pos ha ha).le⟩) logN logCd dOverN dA X _ k hd hg hg'

/-! ### MI / CMI are the documented signed sums -/

/-- **geomMI_def** (definitional). `HX + HY − HXY`, each entropy with the Euclidean keys and the
constants of its own block. The real `geometric_knn_mutual_information` then returns
`clampMI` of this value (`max(0.0, ·)`, and `0.0` for a non-finite value). -/
theorem geomMI_def (E : Env α) (logN : α) (c : Consts α) (X Y : List (List α)) (k : ℕ) :
    geomMI E logN c X Y k
      = entropyOf E logN (c (dim X)).1 (c (dim X)).2 X k
        + entropyOf E logN (c (dim Y)).1 (c (dim Y)).2 Y k
        - entropyOf E logN (c (dim (hcat X Y))).1 (c (dim (hcat X Y))).2 (hcat X Y) k := rfl

/-- **geomCMI_def** (definitional). `HXZ + HYZ − HXYZ − HZ` (returned unclamped). -/
theorem geomCMI_def (E : Env α) (logN : α) (c : Consts α) (X Y Z : List (List α)) (k : ℕ) :
    geomCMI E logN c X Y Z k
      = entropyOf E logN (c (dim (hcat X Z))).1 (c (dim (hcat X Z))).2 (hcat X Z) k
        + entropyOf E logN (c (dim (hcat Y Z))).1 (c (dim (hcat Y Z))).2 (hcat Y Z) k
        - entropyOf E logN (c (dim (hcat (hcat X Y) Z))).1 (c (dim (hcat (hcat X Y) Z))).2
            (hcat (hcat X Y) Z) k
        - entropyOf E logN (c (dim Z)).1 (c (dim Z)).2 Z k := rfl

/-- the clamp is `max 0 ·` -/
theorem clampMI_eq_max (x : α) : clampMI x = max 0 x := by
  unfold clampMI
  split
  · next h => exact (max_eq_right h.le).symm
  · next h => exact (max_eq_left (not_lt.mp h)).symm

/-! ### P1: rotations (linear maps preserving sums of squares) -/

/-- sum of squares of a row -/
def sqnorm (v : List α) : α := sumL (v.map (fun x => x * x))

theorem sqdist_eq_sqnorm_vsub (x y : List α) : sqdist x y = sqnorm (vsub x y) := by
  unfold sqdist sqnorm vsub
  rw [List.map_zipWith]

/-- **sqdist_rotate.** A map that respects differences and preserves sums of squares preserves
squared distances. -/
theorem sqdist_rotate (R : List α → List α) (x y : List α)
    (hsub : vsub (R x) (R y) = R (vsub x y))
    (hnorm : sqnorm (R (vsub x y)) = sqnorm (vsub x y)) :
    sqdist (R x) (R y) = sqdist x y := by
  rw [sqdist_eq_sqnorm_vsub, hsub, hnorm, ← sqdist_eq_sqnorm_vsub]

/-- what the proofs use of an orthogonal map `R` of `α^d`: it respects differences and column
means (linearity) and preserves sums of squares -/
structure IsRot (E : Env α) (d : ℕ) (R : List α → List α) : Prop where
  sub  : ∀ x y, x.length = d → y.length = d → vsub (R x) (R y) = R (vsub x y)
  norm : ∀ v, v.length = d → sqnorm (R v) = sqnorm v
  mean : ∀ P, P ≠ [] → (∀ r ∈ P, r.length = d) → colMean E (P.map R) = R (colMean E P)

theorem vsub_length (x y : List α) (d : ℕ) (hx : x.length = d) (hy : y.length = d) :
    (vsub x y).length = d := by
  unfold vsub; simp [hx, hy]

theorem row_map_lt (f : List α → List α) (X : List (List α)) {j : ℕ} (hj : j < X.length) :
    row (X.map f) j = f (row X j) := by
  unfold row
  rw [List.getD_eq_getElem _ _ (by simpa using hj), List.getD_eq_getElem _ _ hj, List.getElem_map]

theorem sqKeys_rotate (E : Env α) (d : ℕ) (R : List α → List α) (hR : IsRot E d R)
    (X : List (List α)) (hw : ∀ r ∈ X, r.length = d) : sqKeys (X.map R) = sqKeys X := by
  unfold sqKeys
  rw [List.map_map]
  apply List.map_congr_left
  intro xi hi
  simp only [Function.comp, List.map_map]
  apply List.map_congr_left
  intro xj hj
  exact sqdist_rotate R xi xj (hR.sub _ _ (hw _ hi) (hw _ hj))
    (hR.norm _ (vsub_length _ _ d (hw _ hi) (hw _ hj)))

/-- **knn_rotate_invariant.** An orthogonal map of the sample changes neither the distance keys
(hence no neighbour list) nor any `ρ_i`. -/
theorem knn_rotate_invariant (E : Env α) (d : ℕ) (R : List α → List α) (hR : IsRot E d R)
    (X : List (List α)) (hw : ∀ r ∈ X, r.length = d) (i j : ℕ) (hi : i < X.length)
    (hj : j < X.length) :
    sqKeys (X.map R) = sqKeys X
    ∧ E.sqrt (sqdist (row (X.map R) i) (row (X.map R) j)) = E.sqrt (sqdist (row X i) (row X j)) := by
  refine ⟨sqKeys_rotate E d R hR X hw, ?_⟩
  rw [row_map_lt R X hi, row_map_lt R X hj,
    sqdist_rotate R _ _ (hR.sub _ _ (row_length hw hi) (row_length hw hj))
      (hR.norm _ (vsub_length _ _ d (row_length hw hi) (row_length hw hj)))]

/-- **geom_rotate.** The geometric k-NN entropy is unchanged by an orthogonal map of the sample,
**given** `hcorr_rot`: the local correction is invariant under rotating a local configuration
`(Y_i, Z_i)` of width `d`. The distance part (keys, neighbours, `ρ_i`) and the fact that the local
configurations are exactly the rotated ones are proved. -/
theorem geom_rotate (E : Env α) (d : ℕ) (R : List α → List α) (hR : IsRot E d R)
    (hcorr_rot : ∀ Y Z, (∀ r ∈ Y, r.length = d) → (∀ r ∈ Z, r.length = d) →
      E.corr (Y.map R) (Z.map R) = E.corr Y Z)
    (logN logCd dOverN : α) (X : List (List α)) (k : ℕ) (hw : ∀ r ∈ X, r.length = d) :
    entropyOf E logN logCd dOverN (X.map R) k = entropyOf E logN logCd dOverN X k := by
  have hN : (X.map R).length = X.length := by simp
  have hnb : ∀ i, ∀ j ∈ knnIdx ((sqKeys X).getD i []) k, j < X.length := by
    intro i j hj
    have h1 := mem_knnIdx hj
    have h2 := getD_length_le (sqKeys_row_length X) i
    omega
  have hsq : ∀ i j, i < X.length → j < X.length →
      sqdist (row (X.map R) i) (row (X.map R) j) = sqdist (row X i) (row X j) := by
    intro i j hi hj
    rw [row_map_lt R X hi, row_map_lt R X hj,
      sqdist_rotate R _ _ (hR.sub _ _ (row_length hw hi) (row_length hw hj))
        (hR.norm _ (vsub_length _ _ d (row_length hw hi) (row_length hw hj)))]
  unfold entropyOf
  rw [sqKeys_rotate E d R hR X hw]
  simp only [entropy, hN]
  have e1 : (List.range X.length).map
        (fun i => logDist E (X.map R) k i (knnIdx ((sqKeys X).getD i []) k))
      = (List.range X.length).map (fun i => logDist E X k i (knnIdx ((sqKeys X).getD i []) k)) := by
    apply List.map_congr_left
    intro i hi
    have hi' := List.mem_range.mp hi
    have hj : (knnIdx ((sqKeys X).getD i []) k).getD (k - 1) 0 < X.length := by
      by_cases h : k - 1 < (knnIdx ((sqKeys X).getD i []) k).length
      · rw [List.getD_eq_getElem _ _ h]; exact hnb i _ (List.getElem_mem h)
      · rw [List.getD_eq_default _ _ (by omega)]; omega
    unfold logDist rho
    rw [hsq _ _ hi' hj]
  have e2 : (List.range X.length).map
        (fun i => E.corr (centred E (X.map R) i (knnIdx ((sqKeys X).getD i []) k))
          (offsets (X.map R) i (knnIdx ((sqKeys X).getD i []) k)))
      = (List.range X.length).map
        (fun i => E.corr (centred E X i (knnIdx ((sqKeys X).getD i []) k))
          (offsets X i (knnIdx ((sqKeys X).getD i []) k))) := by
    apply List.map_congr_left
    intro i hi
    have hi' := List.mem_range.mp hi
    have hn := hnb i
    generalize knnIdx ((sqKeys X).getD i []) k = nbrs at hn ⊢
    have eP : (i :: nbrs).map (row (X.map R)) = ((i :: nbrs).map (row X)).map R := by
      rw [List.map_map]
      apply List.map_congr_left
      intro j hj
      rcases List.mem_cons.mp hj with rfl | hj
      · exact row_map_lt R X hi'
      · exact row_map_lt R X (hn j hj)
    have hPw : ∀ r ∈ (i :: nbrs).map (row X), r.length = d := by
      intro r hr
      obtain ⟨j, hj, rfl⟩ := List.mem_map.mp hr
      rcases List.mem_cons.mp hj with rfl | hj
      · exact row_length hw hi'
      · exact row_length hw (hn j hj)
    have hm : (colMean E ((i :: nbrs).map (row X))).length = d := by
      unfold colMean
      simp [dim, row_length hw hi']
    have eY : centred E (X.map R) i nbrs = (centred E X i nbrs).map R := by
      simp only [centred]
      rw [eP, hR.mean _ (by simp) hPw]
      simp only [List.map_map]
      apply List.map_congr_left
      intro j hj
      simp only [Function.comp]
      exact hR.sub _ _ (hPw _ (List.mem_map_of_mem hj)) hm
    have eZ : offsets (X.map R) i nbrs = (offsets X i nbrs).map R := by
      unfold offsets
      rw [List.map_map]
      apply List.map_congr_left
      intro j hj
      simp only [Function.comp]
      rw [row_map_lt R X hi', row_map_lt R X (hn j hj),
        hR.sub _ _ (row_length hw (hn j hj)) (row_length hw hi')]
    have wY : ∀ r ∈ centred E X i nbrs, r.length = d := by
      intro r hr
      simp only [centred] at hr
      obtain ⟨p, hp, rfl⟩ := List.mem_map.mp hr
      exact vsub_length _ _ d (hPw p hp) hm
    have wZ : ∀ r ∈ offsets X i nbrs, r.length = d := by
      intro r hr
      unfold offsets at hr
      obtain ⟨j, hj, rfl⟩ := List.mem_map.mp hr
      exact vsub_length _ _ d (row_length hw (hn j hj)) (row_length hw hi')
    rw [eY, eZ, hcorr_rot _ _ wY wZ]
  rw [e1, e2]

/-! ### P1: row permutations (tie-free samples) -/

/-- the comparator of `argsortIdx` -/
abbrev keyLe (a b : α × ℕ) : Bool := decide (a.1 ≤ b.1)

theorem keyLe_trans (a b c : α × ℕ) : keyLe a b = true → keyLe b c = true → keyLe a c = true := by
  simp only [keyLe, decide_eq_true_eq]; exact le_trans

theorem keyLe_total (a b : α × ℕ) : (keyLe a b || keyLe b a) = true := by
  simp only [keyLe, Bool.or_eq_true, decide_eq_true_eq]; exact le_total _ _

theorem zipIdx_eq_map_range (keys : List α) :
    keys.zipIdx = (List.range keys.length).map (fun j => (keys.getD j 0, j)) := by
  apply List.ext_getElem
  · simp
  · intro n h1 h2
    have hn : n < keys.length := by simpa using h1
    simp [hn]

/-- For a tie-free row of keys, the argsort of the rearranged row, read through the arrangement,
is the argsort of the row: the sorted order of distinct keys is unique. -/
theorem argsortIdx_perm (keys : List α) (hnd : keys.Nodup) (idx : List ℕ)
    (hidx : idx.Perm (List.range keys.length)) :
    (argsortIdx (idx.map (keys.getD · 0))).map (idx.getD · 0) = argsortIdx keys := by
  have A : (idx.map (keys.getD · 0)).zipIdx.map (fun p : α × ℕ => (p.1, idx.getD p.2 0))
      = idx.map (fun j => (keys.getD j 0, j)) := by
    apply List.ext_getElem
    · simp
    · intro n h1 h2
      have hn : n < idx.length := by simpa using h2
      simp [hn]
  have P1 : (((idx.map (keys.getD · 0)).zipIdx.mergeSort keyLe).map
      (fun p : α × ℕ => (p.1, idx.getD p.2 0))).Perm (keys.zipIdx.mergeSort keyLe) := by
    refine ((List.mergeSort_perm _ _).map _).trans ?_
    rw [A]
    refine (hidx.map _).trans ?_
    rw [← zipIdx_eq_map_range]
    exact (List.mergeSort_perm _ _).symm
  have S1 : (((idx.map (keys.getD · 0)).zipIdx.mergeSort keyLe).map
      (fun p : α × ℕ => (p.1, idx.getD p.2 0))).Pairwise (fun a b => keyLe a b = true) := by
    rw [List.pairwise_map]
    exact List.pairwise_mergeSort keyLe_trans keyLe_total _
  have S2 : (keys.zipIdx.mergeSort keyLe).Pairwise (fun a b => keyLe a b = true) :=
    List.pairwise_mergeSort keyLe_trans keyLe_total _
  have anti : ∀ a b : α × ℕ,
      a ∈ ((idx.map (keys.getD · 0)).zipIdx.mergeSort keyLe).map
        (fun p : α × ℕ => (p.1, idx.getD p.2 0)) →
      b ∈ keys.zipIdx.mergeSort keyLe → keyLe a b = true → keyLe b a = true → a = b := by
    rintro ⟨x, i⟩ ⟨y, j⟩ ha hb hab hba
    have ha' := List.mem_zipIdx' (List.mem_mergeSort.mp (P1.subset ha))
    have hb' := List.mem_zipIdx' (List.mem_mergeSort.mp hb)
    simp only [keyLe, decide_eq_true_eq] at hab hba
    have hxy : x = y := le_antisymm hab hba
    have hij : i = j := (hnd.getElem_inj_iff).mp (by rw [← ha'.2, ← hb'.2, hxy])
    rw [hxy, hij]
  have key := List.Perm.eq_of_pairwise anti S1 S2 P1
  unfold argsortIdx
  change (((idx.map (keys.getD · 0)).zipIdx.mergeSort keyLe).map (·.2)).map (idx.getD · 0)
    = (keys.zipIdx.mergeSort keyLe).map (·.2)
  rw [← key, List.map_map, List.map_map]
  rfl

theorem knnIdx_perm (keys : List α) (hnd : keys.Nodup) (idx : List ℕ)
    (hidx : idx.Perm (List.range keys.length)) (k : ℕ) :
    (knnIdx (idx.map (keys.getD · 0)) k).map (idx.getD · 0) = knnIdx keys k := by
  unfold knnIdx
  rw [List.map_take, List.map_drop, argsortIdx_perm keys hnd idx hidx]

theorem knnIdx_length (keys : List α) (k : ℕ) (hk : k < keys.length) :
    (knnIdx keys k).length = k := by
  unfold knnIdx argsortIdx
  simp only [List.length_take, List.length_drop, List.length_map, List.length_mergeSort,
    List.length_zipIdx]
  omega

theorem sum_reindex (idx : List ℕ) (N : ℕ) (hidx : idx.Perm (List.range N)) (G : ℕ → α) :
    sumL ((List.range N).map (fun i => G (idx.getD i 0))) = sumL ((List.range N).map G) := by
  have hlen : idx.length = N := by simpa using hidx.length_eq
  have e : (List.range N).map (fun i => G (idx.getD i 0)) = idx.map G := by
    apply List.ext_getElem
    · simp [hlen]
    · intro n h1 h2
      have hn : n < idx.length := by simpa using h2
      simp [hn]
  rw [e]
  exact sumL_perm (hidx.map G)

theorem getD_map_row (f : List α → α) (X : List (List α)) {j : ℕ} (hj : j < X.length) :
    (X.map f).getD j 0 = f (row X j) := by
  unfold row
  rw [List.getD_eq_getElem (X.map f) 0 (by simpa using hj), List.getElem_map,
    List.getD_eq_getElem X [] hj]

/-- **geom_row_perm.** For a tie-free sample (in every row of the key matrix the keys are pairwise
distinct, so the argsort is determined) and `1 ≤ k < N` (the range in which the Python runs),
reordering the rows of the sample by any arrangement `idx` of `0..N−1` (`X[idx]` in numpy) leaves
the geometric k-NN entropy unchanged — with **no** hypothesis on `log`, `sqrt`, `corr`: sample `i'`
of the reordered sample has the same `ρ`, the same centred neighbourhood `Y` and the same offsets
`Z` (as lists, in the same order) as sample `idx[i']` of the original. -/
theorem geom_row_perm (E : Env α) (logN logCd dOverN : α) (X : List (List α)) (k : ℕ)
    (htf : ∀ r ∈ sqKeys X, r.Nodup) (hk : 1 ≤ k) (hkN : k < X.length)
    (idx : List ℕ) (hidx : idx.Perm (List.range X.length)) :
    entropyOf E logN logCd dOverN (idx.map (row X)) k = entropyOf E logN logCd dOverN X k := by
  have hlen : idx.length = X.length := by simpa using hidx.length_eq
  have hN : (idx.map (row X)).length = X.length := by simp [hlen]
  -- σ maps valid indices to valid indices
  have hσ : ∀ i, i < X.length → idx.getD i 0 < X.length := by
    intro i hi
    rw [List.getD_eq_getElem _ _ (by omega)]
    exact List.mem_range.mp (hidx.subset (List.getElem_mem _))
  have hrow : ∀ j, j < X.length → row (idx.map (row X)) j = row X (idx.getD j 0) := by
    intro j hj
    unfold row
    rw [List.getD_eq_getElem _ _ (by simpa [hlen] using hj), List.getElem_map,
      List.getD_eq_getElem idx 0 (by omega)]
  -- the key rows
  have hkeyrow : ∀ i, i < X.length →
      (sqKeys X).getD i [] = X.map (fun xj => sqdist (row X i) xj) := by
    intro i hi
    unfold sqKeys row
    rw [List.getD_eq_getElem _ _ (by simpa using hi), List.getElem_map,
      List.getD_eq_getElem _ _ hi]
  have hkeys' : ∀ i, i < X.length →
      (sqKeys (idx.map (row X))).getD i []
        = idx.map (((sqKeys X).getD (idx.getD i 0) []).getD · 0) := by
    intro i hi
    rw [hkeyrow _ (hσ i hi)]
    have : (sqKeys (idx.map (row X))).getD i []
        = (idx.map (row X)).map (fun xj => sqdist (row (idx.map (row X)) i) xj) := by
      unfold sqKeys
      rw [List.getD_eq_getElem _ _ (by simpa [hlen] using hi), List.getElem_map]
      congr 2
      unfold row
      rw [List.getD_eq_getElem _ _ (by simpa [hlen] using hi)]
    rw [this, hrow i hi, List.map_map]
    apply List.map_congr_left
    intro j hj
    have hj' : j < X.length := List.mem_range.mp (hidx.subset hj)
    simp only [Function.comp]
    rw [getD_map_row _ X hj']
  -- neighbour lists correspond
  have hnbmap : ∀ i, i < X.length →
      (knnIdx ((sqKeys (idx.map (row X))).getD i []) k).map (idx.getD · 0)
        = knnIdx ((sqKeys X).getD (idx.getD i 0) []) k := by
    intro i hi
    have hl : ((sqKeys X).getD (idx.getD i 0) []).length = X.length := by
      rw [hkeyrow _ (hσ i hi)]; simp
    have hnd : ((sqKeys X).getD (idx.getD i 0) []).Nodup := by
      apply htf
      rw [List.getD_eq_getElem _ _ (by simpa [sqKeys] using hσ i hi)]
      exact List.getElem_mem _
    rw [hkeys' i hi]
    exact knnIdx_perm _ hnd idx (by rw [hl]; exact hidx) k
  have hnblt : ∀ i, i < X.length →
      ∀ j ∈ knnIdx ((sqKeys (idx.map (row X))).getD i []) k, j < X.length := by
    intro i hi j hj
    have h1 := mem_knnIdx hj
    rw [hkeys' i hi] at h1
    simpa [hlen] using h1
  have hnblen : ∀ i, i < X.length →
      (knnIdx ((sqKeys (idx.map (row X))).getD i []) k).length = k := by
    intro i hi
    apply knnIdx_length
    rw [hkeys' i hi]
    simpa [hlen] using hkN
  -- per-sample quantities
  have hrho : ∀ i, i < X.length →
      rho E (idx.map (row X)) k i (knnIdx ((sqKeys (idx.map (row X))).getD i []) k)
        = rho E X k (idx.getD i 0) (knnIdx ((sqKeys X).getD (idx.getD i 0) []) k) := by
    intro i hi
    rw [← hnbmap i hi]
    have hl := hnblen i hi
    have hlt := hnblt i hi
    generalize knnIdx ((sqKeys (idx.map (row X))).getD i []) k = nb at hl hlt
    unfold rho
    have h1 : k - 1 < nb.length := by omega
    rw [List.getD_eq_getElem nb 0 h1,
      List.getD_eq_getElem (nb.map (idx.getD · 0)) 0 (by simpa using h1),
      List.getElem_map, hrow i hi, hrow _ (hlt _ (List.getElem_mem h1))]
  have hY : ∀ i, i < X.length →
      centred E (idx.map (row X)) i (knnIdx ((sqKeys (idx.map (row X))).getD i []) k)
        = centred E X (idx.getD i 0) (knnIdx ((sqKeys X).getD (idx.getD i 0) []) k) := by
    intro i hi
    rw [← hnbmap i hi]
    have hlt := hnblt i hi
    generalize knnIdx ((sqKeys (idx.map (row X))).getD i []) k = nb at hlt
    have eP : (i :: nb).map (row (idx.map (row X)))
        = (idx.getD i 0 :: nb.map (idx.getD · 0)).map (row X) := by
      simp only [List.map_cons, List.map_map]
      rw [hrow i hi]
      congr 1
      apply List.map_congr_left
      intro j hj
      exact hrow j (hlt j hj)
    simp only [centred]
    rw [eP]
  have hZ : ∀ i, i < X.length →
      offsets (idx.map (row X)) i (knnIdx ((sqKeys (idx.map (row X))).getD i []) k)
        = offsets X (idx.getD i 0) (knnIdx ((sqKeys X).getD (idx.getD i 0) []) k) := by
    intro i hi
    rw [← hnbmap i hi]
    have hlt := hnblt i hi
    generalize knnIdx ((sqKeys (idx.map (row X))).getD i []) k = nb at hlt
    unfold offsets
    rw [List.map_map]
    apply List.map_congr_left
    intro j hj
    simp only [Function.comp]
    rw [hrow i hi, hrow j (hlt j hj)]
  unfold entropyOf
  simp only [entropy, hN]
  have e1 : (List.range X.length).map (fun i =>
        logDist E (idx.map (row X)) k i (knnIdx ((sqKeys (idx.map (row X))).getD i []) k))
      = (List.range X.length).map (fun i =>
        (fun i => logDist E X k i (knnIdx ((sqKeys X).getD i []) k)) (idx.getD i 0)) := by
    apply List.map_congr_left
    intro i hi
    unfold logDist
    rw [hrho i (List.mem_range.mp hi)]
  have e2 : (List.range X.length).map (fun i =>
        E.corr (centred E (idx.map (row X)) i (knnIdx ((sqKeys (idx.map (row X))).getD i []) k))
          (offsets (idx.map (row X)) i (knnIdx ((sqKeys (idx.map (row X))).getD i []) k)))
      = (List.range X.length).map (fun i =>
        (fun i => E.corr (centred E X i (knnIdx ((sqKeys X).getD i []) k))
          (offsets X i (knnIdx ((sqKeys X).getD i []) k))) (idx.getD i 0)) := by
    apply List.map_congr_left
    intro i hi
    rw [hY i (List.mem_range.mp hi), hZ i (List.mem_range.mp hi)]
  rw [e1, e2,
    sum_reindex idx X.length hidx (fun i => logDist E X k i (knnIdx ((sqKeys X).getD i []) k)),
    sum_reindex idx X.length hidx (fun i => E.corr (centred E X i (knnIdx ((sqKeys X).getD i []) k))
      (offsets X i (knnIdx ((sqKeys X).getD i []) k)))]

/-! ### evaluating the argsort of a concrete tie-free row -/

/-- if reading the keys through an arrangement `idx` of the positions gives a strictly increasing
list, then `idx` is the argsort -/
theorem argsortIdx_eq_of_sorted (keys : List α) (idx : List ℕ)
    (hidx : idx.Perm (List.range keys.length))
    (hs : (idx.map (keys.getD · 0)).Pairwise (· < ·)) : argsortIdx keys = idx := by
  have P1 : (keys.zipIdx.mergeSort keyLe).Perm (idx.map (fun j => (keys.getD j 0, j))) := by
    refine (List.mergeSort_perm _ _).trans ?_
    rw [zipIdx_eq_map_range]
    exact (hidx.map _).symm
  have S1 : (keys.zipIdx.mergeSort keyLe).Pairwise (fun a b => keyLe a b = true) :=
    List.pairwise_mergeSort keyLe_trans keyLe_total _
  have S2 : (idx.map (fun j => (keys.getD j 0, j))).Pairwise (fun a b => keyLe a b = true) := by
    rw [List.pairwise_map] at hs ⊢
    exact hs.imp (fun h => by simpa [keyLe] using h.le)
  have hnd : ((idx.map (fun j => (keys.getD j 0, j))).map Prod.fst).Nodup := by
    rw [List.map_map]
    exact hs.imp (fun h => ne_of_lt h)
  have anti : ∀ a b : α × ℕ, a ∈ keys.zipIdx.mergeSort keyLe →
      b ∈ idx.map (fun j => (keys.getD j 0, j)) → keyLe a b = true → keyLe b a = true → a = b := by
    intro a b ha hb hab hba
    simp only [keyLe, decide_eq_true_eq] at hab hba
    exact List.inj_on_of_nodup_map hnd (P1.subset ha) hb (le_antisymm hab hba)
  have key := List.Perm.eq_of_pairwise anti S1 S2 P1
  unfold argsortIdx
  change (keys.zipIdx.mergeSort keyLe).map (·.2) = idx
  rw [key, List.map_map]
  exact (List.map_congr_left (fun _ _ => rfl)).trans (List.map_id idx)

theorem knnIdx_eq_of_sorted (keys : List α) (idx : List ℕ)
    (hidx : idx.Perm (List.range keys.length))
    (hs : (idx.map (keys.getD · 0)).Pairwise (· < ·)) (k : ℕ) :
    knnIdx keys k = (idx.drop 1).take k := by
  unfold knnIdx
  rw [argsortIdx_eq_of_sorted keys idx hidx hs]

/-! ### the combined statement -/

/-- **geom_laws_partial.** The four transformation laws of C12 for the model's entropy (Euclidean
keys), for a sample matrix `X` of row width `d`, in one statement.

PROVED: the translation law (unconditionally); the row-order law (tie-free sample, `1 ≤ k < N`;
unconditionally in `log`, `sqrt`, `corr`); for scaling and for orthogonal maps everything except
the local correction itself — keys, neighbour lists, `ρ_i`, the exact growth `N · log a` of the
distance term, and the fact that the local configurations `(Y_i, Z_i)` of the transformed sample
are exactly the transformed configurations of the sample.

HYPOTHESES `hcorr_scale` and `hcorr_rot`: invariance of the local correction `corr Y_i Z_i` under
similarity maps of the local configuration, for an ARBITRARY correction functional. They are
discharged for the mathematical SVD-based correction `corrMath` (Mathlib's
`LinearMap.singularValues`) in `CEProofs/C12Svd.lean`, whose `geom_laws_real` is this theorem
without any hypothesis about the correction. -/
theorem geom_laws_partial (E : Env α) (hcast : ∀ m, E.cast m = (m : α))
    (logN logCd dOverN dA : α) (X : List (List α)) (k d : ℕ)
    (hw : ∀ r ∈ X, r.length = d) (hd : dOverN * (X.length : α) = dA) :
    -- translation
    (∀ t : List α, t.length = d →
      entropyOf E logN logCd dOverN (translate X t) k = entropyOf E logN logCd dOverN X k)
    -- sample order
    ∧ ((∀ r ∈ sqKeys X, r.Nodup) → 1 ≤ k → k < X.length →
        ∀ idx : List ℕ, idx.Perm (List.range X.length) →
        entropyOf E logN logCd dOverN (idx.map (row X)) k = entropyOf E logN logCd dOverN X k)
    -- scaling by a > 0
    ∧ (∀ a : α, 0 < a → 0 ≤ E.tiny →
        (∀ s, 0 ≤ s → E.sqrt (a * a * s) = a * E.sqrt s) →
        (∀ u v, 0 < u → 0 < v → E.log (u * v) = E.log u + E.log v) →
        (∀ Y Z, E.corr (Y.map (vscale a)) (Z.map (vscale a)) = E.corr Y Z) →
        (∀ i < X.length, E.tiny < rho E X k i (knnIdx ((sqKeys X).getD i []) k)) →
        (∀ i < X.length,
          E.tiny < rho E (scale a X) k i (knnIdx ((sqKeys (scale a X)).getD i []) k)) →
        entropyOf E logN logCd dOverN (scale a X) k
          = entropyOf E logN logCd dOverN X k + dA * E.log a)
    -- orthogonal maps
    ∧ (∀ R : List α → List α, IsRot E d R →
        (∀ Y Z, (∀ r ∈ Y, r.length = d) → (∀ r ∈ Z, r.length = d) →
          E.corr (Y.map R) (Z.map R) = E.corr Y Z) →
        entropyOf E logN logCd dOverN (X.map R) k = entropyOf E logN logCd dOverN X k) := by
  refine ⟨?_, ?_, ?_, ?_⟩
  · intro t ht
    exact geom_translate E hcast logN logCd dOverN X t k (fun r hr => (hw r hr).trans ht.symm)
  · intro htf hk hkN idx hidx
    exact geom_row_perm E logN logCd dOverN X k htf hk hkN idx hidx
  · intro a ha htiny hsqrt hlog hcorr hg hg'
    exact geom_scale E a ha htiny hsqrt hlog hcorr logN logCd dOverN dA X k hd hg hg'
  · intro R hR hcorr
    exact geom_rotate E d R hR hcorr logN logCd dOverN X k hw

end field

/-! ### the real-number instance of the scaling law

`hsqrt` and `hlog` are the defining properties of the real square root and logarithm; over ℚ they
have no instance besides degenerate ones (`sqrt = 0`, `log = 0`) or exotic ones (valuations), so
the instance is stated over ℝ. -/

/-- `hsqrt` for `Real.sqrt`, every `a ≥ 0` -/
theorem hsqrt_real (a : ℝ) (ha : 0 ≤ a) : ∀ s, 0 ≤ s → Real.sqrt (a * a * s) = a * Real.sqrt s := by
  intro s _
  rw [Real.sqrt_mul (mul_self_nonneg a), Real.sqrt_mul_self ha]

/-- `hlog` for `Real.log` -/
theorem hlog_real : ∀ u v : ℝ, 0 < u → 0 < v → Real.log (u * v) = Real.log u + Real.log v :=
  fun _ _ hu hv => Real.log_mul hu.ne' hv.ne'

/-- **geom_scale_real.** `geom_scale` with the real logarithm and square root: only the guard
hypotheses and `hcorr_scale` remain. -/
theorem geom_scale_real (E : Env ℝ) (hl : E.log = Real.log) (hs : E.sqrt = Real.sqrt) (a : ℝ)
    (ha : 0 < a) (htiny : 0 ≤ E.tiny)
    (hcorr_scale : ∀ Y Z, E.corr (Y.map (vscale a)) (Z.map (vscale a)) = E.corr Y Z)
    (logN logCd dOverN dA : ℝ) (X : List (List ℝ)) (k : ℕ)
    (hd : dOverN * (X.length : ℝ) = dA)
    (hg : ∀ i < X.length, E.tiny < rho E X k i (knnIdx ((sqKeys X).getD i []) k))
    (hg' : ∀ i < X.length,
      E.tiny < rho E (scale a X) k i (knnIdx ((sqKeys (scale a X)).getD i []) k)) :
    entropyOf E logN logCd dOverN (scale a X) k
      = entropyOf E logN logCd dOverN X k + dA * Real.log a := by
  rw [← hl]
  exact geom_scale E a ha htiny (by rw [hs]; exact hsqrt_real a ha.le) (by rw [hl]; exact hlog_real)
    hcorr_scale logN logCd dOverN dA X k hd hg hg'

/-! ### the hypotheses are satisfiable -/

section examples

/-- ℚ stand-ins: for translation and sample order any functions will do (this `corr` is neither
translation nor scale invariant as a function of arbitrary arguments) -/
def envQ : Env ℚ :=
  { log := fun x => x * x - 3, sqrt := fun x => x + 1,
    corr := fun Y Z => (Y.headD []).headD 0 + 3 * sumL (Z.map sqnorm),
    cast := Nat.cast, tiny := 1 / 10 ^ 12, logTiny := -12 }

/-- `geom_translate`: 4 points in ℚ², shifted by (2, −3), k = 2 -/
example : entropyOf envQ 2 1 (1 / 2) (translate [[0, 1], [3, 1], [1, 5], [7, 2]] [2, -3]) 2
    = entropyOf envQ 2 1 (1 / 2) [[0, 1], [3, 1], [1, 5], [7, 2]] 2 :=
  geom_translate envQ (fun _ => rfl) _ _ _ _ _ 2 (by decide)

example : translate ([[0, 1], [3, 1], [1, 5], [7, 2]] : List (List ℚ)) [2, -3]
    = [[2, -2], [5, -2], [3, 2], [9, -1]] := by norm_num [translate, vadd]

/-- `geom_row_perm`: the same (tie-free) sample, rows taken in the order 2, 0, 3, 1 -/
example : entropyOf envQ 2 1 (1 / 2) ([2, 0, 3, 1].map (row [[0, 1], [3, 1], [1, 5], [7, 2]])) 2
    = entropyOf envQ 2 1 (1 / 2) [[0, 1], [3, 1], [1, 5], [7, 2]] 2 :=
  geom_row_perm envQ _ _ _ _ 2 (by norm_num [sqKeys, sqdist, sumL]) (by decide) (by decide) _
    (by decide)

example : [2, 0, 3, 1].map (row ([[0, 1], [3, 1], [1, 5], [7, 2]] : List (List ℚ)))
    = [[1, 5], [0, 1], [7, 2], [3, 1]] := by decide

/-- its key matrix: in every row the keys are pairwise distinct -/
example : sqKeys ([[0, 1], [3, 1], [1, 5], [7, 2]] : List (List ℚ))
    = [[0, 9, 17, 50], [9, 0, 20, 17], [17, 20, 0, 45], [50, 17, 45, 0]] := by
  norm_num [sqKeys, sqdist, sumL]

/-- the model's argsort / neighbour selection on that first row (`argsortIdx_eq_of_sorted`) -/
example : knnIdx ([0, 9, 17, 50] : List ℚ) 2 = [1, 2] := by
  rw [knnIdx_eq_of_sorted _ [0, 1, 2, 3] (by decide) (by decide)]; rfl

example : knnIdx ([9, 0, 20, 17] : List ℚ) 2 = [0, 3] := by
  rw [knnIdx_eq_of_sorted _ [1, 0, 3, 2] (by decide) (by decide)]; rfl

/-- `geom_rotate`: the quarter turn of ℚ² -/
def rot90 (v : List ℚ) : List ℚ := [-(v.getD 1 0), v.getD 0 0]

theorem rot90_isRot (E : Env ℚ) : IsRot E 2 rot90 where
  sub := by
    intro x y hx hy
    obtain ⟨a, b, rfl⟩ := List.length_eq_two.mp hx
    obtain ⟨c, d, rfl⟩ := List.length_eq_two.mp hy
    simp [rot90, vsub]
    ring
  norm := by
    intro v hv
    obtain ⟨a, b, rfl⟩ := List.length_eq_two.mp hv
    simp [rot90, sqnorm, sumL]
    ring
  mean := by
    intro P hP hw
    have hdim : dim P = 2 := by
      obtain ⟨a, P', rfl⟩ := List.exists_cons_of_ne_nil hP
      simpa [dim] using hw a (by simp)
    have hdim' : dim (P.map rot90) = 2 := by
      obtain ⟨a, P', rfl⟩ := List.exists_cons_of_ne_nil hP
      simp [dim, rot90]
    have e : (P.map rot90).map (·.getD 0 0) = (P.map (·.getD 1 0)).map (-1 * ·) := by
      rw [List.map_map, List.map_map]
      apply List.map_congr_left
      intro r _
      simp [rot90]
    have e' : (P.map rot90).map (·.getD 1 0) = P.map (·.getD 0 0) := by
      rw [List.map_map]
      apply List.map_congr_left
      intro r _
      simp [rot90]
    unfold colMean
    rw [hdim, hdim']
    simp only [List.range_succ, List.range_zero, List.nil_append, List.cons_append, List.map_cons,
      List.map_nil]
    rw [e, e', List.length_map, sumL_eq_sum, sumL_eq_sum, sumL_eq_sum, sum_map_mul]
    simp only [rot90, List.getD_cons_zero, List.getD_cons_succ]
    congr 1
    ring

/-- a correction that is invariant under orthogonal maps of width-2 configurations -/
def envRot : Env ℚ :=
  { envQ with corr := fun Y Z => sumL (Y.map sqnorm) + 3 * sumL (Z.map sqnorm) }

example : entropyOf envRot 2 1 (1 / 2) (([[0, 1], [3, 1], [1, 5], [7, 2]] : List (List ℚ)).map rot90) 2
    = entropyOf envRot 2 1 (1 / 2) [[0, 1], [3, 1], [1, 5], [7, 2]] 2 := by
  apply geom_rotate envRot 2 rot90 (rot90_isRot _) _ _ _ _ _ 2 (by decide)
  intro Y Z hY hZ
  have h : ∀ W : List (List ℚ), (∀ r ∈ W, r.length = 2) → (W.map rot90).map sqnorm = W.map sqnorm := by
    intro W hW
    rw [List.map_map]
    exact List.map_congr_left (fun r hr => (rot90_isRot envRot).norm r (hW r hr))
  simp only [envRot, h Y hY, h Z hZ]

example : ([[0, 1], [3, 1], [1, 5], [7, 2]] : List (List ℚ)).map rot90
    = [[-1, 0], [-1, 3], [-5, 1], [-2, 7]] := by simp [rot90]

/-- `geom_scale`: real logarithm and square root, the guard constants of the code, and a
(non-constant) correction that is invariant under scaling by `a > 0` -/
noncomputable def envR : Env ℝ :=
  { log := Real.log, sqrt := Real.sqrt,
    corr := fun Y Z => if (Z.headD []).headD 0 ≤ (Y.headD []).headD 0 then 1 else 0,
    cast := Nat.cast, tiny := 1 / 10 ^ 12, logTiny := -12 }

theorem envR_corr_scale (a : ℝ) (ha : 0 < a) (Y Z : List (List ℝ)) :
    envR.corr (Y.map (vscale a)) (Z.map (vscale a)) = envR.corr Y Z := by
  have h : ∀ W : List (List ℝ), ((W.map (vscale a)).headD []).headD 0 = a * (W.headD []).headD 0 := by
    intro W
    cases W with
    | nil => simp
    | cons r W => cases r <;> simp [vscale]
  simp only [envR, h]
  have : a * (Z.headD []).headD 0 ≤ a * (Y.headD []).headD 0 ↔ (Z.headD []).headD 0 ≤ (Y.headD []).headD 0 :=
    ⟨fun h => le_of_mul_le_mul_left h ha, fun h => mul_le_mul_of_nonneg_left h ha.le⟩
  simp only [this]

/-- three points on the line, `k = 1`, any factor `a ≥ 1` (so that the guards of the scaled sample
follow from those of the sample): `H(aX) = H(X) + 1 · log a` -/
example (a : ℝ) (ha : 1 ≤ a) :
    entropyOf envR (Real.log 3) (Real.log 2) (1 / 3) (scale a [[0], [1], [3]]) 1
      = entropyOf envR (Real.log 3) (Real.log 2) (1 / 3) [[0], [1], [3]] 1 + 1 * Real.log a := by
  have ha0 : 0 < a := by linarith
  have hK : sqKeys ([[0], [1], [3]] : List (List ℝ)) = [[0, 1, 9], [1, 0, 4], [9, 4, 0]] := by
    norm_num [sqKeys, sqdist, sumL]
  have n0 : knnIdx ([0, 1, 9] : List ℝ) 1 = [1] := by
    rw [knnIdx_eq_of_sorted _ [0, 1, 2] (by decide) (by norm_num)]; rfl
  have n1 : knnIdx ([1, 0, 4] : List ℝ) 1 = [0] := by
    rw [knnIdx_eq_of_sorted _ [1, 0, 2] (by decide) (by norm_num)]; rfl
  have n2 : knnIdx ([9, 4, 0] : List ℝ) 1 = [1] := by
    rw [knnIdx_eq_of_sorted _ [2, 1, 0] (by decide) (by norm_num)]; rfl
  have hg : ∀ i < ([[0], [1], [3]] : List (List ℝ)).length, envR.tiny
      < rho envR [[0], [1], [3]] 1 i (knnIdx ((sqKeys ([[0], [1], [3]] : List (List ℝ))).getD i []) 1) := by
    intro i hi
    rw [hK]
    have hi' : i = 0 ∨ i = 1 ∨ i = 2 := by
      have : i < 3 := hi
      omega
    rcases hi' with rfl | rfl | rfl
    · simp only [List.getD_cons_zero, n0]
      norm_num [rho, row, envR, sqdist, sumL]
    · simp only [List.getD_cons_succ, List.getD_cons_zero, n1]
      norm_num [rho, row, envR, sqdist, sumL]
    · simp only [List.getD_cons_succ, List.getD_cons_zero, n2]
      unfold rho
      rw [show envR.tiny = 1 / 10 ^ 12 from rfl, show envR.sqrt = Real.sqrt from rfl,
        Real.lt_sqrt (by norm_num)]
      norm_num [row, sqdist, sumL]
  apply geom_scale_real envR rfl rfl a ha0 (by norm_num [envR]) (envR_corr_scale a ha0) _ _ _ _ _ 1
    (by norm_num) hg
  intro i hi
  rw [knn_scale_invariant a ha0, rho_scale envR a (hsqrt_real a ha0.le)]
  have h1 := hg i hi
  have h0 : (0 : ℝ) < envR.tiny := by norm_num [envR]
  nlinarith

end examples
end CE.Geom
