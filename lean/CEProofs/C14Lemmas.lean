import CEModel.GraphUtils
import Mathlib.Data.List.Nodup
import Mathlib.Data.List.Basic
import Mathlib.Data.List.Perm.Basic
import Mathlib.Order.Basic

/-! # C14 — locality lemmas for the two converters of `CEModel/GraphUtils.lean`

Part A: `toGraph` (model of `pcmci_to_networkx`) is, when it succeeds, the concatenation over all
index triples (loop order) of the edges of one entry, and those are given by a finite table.
Part B: `toPcmci` (model of `networkx_to_pcmci`): the write log is a structural recursion over the
edge list (`writesSpec`), and a cell is the last write to it. -/
namespace CE.Graph.C14
open CE.Graph

/-! ## Part A — `toGraph` -/

/-- the edge added by `G.add_edge(a, b, lag=…, val=…, p_value=…, link_type=ty[, significant=…])` -/
def mkE (bin : Bool) (level : Rat) (a b lag : Nat) (val p : Rat) (ty : String) : PEdge :=
  { u := a, v := b, lag := lag, val := val, p := p, type := ty,
    sig := if bin then some (decide (p < level)) else none }

/-- a mark that `pcmci_to_networkx` accepts: empty, or a key of `LINK_TYPE_SEMANTICS` -/
def KnownMark (m : String) : Prop := m = "" ∨ (stdSem.lookup m).isSome
instance : DecidablePred KnownMark := fun m => by unfold KnownMark; infer_instance

theorem lookup_std_of_ne (m : String) (h1 : m ≠ "-->") (h2 : m ≠ "<--") (h3 : m ≠ "o-o")
    (h4 : m ≠ "x-x") (h5 : m ≠ "-?>") : stdSem.lookup m = none := by
  have b1 : (m == "-->") = false := by simpa using h1
  have b2 : (m == "<--") = false := by simpa using h2
  have b3 : (m == "o-o") = false := by simpa using h3
  have b4 : (m == "x-x") = false := by simpa using h4
  have b5 : (m == "-?>") = false := by simpa using h5
  simp [stdSem, List.lookup, b1, b2, b3, b4, b5]

theorem knownMark_iff (m : String) :
    KnownMark m ↔ m = "" ∨ m = "-->" ∨ m = "<--" ∨ m = "o-o" ∨ m = "x-x" ∨ m = "-?>" := by
  unfold KnownMark
  constructor
  · rintro (h | h)
    · exact Or.inl h
    · by_cases h1 : m = "-->"
      · exact Or.inr (Or.inl h1)
      by_cases h2 : m = "<--"
      · exact Or.inr (Or.inr (Or.inl h2))
      by_cases h3 : m = "o-o"
      · exact Or.inr (Or.inr (Or.inr (Or.inl h3)))
      by_cases h4 : m = "x-x"
      · exact Or.inr (Or.inr (Or.inr (Or.inr (Or.inl h4))))
      by_cases h5 : m = "-?>"
      · exact Or.inr (Or.inr (Or.inr (Or.inr (Or.inr h5))))
      exfalso
      rw [lookup_std_of_ne m h1 h2 h3 h4 h5] at h
      simp at h
  · rintro (h | h | h | h | h | h)
    · exact Or.inl h
    all_goals subst h; exact Or.inr (by decide)

/-- the table of `edgesOfEntry` for the documented semantics: the edges of one entry, `[]` for an
empty or unknown mark -/
def entryTable (bin : Bool) (level : Rat) (i j l : Nat) (m : String) (val p : Rat) : List PEdge :=
  if m = "-->" then [mkE bin level i j l val p "directed"]
  else if m = "<--" then [mkE bin level j i l val p "directed"]
  else if m = "o-o" then
    (if i < j then [mkE bin level i j l val p "undirected", mkE bin level j i l val p "undirected"]
     else [])
  else if m = "x-x" then
    (if i < j then [mkE bin level i j l val p "conflicting", mkE bin level j i l val p "conflicting"]
     else [])
  else if m = "-?>" then [mkE bin level i j l val p "possible_directed"]
  else []

/-- `edgesOfEntry` with the documented semantics: the table on known marks, `ValueError` otherwise -/
theorem edgesOfEntry_std (bin : Bool) (level : Rat) (i j l : Nat) (m : String) (val p : Rat) :
    edgesOfEntry stdSem bin level i j l m val p =
      if KnownMark m then .ok (entryTable bin level i j l m val p) else .error .valueError := by
  by_cases h0 : m = ""
  · subst h0
    simp [edgesOfEntry, KnownMark, entryTable]
  by_cases h1 : m = "-->"
  · subst h1; simp [edgesOfEntry, KnownMark, entryTable, stdSem, mkE]
  by_cases h2 : m = "<--"
  · subst h2; simp [edgesOfEntry, KnownMark, entryTable, stdSem, List.lookup, mkE]
  by_cases h3 : m = "o-o"
  · subst h3
    by_cases hij : i < j <;> simp [edgesOfEntry, KnownMark, entryTable, stdSem, List.lookup, mkE, hij]
  by_cases h4 : m = "x-x"
  · subst h4
    by_cases hij : i < j <;> simp [edgesOfEntry, KnownMark, entryTable, stdSem, List.lookup, mkE, hij]
  by_cases h5 : m = "-?>"
  · subst h5; simp [edgesOfEntry, KnownMark, entryTable, stdSem, List.lookup, mkE]
  have hk : ¬ KnownMark m := by
    rw [knownMark_iff]; simp [h0, h1, h2, h3, h4, h5]
  simp [edgesOfEntry, hk, lookup_std_of_ne m h1 h2 h3 h4 h5, h0]

/-- the edges contributed by the entry at triple `t` of `P` -/
def entryList (bin : Bool) (level : Rat) (P : Pcmci) (t : Nat × Nat × Nat) : List PEdge :=
  entryTable bin level t.1 t.2.1 t.2.2 (P.mark t.1 t.2.1 t.2.2) (P.val t.1 t.2.1 t.2.2)
    (P.p t.1 t.2.1 t.2.2)

theorem mem_triples (N L : Nat) (t : Nat × Nat × Nat) :
    t ∈ triples N L ↔ t.1 < N ∧ t.2.1 < N ∧ t.2.2 < L := by
  obtain ⟨i, j, l⟩ := t
  simp only [triples, List.mem_flatMap, List.mem_range, List.mem_map, Prod.mk.injEq]
  constructor
  · rintro ⟨i', hi, j', hj, l', hl, rfl, rfl, rfl⟩
    exact ⟨hi, hj, hl⟩
  · rintro ⟨hi, hj, hl⟩
    exact ⟨i, hi, j, hj, l, hl, rfl, rfl, rfl⟩

theorem nodup_triples (N L : Nat) : (triples N L).Nodup := by
  unfold triples
  rw [List.nodup_flatMap]
  refine ⟨fun i _ => ?_, ?_⟩
  · rw [List.nodup_flatMap]
    refine ⟨fun j _ => ?_, ?_⟩
    · exact List.Nodup.map (fun a b h => by simpa using h) List.nodup_range
    · refine List.Nodup.pairwise_of_forall_ne List.nodup_range ?_
      intro a _ b _ hab x hx1 hx2
      simp only [List.mem_map] at hx1 hx2
      obtain ⟨l1, -, rfl⟩ := hx1
      obtain ⟨l2, -, h2⟩ := hx2
      simp only [Prod.mk.injEq] at h2
      exact hab h2.2.1.symm
  · refine List.Nodup.pairwise_of_forall_ne List.nodup_range ?_
    intro a _ b _ hab x hx1 hx2
    simp only [List.mem_flatMap, List.mem_map] at hx1 hx2
    obtain ⟨j1, -, l1, -, rfl⟩ := hx1
    obtain ⟨j2, -, l2, -, h2⟩ := hx2
    simp only [Prod.mk.injEq] at h2
    exact hab h2.1.symm

/-- a fold that appends per-item results and stops at the first error -/
theorem foldlM_collect_ok {τ β : Type} (f : τ → Except Err (List β)) (g : τ → List β)
    (step : List β → τ → Except Err (List β))
    (hok : ∀ acc t l, f t = .ok l → step acc t = .ok (acc ++ l))
    (L : List τ) (acc : List β) (h : ∀ t ∈ L, f t = .ok (g t)) :
    L.foldlM step acc = .ok (acc ++ L.flatMap g) := by
  induction L generalizing acc with
  | nil => simp [List.foldlM_nil, pure, Except.pure]
  | cons t L ih =>
    rw [List.foldlM_cons, hok acc t _ (h t (List.mem_cons_self ..))]
    show List.foldlM _ (acc ++ g t) L = _
    rw [ih _ (fun t' ht' => h t' (List.mem_cons_of_mem _ ht'))]
    simp [List.flatMap_cons]

theorem foldlM_collect_error {τ β : Type} (f : τ → Except Err (List β))
    (step : List β → τ → Except Err (List β))
    (hok : ∀ acc t l, f t = .ok l → step acc t = .ok (acc ++ l))
    (herr : ∀ acc t e, f t = .error e → step acc t = .error e)
    (L : List τ) (acc : List β) (h : ∃ t ∈ L, f t = .error .valueError) :
    L.foldlM step acc = .error .valueError := by
  induction L generalizing acc with
  | nil => simp at h
  | cons t L ih =>
    rw [List.foldlM_cons]
    cases hft : f t with
    | error e => cases e; rw [herr acc t _ hft]; rfl
    | ok es =>
      rw [hok acc t _ hft]
      show List.foldlM _ (acc ++ es) L = _
      apply ih
      obtain ⟨t', ht', hf'⟩ := h
      rcases List.mem_cons.1 ht' with rfl | ht'
      · rw [hft] at hf'; cases hf'
      · exact ⟨t', ht', hf'⟩

/-- every in-range entry carries a known mark -/
def AllKnown (P : Pcmci) : Prop :=
  ∀ i j l, i < P.N → j < P.N → l < P.Lp1 → KnownMark (P.mark i j l)

/-- **structure of `toGraph`**: it succeeds iff every in-range mark is known, and then the edge list
is the concatenation, in loop order, of the table entries -/
theorem toGraph_ok_iff (bin : Bool) (level : Rat) (P : Pcmci) (es : List PEdge) :
    toGraph stdSem bin level P = .ok es ↔
      AllKnown P ∧ es = (triples P.N P.Lp1).flatMap (entryList bin level P) := by
  by_cases hk : AllKnown P
  · have h : toGraph stdSem bin level P = .ok ((triples P.N P.Lp1).flatMap (entryList bin level P)) := by
      unfold toGraph
      refine Eq.trans (foldlM_collect_ok (fun t : Nat × Nat × Nat =>
        edgesOfEntry stdSem bin level t.1 t.2.1 t.2.2
        (P.mark t.1 t.2.1 t.2.2) (P.val t.1 t.2.1 t.2.2) (P.p t.1 t.2.1 t.2.2))
        (entryList bin level P) _ (fun acc t l h => ?_) _ [] ?_) (by simp)
      · simp only [h]
      · intro t ht
        rw [mem_triples] at ht
        rw [edgesOfEntry_std, if_pos (hk _ _ _ ht.1 ht.2.1 ht.2.2)]
        rfl
    rw [h]
    constructor
    · intro h'; cases h'; exact ⟨hk, rfl⟩
    · rintro ⟨-, rfl⟩; rfl
  · have h : toGraph stdSem bin level P = .error .valueError := by
      unfold toGraph
      refine foldlM_collect_error (fun t : Nat × Nat × Nat =>
        edgesOfEntry stdSem bin level t.1 t.2.1 t.2.2
        (P.mark t.1 t.2.1 t.2.2) (P.val t.1 t.2.1 t.2.2) (P.p t.1 t.2.1 t.2.2)) _
        (fun acc t l h => by simp only [h]) (fun acc t e h => by simp only [h]) _ [] ?_
      unfold AllKnown at hk
      push Not at hk
      obtain ⟨i, j, l, hi, hj, hl, hm⟩ := hk
      refine ⟨(i, j, l), (mem_triples _ _ _).2 ⟨hi, hj, hl⟩, ?_⟩
      rw [edgesOfEntry_std, if_neg hm]
    rw [h]
    constructor
    · intro h'; cases h'
    · rintro ⟨h', -⟩; exact absurd h' hk

theorem toGraph_error_iff (bin : Bool) (level : Rat) (P : Pcmci) :
    toGraph stdSem bin level P = .error .valueError ↔
      ∃ i j l, i < P.N ∧ j < P.N ∧ l < P.Lp1 ∧ ¬ KnownMark (P.mark i j l) := by
  constructor
  · intro h
    by_contra hne
    push Not at hne
    have hk : AllKnown P := fun i j l hi hj hl => hne i j l hi hj hl
    have := (toGraph_ok_iff bin level P _).2 ⟨hk, rfl⟩
    rw [h] at this
    cases this
  · rintro ⟨i, j, l, hi, hj, hl, hm⟩
    cases h : toGraph stdSem bin level P with
    | error e => cases e; rfl
    | ok es => exact absurd (((toGraph_ok_iff bin level P es).1 h).1 i j l hi hj hl) hm

/-! ## Part B — `toPcmci` -/

/-- attribute defaults of `networkx_to_pcmci`: `data.get("lag", 0)`, `data.get("link_type",
"directed")`, `data.get("val", data.get("cmi", 0.0))`, `data.get("p_value", 1.0)` -/
def elag (e : InEdge) : Nat := e.lag.getD 0
def ety (e : InEdge) : String := e.type.getD "directed"
def evalue (e : InEdge) : Rat := e.val.getD (e.cmi.getD 0)
def epv (e : InEdge) : Rat := e.p.getD 1

/-- `semantic_link_type in ["undirected", "conflicting"]` -/
def symTy (ty : String) : Prop := ty = "undirected" ∨ ty = "conflicting"
instance : DecidablePred symTy := fun ty => by unfold symTy; infer_instance

/-- a semantic link type that `networkx_to_pcmci` accepts -/
def KnownTy (ty : String) : Prop :=
  ty = "directed" ∨ ty = "undirected" ∨ ty = "conflicting" ∨ ty = "possible_directed"
instance : DecidablePred KnownTy := fun ty => by unfold KnownTy; infer_instance

/-- `SEMANTIC_TO_LINK_TYPE` as used by the if-chain of `networkx_to_pcmci` -/
def markOf (ty : String) : String :=
  if ty = "directed" then "-->" else if ty = "undirected" then "o-o"
  else if ty = "conflicting" then "x-x" else "-?>"

/-- the cell an edge writes -/
def cellOf (e : InEdge) : Cell := { mark := markOf (ety e), val := evalue e, p := epv e }

/-- the canonical key `(min(u, v), max(u, v), lag)` of the `processed_undirected` set -/
def symKey (e : InEdge) : Nat × Nat × Nat := (min e.u e.v, max e.u e.v, elag e)

/-- the array positions an edge writes when it is not skipped -/
def targets (e : InEdge) : List (Nat × Nat × Nat) :=
  if symTy (ety e) then [(e.u, e.v, elag e), (e.v, e.u, elag e)] else [(e.u, e.v, elag e)]

/-- `e`, coming after the edges `pre`, is skipped by the `processed_undirected` test: it is of
symmetric type and an earlier symmetric-type edge has the same canonical key -/
def Skipped (pre : List InEdge) (e : InEdge) : Prop :=
  symTy (ety e) ∧ ∃ e' ∈ pre, symTy (ety e') ∧ symKey e' = symKey e
instance (pre : List InEdge) (e : InEdge) : Decidable (Skipped pre e) := by
  unfold Skipped; infer_instance

/-- writes performed by `e` when it comes after the edges `pre` -/
def writesOf (pre : List InEdge) (e : InEdge) : List ((Nat × Nat × Nat) × Cell) :=
  if Skipped pre e then [] else (targets e).map (fun k => (k, cellOf e))

/-- the write log of the edge loop as a structural recursion -/
def writesSpec (pre : List InEdge) : List InEdge → List ((Nat × Nat × Nat) × Cell)
  | [] => []
  | e :: es => writesOf pre e ++ writesSpec (pre ++ [e]) es

/-- invariant linking the `processed` set with the edges seen so far -/
def ProcInv (proc : List (Nat × Nat × Nat)) (pre : List InEdge) : Prop :=
  ∀ k, k ∈ proc ↔ ∃ e' ∈ pre, symTy (ety e') ∧ symKey e' = k

theorem writeEdge_error (st : WState) (e : InEdge) (hk : ¬ KnownTy (ety e)) :
    writeEdge st e = .error .valueError := by
  have h1 : ¬ e.type.getD "directed" = "directed" := fun h => hk (Or.inl h)
  have h2 : ¬ e.type.getD "directed" = "undirected" := fun h => hk (Or.inr (Or.inl h))
  have h3 : ¬ e.type.getD "directed" = "conflicting" := fun h => hk (Or.inr (Or.inr (Or.inl h)))
  have h4 : ¬ e.type.getD "directed" = "possible_directed" :=
    fun h => hk (Or.inr (Or.inr (Or.inr h)))
  simp [writeEdge, h1, h2, h3, h4]

theorem procInv_snoc_of_not_sym (proc : List (Nat × Nat × Nat)) (pre : List InEdge) (e : InEdge)
    (hinv : ProcInv proc pre) (hs : ¬ symTy (ety e)) : ProcInv proc (pre ++ [e]) := by
  intro k
  rw [hinv k]
  constructor
  · rintro ⟨e', he', h⟩
    exact ⟨e', List.mem_append_left _ he', h⟩
  · rintro ⟨e', he', h⟩
    rcases List.mem_append.1 he' with he' | he'
    · exact ⟨e', he', h⟩
    · rw [List.mem_singleton.1 he'] at h
      exact absurd h.1 hs

theorem writeEdge_sym (st : WState) (pre : List InEdge) (e : InEdge) (sym : String)
    (hinv : ProcInv st.processed pre)
    (hty : e.type.getD "directed" = "undirected" ∨ e.type.getD "directed" = "conflicting")
    (hnd : e.type.getD "directed" ≠ "directed")
    (hsym : (if e.type.getD "directed" = "undirected" then "o-o" else "x-x") = sym)
    (hmark : markOf (ety e) = sym) :
    ∃ st', writeEdge st e = .ok st' ∧ st'.writes = st.writes ++ writesOf pre e ∧
      ProcInv st'.processed (pre ++ [e]) := by
  have hs : symTy (ety e) := hty
  by_cases hc : (min e.u e.v, max e.u e.v, e.lag.getD 0) ∈ st.processed
  · have hsk : Skipped pre e := ⟨hs, (hinv _).1 hc⟩
    refine ⟨st, ?_, ?_, ?_⟩
    · simp [writeEdge, hty, hnd, hc]
    · simp [writesOf, hsk]
    · intro k
      rw [hinv k]
      constructor
      · rintro ⟨e', he', h⟩
        exact ⟨e', List.mem_append_left _ he', h⟩
      · rintro ⟨e', he', h⟩
        rcases List.mem_append.1 he' with he' | he'
        · exact ⟨e', he', h⟩
        · rw [List.mem_singleton.1 he'] at h
          rw [← h.2]
          exact (hinv _).1 hc
  · have hsk : ¬ Skipped pre e := fun h => hc ((hinv _).2 h.2)
    refine ⟨WState.mk (st.writes ++
        [((e.u, e.v, e.lag.getD 0), Cell.mk sym (evalue e) (epv e)),
         ((e.v, e.u, e.lag.getD 0), Cell.mk sym (evalue e) (epv e))])
        ((min e.u e.v, max e.u e.v, e.lag.getD 0) :: st.processed), ?_, ?_, ?_⟩
    · simp [writeEdge, hty, hnd, hc, hsym, evalue, epv]
    · simp [writesOf, hsk, targets, hs, cellOf, hmark, elag]
    · intro k
      rw [List.mem_cons, hinv k]
      constructor
      · rintro (rfl | ⟨e', he', h⟩)
        · exact ⟨e, by simp, hs, rfl⟩
        · exact ⟨e', List.mem_append_left _ he', h⟩
      · rintro ⟨e', he', h⟩
        rcases List.mem_append.1 he' with he' | he'
        · exact Or.inr ⟨e', he', h⟩
        · rw [List.mem_singleton.1 he'] at h
          exact Or.inl h.2.symm

/-- one iteration of the edge loop on an edge of known type -/
theorem writeEdge_ok (st : WState) (pre : List InEdge) (e : InEdge)
    (hinv : ProcInv st.processed pre) (hk : KnownTy (ety e)) :
    ∃ st', writeEdge st e = .ok st' ∧ st'.writes = st.writes ++ writesOf pre e ∧
      ProcInv st'.processed (pre ++ [e]) := by
  rcases hk with h | h | h | h
  · have h' : e.type.getD "directed" = "directed" := h
    have hs : ¬ symTy (ety e) := by rw [h]; decide
    have hsk : ¬ Skipped pre e := fun hh => hs hh.1
    refine ⟨{ st with writes := st.writes ++
        [((e.u, e.v, e.lag.getD 0), { mark := "-->", val := evalue e, p := epv e })] }, ?_, ?_, ?_⟩
    · simp [writeEdge, h', evalue, epv]
    · simp [writesOf, hsk, targets, symTy, cellOf, h, markOf, elag]
    · exact procInv_snoc_of_not_sym _ _ _ hinv hs
  · have h' : e.type.getD "directed" = "undirected" := h
    exact writeEdge_sym st pre e "o-o" hinv (Or.inl h') (by rw [h']; decide) (by simp [h'])
      (by rw [h]; decide)
  · have h' : e.type.getD "directed" = "conflicting" := h
    exact writeEdge_sym st pre e "x-x" hinv (Or.inr h') (by rw [h']; decide) (by simp [h'])
      (by rw [h]; decide)
  · have h' : e.type.getD "directed" = "possible_directed" := h
    have hs : ¬ symTy (ety e) := by rw [h]; decide
    have hsk : ¬ Skipped pre e := fun hh => hs hh.1
    refine ⟨{ st with writes := st.writes ++
        [((e.u, e.v, e.lag.getD 0), { mark := "-?>", val := evalue e, p := epv e })] }, ?_, ?_, ?_⟩
    · simp [writeEdge, h', evalue, epv]
    · simp [writesOf, hsk, targets, symTy, cellOf, h, markOf, elag]
    · exact procInv_snoc_of_not_sym _ _ _ hinv hs

theorem foldlM_writeEdge_ok (es : List InEdge) (pre : List InEdge) (st : WState)
    (hinv : ProcInv st.processed pre) (hk : ∀ e ∈ es, KnownTy (ety e)) :
    ∃ st', es.foldlM writeEdge st = .ok st' ∧ st'.writes = st.writes ++ writesSpec pre es := by
  induction es generalizing pre st with
  | nil => exact ⟨st, rfl, by simp [writesSpec]⟩
  | cons e es ih =>
    obtain ⟨st1, h1, hw1, hinv1⟩ := writeEdge_ok st pre e hinv (hk e (List.mem_cons_self ..))
    obtain ⟨st2, h2, hw2⟩ := ih (pre ++ [e]) st1 hinv1 (fun e' he' => hk e' (List.mem_cons_of_mem _ he'))
    refine ⟨st2, ?_, ?_⟩
    · rw [List.foldlM_cons, h1]
      exact h2
    · rw [hw2, hw1, writesSpec, List.append_assoc]

theorem foldlM_writeEdge_error (es : List InEdge) (st : WState)
    (h : ∃ e ∈ es, ¬ KnownTy (ety e)) : es.foldlM writeEdge st = .error .valueError := by
  induction es generalizing st with
  | nil => simp at h
  | cons e es ih =>
    rw [List.foldlM_cons]
    cases h1 : writeEdge st e with
    | error x => cases x; rfl
    | ok st1 =>
      show List.foldlM writeEdge st1 es = _
      apply ih
      obtain ⟨e', he', hne⟩ := h
      rcases List.mem_cons.1 he' with rfl | he'
      · rw [writeEdge_error st e' hne] at h1; cases h1
      · exact ⟨e', he', hne⟩

/-- **structure of `toPcmci`**: it succeeds iff every edge has a known semantic type, and then
`tau_max` is the largest lag and each cell is the last write of `writesSpec` to it -/
theorem toPcmci_ok_iff (es : List InEdge) (r : Nat × (Nat → Nat → Nat → Cell)) :
    toPcmci es = .ok r ↔ (∀ e ∈ es, KnownTy (ety e)) ∧
      r = (tauMax es, fun i j l => readCell (writesSpec [] es) (i, j, l)) := by
  by_cases hk : ∀ e ∈ es, KnownTy (ety e)
  · obtain ⟨st', h1, hw⟩ := foldlM_writeEdge_ok es [] { writes := [], processed := [] }
      (fun k => by simp) hk
    have h : toPcmci es = .ok (tauMax es, fun i j l => readCell (writesSpec [] es) (i, j, l)) := by
      unfold toPcmci
      rw [h1]
      simp only [hw, List.nil_append]
    rw [h]
    constructor
    · intro h'; cases h'; exact ⟨hk, rfl⟩
    · rintro ⟨-, rfl⟩; rfl
  · have h : toPcmci es = .error .valueError := by
      unfold toPcmci
      rw [foldlM_writeEdge_error es _ (by push Not at hk; exact hk)]
    rw [h]
    constructor
    · intro h'; cases h'
    · rintro ⟨h', -⟩; exact absurd h' hk

theorem toPcmci_error_iff (es : List InEdge) :
    toPcmci es = .error .valueError ↔ ∃ e ∈ es, ¬ KnownTy (ety e) := by
  constructor
  · intro h
    by_contra hne
    push Not at hne
    have := (toPcmci_ok_iff es _).2 ⟨hne, rfl⟩
    rw [h] at this
    cases this
  · rintro ⟨e, he, hne⟩
    cases h : toPcmci es with
    | error x => cases x; rfl
    | ok r => exact absurd (((toPcmci_ok_iff es r).1 h).1 e he) hne

/-! ### reading the write log -/

theorem readCell_of_no_write (W : List ((Nat × Nat × Nat) × Cell)) (k : Nat × Nat × Nat)
    (h : ∀ w ∈ W, w.1 ≠ k) : readCell W k = emptyCell := by
  unfold readCell
  have : W.reverse.find? (fun w => w.1 == k) = none := by
    rw [List.find?_eq_none]
    intro w hw
    simpa using h w (List.mem_reverse.1 hw)
  rw [this]

theorem readCell_agree (W : List ((Nat × Nat × Nat) × Cell)) (k : Nat × Nat × Nat) (c : Cell)
    (hex : ∃ w ∈ W, w.1 = k) (hall : ∀ w ∈ W, w.1 = k → w.2 = c) : readCell W k = c := by
  unfold readCell
  cases hf : W.reverse.find? (fun w => w.1 == k) with
  | none =>
    exfalso
    rw [List.find?_eq_none] at hf
    obtain ⟨w, hw, hk⟩ := hex
    exact hf w (List.mem_reverse.2 hw) (by simpa using hk)
  | some w =>
    have hw := List.mem_reverse.1 (List.mem_of_find?_eq_some hf)
    have hk : w.1 = k := by simpa using List.find?_some hf
    exact hall w hw hk

theorem readCell_append_right (A B : List ((Nat × Nat × Nat) × Cell)) (k : Nat × Nat × Nat)
    (hex : ∃ w ∈ B, w.1 = k) : readCell (A ++ B) k = readCell B k := by
  unfold readCell
  rw [List.reverse_append, List.find?_append]
  cases hf : B.reverse.find? (fun w => w.1 == k) with
  | none =>
    exfalso
    rw [List.find?_eq_none] at hf
    obtain ⟨w, hw, hk⟩ := hex
    exact hf w (List.mem_reverse.2 hw) (by simpa using hk)
  | some w => rfl

theorem readCell_append_left (A B : List ((Nat × Nat × Nat) × Cell)) (k : Nat × Nat × Nat)
    (h : ∀ w ∈ B, w.1 ≠ k) : readCell (A ++ B) k = readCell A k := by
  unfold readCell
  rw [List.reverse_append, List.find?_append]
  have : B.reverse.find? (fun w => w.1 == k) = none := by
    rw [List.find?_eq_none]
    intro w hw
    simpa using h w (List.mem_reverse.1 hw)
  rw [this]
  rfl

theorem mem_writesOf (pre : List InEdge) (e : InEdge) (w : (Nat × Nat × Nat) × Cell) :
    w ∈ writesOf pre e ↔ ¬ Skipped pre e ∧ w.1 ∈ targets e ∧ w.2 = cellOf e := by
  unfold writesOf
  by_cases hs : Skipped pre e
  · simp [hs]
  · simp only [hs, if_false, List.mem_map, not_false_eq_true, true_and]
    constructor
    · rintro ⟨k, hk, rfl⟩; exact ⟨hk, rfl⟩
    · rintro ⟨hk, hc⟩; exact ⟨w.1, hk, by rw [← hc]⟩

theorem writesSpec_append (pre a b : List InEdge) :
    writesSpec pre (a ++ b) = writesSpec pre a ++ writesSpec (pre ++ a) b := by
  induction a generalizing pre with
  | nil => simp [writesSpec]
  | cons x a ih =>
    rw [List.cons_append, writesSpec, writesSpec, ih, List.append_assoc]
    simp

/-- every entry of the write log comes from exactly one position of the edge list -/
theorem mem_writesSpec (pre es : List InEdge) (w : (Nat × Nat × Nat) × Cell) :
    w ∈ writesSpec pre es ↔ ∃ a e b, es = a ++ e :: b ∧ w ∈ writesOf (pre ++ a) e := by
  induction es generalizing pre with
  | nil => simp [writesSpec]
  | cons x es ih =>
    rw [writesSpec, List.mem_append, ih]
    constructor
    · rintro (h | ⟨a, e, b, rfl, h⟩)
      · exact ⟨[], x, es, rfl, by simpa using h⟩
      · exact ⟨x :: a, e, b, rfl, by simpa using h⟩
    · rintro ⟨a, e, b, heq, h⟩
      cases a with
      | nil =>
        simp only [List.nil_append, List.cons.injEq] at heq
        obtain ⟨rfl, rfl⟩ := heq
        exact Or.inl (by simpa using h)
      | cons y a =>
        simp only [List.cons_append, List.cons.injEq] at heq
        obtain ⟨rfl, rfl⟩ := heq
        exact Or.inr ⟨a, e, b, rfl, by simpa using h⟩

theorem targets_of_symKey_eq (a e : InEdge) (ha : symTy (ety a)) (he : symTy (ety e))
    (hkey : symKey a = symKey e) (k : Nat × Nat × Nat) (hk : k ∈ targets e) : k ∈ targets a := by
  obtain ⟨k1, k2, k3⟩ := k
  simp only [targets, ha, he, if_true, List.mem_cons, Prod.mk.injEq, List.mem_nil_iff,
    or_false] at hk ⊢
  simp only [symKey, Prod.mk.injEq] at hkey
  omega

/-- a targeted cell is written by some edge: either `e` itself, or — when `e` is skipped — the
first symmetric edge with the same canonical key -/
theorem write_exists (pre es : List InEdge) (e : InEdge) (k : Nat × Nat × Nat)
    (he : e ∈ es) (hk : k ∈ targets e) :
    Skipped pre e ∨ ∃ w ∈ writesSpec pre es, w.1 = k := by
  induction es generalizing pre with
  | nil => simp at he
  | cons a es ih =>
    rw [writesSpec]
    rcases List.mem_cons.1 he with rfl | he'
    · by_cases hs : Skipped pre e
      · exact Or.inl hs
      · exact Or.inr ⟨(k, cellOf e), List.mem_append_left _
          ((mem_writesOf _ _ _).2 ⟨hs, hk, rfl⟩), rfl⟩
    · rcases ih (pre ++ [a]) he' with hsk | ⟨w, hw, hwk⟩
      · obtain ⟨hse, e', he'mem, hse', hkey⟩ := hsk
        rcases List.mem_append.1 he'mem with hp | hp
        · exact Or.inl ⟨hse, e', hp, hse', hkey⟩
        · rw [List.mem_singleton.1 hp] at hse' hkey
          by_cases hsa : Skipped pre a
          · obtain ⟨-, e'', he'', hse'', hkey''⟩ := hsa
            exact Or.inl ⟨hse, e'', he'', hse'', hkey''.trans hkey⟩
          · exact Or.inr ⟨(k, cellOf a), List.mem_append_left _
              ((mem_writesOf _ _ _).2 ⟨hsa, targets_of_symKey_eq a e hse' hse hkey k hk, rfl⟩), rfl⟩
      · exact Or.inr ⟨w, List.mem_append_right _ hw, hwk⟩

/-- **agreement form of locality**: if some edge targets the cell `k` and all edges targeting `k`
would write the same cell `c`, then the cell is `c` -/
theorem cell_agree (es : List InEdge) (r : Nat × (Nat → Nat → Nat → Cell)) (k : Nat × Nat × Nat)
    (c : Cell) (h : toPcmci es = .ok r) (hex : ∃ e ∈ es, k ∈ targets e)
    (hall : ∀ e ∈ es, k ∈ targets e → cellOf e = c) : r.2 k.1 k.2.1 k.2.2 = c := by
  obtain ⟨-, rfl⟩ := (toPcmci_ok_iff es r).1 h
  show readCell (writesSpec [] es) (k.1, k.2.1, k.2.2) = c
  apply readCell_agree
  · obtain ⟨e, he, hk⟩ := hex
    rcases write_exists [] es e k he hk with hsk | hw
    · obtain ⟨-, e', he', -⟩ := hsk
      simp at he'
    · exact hw
  · intro w hw hwk
    obtain ⟨a, e, b, rfl, hwe⟩ := (mem_writesSpec [] _ w).1 hw
    obtain ⟨-, ht, hc⟩ := (mem_writesOf _ _ _).1 hwe
    rw [hc]
    have hwk' : w.1 = k := hwk
    exact hall e (by simp) (by rw [← hwk']; exact ht)

/-- a cell that no edge targets keeps its initial fill -/
theorem cell_empty (es : List InEdge) (r : Nat × (Nat → Nat → Nat → Cell)) (k : Nat × Nat × Nat)
    (h : toPcmci es = .ok r) (hno : ∀ e ∈ es, k ∉ targets e) :
    r.2 k.1 k.2.1 k.2.2 = emptyCell := by
  obtain ⟨-, rfl⟩ := (toPcmci_ok_iff es r).1 h
  show readCell (writesSpec [] es) (k.1, k.2.1, k.2.2) = emptyCell
  apply readCell_of_no_write
  intro w hw hwk
  obtain ⟨a, e, b, rfl, hwe⟩ := (mem_writesSpec [] _ w).1 hw
  obtain ⟨-, ht, -⟩ := (mem_writesOf _ _ _).1 hwe
  have hwk' : w.1 = k := hwk
  exact hno e (by simp) (by rw [← hwk']; exact ht)

/-! ### `tau_max` -/

theorem foldl_max_ge (es : List InEdge) (m : Nat) :
    m ≤ es.foldl (fun m e => max m (e.lag.getD 0)) m ∧
    ∀ e ∈ es, elag e ≤ es.foldl (fun m e => max m (e.lag.getD 0)) m := by
  induction es generalizing m with
  | nil => simp
  | cons a es ih =>
    rw [List.foldl_cons]
    obtain ⟨h1, h2⟩ := ih (max m (a.lag.getD 0))
    refine ⟨by omega, ?_⟩
    intro e he
    rcases List.mem_cons.1 he with rfl | he
    · show e.lag.getD 0 ≤ _
      omega
    · exact h2 e he

theorem foldl_max_cases (es : List InEdge) (m : Nat) :
    es.foldl (fun m e => max m (e.lag.getD 0)) m = m ∨
    ∃ e ∈ es, elag e = es.foldl (fun m e => max m (e.lag.getD 0)) m := by
  induction es generalizing m with
  | nil => simp
  | cons a es ih =>
    rw [List.foldl_cons]
    rcases ih (max m (a.lag.getD 0)) with h | ⟨e, he, h⟩
    · rw [h]
      rcases Nat.le_total m (a.lag.getD 0) with hle | hle
      · exact Or.inr ⟨a, List.mem_cons_self .., by rw [Nat.max_eq_right hle]; rfl⟩
      · exact Or.inl (Nat.max_eq_left hle)
    · exact Or.inr ⟨e, List.mem_cons_of_mem _ he, h⟩

theorem le_tauMax (es : List InEdge) (e : InEdge) (he : e ∈ es) : elag e ≤ tauMax es :=
  (foldl_max_ge es 0).2 e he

theorem tauMax_cases (es : List InEdge) : tauMax es = 0 ∨ ∃ e ∈ es, elag e = tauMax es :=
  foldl_max_cases es 0

end CE.Graph.C14
