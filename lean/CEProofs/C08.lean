import CEProofs.C08Lemmas
import Mathlib.Algebra.Order.BigOperators.Ring.Finset
import Mathlib.Tactic.NormNum
import Mathlib.Tactic.Positivity
import Mathlib.Tactic.IntervalCases
import Mathlib.Tactic.FinCases

/-! # C08 — the Gaussian estimator equals the closed-form partial-covariance information

The Python estimator (`gaussian_conditional_mutual_information`, `gaussian_mutual_information`,
`correlation_log_determinant`) is `½ · log (ratio W kx ky kz)` where the columns of `W` are
`hstack (X, Y, Z)`; the logarithm is applied outside the model, so every theorem here is about
the model's `CE.Gauss.ratio` / `CE.Gauss.corrDet`.  The determinant of the model (`detF`, Laplace
expansion, core Lean) is Mathlib's `Matrix.det` by `detF_eq_det` (in `C08Lemmas`).

Notation: `X = span 0 kx`, `Y = span kx ky`, `Z = span (kx+ky) kz` are the column indices of the
three blocks, `covM W cols` is the covariance sub-matrix of the listed columns as a Mathlib
`Matrix`, `ratioL W X Y Z` is `ratio` on arbitrary column lists (`ratio W kx ky kz = ratioL W X Y Z`
holds by `rfl`).  A *column-reordered sample* is any `W'` with `IsColSel W' W cs`: same number of
rows and column `i` of `W'` = column `cs[i]` of `W` (e.g. `selectCols W cs`). -/
namespace CE.Gauss
open Matrix

/-! ## `ratio_cov`: the variances cancel -/

theorem prod_cov_ne_zero (W : Sample) (cols : List ℕ) (h : ∀ c ∈ cols, cov W c c ≠ 0) :
    (cols.map (fun c => cov W c c)).prod ≠ 0 := by
  apply List.prod_ne_zero
  intro h0
  obtain ⟨c, hc, hc0⟩ := List.mem_map.mp h0
  exact h c hc hc0

/-- `ratio_cov` on arbitrary column lists -/
theorem ratioL_cov (W : Sample) (X Y Z : List ℕ) (hvar : ∀ c ∈ X ++ Y ++ Z, cov W c c ≠ 0) :
    ratioL W X Y Z = (covM W (X ++ Z)).det * (covM W (Y ++ Z)).det
      / ((covM W Z).det * (covM W (X ++ Y ++ Z)).det) := by
  have hX := prod_cov_ne_zero W X (fun c hc => hvar c (by simp [hc]))
  have hY := prod_cov_ne_zero W Y (fun c hc => hvar c (by simp [hc]))
  have hZ := prod_cov_ne_zero W Z (fun c hc => hvar c (by simp [hc]))
  unfold ratioL
  simp only [corrDet_eq, List.map_append, List.prod_append]
  generalize (covM W (X ++ Z)).det = dXZ
  generalize (covM W (Y ++ Z)).det = dYZ
  generalize (covM W Z).det = dZ
  generalize (covM W (X ++ Y ++ Z)).det = dXYZ
  generalize (X.map fun c => cov W c c).prod = pX at *
  generalize (Y.map fun c => cov W c c).prod = pY at *
  generalize (Z.map fun c => cov W c c).prod = pZ at *
  by_cases h1 : dZ = 0
  · simp [h1]
  by_cases h2 : dXYZ = 0
  · simp [h2]
  field_simp

/-- **`ratio_cov`.** When every column has nonzero sample variance, the quotient of
*correlation* determinants computed by the code equals the quotient of *covariance*
determinants `det Σ_XZ · det Σ_YZ / (det Σ_Z · det Σ_XYZ)` (Mathlib determinants). -/
theorem ratio_cov (W : Sample) (kx ky kz : ℕ) (hvar : ∀ c < kx + ky + kz, cov W c c ≠ 0) :
    ratio W kx ky kz =
      (covM W (span 0 kx ++ span (kx + ky) kz)).det * (covM W (span kx ky ++ span (kx + ky) kz)).det
      / ((covM W (span (kx + ky) kz)).det
          * (covM W (span 0 kx ++ span kx ky ++ span (kx + ky) kz)).det) := by
  rw [ratio_eq_ratioL]
  apply ratioL_cov
  intro c hc
  apply hvar
  simp only [List.mem_append, mem_span] at hc
  omega

/-! ## `ratio_symm`: X ↔ Y -/

theorem ratioL_symm (W : Sample) (X Y Z : List ℕ) : ratioL W Y X Z = ratioL W X Y Z := by
  unfold ratioL
  rw [corrDet_perm W (List.Perm.append_right Z (List.perm_append_comm (l₁ := Y) (l₂ := X))),
    mul_comm (corrDet W (Y ++ Z))]

/-- **`ratio_symm`.** Exchanging the roles of X and Y: if `W'` presents the columns of `W` in the
order `Y, X, Z`, then the estimate with `(ky, kx, kz)` on `W'` equals the one with `(kx, ky, kz)`
on `W`. -/
theorem ratio_symm {W' W : Sample} (kx ky kz : ℕ)
    (h : IsColSel W' W (span kx ky ++ span 0 kx ++ span (kx + ky) kz)) :
    ratio W' ky kx kz = ratio W kx ky kz := by
  have := ratio_of_colSel h
  simp only [span_length] at this
  rw [this, ratioL_symm, ratio_eq_ratioL]

/-! ## `chain_rule` -/

/-- chain rule on arbitrary column lists: the real algebraic content.  `[]` is the absent
conditioning set (`corrDet W [] = 1`, the `0.0` log-determinant of the code). -/
theorem chain_rule_ratioL (W : Sample) (X Y Z : List ℕ) (hZ : corrDet W Z ≠ 0)
    (hXZ : corrDet W (X ++ Z) ≠ 0) :
    ratioL W X (Y ++ Z) [] = ratioL W X Z [] * ratioL W X Y Z := by
  unfold ratioL
  simp only [List.append_nil, corrDet_nil, one_mul, List.append_assoc]
  by_cases h : corrDet W (X ++ (Y ++ Z)) = 0
  · simp [h]
  field_simp

/-- **`chain_rule`**  `I(X; Y,Z) = I(X; Z) + I(X; Y | Z)`, multiplicatively for `ratio = exp (2·I)`.
`W` holds the columns `X, Y, Z`; `ratio W kx (ky+kz) 0` is the unconditional estimate of
`I(X; (Y,Z))` on the same sample, and `W'` is the sample with the columns `X, Z` only (what the
caller passes for `I(X; Z)`).  Guards: the two determinants that appear as denominators on the
right but not on the left are nonzero (non-degenerate sample). -/
theorem chain_rule {W' W : Sample} (kx ky kz : ℕ)
    (h : IsColSel W' W (span 0 kx ++ span (kx + ky) kz))
    (hZ : corrDet W (span (kx + ky) kz) ≠ 0)
    (hXZ : corrDet W (span 0 kx ++ span (kx + ky) kz) ≠ 0) :
    ratio W kx (ky + kz) 0 = ratio W' kx kz 0 * ratio W kx ky kz := by
  have h0 : IsColSel W' W (span 0 kx ++ span (kx + ky) kz ++ []) := by simpa using h
  have h' := ratio_of_colSel h0
  simp only [span_length, List.length_nil] at h'
  rw [h', ratio_eq_ratioL, ratio_eq_ratioL, span_add]
  have : span (kx + (ky + kz)) 0 = [] := rfl
  rw [this]
  exact chain_rule_ratioL W _ _ _ hZ hXZ

/-- **`ratio_unconditional`.** `Z` absent is the empty conditioning set: with `kz = 0` the model's
ratio is `detcorr X · detcorr Y / detcorr (X,Y)` — the `gaussian_mutual_information` path
(`SX + SY − SXY`) that the code takes for `Z is None`. -/
theorem ratio_unconditional (W : Sample) (kx ky : ℕ) :
    ratio W kx ky 0 = corrDet W (span 0 kx) * corrDet W (span kx ky)
      / corrDet W (span 0 kx ++ span kx ky) := by
  have : span (kx + ky) 0 = [] := rfl
  rw [ratio_eq_ratioL, this]
  unfold ratioL
  simp only [List.append_nil, corrDet_nil, one_mul]

/-! ## `scalar_unconditional` -/

theorem corrDet_singleton (W : Sample) (c : ℕ) (h : cov W c c ≠ 0) : corrDet W [c] = 1 := by
  rw [corrDet_eq_corrE W [c] ![c] rfl (by intro i; fin_cases i; rfl)]
  simp [corrE, covE, Matrix.det_unique, h]

theorem corrDet_pair (W : Sample) (c d : ℕ) :
    corrDet W [c, d] = (cov W c c * cov W d d - cov W c d ^ 2) / (cov W c c * cov W d d) := by
  rw [corrDet_eq_corrE W [c, d] ![c, d] rfl (by intro i; fin_cases i <;> rfl)]
  simp only [corrE, covE, Matrix.det_fin_two, Matrix.of_apply, Fin.prod_univ_two,
    Matrix.cons_val_zero, Matrix.cons_val_one]
  rw [cov_comm W d c]
  ring_nf

/-- **`scalar_unconditional`.** For scalar `X`, `Y` and no conditioning set the ratio is
`1 / (1 − r²)` with `r² = c_xy² / (c_xx · c_yy)` the squared sample correlation, i.e. the
estimator is `−½ log (1 − r²)`. -/
theorem scalar_unconditional (W : Sample) (h0 : cov W 0 0 ≠ 0) (h1 : cov W 1 1 ≠ 0) :
    ratio W 1 1 0 = 1 / (1 - cov W 0 1 ^ 2 / (cov W 0 0 * cov W 1 1)) := by
  have e : ratio W 1 1 0 = corrDet W [0] * corrDet W [1] / (corrDet W [] * corrDet W [0, 1]) := rfl
  rw [e, corrDet_singleton W 0 h0, corrDet_singleton W 1 h1, corrDet_nil, corrDet_pair]
  by_cases hD : cov W 0 0 * cov W 1 1 - cov W 0 1 ^ 2 = 0
  · have : 1 - cov W 0 1 ^ 2 / (cov W 0 0 * cov W 1 1) = 0 := by
      field_simp
      linarith
    simp [hD, this]
  · field_simp

/-! ## `shift_scale_invariant` -/

/-- **`shift_scale_invariant`.** Replacing every column `c` by `a c · column + b c` with
`a c ≠ 0` (any per-column means and scales) leaves the ratio, hence the estimate, unchanged.
No condition on the number of rows is needed. -/
theorem shift_scale_invariant {W' W : Sample} (hlen : W'.length = W.length) (a b : ℕ → ℚ)
    (kx ky kz : ℕ) (ha : ∀ c < kx + ky + kz, a c ≠ 0)
    (h : ∀ c < kx + ky + kz, ∀ r < W.length, entry W' r c = a c * entry W r c + b c) :
    ratio W' kx ky kz = ratio W kx ky kz := by
  have key : ∀ cols : List ℕ, (∀ c ∈ cols, c < kx + ky + kz) →
      corrDet W' cols = corrDet W cols := fun cols hc =>
    corrDet_affine hlen a b cols (fun c hm => ha c (hc c hm)) (fun c hm => h c (hc c hm))
  unfold ratio
  simp only
  rw [key, key, key, key] <;>
  · intro c hc
    simp only [List.mem_append, mem_span] at hc
    omega

/-- every single correlation determinant is invariant as well (`corrDet_affine`) -/
theorem corrDet_shift_scale_invariant {W' W : Sample} (hlen : W'.length = W.length) (a b : ℕ → ℚ)
    (cols : List ℕ) (ha : ∀ c ∈ cols, a c ≠ 0)
    (h : ∀ c ∈ cols, ∀ r < W.length, entry W' r c = a c * entry W r c + b c) :
    corrDet W' cols = corrDet W cols :=
  corrDet_affine hlen a b cols ha h

/-! ## `mix_invariant`: invertible linear mixing of the conditioning columns -/

/-- `mix_invariant` on arbitrary column lists -/
theorem ratioL_mix {W' W : Sample} (hlen : W'.length = W.length) (X Y Z : List ℕ)
    (M : Matrix (Fin Z.length) (Fin Z.length) ℚ) (b : Fin Z.length → ℚ) (hM : M.det ≠ 0)
    (hXY : ∀ c ∈ X ++ Y, ColEq W' W c c)
    (hZ : ∀ j, ColLin W' W (colAt Z j) (colAt Z) (fun i => M i j) (b j))
    (hvar : ∀ c ∈ X ++ Y ++ Z, cov W c c ≠ 0) (hvar' : ∀ c ∈ Z, cov W' c c ≠ 0) :
    ratioL W' X Y Z = ratioL W X Y Z := by
  have hv' : ∀ c ∈ X ++ Y ++ Z, cov W' c c ≠ 0 := by
    intro c hc
    rcases List.mem_append.mp hc with h | h
    · rw [cov_congr hlen (hXY c h) (hXY c h)]
      exact hvar c hc
    · exact hvar' c h
  rw [ratioL_cov W' X Y Z hv', ratioL_cov W X Y Z hvar]
  have hX := det_covM_mix hlen X Z M b (fun c hc => hXY c (by simp [hc])) hZ
  have hY := det_covM_mix hlen Y Z M b (fun c hc => hXY c (by simp [hc])) hZ
  have h0 : (covM W' Z).det = M.det ^ 2 * (covM W Z).det :=
    det_covM_mix hlen [] Z M b (by simp) hZ
  have hXYd := det_covM_mix hlen (X ++ Y) Z M b hXY hZ
  rw [hX, hY, h0, hXYd]
  by_cases h1 : (covM W Z).det = 0
  · simp [h1]
  by_cases h2 : (covM W (X ++ Y ++ Z)).det = 0
  · simp [h2]
  field_simp

theorem colAt_span (lo n : ℕ) (j : Fin (span lo n).length) : colAt (span lo n) j = j.val + lo := by
  have hj := j.isLt
  simp only [colAt, List.getD_eq_getElem?_getD, List.getElem?_eq_getElem hj, Option.getD_some,
    span_getElem]

/-- **`mix_invariant`.** Replacing the conditioning block `Z` by `Z · M + offsets` with
`det M ≠ 0` (the `X` and `Y` columns unchanged) leaves the ratio unchanged.  Guards: nonzero
sample variances of all columns before and of the new `Z` columns after (otherwise the
correlation matrices of the code are undefined). -/
theorem mix_invariant {W' W : Sample} (hlen : W'.length = W.length) (kx ky kz : ℕ)
    (M : Matrix (Fin kz) (Fin kz) ℚ) (b : Fin kz → ℚ) (hM : M.det ≠ 0)
    (hXY : ∀ c < kx + ky, ∀ r < W.length, entry W' r c = entry W r c)
    (hZ : ∀ j : Fin kz, ∀ r < W.length, entry W' r (kx + ky + j)
        = (∑ i : Fin kz, entry W r (kx + ky + i) * M i j) + b j)
    (hvar : ∀ c < kx + ky + kz, cov W c c ≠ 0)
    (hvar' : ∀ c < kx + ky + kz, cov W' c c ≠ 0) :
    ratio W' kx ky kz = ratio W kx ky kz := by
  rw [ratio_eq_ratioL, ratio_eq_ratioL]
  have hn : (span (kx + ky) kz).length = kz := span_length _ _
  let σ : Fin (span (kx + ky) kz).length ≃ Fin kz := finCongr hn
  apply ratioL_mix hlen _ _ _ (M.submatrix σ σ) (b ∘ σ)
  · rw [Matrix.det_submatrix_equiv_self]; exact hM
  · intro c hc
    apply hXY
    simp only [List.mem_append, mem_span] at hc
    omega
  · intro j r hr
    have hσ : ∀ i, ((σ i : Fin kz) : ℕ) = i.val := fun i => rfl
    have := hZ (σ j) r hr
    rw [hσ] at this
    rw [colAt_span, Nat.add_comm j.val, this]
    congr 1
    rw [← Equiv.sum_comp σ]
    refine Finset.sum_congr rfl (fun i _ => ?_)
    rw [colAt_span, hσ]
    simp only [Matrix.submatrix_apply]
    rw [Nat.add_comm i.val, mul_comm]
  · intro c hc
    apply hvar
    simp only [List.mem_append, mem_span] at hc
    omega
  · intro c hc
    apply hvar'
    simp only [mem_span] at hc
    omega

/-! ## `schur`: residual-covariance form, scalar partial correlation -/

/-- **`schur_det`.** `det Σ_{A∪Z} = det Σ_Z · det S(A|Z)` with `S(A|Z) = Σ_A − Σ_AZ Σ_Z⁻¹ Σ_ZA`
(`pcovM`, entries `pcov`) -/
theorem schur_det (W : Sample) (A Z : List ℕ) (hZ : (covM W Z).det ≠ 0) :
    (covM W (A ++ Z)).det = (covM W Z).det * (pcovM W Z A).det :=
  det_covM_schur W A Z hZ

/-- **`resid_cov`.** `S(A|Z)` *is* the covariance of least-squares residuals: if columns `a'`,
`b'` of `W'` hold the residuals of columns `a`, `b` of `W` after regression (with any intercept
`ca`, `cb`) on the columns `Z` with the least-squares coefficients `Σ_Z⁻¹ σ_Z·`, their sample
covariance is the Schur-complement entry `pcov W Z a b`. -/
theorem resid_cov {W' W : Sample} (hlen : W'.length = W.length) {a' b' a b : ℕ} {Z : List ℕ}
    {ca cb : ℚ} (hZ : (covM W Z).det ≠ 0)
    (ha : ∀ r < W.length, entry W' r a'
        = entry W r a - (∑ j, lsCoef W Z a j * entry W r (colAt Z j)) - ca)
    (hb : ∀ r < W.length, entry W' r b'
        = entry W r b - (∑ j, lsCoef W Z b j * entry W r (colAt Z j)) - cb) :
    cov W' a' b' = pcov W Z a b :=
  cov_resid_eq_pcov hlen hZ ha hb

/-- the coefficients used in `resid_cov` solve the normal equations `Σ_Z β = σ_Zb` -/
theorem resid_cov_normal_eq (W : Sample) (Z : List ℕ) (b : ℕ) (hZ : (covM W Z).det ≠ 0) :
    covM W Z *ᵥ lsCoef W Z b = fun j => cov W (colAt Z j) b :=
  lsCoef_normal W Z b hZ

theorem ratioL_schur (W : Sample) (X Y Z : List ℕ) (hvar : ∀ c ∈ X ++ Y ++ Z, cov W c c ≠ 0)
    (hZ : (covM W Z).det ≠ 0) :
    ratioL W X Y Z = (pcovM W Z X).det * (pcovM W Z Y).det / (pcovM W Z (X ++ Y)).det := by
  rw [ratioL_cov W X Y Z hvar, det_covM_schur W X Z hZ, det_covM_schur W Y Z hZ,
    det_covM_schur W (X ++ Y) Z hZ]
  by_cases h : (pcovM W Z (X ++ Y)).det = 0
  · simp [h]
  field_simp

/-- **`schur`.** The ratio in closed partial-covariance form:
`ratio = det S(X|Z) · det S(Y|Z) / det S(X,Y|Z)`, i.e. the estimator is
`½ [log det S(X|Z) + log det S(Y|Z) − log det S(X,Y|Z)]` with `S(·|Z)` the least-squares residual
covariance (`resid_cov`).  For `kz = 0`, `S(A|∅) = Σ_A`. -/
theorem schur (W : Sample) (kx ky kz : ℕ) (hvar : ∀ c < kx + ky + kz, cov W c c ≠ 0)
    (hZ : (covM W (span (kx + ky) kz)).det ≠ 0) :
    ratio W kx ky kz =
      (pcovM W (span (kx + ky) kz) (span 0 kx)).det * (pcovM W (span (kx + ky) kz) (span kx ky)).det
        / (pcovM W (span (kx + ky) kz) (span 0 kx ++ span kx ky)).det := by
  rw [ratio_eq_ratioL]
  apply ratioL_schur _ _ _ _ _ hZ
  intro c hc
  apply hvar
  simp only [List.mem_append, mem_span] at hc
  omega

theorem pcovM_det_singleton (W : Sample) (Z : List ℕ) (a : ℕ) :
    (pcovM W Z [a]).det = pcov W Z a a := by
  change Matrix.det (Matrix.of fun i k : Fin 1 => pcov W Z (colAt [a] i) (colAt [a] k)) = _
  rw [Matrix.det_fin_one]
  rfl

theorem pcovM_det_pair (W : Sample) (Z : List ℕ) (a b : ℕ) :
    (pcovM W Z [a, b]).det = pcov W Z a a * pcov W Z b b - pcov W Z a b ^ 2 := by
  change Matrix.det (Matrix.of fun i k : Fin 2 => pcov W Z (colAt [a, b] i) (colAt [a, b] k)) = _
  rw [Matrix.det_fin_two]
  have e0 : colAt [a, b] (0 : Fin 2) = a := rfl
  have e1 : colAt [a, b] (1 : Fin 2) = b := rfl
  simp only [Matrix.of_apply, e0, e1]
  rw [pcov_comm W Z b a]
  ring

theorem ratio_scalar_pcov (W : Sample) (kz : ℕ) (hvar : ∀ c < 2 + kz, cov W c c ≠ 0)
    (hZ : (covM W (span 2 kz)).det ≠ 0) :
    ratio W 1 1 kz = pcov W (span 2 kz) 0 0 * pcov W (span 2 kz) 1 1
      / (pcov W (span 2 kz) 0 0 * pcov W (span 2 kz) 1 1 - pcov W (span 2 kz) 0 1 ^ 2) := by
  have e : ratio W 1 1 kz = ratioL W [0] [1] (span 2 kz) := rfl
  rw [e, ratioL_schur W [0] [1] (span 2 kz) _ hZ]
  · change (pcovM W (span 2 kz) [0]).det * (pcovM W (span 2 kz) [1]).det
      / (pcovM W (span 2 kz) [0, 1]).det = _
    rw [pcovM_det_singleton, pcovM_det_singleton, pcovM_det_pair]
  · intro c hc
    apply hvar
    simp only [List.mem_append, mem_span, List.mem_singleton] at hc
    omega

/-- **`partial_corr`.** Scalar `X`, `Y` and any conditioning block `Z`: the ratio is
`1 / (1 − ρ²)` where `ρ² = s_xy² / (s_xx · s_yy)` is the squared sample *partial* correlation
(`s = pcov W Z`, the covariance of the least-squares residuals given `Z`); the estimator is
`−½ log (1 − ρ²)`. -/
theorem partial_corr (W : Sample) (kz : ℕ) (hvar : ∀ c < 2 + kz, cov W c c ≠ 0)
    (hZ : (covM W (span 2 kz)).det ≠ 0)
    (hx : pcov W (span 2 kz) 0 0 ≠ 0) (hy : pcov W (span 2 kz) 1 1 ≠ 0) :
    ratio W 1 1 kz = 1 / (1 - pcov W (span 2 kz) 0 1 ^ 2
      / (pcov W (span 2 kz) 0 0 * pcov W (span 2 kz) 1 1)) := by
  rw [ratio_scalar_pcov W kz hvar hZ]
  by_cases hD : pcov W (span 2 kz) 0 0 * pcov W (span 2 kz) 1 1 - pcov W (span 2 kz) 0 1 ^ 2 = 0
  · have : 1 - pcov W (span 2 kz) 0 1 ^ 2
        / (pcov W (span 2 kz) 0 0 * pcov W (span 2 kz) 1 1) = 0 := by
      field_simp
      linarith
    simp [hD, this]
  · field_simp

/-! ## Non-negativity -/

theorem corrDet_ne_zero_iff (W : Sample) (cols : List ℕ) :
    corrDet W cols ≠ 0 ↔ (covM W cols).det ≠ 0 ∧ ∀ c ∈ cols, cov W c c ≠ 0 := by
  rw [corrDet_eq, div_ne_zero_iff]
  constructor
  · rintro ⟨h1, h2⟩
    refine ⟨h1, fun c hc h0 => h2 (List.prod_eq_zero ?_)⟩
    exact List.mem_map.mpr ⟨c, hc, h0⟩
  · rintro ⟨h1, h2⟩
    exact ⟨h1, prod_cov_ne_zero W cols h2⟩

/-- what the non-singularity guard of the code (all four correlation determinants nonzero)
means for scalar `X`, `Y`: nonzero variances, `det Σ_Z ≠ 0`, nonzero residual variances and
`1 − ρ² ≠ 0` -/
theorem dets_scalar_facts (W : Sample) (kz : ℕ) (h : ∀ d ∈ dets W 1 1 kz, d ≠ 0) :
    (∀ c < 2 + kz, cov W c c ≠ 0) ∧ (covM W (span 2 kz)).det ≠ 0 ∧
    pcov W (span 2 kz) 0 0 ≠ 0 ∧ pcov W (span 2 kz) 1 1 ≠ 0 ∧
    pcov W (span 2 kz) 0 0 * pcov W (span 2 kz) 1 1 - pcov W (span 2 kz) 0 1 ^ 2 ≠ 0 := by
  have hd : dets W 1 1 kz = [corrDet W ([0] ++ span 2 kz), corrDet W ([1] ++ span 2 kz),
      corrDet W (span 2 kz), corrDet W ([0] ++ [1] ++ span 2 kz)] := rfl
  rw [hd] at h
  obtain ⟨hXZ, -⟩ := (corrDet_ne_zero_iff W _).mp (h (corrDet W ([0] ++ span 2 kz)) (by simp))
  obtain ⟨hYZ, -⟩ := (corrDet_ne_zero_iff W _).mp (h (corrDet W ([1] ++ span 2 kz)) (by simp))
  obtain ⟨hZ, -⟩ := (corrDet_ne_zero_iff W _).mp (h (corrDet W (span 2 kz)) (by simp))
  obtain ⟨hXYZ, hv⟩ := (corrDet_ne_zero_iff W _).mp
    (h (corrDet W ([0] ++ [1] ++ span 2 kz)) (by simp))
  have hvar : ∀ c < 2 + kz, cov W c c ≠ 0 := by
    intro c hc
    apply hv
    simp only [List.mem_append, mem_span, List.mem_singleton]
    omega
  rw [det_covM_schur W [0] _ hZ, pcovM_det_singleton] at hXZ
  rw [det_covM_schur W [1] _ hZ, pcovM_det_singleton] at hYZ
  rw [det_covM_schur W ([0] ++ [1]) _ hZ] at hXYZ
  have hpair : (pcovM W (span 2 kz) ([0] ++ [1])).det
      = pcov W (span 2 kz) 0 0 * pcov W (span 2 kz) 1 1 - pcov W (span 2 kz) 0 1 ^ 2 :=
    pcovM_det_pair W _ 0 1
  rw [hpair] at hXYZ
  exact ⟨hvar, hZ, right_ne_zero_of_mul hXZ, right_ne_zero_of_mul hYZ,
    right_ne_zero_of_mul hXYZ⟩

/-- `partial_corr` under the code's own guard (the four determinants are nonzero) -/
theorem partial_corr_of_dets (W : Sample) (kz : ℕ) (h : ∀ d ∈ dets W 1 1 kz, d ≠ 0) :
    ratio W 1 1 kz = 1 / (1 - pcov W (span 2 kz) 0 1 ^ 2
      / (pcov W (span 2 kz) 0 0 * pcov W (span 2 kz) 1 1)) := by
  obtain ⟨hvar, hZ, hx, hy, -⟩ := dets_scalar_facts W kz h
  exact partial_corr W kz hvar hZ hx hy

/-- **`nonneg_partial`.** Non-negativity of the estimate (`ratio ≥ 1`, i.e. `½ log ratio ≥ 0`)
for scalar `X` and `Y` and an arbitrary conditioning block `Z` (`kz ≥ 0`), whenever the four
correlation determinants used by the code are nonzero (no singular sentinel).  Proof: Schur
complement + Cauchy–Schwarz on the least-squares residuals.
*Missing*: the case `kx > 1` or `ky > 1`, which needs Fischer's/Koteljanskii's determinant
inequality `det Σ_XZ · det Σ_YZ ≥ det Σ_Z · det Σ_XYZ` (not in Mathlib). -/
theorem nonneg_partial (W : Sample) (kz : ℕ) (h : ∀ d ∈ dets W 1 1 kz, d ≠ 0) :
    1 ≤ ratio W 1 1 kz := by
  obtain ⟨hvar, hZ, hx, hy, hD⟩ := dets_scalar_facts W kz h
  have hcs := pcov_sq_le W (span 2 kz) 0 1 hZ
  have hDpos : 0 < pcov W (span 2 kz) 0 0 * pcov W (span 2 kz) 1 1
      - pcov W (span 2 kz) 0 1 ^ 2 := lt_of_le_of_ne (by linarith) (Ne.symm hD)
  rw [ratio_scalar_pcov W kz hvar hZ, one_le_div hDpos]
  nlinarith [sq_nonneg (pcov W (span 2 kz) 0 1)]

/-- **`ratio_ge_one`** (unconditional scalar case, no determinant theory needed in the
statement): `r² ≤ 1` by Cauchy–Schwarz, so `ratio = 1/(1 − r²) ≥ 1` for a non-singular sample. -/
theorem ratio_ge_one (W : Sample) (h0 : cov W 0 0 ≠ 0) (h1 : cov W 1 1 ≠ 0)
    (hD : cov W 0 0 * cov W 1 1 - cov W 0 1 ^ 2 ≠ 0) : 1 ≤ ratio W 1 1 0 := by
  have e : ratio W 1 1 0 = corrDet W [0] * corrDet W [1] / (corrDet W [] * corrDet W [0, 1]) := rfl
  rw [e, corrDet_singleton W 0 h0, corrDet_singleton W 1 h1, corrDet_nil, corrDet_pair]
  have hcs := cov_sq_le W 0 1
  have hDpos : 0 < cov W 0 0 * cov W 1 1 - cov W 0 1 ^ 2 :=
    lt_of_le_of_ne (by linarith) (Ne.symm hD)
  have hP : 0 < cov W 0 0 * cov W 1 1 := by nlinarith [sq_nonneg (cov W 0 1)]
  rw [one_mul, one_mul, one_div, inv_div, one_le_div hDpos]
  nlinarith [sq_nonneg (cov W 0 1)]

/-- Cauchy–Schwarz for the sample covariance: `r² ≤ 1` -/
theorem sq_corr_le_one (W : Sample) (a b : ℕ) : cov W a b ^ 2 ≤ cov W a a * cov W b b :=
  cov_sq_le W a b

/-! ## Non-vacuity: concrete instances of every hypothesis, and evaluation of the model -/

/-- a 4 × 3 sample (columns `x`, `y`, `z`) -/
def W0 : Sample := [[1, 2, 0], [2, 1, 1], [3, 5, 1], [4, 3, 3]]

/-- the model evaluates (kernel computation on ℚ) -/
example : ratio W0 1 1 1 = 140 / 19 := by decide +kernel
example : dets W0 1 1 1 = [14 / 95, 128 / 133, 1, 64 / 3325] := by decide +kernel
example : ratio W0 1 1 0 = 25 / 18 := by decide +kernel
example : (cov W0 0 0, cov W0 1 1, cov W0 0 1) = (5 / 3, 35 / 12, 7 / 6) := by decide +kernel

/-- `ratio_cov`: the variance guard holds on `W0` -/
example : ∀ c < 1 + 1 + 1, cov W0 c c ≠ 0 := by decide +kernel

/-- determinants of `covM` are computed by the model's `detF` (for `decide`) -/
theorem det_covM_eq_detF (W : Sample) (cols : List ℕ) :
    (covM W cols).det
      = detF cols.length (fun a b => cov W (cols.getD a.val 0) (cols.getD b.val 0)) :=
  (detF_eq_det _ _).symm

/-- `ratio_symm`: the hypothesis is satisfiable for every sample (take the reordered sample) -/
example (W : Sample) (kx ky kz : ℕ) :
    ratio (selectCols W (span kx ky ++ span 0 kx ++ span (kx + ky) kz)) ky kx kz
      = ratio W kx ky kz :=
  ratio_symm kx ky kz (isColSel_selectCols W _)

example : selectCols W0 (span 1 1 ++ span 0 1 ++ span (1 + 1) 1)
    = [[2, 1, 0], [1, 2, 1], [5, 3, 1], [3, 4, 3]] := by decide +kernel

/-- `chain_rule` on `W0`: `50 = 95/14 · 140/19` -/
example : ratio W0 1 (1 + 1) 0
    = ratio (selectCols W0 (span 0 1 ++ span (1 + 1) 1)) 1 1 0 * ratio W0 1 1 1 :=
  chain_rule 1 1 1 (isColSel_selectCols W0 _) (by decide +kernel) (by decide +kernel)

example : (ratio W0 1 (1 + 1) 0, ratio (selectCols W0 (span 0 1 ++ span (1 + 1) 1)) 1 1 0)
    = (50, 95 / 14) := by decide +kernel

/-- `scalar_unconditional` on `W0`: `r² = (7/6)² / (5/3 · 35/12) = 7/25`, ratio `= 25/18` -/
example : ratio W0 1 1 0 = 1 / (1 - cov W0 0 1 ^ 2 / (cov W0 0 0 * cov W0 1 1)) :=
  scalar_unconditional W0 (by decide +kernel) (by decide +kernel)

/-- `shift_scale_invariant`: satisfiable for every sample and all nonzero scales -/
example (W : Sample) (kx ky kz : ℕ) (a b : ℕ → ℚ) (ha : ∀ c, a c ≠ 0) :
    ratio (affineMap a b (kx + ky + kz) W) kx ky kz = ratio W kx ky kz :=
  shift_scale_invariant (affineMap_length a b _ W) a b kx ky kz (fun c _ => ha c)
    (fun _ hc _ hr => affineMap_entry a b _ W hr hc)

example : affineMap (fun c => (c : ℚ) + 2) (fun c => -(c : ℚ)) 3 W0
    = [[2, 5, -2], [4, 2, 2], [6, 14, 2], [8, 8, 10]] := by decide +kernel

/-- `mix_invariant`: `X`, `Y` scalar, two conditioning columns mixed by `M = !![1, 1; 0, 2]`
(`det M = 2`) and shifted by `(5, -1)` -/
def W1 : Sample := [[1, 2, 0, 1], [2, 1, 1, 0], [3, 5, 1, 2], [4, 3, 3, 1], [5, 4, 2, 4]]
def W1' : Sample := [[1, 2, 5, 1], [2, 1, 6, 0], [3, 5, 6, 4], [4, 3, 8, 4], [5, 4, 7, 9]]

example : ratio W1' 1 1 2 = ratio W1 1 1 2 := by
  refine mix_invariant (by decide) 1 1 2 !![1, 1; 0, 2] ![5, -1] (by simp [Matrix.det_fin_two])
    (by decide +kernel) ?_ (by decide +kernel) (by decide +kernel)
  intro j r hr
  have hr' : r < 5 := hr
  fin_cases j <;> interval_cases r <;> simp [Fin.sum_univ_two, entry, W1, W1'] <;> norm_num

example : (ratio W1 1 1 2, ratio W1' 1 1 2) = (224 / 223, 224 / 223) := by decide +kernel

/-- `schur`, `partial_corr`, `nonneg_partial`: the guards hold on `W0` (`kz = 1`) and `W1`
(`kz = 2`) -/
example : ∀ d ∈ dets W0 1 1 1, d ≠ 0 := by decide +kernel
example : ∀ d ∈ dets W1 1 1 2, d ≠ 0 := by decide +kernel
example : (covM W1 (span (1 + 1) 2)).det ≠ 0 := by rw [det_covM_eq_detF]; decide +kernel
example : 1 ≤ ratio W1 1 1 2 := nonneg_partial W1 2 (by decide +kernel)

/-- `ratio_ge_one` on `W0` -/
example : 1 ≤ ratio W0 1 1 0 :=
  ratio_ge_one W0 (by decide +kernel) (by decide +kernel) (by decide +kernel)

end CE.Gauss
