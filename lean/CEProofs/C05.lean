import CEProofs.C02

/-! # C05 — conditional recovery of a planted lagged dependence

The statistical part of C05 (recovery *frequency*) is a measurement, not a theorem. What is logic:
if the planted column `c★` has a favourable landscape — (i) strictly `leTop`-largest information
given the initial conditioning, (ii) its forward test passes, (iii) its backward test passes against
every conditioning list — then `ocseStd`/`ocseAlt` select it and `edgeLoop` emits an edge carrying its
label `(variable, lag)`, **whatever all other candidates, verdicts and the backward order do**.

While `c★` is undecided the only conditioning list the run can reach is the initial one
(`zinit` for the standard variant, `[]` for the alternative one) because `c★` wins the very first
arg-max; so hypotheses (i) and (ii) are stated for that list only (`planted_recovered_std/alt`, the
weakest form), and `planted_recovered` restates them over all conditioning lists `Z` and all counters. -/
namespace CE.Disc

/-- a strict maximum wins the arg-max: the tested candidate is the planted one -/
theorem FwdTestOK.eq_planted {f : Nat → List Nat → Val} {α : Rat} {U Z : List Nat} {e : Ev}
    (hok : FwdTestOK Eq f α U Z e) {cs : Nat} (hcs : cs ∈ U)
    (hstrict : ∀ c ∈ U, c ≠ cs → leTop (f cs Z) (f c Z) = false) : e.cand = cs := by
  by_contra hne
  have h1 := hok.max cs hcs
  rw [hok.obs, hok.cond] at h1
  have h2 := hstrict e.cand hok.mem hne
  rw [h1] at h2; cases h2

theorem C05.bwdStep_evs (o : Oracles) (α : Rat) (st : St) (j : Nat) :
    ∃ ev, (bwdStep o α st j).evs = st.evs ++ [ev] := ⟨_, rfl⟩

theorem C05.bwdStep_S (o : Oracles) (α : Rat) (st : St) (j : Nat) :
    (bwdStep o α st j).S = st.S ∨ (bwdStep o α st j).S = st.S.erase j := by
  simp only [bwdStep]
  generalize (o.test st.c α j _ _).1 = b
  cases b <;> simp

/-- `backward` only appends events -/
theorem C05.bwdFold_evs_prefix (o : Oracles) (α : Rat) : ∀ (visit : List Nat) (st : St),
    ∃ evs, (visit.foldl (bwdStep o α) st).evs = st.evs ++ evs := by
  intro visit
  induction visit with
  | nil => intro st; exact ⟨[], by simp⟩
  | cons j visit ih =>
    intro st
    obtain ⟨evs, h⟩ := ih (bwdStep o α st j)
    obtain ⟨ev, h'⟩ := C05.bwdStep_evs o α st j
    exact ⟨ev :: evs, by rw [List.foldl_cons, h, h']; simp⟩

theorem C05.backward_evs_prefix (o : Oracles) (α : Rat) (st : St) :
    ∃ evs, (backward o α st).evs = st.evs ++ evs := by
  simpa [backward] using C05.bwdFold_evs_prefix o α (o.order st.c st.S) { st with c := st.c + 1 }

/-- a predictor whose backward test always passes survives `backward`, for **any** visiting order
(no permutation hypothesis) and any behaviour of the other predictors -/
theorem bwdFold_keeps (o : Oracles) (α : Rat) (cs : Nat)
    (hb : ∀ k Z, (o.test k α cs Z (o.f cs Z)).1 = true) :
    ∀ (visit : List Nat) (st : St), cs ∈ st.S → cs ∈ (visit.foldl (bwdStep o α) st).S := by
  intro visit
  induction visit with
  | nil => intro st h; exact h
  | cons j visit ih =>
    intro st h
    rw [List.foldl_cons]
    apply ih
    by_cases hj : j = cs
    · subst hj
      simp only [bwdStep, hb, ↓reduceIte]; exact h
    · rcases C05.bwdStep_S o α st j with h' | h' <;> rw [h']
      · exact h
      · exact (List.mem_erase_of_ne (fun h' => hj h'.symm)).mpr h

theorem backward_keeps (o : Oracles) (α : Rat) (cs : Nat)
    (hb : ∀ k Z, (o.test k α cs Z (o.f cs Z)).1 = true) (st : St) (h : cs ∈ st.S) :
    cs ∈ (backward o α st).S :=
  bwdFold_keeps o α cs hb _ _ h

/-- `label` inverts `colId` on legal lags (C01's `label_bijective`, the direction needed here) -/
theorem C05.label_colId {L u τ : Nat} (h1 : 1 ≤ τ) (h2 : τ ≤ L) : label L (colId L u τ) = (u, τ) := by
  have hL : 0 < L := by omega
  have hlt : τ - 1 < L := by omega
  unfold label colId
  rw [Nat.add_comm, Nat.add_mul_div_right _ _ hL, Nat.add_mul_mod_self_right,
    Nat.div_eq_of_lt hlt, Nat.mod_eq_of_lt hlt]
  simp; omega

/-! ## the planted column is tested first and accepted first -/

/-- standard variant: the very first test is the forward test of `c★`, at level `αf`, conditioned on
the initial set only, started at counter `c`; it passes, so `c★` is the first accepted predictor -/
theorem planted_is_first_accepted_std (o : Oracles) (αf : Rat) (n : Nat) (zinit : List Nat) (c cs : Nat)
    (hcs : cs < n)
    (hstrict : ∀ c' < n, c' ≠ cs → leTop (o.f cs zinit) (o.f c' zinit) = false)
    (hpass : (o.test c αf cs zinit (o.f cs zinit)).1 = true) :
    (∃ e rest, (fwdStdRun o αf n zinit c).evs = e :: rest ∧ e.phase = .fwd ∧ e.level = αf ∧
      e.cand = cs ∧ e.cond = zinit ∧ e.obs = o.f cs zinit ∧ e.pass = true) ∧
    (∃ S', (fwdStdRun o αf n zinit c).S = cs :: S') := by
  obtain ⟨hspec, hcons⟩ := fwdStdRun_refines o αf n zinit c
  generalize (fwdStdRun o αf n zinit c).evs = evs at hspec hcons
  generalize (fwdStdRun o αf n zinit c).S = R at hspec
  generalize (fwdStdRun o αf n zinit c).c = c' at hcons
  have hmem : cs ∈ List.range n := List.mem_range.mpr hcs
  have hstrict' : ∀ x ∈ List.range n, x ≠ cs →
      leTop (o.f cs (zinit ++ [])) (o.f x (zinit ++ [])) = false := by
    intro x hx hne
    simpa using hstrict x (List.mem_range.mp hx) hne
  generalize hU : List.range n = U at hspec hmem hstrict'
  cases hspec with
  | done => cases hmem
  | @accept _ _ e evs _ hok hp hrest =>
    have hc := hok.eq_planted hmem hstrict'
    have hcond : e.cond = zinit := by simpa using hok.cond
    have hobs : e.obs = o.f cs zinit := by rw [hok.obs, hc, hcond]
    refine ⟨⟨e, evs, rfl, hok.phase, hok.level, hc, hcond, hobs, hp⟩, ?_⟩
    have := hrest.result_eq
    rw [hc] at this
    exact ⟨acceptedOf evs, by simpa using this⟩
  | @reject _ _ e evs _ hok hp hrest =>
    exfalso
    have hc := hok.eq_planted hmem hstrict'
    have hcond : e.cond = zinit := by simpa using hok.cond
    have hobs : e.obs = o.f cs zinit := by rw [hok.obs, hc, hcond]
    cases hcons with
    | cons hv _ =>
      rw [hok.level, hc, hcond, hobs] at hv
      have : e.pass = true := by
        have := congrArg Prod.fst hv
        simpa [hpass] using this
      rw [hp] at this; cases this

/-- alternative variant: the very first test is the forward test of `c★`, conditioned on nothing,
it passes, and `c★` is the first accepted predictor -/
theorem planted_is_first_accepted_alt (o : Oracles) (αf : Rat) (n : Nat) (c cs : Nat)
    (hcs : cs < n)
    (hstrict : ∀ c' < n, c' ≠ cs → leTop (o.f cs []) (o.f c' []) = false)
    (hpass : (o.test c αf cs [] (o.f cs [])).1 = true) :
    (∃ e rest, (fwdAltRun o αf n c).evs = e :: rest ∧ e.phase = .fwd ∧ e.level = αf ∧
      e.cand = cs ∧ e.cond = [] ∧ e.obs = o.f cs [] ∧ e.pass = true) ∧
    (∃ S', (fwdAltRun o αf n c).S = cs :: S') := by
  obtain ⟨hspec, hcons⟩ := fwdAltRun_refines o αf n c
  generalize (fwdAltRun o αf n c).evs = evs at hspec hcons
  generalize (fwdAltRun o αf n c).S = R at hspec
  generalize (fwdAltRun o αf n c).c = c' at hcons
  have hmem : cs ∈ altUndecided n [] := mem_altUndecided.mpr ⟨hcs, by simp⟩
  have hstrict' : ∀ x ∈ altUndecided n [], x ≠ cs → leTop (o.f cs []) (o.f x []) = false :=
    fun x hx hne => hstrict x (mem_altUndecided.mp hx).1 hne
  cases hspec with
  | done hemp => rw [hemp] at hmem; cases hmem
  | @accept _ e evs _ hok hp hrest =>
    have hc := hok.eq_planted hmem hstrict'
    have hcond : e.cond = [] := hok.cond
    have hobs : e.obs = o.f cs [] := by rw [hok.obs, hc, hcond]
    refine ⟨⟨e, evs, rfl, hok.phase, hok.level, hc, hcond, hobs, hp⟩, ?_⟩
    have := hrest.result_eq
    rw [hc] at this
    exact ⟨acceptedOf evs, by simpa using this⟩
  | @reject _ e hok hp =>
    exfalso
    have hc := hok.eq_planted hmem hstrict'
    have hcond : e.cond = [] := hok.cond
    have hobs : e.obs = o.f cs [] := by rw [hok.obs, hc, hcond]
    cases hcons with
    | cons hv _ =>
      rw [hok.level, hc, hcond, hobs] at hv
      have : e.pass = true := by
        have := congrArg Prod.fst hv
        simpa [hpass] using this
      rw [hp] at this; cases this

/-! ## recovery -/

/-- **standard variant, weakest hypotheses**: `c★ < n` is (i) strictly above every other candidate
given the initial conditioning `zinit`, (ii) passes the forward test started at counter `c`,
(iii) passes its backward test whenever and against whatever it is tested. Then `c★` is selected
and the edge loop (for any target index `i`, lag range `L`, start counter `c'`) emits an edge
labelled `label L c★` whose cmi is `f c★ (selected minus c★)` — for **any** behaviour of all other
candidates and **any** backward visiting order (not even a permutation is required). -/
theorem planted_recovered_std (o : Oracles) (αf αb : Rat) (n : Nat) (zinit : List Nat) (c cs : Nat)
    (hcs : cs < n)
    (hstrict : ∀ c' < n, c' ≠ cs → leTop (o.f cs zinit) (o.f c' zinit) = false)
    (hpass : (o.test c αf cs zinit (o.f cs zinit)).1 = true)
    (hb : ∀ k Z, (o.test k αb cs Z (o.f cs Z)).1 = true) (L i c' : Nat) :
    cs ∈ (ocseStd o αf αb n zinit c).S ∧
    ∃ e ∈ (edgeLoop o αb L i (ocseStd o αf αb n zinit c).S c').1,
      (e.src, e.lag) = label L cs ∧ e.dst = i ∧
      e.cmi = o.f cs ((ocseStd o αf αb n zinit c).S.filter (fun k => k != cs)) := by
  obtain ⟨_, S', hS⟩ := planted_is_first_accepted_std o αf n zinit c cs hcs hstrict hpass
  have hsel : cs ∈ (ocseStd o αf αb n zinit c).S :=
    backward_keeps o αb cs hb (fwdStdRun o αf n zinit c) (by rw [hS]; exact List.mem_cons_self)
  exact ⟨hsel, (edgeLoop_mem o αb L i _ c').1 cs hsel⟩

/-- **alternative variant, weakest hypotheses** (initial conditioning is empty) -/
theorem planted_recovered_alt (o : Oracles) (αf αb : Rat) (n : Nat) (c cs : Nat)
    (hcs : cs < n)
    (hstrict : ∀ c' < n, c' ≠ cs → leTop (o.f cs []) (o.f c' []) = false)
    (hpass : (o.test c αf cs [] (o.f cs [])).1 = true)
    (hb : ∀ k Z, (o.test k αb cs Z (o.f cs Z)).1 = true) (L i c' : Nat) :
    cs ∈ (ocseAlt o αf αb n c).S ∧
    ∃ e ∈ (edgeLoop o αb L i (ocseAlt o αf αb n c).S c').1,
      (e.src, e.lag) = label L cs ∧ e.dst = i ∧
      e.cmi = o.f cs ((ocseAlt o αf αb n c).S.filter (fun k => k != cs)) := by
  obtain ⟨_, S', hS⟩ := planted_is_first_accepted_alt o αf n c cs hcs hstrict hpass
  have hsel : cs ∈ (ocseAlt o αf αb n c).S :=
    backward_keeps o αb cs hb (fwdAltRun o αf n c) (by rw [hS]; exact List.mem_cons_self)
  exact ⟨hsel, (edgeLoop_mem o αb L i _ c').1 cs hsel⟩

/-- the favourable landscape of C05 for the planted column `c★`, stated over all conditioning lists
and all counters: strict arg-max, forward test passes, backward test passes -/
structure Favourable (o : Oracles) (αf αb : Rat) (n cs : Nat) : Prop where
  strict : ∀ Z, ∀ c' < n, c' ≠ cs → leTop (o.f cs Z) (o.f c' Z) = false
  fwd    : ∀ k Z, (o.test k αf cs Z (o.f cs Z)).1 = true
  bwd    : ∀ k Z, (o.test k αb cs Z (o.f cs Z)).1 = true

/-- **planted column is the first test and the first accepted predictor**, both variants, in the
trace of the whole selection: standard — conditioned on the initial set only; alternative —
conditioned on nothing -/
theorem planted_is_first_accepted (o : Oracles) (αf αb : Rat) (n : Nat) (zinit : List Nat) (c cs : Nat)
    (hcs : cs < n) (hfav : Favourable o αf αb n cs) :
    (∃ e rest S', (ocseStd o αf αb n zinit c).evs = e :: rest ∧ e.phase = .fwd ∧ e.level = αf ∧
      e.cand = cs ∧ e.cond = zinit ∧ e.obs = o.f cs zinit ∧ e.pass = true ∧
      (fwdStdRun o αf n zinit c).S = cs :: S') ∧
    (∃ e rest S', (ocseAlt o αf αb n c).evs = e :: rest ∧ e.phase = .fwd ∧ e.level = αf ∧
      e.cand = cs ∧ e.cond = [] ∧ e.obs = o.f cs [] ∧ e.pass = true ∧
      (fwdAltRun o αf n c).S = cs :: S') := by
  constructor
  · obtain ⟨⟨e, rest, h0, h1, h2, h3, h4, h5, h6⟩, S', hS⟩ :=
      planted_is_first_accepted_std o αf n zinit c cs hcs (hfav.strict zinit) (hfav.fwd c zinit)
    obtain ⟨be, hbe⟩ := C05.backward_evs_prefix o αb (fwdStdRun o αf n zinit c)
    exact ⟨e, rest ++ be, S', by rw [ocseStd, hbe, h0]; rfl, h1, h2, h3, h4, h5, h6, hS⟩
  · obtain ⟨⟨e, rest, h0, h1, h2, h3, h4, h5, h6⟩, S', hS⟩ :=
      planted_is_first_accepted_alt o αf n c cs hcs (hfav.strict []) (hfav.fwd c [])
    obtain ⟨be, hbe⟩ := C05.backward_evs_prefix o αb (fwdAltRun o αf n c)
    exact ⟨e, rest ++ be, S', by rw [ocseAlt, hbe, h0]; rfl, h1, h2, h3, h4, h5, h6, hS⟩

theorem C05.colId_lt {L nvar u τ : Nat} (hu : u < nvar) (h1 : 1 ≤ τ) (h2 : τ ≤ L) :
    colId L u τ < nvar * L := by
  have h := Nat.mul_le_mul_right L (show u + 1 ≤ nvar from hu)
  rw [Nat.succ_mul] at h
  unfold colId; omega

/-- **C05, conditional recovery**: with `nvar` variables and lags `1..L`, if the planted column
`colId L u τ` (`u < nvar`, `1 ≤ τ ≤ L`) has a favourable landscape for target `v`, then both oCSE
variants followed by the edge loop produce an edge `u → v` with lag exactly `τ`, whatever the other
candidates, the initial conditioning ids, the counters and the backward order are. -/
theorem planted_recovered (o : Oracles) (αf αb : Rat) (L nvar u v τ : Nat)
    (hu : u < nvar) (h1 : 1 ≤ τ) (h2 : τ ≤ L)
    (hfav : Favourable o αf αb (nvar * L) (colId L u τ)) (zinit : List Nat) (c c' : Nat) :
    (colId L u τ ∈ (ocseStd o αf αb (nvar * L) zinit c).S ∧
      ∃ e ∈ (edgeLoop o αb L v (ocseStd o αf αb (nvar * L) zinit c).S c').1,
        e.src = u ∧ e.dst = v ∧ e.lag = τ) ∧
    (colId L u τ ∈ (ocseAlt o αf αb (nvar * L) c).S ∧
      ∃ e ∈ (edgeLoop o αb L v (ocseAlt o αf αb (nvar * L) c).S c').1,
        e.src = u ∧ e.dst = v ∧ e.lag = τ) := by
  have hlt := C05.colId_lt hu h1 h2
  have hlab := C05.label_colId (u := u) h1 h2
  constructor
  · obtain ⟨hsel, e, he, hl, hd, _⟩ := planted_recovered_std o αf αb (nvar * L) zinit c (colId L u τ) hlt
      (hfav.strict zinit) (hfav.fwd c zinit) hfav.bwd L v c'
    rw [hlab, Prod.mk.injEq] at hl
    exact ⟨hsel, e, he, hl.1, hd, hl.2⟩
  · obtain ⟨hsel, e, he, hl, hd, _⟩ := planted_recovered_alt o αf αb (nvar * L) c (colId L u τ) hlt
      (hfav.strict []) (hfav.fwd c []) hfav.bwd L v c'
    rw [hlab, Prod.mk.injEq] at hl
    exact ⟨hsel, e, he, hl.1, hd, hl.2⟩

/-! ## at the level of `discoverWith` (all targets, threaded draw counter) -/

/-- the selection of target `i` when `d` draws have been made -/
def C05.selOf (m : Method) (orc : Nat → Oracles) (lasso : Nat → List Nat) (αf αb : Rat) (L n i d : Nat) : St :=
  match m with
  | .standard => ocseStd (orc i) αf αb (n * L) ((List.range L).map (fun t => colId L i (t + 1))) d
  | .alternative => ocseAlt (orc i) αf αb (n * L) d
  | _ => { S := lasso i, c := d, evs := [] }

/-- one target of `discoverWith` -/
def C05.discStep (m : Method) (orc : Nat → Oracles) (lasso : Nat → List Nat) (αf αb : Rat) (L n : Nat)
    (acc : Result) (i : Nat) : Result :=
  let st := C05.selOf m orc lasso αf αb L n i acc.draws
  let r := edgeLoop (orc i) αb L i st.S st.c
  { edges := acc.edges ++ r.1, evs := acc.evs ++ st.evs ++ r.2.1, draws := r.2.2, sel := acc.sel ++ [st.S] }

theorem C05.discoverWith_eq (m : Method) (orc : Nat → Oracles) (lasso : Nat → List Nat) (αf αb : Rat) (L n : Nat) :
    discoverWith m orc lasso αf αb L n =
      (List.range n).foldl (C05.discStep m orc lasso αf αb L n) { edges := [], evs := [], draws := 0, sel := [] } := by
  rfl

theorem C05.discFold_mono (m : Method) (orc : Nat → Oracles) (lasso : Nat → List Nat) (αf αb : Rat) (L n : Nat) :
    ∀ (l : List Nat) (acc : Result) (e : Edge), e ∈ acc.edges →
      e ∈ (l.foldl (C05.discStep m orc lasso αf αb L n) acc).edges := by
  intro l
  induction l with
  | nil => intro acc e h; exact h
  | cons i l ih =>
    intro acc e h
    rw [List.foldl_cons]
    exact ih _ e (List.mem_append_left _ h)

/-- whatever the method: if the column `colId L u τ` is in the selected set of target `v < n`
(at whatever counter the selection is started), the output contains the edge `u → v` with lag `τ`.
For the LASSO methods the selected set is the oracle `lasso v` itself. -/
theorem discover_edge_of_selected (m : Method) (orc : Nat → Oracles) (lasso : Nat → List Nat)
    (αf αb : Rat) (L n u v τ : Nat) (hv : v < n) (h1 : 1 ≤ τ) (h2 : τ ≤ L)
    (hsel : ∀ d, colId L u τ ∈ (C05.selOf m orc lasso αf αb L n v d).S) :
    ∃ e ∈ (discoverWith m orc lasso αf αb L n).edges, e.src = u ∧ e.dst = v ∧ e.lag = τ := by
  rw [C05.discoverWith_eq]
  have hgen : ∀ (l : List Nat) (acc : Result), v ∈ l →
      ∃ e ∈ (l.foldl (C05.discStep m orc lasso αf αb L n) acc).edges, e.src = u ∧ e.dst = v ∧ e.lag = τ := by
    intro l
    induction l with
    | nil => intro acc h; cases h
    | cons i l ih =>
      intro acc h
      rw [List.foldl_cons]
      by_cases hi : i = v
      · subst hi
        obtain ⟨e, he, hl, hd, _⟩ := (edgeLoop_mem (orc i) αb L i _
          (C05.selOf m orc lasso αf αb L n i acc.draws).c).1 _ (hsel acc.draws)
        rw [C05.label_colId h1 h2, Prod.mk.injEq] at hl
        exact ⟨e, C05.discFold_mono m orc lasso αf αb L n l _ e (List.mem_append_right _ he), hl.1, hd, hl.2⟩
      · rcases List.mem_cons.mp h with h | h
        · exact absurd h.symm hi
        · exact ih _ h
  exact hgen _ _ (List.mem_range.mpr hv)

/-- **C05 at `discoverWith` level**, standard and alternative methods: a favourable landscape for
the planted column in the oracles of target `v` gives the edge `u → v` with lag `τ` in the output -/
theorem planted_recovered_discover (m : Method) (hm : m = .standard ∨ m = .alternative)
    (orc : Nat → Oracles) (lasso : Nat → List Nat) (αf αb : Rat) (L n u v τ : Nat)
    (hu : u < n) (hv : v < n) (h1 : 1 ≤ τ) (h2 : τ ≤ L)
    (hfav : Favourable (orc v) αf αb (n * L) (colId L u τ)) :
    ∃ e ∈ (discoverWith m orc lasso αf αb L n).edges, e.src = u ∧ e.dst = v ∧ e.lag = τ := by
  apply discover_edge_of_selected m orc lasso αf αb L n u v τ hv h1 h2
  intro d
  rcases hm with rfl | rfl
  · exact (planted_recovered (orc v) αf αb L n u v τ hu h1 h2 hfav _ d 0).1.1
  · exact (planted_recovered (orc v) αf αb L n u v τ hu h1 h2 hfav [] d 0).2.1

/-- LASSO methods: selected ⇒ edge with that label -/
theorem lasso_selected_edge (m : Method) (hm : m = .lasso ∨ m = .informationLasso)
    (orc : Nat → Oracles) (lasso : Nat → List Nat) (αf αb : Rat) (L n u v τ : Nat)
    (hv : v < n) (h1 : 1 ≤ τ) (h2 : τ ≤ L) (hsel : colId L u τ ∈ lasso v) :
    ∃ e ∈ (discoverWith m orc lasso αf αb L n).edges, e.src = u ∧ e.dst = v ∧ e.lag = τ := by
  apply discover_edge_of_selected m orc lasso αf αb L n u v τ hv h1 h2
  intro d
  rcases hm with rfl | rfl <;> exact hsel

/-! ## non-vacuity -/

/-- 2 variables, 2 lags, planted column `colId 2 0 2 = 1` (variable 0 at lag 2) into target 1:
its information is 5 whatever the conditioning, every other column has information ≤ 3;
its tests always pass, all other forward tests pass too and all other backward tests fail -/
def C05.plantedO : Oracles where
  f c Z := if c = 1 then .fin 5 else .fin ((c + Z.length) % 4 : Nat)
  test _ α c _ _ := (c = 1 || α = 1/20, 1/8)
  order _ S := S
  cost := 3

example : Favourable C05.plantedO (1/20) (1/10) (2 * 2) (colId 2 0 2) := by
  refine ⟨?_, ?_, ?_⟩
  · intro Z c' _ hc'
    have : c' ≠ 1 := hc'
    simp only [C05.plantedO, colId, this, ↓reduceIte, leTop, Val.isNan, Val.le]
    have : ((((c' + Z.length) % 4 : Nat)) : Rat) < 5 := by
      have : (c' + Z.length) % 4 < 5 := by omega
      exact_mod_cast this
    simpa [Rat.not_le] using this
  · intro k Z; simp [C05.plantedO, colId]
  · intro k Z; simp [C05.plantedO, colId]

example : (ocseStd C05.plantedO (1/20) (1/10) 4 [2, 3] 0).S = [1] ∧
    (fwdStdRun C05.plantedO (1/20) 4 [2, 3] 0).S = [1, 0, 3, 2] ∧
    (edgeLoop C05.plantedO (1/10) 2 1 (ocseStd C05.plantedO (1/20) (1/10) 4 [2, 3] 0).S 0).1.map
      (fun e => (e.src, e.dst, e.lag)) = [(0, 1, 2)] := by decide +kernel

end CE.Disc
