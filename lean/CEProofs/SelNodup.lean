import CEModel.Discovery
import Mathlib.Data.List.Nodup

/-! # Selected sets of the two oCSE methods are duplicate-free and in range

Small local facts needed by C01 / C06 / C07 (the refinement of the oCSE rule itself is C02 and is
not repeated here): for **every** oracle record `o` (information values, verdicts, visiting
orders, draw cost) the set returned by `ocseStd o αf αb N zinit c` and `ocseAlt o αf αb N c` is a
duplicate-free list of candidate ids `< N`.  Everything lives in the namespace
`CE.Disc.SelNodup` so that no name clashes with the C02 development. -/
namespace CE.Disc.SelNodup
open CE.Disc

/-- `S` is duplicate-free and all its members are `< N` -/
def Good (N : Nat) (S : List Nat) : Prop := S.Nodup ∧ ∀ x ∈ S, x < N

theorem good_nil (N : Nat) : Good N [] := ⟨List.nodup_nil, by simp⟩

theorem argmaxIdx_lt {V : Type} (le : V → V → Bool) :
    ∀ (l : List V), l ≠ [] → argmaxIdx le l < l.length
  | [], h => absurd rfl h
  | [_], _ => by simp [argmaxIdx]
  | v :: w :: vs, _ => by
      have ih := argmaxIdx_lt le (w :: vs) (by simp)
      simp only [argmaxIdx]
      split
      · simp
      · simp only [List.length_cons] at ih ⊢; omega

/-- `standard_forward`: accepted candidates come from `cands`, each at most once -/
theorem fwdStd_good (o : Oracles) (α : Rat) (N : Nat) :
    ∀ (fuel : Nat) (cands Z : List Nat) (st : St),
      cands.Nodup → (∀ x ∈ cands, x < N) → Good N st.S → (∀ x ∈ cands, x ∉ st.S) →
      Good N (fwdStd o α fuel cands Z st).S
  | 0, _, _, st, _, _, hS, _ => by simpa [fwdStd] using hS
  | fuel+1, cands, Z, st, hnd, hlt, hS, hdis => by
      unfold fwdStd
      by_cases hc : cands.isEmpty
      · simpa [hc] using hS
      · have hne : cands ≠ [] := by simpa using hc
        simp only [hc, Bool.false_eq_true, ↓reduceIte]
        set k := argmaxIdx leTop (cands.map (fun j => o.f j Z)) with hk
        have hklt : k < cands.length := by
          have := argmaxIdx_lt leTop (cands.map (fun j => o.f j Z)) (by simpa using hne)
          simpa using this
        have hj : cands.getD k 0 = cands[k] := by simp [List.getD, hklt]
        have hjmem : cands[k] ∈ cands := List.getElem_mem hklt
        have hnd' : (cands.eraseIdx k).Nodup := hnd.sublist (List.eraseIdx_sublist ..)
        have hsub : ∀ x ∈ cands.eraseIdx k, x ∈ cands := fun x hx =>
          (List.eraseIdx_sublist cands k).subset hx
        have hlt' : ∀ x ∈ cands.eraseIdx k, x < N := fun x hx => hlt x (hsub x hx)
        have hnotin : cands[k] ∉ cands.eraseIdx k := by
          intro hmem
          obtain ⟨i, hi, hik, heq⟩ := List.mem_eraseIdx_iff_getElem.1 hmem
          exact hik ((hnd.getElem_inj_iff).1 heq)
        split
        · apply fwdStd_good o α N fuel _ _ _ hnd' hlt'
          · refine ⟨?_, ?_⟩
            · simp only [hj]
              exact List.Nodup.append hS.1 (List.nodup_singleton _)
                (by simpa using hdis _ hjmem)
            · intro x hx
              simp only [hj, List.mem_append, List.mem_singleton] at hx
              rcases hx with hx | rfl
              · exact hS.2 x hx
              · exact hlt _ hjmem
          · intro x hx
            simp only [hj, List.mem_append, List.mem_singleton, not_or]
            exact ⟨hdis x (hsub x hx), fun h => hnotin (h ▸ hx)⟩
        · exact fwdStd_good o α N fuel _ _ _ hnd' hlt' hS (fun x hx => hdis x (hsub x hx))

/-- `alternative_forward`: every accepted candidate is in `range N` and not yet in `S` -/
theorem fwdAlt_good (o : Oracles) (α : Rat) (N : Nat) :
    ∀ (fuel : Nat) (st : St), Good N st.S → Good N (fwdAlt o α N fuel st).S
  | 0, st, hS => by simpa [fwdAlt] using hS
  | fuel+1, st, hS => by
      unfold fwdAlt
      set remaining := (List.range N).filter (fun j => !st.S.contains j) with hrem
      by_cases hc : remaining.isEmpty
      · simpa [hc] using hS
      · have hne : remaining ≠ [] := by simpa using hc
        simp only [hc, Bool.false_eq_true, ↓reduceIte]
        set k := argmaxIdx leTop (remaining.map (fun j => o.f j st.S)) with hk
        have hklt : k < remaining.length := by
          have := argmaxIdx_lt leTop (remaining.map (fun j => o.f j st.S)) (by simpa using hne)
          simpa using this
        have hj : remaining.getD k 0 = remaining[k] := by simp [List.getD, hklt]
        have hjmem : remaining[k] ∈ remaining := List.getElem_mem hklt
        have hj2 : remaining[k] < N ∧ remaining[k] ∉ st.S := by
          have : ∀ x ∈ remaining, x < N ∧ x ∉ st.S := by
            intro x hx
            rw [hrem, List.mem_filter] at hx
            simpa using hx
          exact this _ hjmem
        split
        · apply fwdAlt_good o α N fuel
          refine ⟨?_, ?_⟩
          · simp only [hj]
            exact List.Nodup.append hS.1 (List.nodup_singleton _) (by simpa using hj2.2)
          · intro x hx
            simp only [hj, List.mem_append, List.mem_singleton] at hx
            rcases hx with hx | rfl
            · exact hS.2 x hx
            · exact hj2.1
        · exact hS

/-- one backward visit keeps or erases: the set stays duplicate-free and in range -/
theorem bwdStep_good (o : Oracles) (α : Rat) (N : Nat) (st : St) (j : Nat) (hS : Good N st.S) :
    Good N (bwdStep o α st j).S := by
  have herase : Good N (st.S.erase j) :=
    ⟨hS.1.erase j, fun x hx => hS.2 x (List.mem_of_mem_erase hx)⟩
  unfold bwdStep
  dsimp only
  split <;> split <;> assumption

theorem foldl_bwdStep_good (o : Oracles) (α : Rat) (N : Nat) :
    ∀ (visit : List Nat) (st : St), Good N st.S → Good N (visit.foldl (bwdStep o α) st).S
  | [], _, hS => hS
  | j :: visit, st, hS => by
      simpa using foldl_bwdStep_good o α N visit _ (bwdStep_good o α N st j hS)

/-- `backward` for every visiting order (even one that is not a permutation of `S`) -/
theorem backward_good (o : Oracles) (α : Rat) (N : Nat) (st : St) (hS : Good N st.S) :
    Good N (backward o α st).S := by
  unfold backward
  exact foldl_bwdStep_good o α N _ _ hS

/-- forward phase of the standard method, started on the empty set -/
theorem fwdStd_init_good (o : Oracles) (α : Rat) (N : Nat) (zinit : List Nat) (c : Nat) :
    Good N (fwdStd o α N (List.range N) zinit { S := [], c := c, evs := [] }).S :=
  fwdStd_good o α N N (List.range N) zinit _ List.nodup_range
    (fun x hx => List.mem_range.1 hx) (good_nil N) (by simp)

theorem ocseStd_good (o : Oracles) (αf αb : Rat) (N : Nat) (zinit : List Nat) (c : Nat) :
    Good N (ocseStd o αf αb N zinit c).S :=
  backward_good o αb N _ (fwdStd_init_good o αf N zinit c)

theorem ocseAlt_good (o : Oracles) (αf αb : Rat) (N : Nat) (c : Nat) :
    Good N (ocseAlt o αf αb N c).S :=
  backward_good o αb N _ (fwdAlt_good o αf N N _ (good_nil N))

end CE.Disc.SelNodup
