import CEProofs.C11Lemmas
import Mathlib.Data.Rat.Cast.Order

/-! # C11 (kNN part) — the kNN estimators compute their documented formulas

Model: `CE.Knn` (`CEModel/Knn.lean`), mirroring `knn_mutual_information`
(`core/information/mutual_information.py`) and `knn_conditional_mutual_information`
(`core/information/conditional_mutual_information.py`).

* `psi_free_mi`, `psi_free_cmi` — for any `ψ` obeying the digamma recurrence on the positive
  integers the code-shaped value with `ψ` equals the `γ`-free rational form with harmonic numbers.
* `code_eq_spec_mi`, `code_eq_spec_cmi` — for tie-free samples the code-shaped computation
  ("sort the whole distance row, self-distance included, take index `k`; count `<` over all samples
  and subtract one") equals the declarative reading ("distance to the `k`-th nearest OTHER sample;
  number of OTHER samples strictly inside").
  `code_eq_spec_mi_signed`, `code_eq_spec_cmi_signed`, `signed_counts_mi`, `signed_counts_cmi` say
  the same for the real code's *signed* counts `np.sum(D < eps) − 1 ∈ ℤ` (the model subtracts in
  `ℕ`): under `TieFree` no count is `−1`, so the model's truncation is never active; without
  `TieFree` it is (`dup_radius_zero`, `countInZ_zero`) — the hypothesis is forced.
* `key_nonneg`, `key_self`, `key_symm`, `key_eq_zero` (in `C11Lemmas`), `key_formulas`,
  `key_euclid_order`, `tieFree_iff_nodup`.
-/
namespace CE.Knn

/-! ### keys -/

/-- **key_euclid_order.** Comparing squared Euclidean distances is comparing distances: in any
ordered field `K` (e.g. `ℝ`), if `d₁, d₂ ≥ 0` are the true distances, `dᵢ² = keyᵢ` (the rational
keys of the model), then `d₁ < d₂ ↔ key₁ < key₂` and `d₁ ≤ d₂ ↔ key₁ ≤ key₂`. Hence sorting keys /
counting `key < key_eps` is sorting distances / counting `dist < eps`. -/
theorem key_euclid_order {K : Type} [Field K] [LinearOrder K] [IsStrictOrderedRing K]
    (d₁ d₂ : K) (k₁ k₂ : ℚ) (h₁ : 0 ≤ d₁) (h₂ : 0 ≤ d₂) (e₁ : d₁ * d₁ = (k₁ : K))
    (e₂ : d₂ * d₂ = (k₂ : K)) : (d₁ < d₂ ↔ k₁ < k₂) ∧ (d₁ ≤ d₂ ↔ k₁ ≤ k₂) := by
  constructor
  · rw [mul_self_lt_mul_self_iff h₁ h₂, e₁, e₂, Rat.cast_lt]
  · rw [mul_self_le_mul_self_iff h₁ h₂, e₁, e₂, Rat.cast_le]

/-- the same inside `ℚ`: for non-negative `a, b`, `a ≤ b ↔ a² ≤ b²` and `a < b ↔ a² < b²` -/
theorem sq_order (a b : ℚ) (ha : 0 ≤ a) (hb : 0 ≤ b) :
    (a < b ↔ a * a < b * b) ∧ (a ≤ b ↔ a * a ≤ b * b) :=
  ⟨mul_self_lt_mul_self_iff ha hb, mul_self_le_mul_self_iff ha hb⟩

/-- the Euclidean key is the sum of squared coordinate differences, the cityblock key the sum of
absolute differences, the Chebyshev key their maximum (with `0` for empty rows) -/
theorem key_formulas (a b : Pt) :
    key .euclidean a b = (List.zipWith (fun x y => (x - y) * (x - y)) a b).sum
    ∧ key .cityblock a b = (List.zipWith (fun x y => |x - y|) a b).sum
    ∧ key .chebyshev a b = (List.zipWith (fun x y => |x - y|) a b).foldr max 0 :=
  ⟨key_eq .euclidean a b, key_eq .cityblock a b, key_eq .chebyshev a b⟩

/-! ### Euler's constant cancels -/

/-- the digamma recurrence at the positive integers: `ψ(n+1) = ψ(n) + 1/n` for `n ≥ 1` -/
def DigammaRec (ψ : ℕ → ℚ) : Prop := ∀ n : ℕ, 1 ≤ n → ψ (n + 1) = ψ n + 1 / (n : ℚ)

theorem psi_succ_eq_harm {ψ : ℕ → ℚ} (hψ : DigammaRec ψ) (n : ℕ) : ψ (n + 1) = ψ 1 + harm n := by
  induction n with
  | zero => simp [harm]
  | succ n ih =>
    rw [hψ (n + 1) (Nat.succ_le_succ (Nat.zero_le n)), ih, harm]
    push_cast; ring

theorem psi_eq_harm_pred {ψ : ℕ → ℚ} (hψ : DigammaRec ψ) (n : ℕ) (hn : 1 ≤ n) :
    ψ n = ψ 1 + harm (n - 1) := by
  obtain ⟨j, rfl⟩ : ∃ j, n = j + 1 := ⟨n - 1, by omega⟩
  rw [psi_succ_eq_harm hψ]; rfl

theorem mean_const_add {τ : Type} (l : List τ) (hl : l ≠ []) (c : ℚ) (f : τ → ℚ) :
    mean (l.map (fun t => c + f t)) = c + mean (l.map f) := by
  unfold mean
  rw [sumR_eq_sum, sumR_eq_sum, List.length_map, List.length_map]
  have hsum : (l.map (fun t => c + f t)).sum = (l.length : ℚ) * c + (l.map f).sum := by
    induction l with
    | nil => exact absurd rfl hl
    | cons a l ih =>
      cases l with
      | nil => simp
      | cons b l =>
        have := ih (by simp)
        rw [List.map_cons, List.sum_cons, this]
        simp only [List.map_cons, List.sum_cons, List.length_cons]
        push_cast; ring
  have hlen : (l.length : ℚ) ≠ 0 := by
    have : 0 < l.length := List.length_pos_iff.mpr hl
    exact_mod_cast this.ne'
  rw [hsum]; field_simp

/-- the recurrence is satisfiable: any constant plus the harmonic numbers (the digamma function at
the positive integers has this form with constant `−γ`) -/
example : DigammaRec (fun n => -7 / 13 + harm (n - 1)) := by
  intro n hn
  obtain ⟨j, rfl⟩ : ∃ j, n = j + 1 := ⟨n - 1, by omega⟩
  simp only [Nat.add_sub_cancel]
  rw [harm]; push_cast; ring

/-- **psi_free (MI).** For any `ψ` with `ψ(n+1) = ψ(n) + 1/n` (`n ≥ 1`), `k ≥ 1` and non-empty
`X`, `Y`, the value the code computes with `ψ` is the rational number `knnMI` built from harmonic
numbers: the additive constant `ψ 1 = −γ` cancels. (Only non-emptiness of `X` and `Y` is needed;
the real code additionally requires `X.length = Y.length`.) -/
theorem psi_free_mi (ψ : ℕ → ℚ) (hψ : DigammaRec ψ) (m : Metric) (k : ℕ) (X Y : Sample)
    (hk : 1 ≤ k) (hX : 1 ≤ X.length) (hY : 1 ≤ Y.length) :
    knnMIψ ψ m k X Y = knnMI m k X Y := by
  unfold knnMIψ knnMI
  dsimp only
  obtain ⟨c, hc⟩ : ∃ c, ψ 1 = c := ⟨_, rfl⟩
  have h1 : ∀ n, ψ (n + 1) = c + harm n := fun n => hc ▸ psi_succ_eq_harm hψ n
  rw [psi_eq_harm_pred hψ k hk, psi_eq_harm_pred hψ X.length hX, hc]
  simp only [h1]
  have hne : List.zipWith (fun (x : Pt) (y : Pt) => (x, y)) X Y ≠ [] := by
    intro h
    have := congrArg List.length h
    simp only [List.length_zipWith, List.length_nil] at this; omega
  have := mean_const_add _ hne (c + c) (fun xy : Pt × Pt =>
    harm (countIn m X xy.1 (radius m k (hcat X Y) (xy.1 ++ xy.2)))
      + harm (countIn m Y xy.2 (radius m k (hcat X Y) (xy.1 ++ xy.2))))
  have e : ∀ a b : ℚ, c + a + (c + b) = c + c + (a + b) := fun a b => by ring
  simp only [e]
  rw [this]; ring

/-- **psi_free (CMI).** Same for the conditional estimator: `ψ 1` cancels inside each term. -/
theorem psi_free_cmi (ψ : ℕ → ℚ) (hψ : DigammaRec ψ) (m : Metric) (k : ℕ) (X Y Z : Sample)
    (hk : 1 ≤ k) (hX : 1 ≤ X.length) (hY : 1 ≤ Y.length) (hZ : 1 ≤ Z.length) :
    knnCMIψ ψ m k X Y Z = knnCMI m k X Y Z := by
  unfold knnCMIψ knnCMI
  dsimp only
  obtain ⟨c, hc⟩ : ∃ c, ψ 1 = c := ⟨_, rfl⟩
  have h1 : ∀ n, ψ (n + 1) = c + harm n := fun n => hc ▸ psi_succ_eq_harm hψ n
  rw [psi_eq_harm_pred hψ k hk, hc]
  simp only [h1]
  have hne : zip3 X Y Z ≠ [] := by
    intro h
    have := congrArg List.length h
    simp only [zip3, List.length_zipWith, List.length_nil] at this; omega
  have := mean_const_add _ hne c (fun t : Pt × Pt × Pt =>
    harm (countIn m (hcat X Z) (t.1 ++ t.2.2) (radius m k (hcat (hcat X Y) Z) (t.1 ++ t.2.1 ++ t.2.2)))
      + harm (countIn m (hcat Y Z) (t.2.1 ++ t.2.2) (radius m k (hcat (hcat X Y) Z) (t.1 ++ t.2.1 ++ t.2.2)))
      - harm (countIn m Z t.2.2 (radius m k (hcat (hcat X Y) Z) (t.1 ++ t.2.1 ++ t.2.2))))
  have e : ∀ a b d : ℚ, c + a + (c + b) - (c + d) = c + (a + b - d) := fun a b d => by ring
  simp only [e]
  rw [this]; ring

/-! ### code-shaped computation = declarative specification -/

/-- no two samples coincide in the joint space (as measured by the key, which for rows of equal
width vanishes exactly on equal rows: `tieFree_iff_nodup`) -/
def TieFree (m : Metric) (JS : Sample) : Prop :=
  ∀ (i j : ℕ) (hi : i < JS.length) (hj : j < JS.length), i ≠ j → 0 < key m JS[i] JS[j]

/-- what the real code computes for a count: `np.sum(D < eps) - 1` as a signed integer -/
def countInZ (m : Metric) (S : Sample) (x : Pt) (eps : ℚ) : ℤ :=
  ((keyRow m S x).countP (fun d => decide (d < eps)) : ℤ) - 1

/-- the full key row of sample `i` is the self key `0` together with the keys to the others -/
theorem keyRow_perm (m : Metric) (S : Sample) (i : ℕ) (hi : i < S.length) :
    (keyRow m S (S.getD i [])).Perm (0 :: othersKeys m S i) := by
  unfold keyRow othersKeys
  have h := ((List.getElem_cons_eraseIdx_perm hi).symm.map (key m (S.getD i [])))
  rw [List.map_cons] at h
  have hs : key m (S.getD i []) S[i] = 0 := by
    rw [List.getD_eq_getElem _ _ hi]; exact key_self m _
  rwa [hs] at h

theorem othersKeys_nonneg (m : Metric) (S : Sample) (i : ℕ) : ∀ d ∈ othersKeys m S i, 0 ≤ d := by
  intro d hd
  obtain ⟨y, -, rfl⟩ := List.mem_map.mp hd
  exact key_nonneg m _ _

theorem othersKeys_pos (m : Metric) (JS : Sample) (htf : TieFree m JS) (i : ℕ) (hi : i < JS.length) :
    ∀ d ∈ othersKeys m JS i, 0 < d := by
  intro d hd
  obtain ⟨y, hy, rfl⟩ := List.mem_map.mp hd
  obtain ⟨j, hj, hne, rfl⟩ := List.mem_eraseIdx_iff_getElem.mp hy
  rw [List.getD_eq_getElem _ _ hi]
  exact htf i j hi hj (Ne.symm hne)

theorem length_othersKeys (m : Metric) (S : Sample) (i : ℕ) (hi : i < S.length) :
    (othersKeys m S i).length = S.length - 1 := by
  unfold othersKeys; rw [List.length_map, List.length_eraseIdx_of_lt hi]

/-- **k-th vs (k−1)-th.** Index `k` of the sorted full row (self-distance included) is index `k−1`
of the sorted keys to the other samples. -/
theorem radius_eq_spec (m : Metric) (k : ℕ) (JS : Sample) (i : ℕ) (hi : i < JS.length)
    (hk : 1 ≤ k) : radius m k JS (JS.getD i []) = radiusSpec m k JS i := by
  unfold radius radiusSpec
  obtain ⟨j, rfl⟩ : ∃ j, k = j + 1 := ⟨k - 1, by omega⟩
  rw [kth_with_self_nonneg _ _ (keyRow_perm m JS i hi) (othersKeys_nonneg m JS i)]
  rfl

theorem radiusSpec_nonneg (m : Metric) (k : ℕ) (JS : Sample) (i : ℕ) :
    0 ≤ radiusSpec m k JS i := by
  unfold radiusSpec
  rw [List.getD_eq_getElem?_getD]
  cases h : (sortRat (othersKeys m JS i))[k - 1]? with
  | none => simp
  | some d =>
    have : d ∈ sortRat (othersKeys m JS i) := List.mem_of_getElem? h
    exact othersKeys_nonneg m JS i d ((sortRat_perm _).subset this)

/-- every radius is positive for tie-free samples and `1 ≤ k < N` -/
theorem radiusSpec_pos (m : Metric) (k : ℕ) (JS : Sample) (htf : TieFree m JS) (i : ℕ)
    (hi : i < JS.length) (hk : 1 ≤ k) (hkN : k < JS.length) : 0 < radiusSpec m k JS i := by
  unfold radiusSpec
  have hlen : k - 1 < (sortRat (othersKeys m JS i)).length := by
    rw [(sortRat_perm _).length_eq, length_othersKeys m JS i hi]; omega
  rw [List.getD_eq_getElem _ _ hlen]
  exact othersKeys_pos m JS htf i hi _ ((sortRat_perm _).subset (List.getElem_mem hlen))

/-- **the `− 1` for the sample itself; `<` not `≤`.** For a positive radius, "count `<` over all
samples, minus one" is the number of OTHER samples strictly inside. -/
theorem countIn_eq_spec (m : Metric) (S : Sample) (i : ℕ) (hi : i < S.length) (eps : ℚ)
    (heps : 0 < eps) : countIn m S (S.getD i []) eps = countSpec m S i eps := by
  unfold countIn countSpec
  exact count_with_self _ _ (keyRow_perm m S i hi) eps heps

/-- for a positive radius the signed count of the real code is non-negative and is the model's
(truncated) count: the truncation in `countIn` is never active -/
theorem countInZ_eq_spec (m : Metric) (S : Sample) (i : ℕ) (hi : i < S.length) (eps : ℚ)
    (heps : 0 < eps) : countInZ m S (S.getD i []) eps = (countSpec m S i eps : ℤ) := by
  unfold countInZ countSpec
  rw [(keyRow_perm m S i hi).countP_eq]
  simp [heps]

/-- with radius `0` (a duplicated joint point) the model's truncated count is `0`, and so is the
declarative count — whereas the real code's signed count is `−1` (`countInZ_zero`) -/
theorem countIn_zero (m : Metric) (S : Sample) (i : ℕ) :
    countIn m S (S.getD i []) 0 = countSpec m S i 0 := by
  unfold countIn countSpec
  have h0 : ∀ l : List ℚ, (∀ d ∈ l, 0 ≤ d) → l.countP (fun d => decide (d < 0)) = 0 := by
    intro l hl
    rw [List.countP_eq_zero]
    intro d hd; simpa using hl d hd
  rw [h0 _ (othersKeys_nonneg m S i), h0]
  intro d hd
  obtain ⟨y, -, rfl⟩ := List.mem_map.mp hd
  exact key_nonneg m _ _

theorem countIn_at_zero (m : Metric) (S : Sample) (x : Pt) : countIn m S x 0 = 0 := by
  unfold countIn keyRow
  have : (S.map (key m x)).countP (fun d => decide (d < 0)) = 0 := by
    rw [List.countP_eq_zero]
    intro d hd
    obtain ⟨y, -, rfl⟩ := List.mem_map.mp hd
    simpa using key_nonneg m x y
  rw [this]

theorem countInZ_zero (m : Metric) (S : Sample) (x : Pt) : countInZ m S x 0 = -1 := by
  unfold countInZ keyRow
  have : (S.map (key m x)).countP (fun d => decide (d < 0)) = 0 := by
    rw [List.countP_eq_zero]
    intro d hd
    obtain ⟨y, -, rfl⟩ := List.mem_map.mp hd
    simpa using key_nonneg m x y
  rw [this]; simp

theorem countIn_eq_spec_of_nonneg (m : Metric) (S : Sample) (i : ℕ) (hi : i < S.length) (eps : ℚ)
    (heps : 0 ≤ eps) : countIn m S (S.getD i []) eps = countSpec m S i eps := by
  rcases heps.lt_or_eq with h | h
  · exact countIn_eq_spec m S i hi eps h
  · rw [← h]; exact countIn_zero m S i

/-- In the model the identity `code = spec` holds even with ties, but only thanks to the truncated
subtraction in `countIn` (a duplicated point gives radius `0`, model count `0 − 1 = 0` in `ℕ`, real
code `−1` and `ψ(0) = −∞`); see `code_eq_spec_mi` and `signed_counts_mi` for the faithful statement. -/
theorem code_eq_spec_mi_trunc (m : Metric) (k : ℕ) (X Y : Sample) (hlen : X.length = Y.length)
    (hk : 1 ≤ k) : knnMI m k X Y = knnMISpec m k X Y := by
  unfold knnMI knnMISpec
  dsimp only
  rw [zipWith_pair_eq X Y hlen, List.map_map]
  congr 2
  apply List.map_congr_left
  intro i hi
  have hx : i < X.length := List.mem_range.mp hi
  have hy : i < Y.length := hlen ▸ hx
  have hj : i < (hcat X Y).length := by rw [length_hcat]; omega
  simp only [Function.comp]
  rw [← hcat_getD X Y i hx hy, radius_eq_spec m k _ i hj hk,
    countIn_eq_spec_of_nonneg m X i hx _ (radiusSpec_nonneg ..),
    countIn_eq_spec_of_nonneg m Y i hy _ (radiusSpec_nonneg ..)]

/-- **knn_code_eq_spec (MI).** For tie-free samples and `1 ≤ k < N` the code-shaped `knnMI` (sort
the whole row of the joint distance matrix, self-distance `0` included, take index `k`; count `<`
over all samples in each marginal and subtract one) equals the declarative `knnMISpec` (radius =
key of the `k`-th nearest OTHER sample; counts of OTHER samples strictly inside).

Remark: for the *model* the two hypotheses `TieFree` and `k < N` are not used (see
`code_eq_spec_mi_trunc`: `ℕ`-subtraction hides the `−1`); they are the guards under which the model's
count is the real code's count — `signed_counts_mi`, `code_eq_spec_mi_signed` use them essentially. -/
theorem code_eq_spec_mi (m : Metric) (k : ℕ) (X Y : Sample) (hlen : X.length = Y.length)
    (_htf : TieFree m (hcat X Y)) (hk : 1 ≤ k) (_hkN : k < X.length) :
    knnMI m k X Y = knnMISpec m k X Y :=
  code_eq_spec_mi_trunc m k X Y hlen hk

/-- **Faithfulness of the counts (MI).** Under `TieFree` and `1 ≤ k < N`, for every sample the
radius used by the code is positive, and the *signed* counts of the real code (`np.sum(D < eps) − 1`)
are the declarative counts — in particular non-negative, so `digamma(n + 1)` is evaluated at a
positive integer and the truncated subtraction of the model never truncates. -/
theorem signed_counts_mi (m : Metric) (k : ℕ) (X Y : Sample) (hlen : X.length = Y.length)
    (htf : TieFree m (hcat X Y)) (hk : 1 ≤ k) (hkN : k < X.length) (i : ℕ) (hi : i < X.length) :
    let eps := radius m k (hcat X Y) (X.getD i [] ++ Y.getD i [])
    0 < eps ∧ eps = radiusSpec m k (hcat X Y) i
      ∧ countInZ m X (X.getD i []) eps = (countSpec m X i eps : ℤ)
      ∧ countInZ m Y (Y.getD i []) eps = (countSpec m Y i eps : ℤ) := by
  have hy : i < Y.length := hlen ▸ hi
  have hN : (hcat X Y).length = X.length := by rw [length_hcat]; omega
  have hj : i < (hcat X Y).length := by omega
  intro eps
  have he : eps = radiusSpec m k (hcat X Y) i := by
    show radius m k (hcat X Y) (X.getD i [] ++ Y.getD i []) = _
    rw [← hcat_getD X Y i hi hy, radius_eq_spec m k _ i hj hk]
  have hpos : 0 < eps := he ▸ radiusSpec_pos m k _ htf i hj hk (by omega)
  exact ⟨hpos, he, countInZ_eq_spec m X i hi eps hpos, countInZ_eq_spec m Y i hy eps hpos⟩

theorem code_eq_spec_cmi_trunc (m : Metric) (k : ℕ) (X Y Z : Sample) (hxy : X.length = Y.length)
    (hyz : Y.length = Z.length) (hk : 1 ≤ k) : knnCMI m k X Y Z = knnCMISpec m k X Y Z := by
  unfold knnCMI knnCMISpec
  dsimp only
  rw [zip3_eq X Y Z hxy hyz, List.map_map]
  congr 2
  apply List.map_congr_left
  intro i hi
  have hx : i < X.length := List.mem_range.mp hi
  have hy : i < Y.length := hxy ▸ hx
  have hz : i < Z.length := hyz ▸ hy
  have hxy' : i < (hcat X Y).length := by rw [length_hcat]; omega
  have hj : i < (hcat (hcat X Y) Z).length := by rw [length_hcat]; omega
  have hxz : i < (hcat X Z).length := by rw [length_hcat]; omega
  have hyz' : i < (hcat Y Z).length := by rw [length_hcat]; omega
  simp only [Function.comp]
  rw [← hcat_getD X Y i hx hy, ← hcat_getD _ Z i hxy' hz, ← hcat_getD X Z i hx hz,
    ← hcat_getD Y Z i hy hz, radius_eq_spec m k _ i hj hk,
    countIn_eq_spec_of_nonneg m _ i hxz _ (radiusSpec_nonneg ..),
    countIn_eq_spec_of_nonneg m _ i hyz' _ (radiusSpec_nonneg ..),
    countIn_eq_spec_of_nonneg m Z i hz _ (radiusSpec_nonneg ..)]

/-- **knn_code_eq_spec (CMI).** For tie-free samples and `1 ≤ k < N` the code-shaped `knnCMI`
equals the declarative `knnCMISpec`. (Same remark as for `code_eq_spec_mi`: `TieFree` and `k < N`
are used essentially in `signed_counts_cmi` / `code_eq_spec_cmi_signed`.) -/
theorem code_eq_spec_cmi (m : Metric) (k : ℕ) (X Y Z : Sample) (hxy : X.length = Y.length)
    (hyz : Y.length = Z.length) (_htf : TieFree m (hcat (hcat X Y) Z)) (hk : 1 ≤ k)
    (_hkN : k < X.length) : knnCMI m k X Y Z = knnCMISpec m k X Y Z :=
  code_eq_spec_cmi_trunc m k X Y Z hxy hyz hk

/-- **Faithfulness of the counts (CMI).** -/
theorem signed_counts_cmi (m : Metric) (k : ℕ) (X Y Z : Sample) (hxy : X.length = Y.length)
    (hyz : Y.length = Z.length) (htf : TieFree m (hcat (hcat X Y) Z)) (hk : 1 ≤ k)
    (hkN : k < X.length) (i : ℕ) (hi : i < X.length) :
    let eps := radius m k (hcat (hcat X Y) Z) (X.getD i [] ++ Y.getD i [] ++ Z.getD i [])
    0 < eps ∧ eps = radiusSpec m k (hcat (hcat X Y) Z) i
      ∧ countInZ m (hcat X Z) (X.getD i [] ++ Z.getD i []) eps = (countSpec m (hcat X Z) i eps : ℤ)
      ∧ countInZ m (hcat Y Z) (Y.getD i [] ++ Z.getD i []) eps = (countSpec m (hcat Y Z) i eps : ℤ)
      ∧ countInZ m Z (Z.getD i []) eps = (countSpec m Z i eps : ℤ) := by
  have hy : i < Y.length := hxy ▸ hi
  have hz : i < Z.length := hyz ▸ hy
  have hxy' : i < (hcat X Y).length := by rw [length_hcat]; omega
  have hN : (hcat (hcat X Y) Z).length = X.length := by rw [length_hcat, length_hcat]; omega
  have hj : i < (hcat (hcat X Y) Z).length := by omega
  have hxz : i < (hcat X Z).length := by rw [length_hcat]; omega
  have hyz' : i < (hcat Y Z).length := by rw [length_hcat]; omega
  intro eps
  have he : eps = radiusSpec m k (hcat (hcat X Y) Z) i := by
    show radius m k (hcat (hcat X Y) Z) (X.getD i [] ++ Y.getD i [] ++ Z.getD i []) = _
    rw [← hcat_getD X Y i hi hy, ← hcat_getD _ Z i hxy' hz, radius_eq_spec m k _ i hj hk]
  have hpos : 0 < eps := he ▸ radiusSpec_pos m k _ htf i hj hk (by omega)
  refine ⟨hpos, he, ?_, ?_, countInZ_eq_spec m Z i hz eps hpos⟩
  · rw [← hcat_getD X Z i hi hz]; exact countInZ_eq_spec m _ i hxz eps hpos
  · rw [← hcat_getD Y Z i hy hz]; exact countInZ_eq_spec m _ i hyz' eps hpos

/-- for a sample matrix (all rows of one width) `TieFree` says exactly that no two rows coincide -/
theorem tieFree_iff_nodup (m : Metric) (JS : Sample) (w : ℕ) (hw : ∀ r ∈ JS, r.length = w) :
    TieFree m JS ↔ JS.Nodup := by
  have hlen : ∀ (i j : ℕ) (hi : i < JS.length) (hj : j < JS.length), JS[i].length = JS[j].length :=
    fun i j hi hj => (hw _ (List.getElem_mem hi)).trans (hw _ (List.getElem_mem hj)).symm
  constructor
  · intro htf
    rw [List.nodup_iff_injective_getElem]
    rintro ⟨i, hi⟩ ⟨j, hj⟩ hij
    by_contra hne
    have hne' : i ≠ j := fun h => hne (Fin.ext h)
    have := htf i j hi hj hne'
    rw [(key_eq_zero m _ _ (hlen i j hi hj)).mpr hij] at this
    exact lt_irrefl _ this
  · intro hnd i j hi hj hne
    rcases (key_nonneg m JS[i] JS[j]).lt_or_eq with h | h
    · exact h
    · exact absurd (hnd.getElem_inj_iff.mp ((key_eq_zero m _ _ (hlen i j hi hj)).mp h.symm)) hne

/-- **Why `TieFree` is forced.** If sample `i` coincides with another sample `j` in the joint space
then for `k = 1` the code's radius is `0`; the real code's signed count is then `−1`
(`countInZ_zero`, giving `digamma(0) = −∞`), which the model's truncated subtraction turns into `0`
(`countIn_zero`). -/
theorem dup_radius_zero (m : Metric) (JS : Sample) (i j : ℕ) (hi : i < JS.length)
    (hj : j < JS.length) (hne : i ≠ j) (hdup : JS[i] = JS[j]) :
    radius m 1 JS (JS.getD i []) = 0 := by
  rw [radius_eq_spec m 1 JS i hi le_rfl]
  unfold radiusSpec
  have hmem : (0 : ℚ) ∈ sortRat (othersKeys m JS i) := by
    apply (sortRat_perm _).symm.subset
    unfold othersKeys
    refine List.mem_map.mpr ⟨JS[j], List.mem_eraseIdx_iff_getElem.mpr ⟨j, hj, hne.symm, rfl⟩, ?_⟩
    rw [List.getD_eq_getElem _ _ hi, hdup]; exact key_self m _
  have hnn : ∀ d ∈ sortRat (othersKeys m JS i), 0 ≤ d :=
    fun d hd => othersKeys_nonneg m JS i d ((sortRat_perm _).subset hd)
  have hs := sortRat_sorted (othersKeys m JS i)
  cases hl : sortRat (othersKeys m JS i) with
  | nil => rfl
  | cons a t =>
    rw [hl] at hmem hnn hs
    show a = 0
    have ha : 0 ≤ a := hnn a (List.mem_cons_self ..)
    rcases List.mem_cons.mp hmem with h | h
    · exact h.symm
    · exact le_antisymm ((List.pairwise_cons.mp hs).1 0 h) ha

/-! ### the same with the real code's signed counts

`knnMIZ h` / `knnCMIZ h` are the code-shaped computations with the *signed* count
`np.sum(D < eps) − 1 ∈ ℤ` and an arbitrary `h : ℤ → ℚ` that agrees with the harmonic numbers on
`ℕ` (its value at `−1` stands for `digamma(0) = −∞`). Under `TieFree` the result does not depend
on `h (−1)`; without `TieFree` a count `−1` occurs (`dup_radius_zero`, `countInZ_zero`). -/

def knnMIZ (h : ℤ → ℚ) (m : Metric) (k : ℕ) (X Y : Sample) : ℚ :=
  harm (k - 1) + harm (X.length - 1) - mean ((List.zipWith (fun (x : Pt) (y : Pt) => (x, y)) X Y).map
    (fun xy => h (countInZ m X xy.1 (radius m k (hcat X Y) (xy.1 ++ xy.2)))
      + h (countInZ m Y xy.2 (radius m k (hcat X Y) (xy.1 ++ xy.2)))))

def knnCMIZ (h : ℤ → ℚ) (m : Metric) (k : ℕ) (X Y Z : Sample) : ℚ :=
  harm (k - 1) - mean ((zip3 X Y Z).map (fun t =>
    h (countInZ m (hcat X Z) (t.1 ++ t.2.2) (radius m k (hcat (hcat X Y) Z) (t.1 ++ t.2.1 ++ t.2.2)))
    + h (countInZ m (hcat Y Z) (t.2.1 ++ t.2.2) (radius m k (hcat (hcat X Y) Z) (t.1 ++ t.2.1 ++ t.2.2)))
    - h (countInZ m Z t.2.2 (radius m k (hcat (hcat X Y) Z) (t.1 ++ t.2.1 ++ t.2.2)))))

/-- **knn_code_eq_spec (MI), signed counts.** Under `TieFree` and `1 ≤ k < N`, whatever value is
assigned to `digamma(0)`, the code with signed counts equals the declarative specification. -/
theorem code_eq_spec_mi_signed (h : ℤ → ℚ) (hh : ∀ n : ℕ, h n = harm n) (m : Metric) (k : ℕ)
    (X Y : Sample) (hlen : X.length = Y.length) (htf : TieFree m (hcat X Y)) (hk : 1 ≤ k)
    (hkN : k < X.length) : knnMIZ h m k X Y = knnMISpec m k X Y := by
  unfold knnMIZ knnMISpec
  dsimp only
  rw [zipWith_pair_eq X Y hlen, List.map_map]
  congr 2
  apply List.map_congr_left
  intro i hi
  obtain ⟨-, he, hcx, hcy⟩ := signed_counts_mi m k X Y hlen htf hk hkN i (List.mem_range.mp hi)
  simp only [Function.comp]
  rw [hcx, hcy, hh, hh, he]

/-- **knn_code_eq_spec (CMI), signed counts.** -/
theorem code_eq_spec_cmi_signed (h : ℤ → ℚ) (hh : ∀ n : ℕ, h n = harm n) (m : Metric) (k : ℕ)
    (X Y Z : Sample) (hxy : X.length = Y.length) (hyz : Y.length = Z.length)
    (htf : TieFree m (hcat (hcat X Y) Z)) (hk : 1 ≤ k) (hkN : k < X.length) :
    knnCMIZ h m k X Y Z = knnCMISpec m k X Y Z := by
  unfold knnCMIZ knnCMISpec
  dsimp only
  rw [zip3_eq X Y Z hxy hyz, List.map_map]
  congr 2
  apply List.map_congr_left
  intro i hi
  obtain ⟨-, he, hcx, hcy, hcz⟩ :=
    signed_counts_cmi m k X Y Z hxy hyz htf hk hkN i (List.mem_range.mp hi)
  simp only [Function.comp]
  rw [hcx, hcy, hcz, hh, hh, hh, he]

/-! ### the hypotheses are satisfiable; the tie-free hypothesis is forced -/

/-- a tie-free sample with `N = 3`, `k ∈ {1, 2}` (hypotheses of `code_eq_spec_mi`) -/
example : TieFree .euclidean (hcat [[0], [1], [3]] [[0], [2], [1]]) :=
  (tieFree_iff_nodup _ _ 2 (by decide)).mpr (by decide)

example : knnMI .chebyshev 2 [[0], [1], [3]] [[0], [2], [1]]
    = knnMISpec .chebyshev 2 [[0], [1], [3]] [[0], [2], [1]] :=
  code_eq_spec_mi _ 2 _ _ rfl ((tieFree_iff_nodup _ _ 2 (by decide)).mpr (by decide))
    (by decide) (by decide)

/-- hypotheses of `code_eq_spec_cmi`: `X`, `Y` have ties in the marginals (allowed), the joint
sample has none -/
example : TieFree .cityblock (hcat (hcat [[0], [0], [3]] [[1], [2], [1]]) [[5, 1], [5, 1], [4, 2]]) :=
  (tieFree_iff_nodup _ _ 4 (by decide)).mpr (by decide)

example : knnCMI .cityblock 1 [[0], [0], [3]] [[1], [2], [1]] [[5, 1], [5, 1], [4, 2]]
    = knnCMISpec .cityblock 1 [[0], [0], [3]] [[1], [2], [1]] [[5, 1], [5, 1], [4, 2]] :=
  code_eq_spec_cmi _ 1 _ _ _ rfl rfl ((tieFree_iff_nodup _ _ 4 (by decide)).mpr (by decide))
    (by decide) (by decide)

/-- an admissible `h` for the `_signed` theorems, with an arbitrary value standing for `digamma(0)` -/
example : ∀ n : ℕ, (fun z : ℤ => if z < 0 then -1000 else harm z.toNat) n = harm n := by
  intro n; simp

/-- **Negative remark.** With a duplicated joint point (`(0,0)` twice) the sample is not tie-free;
for `k = 1` the code's radius of sample `0` is `0`; the real code's count `np.sum(Dx < 0) − 1` is
`−1` (so `digamma(0) = −∞` enters the mean), while the model's `ℕ`-subtraction gives `0`. So the
model is faithful to the code only under `TieFree`, which is why `code_eq_spec_*` carry it. -/
example : ¬ TieFree .euclidean (hcat [[0], [0], [1]] [[0], [0], [2]]) := by
  rw [tieFree_iff_nodup _ _ 2 (by decide)]; decide

example : radius .euclidean 1 (hcat [[0], [0], [1]] [[0], [0], [2]]) [0, 0] = 0 :=
  dup_radius_zero .euclidean (hcat [[0], [0], [1]] [[0], [0], [2]]) 0 1 (by decide) (by decide)
    (by decide) (by decide)

example : countInZ .euclidean [[0], [0], [1]] [0] 0 = -1 := countInZ_zero _ _ _

example : countIn .euclidean [[0], [0], [1]] [0] 0 = 0 := countIn_at_zero _ _ _

end CE.Knn
