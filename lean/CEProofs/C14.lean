import CEProofs.C14Lemmas
import Mathlib.Data.List.Induction
import Mathlib.Data.List.Pairwise

/-! # C14 — PCMCI ↔ graph conversion preserves every link, its direction and its numbers

All statements are about `CE.Graph.toGraph` (model of `pcmci_to_networkx`, after the rank-2 lift
and the shape checks) and `CE.Graph.toPcmci` (model of `networkx_to_pcmci`) of
`CEModel/GraphUtils.lean`, with the documented table `stdSem = LINK_TYPE_SEMANTICS`. Node identity
across the PCMCI form is the position in `G.nodes()`.

**Known finding (not repaired, DESIGN §5.1/§6 C14).** A `'<--'` mark is converted to an edge in the
reverse direction (correct, `bwd_edge`), but
(a) when it is mirrored by `'-->'` at the transposed entry — what tigramite emits for every
    contemporaneous link — the link is represented **twice** (two parallel edges), and
(b) PCMCI → graph → PCMCI never reproduces a `'<--'` mark (it comes back as `'-->'` at the
    transposed entry, the `'<--'` entry comes back empty).
Hence: the forward-conversion theorems cover `'<--'` fully; `each_link_once` is proved under the
exact condition "no mirrored `-->`/`<--` pair" (`each_link_once_iff` shows the condition is
necessary), with the corollary `each_link_once_partial` for patterns without `'<--'`;
`pcmci_roundtrip_partial` is proved for patterns without `'<--'`; and the defect is documented by
the negative witnesses at the end of the file.

The rank/shape checks of the Python (`ndim`, equal shapes) happen before the model is entered and
are covered by the correspondence check, not by these theorems. -/
namespace CE.Graph.C14
open CE.Graph

/-! ## PCMCI result → graph: locality and the mark → edge table -/

theorem mem_entryTable (bin : Bool) (level : Rat) (i j l : Nat) (m : String) (val p : Rat)
    (e : PEdge) :
    e ∈ entryTable bin level i j l m val p ↔
      (m = "-->" ∧ e = mkE bin level i j l val p "directed") ∨
      (m = "<--" ∧ e = mkE bin level j i l val p "directed") ∨
      (m = "o-o" ∧ i < j ∧ (e = mkE bin level i j l val p "undirected" ∨
        e = mkE bin level j i l val p "undirected")) ∨
      (m = "x-x" ∧ i < j ∧ (e = mkE bin level i j l val p "conflicting" ∨
        e = mkE bin level j i l val p "conflicting")) ∨
      (m = "-?>" ∧ e = mkE bin level i j l val p "possible_directed") := by
  by_cases h1 : m = "-->"
  · subst h1; simp [entryTable]
  by_cases h2 : m = "<--"
  · subst h2; simp [entryTable]
  by_cases h3 : m = "o-o"
  · subst h3
    by_cases hij : i < j <;> simp [entryTable, hij]
  by_cases h4 : m = "x-x"
  · subst h4
    by_cases hij : i < j <;> simp [entryTable, hij]
  by_cases h5 : m = "-?>"
  · subst h5; simp [entryTable]
  simp [entryTable, h1, h2, h3, h4, h5]

/-- **C14 `mem_toGraph`** (locality of the forward conversion): when `toGraph` succeeds, an edge is
in the result iff it is among the edges that `edgesOfEntry` yields for some in-range entry
`[i, j, l]` — the edges produced from an entry depend only on the mark and numbers at that
entry. -/
theorem mem_toGraph (bin : Bool) (level : Rat) (P : Pcmci) (es : List PEdge)
    (hG : toGraph stdSem bin level P = .ok es) (e : PEdge) :
    e ∈ es ↔ ∃ i j l, i < P.N ∧ j < P.N ∧ l < P.Lp1 ∧ ∃ out,
      edgesOfEntry stdSem bin level i j l (P.mark i j l) (P.val i j l) (P.p i j l) = .ok out ∧
      e ∈ out := by
  obtain ⟨hk, rfl⟩ := (toGraph_ok_iff bin level P es).1 hG
  rw [List.mem_flatMap]
  constructor
  · rintro ⟨⟨i, j, l⟩, ht, he⟩
    rw [mem_triples] at ht
    refine ⟨i, j, l, ht.1, ht.2.1, ht.2.2, _, ?_, he⟩
    rw [edgesOfEntry_std, if_pos (hk i j l ht.1 ht.2.1 ht.2.2)]
    rfl
  · rintro ⟨i, j, l, hi, hj, hl, out, hout, he⟩
    rw [edgesOfEntry_std, if_pos (hk i j l hi hj hl)] at hout
    cases hout
    exact ⟨(i, j, l), (mem_triples _ _ _).2 ⟨hi, hj, hl⟩, he⟩

/-- **C14 `toGraph_eq`** (strong locality): when `toGraph` succeeds the edge list *is* the
concatenation, in loop order `for i, for j, for lag`, of the per-entry tables. -/
theorem toGraph_eq (bin : Bool) (level : Rat) (P : Pcmci) (es : List PEdge)
    (hG : toGraph stdSem bin level P = .ok es) :
    es = (triples P.N P.Lp1).flatMap (fun t =>
      entryTable bin level t.1 t.2.1 t.2.2 (P.mark t.1 t.2.1 t.2.2) (P.val t.1 t.2.1 t.2.2)
        (P.p t.1 t.2.1 t.2.2)) :=
  ((toGraph_ok_iff bin level P es).1 hG).2

/-- **C14 mark → edge table**: when `toGraph` succeeds, an edge is in the result iff some in-range
entry `[i, j, l]` carries `'-->'` and it is `i → j`; or `'<--'` and it is `j → i`; or a symmetric
mark with `i < j` and it is `i → j` or `j → i`; or `'-?>'` and it is `i → j` — always with the lag,
value and p-value of that entry, the semantic type of the mark, and
`significant = (p < level)` exactly when `binarize`. -/
theorem mem_toGraph_table (bin : Bool) (level : Rat) (P : Pcmci) (es : List PEdge)
    (hG : toGraph stdSem bin level P = .ok es) (e : PEdge) :
    e ∈ es ↔ ∃ i j l, i < P.N ∧ j < P.N ∧ l < P.Lp1 ∧
      ((P.mark i j l = "-->" ∧ e = mkE bin level i j l (P.val i j l) (P.p i j l) "directed") ∨
       (P.mark i j l = "<--" ∧ e = mkE bin level j i l (P.val i j l) (P.p i j l) "directed") ∨
       (P.mark i j l = "o-o" ∧ i < j ∧
          (e = mkE bin level i j l (P.val i j l) (P.p i j l) "undirected" ∨
           e = mkE bin level j i l (P.val i j l) (P.p i j l) "undirected")) ∨
       (P.mark i j l = "x-x" ∧ i < j ∧
          (e = mkE bin level i j l (P.val i j l) (P.p i j l) "conflicting" ∨
           e = mkE bin level j i l (P.val i j l) (P.p i j l) "conflicting")) ∨
       (P.mark i j l = "-?>" ∧
          e = mkE bin level i j l (P.val i j l) (P.p i j l) "possible_directed")) := by
  obtain ⟨-, rfl⟩ := (toGraph_ok_iff bin level P es).1 hG
  rw [List.mem_flatMap]
  constructor
  · rintro ⟨⟨i, j, l⟩, ht, he⟩
    rw [mem_triples] at ht
    exact ⟨i, j, l, ht.1, ht.2.1, ht.2.2, (mem_entryTable ..).1 he⟩
  · rintro ⟨i, j, l, hi, hj, hl, h⟩
    exact ⟨(i, j, l), (mem_triples _ _ _).2 ⟨hi, hj, hl⟩, (mem_entryTable ..).2 h⟩

/-- **C14 `fwd_edge`**: `'-->'` at `[i, j, τ]` yields exactly the edge `i → j` with lag `τ`, the
entry's value and p-value, type `directed`, and `significant = (p < level)` iff `binarize`; and that
edge is in the graph. -/
theorem fwd_edge (bin : Bool) (level : Rat) (P : Pcmci) (es : List PEdge)
    (hG : toGraph stdSem bin level P = .ok es) (i j l : Nat) (hi : i < P.N) (hj : j < P.N)
    (hl : l < P.Lp1) (hm : P.mark i j l = "-->") :
    edgesOfEntry stdSem bin level i j l (P.mark i j l) (P.val i j l) (P.p i j l) =
      .ok [{ u := i, v := j, lag := l, val := P.val i j l, p := P.p i j l, type := "directed",
             sig := if bin then some (decide (P.p i j l < level)) else none }] ∧
    ({ u := i, v := j, lag := l, val := P.val i j l, p := P.p i j l, type := "directed",
       sig := if bin then some (decide (P.p i j l < level)) else none } : PEdge) ∈ es := by
  refine ⟨?_, (mem_toGraph_table bin level P es hG _).2
    ⟨i, j, l, hi, hj, hl, Or.inl ⟨hm, rfl⟩⟩⟩
  rw [hm, edgesOfEntry_std, if_pos (by decide)]
  rfl

/-- **C14 `bwd_edge`**: `'<--'` at `[i, j, τ]` yields exactly the edge `j → i` (reverse direction)
with lag `τ`, the entry's value and p-value, type `directed`, `significant` as requested. -/
theorem bwd_edge (bin : Bool) (level : Rat) (P : Pcmci) (es : List PEdge)
    (hG : toGraph stdSem bin level P = .ok es) (i j l : Nat) (hi : i < P.N) (hj : j < P.N)
    (hl : l < P.Lp1) (hm : P.mark i j l = "<--") :
    edgesOfEntry stdSem bin level i j l (P.mark i j l) (P.val i j l) (P.p i j l) =
      .ok [{ u := j, v := i, lag := l, val := P.val i j l, p := P.p i j l, type := "directed",
             sig := if bin then some (decide (P.p i j l < level)) else none }] ∧
    ({ u := j, v := i, lag := l, val := P.val i j l, p := P.p i j l, type := "directed",
       sig := if bin then some (decide (P.p i j l < level)) else none } : PEdge) ∈ es := by
  refine ⟨?_, (mem_toGraph_table bin level P es hG _).2
    ⟨i, j, l, hi, hj, hl, Or.inr (Or.inl ⟨hm, rfl⟩)⟩⟩
  rw [hm, edgesOfEntry_std, if_pos (by decide)]
  rfl

/-- **C14 `poss_edge`**: `'-?>'` at `[i, j, τ]` yields exactly the edge `i → j` of type
`possible_directed`. -/
theorem poss_edge (bin : Bool) (level : Rat) (P : Pcmci) (es : List PEdge)
    (hG : toGraph stdSem bin level P = .ok es) (i j l : Nat) (hi : i < P.N) (hj : j < P.N)
    (hl : l < P.Lp1) (hm : P.mark i j l = "-?>") :
    edgesOfEntry stdSem bin level i j l (P.mark i j l) (P.val i j l) (P.p i j l) =
      .ok [{ u := i, v := j, lag := l, val := P.val i j l, p := P.p i j l,
             type := "possible_directed",
             sig := if bin then some (decide (P.p i j l < level)) else none }] ∧
    ({ u := i, v := j, lag := l, val := P.val i j l, p := P.p i j l, type := "possible_directed",
       sig := if bin then some (decide (P.p i j l < level)) else none } : PEdge) ∈ es := by
  refine ⟨?_, (mem_toGraph_table bin level P es hG _).2
    ⟨i, j, l, hi, hj, hl, Or.inr (Or.inr (Or.inr (Or.inr ⟨hm, rfl⟩)))⟩⟩
  rw [hm, edgesOfEntry_std, if_pos (by decide)]
  rfl

/-- semantic type of a symmetric mark -/
def symType (m : String) : String := if m = "o-o" then "undirected" else "conflicting"

/-- **C14 `sym_edges`**: a symmetric mark (`'o-o'` / `'x-x'`) at `[i, j, τ]` yields, when `i < j`,
exactly one edge in each direction (`i → j` then `j → i`) with the entry's lag, value, p-value, its
semantic type (`undirected` / `conflicting`) and `significant` as requested, both in the graph;
when `i ≥ j` the entry yields nothing (the link is produced once, from the entry above the
diagonal). -/
theorem sym_edges (bin : Bool) (level : Rat) (P : Pcmci) (es : List PEdge)
    (hG : toGraph stdSem bin level P = .ok es) (i j l : Nat) (hi : i < P.N) (hj : j < P.N)
    (hl : l < P.Lp1) (hm : P.mark i j l = "o-o" ∨ P.mark i j l = "x-x") :
    (i < j →
      edgesOfEntry stdSem bin level i j l (P.mark i j l) (P.val i j l) (P.p i j l) =
        .ok [{ u := i, v := j, lag := l, val := P.val i j l, p := P.p i j l,
               type := symType (P.mark i j l),
               sig := if bin then some (decide (P.p i j l < level)) else none },
             { u := j, v := i, lag := l, val := P.val i j l, p := P.p i j l,
               type := symType (P.mark i j l),
               sig := if bin then some (decide (P.p i j l < level)) else none }] ∧
      ({ u := i, v := j, lag := l, val := P.val i j l, p := P.p i j l,
         type := symType (P.mark i j l),
         sig := if bin then some (decide (P.p i j l < level)) else none } : PEdge) ∈ es ∧
      ({ u := j, v := i, lag := l, val := P.val i j l, p := P.p i j l,
         type := symType (P.mark i j l),
         sig := if bin then some (decide (P.p i j l < level)) else none } : PEdge) ∈ es) ∧
    (j ≤ i →
      edgesOfEntry stdSem bin level i j l (P.mark i j l) (P.val i j l) (P.p i j l) = .ok []) := by
  rcases hm with hm | hm
  · constructor
    · intro hij
      refine ⟨?_, (mem_toGraph_table bin level P es hG _).2 ⟨i, j, l, hi, hj, hl,
          Or.inr (Or.inr (Or.inl ⟨hm, hij, Or.inl (by rw [hm]; rfl)⟩))⟩,
        (mem_toGraph_table bin level P es hG _).2 ⟨i, j, l, hi, hj, hl,
          Or.inr (Or.inr (Or.inl ⟨hm, hij, Or.inr (by rw [hm]; rfl)⟩))⟩⟩
      rw [hm, edgesOfEntry_std, if_pos (by decide)]
      simp [entryTable, hij, mkE, symType]
    · intro hji
      rw [hm, edgesOfEntry_std, if_pos (by decide)]
      simp [entryTable, Nat.not_lt.2 hji]
  · constructor
    · intro hij
      refine ⟨?_, (mem_toGraph_table bin level P es hG _).2 ⟨i, j, l, hi, hj, hl,
          Or.inr (Or.inr (Or.inr (Or.inl ⟨hm, hij, Or.inl (by rw [hm]; rfl)⟩)))⟩,
        (mem_toGraph_table bin level P es hG _).2 ⟨i, j, l, hi, hj, hl,
          Or.inr (Or.inr (Or.inr (Or.inl ⟨hm, hij, Or.inr (by rw [hm]; rfl)⟩)))⟩⟩
      rw [hm, edgesOfEntry_std, if_pos (by decide)]
      simp [entryTable, hij, mkE, symType]
    · intro hji
      rw [hm, edgesOfEntry_std, if_pos (by decide)]
      simp [entryTable, Nat.not_lt.2 hji]

/-- an empty entry yields nothing -/
theorem empty_entry (bin : Bool) (level : Rat) (i j l : Nat) (val p : Rat) :
    edgesOfEntry stdSem bin level i j l "" val p = .ok [] := by
  simp [edgesOfEntry]

/-- **C14 `errors`**: `pcmci_to_networkx` raises `ValueError` iff some in-range entry carries a mark
that is neither empty nor a key of `LINK_TYPE_SEMANTICS` (and otherwise succeeds);
`networkx_to_pcmci` raises `ValueError` iff some edge has a semantic link type outside
`{directed, undirected, conflicting, possible_directed}` (and otherwise succeeds).
(The rank/shape `ValueError`s of the Python are raised before the modelled loop and are covered by
the correspondence check.) -/
theorem errors :
    (∀ (bin : Bool) (level : Rat) (P : Pcmci),
      (toGraph stdSem bin level P = .error .valueError ↔
        ∃ i j l, i < P.N ∧ j < P.N ∧ l < P.Lp1 ∧ P.mark i j l ≠ "" ∧
          stdSem.lookup (P.mark i j l) = none) ∧
      ((∃ es, toGraph stdSem bin level P = .ok es) ↔
        ∀ i j l, i < P.N → j < P.N → l < P.Lp1 →
          P.mark i j l = "" ∨ (stdSem.lookup (P.mark i j l)).isSome)) ∧
    (∀ es : List InEdge,
      (toPcmci es = .error .valueError ↔ ∃ e ∈ es, ¬ KnownTy (e.type.getD "directed")) ∧
      ((∃ r, toPcmci es = .ok r) ↔ ∀ e ∈ es, KnownTy (e.type.getD "directed"))) := by
  refine ⟨fun bin level P => ⟨?_, ?_⟩, fun es => ⟨toPcmci_error_iff es, ?_⟩⟩
  · rw [toGraph_error_iff]
    constructor
    · rintro ⟨i, j, l, hi, hj, hl, hm⟩
      refine ⟨i, j, l, hi, hj, hl, fun h => hm (Or.inl h), ?_⟩
      cases hlk : stdSem.lookup (P.mark i j l) with
      | none => rfl
      | some ty => exact absurd (Or.inr (by rw [hlk]; rfl)) hm
    · rintro ⟨i, j, l, hi, hj, hl, hne, hlk⟩
      refine ⟨i, j, l, hi, hj, hl, ?_⟩
      rintro (h | h)
      · exact hne h
      · rw [hlk] at h; cases h
  · constructor
    · rintro ⟨es, h⟩
      exact ((toGraph_ok_iff bin level P es).1 h).1
    · intro h
      exact ⟨_, (toGraph_ok_iff bin level P _).2 ⟨h, rfl⟩⟩
  · constructor
    · rintro ⟨r, h⟩
      exact ((toPcmci_ok_iff es r).1 h).1
    · intro h
      exact ⟨_, (toPcmci_ok_iff es _).2 ⟨h, rfl⟩⟩

/-! ## each link is represented once -/

/-- identity of a link in the graph: (source, target, lag, link type) -/
def ekey (e : PEdge) : Nat × Nat × Nat × String := (e.u, e.v, e.lag, e.type)

/-- no `'-->'` at `[i, j, τ]` that is mirrored by `'<--'` at the transposed entry `[j, i, τ]` -/
def NoMirroredArrows (P : Pcmci) : Prop :=
  ∀ i j l, i < P.N → j < P.N → l < P.Lp1 → ¬ (P.mark i j l = "-->" ∧ P.mark j i l = "<--")

/-- no `'<--'` mark at all -/
def NoBwd (P : Pcmci) : Prop := ∀ i j l, i < P.N → j < P.N → l < P.Lp1 → P.mark i j l ≠ "<--"

theorem NoBwd.noMirroredArrows {P : Pcmci} (h : NoBwd P) : NoMirroredArrows P :=
  fun i j l hi hj hl hm => h j i l hj hi hl hm.2

/-- the entry a link comes from (when there is no mirrored arrow pair) -/
def origin (P : Pcmci) (k : Nat × Nat × Nat × String) : Nat × Nat × Nat :=
  if k.2.2.2 = "directed" then
    (if P.mark k.1 k.2.1 k.2.2.1 = "-->" then (k.1, k.2.1, k.2.2.1) else (k.2.1, k.1, k.2.2.1))
  else if k.2.2.2 = "possible_directed" then (k.1, k.2.1, k.2.2.1)
  else (min k.1 k.2.1, max k.1 k.2.1, k.2.2.1)

theorem origin_of_mem (bin : Bool) (level : Rat) (P : Pcmci) (hno : NoMirroredArrows P)
    (i j l : Nat) (hi : i < P.N) (hj : j < P.N) (hl : l < P.Lp1) (e : PEdge)
    (he : e ∈ entryTable bin level i j l (P.mark i j l) (P.val i j l) (P.p i j l)) :
    origin P (ekey e) = (i, j, l) := by
  rcases (mem_entryTable ..).1 he with ⟨hm, rfl⟩ | ⟨hm, rfl⟩ | ⟨hm, hij, rfl | rfl⟩ |
    ⟨hm, hij, rfl | rfl⟩ | ⟨hm, rfl⟩
  · simp [origin, ekey, mkE, hm]
  · have : P.mark j i l ≠ "-->" := fun h => hno j i l hj hi hl ⟨h, hm⟩
    simp [origin, ekey, mkE, this]
  · simp [origin, ekey, mkE, Nat.min_eq_left (Nat.le_of_lt hij), Nat.max_eq_right (Nat.le_of_lt hij)]
  · simp [origin, ekey, mkE, Nat.min_eq_right (Nat.le_of_lt hij), Nat.max_eq_left (Nat.le_of_lt hij)]
  · simp [origin, ekey, mkE, Nat.min_eq_left (Nat.le_of_lt hij), Nat.max_eq_right (Nat.le_of_lt hij)]
  · simp [origin, ekey, mkE, Nat.min_eq_right (Nat.le_of_lt hij), Nat.max_eq_left (Nat.le_of_lt hij)]
  · simp [origin, ekey, mkE]

theorem entryTable_keys_nodup (bin : Bool) (level : Rat) (i j l : Nat) (m : String) (val p : Rat) :
    ((entryTable bin level i j l m val p).map ekey).Nodup := by
  unfold entryTable
  split_ifs with h1 h2 h3 hij h4 hij
  all_goals simp [ekey, mkE]
  all_goals omega

/-- **C14 `each_link_once`**: if no `'-->'` is mirrored by a `'<--'` at the transposed entry, every
link `(source, target, lag, type)` of the produced graph arises from exactly one entry and occurs
exactly once: the list of link identities has no duplicates. -/
theorem each_link_once (bin : Bool) (level : Rat) (P : Pcmci) (es : List PEdge)
    (hG : toGraph stdSem bin level P = .ok es) (hno : NoMirroredArrows P) :
    (es.map ekey).Nodup := by
  obtain ⟨-, rfl⟩ := (toGraph_ok_iff bin level P es).1 hG
  rw [List.map_flatMap, List.nodup_flatMap]
  refine ⟨fun t _ => entryTable_keys_nodup .., ?_⟩
  refine List.Nodup.pairwise_of_forall_ne (nodup_triples _ _) ?_
  rintro ⟨i, j, l⟩ ha ⟨i', j', l'⟩ hb hab
  show List.Disjoint _ _
  intro k hk1 hk2
  rw [mem_triples] at ha hb
  obtain ⟨e1, he1, rfl⟩ := List.mem_map.1 hk1
  obtain ⟨e2, he2, hk⟩ := List.mem_map.1 hk2
  have h1 := origin_of_mem bin level P hno i j l ha.1 ha.2.1 ha.2.2 e1 he1
  have h2 := origin_of_mem bin level P hno i' j' l' hb.1 hb.2.1 hb.2.2 e2 he2
  rw [hk] at h2
  exact hab (h1.symm.trans h2)

/-- **C14 `each_link_once_iff`** (the exact condition, documenting the known finding): the produced
graph represents every link once **iff** the pattern has no `'-->'` mirrored by `'<--'` at the
transposed entry. A mirrored pair always yields two parallel edges with the same identity. -/
theorem each_link_once_iff (bin : Bool) (level : Rat) (P : Pcmci) (es : List PEdge)
    (hG : toGraph stdSem bin level P = .ok es) :
    (es.map ekey).Nodup ↔ NoMirroredArrows P := by
  refine ⟨fun hnd i j l hi hj hl hm => ?_, each_link_once bin level P es hG⟩
  obtain ⟨h1, h2⟩ := hm
  obtain ⟨-, rfl⟩ := (toGraph_ok_iff bin level P es).1 hG
  rw [List.map_flatMap, List.nodup_flatMap] at hnd
  have hij : i ≠ j := by
    rintro rfl
    rw [h1] at h2
    exact absurd h2 (by decide)
  have hne : ((i, j, l) : Nat × Nat × Nat) ≠ (j, i, l) := by
    intro h
    exact hij (Prod.mk.inj h).1
  have hsymm : Std.Symm (Function.onFun List.Disjoint
      (fun t => (entryList bin level P t).map ekey)) :=
    ⟨fun a b h x h2 h1 => h h1 h2⟩
  have hd : List.Disjoint ((entryList bin level P (i, j, l)).map ekey)
      ((entryList bin level P (j, i, l)).map ekey) :=
    hnd.2.forall ((mem_triples _ _ _).2 ⟨hi, hj, hl⟩) ((mem_triples _ _ _).2 ⟨hj, hi, hl⟩) hne
  refine hd (a := (i, j, l, "directed")) ?_ ?_
  · exact List.mem_map.2 ⟨mkE bin level i j l (P.val i j l) (P.p i j l) "directed",
      (mem_entryTable ..).2 (Or.inl ⟨h1, rfl⟩), rfl⟩
  · exact List.mem_map.2 ⟨mkE bin level i j l (P.val j i l) (P.p j i l) "directed",
      (mem_entryTable ..).2 (Or.inr (Or.inl ⟨h2, rfl⟩)), rfl⟩

/-- **C14 `each_link_once_partial`**: on patterns **without `'<--'`** every produced link
`(source, target, lag, type)` occurs exactly once. (No hypothesis on the symmetric marks is needed:
the `i < j` rule alone prevents duplicates. What is missing for the full statement of the property —
patterns in which a `'<--'` mirrors a `'-->'` — is false on the pinned semantics, see
`each_link_once_iff` and the witness `mirrored_pair_two_edges`.) -/
theorem each_link_once_partial (bin : Bool) (level : Rat) (P : Pcmci) (es : List PEdge)
    (hG : toGraph stdSem bin level P = .ok es) (hno : NoBwd P) : (es.map ekey).Nodup :=
  each_link_once bin level P es hG hno.noMirroredArrows

/-! ## graph → PCMCI result: locality -/

/-- **C14 `mark_toPcmci`** (locality of the reverse conversion): the cell at `(u, v, l)` of the
result is determined by the **last** edge of `es` that writes it. An edge writes the positions
`targets e` — `(e.u, e.v, lag)`, and also `(e.v, e.u, lag)` when its type is symmetric — unless it
is skipped by the `processed_undirected` test (`Skipped pre e`: symmetric type and an earlier
symmetric-type edge with the same `(min, max, lag)`). If no edge targets the cell it keeps its
initial fill `("", 0, 1)`. (`last_writer_exists` shows that these two cases are exhaustive.) -/
theorem mark_toPcmci (es : List InEdge) (r : Nat × (Nat → Nat → Nat → Cell))
    (h : toPcmci es = .ok r) (u v l : Nat) :
    (∀ pre e post, es = pre ++ e :: post → (u, v, l) ∈ targets e → ¬ Skipped pre e →
      (∀ p1 e' p2, post = p1 ++ e' :: p2 → (u, v, l) ∈ targets e' →
        Skipped (pre ++ e :: p1) e') →
      r.2 u v l = cellOf e) ∧
    ((∀ e ∈ es, (u, v, l) ∉ targets e) → r.2 u v l = emptyCell) := by
  refine ⟨?_, fun hno => cell_empty es r (u, v, l) h hno⟩
  obtain ⟨-, rfl⟩ := (toPcmci_ok_iff es r).1 h
  rintro pre e post rfl ht hns hlater
  show readCell (writesSpec [] (pre ++ e :: post)) (u, v, l) = cellOf e
  rw [writesSpec_append, writesSpec]
  simp only [List.nil_append]
  have h3 : ∀ w ∈ writesSpec (pre ++ [e]) post, w.1 ≠ (u, v, l) := by
    intro w hw hwk
    obtain ⟨a, e', b, rfl, hwe⟩ := (mem_writesSpec _ _ w).1 hw
    obtain ⟨hns', ht', -⟩ := (mem_writesOf _ _ _).1 hwe
    apply hns'
    have := hlater a e' b rfl (hwk ▸ ht')
    simpa using this
  have h2ex : ∃ w ∈ writesOf pre e, w.1 = (u, v, l) :=
    ⟨((u, v, l), cellOf e), (mem_writesOf _ _ _).2 ⟨hns, ht, rfl⟩, rfl⟩
  have h2all : ∀ w ∈ writesOf pre e, w.1 = (u, v, l) → w.2 = cellOf e :=
    fun w hw _ => ((mem_writesOf _ _ _).1 hw).2.2
  rw [← List.append_assoc, readCell_append_left _ _ _ h3, readCell_append_right _ _ _ h2ex]
  exact readCell_agree _ _ _ h2ex h2all

/-- whenever some edge targets a cell, there is a last edge that writes it -/
theorem last_writer_exists (es : List InEdge) (k : Nat × Nat × Nat)
    (hex : ∃ e ∈ es, k ∈ targets e) :
    ∃ pre e post, es = pre ++ e :: post ∧ k ∈ targets e ∧ ¬ Skipped pre e ∧
      ∀ p1 e' p2, post = p1 ++ e' :: p2 → k ∈ targets e' → Skipped (pre ++ e :: p1) e' := by
  induction es using List.reverseRecOn with
  | nil => simp at hex
  | append_singleton es0 x ih =>
    by_cases hx : k ∈ targets x ∧ ¬ Skipped es0 x
    · refine ⟨es0, x, [], rfl, hx.1, hx.2, ?_⟩
      intro p1 e' p2 hsplit
      simp at hsplit
    · have hex0 : ∃ e ∈ es0, k ∈ targets e := by
        obtain ⟨e, he, hk⟩ := hex
        rcases List.mem_append.1 he with he | he
        · exact ⟨e, he, hk⟩
        · rw [List.mem_singleton.1 he] at hk
          have hsk : Skipped es0 x := by
            by_contra hns
            exact hx ⟨hk, hns⟩
          obtain ⟨hsx, e', he', hse', hkey⟩ := hsk
          exact ⟨e', he', targets_of_symKey_eq e' x hse' hsx hkey k hk⟩
      obtain ⟨pre, e, post, rfl, hk, hns, hlater⟩ := ih hex0
      refine ⟨pre, e, post ++ [x], by simp, hk, hns, ?_⟩
      intro p1 e' p2 hsplit hk'
      rcases List.eq_nil_or_concat p2 with rfl | ⟨p2', y, rfl⟩
      · obtain ⟨rfl, hxe⟩ := List.append_inj' hsplit (by simp)
        cases hxe
        by_contra hns'
        exact hx ⟨hk', hns'⟩
      · have hsplit' : post ++ [x] = (p1 ++ e' :: p2') ++ [y] := by
          simpa [List.concat_eq_append] using hsplit
        obtain ⟨rfl, -⟩ := List.append_inj' hsplit' rfl
        exact hlater p1 e' p2' rfl hk'


/-! ## round trip graph → PCMCI → graph -/

/-- identity and numbers of an input edge: (source, target, lag, link type, value, p-value) -/
def ikey (e : InEdge) : Nat × Nat × Option Nat × Option String × Option Rat × Option Rat :=
  (e.u, e.v, e.lag, e.type, e.val, e.p)
/-- identity and numbers of a produced edge, in the same format -/
def pkey (e : PEdge) : Nat × Nat × Option Nat × Option String × Option Rat × Option Rat :=
  (e.u, e.v, some e.lag, some e.type, some e.val, some e.p)

/-- edge `e` is `a → b` with explicit attributes `lag = l`, `link_type = ty`, `val = v`,
`p_value = p` -/
def HasAttrs (e : InEdge) (a b l : Nat) (ty : String) (v p : Rat) : Prop :=
  e.u = a ∧ e.v = b ∧ e.lag = some l ∧ e.type = some ty ∧ e.val = some v ∧ e.p = some p

section HasAttrs
variable {e : InEdge} {a b l : Nat} {ty : String} {v p : Rat}

theorem HasAttrs.ikey (h : HasAttrs e a b l ty v p) :
    ikey e = (a, b, some l, some ty, some v, some p) := by
  obtain ⟨h1, h2, h3, h4, h5, h6⟩ := h
  simp [C14.ikey, h1, h2, h3, h4, h5, h6]

theorem HasAttrs.elag (h : HasAttrs e a b l ty v p) : elag e = l := by
  simp [C14.elag, h.2.2.1]

theorem HasAttrs.ety (h : HasAttrs e a b l ty v p) : ety e = ty := by
  simp [C14.ety, h.2.2.2.1]

theorem HasAttrs.cellOf (h : HasAttrs e a b l ty v p) :
    cellOf e = { mark := markOf ty, val := v, p := p } := by
  simp [C14.cellOf, h.ety, evalue, epv, h.2.2.2.2.1, h.2.2.2.2.2]

theorem HasAttrs.targets (h : HasAttrs e a b l ty v p) :
    targets e = if symTy ty then [(a, b, l), (b, a, l)] else [(a, b, l)] := by
  simp [C14.targets, h.ety, h.elag, h.1, h.2.1]

end HasAttrs

theorem markOf_fwd {ty : String} (hk : KnownTy ty) (h : markOf ty = "-->") : ty = "directed" := by
  revert h; rcases hk with rfl | rfl | rfl | rfl <;> decide
theorem markOf_oo {ty : String} (hk : KnownTy ty) (h : markOf ty = "o-o") : ty = "undirected" := by
  revert h; rcases hk with rfl | rfl | rfl | rfl <;> decide
theorem markOf_xx {ty : String} (hk : KnownTy ty) (h : markOf ty = "x-x") : ty = "conflicting" := by
  revert h; rcases hk with rfl | rfl | rfl | rfl <;> decide
theorem markOf_poss {ty : String} (hk : KnownTy ty) (h : markOf ty = "-?>") :
    ty = "possible_directed" := by
  revert h; rcases hk with rfl | rfl | rfl | rfl <;> decide
theorem markOf_ne_bwd {ty : String} (hk : KnownTy ty) : markOf ty ≠ "<--" := by
  rcases hk with rfl | rfl | rfl | rfl <;> decide
theorem markOf_known {ty : String} (hk : KnownTy ty) : KnownMark (markOf ty) := by
  rcases hk with rfl | rfl | rfl | rfl <;> decide

/-- the graphs quantified over by `graph_roundtrip`: every edge carries `lag`, `link_type` (one of
the four semantic types), `val`, `p_value`; endpoints are node positions `< N`; no self-loop of
symmetric type; at most one edge per (source, target, lag); symmetric-type edges occur in mirrored
pairs with equal lag, type, value and p-value (DESIGN §5.3) -/
structure GraphOK (N : Nat) (es : List InEdge) : Prop where
  attrs : ∀ e ∈ es, e.lag.isSome ∧ e.type.isSome ∧ e.val.isSome ∧ e.p.isSome ∧ KnownTy (ety e)
  range : ∀ e ∈ es, e.u < N ∧ e.v < N
  noSymLoop : ∀ e ∈ es, symTy (ety e) → e.u ≠ e.v
  uniq : (es.map (fun e => (e.u, e.v, e.lag))).Nodup
  mirrored : ∀ e ∈ es, symTy (ety e) → ∃ e' ∈ es, e'.u = e.v ∧ e'.v = e.u ∧ e'.lag = e.lag ∧
    e'.type = e.type ∧ e'.val = e.val ∧ e'.p = e.p

section GraphOK
variable {N : Nat} {es : List InEdge}

theorem GraphOK.hasAttrs (hok : GraphOK N es) {e : InEdge} (he : e ∈ es) :
    ∃ l ty v p, HasAttrs e e.u e.v l ty v p ∧ KnownTy ty := by
  obtain ⟨h1, h2, h3, h4, h5⟩ := hok.attrs e he
  obtain ⟨l, hl⟩ := Option.isSome_iff_exists.1 h1
  obtain ⟨ty, hty⟩ := Option.isSome_iff_exists.1 h2
  obtain ⟨v, hv⟩ := Option.isSome_iff_exists.1 h3
  obtain ⟨p, hp⟩ := Option.isSome_iff_exists.1 h4
  refine ⟨l, ty, v, p, ⟨rfl, rfl, hl, hty, hv, hp⟩, ?_⟩
  simpa [ety, hty] using h5

theorem GraphOK.inj (hok : GraphOK N es) {e e' : InEdge} (he : e ∈ es) (he' : e' ∈ es)
    (hu : e.u = e'.u) (hv : e.v = e'.v) (hl : e.lag = e'.lag) : e = e' :=
  List.inj_on_of_nodup_map hok.uniq he he' (by simp [hu, hv, hl])

theorem GraphOK.mirror (hok : GraphOK N es) {e : InEdge} (he : e ∈ es) {a b l : Nat} {ty : String}
    {v p : Rat} (h : HasAttrs e a b l ty v p) (hs : symTy ty) :
    ∃ e' ∈ es, HasAttrs e' b a l ty v p := by
  obtain ⟨e', he', h1, h2, h3, h4, h5, h6⟩ := hok.mirrored e he (by rw [h.ety]; exact hs)
  obtain ⟨hu, hv, hl, ht, hval, hp⟩ := h
  exact ⟨e', he', h1.trans hv, h2.trans hu, h3.trans hl, h4.trans ht, h5.trans hval, h6.trans hp⟩

/-- locality + uniqueness: the cell at the position of an edge is that edge's cell -/
theorem cell_of_edge (hok : GraphOK N es) {r : Nat × (Nat → Nat → Nat → Cell)}
    (hr : toPcmci es = .ok r) {e : InEdge} (he : e ∈ es) {a b l : Nat} {ty : String} {v p : Rat}
    (h : HasAttrs e a b l ty v p) : r.2 a b l = { mark := markOf ty, val := v, p := p } := by
  rw [← h.cellOf]
  refine cell_agree es r (a, b, l) (cellOf e) hr ⟨e, he, ?_⟩ ?_
  · rw [h.targets]; split_ifs <;> simp
  · intro e2 he2 ht2
    obtain ⟨l2, ty2, v2, p2, h2, -⟩ := hok.hasAttrs he2
    rw [h2.targets] at ht2
    have hsame : a = e2.u → b = e2.v → l = l2 → cellOf e2 = cellOf e := by
      intro hu hv hl
      have : e2 = e := hok.inj he2 he (by rw [h.1, hu]) (by rw [h.2.1, hv])
        (by rw [h.2.2.1, h2.2.2.1, hl])
      rw [this]
    by_cases hs : symTy ty2
    · rw [if_pos hs] at ht2
      simp only [List.mem_cons, Prod.mk.injEq, List.mem_nil_iff, or_false] at ht2
      rcases ht2 with ⟨hu, hv, hl⟩ | ⟨hu, hv, hl⟩
      · exact hsame hu hv hl
      · obtain ⟨e3, he3, h3⟩ := hok.mirror he2 h2 hs
        have : e3 = e := hok.inj he3 he (by rw [h3.1, h.1, hu]) (by rw [h3.2.1, h.2.1, hv])
          (by rw [h3.2.2.1, h.2.2.1, hl])
        rw [h2.cellOf, ← this, h3.cellOf]
    · rw [if_neg hs] at ht2
      simp only [List.mem_cons, Prod.mk.injEq, List.mem_nil_iff, or_false] at ht2
      exact hsame ht2.1 ht2.2.1 ht2.2.2

/-- locality + mirroring: a non-empty cell is the cell of the edge at its position -/
theorem edge_of_cell (hok : GraphOK N es) {r : Nat × (Nat → Nat → Nat → Cell)}
    (hr : toPcmci es = .ok r) (i j l : Nat) (hm : (r.2 i j l).mark ≠ "") :
    ∃ e ∈ es, ∃ ty v p, HasAttrs e i j l ty v p ∧ KnownTy ty ∧
      r.2 i j l = { mark := markOf ty, val := v, p := p } := by
  by_cases hex : ∃ e ∈ es, e.u = i ∧ e.v = j ∧ elag e = l
  · obtain ⟨e, he, hu, hv, hl⟩ := hex
    obtain ⟨l', ty, v, p, h, hk⟩ := hok.hasAttrs he
    have hl' : l' = l := by rw [← h.elag]; exact hl
    rw [hu, hv, hl'] at h
    exact ⟨e, he, ty, v, p, h, hk, cell_of_edge hok hr he h⟩
  · exfalso
    apply hm
    have hcell : r.2 i j l = emptyCell := by
      refine cell_empty es r (i, j, l) hr ?_
      intro e he ht
      obtain ⟨l', ty, v, p, h, -⟩ := hok.hasAttrs he
      rw [h.targets] at ht
      by_cases hs : symTy ty
      · rw [if_pos hs] at ht
        simp only [List.mem_cons, Prod.mk.injEq, List.mem_nil_iff, or_false] at ht
        rcases ht with ⟨h1, h2, h3⟩ | ⟨h1, h2, h3⟩
        · exact hex ⟨e, he, h1.symm, h2.symm, by rw [h.elag, h3]⟩
        · obtain ⟨e', he', h'⟩ := hok.mirror he h hs
          exact hex ⟨e', he', h'.1.trans h1.symm, h'.2.1.trans h2.symm, by rw [h'.elag, h3]⟩
      · rw [if_neg hs] at ht
        simp only [List.mem_cons, Prod.mk.injEq, List.mem_nil_iff, or_false] at ht
        exact hex ⟨e, he, ht.1.symm, ht.2.1.symm, by rw [h.elag, ht.2.2]⟩
    rw [hcell]
    rfl

end GraphOK

/-- **C14 `graph_roundtrip`**: for every graph (edge list over `N` nodes, identified by position)
in which every edge carries all attributes with a known link type, there is at most one edge per
(source, target, lag), no symmetric-type self-loop, and symmetric-type edges occur in mirrored
pairs with equal type/value/p-value: `networkx_to_pcmci` succeeds, `pcmci_to_networkx` succeeds on
its result, and the final graph has the same **set** — in fact the same multiset, both lists being
duplicate-free — of (source, target, lag, link type, value, p-value) as the original. -/
theorem graph_roundtrip (N : Nat) (es : List InEdge) (hok : GraphOK N es) :
    ∃ r es', toPcmci es = .ok r ∧ toGraph stdSem false 0 (pcmciOfCells N r) = .ok es' ∧
      (∀ x, x ∈ es'.map pkey ↔ x ∈ es.map ikey) ∧ (es'.map pkey).Perm (es.map ikey) := by
  have hknown : ∀ e ∈ es, KnownTy (ety e) := fun e he => (hok.attrs e he).2.2.2.2
  obtain ⟨r, hr⟩ : ∃ r, toPcmci es = .ok r := ⟨_, (toPcmci_ok_iff es _).2 ⟨hknown, rfl⟩⟩
  have hr1 : r.1 = tauMax es := by rw [((toPcmci_ok_iff es r).1 hr).2]
  have hmark : ∀ i j l, (r.2 i j l).mark = "" ∨ ∃ ty, KnownTy ty ∧ (r.2 i j l).mark = markOf ty := by
    intro i j l
    by_cases hm : (r.2 i j l).mark = ""
    · exact Or.inl hm
    · obtain ⟨e, -, ty, v, p, -, hk, hc⟩ := edge_of_cell hok hr i j l hm
      exact Or.inr ⟨ty, hk, by rw [hc]⟩
  have hallknown : AllKnown (pcmciOfCells N r) := by
    intro i j l _ _ _
    show KnownMark (r.2 i j l).mark
    rcases hmark i j l with h | ⟨ty, hk, h⟩
    · rw [h]; exact Or.inl rfl
    · rw [h]; exact markOf_known hk
  obtain ⟨es', hes'⟩ : ∃ es', toGraph stdSem false 0 (pcmciOfCells N r) = .ok es' :=
    ⟨_, (toGraph_ok_iff false 0 _ _).2 ⟨hallknown, rfl⟩⟩
  have hmem : ∀ x, x ∈ es'.map pkey ↔ x ∈ es.map ikey := by
    intro x
    rw [List.mem_map, List.mem_map]
    constructor
    · rintro ⟨e', he', rfl⟩
      rw [mem_toGraph_table false 0 _ es' hes'] at he'
      obtain ⟨i, j, l, hi, hj, hl, hc⟩ := he'
      have hne : (r.2 i j l).mark ≠ "" := by
        show (pcmciOfCells N r).mark i j l ≠ ""
        rcases hc with ⟨h, -⟩ | ⟨h, -⟩ | ⟨h, -⟩ | ⟨h, -⟩ | ⟨h, -⟩ <;> (rw [h]; decide)
      obtain ⟨e, he, ty, v, p, ha, hk, hcell⟩ := edge_of_cell hok hr i j l hne
      have hmk : (pcmciOfCells N r).mark i j l = markOf ty := by
        show (r.2 i j l).mark = _; rw [hcell]
      have hvl : (pcmciOfCells N r).val i j l = v := by
        show (r.2 i j l).val = _; rw [hcell]
      have hpv : (pcmciOfCells N r).p i j l = p := by
        show (r.2 i j l).p = _; rw [hcell]
      rw [hmk, hvl, hpv] at hc
      rcases hc with ⟨hm, rfl⟩ | ⟨hm, rfl⟩ | ⟨hm, hij, rfl | rfl⟩ | ⟨hm, hij, rfl | rfl⟩ | ⟨hm, rfl⟩
      · have := markOf_fwd hk hm; subst this
        exact ⟨e, he, by rw [ha.ikey]; rfl⟩
      · exact absurd hm (markOf_ne_bwd hk)
      · have := markOf_oo hk hm; subst this
        exact ⟨e, he, by rw [ha.ikey]; rfl⟩
      · have := markOf_oo hk hm; subst this
        obtain ⟨e2, he2, ha2⟩ := hok.mirror he ha (Or.inl rfl)
        exact ⟨e2, he2, by rw [ha2.ikey]; rfl⟩
      · have := markOf_xx hk hm; subst this
        exact ⟨e, he, by rw [ha.ikey]; rfl⟩
      · have := markOf_xx hk hm; subst this
        obtain ⟨e2, he2, ha2⟩ := hok.mirror he ha (Or.inr rfl)
        exact ⟨e2, he2, by rw [ha2.ikey]; rfl⟩
      · have := markOf_poss hk hm; subst this
        exact ⟨e, he, by rw [ha.ikey]; rfl⟩
    · rintro ⟨e, he, rfl⟩
      obtain ⟨l, ty, v, p, ha, hk⟩ := hok.hasAttrs he
      obtain ⟨hu, hv⟩ := hok.range e he
      have hl : l < (pcmciOfCells N r).Lp1 := by
        show l < r.1 + 1
        have := le_tauMax es e he
        rw [ha.elag] at this
        omega
      have hcell := cell_of_edge hok hr he ha
      have hmk : (pcmciOfCells N r).mark e.u e.v l = markOf ty := by
        show (r.2 e.u e.v l).mark = _; rw [hcell]
      have hvl : (pcmciOfCells N r).val e.u e.v l = v := by
        show (r.2 e.u e.v l).val = _; rw [hcell]
      have hpv : (pcmciOfCells N r).p e.u e.v l = p := by
        show (r.2 e.u e.v l).p = _; rw [hcell]
      rw [ha.ikey]
      rcases hk with rfl | rfl | rfl | rfl
      · exact ⟨mkE false 0 e.u e.v l v p "directed",
          (mem_toGraph_table false 0 _ es' hes' _).2 ⟨e.u, e.v, l, hu, hv, hl,
            Or.inl ⟨by rw [hmk]; rfl, by rw [hvl, hpv]⟩⟩, rfl⟩
      · have hne := hok.noSymLoop e he (by rw [ha.ety]; exact Or.inl rfl)
        rcases Nat.lt_or_gt_of_ne hne with hlt | hgt
        · exact ⟨mkE false 0 e.u e.v l v p "undirected",
            (mem_toGraph_table false 0 _ es' hes' _).2 ⟨e.u, e.v, l, hu, hv, hl,
              Or.inr (Or.inr (Or.inl ⟨by rw [hmk]; rfl, hlt, Or.inl (by rw [hvl, hpv])⟩))⟩, rfl⟩
        · obtain ⟨e2, he2, ha2⟩ := hok.mirror he ha (Or.inl rfl)
          have hcell2 := cell_of_edge hok hr he2 ha2
          refine ⟨mkE false 0 e.u e.v l v p "undirected",
            (mem_toGraph_table false 0 _ es' hes' _).2 ⟨e.v, e.u, l, hv, hu, hl,
              Or.inr (Or.inr (Or.inl ⟨?_, hgt, Or.inr ?_⟩))⟩, rfl⟩
          · show (r.2 e.v e.u l).mark = _; rw [hcell2]; rfl
          · show _ = mkE false 0 e.u e.v l (r.2 e.v e.u l).val (r.2 e.v e.u l).p "undirected"
            rw [hcell2]
      · have hne := hok.noSymLoop e he (by rw [ha.ety]; exact Or.inr rfl)
        rcases Nat.lt_or_gt_of_ne hne with hlt | hgt
        · exact ⟨mkE false 0 e.u e.v l v p "conflicting",
            (mem_toGraph_table false 0 _ es' hes' _).2 ⟨e.u, e.v, l, hu, hv, hl,
              Or.inr (Or.inr (Or.inr (Or.inl
                ⟨by rw [hmk]; rfl, hlt, Or.inl (by rw [hvl, hpv])⟩)))⟩, rfl⟩
        · obtain ⟨e2, he2, ha2⟩ := hok.mirror he ha (Or.inr rfl)
          have hcell2 := cell_of_edge hok hr he2 ha2
          refine ⟨mkE false 0 e.u e.v l v p "conflicting",
            (mem_toGraph_table false 0 _ es' hes' _).2 ⟨e.v, e.u, l, hv, hu, hl,
              Or.inr (Or.inr (Or.inr (Or.inl ⟨?_, hgt, Or.inr ?_⟩)))⟩, rfl⟩
          · show (r.2 e.v e.u l).mark = _; rw [hcell2]; rfl
          · show _ = mkE false 0 e.u e.v l (r.2 e.v e.u l).val (r.2 e.v e.u l).p "conflicting"
            rw [hcell2]
      · exact ⟨mkE false 0 e.u e.v l v p "possible_directed",
          (mem_toGraph_table false 0 _ es' hes' _).2 ⟨e.u, e.v, l, hu, hv, hl,
            Or.inr (Or.inr (Or.inr (Or.inr ⟨by rw [hmk]; rfl, by rw [hvl, hpv]⟩)))⟩, rfl⟩
  refine ⟨r, es', hr, hes', hmem, (List.perm_ext_iff_of_nodup ?_ ?_).2 hmem⟩
  · have hno : NoMirroredArrows (pcmciOfCells N r) := by
      intro i j l _ _ _ hm
      have h2 : (r.2 j i l).mark = "<--" := hm.2
      rcases hmark j i l with h | ⟨ty, hk, h⟩
      · rw [h] at h2; exact absurd h2 (by decide)
      · rw [h] at h2; exact markOf_ne_bwd hk h2
    have hnd := each_link_once false 0 _ es' hes' hno
    have hcomp : es'.map ekey = (es'.map pkey).map
        (fun x => (x.1, x.2.1, x.2.2.1.getD 0, x.2.2.2.1.getD "")) := by
      rw [List.map_map]; rfl
    rw [hcomp] at hnd
    exact hnd.of_map _
  · have hu := hok.uniq
    have hcomp : es.map (fun e => (e.u, e.v, e.lag)) = (es.map ikey).map
        (fun x => (x.1, x.2.1, x.2.2.1)) := by
      rw [List.map_map]; rfl
    rw [hcomp] at hu
    exact hu.of_map _

/-! ## round trip PCMCI → graph → PCMCI (patterns without `'<--'`) -/

/-- a symmetric mark -/
def symMark (m : String) : Prop := m = "o-o" ∨ m = "x-x"
instance : DecidablePred symMark := fun m => by unfold symMark; infer_instance

/-- the patterns quantified over by `pcmci_roundtrip_partial`: the "consistent mark patterns" of
DESIGN §5.3 (symmetric marks mirrored with equal numbers; no symmetric mark on the diagonal)
**restricted to patterns without `'<--'`**; at least one lag slice -/
structure PatternOK (P : Pcmci) : Prop where
  lagPos : 0 < P.Lp1
  noBwd : NoBwd P
  symMirrored : ∀ i j l, i < P.N → j < P.N → l < P.Lp1 → symMark (P.mark i j l) →
    P.mark j i l = P.mark i j l ∧ P.val j i l = P.val i j l ∧ P.p j i l = P.p i j l
  noSymDiag : ∀ i l, i < P.N → l < P.Lp1 → ¬ symMark (P.mark i i l)

theorem hasAttrs_toIn (bin : Bool) (level : Rat) (a b l : Nat) (val p : Rat) (ty : String) :
    HasAttrs (mkE bin level a b l val p ty).toIn a b l ty val p :=
  ⟨rfl, rfl, rfl, rfl, rfl, rfl⟩

section PatternOK
variable {bin : Bool} {level : Rat} {P : Pcmci} {es : List PEdge}

/-- a directed / possible link: its only target is its own entry, whose content it reproduces -/
theorem plain_target_cell (i j l : Nat) (ty : String) (hns : ¬ symTy ty)
    (hmk : markOf ty = P.mark i j l) (e : InEdge)
    (ha : HasAttrs e i j l ty (P.val i j l) (P.p i j l)) (k : Nat × Nat × Nat)
    (hk : k ∈ targets e) :
    k = (i, j, l) ∧
    cellOf e = { mark := P.mark k.1 k.2.1 k.2.2, val := P.val k.1 k.2.1 k.2.2,
                 p := P.p k.1 k.2.1 k.2.2 } := by
  rw [ha.targets, if_neg hns] at hk
  simp only [List.mem_cons, List.mem_nil_iff, or_false] at hk
  subst hk
  exact ⟨rfl, by rw [ha.cellOf, hmk]⟩

/-- a symmetric link produced from the entry `[i, j, l]` (`i < j`) in either orientation: its
targets are `[i, j, l]` and `[j, i, l]`, and it reproduces the content of both (mirroring) -/
theorem sym_target_cell (hP : PatternOK P) (i j l : Nat) (hi : i < P.N) (hj : j < P.N)
    (hl : l < P.Lp1) (hm : symMark (P.mark i j l)) (ty : String) (hs : symTy ty)
    (hmk : markOf ty = P.mark i j l) (e : InEdge)
    (ha : HasAttrs e i j l ty (P.val i j l) (P.p i j l) ∨
          HasAttrs e j i l ty (P.val i j l) (P.p i j l)) (k : Nat × Nat × Nat)
    (hk : k ∈ targets e) :
    (k = (i, j, l) ∨ k = (j, i, l)) ∧
    cellOf e = { mark := P.mark k.1 k.2.1 k.2.2, val := P.val k.1 k.2.1 k.2.2,
                 p := P.p k.1 k.2.1 k.2.2 } := by
  obtain ⟨m1, m2, m3⟩ := hP.symMirrored i j l hi hj hl hm
  have hcell : cellOf e = { mark := P.mark i j l, val := P.val i j l, p := P.p i j l } := by
    rcases ha with ha | ha <;> rw [ha.cellOf, hmk]
  have hk' : k = (i, j, l) ∨ k = (j, i, l) := by
    rcases ha with ha | ha
    · rw [ha.targets, if_pos hs] at hk
      simpa using hk
    · rw [ha.targets, if_pos hs] at hk
      simp only [List.mem_cons, List.mem_nil_iff, or_false] at hk
      exact hk.symm
  refine ⟨hk', ?_⟩
  rcases hk' with rfl | rfl
  · exact hcell
  · rw [hcell]
    show _ = ({ mark := P.mark j i l, val := P.val j i l, p := P.p j i l } : Cell)
    rw [m1, m2, m3]

/-- every position targeted by a produced edge is an in-range entry carrying a link, and the edge
would write exactly that entry's content there -/
theorem target_cell (hP : PatternOK P) (hG : toGraph stdSem bin level P = .ok es) (e0 : PEdge)
    (he0 : e0 ∈ es) (k : Nat × Nat × Nat) (hk : k ∈ targets e0.toIn) :
    k.1 < P.N ∧ k.2.1 < P.N ∧ k.2.2 < P.Lp1 ∧ P.mark k.1 k.2.1 k.2.2 ≠ "" ∧
    cellOf e0.toIn = { mark := P.mark k.1 k.2.1 k.2.2, val := P.val k.1 k.2.1 k.2.2,
                       p := P.p k.1 k.2.1 k.2.2 } := by
  obtain ⟨i, j, l, hi, hj, hl, hc⟩ := (mem_toGraph_table bin level P es hG e0).1 he0
  rcases hc with ⟨hm, rfl⟩ | ⟨hm, rfl⟩ | ⟨hm, hij, he⟩ | ⟨hm, hij, he⟩ | ⟨hm, rfl⟩
  · obtain ⟨rfl, hcell⟩ := plain_target_cell i j l "directed" (by decide) (by rw [hm]; rfl) _
      (hasAttrs_toIn ..) k hk
    exact ⟨hi, hj, hl, by rw [hm]; decide, hcell⟩
  · exact absurd hm (hP.noBwd i j l hi hj hl)
  · have hsm : symMark (P.mark i j l) := Or.inl hm
    obtain ⟨m1, -, -⟩ := hP.symMirrored i j l hi hj hl hsm
    obtain ⟨hk', hcell⟩ := sym_target_cell hP i j l hi hj hl hsm "undirected" (Or.inl rfl)
      (by rw [hm]; rfl) e0.toIn
      (by rcases he with rfl | rfl
          · exact Or.inl (hasAttrs_toIn ..)
          · exact Or.inr (hasAttrs_toIn ..)) k hk
    rcases hk' with rfl | rfl
    · exact ⟨hi, hj, hl, by rw [hm]; decide, hcell⟩
    · exact ⟨hj, hi, hl, by rw [m1, hm]; decide, hcell⟩
  · have hsm : symMark (P.mark i j l) := Or.inr hm
    obtain ⟨m1, -, -⟩ := hP.symMirrored i j l hi hj hl hsm
    obtain ⟨hk', hcell⟩ := sym_target_cell hP i j l hi hj hl hsm "conflicting" (Or.inr rfl)
      (by rw [hm]; rfl) e0.toIn
      (by rcases he with rfl | rfl
          · exact Or.inl (hasAttrs_toIn ..)
          · exact Or.inr (hasAttrs_toIn ..)) k hk
    rcases hk' with rfl | rfl
    · exact ⟨hi, hj, hl, by rw [hm]; decide, hcell⟩
    · exact ⟨hj, hi, hl, by rw [m1, hm]; decide, hcell⟩
  · obtain ⟨rfl, hcell⟩ := plain_target_cell i j l "possible_directed" (by decide)
      (by rw [hm]; rfl) _ (hasAttrs_toIn ..) k hk
    exact ⟨hi, hj, hl, by rw [hm]; decide, hcell⟩

/-- every in-range entry carrying a link is targeted by some produced edge -/
theorem exists_target (hP : PatternOK P) (hG : toGraph stdSem bin level P = .ok es)
    (i j l : Nat) (hi : i < P.N) (hj : j < P.N) (hl : l < P.Lp1) (hm : P.mark i j l ≠ "") :
    ∃ e0 ∈ es, (i, j, l) ∈ targets e0.toIn := by
  have hkn := ((toGraph_ok_iff bin level P es).1 hG).1 i j l hi hj hl
  rcases (knownMark_iff _).1 hkn with h | h | h | h | h | h
  · exact absurd h hm
  · refine ⟨mkE bin level i j l (P.val i j l) (P.p i j l) "directed",
      (mem_toGraph_table bin level P es hG _).2 ⟨i, j, l, hi, hj, hl, Or.inl ⟨h, rfl⟩⟩, ?_⟩
    rw [(hasAttrs_toIn ..).targets]; split_ifs <;> simp
  · exact absurd h (hP.noBwd i j l hi hj hl)
  · have hsm : symMark (P.mark i j l) := Or.inl h
    have hne : i ≠ j := by
      rintro rfl; exact hP.noSymDiag i l hi hl hsm
    obtain ⟨m1, -, -⟩ := hP.symMirrored i j l hi hj hl hsm
    rcases Nat.lt_or_gt_of_ne hne with hlt | hgt
    · refine ⟨mkE bin level i j l (P.val i j l) (P.p i j l) "undirected",
        (mem_toGraph_table bin level P es hG _).2 ⟨i, j, l, hi, hj, hl,
          Or.inr (Or.inr (Or.inl ⟨h, hlt, Or.inl rfl⟩))⟩, ?_⟩
      rw [(hasAttrs_toIn ..).targets]; split_ifs <;> simp
    · refine ⟨mkE bin level j i l (P.val j i l) (P.p j i l) "undirected",
        (mem_toGraph_table bin level P es hG _).2 ⟨j, i, l, hj, hi, hl,
          Or.inr (Or.inr (Or.inl ⟨by rw [m1, h], hgt, Or.inl rfl⟩))⟩, ?_⟩
      rw [(hasAttrs_toIn ..).targets, if_pos (show symTy "undirected" from Or.inl rfl)]; simp
  · have hsm : symMark (P.mark i j l) := Or.inr h
    have hne : i ≠ j := by
      rintro rfl; exact hP.noSymDiag i l hi hl hsm
    obtain ⟨m1, -, -⟩ := hP.symMirrored i j l hi hj hl hsm
    rcases Nat.lt_or_gt_of_ne hne with hlt | hgt
    · refine ⟨mkE bin level i j l (P.val i j l) (P.p i j l) "conflicting",
        (mem_toGraph_table bin level P es hG _).2 ⟨i, j, l, hi, hj, hl,
          Or.inr (Or.inr (Or.inr (Or.inl ⟨h, hlt, Or.inl rfl⟩)))⟩, ?_⟩
      rw [(hasAttrs_toIn ..).targets]; split_ifs <;> simp
    · refine ⟨mkE bin level j i l (P.val j i l) (P.p j i l) "conflicting",
        (mem_toGraph_table bin level P es hG _).2 ⟨j, i, l, hj, hi, hl,
          Or.inr (Or.inr (Or.inr (Or.inl ⟨by rw [m1, h], hgt, Or.inl rfl⟩)))⟩, ?_⟩
      rw [(hasAttrs_toIn ..).targets, if_pos (show symTy "conflicting" from Or.inr rfl)]; simp
  · refine ⟨mkE bin level i j l (P.val i j l) (P.p i j l) "possible_directed",
      (mem_toGraph_table bin level P es hG _).2 ⟨i, j, l, hi, hj, hl,
        Or.inr (Or.inr (Or.inr (Or.inr ⟨h, rfl⟩)))⟩, ?_⟩
    rw [(hasAttrs_toIn ..).targets]; split_ifs <;> simp

/-- produced edges have a known semantic type and an in-range lag -/
theorem produced_edge (hG : toGraph stdSem bin level P = .ok es) (e0 : PEdge) (he0 : e0 ∈ es) :
    KnownTy (ety e0.toIn) ∧ elag e0.toIn < P.Lp1 := by
  obtain ⟨i, j, l, hi, hj, hl, hc⟩ := (mem_toGraph_table bin level P es hG e0).1 he0
  rcases hc with ⟨-, rfl⟩ | ⟨-, rfl⟩ | ⟨-, -, rfl | rfl⟩ | ⟨-, -, rfl | rfl⟩ | ⟨-, rfl⟩ <;>
    exact ⟨by rw [(hasAttrs_toIn ..).ety]; decide, by rw [(hasAttrs_toIn ..).elag]; exact hl⟩

end PatternOK

/-- **C14 `pcmci_roundtrip_partial`**: for every pattern **without `'<--'`** whose symmetric marks
are mirrored with equal numbers and never sit on the diagonal (and any `binarize`/`level`): if
`pcmci_to_networkx` succeeds, then `networkx_to_pcmci` succeeds on the produced graph, its lag range
fits into the original one (`tau_max + 1 ≤ Lp1`), and at **every** in-range entry that carries a
link the mark, value and p-value of the original are reproduced; entries without a link come back
as the initial fill `("", 0, 1)`.

*Missing for the full statement of the property* (`_partial`): patterns containing `'<--'`. On the
pinned semantics a `'<--'` at `[i, j, τ]` comes back as `'-->'` at `[j, i, τ]` and `""` at
`[i, j, τ]` (witness `mirrored_pair_mark_lost` below), so the full statement is false; this is the
recorded known finding. -/
theorem pcmci_roundtrip_partial (bin : Bool) (level : Rat) (P : Pcmci) (es : List PEdge)
    (hP : PatternOK P) (hG : toGraph stdSem bin level P = .ok es) :
    ∃ r, toPcmci (es.map PEdge.toIn) = .ok r ∧ r.1 + 1 ≤ P.Lp1 ∧
      ∀ i j l, i < P.N → j < P.N → l < P.Lp1 →
        (P.mark i j l ≠ "" →
          r.2 i j l = { mark := P.mark i j l, val := P.val i j l, p := P.p i j l }) ∧
        (P.mark i j l = "" → r.2 i j l = emptyCell) := by
  have hknown : ∀ e ∈ es.map PEdge.toIn, KnownTy (ety e) := by
    intro e he
    obtain ⟨e0, he0, rfl⟩ := List.mem_map.1 he
    exact (produced_edge hG e0 he0).1
  obtain ⟨r, hr⟩ : ∃ r, toPcmci (es.map PEdge.toIn) = .ok r :=
    ⟨_, (toPcmci_ok_iff _ _).2 ⟨hknown, rfl⟩⟩
  have hr1 : r.1 = tauMax (es.map PEdge.toIn) := by rw [((toPcmci_ok_iff _ r).1 hr).2]
  refine ⟨r, hr, ?_, ?_⟩
  · rw [hr1]
    rcases tauMax_cases (es.map PEdge.toIn) with h | ⟨e, he, h⟩
    · rw [h]; exact hP.lagPos
    · obtain ⟨e0, he0, rfl⟩ := List.mem_map.1 he
      rw [← h]
      exact (produced_edge hG e0 he0).2
  · intro i j l hi hj hl
    constructor
    · intro hm
      refine cell_agree _ r (i, j, l) _ hr ?_ ?_
      · obtain ⟨e0, he0, ht⟩ := exists_target hP hG i j l hi hj hl hm
        exact ⟨e0.toIn, List.mem_map.2 ⟨e0, he0, rfl⟩, ht⟩
      · intro e he ht
        obtain ⟨e0, he0, rfl⟩ := List.mem_map.1 he
        exact (target_cell hP hG e0 he0 (i, j, l) ht).2.2.2.2
    · intro hm
      refine cell_empty _ r (i, j, l) hr ?_
      intro e he ht
      obtain ⟨e0, he0, rfl⟩ := List.mem_map.1 he
      exact (target_cell hP hG e0 he0 (i, j, l) ht).2.2.2.1 hm

/-! ## negative witnesses for the known finding -/

/-- 2 nodes, one lag slice: `'-->'` at `[0, 1, 0]` mirrored by `'<--'` at `[1, 0, 0]` — what
tigramite emits for the contemporaneous link `0 → 1` (value 3, p-value 0) -/
def mirroredPair : Pcmci :=
  { N := 2, Lp1 := 1,
    mark := fun i j _ => if i = 0 ∧ j = 1 then "-->" else if i = 1 ∧ j = 0 then "<--" else "",
    val := fun _ _ _ => 3, p := fun _ _ _ => 0 }

/-- the edge `0 → 1` at lag 0 -/
def edge01 : PEdge := ⟨0, 1, 0, 3, 0, "directed", none⟩

/-- **known finding (a)**: the single link of `mirroredPair` is represented by **two** parallel
edges `0 → 1` -/
theorem mirrored_pair_two_edges :
    toGraph stdSem false 0 mirroredPair = .ok [edge01, edge01] := by rfl

/-- … so "each link once" fails on this consistent pattern -/
theorem mirrored_pair_not_once : ¬ (([edge01, edge01] : List PEdge).map ekey).Nodup := by decide

example : ¬ NoMirroredArrows mirroredPair :=
  fun h => h 0 1 0 (by decide) (by decide) (by decide) ⟨by decide, by decide⟩

/-- **known finding (b)**: converting the produced graph back loses the `'<--'` mark: entry
`[1, 0, 0]` comes back empty (the `'-->'` at `[0, 1, 0]` is reproduced) -/
theorem mirrored_pair_mark_lost :
    ∃ r, toPcmci ([edge01, edge01].map PEdge.toIn) = .ok r ∧ r.1 = 0 ∧
      r.2 0 1 0 = { mark := "-->", val := 3, p := 0 } ∧ r.2 1 0 0 = emptyCell ∧
      mirroredPair.mark 1 0 0 = "<--" :=
  ⟨_, (toPcmci_ok_iff _ _).2 ⟨by decide, rfl⟩, by decide, by decide, by decide, by decide⟩

/-- a lone `'<--'` (no mirror) is converted correctly to the reverse edge, but does not come back
either: it returns as `'-->'` at the transposed entry -/
def loneBwd : Pcmci :=
  { N := 2, Lp1 := 1, mark := fun i j _ => if i = 1 ∧ j = 0 then "<--" else "",
    val := fun _ _ _ => 3, p := fun _ _ _ => 0 }

theorem lone_bwd_edge : toGraph stdSem false 0 loneBwd = .ok [edge01] := by rfl

theorem lone_bwd_comes_back_transposed :
    ∃ r, toPcmci ([edge01].map PEdge.toIn) = .ok r ∧
      r.2 0 1 0 = { mark := "-->", val := 3, p := 0 } ∧ r.2 1 0 0 = emptyCell :=
  ⟨_, (toPcmci_ok_iff _ _).2 ⟨by decide, rfl⟩, by decide, by decide⟩

/-! ## non-vacuity: concrete instances of the hypotheses of the main theorems -/

/-- 2 nodes × lags {0, 1}: a mirrored `'o-o'` at lag 0, and at lag 1 a self-link `0 → 0`, a link
`0 → 1` and a possible link `1 → 0` -/
def exP : Pcmci :=
  { N := 2, Lp1 := 2,
    mark := fun i j l =>
      if l = 0 then (if i = j then "" else "o-o")
      else if i = 0 ∧ j = 0 then "-->" else if i = 0 ∧ j = 1 then "-->"
      else if i = 1 ∧ j = 0 then "-?>" else "",
    val := fun i _ l => if l = 0 then 5 else if i = 0 then 7 else 2,
    p := fun _ _ l => if l = 0 then 0 else 1 }

def exEdges : List PEdge :=
  [⟨0, 0, 1, 7, 1, "directed", some false⟩, ⟨0, 1, 0, 5, 0, "undirected", some true⟩,
   ⟨1, 0, 0, 5, 0, "undirected", some true⟩, ⟨0, 1, 1, 7, 1, "directed", some false⟩,
   ⟨1, 0, 1, 2, 1, "possible_directed", some false⟩]

/-- `exP` satisfies the hypotheses of `pcmci_roundtrip_partial` (hence of `each_link_once`) -/
theorem exP_ok : PatternOK exP where
  lagPos := by decide
  noBwd := fun i j l hi hj hl =>
    (by decide : ∀ i, i < 2 → ∀ j, j < 2 → ∀ l, l < 2 → exP.mark i j l ≠ "<--") i hi j hj l hl
  symMirrored := fun i j l hi hj hl =>
    (by decide : ∀ i, i < 2 → ∀ j, j < 2 → ∀ l, l < 2 → symMark (exP.mark i j l) →
      exP.mark j i l = exP.mark i j l ∧ exP.val j i l = exP.val i j l ∧
      exP.p j i l = exP.p i j l) i hi j hj l hl
  noSymDiag := fun i l hi hl =>
    (by decide : ∀ i, i < 2 → ∀ l, l < 2 → ¬ symMark (exP.mark i i l)) i hi l hl

theorem exP_toGraph : toGraph stdSem true 1 exP = .ok exEdges := by rfl

example : (exEdges.map ekey).Nodup :=
  each_link_once_partial true 1 exP exEdges exP_toGraph exP_ok.noBwd

example : ∃ r, toPcmci (exEdges.map PEdge.toIn) = .ok r ∧ r.1 + 1 ≤ 2 ∧
    r.2 0 1 0 = { mark := "o-o", val := 5, p := 0 } ∧
    r.2 1 0 0 = { mark := "o-o", val := 5, p := 0 } ∧
    r.2 1 0 1 = { mark := "-?>", val := 2, p := 1 } ∧ r.2 1 1 1 = emptyCell := by
  obtain ⟨r, hr, hτ, hc⟩ := pcmci_roundtrip_partial true 1 exP exEdges exP_ok exP_toGraph
  exact ⟨r, hr, hτ, (hc 0 1 0 (by decide) (by decide) (by decide)).1 (by decide),
    (hc 1 0 0 (by decide) (by decide) (by decide)).1 (by decide),
    (hc 1 0 1 (by decide) (by decide) (by decide)).1 (by decide),
    (hc 1 1 1 (by decide) (by decide) (by decide)).2 (by decide)⟩

/-- a graph on 2 nodes: a mirrored undirected pair at lag 0, a directed edge `0 → 1` at lag 1 and a
possible self-link `1 → 1` at lag 2 (with an additional, ignored, `cmi` attribute) -/
def exG : List InEdge :=
  [⟨0, 1, some 0, some "undirected", some 5, none, some 0⟩,
   ⟨1, 0, some 0, some "undirected", some 5, none, some 0⟩,
   ⟨0, 1, some 1, some "directed", some 7, none, some 1⟩,
   ⟨1, 1, some 2, some "possible_directed", some 2, some 9, some 1⟩]

/-- `exG` satisfies the hypotheses of `graph_roundtrip` -/
theorem exG_ok : GraphOK 2 exG :=
  ⟨by decide, by decide, by decide, by decide, by decide⟩

example : ∃ r es', toPcmci exG = .ok r ∧ toGraph stdSem false 0 (pcmciOfCells 2 r) = .ok es' ∧
    (es'.map pkey).Perm (exG.map ikey) := by
  obtain ⟨r, es', h1, h2, -, h4⟩ := graph_roundtrip 2 exG exG_ok
  exact ⟨r, es', h1, h2, h4⟩

/-- the hypotheses of `mark_toPcmci` (last writer): in `[a, b]` with `a`, `b` parallel directed
edges `0 → 1` at lag 0 with different values, the cell is the one written by `b` -/
example : ∃ r, toPcmci [⟨0, 1, some 0, none, some 3, none, none⟩,
      ⟨0, 1, none, some "directed", none, some 4, some 0⟩] = .ok r ∧
    r.2 0 1 0 = { mark := "-->", val := 4, p := 0 } := by
  refine ⟨_, (toPcmci_ok_iff _ _).2 ⟨by decide, rfl⟩, ?_⟩
  exact (mark_toPcmci _ _ ((toPcmci_ok_iff _ _).2 ⟨by decide, rfl⟩) 0 1 0).1
    [⟨0, 1, some 0, none, some 3, none, none⟩] ⟨0, 1, none, some "directed", none, some 4, some 0⟩ []
    rfl (by decide) (by decide) (fun p1 e' p2 h => by simp at h)

/-- unknown mark / unknown link type raise `ValueError` -/
example : toGraph stdSem false 0 { mirroredPair with mark := fun _ _ _ => "<->" } =
    .error .valueError := by rfl
example : toPcmci [⟨0, 1, some 0, some "bidirected", some 3, none, none⟩] =
    .error .valueError := by rfl

end CE.Graph.C14
