import CEProofs.C10Geom
import CEProofs.C12Svd

/-! # C10 (geometric k-NN part) for the real SVD-based correction: no hypothesis about `corr`

`CEProofs/C10Geom.lean` proves the X↔Y exchange and Z-column-order laws of the geometric k-NN MI/CMI
under the hypothesis `CorrColPermInv E` (the local correction does not depend on the order of the
coordinates of the local configuration). Here that hypothesis is PROVED for the real environment
`envSvd` of `CEProofs/C12Svd.lean` (`log = Real.log`, `sqrt = Real.sqrt`, `corr = corrMath`: Mathlib
singular values + basis-free ellipsoid test, the code's `1e-12` guards):

* `colPerm_eq_rotOf`: the coordinate rearrangement `r ↦ r[idx]` is `rotOf (permQ d idx)`, the row
  map of the permutation matrix `permQ d idx`; `permQ_orth`: that matrix is orthogonal;
* `corrColPermInv_envSvd : CorrColPermInv envSvd` (from `corrMath_rot`);
* `H_colperm_real`, `geomMI_swap_xy_real`, `clamp_geomMI_swap_xy_real`, `geomCMI_swap_xy_real`,
  `geomCMI_z_col_perm_real`: the five `_partial` theorems at `envSvd`. The only hypotheses left are
  the constant row widths of the sample blocks (and `idx` being an arrangement of `0..d−1`): no
  tie-freeness, guard, generic-position or `k` hypothesis. `logN` and the constants `c` are arbitrary.

What is modelled, not proved (as for `geom_laws_real`): that LAPACK's floating-point SVD returns
the mathematical singular values / a right singular basis (`inEll_iff_svd_sum`,
`CEProofs/C12Spectral.lean`). -/

set_option linter.unusedSectionVars false

namespace CE.Geom
open CE.Kde CE.Svd Matrix

/-! ### a coordinate rearrangement is the orthogonal map of a permutation matrix -/

/-- the permutation matrix of the arrangement `idx`: row `i` is the unit vector `e_{idx[i]}` -/
def permQ (d : ℕ) (idx : List ℕ) : Matrix (Fin d) (Fin d) ℝ :=
  Matrix.of fun i j => if idx.getD i 0 = (j : ℕ) then 1 else 0

theorem perm_range_facts {d : ℕ} {idx : List ℕ} (hidx : idx.Perm (List.range d)) :
    idx.length = d ∧ (∀ i, i < d → idx.getD i 0 < d) ∧ idx.Nodup := by
  have hlen : idx.length = d := by simpa using hidx.length_eq
  refine ⟨hlen, ?_, hidx.nodup_iff.mpr List.nodup_range⟩
  intro i hi
  rw [List.getD_eq_getElem _ _ (by omega)]
  exact List.mem_range.mp (hidx.subset (List.getElem_mem _))

theorem permQ_mulVec {d : ℕ} {idx : List ℕ} (hidx : idx.Perm (List.range d)) (v : Fin d → ℝ)
    (i : Fin d) : (permQ d idx *ᵥ v) i = v ⟨idx.getD i 0, (perm_range_facts hidx).2.1 i i.2⟩ := by
  simp only [Matrix.mulVec, dotProduct, permQ, Matrix.of_apply, ite_mul, one_mul, zero_mul]
  rw [Finset.sum_eq_single ⟨idx.getD i 0, (perm_range_facts hidx).2.1 i i.2⟩]
  · simp
  · intro j _ hj
    rw [if_neg]
    intro h
    exact hj (Fin.ext h.symm)
  · simp

/-- **colPerm_eq_rotOf.** On rows over ℝ the coordinate rearrangement `r ↦ r[idx]` of `C10Geom.lean`
IS the map `rotOf (permQ d idx)` of `C12Svd.lean` (as functions, on rows of any length). -/
theorem colPerm_eq_rotOf {d : ℕ} {idx : List ℕ} (hidx : idx.Perm (List.range d)) :
    (colPerm idx : List ℝ → List ℝ) = rotOf (permQ d idx) := by
  obtain ⟨hlen, hlt, _⟩ := perm_range_facts hidx
  funext r
  apply List.ext_getElem
  · rw [colPerm_length, rotOf_length, hlen]
  · intro i h1 h2
    have hi : i < d := by rw [rotOf_length] at h2; exact h2
    simp only [colPerm, rotOf, List.getElem_map, List.getElem_ofFn]
    rw [permQ_mulVec hidx _ ⟨i, hi⟩]
    simp only [vecOf]
    rw [List.getD_eq_getElem idx 0 (by omega)]

/-- **permQ_orth.** The permutation matrix is orthogonal. -/
theorem permQ_orth {d : ℕ} {idx : List ℕ} (hidx : idx.Perm (List.range d)) :
    (permQ d idx)ᵀ * permQ d idx = 1 := by
  obtain ⟨hlen, hlt, hnd⟩ := perm_range_facts hidx
  apply mul_eq_one_comm.mp
  ext i i'
  rw [Matrix.mul_apply]
  simp only [permQ, Matrix.transpose_apply, Matrix.of_apply, Matrix.one_apply]
  have e : ∀ j : Fin d, ((if idx.getD i 0 = (j : ℕ) then (1 : ℝ) else 0)
        * (if idx.getD i' 0 = (j : ℕ) then 1 else 0))
      = if (⟨idx.getD i 0, hlt i i.2⟩ : Fin d) = j then (if idx.getD i' 0 = idx.getD i 0 then 1 else 0)
        else 0 := by
    intro j
    by_cases h : idx.getD i 0 = (j : ℕ)
    · rw [if_pos h, if_pos (Fin.ext h), one_mul, h]
    · rw [if_neg h, if_neg (fun h' => h (congrArg Fin.val h')), zero_mul]
  rw [Finset.sum_congr rfl (fun j _ => e j), Finset.sum_ite_eq, if_pos (Finset.mem_univ _)]
  rw [List.getD_eq_getElem idx 0 (by omega : (i : ℕ) < idx.length),
    List.getD_eq_getElem idx 0 (by omega : (i' : ℕ) < idx.length)]
  by_cases hii : i = i'
  · subst hii; simp
  · rw [if_neg hii, if_neg]
    intro h
    exact hii (Fin.ext ((hnd.getElem_inj_iff).mp h).symm)

/-- **corrColPermInv_envSvd.** The hypothesis of the `_partial` theorems of `C10Geom.lean` holds for
the mathematical SVD-based correction. -/
theorem corrColPermInv_envSvd : CorrColPermInv envSvd := by
  intro d idx hidx Y Z hY _
  rw [colPerm_eq_rotOf hidx]
  exact corrMath_rot (permQ d idx) (permQ_orth hidx) Y Z hY

/-! ### the five laws at `envSvd` -/

/-- **H_colperm_real.** The block entropy (real instance) is unchanged when the columns of a block of
constant row width `d` are rearranged by an arrangement `idx` of `0..d−1`. -/
theorem H_colperm_real (logN : ℝ) (c : Consts ℝ) (S : List (List ℝ)) (k d : ℕ)
    (hS : ∀ r ∈ S, r.length = d) (idx : List ℕ) (hidx : idx.Perm (List.range d)) :
    H envSvd logN c (S.map (colPerm idx)) k = H envSvd logN c S k :=
  H_colperm_partial envSvd corrColPermInv_envSvd logN c S k d hS idx hidx

/-- **geomMI_swap_xy_real.** `geomMI … Y X = geomMI … X Y` for sample matrices of constant row widths. -/
theorem geomMI_swap_xy_real (logN : ℝ) (c : Consts ℝ) (X Y : List (List ℝ)) (k dx dy : ℕ)
    (hX : ∀ x ∈ X, x.length = dx) (hY : ∀ y ∈ Y, y.length = dy) :
    geomMI envSvd logN c Y X k = geomMI envSvd logN c X Y k :=
  geomMI_swap_xy_partial envSvd corrColPermInv_envSvd logN c X Y k dx dy hX hY

/-- **clamp_geomMI_swap_xy_real.** … also after the final clamp `max(0, ·)` of
`geometric_knn_mutual_information`. -/
theorem clamp_geomMI_swap_xy_real (logN : ℝ) (c : Consts ℝ) (X Y : List (List ℝ)) (k dx dy : ℕ)
    (hX : ∀ x ∈ X, x.length = dx) (hY : ∀ y ∈ Y, y.length = dy) :
    clampMI (geomMI envSvd logN c Y X k) = clampMI (geomMI envSvd logN c X Y k) :=
  clamp_geomMI_swap_xy_partial envSvd corrColPermInv_envSvd logN c X Y k dx dy hX hY

/-- **geomCMI_swap_xy_real.** `geomCMI … Y X Z = geomCMI … X Y Z`. -/
theorem geomCMI_swap_xy_real (logN : ℝ) (c : Consts ℝ) (X Y Z : List (List ℝ)) (k dx dy dz : ℕ)
    (hX : ∀ x ∈ X, x.length = dx) (hY : ∀ y ∈ Y, y.length = dy) (hZ : ∀ z ∈ Z, z.length = dz) :
    geomCMI envSvd logN c Y X Z k = geomCMI envSvd logN c X Y Z k :=
  geomCMI_swap_xy_partial envSvd corrColPermInv_envSvd logN c X Y Z k dx dy dz hX hY hZ

/-- **geomCMI_z_col_perm_real.** Rearranging the columns of the conditioning matrix `Z`
(`Z[:, idx]`) leaves `geomCMI` unchanged. -/
theorem geomCMI_z_col_perm_real (logN : ℝ) (c : Consts ℝ) (X Y Z : List (List ℝ)) (k dx dy dz : ℕ)
    (hX : ∀ x ∈ X, x.length = dx) (hY : ∀ y ∈ Y, y.length = dy) (hZ : ∀ z ∈ Z, z.length = dz)
    (idx : List ℕ) (hidx : idx.Perm (List.range dz)) :
    geomCMI envSvd logN c X Y (Z.map (colPerm idx)) k = geomCMI envSvd logN c X Y Z k :=
  geomCMI_z_col_perm_partial envSvd corrColPermInv_envSvd logN c X Y Z k dx dy dz hX hY hZ idx hidx

/-! ### non-vacuity: the sample of `C10Geom.lean` over ℝ (`N = 4`, `k = 2`, `dx = 1`, `dy = dz = 2`) -/

section examples

noncomputable def Xr : List (List ℝ) := [[0], [1], [3], [7]]
noncomputable def Yr : List (List ℝ) := [[0, 5], [2, 7], [1, 1], [6, 2]]
noncomputable def Zr : List (List ℝ) := [[2, 9], [1, 4], [1, 7], [7, 7]]
/-- `d ↦ (log c_d, d / N)` with any stand-in for `log c_d` -/
noncomputable def cr : Consts ℝ := fun d => (Real.log (d + 1), d / 4)

theorem Xr_w : ∀ x ∈ Xr, x.length = 1 := by simp [Xr]
theorem Yr_w : ∀ y ∈ Yr, y.length = 2 := by simp [Yr]
theorem Zr_w : ∀ z ∈ Zr, z.length = 2 := by simp [Zr]

example : geomMI envSvd (Real.log 4) cr Yr Xr 2 = geomMI envSvd (Real.log 4) cr Xr Yr 2 :=
  geomMI_swap_xy_real _ cr Xr Yr 2 1 2 Xr_w Yr_w

example : clampMI (geomMI envSvd (Real.log 4) cr Yr Xr 2)
    = clampMI (geomMI envSvd (Real.log 4) cr Xr Yr 2) :=
  clamp_geomMI_swap_xy_real _ cr Xr Yr 2 1 2 Xr_w Yr_w

example : geomCMI envSvd (Real.log 4) cr Yr Xr Zr 2 = geomCMI envSvd (Real.log 4) cr Xr Yr Zr 2 :=
  geomCMI_swap_xy_real _ cr Xr Yr Zr 2 1 2 2 Xr_w Yr_w Zr_w

example : geomCMI envSvd (Real.log 4) cr Xr Yr (Zr.map (colPerm [1, 0])) 2
    = geomCMI envSvd (Real.log 4) cr Xr Yr Zr 2 :=
  geomCMI_z_col_perm_real _ cr Xr Yr Zr 2 1 2 2 Xr_w Yr_w Zr_w [1, 0] (by decide)

example : H envSvd (Real.log 4) cr (Yr.map (colPerm [1, 0])) 2 = H envSvd (Real.log 4) cr Yr 2 :=
  H_colperm_real _ cr Yr 2 2 Yr_w [1, 0] (by decide)

/-- the transformed samples really are different matrices -/
example : hcat Yr Xr = [[0, 5, 0], [2, 7, 1], [1, 1, 3], [6, 2, 7]]
    ∧ hcat Xr Yr = [[0, 0, 5], [1, 2, 7], [3, 1, 1], [7, 6, 2]]
    ∧ Zr.map (colPerm [1, 0]) = [[9, 2], [4, 1], [7, 1], [7, 7]] := by
  simp [hcat, Xr, Yr, Zr, colPerm]

/-- the permutation matrix of the exchange of two coordinates, and its action -/
example : permQ 2 [1, 0] = !![0, 1; 1, 0] := by
  ext i j
  fin_cases i <;> fin_cases j <;> simp [permQ]

example : rotOf (permQ 2 [1, 0]) [9, 2] = colPerm [1, 0] ([9, 2] : List ℝ) :=
  (congrFun (colPerm_eq_rotOf (d := 2) (idx := [1, 0]) (by decide)) [9, 2]).symm

end examples

end CE.Geom
