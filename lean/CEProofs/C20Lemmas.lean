import CEModel.Plot
import Mathlib.Data.List.Perm.Basic
import Mathlib.Data.List.Basic
import Mathlib.Data.List.Nodup
import Mathlib.Tactic.Linarith
import Mathlib.Tactic.FieldSimp
import Mathlib.Tactic.Ring
import Mathlib.Tactic.Positivity
import Mathlib.Tactic.NormNum

/-! # C20 — helper lemmas

Generic list facts used by `CEProofs/C20.lean`: the `seen`-set de-duplication, the two proposal
moves of the layout optimiser, `eraseDups`, `idxOf?`, the list maximum `maxR`. -/
namespace CE.Plot.C20
open CE.Plot List

/-! ## `dedup` (the `seen` set of `_communities_seed_order`) -/

theorem dedup_nil (seen : List Nat) : dedup seen [] = [] := by simp [dedup]

theorem dedup_cons_pos (seen ns : List Nat) (n : Nat) (h : seen.contains n = true) :
    dedup seen (n :: ns) = dedup seen ns := by
  rw [dedup, if_pos h]

theorem dedup_cons_neg (seen ns : List Nat) (n : Nat) (h : ¬ seen.contains n = true) :
    dedup seen (n :: ns) = n :: dedup (n :: seen) ns := by
  rw [dedup, if_neg h]

/-- an element survives the de-duplication iff it occurs in the input and was not already seen -/
theorem mem_dedup (seen l : List Nat) (x : Nat) : x ∈ dedup seen l ↔ x ∈ l ∧ x ∉ seen := by
  induction l generalizing seen with
  | nil => simp [dedup]
  | cons n ns ih =>
    unfold dedup
    by_cases h : seen.contains n = true
    · rw [if_pos h, ih]
      have hn : n ∈ seen := by simpa using h
      constructor
      · rintro ⟨h1, h2⟩; exact ⟨List.mem_cons_of_mem _ h1, h2⟩
      · rintro ⟨h1, h2⟩
        rcases List.mem_cons.mp h1 with rfl | h1
        · exact absurd hn h2
        · exact ⟨h1, h2⟩
    · rw [if_neg h]
      have hn : n ∉ seen := by simpa using h
      rw [List.mem_cons, ih]
      constructor
      · rintro (rfl | ⟨h1, h2⟩)
        · exact ⟨List.mem_cons_self, hn⟩
        · exact ⟨List.mem_cons_of_mem _ h1, fun h3 => h2 (List.mem_cons_of_mem _ h3)⟩
      · rintro ⟨h1, h2⟩
        by_cases hx : x = n
        · exact Or.inl hx
        · right
          rcases List.mem_cons.mp h1 with h1 | h1
          · exact absurd h1 hx
          · refine ⟨h1, fun h3 => ?_⟩
            rcases List.mem_cons.mp h3 with h3 | h3
            · exact hx h3
            · exact h2 h3

/-- the de-duplicated list has no repeated entry, whatever the input and the initial `seen` -/
theorem nodup_dedup (seen l : List Nat) : (dedup seen l).Nodup := by
  induction l generalizing seen with
  | nil => simp [dedup]
  | cons n ns ih =>
    unfold dedup
    by_cases h : seen.contains n = true
    · rw [if_pos h]; exact ih _
    · rw [if_neg h]
      refine List.nodup_cons.mpr ⟨?_, ih _⟩
      rw [mem_dedup]
      rintro ⟨_, h2⟩
      exact h2 List.mem_cons_self

/-- de-duplication only deletes entries: the survivors keep their relative order -/
theorem dedup_sublist (seen l : List Nat) : (dedup seen l).Sublist l := by
  induction l generalizing seen with
  | nil => simp [dedup]
  | cons n ns ih =>
    unfold dedup
    by_cases h : seen.contains n = true
    · rw [if_pos h]; exact (ih _).cons _
    · rw [if_neg h]; exact (ih _).cons_cons _

/-- `dedup` depends on `seen` only as a set -/
theorem dedup_congr (s s' l : List Nat) (h : ∀ x, x ∈ s ↔ x ∈ s') : dedup s l = dedup s' l := by
  induction l generalizing s s' with
  | nil => simp [dedup]
  | cons n ns ih =>
    unfold dedup
    have hc : s.contains n = s'.contains n := by
      rw [Bool.eq_iff_iff]; simpa using h n
    rw [hc]
    by_cases h' : s'.contains n = true
    · rw [if_pos h', if_pos h']; exact ih _ _ h
    · rw [if_neg h', if_neg h']
      congr 1
      apply ih
      intro x; simp only [List.mem_cons, h x]

/-- de-duplicating a concatenation: the second part is filtered against everything seen so far -/
theorem dedup_append (s a b : List Nat) : dedup s (a ++ b) = dedup s a ++ dedup (a ++ s) b := by
  induction a generalizing s with
  | nil => simp [dedup]
  | cons n ns ih =>
    simp only [List.cons_append]
    by_cases h : s.contains n = true
    · rw [dedup_cons_pos _ _ _ h, dedup_cons_pos _ _ _ h, ih]
      congr 1
      apply dedup_congr
      intro x
      have hn : n ∈ s := by simpa using h
      simp only [List.mem_append, List.mem_cons]
      constructor
      · intro h1; exact Or.inr h1
      · rintro (rfl | h1)
        · exact Or.inr hn
        · exact h1
    · rw [dedup_cons_neg _ _ _ h, dedup_cons_neg _ _ _ h, ih, List.cons_append]
      congr 2
      apply dedup_congr
      intro x
      simp only [List.mem_append, List.mem_cons]
      tauto

/-- on a duplicate-free list `dedup` is just the filter "not seen yet" -/
theorem dedup_of_nodup (s l : List Nat) (hl : l.Nodup) :
    dedup s l = l.filter (fun n => !s.contains n) := by
  induction l generalizing s with
  | nil => simp [dedup]
  | cons n ns ih =>
    unfold dedup
    have hn := List.nodup_cons.mp hl
    by_cases h : s.contains n = true
    · rw [if_pos h, List.filter_cons_of_neg (by simpa using h)]; exact ih _ hn.2
    · rw [if_neg h, List.filter_cons_of_pos (by simpa using h), ih _ hn.2]
      congr 1
      apply List.filter_congr
      intro x hx
      have : x ≠ n := fun e => hn.1 (e ▸ hx)
      simp [this]

/-! ## the two proposal moves -/

theorem revBlock_perm (l : List Nat) (i j : Nat) : (revBlock l i j).Perm l := by
  unfold revBlock
  have h1 : (((l.drop i).take (j + 1 - i)).reverse).Perm ((l.drop i).take (j + 1 - i)) :=
    List.reverse_perm _
  calc l.take i ++ ((l.drop i).take (j + 1 - i)).reverse ++ (l.drop i).drop (j + 1 - i)
      = l.take i ++ (((l.drop i).take (j + 1 - i)).reverse ++ (l.drop i).drop (j + 1 - i)) := by
        rw [List.append_assoc]
    _ ~ l.take i ++ (((l.drop i).take (j + 1 - i)) ++ (l.drop i).drop (j + 1 - i)) :=
        List.Perm.append_left _ (List.Perm.append_right _ h1)
    _ = l := by rw [List.take_append_drop, List.take_append_drop]

theorem swapAt_perm (l : List Nat) (i j : Nat) : (swapAt l i j).Perm l := by
  unfold swapAt
  split
  · rename_i a b ha hb
    by_cases hij : i = j
    · subst hij
      have : a = b := by rw [ha] at hb; exact Option.some.inj hb
      subst this
      have hi : i < l.length := (List.getElem?_eq_some_iff.mp ha).1
      have e1 : l.set i a = l := by
        apply List.ext_getElem (by simp)
        intro n h1 h2
        by_cases hn : i = n
        · subst hn; simp [(List.getElem?_eq_some_iff.mp ha).2]
        · simp [hn]
      rw [e1, e1]
    · rw [List.perm_iff_count]
      intro x
      have hi : i < l.length := (List.getElem?_eq_some_iff.mp ha).1
      have hj : j < l.length := (List.getElem?_eq_some_iff.mp hb).1
      have hai : l[i] = a := (List.getElem?_eq_some_iff.mp ha).2
      have hbj : l[j] = b := (List.getElem?_eq_some_iff.mp hb).2
      have hj' : j < (l.set i b).length := by simpa using hj
      rw [List.count_set (h := hj'), List.count_set (h := hi)]
      have hget : (l.set i b)[j] = b := by
        rw [List.getElem_set]; simp [hij, hbj]
      rw [hget, hai]
      have hca : 0 < List.count a l := List.count_pos_iff.mpr (hai ▸ List.getElem_mem hi)
      have hcb : 0 < List.count b l := List.count_pos_iff.mpr (hbj ▸ List.getElem_mem hj)
      by_cases hxa : a = x
      · subst hxa
        by_cases hxb : b = a
        · subst hxb; simp; omega
        · simp [hxb]; omega
      · by_cases hxb : b = x
        · subst hxb; simp [hxa]
        · simp [hxa, hxb]
  · exact List.Perm.refl _

/-- the swap really exchanges the two entries (for in-range indices, as `random.sample` gives) -/
theorem swapAt_getElem (l : List Nat) (i j : Nat) (hi : i < l.length) (hj : j < l.length) :
    (swapAt l i j)[i]? = l[j]? ∧ (swapAt l i j)[j]? = l[i]? ∧
      ∀ k, k ≠ i → k ≠ j → (swapAt l i j)[k]? = l[k]? := by
  unfold swapAt
  rw [List.getElem?_eq_getElem hi, List.getElem?_eq_getElem hj]
  simp only
  refine ⟨?_, ?_, ?_⟩
  · by_cases hij : i = j
    · subst hij; simp [hi]
    · rw [List.getElem?_set_ne (Ne.symm hij), List.getElem?_set_self (by simpa using hi)]
  · rw [List.getElem?_set_self (by simpa using hj)]
  · intro k hki hkj
    rw [List.getElem?_set_ne (Ne.symm hkj), List.getElem?_set_ne (Ne.symm hki)]

/-! ## `eraseDups` -/

theorem nodup_eraseDups : ∀ (l : List Int), l.eraseDups.Nodup
  | [] => by simp
  | a :: as => by
    rw [List.eraseDups_cons]
    have : (as.filter fun b => !b == a).length < as.length + 1 :=
      Nat.lt_succ_of_le (List.length_filter_le _ as)
    refine List.nodup_cons.mpr ⟨?_, nodup_eraseDups _⟩
    rw [List.mem_eraseDups, List.mem_filter]
    simp
termination_by l => l.length

/-! ## `mergeSort` on integers -/

theorem pairwise_mergeSort_int (l : List Int) :
    (l.mergeSort (fun a b => decide (a ≤ b))).Pairwise (· ≤ ·) := by
  have := List.pairwise_mergeSort (le := fun (a b : Int) => decide (a ≤ b))
    (fun a b c hab hbc => by
      simp only [decide_eq_true_eq] at *; omega)
    (fun a b => by
      simp only [Bool.or_eq_true, decide_eq_true_eq]; omega) l
  exact this.imp (fun h => by simpa using h)

/-- the sorted permutation is unique: a way to evaluate `mergeSort` on concrete lists -/
theorem mergeSort_int_eq (l l' : List Int) (hp : l'.Perm l) (hs : l'.Pairwise (· ≤ ·)) :
    l.mergeSort (fun a b => decide (a ≤ b)) = l' :=
  List.Perm.eq_of_pairwise (le := (· ≤ ·)) (fun _ _ _ _ h1 h2 => Int.le_antisymm h1 h2)
    (pairwise_mergeSort_int l) hs ((List.mergeSort_perm _ _).trans hp.symm)

/-! ## `idxOf?` versus `idxOf` -/

theorem idxOf?_eq_some_iff_idxOf (l : List Int) (a : Int) (k : Nat) :
    l.idxOf? a = some k ↔ a ∈ l ∧ l.idxOf a = k := by
  induction l generalizing k with
  | nil => simp
  | cons x xs ih =>
    rw [List.idxOf?_cons, List.idxOf_cons]
    by_cases h : x = a
    · subst h; simp [eq_comm]
    · have h' : (x == a) = false := by simpa using h
      simp only [h', Bool.false_eq_true, if_false, cond_false, Option.map_eq_some_iff,
        List.mem_cons]
      constructor
      · rintro ⟨m, hm, rfl⟩
        obtain ⟨h1, h2⟩ := (ih m).mp hm
        exact ⟨Or.inr h1, by rw [h2]⟩
      · rintro ⟨h1 | h1, h2⟩
        · exact absurd h1.symm h
        · exact ⟨xs.idxOf a, (ih _).mpr ⟨h1, rfl⟩, h2⟩

/-- in a strictly increasing list the smaller element comes first -/
theorem idxOf_lt_of_sorted (l : List Int) (hs : l.Pairwise (· < ·)) (a b : Int)
    (ha : a ∈ l) (hb : b ∈ l) (hab : a < b) : l.idxOf a < l.idxOf b := by
  by_contra hcon
  have hle : l.idxOf b ≤ l.idxOf a := not_lt.mp hcon
  have hia : l.idxOf a < l.length := List.idxOf_lt_length_iff.mpr ha
  have hib : l.idxOf b < l.length := List.idxOf_lt_length_iff.mpr hb
  rcases Nat.lt_or_eq_of_le hle with h | h
  · have := (List.pairwise_iff_getElem.mp hs) _ _ hib hia h
    rw [List.getElem_idxOf hib, List.getElem_idxOf hia] at this
    omega
  · have := (List.idxOf_inj hb).mp h
    omega

/-! ## `maxR` -/

theorem maxR_cons_cons (a b : Rat) (l : List Rat) : maxR (a :: b :: l) = max a (maxR (b :: l)) := rfl

theorem le_maxR (l : List Rat) (x : Rat) (hx : x ∈ l) : x ≤ maxR l := by
  induction l with
  | nil => simp at hx
  | cons a as ih =>
    cases as with
    | nil => simp at hx; subst hx; exact le_refl _
    | cons b bs =>
      rw [maxR_cons_cons]
      rcases List.mem_cons.mp hx with rfl | h
      · exact le_max_left _ _
      · exact le_trans (ih h) (le_max_right _ _)

/-- the maximum of a non-empty list is attained -/
theorem maxR_mem (l : List Rat) (hl : l ≠ []) : maxR l ∈ l := by
  induction l with
  | nil => exact absurd rfl hl
  | cons a as ih =>
    cases as with
    | nil => simp [maxR]
    | cons b bs =>
      rw [maxR_cons_cons]
      rcases max_choice a (maxR (b :: bs)) with h | h
      · rw [h]; exact List.mem_cons_self
      · rw [h]; exact List.mem_cons_of_mem _ (ih (by simp))

end CE.Plot.C20
