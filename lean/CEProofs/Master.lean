import CEProofs.C01
import CEProofs.C02
import CEProofs.C03
import CEProofs.C06
import CEProofs.SelNodup

/-! # Master — end-to-end theorems about `discover` (C01 ∘ C02 ∘ C03 ∘ C06)

The per-property files prove facts about *pieces* of the model: C02 about `ocseStd` / `ocseAlt` for
abstract oracles, C01 about the two loops of `discover`, C03 about `shuffleTest`, C06 about the
well-formedness of the graph. This file composes them into statements about `CE.Disc.discover`
itself — the function that the correspondence check replays against `discover_network` — for
**every** parameter record, estimator `est`, permutation stream `perms`, series `s` and sizes
`T`, `n`, `L`, and for both oCSE variants (`std = true`: `method="standard"`, `std = false`:
`method="alternative"`).

## The objects of one run (all defined with the model's own functions)

For target `i` (`orc i = oraclesOf est perms s L T nShuffles i` are its concrete oracles):

* `startAt i`   — stream entries consumed before target `i` is started (`Loop.drawsBefore`);
* `fwdAt i`     — state after the forward phase: `.evs` forward tests, `.S` forward set `F_i`,
                  `.c` the stream index of the **backward draw** `c_bwd`;
* `selAt i`     — state after the backward phase (`Loop.stAt`): `.S` the selected set (`= r.sel[i]`),
                  `.c` the stream index at which the edge loop of `i` starts;
* `bwdEvsAt i`  — the backward tests; `edgesAt i`, `edgeEvsAt i` — the edges into `i` and their tests.

## The permutation hypothesis (`PermOK`, the only hypothesis that is not a guard of the code)

    PermOK … std i  :=  (perms (fwdAt … std i).c).Perm (fwdAt … std i).S

i.e. the stream entry read by `backward` as its visiting order is a permutation of the forward set
of that target. The real code obtains it as `rng.permutation(S_init)`, so it holds on every run of
the implementation; the harness checks it on every recorded run (`permOK_standard_iff`,
`permOK_alternative_iff` spell it out with `fwdStd` / `fwdAlt` / `drawsBefore` only, and
`fwdAt_c_standard` gives the index in closed form: `c_bwd = startAt i + n·L·nShuffles`).

## Theorems

* `discover_target_spec` (+ `_standard`, `_alternative`, `discover_target_ocseSpec`) — (1)
* `discover_parent_tests` (+ `discover_parent_tests_explicit`: the same without auxiliary
  definitions, `shuffleTest est … permute … perms` written out), `discover_parent_p_le` — (2)
* `discover_edges_of_survivors` — (3)
* `discover_spec : DiscoverSpec … r` — everything in one record, with C06's `edge_wf` and
  `no_duplicate_triple`
* `example_standard`, `example_alternative` — fully evaluated concrete runs (`n = 2`, `L = 2`,
  `T = 7`, 3 shuffles) on which all hypotheses hold. (The kernel cannot unfold the well-founded
  `mergeSort` inside `percentile`; §6 replaces it by the provably equal insertion sort, after which
  `decide +kernel` evaluates both oCSE variants completely.) -/
namespace CE.Disc.Master
open CE.Disc CE.Disc.Loop

/-! ## 0. General facts -/

/-- the verdict of the test at position `pre.length` of a consulted trace is the oracle's answer at
counter `c + pre.length * cost` -/
theorem consulted_at {o : Oracles} : ∀ (pre : List Ev) {c c' : Nat} {e : Ev} {post : List Ev},
    Consulted o c (pre ++ e :: post) c' →
      (e.pass, e.p) = o.test (c + pre.length * o.cost) e.level e.cand e.cond e.obs
  | [], c, c', e, post, h => by
      simp only [List.nil_append] at h
      cases h with
      | cons hv _ => simpa using hv
  | p :: pre, c, c', e, post, h => by
      simp only [List.cons_append] at h
      cases h with
      | cons _ hrest =>
        have hc : c + o.cost + pre.length * o.cost = c + (p :: pre).length * o.cost := by
          rw [List.length_cons, Nat.add_mul]; omega
        rw [consulted_at pre hrest, hc]

/-- `shuffle_test` on the `nSh` stream entries `perms c, …, perms (c+nSh-1)`: the null values are
`est (X∘π) Y Z`, one per entry, only the predictor column being permuted -/
theorem shuffleTest_stream (est : Est) (perms : Nat → List Nat) (nSh c : Nat) (x y : Col)
    (z : List Col) (obs : Val) (α : Rat) :
    shuffleTest est ((List.range nSh).map (fun k => perms (c + k))) x y z obs α =
      decideTest ((List.range nSh).map (fun k => est (permute x (perms (c + k))) y z)) obs α := by
  simp only [shuffleTest, List.map_map, Function.comp_def]

/-- C03's coherence (`pass_imp_p_le`) for any observed value (finite or not): if all surrogate
values are finite and the test passes then `p ≤ α + 1/n` -/
theorem shuffleTest_pass_p_le (est : Est) (pl : List (List Nat)) (x y : Col) (z : List Col)
    (obs : Val) (α : Rat) (hn : 1 ≤ pl.length) (hα0 : 0 < α) (hα1 : α < 1)
    (hfin : ∀ π ∈ pl, ∃ q, est (permute x π) y z = Val.fin q)
    (hpass : (shuffleTest est pl x y z obs α).pass = true) :
    (shuffleTest est pl x y z obs α).p ≤ α + 1 / (pl.length : Rat) := by
  obtain ⟨null, hnull⟩ := C03.exists_rat_list (pl.map (fun π => est (permute x π) y z)) (by
    intro v hv
    obtain ⟨π, hπ, rfl⟩ := List.mem_map.mp hv
    exact hfin π hπ)
  have hlen : null.length = pl.length := by
    have := congrArg List.length hnull
    simpa using this.symm
  have hn' : 1 ≤ null.length := by omega
  unfold shuffleTest at hpass ⊢
  rw [hnull] at hpass ⊢
  rw [← hlen]
  cases obs with
  | fin q => exact pass_imp_p_le null hn' q α hα0 hα1 hpass
  | nan => rw [decideTest_nan_rejected] at hpass; cases hpass
  | ninf =>
    have h0 : ∀ t, Val.gt Val.ninf t = false := by intro t; cases t <;> rfl
    change Val.gt Val.ninf _ = true at hpass
    rw [h0] at hpass
    cases hpass
  | pinf =>
    have hp : (decideTest (null.map Val.fin) Val.pinf α).p = 0 := by
      have : (null.map Val.fin).countP (fun v => Val.ge v Val.pinf) = 0 := by
        rw [List.countP_eq_zero]
        intro v hv
        obtain ⟨q, -, rfl⟩ := List.mem_map.mp hv
        simp [Val.ge, Val.le]
      simp [decideTest, this]
    rw [hp]
    have : (0 : Rat) < (null.length : Rat) := by exact_mod_cast hn'
    positivity

/-! ## 1. The objects of one run -/

/-- the `method=` string of the two oCSE variants -/
def methodName : Bool → String
  | true => "standard"
  | false => "alternative"

def methodOf : Bool → Method
  | true => .standard
  | false => .alternative

theorem parseMethod_methodName (std : Bool) :
    parseMethod (methodName std) = some (methodOf std) := by
  cases std <;> rfl

theorem not_lasso_methodName (std : Bool) : ¬ IsLassoMethod (methodName std) := by
  cases std <;> simp [IsLassoMethod, methodName]

/-- the target's own lags `[colId L i 1, …, colId L i L]` (`Z_init` of the standard variant) -/
def ownLags (L i : Nat) : List Nat := (List.range L).map (fun t => colId L i (t + 1))

/-- initial conditioning ids: own lags (standard) / none (alternative) -/
def zinitOf (std : Bool) (L i : Nat) : List Nat := if std then ownLags L i else []

theorem if_zinitOf (std : Bool) (L i : Nat) :
    (if std then zinitOf std L i else []) = zinitOf std L i := by
  cases std <;> rfl

/-- the own-lag ids are the columns `series[L-τ : T-τ, i]`, `τ = 1..L` -/
theorem ownLags_cols (s : Mat) (L T i : Nat) :
    (ownLags L i).map (xCol s L T) = (List.range L).map (fun t => lagCol s L T i (t + 1)) :=
  C01.ownLags_cols s L T i

section objects
variable (P : Params) (est : Est) (perms : Nat → List Nat) (lasso : Nat → List Nat)
  (s : Mat) (T n : Nat) (std : Bool)

/-- the concrete oracles of target `i` in the run -/
abbrev orc : Nat → Oracles := fun i => oraclesOf est perms s P.L T P.nShuffles i

/-- stream entries consumed when target `i` is started (`0` for `i = 0`) -/
def startAt (i : Nat) : Nat :=
  drawsBefore (methodOf std) (orc P est perms s T) lasso P.αf P.αb P.L n i

/-- state after the forward phase of target `i`: `.evs` its tests, `.S` the forward set,
`.c` the stream index of the backward draw -/
def fwdAt (i : Nat) : St :=
  if std then
    fwdStdRun (orc P est perms s T i) P.αf (n * P.L) (ownLags P.L i) (startAt P est perms lasso s T n std i)
  else
    fwdAltRun (orc P est perms s T i) P.αf (n * P.L) (startAt P est perms lasso s T n std i)

/-- state after the whole selection of target `i` (`Loop.stAt`) -/
def selAt (i : Nat) : St :=
  stAt (methodOf std) (orc P est perms s T) lasso P.αf P.αb P.L n i

/-- the backward tests of target `i`: what the selection logged after the forward tests -/
def bwdEvsAt (i : Nat) : List Ev :=
  (selAt P est perms lasso s T n std i).evs.drop (fwdAt P est perms lasso s T n std i).evs.length

/-- the edges into target `i` -/
def edgesAt (i : Nat) : List Edge :=
  edgesOf (methodOf std) (orc P est perms s T) lasso P.αf P.αb P.L n i

/-- the tests of the edge loop of target `i` -/
def edgeEvsAt (i : Nat) : List Ev :=
  evsFrom (orc P est perms s T i) P.αb (selAt P est perms lasso s T n std i).S
    (selAt P est perms lasso s T n std i).c (selAt P est perms lasso s T n std i).S

/-- **The permutation hypothesis** for target `i`: the stream entry that `backward` reads as its
visiting order (index `(fwdAt i).c`) is a permutation of the forward set `(fwdAt i).S`. -/
def PermOK (i : Nat) : Prop :=
  (perms (fwdAt P est perms lasso s T n std i).c).Perm (fwdAt P est perms lasso s T n std i).S

end objects

section objectFacts
variable {P : Params} {est : Est} {perms : Nat → List Nat} {lasso : Nat → List Nat}
  {s : Mat} {T n : Nat} {std : Bool}

/-- `PermOK` for the standard variant, written with `fwdStd` / `drawsBefore` / `oraclesOf` only -/
theorem permOK_standard_iff (i : Nat) :
    PermOK P est perms lasso s T n true i ↔
      (perms (fwdStd (oraclesOf est perms s P.L T P.nShuffles i) P.αf (n * P.L)
          (List.range (n * P.L)) ((List.range P.L).map (fun t => colId P.L i (t + 1)))
          { S := [], evs := [],
            c := drawsBefore .standard (fun j => oraclesOf est perms s P.L T P.nShuffles j) lasso
              P.αf P.αb P.L n i }).c).Perm
        (fwdStd (oraclesOf est perms s P.L T P.nShuffles i) P.αf (n * P.L)
          (List.range (n * P.L)) ((List.range P.L).map (fun t => colId P.L i (t + 1)))
          { S := [], evs := [],
            c := drawsBefore .standard (fun j => oraclesOf est perms s P.L T P.nShuffles j) lasso
              P.αf P.αb P.L n i }).S :=
  Iff.rfl

/-- `PermOK` for the alternative variant, written with `fwdAlt` / `drawsBefore` / `oraclesOf` only -/
theorem permOK_alternative_iff (i : Nat) :
    PermOK P est perms lasso s T n false i ↔
      (perms (fwdAlt (oraclesOf est perms s P.L T P.nShuffles i) P.αf (n * P.L) (n * P.L)
          { S := [], evs := [],
            c := drawsBefore .alternative (fun j => oraclesOf est perms s P.L T P.nShuffles j) lasso
              P.αf P.αb P.L n i }).c).Perm
        (fwdAlt (oraclesOf est perms s P.L T P.nShuffles i) P.αf (n * P.L) (n * P.L)
          { S := [], evs := [],
            c := drawsBefore .alternative (fun j => oraclesOf est perms s P.L T P.nShuffles j) lasso
              P.αf P.αb P.L n i }).S :=
  Iff.rfl

theorem startAt_zero : startAt P est perms lasso s T n std 0 = 0 := rfl

/-- the counter is threaded: target `i+1` starts where the edge loop of target `i` stops -/
theorem startAt_succ (i : Nat) :
    startAt P est perms lasso s T n std (i + 1) =
      (selAt P est perms lasso s T n std i).c +
        (selAt P est perms lasso s T n std i).S.length * P.nShuffles := rfl

/-- the selection is the backward phase run on the forward state -/
theorem selAt_eq_backward (i : Nat) :
    selAt P est perms lasso s T n std i =
      backward (orc P est perms s T i) P.αb (fwdAt P est perms lasso s T n std i) := by
  cases std <;> rfl

/-- the forward phase alone (no hypothesis): its tests are the oracle's answers at counters
`startAt i, startAt i + nShuffles, …`, and the backward draw is the next stream entry -/
theorem fwdAt_consulted (i : Nat) :
    Consulted (orc P est perms s T i) (startAt P est perms lasso s T n std i)
      (fwdAt P est perms lasso s T n std i).evs (fwdAt P est perms lasso s T n std i).c := by
  cases std
  · exact (fwdAltRun_refines _ _ _ _).2
  · exact (fwdStdRun_refines _ _ _ _ _).2

/-- stream index of the backward draw: `startAt i + (#forward tests) · nShuffles` -/
theorem fwdAt_c (i : Nat) :
    (fwdAt P est perms lasso s T n std i).c =
      startAt P est perms lasso s T n std i +
        (fwdAt P est perms lasso s T n std i).evs.length * P.nShuffles :=
  (fwdAt_consulted (std := std) i).counter

/-- the standard forward phase makes exactly `n·L` tests -/
theorem fwdAt_length_standard (i : Nat) :
    (fwdAt P est perms lasso s T n true i).evs.length = n * P.L := by
  have := (fwdStdRun_refines (orc P est perms s T i) P.αf (n * P.L) (ownLags P.L i)
    (startAt P est perms lasso s T n true i)).1.length
  rw [List.length_range] at this
  exact this

/-- … so the backward draw of the standard variant is stream entry `startAt i + n·L·nShuffles` -/
theorem fwdAt_c_standard (i : Nat) :
    (fwdAt P est perms lasso s T n true i).c =
      startAt P est perms lasso s T n true i + n * P.L * P.nShuffles := by
  rw [fwdAt_c, fwdAt_length_standard]

/-- the selected set is duplicate-free and inside the candidate ids (no hypothesis) -/
theorem selAt_good (i : Nat) :
    (selAt P est perms lasso s T n std i).S.Nodup ∧
      ∀ c ∈ (selAt P est perms lasso s T n std i).S, c < n * P.L := by
  apply stAt_good
  intro h
  cases std <;> rcases h with h | h <;> cases h

/-- C02's refinement theorems at the concrete oracles of target `i` -/
theorem selAt_refines (i : Nat) (hperm : PermOK P est perms lasso s T n std i) :
    ∃ be,
      OcseParts Eq std (oraclesOf est perms s P.L T P.nShuffles i).f P.αf P.αb (n * P.L)
        (zinitOf std P.L i) (selAt P est perms lasso s T n std i).evs
        (selAt P est perms lasso s T n std i).S (fwdAt P est perms lasso s T n std i).evs be
        (fwdAt P est perms lasso s T n std i).S (perms (fwdAt P est perms lasso s T n std i).c)
        (selAt P est perms lasso s T n std i).S ∧
      Consulted (orc P est perms s T i) ((fwdAt P est perms lasso s T n std i).c + 1) be
        (selAt P est perms lasso s T n std i).c := by
  cases std
  · obtain ⟨be, h1, -, h3⟩ := ocseAlt_refines (orc P est perms s T i) P.αf P.αb (n * P.L)
      (startAt P est perms lasso s T n false i) hperm
    exact ⟨be, h1, h3⟩
  · obtain ⟨be, h1, -, h3⟩ := ocseStd_refines (orc P est perms s T i) P.αf P.αb (n * P.L)
      (ownLags P.L i) (startAt P est perms lasso s T n true i) hperm
    exact ⟨be, h1, h3⟩

end objectFacts

/-! ## 2. One logged test, spelled out with `est`, `permute`, `perms` -/

/-- `e` is the record of the permutation test of predictor column `x` for target `i`, given the
*ordered* conditioning ids `Z`, at level `α`, started when `c` stream entries have been consumed:
the observed value is `est X_x Y_i Z`, verdict and p-value are those of `shuffle_test` on the
`nSh` stream entries `perms c, …, perms (c + nSh - 1)`. -/
structure TestRecord (est : Est) (perms : Nat → List Nat) (s : Mat) (L T nSh i : Nat)
    (ph : Phase) (α : Rat) (c x : Nat) (Z : List Nat) (e : Ev) : Prop where
  phase : e.phase = ph
  level : e.level = α
  cand  : e.cand = x
  cond  : e.cond = Z
  obs   : e.obs = est (xCol s L T x) (targetCol s L T i) (Z.map (xCol s L T))
  pass_eq : e.pass = (shuffleTest est ((List.range nSh).map (fun k => perms (c + k)))
      (xCol s L T x) (targetCol s L T i) (Z.map (xCol s L T)) e.obs α).pass
  p_eq : e.p = (shuffleTest est ((List.range nSh).map (fun k => perms (c + k)))
      (xCol s L T x) (targetCol s L T i) (Z.map (xCol s L T)) e.obs α).p

namespace TestRecord
variable {est : Est} {perms : Nat → List Nat} {s : Mat} {L T nSh i : Nat} {ph : Phase} {α : Rat}
  {c x : Nat} {Z : List Nat} {e : Ev}

/-- from the oracle-level description of an event (C02) -/
theorem of_oracle (hph : e.phase = ph) (hl : e.level = α) (hc : e.cand = x) (hz : e.cond = Z)
    (hobs : e.obs = (oraclesOf est perms s L T nSh i).f x e.cond)
    (hv : (e.pass, e.p) = (oraclesOf est perms s L T nSh i).test c e.level e.cand e.cond e.obs) :
    TestRecord est perms s L T nSh i ph α c x Z e := by
  subst hl hc hz
  exact ⟨hph, rfl, rfl, rfl, hobs, congrArg Prod.fst hv, congrArg Prod.snd hv⟩

/-- the verdict in terms of the null values `est (X∘π_k) Y Z`: `pass = (obs > threshold)` with the
threshold of `decideTest` (the `(1-α)` percentile, C03 `thr_bracket`) -/
theorem pass_null (h : TestRecord est perms s L T nSh i ph α c x Z e) :
    e.pass = (decideTest ((List.range nSh).map (fun k =>
      est (permute (xCol s L T x) (perms (c + k))) (targetCol s L T i) (Z.map (xCol s L T))))
      e.obs α).pass := by
  rw [h.pass_eq, shuffleTest_stream]

/-- the p-value: the fraction of the `nSh` surrogates (predictor permuted by `perms (c+k)`, target and
conditioning untouched) whose value is `≥` the observed one -/
theorem p_count (h : TestRecord est perms s L T nSh i ph α c x Z e) :
    e.p = (((List.range nSh).countP (fun k => Val.ge
      (est (permute (xCol s L T x) (perms (c + k))) (targetCol s L T i) (Z.map (xCol s L T)))
      e.obs) : Nat) : Rat) / (nSh : Rat) := by
  rw [h.p_eq, shuffleTest_stream]
  simp only [decideTest, List.countP_map, List.length_map, List.length_range]
  rfl

/-- **C03 on a logged test**: a passed test whose surrogate values are all finite has
`p ≤ α + 1/nShuffles` -/
theorem p_le (h : TestRecord est perms s L T nSh i ph α c x Z e) (hpass : e.pass = true)
    (hn : 1 ≤ nSh) (hα0 : 0 < α) (hα1 : α < 1)
    (hfin : ∀ k, k < nSh → ∃ q, est (permute (xCol s L T x) (perms (c + k))) (targetCol s L T i)
      (Z.map (xCol s L T)) = Val.fin q) :
    e.p ≤ α + 1 / (nSh : Rat) := by
  have := shuffleTest_pass_p_le est ((List.range nSh).map (fun k => perms (c + k)))
    (xCol s L T x) (targetCol s L T i) (Z.map (xCol s L T)) e.obs α (by simpa using hn) hα0 hα1
    (by
      intro π hπ
      obtain ⟨k, hk, rfl⟩ := List.mem_map.mp hπ
      exact hfin k (List.mem_range.mp hk))
    (by rw [← h.pass_eq]; exact hpass)
  rw [h.p_eq]
  simpa using this

/-- the conditioning columns of a standard forward test: own lags, then the accepted ones -/
theorem std_cols (s : Mat) (L T i : Nat) (A : List Nat) :
    (zinitOf true L i ++ A).map (xCol s L T) =
      (List.range L).map (fun t => lagCol s L T i (t + 1)) ++ A.map (xCol s L T) := by
  rw [List.map_append]
  exact congrArg (· ++ _) (ownLags_cols s L T i)

end TestRecord

/-! ## 3. Per-target specification -/

section spec
variable (P : Params) (est : Est) (perms : Nat → List Nat) (lasso : Nat → List Nat)
  (s : Mat) (T n : Nat) (std : Bool)

/-- **Selection of target `i`** (what `discover_target_spec` concludes). -/
structure TargetSpec (i : Nat) : Prop where
  /-- the logged selection trace is forward tests ++ backward tests -/
  sel_evs : (selAt P est perms lasso s T n std i).evs =
    (fwdAt P est perms lasso s T n std i).evs ++ bwdEvsAt P est perms lasso s T n std i
  /-- the oCSE rule (C02), for the concrete oracles, candidates `range (n·L)`, initial conditioning
  own lags / none, levels `αf` / `αb`, visiting order = the stream entry at the backward draw -/
  ocse : OcseParts Eq std (oraclesOf est perms s P.L T P.nShuffles i).f P.αf P.αb (n * P.L)
    (zinitOf std P.L i) (selAt P est perms lasso s T n std i).evs
    (selAt P est perms lasso s T n std i).S
    (fwdAt P est perms lasso s T n std i).evs (bwdEvsAt P est perms lasso s T n std i)
    (fwdAt P est perms lasso s T n std i).S (perms (fwdAt P est perms lasso s T n std i).c)
    (selAt P est perms lasso s T n std i).S
  /-- forward verdicts = oracle answers at `startAt i + k·nShuffles` -/
  fwd_consulted : Consulted (oraclesOf est perms s P.L T P.nShuffles i)
    (startAt P est perms lasso s T n std i) (fwdAt P est perms lasso s T n std i).evs
    (fwdAt P est perms lasso s T n std i).c
  /-- one draw for the order, then backward verdicts = oracle answers at `c_bwd + 1 + k·nShuffles` -/
  bwd_consulted : Consulted (oraclesOf est perms s P.L T P.nShuffles i)
    ((fwdAt P est perms lasso s T n std i).c + 1) (bwdEvsAt P est perms lasso s T n std i)
    (selAt P est perms lasso s T n std i).c
  c_bwd : (fwdAt P est perms lasso s T n std i).c = startAt P est perms lasso s T n std i +
    (fwdAt P est perms lasso s T n std i).evs.length * P.nShuffles
  fwd_len_std : std = true → (fwdAt P est perms lasso s T n std i).evs.length = n * P.L
  bwd_len : (bwdEvsAt P est perms lasso s T n std i).length =
    (fwdAt P est perms lasso s T n std i).S.length
  c_edge : (selAt P est perms lasso s T n std i).c = (fwdAt P est perms lasso s T n std i).c + 1 +
    (fwdAt P est perms lasso s T n std i).S.length * P.nShuffles
  next : startAt P est perms lasso s T n std (i + 1) = (selAt P est perms lasso s T n std i).c +
    (selAt P est perms lasso s T n std i).S.length * P.nShuffles

/-- **The tests behind a reported parent `x` of target `i`** (what `discover_parent_tests`
concludes): exactly one forward test of `x`, passed, at level `αf`, conditioned on
`zinit ++ accepted before`, value maximal among the still undecided candidates; and exactly one
backward test of `x`, passed, at level `αb`, conditioned on the survivors at that moment minus `x`. -/
def ParentTests (i x : Nat) : Prop :=
  (∃ pre e post, (fwdAt P est perms lasso s T n std i).evs = pre ++ e :: post ∧
    (∀ e' ∈ pre ++ post, e'.cand ≠ x) ∧
    TestRecord est perms s P.L T P.nShuffles i .fwd P.αf
      (startAt P est perms lasso s T n std i + pre.length * P.nShuffles) x
      (zinitOf std P.L i ++ acceptedOf pre) e ∧
    e.pass = true ∧
    ∀ c, c < n * P.L → c ∉ (if std then testedOf pre else acceptedOf pre) →
      leTop (est (xCol s P.L T c) (targetCol s P.L T i) (e.cond.map (xCol s P.L T))) e.obs = true) ∧
  (∃ pre e post, bwdEvsAt P est perms lasso s T n std i = pre ++ e :: post ∧
    (∀ e' ∈ pre ++ post, e'.cand ≠ x) ∧
    TestRecord est perms s P.L T P.nShuffles i .bwd P.αb
      ((fwdAt P est perms lasso s T n std i).c + 1 + pre.length * P.nShuffles) x
      ((survivorsOf (fwdAt P est perms lasso s T n std i).S pre).filter (fun k => k != x)) e ∧
    e.pass = true)

/-- **Edges into target `i`** (what `discover_edges_of_survivors` concludes): one per selected
column, in selection order, labelled `label L c`; cmi and p as in C01 (`edgeOfCol`: cmi =
`est X_c Y_i (other selected columns)`, p = fraction of the next `nShuffles` surrogates `≥ cmi`),
the `k`-th test starting at stream index `(selAt i).c + k·nShuffles`. -/
structure EdgeSpec (i : Nat) : Prop where
  len : (edgesAt P est perms lasso s T n std i).length = (selAt P est perms lasso s T n std i).S.length
  get : ∀ k, (edgesAt P est perms lasso s T n std i)[k]? =
    (selAt P est perms lasso s T n std i).S[k]?.map (fun c =>
      C01.edgeOfCol est perms s P.L T P.nShuffles i (selAt P est perms lasso s T n std i).S
        ((selAt P est perms lasso s T n std i).c + k * P.nShuffles) c)
  labels : (edgesAt P est perms lasso s T n std i).map (fun e => ((e.src, e.lag), e.dst)) =
    (selAt P est perms lasso s T n std i).S.map (fun c => (label P.L c, i))
  cmi : (edgesAt P est perms lasso s T n std i).map (fun e => e.cmi) =
    (selAt P est perms lasso s T n std i).S.map (fun c =>
      est (lagCol s P.L T (label P.L c).1 (label P.L c).2) (targetCol s P.L T i)
        (C01.condCols s P.L T (selAt P est perms lasso s T n std i).S c))
  evs : ∀ k, (edgeEvsAt P est perms lasso s T n std i)[k]? =
    (selAt P est perms lasso s T n std i).S[k]?.map (fun c =>
      evAt (oraclesOf est perms s P.L T P.nShuffles i) P.αb (selAt P est perms lasso s T n std i).S
        ((selAt P est perms lasso s T n std i).c + k * P.nShuffles) c)

/-- **End-to-end specification of a successful oCSE run of `discover`.** -/
structure DiscoverSpec (r : Result) : Prop where
  sel : r.sel = (List.range n).map (fun i => (selAt P est perms lasso s T n std i).S)
  evs : r.evs = (List.range n).flatMap (fun i =>
    (fwdAt P est perms lasso s T n std i).evs ++ bwdEvsAt P est perms lasso s T n std i ++
      edgeEvsAt P est perms lasso s T n std i)
  edges : r.edges = (List.range n).flatMap (fun i => edgesAt P est perms lasso s T n std i)
  edges_into : ∀ i, i < n →
    r.edges.filter (fun e => e.dst == i) = edgesAt P est perms lasso s T n std i
  draws : r.draws = startAt P est perms lasso s T n std n
  start : startAt P est perms lasso s T n std 0 = 0
  target : ∀ i, i < n → TargetSpec P est perms lasso s T n std i
  sel_good : ∀ i, i < n → (selAt P est perms lasso s T n std i).S.Nodup ∧
    ∀ c ∈ (selAt P est perms lasso s T n std i).S, c < n * P.L
  parents : ∀ i, i < n → ∀ x ∈ (selAt P est perms lasso s T n std i).S,
    ParentTests P est perms lasso s T n std i x
  edge_spec : ∀ i, i < n → EdgeSpec P est perms lasso s T n std i
  /-- C06 `edge_wf` -/
  edge_wf : ∀ e ∈ r.edges, e.src < n ∧ e.dst < n ∧ 1 ≤ e.lag ∧ e.lag ≤ P.L ∧
    ∃ k : Nat, k ≤ P.nShuffles ∧ e.p = (k : Rat) / (P.nShuffles : Rat)
  /-- C06 `no_duplicate_triple` -/
  no_dup : (r.edges.map (fun e => (e.src, e.dst, e.lag))).Nodup

end spec

/-! ## 4. The theorems -/

section theorems
variable {P : Params} {est : Est} {perms : Nat → List Nat} {lasso : Nat → List Nat}
  {s : Mat} {T n : Nat} {std : Bool} {r : Result}

/-- the selection of one target, from the permutation hypothesis alone (no reference to a result) -/
theorem targetSpec_of_permOK (i : Nat) (hperm : PermOK P est perms lasso s T n std i) :
    TargetSpec P est perms lasso s T n std i := by
  obtain ⟨be, hp, hcb⟩ := selAt_refines i hperm
  have hbe : bwdEvsAt P est perms lasso s T n std i = be := by
    unfold bwdEvsAt
    rw [hp.split, List.drop_left]
  have hlen : be.length = (fwdAt P est perms lasso s T n std i).S.length := by
    have h1 := congrArg List.length hp.bwd.tested
    have h2 := hp.perm.length_eq
    simp only [testedOf, List.length_map] at h1
    omega
  rw [← hbe] at hp hcb hlen
  have hcf := fwdAt_consulted (P := P) (est := est) (perms := perms) (lasso := lasso) (s := s)
    (T := T) (n := n) (std := std) i
  refine ⟨hp.split, hp, hcf, hcb, hcf.counter, ?_, hlen, ?_, rfl⟩
  · intro hs
    subst hs
    exact hp.std_tests.2
  · have := hcb.counter
    rw [hlen] at this
    exact this

/-- the result of a successful oCSE run, in closed form over the per-target objects -/
theorem result_eq (h : discover P est perms lasso s T n = .ok r) (hm : P.method = methodName std) :
    r = { edges := (List.range n).flatMap (fun i => edgesAt P est perms lasso s T n std i),
          evs := (List.range n).flatMap (fun i =>
            (selAt P est perms lasso s T n std i).evs ++ edgeEvsAt P est perms lasso s T n std i),
          draws := startAt P est perms lasso s T n std n,
          sel := (List.range n).map (fun i => (selAt P est perms lasso s T n std i).S) } := by
  obtain ⟨m, hpm, -, -, rfl⟩ := discover_ok h
  rw [hm, parseMethod_methodName] at hpm
  obtain rfl : methodOf std = m := Option.some.inj hpm
  rw [discoverWith_eq]
  rfl

theorem sel_getElem? (h : discover P est perms lasso s T n = .ok r) (hm : P.method = methodName std)
    {i : Nat} (hi : i < n) : r.sel[i]? = some (selAt P est perms lasso s T n std i).S := by
  rw [result_eq h hm]
  simp [hi]

/-- **(1) `discover_target_spec`.** Let `discover` succeed with `method = "standard"` (`std = true`)
or `"alternative"` (`std = false`). For every target `i < n`: the start counter is
`d = startAt i` (the draws consumed by targets `< i`: `Loop.drawsBefore`), and **provided** the
stream entry read at the backward draw is a permutation of the forward set of that target
(`PermOK`: `(perms (fwdAt i).c).Perm (fwdAt i).S`, with `(fwdAt i).c = d + #forward tests · nShuffles`),
the selected set `r.sel[i]` and its logged tests satisfy the oCSE rule `OcseParts Eq` for the concrete
oracles `oraclesOf est perms s L T nShuffles i`, candidates `range (n·L)`, initial conditioning ids
`[colId L i 1, …, colId L i L]` (standard) / `[]` (alternative), forward level `αf`, backward level
`αb`; every verdict is the oracle's answer at a pinned stream index (`Consulted`), and the counters
are threaded as in `TargetSpec`. -/
theorem discover_target_spec (h : discover P est perms lasso s T n = .ok r)
    (hm : P.method = methodName std) {i : Nat} (hi : i < n)
    (hperm : PermOK P est perms lasso s T n std i) :
    r.sel[i]? = some (selAt P est perms lasso s T n std i).S ∧
      TargetSpec P est perms lasso s T n std i :=
  ⟨sel_getElem? h hm hi, targetSpec_of_permOK i hperm⟩

/-- the events of target `i` form a contiguous block of `r.evs`, after those of the targets `< i` -/
theorem evs_block (h : discover P est perms lasso s T n = .ok r) (hm : P.method = methodName std)
    {i : Nat} (hi : i < n) :
    ∃ post, r.evs =
      (List.range i).flatMap (fun j =>
        (selAt P est perms lasso s T n std j).evs ++ edgeEvsAt P est perms lasso s T n std j) ++
      ((selAt P est perms lasso s T n std i).evs ++ edgeEvsAt P est perms lasso s T n std i) ++
      post := by
  rw [result_eq h hm]
  obtain ⟨k, rfl⟩ : ∃ k, n = (i + 1) + k := ⟨n - (i + 1), by omega⟩
  refine ⟨((List.range k).map (fun j => i + 1 + j)).flatMap (fun j =>
    (selAt P est perms lasso s T (i + 1 + k) std j).evs ++
      edgeEvsAt P est perms lasso s T (i + 1 + k) std j), ?_⟩
  simp only [List.range_add, List.range_succ, List.flatMap_append, List.flatMap_nil,
    List.append_nil, List.flatMap_cons]

/-- **(1), `OcseSpec` form.** Under the hypotheses of `discover_target_spec` there are the selected
set `S = r.sel[i]` and a contiguous block `evs` of `r.evs` (preceded by the events of the targets
`< i`, followed by the edge tests of `i`) that is a run of the oCSE rule with result `S`. -/
theorem discover_target_ocseSpec (h : discover P est perms lasso s T n = .ok r)
    (hm : P.method = methodName std) {i : Nat} (hi : i < n)
    (hperm : PermOK P est perms lasso s T n std i) :
    ∃ S evs pre post, r.sel[i]? = some S ∧ r.evs = pre ++ evs ++ post ∧
      OcseSpec Eq std (oraclesOf est perms s P.L T P.nShuffles i).f P.αf P.αb (n * P.L)
        (zinitOf std P.L i) evs S := by
  obtain ⟨post, hpost⟩ := evs_block h hm hi
  refine ⟨(selAt P est perms lasso s T n std i).S, (selAt P est perms lasso s T n std i).evs,
    (List.range i).flatMap (fun j =>
      (selAt P est perms lasso s T n std j).evs ++ edgeEvsAt P est perms lasso s T n std j),
    edgeEvsAt P est perms lasso s T n std i ++ post, sel_getElem? h hm hi, ?_,
    ⟨_, _, _, _, _, (targetSpec_of_permOK i hperm).ocse⟩⟩
  rw [hpost]
  simp only [List.append_assoc]

/-- **(1) for `method = "standard"`, everything spelled out with the model's own functions.** -/
theorem discover_target_spec_standard (h : discover P est perms lasso s T n = .ok r)
    (hm : P.method = "standard") {i : Nat} (hi : i < n)
    (hperm :
      let o := oraclesOf est perms s P.L T P.nShuffles i
      let d := drawsBefore .standard (fun j => oraclesOf est perms s P.L T P.nShuffles j) lasso
        P.αf P.αb P.L n i
      let F := fwdStd o P.αf (n * P.L) (List.range (n * P.L))
        ((List.range P.L).map (fun t => colId P.L i (t + 1))) { S := [], c := d, evs := [] }
      (perms F.c).Perm F.S) :
    ∃ S evs, r.sel[i]? = some S ∧
      S = (stAt .standard (fun j => oraclesOf est perms s P.L T P.nShuffles j) lasso
        P.αf P.αb P.L n i).S ∧
      evs = (stAt .standard (fun j => oraclesOf est perms s P.L T P.nShuffles j) lasso
        P.αf P.αb P.L n i).evs ∧
      OcseSpec Eq true (oraclesOf est perms s P.L T P.nShuffles i).f P.αf P.αb (n * P.L)
        ((List.range P.L).map (fun t => colId P.L i (t + 1))) evs S :=
  have hp : PermOK P est perms lasso s T n true i := hperm
  ⟨_, _, sel_getElem? (std := true) h hm hi, rfl, rfl,
    ⟨_, _, _, _, _, (targetSpec_of_permOK i hp).ocse⟩⟩

/-- **(1) for `method = "alternative"`, spelled out.** -/
theorem discover_target_spec_alternative (h : discover P est perms lasso s T n = .ok r)
    (hm : P.method = "alternative") {i : Nat} (hi : i < n)
    (hperm :
      let o := oraclesOf est perms s P.L T P.nShuffles i
      let d := drawsBefore .alternative (fun j => oraclesOf est perms s P.L T P.nShuffles j) lasso
        P.αf P.αb P.L n i
      let F := fwdAlt o P.αf (n * P.L) (n * P.L) { S := [], c := d, evs := [] }
      (perms F.c).Perm F.S) :
    ∃ S evs, r.sel[i]? = some S ∧
      S = (stAt .alternative (fun j => oraclesOf est perms s P.L T P.nShuffles j) lasso
        P.αf P.αb P.L n i).S ∧
      evs = (stAt .alternative (fun j => oraclesOf est perms s P.L T P.nShuffles j) lasso
        P.αf P.αb P.L n i).evs ∧
      OcseSpec Eq false (oraclesOf est perms s P.L T P.nShuffles i).f P.αf P.αb (n * P.L) [] evs S :=
  have hp : PermOK P est perms lasso s T n false i := hperm
  ⟨_, _, sel_getElem? (std := false) h hm hi, rfl, rfl,
    ⟨_, _, _, _, _, (targetSpec_of_permOK i hp).ocse⟩⟩

/-- the tests behind a parent, from the permutation hypothesis alone -/
theorem parentTests_of_permOK (i : Nat) (hperm : PermOK P est perms lasso s T n std i) {x : Nat}
    (hx : x ∈ (selAt P est perms lasso s T n std i).S) :
    ParentTests P est perms lasso s T n std i x := by
  have ht := targetSpec_of_permOK i hperm
  obtain ⟨⟨pre, e, post, heq, hc, huniq, hpass, hph, hlv, hcond, hobs, hmax⟩,
    ⟨pre', e', post', heq', hc', huniq', hpass', hph', hlv', hcond', hobs'⟩⟩ :=
    ht.ocse.parent_tests C02.eq_perm hx
  rw [if_zinitOf] at hcond
  constructor
  · refine ⟨pre, e, post, heq, huniq, ?_, hpass, ?_⟩
    · exact TestRecord.of_oracle hph hlv hc hcond hobs (consulted_at pre (heq ▸ ht.fwd_consulted))
    · exact fun c hc hn => hmax c hc hn
  · exact ⟨pre', e', post', heq', huniq',
      TestRecord.of_oracle hph' hlv' hc' hcond' hobs' (consulted_at pre' (heq' ▸ ht.bwd_consulted)),
      hpass'⟩

/-- **(2) `discover_parent_tests`.** Under the hypotheses of `discover_target_spec`, every reported
parent column `x ∈ r.sel[i]` passed exactly one forward permutation test —
`shuffleTest est (perms c, …, perms (c+nShuffles-1)) (xCol x) (targetCol i) (Z columns) obs αf` with
`Z = own lags ++ accepted before` (standard; `accepted before` only for the alternative),
`obs = est (xCol x) (targetCol i) Z` maximal among the undecided candidates, starting at stream index
`c = startAt i + (#earlier forward tests)·nShuffles` — and exactly one backward test at level `αb`
against the survivors at that moment minus `x`, starting at
`c = c_bwd + 1 + (#earlier backward tests)·nShuffles` (`ParentTests`, `TestRecord`). For each of these
tests `TestRecord.pass_null` / `TestRecord.p_count` express verdict and p-value through
`est (permute (xCol x) (perms (c+k))) …`, and `TestRecord.p_le` gives `p ≤ α + 1/nShuffles`. -/
theorem discover_parent_tests (h : discover P est perms lasso s T n = .ok r)
    (hm : P.method = methodName std) {i : Nat} (hi : i < n)
    (hperm : PermOK P est perms lasso s T n std i) {S : List Nat} (hS : r.sel[i]? = some S)
    {x : Nat} (hx : x ∈ S) : ParentTests P est perms lasso s T n std i x := by
  rw [sel_getElem? h hm hi] at hS
  obtain rfl := Option.some.inj hS
  exact parentTests_of_permOK i hperm hx

/-- **(2), written out without `ParentTests` / `TestRecord`.** Every reported parent column `x` of
target `i` has exactly one forward test `e` in the trace (`pre` = the earlier forward tests): level
`αf`, conditioning ids `zinit ++ accepted in pre` (`zinit` = own lags for the standard variant, `[]`
for the alternative), observed value `est (xCol x) (targetCol i) (columns of e.cond)`; it passed, and
this verdict is that of the model's `shuffleTest` on the `nShuffles` stream entries starting at index
`startAt i + |pre|·nShuffles`; its p-value is the fraction of those surrogates
`est (permute (xCol x) (perms ·)) (targetCol i) (columns of e.cond)` that are `≥` the observed value;
and `p ≤ αf + 1/nShuffles` whenever these surrogate values are finite (C03). Likewise exactly one
backward test at level `αb`, conditioned on the survivors at that moment minus `x`, starting at index
`c_bwd + 1 + |pre|·nShuffles`. -/
theorem discover_parent_tests_explicit (h : discover P est perms lasso s T n = .ok r)
    (hm : P.method = methodName std) {i : Nat} (hi : i < n)
    (hperm : PermOK P est perms lasso s T n std i) {S : List Nat} (hS : r.sel[i]? = some S)
    {x : Nat} (hx : x ∈ S) :
    (∃ pre e post, (fwdAt P est perms lasso s T n std i).evs = pre ++ e :: post ∧
      (∀ e' ∈ pre ++ post, e'.cand ≠ x) ∧ e.cand = x ∧ e.phase = .fwd ∧ e.level = P.αf ∧
      e.cond = zinitOf std P.L i ++ acceptedOf pre ∧
      e.obs = est (xCol s P.L T x) (targetCol s P.L T i) (e.cond.map (xCol s P.L T)) ∧
      e.pass = true ∧
      (shuffleTest est ((List.range P.nShuffles).map (fun k =>
          perms (startAt P est perms lasso s T n std i + pre.length * P.nShuffles + k)))
        (xCol s P.L T x) (targetCol s P.L T i) (e.cond.map (xCol s P.L T)) e.obs P.αf).pass = true ∧
      e.p = (((List.range P.nShuffles).countP (fun k => Val.ge
        (est (permute (xCol s P.L T x)
            (perms (startAt P est perms lasso s T n std i + pre.length * P.nShuffles + k)))
          (targetCol s P.L T i) (e.cond.map (xCol s P.L T))) e.obs) : Nat) : Rat) /
        (P.nShuffles : Rat) ∧
      (1 ≤ P.nShuffles → 0 < P.αf → P.αf < 1 →
        (∀ k, k < P.nShuffles → ∃ q, est (permute (xCol s P.L T x)
            (perms (startAt P est perms lasso s T n std i + pre.length * P.nShuffles + k)))
          (targetCol s P.L T i) (e.cond.map (xCol s P.L T)) = Val.fin q) →
        e.p ≤ P.αf + 1 / (P.nShuffles : Rat))) ∧
    (∃ pre e post, bwdEvsAt P est perms lasso s T n std i = pre ++ e :: post ∧
      (∀ e' ∈ pre ++ post, e'.cand ≠ x) ∧ e.cand = x ∧ e.phase = .bwd ∧ e.level = P.αb ∧
      e.cond = (survivorsOf (fwdAt P est perms lasso s T n std i).S pre).filter (fun k => k != x) ∧
      e.obs = est (xCol s P.L T x) (targetCol s P.L T i) (e.cond.map (xCol s P.L T)) ∧
      e.pass = true ∧
      (shuffleTest est ((List.range P.nShuffles).map (fun k =>
          perms ((fwdAt P est perms lasso s T n std i).c + 1 + pre.length * P.nShuffles + k)))
        (xCol s P.L T x) (targetCol s P.L T i) (e.cond.map (xCol s P.L T)) e.obs P.αb).pass = true ∧
      e.p = (((List.range P.nShuffles).countP (fun k => Val.ge
        (est (permute (xCol s P.L T x)
            (perms ((fwdAt P est perms lasso s T n std i).c + 1 + pre.length * P.nShuffles + k)))
          (targetCol s P.L T i) (e.cond.map (xCol s P.L T))) e.obs) : Nat) : Rat) /
        (P.nShuffles : Rat) ∧
      (1 ≤ P.nShuffles → 0 < P.αb → P.αb < 1 →
        (∀ k, k < P.nShuffles → ∃ q, est (permute (xCol s P.L T x)
            (perms ((fwdAt P est perms lasso s T n std i).c + 1 + pre.length * P.nShuffles + k)))
          (targetCol s P.L T i) (e.cond.map (xCol s P.L T)) = Val.fin q) →
        e.p ≤ P.αb + 1 / (P.nShuffles : Rat))) := by
  obtain ⟨⟨pre, e, post, heq, hu, htr, hpass, -⟩, ⟨pre', e', post', heq', hu', htr', hpass'⟩⟩ :=
    discover_parent_tests h hm hi hperm hS hx
  constructor
  · refine ⟨pre, e, post, heq, hu, htr.cand, htr.phase, htr.level, htr.cond, ?_⟩
    rw [htr.cond]
    exact ⟨htr.obs, hpass, by rw [← htr.pass_eq]; exact hpass, htr.p_count,
      fun hn h0 h1 hfin => htr.p_le hpass hn h0 h1 hfin⟩
  · refine ⟨pre', e', post', heq', hu', htr'.cand, htr'.phase, htr'.level, htr'.cond, ?_⟩
    rw [htr'.cond]
    exact ⟨htr'.obs, hpass', by rw [← htr'.pass_eq]; exact hpass', htr'.p_count,
      fun hn h0 h1 hfin => htr'.p_le hpass' hn h0 h1 hfin⟩

/-- **(2), the C03 bound.** If moreover the estimator is finite (on all arguments; `TestRecord.p_le`
needs it on the surrogates of the test only), `nShuffles ≥ 1` and both levels lie in `(0,1)`, then
the forward test passed by a reported parent has `p ≤ αf + 1/nShuffles` and its backward test has
`p ≤ αb + 1/nShuffles`. -/
theorem discover_parent_p_le (h : discover P est perms lasso s T n = .ok r)
    (hm : P.method = methodName std) {i : Nat} (hi : i < n)
    (hperm : PermOK P est perms lasso s T n std i) {S : List Nat} (hS : r.sel[i]? = some S)
    {x : Nat} (hx : x ∈ S) (hfin : ∀ a b z, ∃ q, est a b z = Val.fin q) (hn : 1 ≤ P.nShuffles)
    (hf0 : 0 < P.αf) (hf1 : P.αf < 1) (hb0 : 0 < P.αb) (hb1 : P.αb < 1) :
    (∃ e ∈ (fwdAt P est perms lasso s T n std i).evs, e.cand = x ∧ e.phase = .fwd ∧
      e.pass = true ∧ e.p ≤ P.αf + 1 / (P.nShuffles : Rat)) ∧
    (∃ e ∈ bwdEvsAt P est perms lasso s T n std i, e.cand = x ∧ e.phase = .bwd ∧
      e.pass = true ∧ e.p ≤ P.αb + 1 / (P.nShuffles : Rat)) := by
  obtain ⟨⟨pre, e, post, heq, -, htr, hpass, -⟩, ⟨pre', e', post', heq', -, htr', hpass'⟩⟩ :=
    discover_parent_tests h hm hi hperm hS hx
  exact ⟨⟨e, by rw [heq]; simp, htr.cand, htr.phase, hpass,
      htr.p_le hpass hn hf0 hf1 (fun _ _ => hfin _ _ _)⟩,
    ⟨e', by rw [heq']; simp, htr'.cand, htr'.phase, hpass',
      htr'.p_le hpass' hn hb0 hb1 (fun _ _ => hfin _ _ _)⟩⟩

/-- mirror of `Loop.edgesFrom_getElem?` for the logged edge tests -/
theorem evsFrom_getElem? (o : Oracles) (αb : Rat) (S : List Nat) :
    ∀ (l : List Nat) (d k : Nat),
      (evsFrom o αb S d l)[k]? = l[k]?.map (fun c => evAt o αb S (d + k * o.cost) c)
  | [], _, _ => by simp [evsFrom]
  | c :: l, d, 0 => by simp [evsFrom]
  | c :: l, d, k+1 => by
      simp only [evsFrom, List.getElem?_cons_succ]
      rw [evsFrom_getElem? o αb S l]
      congr 2
      funext c
      congr 1
      rw [Nat.add_mul]; omega

/-- the edges of one target (no hypothesis) -/
theorem edgeSpec (i : Nat) : EdgeSpec P est perms lasso s T n std i := by
  refine ⟨?_, ?_, ?_, ?_, ?_⟩
  · unfold edgesAt edgesOf
    rw [edgesFrom_length]
    rfl
  · intro k
    unfold edgesAt edgesOf
    rw [edgesFrom_getElem?]
    show Option.map _ _ = Option.map _ _
    congr 1
    funext c
    exact C01.edgeAt_oraclesOf ..
  · have := congrArg (List.map (fun q : Nat × Nat × Nat × Val => ((q.1, q.2.2.1), q.2.1)))
      (edgesFrom_map (orc P est perms s T i) P.αb P.L i (selAt P est perms lasso s T n std i).S
        (selAt P est perms lasso s T n std i).S (selAt P est perms lasso s T n std i).c)
    simpa [List.map_map, Function.comp_def, edgesAt, edgesOf, selAt] using this
  · have := congrArg (List.map (fun q : Nat × Nat × Nat × Val => q.2.2.2))
      (edgesFrom_map (orc P est perms s T i) P.αb P.L i (selAt P est perms lasso s T n std i).S
        (selAt P est perms lasso s T n std i).S (selAt P est perms lasso s T n std i).c)
    simp only [List.map_map, Function.comp_def] at this
    exact this
  · intro k
    unfold edgeEvsAt
    rw [evsFrom_getElem?]
    rfl

/-- **(3) `discover_edges_of_survivors`.** If `discover` succeeds with one of the two oCSE methods,
then for every target `i < n` (no permutation hypothesis needed) the edges into `i` are exactly one
per element of `r.sel[i]`, in selection order; the `k`-th one is
`edgeOfCol … S (c_edge + k·nShuffles) S[k]`: source and lag are `label L S[k]`, the cmi is
`est (X_src delayed by lag) (X_i now) (lagged columns of the other selected ids)` (C01
`edge_semantics`), the p-value the fraction of the `nShuffles` surrogates drawn from stream index
`c_edge + k·nShuffles` on whose value is `≥ cmi` (C01 `pvalue_formula`), with `c_edge = (selAt i).c`
(pinned by `TargetSpec.c_edge`). -/
theorem discover_edges_of_survivors (h : discover P est perms lasso s T n = .ok r)
    (hm : P.method = methodName std) {i : Nat} (hi : i < n) :
    r.sel[i]? = some (selAt P est perms lasso s T n std i).S ∧
    r.edges.filter (fun e => e.dst == i) = edgesAt P est perms lasso s T n std i ∧
    EdgeSpec P est perms lasso s T n std i := by
  refine ⟨sel_getElem? h hm hi, ?_, edgeSpec i⟩
  rw [result_eq h hm]
  dsimp only
  rw [C01.filter_dst_flatMap_range (fun i => edgesAt P est perms lasso s T n std i)
    (fun i' e he => edgesFrom_dst he) n i, if_pos hi]

/-- **`discover_spec`: (1) + (2) + (3) + C06 in one record.** If `discover` succeeds with
`method = "standard"` / `"alternative"`, `max_lag ≥ 1`, and on every target the stream entry read at
the backward draw is a permutation of the forward set, then the result satisfies `DiscoverSpec`:
`r.sel`, `r.evs`, `r.edges`, `r.draws` are the concatenations over the targets `0..n-1` of the
per-target objects; each target's selection obeys the oCSE rule with pinned stream indices
(`TargetSpec`); every reported parent passed one forward and one backward `shuffleTest`
(`ParentTests`); the edges are one per survivor with C01's cmi / p-value (`EdgeSpec`); and the graph
is well-formed (`edge_wf`, `no_dup`: C06). -/
theorem discover_spec (h : discover P est perms lasso s T n = .ok r)
    (hm : P.method = methodName std) (hL : 1 ≤ P.L)
    (hperm : ∀ i, i < n → PermOK P est perms lasso s T n std i) :
    DiscoverSpec P est perms lasso s T n std r := by
  have hl : IsLassoMethod P.method → C06.LassoOK lasso n P.L := by
    intro hl
    rw [hm] at hl
    exact absurd hl (not_lasso_methodName std)
  have hr := result_eq h hm
  refine ⟨by rw [hr], ?_, by rw [hr], fun i hi => (discover_edges_of_survivors h hm hi).2.1,
    by rw [hr], rfl, fun i hi => targetSpec_of_permOK i (hperm i hi), fun i _ => selAt_good i,
    fun i hi x hx => parentTests_of_permOK i (hperm i hi) hx, fun i _ => edgeSpec i,
    C06.edge_wf h hL hl, C06.no_duplicate_triple h hl⟩
  rw [hr]
  dsimp only
  apply List.flatMap_congr
  intro i hi
  rw [(targetSpec_of_permOK i (hperm i (List.mem_range.mp hi))).sel_evs]

end theorems

/-! ## 5. Kernel-evaluable form of the oracles

`percentile` sorts with the well-founded `List.mergeSort`, which the kernel cannot unfold. Insertion
sort (structural recursion) yields the same list, so `oraclesOf` equals a record `oraclesOf'` that
`decide +kernel` can evaluate. Used for the concrete runs of §6 only. -/
namespace Kernel

def sortRat' (l : List Rat) : List Rat := l.insertionSort (· ≤ ·)

theorem sortRat_eq (l : List Rat) : sortRat l = sortRat' l :=
  List.Perm.eq_of_pairwise (le := (· ≤ ·)) (fun _ _ _ _ h1 h2 => le_antisymm h1 h2)
    (C03.sortRat_pairwise l) (List.pairwise_insertionSort _ l)
    ((C03.sortRat_perm l).trans (List.perm_insertionSort _ l).symm)

def percentile' (null : List Rat) (α : Rat) : Rat :=
  let n := null.length
  let s := sortRat' null
  let h : Rat := ((n : Rat) - 1) * (1 - α)
  let lo := h.floor.toNat
  let hi := min (lo + 1) (n - 1)
  let γ : Rat := h - (lo : Rat)
  s.getD lo 0 + γ * (s.getD hi 0 - s.getD lo 0)

theorem percentile_eq' (null : List Rat) (α : Rat) : percentile null α = percentile' null α := by
  unfold percentile percentile'
  rw [sortRat_eq]

def decideTest' (null : List Val) (obs : Val) (α : Rat) : TestResult :=
  let n := null.length
  let thr : Val :=
    match null.mapM finOf with
    | some qs => .fin (percentile' qs α)
    | none => .nan
  let cnt := null.countP (fun v => Val.ge v obs)
  { thr := thr, value := obs, pass := Val.gt obs thr, p := (cnt : Rat) / (n : Rat) }

theorem decideTest_eq' (null : List Val) (obs : Val) (α : Rat) :
    decideTest null obs α = decideTest' null obs α := by
  unfold decideTest decideTest'
  simp only [percentile_eq']
  rfl

def oraclesOf' (est : Est) (perms : Nat → List Nat) (s : Mat) (L T nSh i : Nat) : Oracles where
  f j Z := est (xCol s L T j) (targetCol s L T i) (Z.map (xCol s L T))
  test c α j Z v :=
    let r := decideTest' (((List.range nSh).map (fun k => perms (c + k))).map
      (fun π => est (permute (xCol s L T j) π) (targetCol s L T i) (Z.map (xCol s L T)))) v α
    (r.pass, r.p)
  order c _ := perms c
  cost := nSh

theorem oraclesOf_eq' (est : Est) (perms : Nat → List Nat) (s : Mat) (L T nSh i : Nat) :
    oraclesOf est perms s L T nSh i = oraclesOf' est perms s L T nSh i := by
  unfold oraclesOf oraclesOf' shuffleTest
  simp only [decideTest_eq']

/-- `fwdAt` / `selAt` over an arbitrary family of oracles (to rewrite `oraclesOf` into `oraclesOf'`) -/
def fwdAtW (orc : Nat → Oracles) (lasso : Nat → List Nat) (αf αb : Rat) (L n : Nat) (std : Bool)
    (i : Nat) : St :=
  if std then fwdStdRun (orc i) αf (n * L) (ownLags L i) (drawsBefore (methodOf std) orc lasso αf αb L n i)
  else fwdAltRun (orc i) αf (n * L) (drawsBefore (methodOf std) orc lasso αf αb L n i)

theorem fwdAt_eq (P : Params) (est : Est) (perms : Nat → List Nat) (lasso : Nat → List Nat)
    (s : Mat) (T n : Nat) (std : Bool) (i : Nat) :
    fwdAt P est perms lasso s T n std i =
      fwdAtW (fun j => oraclesOf' est perms s P.L T P.nShuffles j) lasso P.αf P.αb P.L n std i := by
  have : (fun j => oraclesOf' est perms s P.L T P.nShuffles j) = orc P est perms s T :=
    funext (fun j => (oraclesOf_eq' ..).symm)
  rw [this]
  rfl

theorem discover_eq (P : Params) (est : Est) (perms : Nat → List Nat) (lasso : Nat → List Nat)
    (s : Mat) (T n : Nat) (std : Bool) (hm : P.method = methodName std)
    (hi : P.information ∈ supportedInformation) (hT : P.L + 2 < T) :
    discover P est perms lasso s T n =
      .ok (discoverWith (methodOf std) (fun j => oraclesOf' est perms s P.L T P.nShuffles j) lasso
        P.αf P.αb P.L n) := by
  have : (fun j => oraclesOf' est perms s P.L T P.nShuffles j) = orc P est perms s T :=
    funext (fun j => (oraclesOf_eq' ..).symm)
  rw [this]
  unfold discover
  rw [hm, parseMethod_methodName]
  have hT' : ¬ T ≤ P.L + 2 := by omega
  simp [hi, hT']

end Kernel

/-! ## 6. Non-vacuity: two fully evaluated runs (`n = 2`, `L = 2`, `T = 7`, 3 shuffles)

Columns: `0 = (X0, lag 1)`, `1 = (X0, lag 2)`, `2 = (X1, lag 1)`, `3 = (X1, lag 2)`.
`αf = 1/10 ≠ αb = 1/20`. The streams are row permutations of the 5 aligned rows except at the two
backward draws of each run, where they hold a permutation of the forward set of that target (as
`rng.permutation(S_init)` does). -/

def exSeries : Mat := [[0,1],[1,3],[2,0],[3,5],[4,2],[5,9],[6,4]]

def dot (x y : Col) : Rat := (List.zipWith (· * ·) x y).foldl (· + ·) 0

/-- a finite, conditioning-dependent estimator: `⟨x, y - Σ z⟩² / (1 + ⟨x, x⟩)` -/
def exEst : Est := fun x y z =>
  let yr := z.foldl (fun acc c => List.zipWith (· - ·) acc c) y
  .fin ((dot x yr) * (dot x yr) / (1 + dot x x))

def rowPerm (c : Nat) : List Nat :=
  if c % 3 = 0 then [1,0,2,4,3] else if c % 3 = 1 then [4,3,2,1,0] else [2,0,1,3,4]

/-- stream of the standard run: backward draws at entries 12 and 37 -/
def exPermsStd : Nat → List Nat := fun c =>
  if c = 12 then [1,0,2] else if c = 37 then [2] else rowPerm c

/-- stream of the alternative run: backward draws at entries 6 and 25 -/
def exPermsAlt : Nat → List Nat := fun c =>
  if c = 6 then [0] else if c = 25 then [2,3,0] else rowPerm c

def exLasso : Nat → List Nat := fun _ => []

def exP (std : Bool) : Params :=
  { method := methodName std, information := "gaussian", L := 2, αf := 1/10, αb := 1/20,
    nShuffles := 3 }

/-- the estimator is finite everywhere: the hypothesis of `discover_parent_p_le` holds as well -/
theorem exEst_finite : ∀ a b z, ∃ q, exEst a b z = Val.fin q := fun _ _ _ => ⟨_, rfl⟩

/-- **Standard run.** `discover` succeeds; target 0: forward set `[1,0,2]` (column 3 rejected),
backward draw at entry `12 = 0 + 4·3` holds `[1,0,2]`, backward drops 1 and 0; target 1 starts at
entry 25, forward set `[2]`, backward draw at entry `37 = 25 + 4·3` holds `[2]`, which is then
dropped. All hypotheses of `discover_spec` hold, hence its conclusion. -/
theorem example_standard :
    ∃ r, discover (exP true) exEst exPermsStd exLasso exSeries 7 2 = .ok r ∧
      (exP true).method = "standard" ∧ 1 ≤ (exP true).L ∧ 1 ≤ (exP true).nShuffles ∧
      (∀ i, i < 2 → PermOK (exP true) exEst exPermsStd exLasso exSeries 7 2 true i) ∧
      (fwdAt (exP true) exEst exPermsStd exLasso exSeries 7 2 true 0).S = [1, 0, 2] ∧
      (fwdAt (exP true) exEst exPermsStd exLasso exSeries 7 2 true 0).c = 12 ∧
      (fwdAt (exP true) exEst exPermsStd exLasso exSeries 7 2 true 1).S = [2] ∧
      (fwdAt (exP true) exEst exPermsStd exLasso exSeries 7 2 true 1).c = 37 ∧
      r.sel = [[2], []] ∧ r.draws = 41 ∧
      r.edges.map (fun e => (e.src, e.dst, e.lag, e.p)) = [(1, 0, 1, 0)] ∧
      r.evs.map (fun e => (e.phase, e.cand, e.cond, e.pass)) =
        [(.fwd, 1, [0, 1], true), (.fwd, 0, [0, 1, 1], true), (.fwd, 2, [0, 1, 1, 0], true),
         (.fwd, 3, [0, 1, 1, 0, 2], false),
         (.bwd, 1, [0, 2], false), (.bwd, 0, [2], false), (.bwd, 2, [], true),
         (.edge, 2, [], true),
         (.fwd, 2, [2, 3], true), (.fwd, 0, [2, 3, 2], false), (.fwd, 1, [2, 3, 2], false),
         (.fwd, 3, [2, 3, 2], false),
         (.bwd, 2, [], false)] ∧
      DiscoverSpec (exP true) exEst exPermsStd exLasso exSeries 7 2 true r := by
  have hr := Kernel.discover_eq (exP true) exEst exPermsStd exLasso exSeries 7 2 true rfl
    (by decide) (by decide)
  have hF0 : fwdAt (exP true) exEst exPermsStd exLasso exSeries 7 2 true 0 = _ := Kernel.fwdAt_eq ..
  have hF1 : fwdAt (exP true) exEst exPermsStd exLasso exSeries 7 2 true 1 = _ := Kernel.fwdAt_eq ..
  have hperm : ∀ i, i < 2 → PermOK (exP true) exEst exPermsStd exLasso exSeries 7 2 true i := by
    intro i hi
    unfold PermOK
    obtain rfl | rfl : i = 0 ∨ i = 1 := by omega
    · rw [hF0]; decide +kernel
    · rw [hF1]; decide +kernel
  refine ⟨_, hr, rfl, by decide, by decide, hperm, ?_, ?_, ?_, ?_, ?_, ?_, ?_, ?_,
    discover_spec hr rfl (by decide) hperm⟩
  · rw [hF0]; decide +kernel
  · rw [hF0]; decide +kernel
  · rw [hF1]; decide +kernel
  · rw [hF1]; decide +kernel
  · decide +kernel
  · decide +kernel
  · decide +kernel
  · decide +kernel

/-- **Alternative run.** Target 0: forward `[0]` (then column 1 rejected: stop), backward draw at
entry `6 = 0 + 2·3`; target 1 starts at entry 13, forward set `[3,0,2]` after 4 tests, backward draw
at entry `25 = 13 + 4·3` holds `[2,3,0]`; backward keeps 2, drops 3 and 0. The reported edge
`X1(t-1) → X1` carries `p = 2/3`: the edge loop re-tests but does not filter. -/
theorem example_alternative :
    ∃ r, discover (exP false) exEst exPermsAlt exLasso exSeries 7 2 = .ok r ∧
      (exP false).method = "alternative" ∧ 1 ≤ (exP false).L ∧ 1 ≤ (exP false).nShuffles ∧
      (∀ i, i < 2 → PermOK (exP false) exEst exPermsAlt exLasso exSeries 7 2 false i) ∧
      (fwdAt (exP false) exEst exPermsAlt exLasso exSeries 7 2 false 0).S = [0] ∧
      (fwdAt (exP false) exEst exPermsAlt exLasso exSeries 7 2 false 0).c = 6 ∧
      (fwdAt (exP false) exEst exPermsAlt exLasso exSeries 7 2 false 1).S = [3, 0, 2] ∧
      (fwdAt (exP false) exEst exPermsAlt exLasso exSeries 7 2 false 1).c = 25 ∧
      r.sel = [[0], [2]] ∧ r.draws = 38 ∧
      r.edges.map (fun e => (e.src, e.dst, e.lag, e.p)) = [(0, 0, 1, 0), (1, 1, 1, 2/3)] ∧
      r.evs.map (fun e => (e.phase, e.cand, e.cond, e.pass)) =
        [(.fwd, 0, [], true), (.fwd, 1, [0], false),
         (.bwd, 0, [], true),
         (.edge, 0, [], true),
         (.fwd, 3, [], true), (.fwd, 0, [3], true), (.fwd, 2, [3, 0], true),
         (.fwd, 1, [3, 0, 2], false),
         (.bwd, 2, [3, 0], true), (.bwd, 3, [0, 2], false), (.bwd, 0, [2], false),
         (.edge, 2, [], false)] ∧
      DiscoverSpec (exP false) exEst exPermsAlt exLasso exSeries 7 2 false r := by
  have hr := Kernel.discover_eq (exP false) exEst exPermsAlt exLasso exSeries 7 2 false rfl
    (by decide) (by decide)
  have hF0 : fwdAt (exP false) exEst exPermsAlt exLasso exSeries 7 2 false 0 = _ := Kernel.fwdAt_eq ..
  have hF1 : fwdAt (exP false) exEst exPermsAlt exLasso exSeries 7 2 false 1 = _ := Kernel.fwdAt_eq ..
  have hperm : ∀ i, i < 2 → PermOK (exP false) exEst exPermsAlt exLasso exSeries 7 2 false i := by
    intro i hi
    unfold PermOK
    obtain rfl | rfl : i = 0 ∨ i = 1 := by omega
    · rw [hF0]; decide +kernel
    · rw [hF1]; decide +kernel
  refine ⟨_, hr, rfl, by decide, by decide, hperm, ?_, ?_, ?_, ?_, ?_, ?_, ?_, ?_,
    discover_spec hr rfl (by decide) hperm⟩
  · rw [hF0]; decide +kernel
  · rw [hF0]; decide +kernel
  · rw [hF1]; decide +kernel
  · rw [hF1]; decide +kernel
  · decide +kernel
  · decide +kernel
  · decide +kernel
  · decide +kernel

/-- the remaining hypotheses of `discover_parent_p_le` on these instances -/
example : (0 : Rat) < (exP true).αf ∧ (exP true).αf < 1 ∧ 0 < (exP true).αb ∧ (exP true).αb < 1 := by
  refine ⟨?_, ?_, ?_, ?_⟩ <;> decide +kernel

end CE.Disc.Master
