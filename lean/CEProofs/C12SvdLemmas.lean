import Mathlib.Analysis.InnerProductSpace.SingularValues
import Mathlib.Analysis.InnerProductSpace.Spectrum
import Mathlib.Analysis.InnerProductSpace.PiL2
import Mathlib.Analysis.InnerProductSpace.Adjoint
import Mathlib.LinearAlgebra.Charpoly.ToMatrix
import Mathlib.LinearAlgebra.Matrix.Charpoly.Basic
import Mathlib.LinearAlgebra.Matrix.NonsingularInverse
import Mathlib.LinearAlgebra.UnitaryGroup

/-! # C12 — singular-value lemmas for the local ellipsoid correction (pure linear algebra)

No model here: this file is the linear algebra that `CEProofs/C12Svd.lean` applies to the local
configurations of the geometric k-NN entropy estimator. Everything is over ℝ and built on Mathlib's
`LinearMap.singularValues` (`Mathlib/Analysis/InnerProductSpace/SingularValues.lean`: the square
roots of the eigenvalues of `T* T`, sorted in descending order, zero-indexed, `0` beyond the rank).

* `LinearMap.IsSymmetric.eigenvalues_eq_of_charpoly`: the sorted eigenvalues of a symmetric operator
  are the unique antitone enumeration of the roots of its characteristic polynomial.
* `LinearMap.singularValues_eq_of_charpoly`, `LinearMap.singularValues_smul`.
* `CE.Svd.sv M l`: the `l`-th singular value of a real matrix `M` (rows = points);
  `sv_rot` (`sv (M Qᵀ) = sv M` for orthogonal `Q`), `sv_scale` (`sv (a M) l = |a| sv M l`).
* `CE.Svd.qf G z = zᵀ G⁻¹ z` and its invariance `qf_rot`, `qf_scale` (+ `det_rot`,
  `det_scale_ne_zero_iff`, `gram_rot`, `gram_scale`).
* bridge lemmas `qf_eq_sum_eigenbasis`, `qf_eq_sum_singular`: for an invertible Gram matrix and ANY
  orthonormal eigenbasis (whatever the SVD routine returns), the SVD form of the ellipsoid test
  `Σ_j ((z·v_j)/σ_j)²` is `zᵀ G⁻¹ z`; `exists_right_singular_basis`: such a basis exists with
  `σ_j = sv M j`; `qf_eq_sum_sv`: hence `Σ_j ((z·v_j)/sv M j)² = zᵀ (MᵀM)⁻¹ z`.
* `le_sv_of_forall`: a quantitative lower bound on the singular values (used by the examples). -/

set_option linter.unusedSectionVars false

open Module Polynomial

namespace LinearMap.IsSymmetric
variable {𝕜 : Type*} [RCLike 𝕜] {E : Type*} [NormedAddCommGroup E] [InnerProductSpace 𝕜 E]
  [FiniteDimensional 𝕜 E] {T : E →ₗ[𝕜] E} {n : ℕ}

/-- the sorted eigenvalues are determined by the characteristic polynomial -/
theorem eigenvalues_eq_of_charpoly (hT : T.IsSymmetric) (hn : finrank 𝕜 E = n) (g : Fin n → ℝ)
    (hg : Antitone g) (h : T.charpoly = ∏ i, (X - C (g i : 𝕜))) : hT.eigenvalues hn = g := by
  rw [← List.ofFn_inj, ← hT.sort_roots_charpoly_eq_eigenvalues hn, h,
    Polynomial.roots_prod _ _ (by simp [Finset.prod_ne_zero_iff, Polynomial.X_sub_C_ne_zero])]
  simp_rw [Polynomial.roots_X_sub_C]
  simp only [Multiset.bind_singleton, Multiset.map_map, Function.comp_def, RCLike.ofReal_re]
  simp_rw [Fin.univ_val_map, Multiset.coe_sort]
  convert List.mergeSort_of_pairwise ?_
  simp_rw [decide_eq_true_eq, ← List.sortedGE_iff_pairwise]
  exact hg.sortedGE_ofFn

end LinearMap.IsSymmetric

namespace LinearMap
section real
variable {E : Type*} [NormedAddCommGroup E] [InnerProductSpace ℝ E] [FiniteDimensional ℝ E]
  {F : Type*} [NormedAddCommGroup F] [InnerProductSpace ℝ F] [FiniteDimensional ℝ F]
  {E' : Type*} [NormedAddCommGroup E'] [InnerProductSpace ℝ E'] [FiniteDimensional ℝ E']
  {F' : Type*} [NormedAddCommGroup F'] [InnerProductSpace ℝ F'] [FiniteDimensional ℝ F']

/-- the sorted eigenvalues of `r • S`, `r ≥ 0` -/
theorem IsSymmetric.eigenvalues_smul {S : E →ₗ[ℝ] E} (hS : S.IsSymmetric) {n : ℕ}
    (hn : finrank ℝ E = n) (r : ℝ) (hr : 0 ≤ r) (hrS : (r • S).IsSymmetric) :
    hrS.eigenvalues hn = fun i => r * hS.eigenvalues hn i := by
  apply hrS.eigenvalues_eq_of_charpoly hn
  · intro i j hij
    exact mul_le_mul_of_nonneg_left (hS.eigenvalues_antitone hn hij) hr
  · rw [← (r • S).charpoly_toMatrix (hS.eigenvectorBasis hn).toBasis, map_smul,
      hS.toMatrix_eigenvectorBasis hn]
    have : r • Matrix.diagonal ((RCLike.ofReal : ℝ → ℝ) ∘ hS.eigenvalues hn)
        = Matrix.diagonal (fun i => r * hS.eigenvalues hn i) := by
      ext i j
      simp [Matrix.diagonal_apply]
    rw [this, Matrix.charpoly_diagonal]
    simp

/-- singular values are determined by the characteristic polynomial of `T* T` -/
theorem singularValues_eq_of_charpoly (T : E →ₗ[ℝ] F) (T' : E' →ₗ[ℝ] F')
    (hE : finrank ℝ E' = finrank ℝ E)
    (h : (adjoint T ∘ₗ T).charpoly = (adjoint T' ∘ₗ T').charpoly) :
    T.singularValues = T'.singularValues := by
  ext i
  by_cases hi : i < finrank ℝ E
  · rw [T.singularValues_of_lt rfl hi, T'.singularValues_of_lt hE hi]
    congr 1
    exact congrFun ((IsSymmetric.eigenvalues_eq_eigenvalues_iff _ rfl _ hE).mpr h) ⟨i, hi⟩
  · rw [T.singularValues_of_finrank_le (not_lt.mp hi),
      T'.singularValues_of_finrank_le (hE ▸ not_lt.mp hi)]

/-- `σ_i (c T) = |c| σ_i (T)` -/
theorem singularValues_smul (T : E →ₗ[ℝ] F) (c : ℝ) (i : ℕ) :
    (c • T).singularValues i = |c| * T.singularValues i := by
  by_cases hi : i < finrank ℝ E
  · rw [T.singularValues_of_lt rfl hi, (c • T).singularValues_of_lt rfl hi]
    have e : adjoint (c • T) ∘ₗ (c • T) = (c * c) • (adjoint T ∘ₗ T) := by
      ext x
      simp [mul_smul]
    have hsym : ((c * c) • (adjoint T ∘ₗ T)).IsSymmetric := e ▸ (c • T).isSymmetric_adjoint_comp_self
    have h1 : (c • T).isSymmetric_adjoint_comp_self.eigenvalues rfl
        = hsym.eigenvalues rfl := by
      congr 1
    rw [h1, T.isSymmetric_adjoint_comp_self.eigenvalues_smul rfl (c * c) (mul_self_nonneg c) hsym,
      Real.sqrt_mul (mul_self_nonneg c), Real.sqrt_mul_self_eq_abs]
  · rw [T.singularValues_of_finrank_le (not_lt.mp hi),
      (c • T).singularValues_of_finrank_le (not_lt.mp hi), mul_zero]

end real
end LinearMap

/-! ### matrices -/

open Matrix WithLp

namespace CE.Svd
variable {m n : Type*} [Fintype m] [DecidableEq m] [Fintype n] [DecidableEq n]
/-- the `l`-th singular value (zero-indexed, descending, `0` beyond the rank) of a real matrix,
as a linear map between Euclidean spaces -/
noncomputable def sv (M : Matrix m n ℝ) (l : ℕ) : ℝ := (Matrix.toEuclideanLin M).singularValues l

/-- `T* T` of the linear map of `M` is the linear map of the Gram matrix `MᵀM` -/
theorem adjoint_comp_self (M : Matrix m n ℝ) :
    LinearMap.adjoint (Matrix.toEuclideanLin M) ∘ₗ Matrix.toEuclideanLin M
      = Matrix.toEuclideanLin (Mᵀ * M) := by
  rw [← Matrix.toEuclideanLin_conjTranspose_eq_adjoint, Matrix.conjTranspose_eq_transpose_of_trivial,
    Matrix.toLpLin_mul 2 2 2]

theorem charpoly_toEuclideanLin (G : Matrix n n ℝ) :
    (Matrix.toEuclideanLin G).charpoly = G.charpoly := by
  exact Matrix.charpoly_toLin G (PiLp.basisFun 2 ℝ n)

/-- the singular values only depend on the characteristic polynomial of the Gram matrix -/
theorem sv_eq_of_gram_charpoly {m' : Type*} [Fintype m'] [DecidableEq m'] (M : Matrix m n ℝ)
    (M' : Matrix m' n ℝ) (h : (Mᵀ * M).charpoly = (M'ᵀ * M').charpoly) : sv M = sv M' := by
  funext l
  unfold sv
  rw [LinearMap.singularValues_eq_of_charpoly (Matrix.toEuclideanLin M) (Matrix.toEuclideanLin M') rfl]
  rw [adjoint_comp_self, adjoint_comp_self, charpoly_toEuclideanLin, charpoly_toEuclideanLin, h]

/-- **sv_rot.** For an orthogonal `Q` (`QᵀQ = 1`) the matrix `M Qᵀ` — every row `y` of `M` replaced
by `Q y` — has the singular values of `M`: its Gram matrix `Q (MᵀM) Qᵀ` has the characteristic
polynomial of `MᵀM`. -/
theorem sv_rot (M : Matrix m n ℝ) (Q : Matrix n n ℝ) (hQ : Qᵀ * Q = 1) : sv (M * Qᵀ) = sv M := by
  apply sv_eq_of_gram_charpoly
  have : (M * Qᵀ)ᵀ * (M * Qᵀ) = Q * ((Mᵀ * M) * Qᵀ) := by
    rw [Matrix.transpose_mul, Matrix.transpose_transpose]
    simp only [Matrix.mul_assoc]
  rw [this, Matrix.charpoly_mul_comm, Matrix.mul_assoc, hQ, Matrix.mul_one]

/-- **sv_scale.** `σ_l(a M) = |a| σ_l(M)`. -/
theorem sv_scale (M : Matrix m n ℝ) (a : ℝ) (l : ℕ) : sv (a • M) l = |a| * sv M l := by
  unfold sv
  rw [map_smul, LinearMap.singularValues_smul]

/-- **singularValues_rot**, in Mathlib's own terms. -/
theorem singularValues_rot (M : Matrix m n ℝ) (Q : Matrix n n ℝ) (hQ : Qᵀ * Q = 1) :
    (Matrix.toEuclideanLin (M * Qᵀ)).singularValues = (Matrix.toEuclideanLin M).singularValues :=
  Finsupp.ext (congrFun (sv_rot M Q hQ))

/-- **singularValues_scale**, in Mathlib's own terms. -/
theorem singularValues_scale (M : Matrix m n ℝ) (a : ℝ) (ha : 0 < a) (l : ℕ) :
    (Matrix.toEuclideanLin (a • M)).singularValues l
      = a * (Matrix.toEuclideanLin M).singularValues l := by
  have := sv_scale M a l
  rwa [abs_of_pos ha] at this

/-- membership in `Matrix.orthogonalGroup` is the hypothesis `Qᵀ Q = 1` used throughout -/
theorem orth_of_mem_orthogonalGroup {Q : Matrix n n ℝ} (hQ : Q ∈ Matrix.orthogonalGroup n ℝ) :
    Qᵀ * Q = 1 := by
  exact (Matrix.mem_orthogonalGroup_iff' (A := Q)).mp hQ

theorem sv_nonneg (M : Matrix m n ℝ) (l : ℕ) : 0 ≤ sv M l :=
  LinearMap.singularValues_nonneg _ l

/-! ### the quadratic form of the ellipsoid test -/

/-- the quadratic form `zᵀ G⁻¹ z` of the ellipsoid test -/
noncomputable def qf (G : Matrix n n ℝ) (z : n → ℝ) : ℝ := z ⬝ᵥ (G⁻¹ *ᵥ z)

theorem orth_comm {Q : Matrix n n ℝ} (hQ : Qᵀ * Q = 1) : Q * Qᵀ = 1 := mul_eq_one_comm.mp hQ

theorem mulVec_dot {m n : Type*} [Fintype m] [Fintype n] (Q : Matrix m n ℝ) (z : n → ℝ)
    (w : m → ℝ) : (Q *ᵥ z) ⬝ᵥ w = z ⬝ᵥ (Qᵀ *ᵥ w) := by
  rw [dotProduct_comm, Matrix.dotProduct_mulVec, ← Matrix.mulVec_transpose, dotProduct_comm]

/-- rotating the rows of the configuration (`G ↦ Q G Qᵀ`) and the test vector (`z ↦ Q z`)
leaves the quadratic form unchanged — also when `G` is singular (`G⁻¹ = 0` on both sides) -/
theorem qf_rot (G Q : Matrix n n ℝ) (hQ : Qᵀ * Q = 1) (z : n → ℝ) :
    qf (Q * (G * Qᵀ)) (Q *ᵥ z) = qf G z := by
  have hQ' := orth_comm hQ
  have i1 : Q⁻¹ = Qᵀ := Matrix.inv_eq_left_inv hQ
  have i2 : Qᵀ⁻¹ = Q := Matrix.inv_eq_left_inv hQ'
  unfold qf
  rw [Matrix.mul_inv_rev, Matrix.mul_inv_rev, i1, i2, mulVec_dot, Matrix.mulVec_mulVec,
    Matrix.mulVec_mulVec]
  congr 2
  calc Qᵀ * (Q * G⁻¹ * Qᵀ) * Q = (Qᵀ * Q) * G⁻¹ * (Qᵀ * Q) := by simp only [Matrix.mul_assoc]
    _ = G⁻¹ := by rw [hQ, Matrix.one_mul, Matrix.mul_one]

/-- the determinant of the rotated Gram matrix -/
theorem det_rot (G Q : Matrix n n ℝ) (hQ : Qᵀ * Q = 1) : (Q * (G * Qᵀ)).det = G.det := by
  rw [Matrix.det_mul_comm, Matrix.mul_assoc, hQ, Matrix.mul_one]

/-- scaling the rows (`G ↦ a² G`) and the test vector (`z ↦ a z`) leaves the quadratic form
unchanged — also when `G` is singular -/
theorem qf_scale (G : Matrix n n ℝ) (a : ℝ) (ha : a ≠ 0) (z : n → ℝ) :
    qf ((a * a) • G) (a • z) = qf G z := by
  unfold qf
  by_cases h : IsUnit G.det
  · have haa : a * a ≠ 0 := mul_ne_zero ha ha
    have e : ((a * a) • G)⁻¹ = (a * a)⁻¹ • G⁻¹ := by
      apply Matrix.inv_eq_left_inv
      rw [Matrix.smul_mul, Matrix.mul_smul, smul_smul, inv_mul_cancel₀ haa, one_smul,
        Matrix.nonsing_inv_mul _ h]
    rw [e, Matrix.smul_mulVec, Matrix.mulVec_smul, dotProduct_smul, smul_dotProduct,
      dotProduct_smul]
    simp only [smul_eq_mul]
    field_simp
  · have h' : ¬ IsUnit ((a * a) • G).det := by
      rw [Matrix.det_smul]
      intro hu
      exact h (isUnit_iff_ne_zero.mpr (right_ne_zero_of_mul (isUnit_iff_ne_zero.mp hu)))
    rw [Matrix.nonsing_inv_apply_not_isUnit _ h, Matrix.nonsing_inv_apply_not_isUnit _ h']
    simp

theorem det_scale_ne_zero_iff (G : Matrix n n ℝ) (a : ℝ) (ha : a ≠ 0) :
    ((a * a) • G).det ≠ 0 ↔ G.det ≠ 0 := by
  rw [Matrix.det_smul]
  have : (a * a) ^ Fintype.card n ≠ 0 := pow_ne_zero _ (mul_ne_zero ha ha)
  constructor
  · intro h hz; exact h (by rw [hz, mul_zero])
  · intro h; exact mul_ne_zero this h

/-- the Gram matrix of the rotated configuration -/
theorem gram_rot {m : Type*} [Fintype m] (M : Matrix m n ℝ) (Q : Matrix n n ℝ) :
    (M * Qᵀ)ᵀ * (M * Qᵀ) = Q * ((Mᵀ * M) * Qᵀ) := by
  rw [Matrix.transpose_mul, Matrix.transpose_transpose]
  simp only [Matrix.mul_assoc]

/-- the Gram matrix of the scaled configuration -/
theorem gram_scale {m : Type*} [Fintype m] (M : Matrix m n ℝ) (a : ℝ) :
    (a • M)ᵀ * (a • M) = (a * a) • (Mᵀ * M) := by
  rw [Matrix.transpose_smul, Matrix.smul_mul, Matrix.mul_smul, smul_smul]

/-- **Bridge lemma.** `G` symmetric and invertible, `b` ANY orthonormal basis of eigenvectors with
eigenvalues `lam` (`G b_j = λ_j b_j`): `Σ_j (z·b_j)²/λ_j = zᵀ G⁻¹ z`. (The `λ_j` are then non-zero.) -/
theorem qf_eq_sum_eigenbasis {ι : Type*} [Fintype ι] (G : Matrix n n ℝ) (hG : Gᵀ = G)
    (hdet : G.det ≠ 0) (b : OrthonormalBasis ι ℝ (EuclideanSpace ℝ n)) (lam : ι → ℝ)
    (hb : ∀ j, G *ᵥ ofLp (b j) = lam j • ofLp (b j)) (z : n → ℝ) :
    ∑ j, (z ⬝ᵥ ofLp (b j)) ^ 2 / lam j = qf G z := by
  have hu : IsUnit G.det := isUnit_iff_ne_zero.mpr hdet
  have hinv : ∀ j, lam j • (G⁻¹ *ᵥ ofLp (b j)) = ofLp (b j) := by
    intro j
    rw [← Matrix.mulVec_smul, ← hb j, Matrix.mulVec_mulVec, Matrix.nonsing_inv_mul _ hu,
      Matrix.one_mulVec]
  have hlam : ∀ j, lam j ≠ 0 := by
    intro j h0
    have h1 := hinv j
    rw [h0, zero_smul] at h1
    have h2 : b j = 0 := by
      apply WithLp.ofLp_injective
      rw [← h1]; rfl
    exact b.orthonormal.ne_zero j h2
  have hGi : G⁻¹ᵀ = G⁻¹ := by rw [Matrix.transpose_nonsing_inv, hG]
  have key := b.sum_inner_mul_inner (toLp 2 z) (toLp 2 (G⁻¹ *ᵥ z))
  rw [EuclideanSpace.inner_toLp_toLp] at key
  simp only [star_trivial] at key
  unfold qf
  rw [dotProduct_comm, ← key]
  apply Finset.sum_congr rfl
  intro j _
  rw [EuclideanSpace.inner_eq_star_dotProduct, EuclideanSpace.inner_eq_star_dotProduct]
  simp only [star_trivial]
  have e : (G⁻¹ *ᵥ z) ⬝ᵥ ofLp (b j) = (lam j)⁻¹ * (z ⬝ᵥ ofLp (b j)) := by
    rw [mulVec_dot, hGi]
    have : G⁻¹ *ᵥ ofLp (b j) = (lam j)⁻¹ • ofLp (b j) := by
      rw [← hinv j, smul_smul, inv_mul_cancel₀ (hlam j), one_smul, hinv j]
    rw [this, dotProduct_smul, smul_eq_mul]
  rw [e, dotProduct_comm (ofLp (b j)) z]
  field_simp [hlam j]

/-- **Bridge lemma, SVD form.** `M` is the (centred) configuration, rows = points; `b` ANY orthonormal
basis of right singular vectors with singular values `sig` (`MᵀM v_j = σ_j² v_j`). If the Gram matrix
is invertible, the sum the code evaluates, `Σ_j ((z·v_j)/σ_j)²`, is `zᵀ (MᵀM)⁻¹ z`. -/
theorem qf_eq_sum_singular {ι : Type*} [Fintype ι] (M : Matrix m n ℝ) (hdet : (Mᵀ * M).det ≠ 0)
    (b : OrthonormalBasis ι ℝ (EuclideanSpace ℝ n)) (sig : ι → ℝ)
    (hb : ∀ j, (Mᵀ * M) *ᵥ ofLp (b j) = (sig j ^ 2) • ofLp (b j)) (z : n → ℝ) :
    ∑ j, ((z ⬝ᵥ ofLp (b j)) / sig j) ^ 2 = qf (Mᵀ * M) z := by
  rw [← qf_eq_sum_eigenbasis (Mᵀ * M) (by rw [Matrix.transpose_mul, Matrix.transpose_transpose])
    hdet b _ hb z]
  exact Finset.sum_congr rfl (fun j _ => div_pow _ _ _)

/-! ### right singular vectors -/

section fin
variable {d : ℕ}

/-- there is an orthonormal basis of right singular vectors: `YᵀY v_j = σ_j² v_j` with `σ_j` the
sorted singular values -/
theorem exists_right_singular_basis (M : Matrix m (Fin d) ℝ) :
    ∃ b : OrthonormalBasis (Fin d) ℝ (EuclideanSpace ℝ (Fin d)),
      ∀ j : Fin d, (Mᵀ * M) *ᵥ ofLp (b j) = (sv M j ^ 2) • ofLp (b j) := by
  have hn : finrank ℝ (EuclideanSpace ℝ (Fin d)) = d := finrank_euclideanSpace_fin
  have hS := (Matrix.toEuclideanLin M).isSymmetric_adjoint_comp_self
  refine ⟨hS.eigenvectorBasis hn, fun j => ?_⟩
  have h := hS.apply_eigenvectorBasis hn j
  have h' : Matrix.toEuclideanLin (Mᵀ * M) (hS.eigenvectorBasis hn j)
      = ((hS.eigenvalues hn j : ℝ) : ℝ) • hS.eigenvectorBasis hn j := by
    rw [← adjoint_comp_self]; exact h
  have h2 := congrArg ofLp h'
  rw [Matrix.ofLp_toLpLin] at h2
  unfold sv
  rw [(Matrix.toEuclideanLin M).sq_singularValues_fin hn j]
  simpa using h2

theorem sv_eq_zero_of_le (M : Matrix m (Fin d) ℝ) {l : ℕ} (h : d ≤ l) : sv M l = 0 :=
  LinearMap.singularValues_of_finrank_le _ (by rw [finrank_euclideanSpace_fin]; exact h)

/-- a quantitative lower bound for all `d` singular values -/
theorem le_sv_of_forall (M : Matrix m (Fin d) ℝ) (c : ℝ) (hc : 0 ≤ c)
    (h : ∀ v : Fin d → ℝ, c ^ 2 * (v ⬝ᵥ v) ≤ (M *ᵥ v) ⬝ᵥ (M *ᵥ v)) {l : ℕ} (hl : l < d) :
    c ≤ sv M l := by
  obtain ⟨b, hb⟩ := exists_right_singular_basis M
  have h1 := h (ofLp (b ⟨l, hl⟩))
  have h2 : (M *ᵥ ofLp (b ⟨l, hl⟩)) ⬝ᵥ (M *ᵥ ofLp (b ⟨l, hl⟩))
      = sv M l ^ 2 * (ofLp (b ⟨l, hl⟩) ⬝ᵥ ofLp (b ⟨l, hl⟩)) := by
    rw [mulVec_dot, Matrix.mulVec_mulVec, hb ⟨l, hl⟩, dotProduct_smul, smul_eq_mul]
  have h3 : ofLp (b ⟨l, hl⟩) ⬝ᵥ ofLp (b ⟨l, hl⟩) = 1 := by
    have := (orthonormal_iff_ite.mp b.orthonormal) ⟨l, hl⟩ ⟨l, hl⟩
    rw [EuclideanSpace.inner_eq_star_dotProduct] at this
    simpa using this
  rw [h2, h3, mul_one, mul_one] at h1
  exact (pow_le_pow_iff_left₀ hc (sv_nonneg M l) two_ne_zero).mp h1

/-- the SVD form of the ellipsoid test with Mathlib's sorted singular values `sv M j`: for every
orthonormal basis of right singular vectors (one exists: `exists_right_singular_basis`) -/
theorem qf_eq_sum_sv (M : Matrix m (Fin d) ℝ) (hdet : (Mᵀ * M).det ≠ 0)
    (b : OrthonormalBasis (Fin d) ℝ (EuclideanSpace ℝ (Fin d)))
    (hb : ∀ j : Fin d, (Mᵀ * M) *ᵥ ofLp (b j) = (sv M j ^ 2) • ofLp (b j)) (z : Fin d → ℝ) :
    ∑ j : Fin d, ((z ⬝ᵥ ofLp (b j)) / sv M j) ^ 2 = qf (Mᵀ * M) z :=
  qf_eq_sum_singular M hdet b (fun j => sv M j) hb z

/-- with an invertible Gram matrix all `d` singular values are positive -/
theorem sv_pos_of_det_ne_zero (M : Matrix m (Fin d) ℝ) (hdet : (Mᵀ * M).det ≠ 0) {l : ℕ}
    (hl : l < d) : 0 < sv M l := by
  obtain ⟨b, hb⟩ := exists_right_singular_basis M
  rcases (sv_nonneg M l).lt_or_eq with h | h
  · exact h
  · exfalso
    have h1 := hb ⟨l, hl⟩
    rw [show ((⟨l, hl⟩ : Fin d) : ℕ) = l from rfl, ← h] at h1
    have h2 : ofLp (b ⟨l, hl⟩) = 0 := by
      have := congrArg ((Mᵀ * M)⁻¹ *ᵥ ·) h1
      simp only [Matrix.mulVec_mulVec, Matrix.nonsing_inv_mul _ (isUnit_iff_ne_zero.mpr hdet),
        Matrix.one_mulVec] at this
      rw [this]; simp
    have h3 : b ⟨l, hl⟩ = 0 := by
      apply WithLp.ofLp_injective
      rw [h2]; rfl
    exact b.orthonormal.ne_zero ⟨l, hl⟩ h3

/-- the singular values of a diagonal matrix with non-negative antitone diagonal -/
theorem sv_diagonal {d : ℕ} (w : Fin d → ℝ) (hw : Antitone w) (h0 : ∀ i, 0 ≤ w i) (l : Fin d) :
    sv (Matrix.diagonal w) l = w l := by
  have hn : finrank ℝ (EuclideanSpace ℝ (Fin d)) = d := finrank_euclideanSpace_fin
  unfold sv
  rw [LinearMap.singularValues_fin _ hn l]
  have : (Matrix.toEuclideanLin (Matrix.diagonal w)).isSymmetric_adjoint_comp_self.eigenvalues hn
      = fun i => w i ^ 2 := by
    apply LinearMap.IsSymmetric.eigenvalues_eq_of_charpoly
    · intro i j hij
      exact pow_le_pow_left₀ (h0 j) (hw hij) 2
    · rw [adjoint_comp_self, charpoly_toEuclideanLin, Matrix.diagonal_transpose,
        Matrix.diagonal_mul_diagonal, Matrix.charpoly_diagonal]
      simp [sq]
  rw [this, Real.sqrt_sq (h0 l)]

end fin

end CE.Svd
