import CEModel.Dispatch
import Mathlib.Data.Rat.Defs
import Mathlib.Order.Basic
import Mathlib.Algebra.Order.Ring.Rat

/-! # C09 — dispatcher = named estimator with the given settings, floored at zero

The dispatcher tables are regenerated from the Python AST on every run; the generated obligation
`tableOK Generated.tables = true` (by `decide`, a finite table) instantiates the theorems below,
which hold for EVERY table satisfying the decidable check, every data set (hidden inside `est`),
every setting value and both paths (conditioning set present or not). -/
namespace CE.Dispatch

/-- The floor never yields a finite negative number. -/
theorem floor_not_finite_negative (v : Val) (q : ℚ) (h : floor v = .fin q) : 0 ≤ q := by
  cases v with
  | fin r => simp only [floor, Val.fin.injEq] at h; rw [← h]; exact le_max_left 0 r
  | nan => simp [floor] at h
  | ninf => simp [floor] at h
  | pinf => simp [floor] at h

/-- finite values: `max(0, v)` -/
theorem floor_fin (q : ℚ) : floor (.fin q) = .fin (max 0 q) := rfl

/-- Non-finite values pass through unchanged. -/
theorem floor_nonfinite (v : Val) (h : v.isFinite = false) : floor v = v := by
  cases v <;> simp_all [floor, Val.isFinite]

theorem floor_idem (v : Val) : floor (floor v) = floor v := by
  cases v <;> simp [floor]

theorem entryOK_spec (t : Tables) (name : String) (z : Bool) (h : entryOK t name z = true) :
    ∃ efn settings, expectedFn name z = some efn ∧ resolve t name z = some (efn, settings) ∧
      (∀ p ∈ expectedSettings name, settings.lookup p = some (.given p)) ∧
      (∀ ps ∈ settings, ps.2 = .given ps.1) := by
  unfold entryOK at h
  split at h
  · rename_i fn settings efn hr he
    simp only [Bool.and_eq_true, beq_iff_eq, List.all_eq_true] at h
    obtain ⟨⟨h1, h2⟩, h3⟩ := h
    refine ⟨efn, settings, he, ?_, fun p hp => ?_, fun ps hps => ?_⟩
    · rw [hr, h1]
    · exact h2 p hp
    · exact h3 ps hps
  · simp at h

/-- **dispatch_value.** For every table passing the check, every public estimator name, with or
without conditioning set: the documented estimator is the one evaluated, every setting it accepts
arrives as the caller's value of the same-named parameter (no default is substituted), and the
returned value is the floor of that estimator's value. -/
theorem dispatch_value (t : Tables) (hok : tableOK t = true)
    (est : String → List (String × Src) → Val) (name : String) (hn : name ∈ publicNames) (z : Bool) :
    ∃ efn settings, expectedFn name z = some efn ∧ resolve t name z = some (efn, settings) ∧
      (∀ p ∈ expectedSettings name, settings.lookup p = some (.given p)) ∧
      (∀ ps ∈ settings, ps.2 = .given ps.1) ∧
      dispatchValue t est name z = some (floor (est efn settings)) := by
  unfold tableOK at hok
  simp only [Bool.and_eq_true, List.all_eq_true] at hok
  obtain ⟨⟨⟨hall, _⟩, hfloor⟩, _⟩ := hok
  have hz : entryOK t name z = true := by
    cases z
    · exact (hall name hn).2
    · exact (hall name hn).1
  obtain ⟨efn, settings, he, hr, hs, hg⟩ := entryOK_spec t name z hz
  refine ⟨efn, settings, he, hr, hs, hg, ?_⟩
  simp [dispatchValue, hr, hfloor]

/-- **dispatch_floor.** The dispatcher never returns a finite negative number. -/
theorem dispatch_floor (t : Tables) (hok : tableOK t = true)
    (est : String → List (String × Src) → Val) (name : String) (hn : name ∈ publicNames) (z : Bool)
    (q : ℚ) (h : dispatchValue t est name z = some (.fin q)) : 0 ≤ q := by
  obtain ⟨efn, settings, _, _, _, _, hv⟩ := dispatch_value t hok est name hn z
  rw [hv] at h
  exact floor_not_finite_negative _ q (Option.some.inj h)

/-- `kde` and `kernel_density` are the same estimator with the same settings. -/
theorem kde_alias (t : Tables) (hok : tableOK t = true) (z : Bool) :
    ∃ efn s₁ s₂, resolve t "kde" z = some (efn, s₁) ∧ resolve t "kernel_density" z = some (efn, s₂) ∧
      (∀ p ∈ ["bandwidth", "kernel"], s₁.lookup p = some (.given p) ∧ s₂.lookup p = some (.given p)) := by
  obtain ⟨e1, s1, he1, hr1, hs1, _, _⟩ := dispatch_value t hok (fun _ _ => .nan) "kde" (by decide) z
  obtain ⟨e2, s2, he2, hr2, hs2, _, _⟩ := dispatch_value t hok (fun _ _ => .nan) "kernel_density" (by decide) z
  have : e1 = e2 := by
    cases z <;> simp [expectedFn] at he1 he2 <;> rw [← he1, ← he2]
  subst this
  exact ⟨e1, s1, s2, hr1, hr2, fun p hp => ⟨hs1 p hp, hs2 p hp⟩⟩

/-- An unknown name raises `ValueError` (no branch handles it, and the final `else` raises). -/
theorem unknown_raises (t : Tables) (hok : tableOK t = true) (name : String)
    (hn : name ∉ publicNames) (z : Bool) (est : String → List (String × Src) → Val) :
    resolve t name z = none ∧ dispatchValue t est name z = none ∧ t.elseRaises = true := by
  unfold tableOK at hok
  simp only [Bool.and_eq_true, List.all_eq_true] at hok
  obtain ⟨⟨⟨_, helse⟩, _⟩, hnames⟩ := hok
  have hfind : t.dispatch.find? (fun b => b.1.contains name) = none := by
    rw [List.find?_eq_none]
    intro b hb hc
    have := hnames b hb name (by simpa using hc)
    exact hn (by simpa using this)
  have hr : resolve t name z = none := by unfold resolve; rw [hfind]
  exact ⟨hr, by simp [dispatchValue, hr], helse⟩

/-! ### Non-vacuity: the documented table passes the check, and a table that drops the
settings on one fall-back path (the pinned geometric-kNN path) does not. -/
def docTables : Tables where
  dispatch := [
    (["gaussian"], { callee := "gaussian_conditional_mutual_information", kws := [] }),
    (["kde", "kernel_density"], { callee := "kde_conditional_mutual_information", kws := [("bandwidth", "bandwidth"), ("kernel", "kernel")] }),
    (["knn"], { callee := "knn_conditional_mutual_information", kws := [("k", "k"), ("metric", "metric")] }),
    (["geometric_knn"], { callee := "geometric_knn_conditional_mutual_information", kws := [("k", "k"), ("metric", "metric")] }),
    (["poisson"], { callee := "poisson_conditional_mutual_information", kws := [] })]
  fallback := [
    ("gaussian_conditional_mutual_information", some { callee := "gaussian_mutual_information", kws := [] }),
    ("kde_conditional_mutual_information", some { callee := "kde_mutual_information", kws := [("bandwidth", "bandwidth"), ("kernel", "kernel")] }),
    ("knn_conditional_mutual_information", some { callee := "knn_mutual_information", kws := [("k", "k"), ("metric", "metric")] }),
    ("geometric_knn_conditional_mutual_information", some { callee := "geometric_knn_mutual_information", kws := [("k", "k"), ("metric", "metric")] }),
    ("poisson_conditional_mutual_information", none)]
  accepts := [
    ("gaussian_conditional_mutual_information", []), ("gaussian_mutual_information", []),
    ("geometric_knn_conditional_mutual_information", ["metric", "k"]),
    ("geometric_knn_mutual_information", ["metric", "k"]),
    ("kde_conditional_mutual_information", ["bandwidth", "kernel"]), ("kde_mutual_information", ["bandwidth", "kernel"]),
    ("knn_conditional_mutual_information", ["metric", "k"]), ("knn_mutual_information", ["metric", "k"]),
    ("poisson_conditional_mutual_information", [])]
  elseRaises := true
  floorShape := true

example : tableOK docTables = true := by decide

/-- the pinned tree's geometric-kNN fall-back forwards nothing -/
def pinnedTables : Tables :=
  { docTables with fallback := docTables.fallback.map (fun e =>
      if e.1 = "geometric_knn_conditional_mutual_information"
      then (e.1, some { callee := "geometric_knn_mutual_information", kws := [] }) else e) }

example : tableOK pinnedTables = false := by decide
example : tableOKExcept pinnedTables [("geometric_knn", false)] = true := by decide
example : resolve pinnedTables "geometric_knn" false =
    some ("geometric_knn_mutual_information", [("metric", .default), ("k", .default)]) := by decide

end CE.Dispatch
