import CEModel.GeomSpectral
import CEProofs.C12Svd
import CEProofs.C08Lemmas
import Mathlib.LinearAlgebra.Matrix.Adjugate
import Mathlib.LinearAlgebra.Matrix.Charpoly.Coeff
import Mathlib.RingTheory.Polynomial.Vieta
import Mathlib.Data.List.Sublists
import Mathlib.Data.List.NodupEquivFin
import Mathlib.Data.Finset.Powerset
import Mathlib.Data.Fintype.Basic

/-! # C12 — the executable rational invariants are the mathematical ones

`CEModel/GeomSpectral.lean` evaluates, exactly over ℚ and on every run of the driver
(op `geom_spectral`), for a local configuration `Y` with Gram matrix `G = YᵀY`:
`quadForm G d z` (`zᵀG⁻¹z` by Cramer's rule, `none` iff `det G = 0`) and `charCoeffs G d`
(`e_1 … e_d`: sums of principal minors). The harness compares (i) the implementation's
`hyperellipsoid_check` decisions with `q ≤ 1` and (ii) the elementary symmetric polynomials of
LAPACK's `S²` with `charCoeffs`. This file links these rational functions to the real-number
objects of `CEProofs/C12Svd.lean` (`inEll`, `qf`, `sv`, `corrMath`), for the real casts
`castR Y`, `castV z` and `M = matOf Y.length d (castR Y)`. No hypothesis on row widths is needed:
`gram`, `matOf` and `vecOf` totalise missing entries by `0` in the same way.

* `quadForm_spec`: `quadForm (gram Y d) d z = none ↔ det (MᵀM) = 0`, and
  `quadForm … = some q → (q : ℝ) = zᵀ(MᵀM)⁻¹z` (`= qf (MᵀM) (vecOf d (castV z))`).
* `inEll_iff_quadForm`: `inEll M z ↔ ∃ q, quadForm … = some q ∧ q ≤ 1`; `passQ_iff`,
  `ellCount_castR`: the count inside `corrMath` is the number of rows accepted by the executable test.
  With `inEll_iff_svd_sum` this is the SVD sum of the code for every right singular basis.
* `charCoeffs_spec` (ALL `m < d`, via Mathlib's `Matrix.charpoly_coeff_eq_sum_minors` and Vieta):
  `((charCoeffs (gram Y d) d).getD m 0 : ℝ) = e_{m+1}(σ_0², …, σ_{d-1}²)`, `σ_l = sv M l`;
  `charCoeffs_spec_esymm`: the same with `Multiset.esymm`.
* `sv_eq_of_esymm`, `sv_eq_of_charCoeffs`: conversely the `e_m` pin the singular values.
* route: `qentry_gram`, `minor_eq_det` (through `CE.Gauss.detF_eq_det`), `minor_gram_range`,
  `minor_replaceCol` (`= Matrix.cramer`), `quadForm_eq`, `choose` ~ `List.sublistsLen`,
  `sum_powersetCard_univ`, `minor_gram_eq_submatrix_det`, `charCoeffs_eq_sum_minors`,
  `CE.Svd.charpoly_gram_eq_prod`, `CE.Svd.sum_minors_gram_eq_esymm`. -/

set_option linter.unusedSectionVars false

namespace CE.Geom
open CE.Kde CE.Svd CE.Gauss Matrix

/-! ### rational configurations, their real casts and their matrices -/

/-- a rational configuration read over ℝ -/
def castR (Y : List (List ℚ)) : List (List ℝ) := Y.map (·.map (fun q : ℚ => (q : ℝ)))
/-- a rational row read over ℝ -/
def castV (z : List ℚ) : List ℝ := z.map (fun q : ℚ => (q : ℝ))

/-- the `n × d` rational matrix of a list of rows -/
def matQ (n d : ℕ) (Y : List (List ℚ)) : Matrix (Fin n) (Fin d) ℚ :=
  Matrix.of fun i j => (Y.getD i []).getD j 0
/-- a rational row as a vector of `ℚ^d` -/
def vecQ (d : ℕ) (z : List ℚ) : Fin d → ℚ := fun j => z.getD j 0
/-- the rational Gram matrix `YᵀY` -/
def gramQ (Y : List (List ℚ)) (d : ℕ) : Matrix (Fin d) (Fin d) ℚ :=
  (matQ Y.length d Y)ᵀ * matQ Y.length d Y

theorem getD_map_cast (z : List ℚ) (j : ℕ) : (castV z).getD j 0 = ((z.getD j 0 : ℚ) : ℝ) := by
  unfold castV
  rw [List.getD_eq_getElem?_getD, List.getD_eq_getElem?_getD, List.getElem?_map]
  cases z[j]? <;> simp

theorem getD_castR (Y : List (List ℚ)) (i : ℕ) : (castR Y).getD i [] = castV (Y.getD i []) := by
  unfold castR
  rw [List.getD_eq_getElem?_getD, List.getD_eq_getElem?_getD, List.getElem?_map]
  cases Y[i]? <;> simp [castV]

theorem castR_length (Y : List (List ℚ)) : (castR Y).length = Y.length := by simp [castR]

theorem dim_castR (Y : List (List ℚ)) : dim (castR Y) = dim Y := by
  cases Y with
  | nil => rfl
  | cons r Y => simp [dim, castR]

theorem matOf_castR (n d : ℕ) (Y : List (List ℚ)) :
    matOf n d (castR Y) = (matQ n d Y).map (Rat.castHom ℝ) := by
  ext i j
  simp only [matOf, matQ, Matrix.of_apply, Matrix.map_apply, getD_castR, getD_map_cast]
  rfl

theorem vecOf_castV (d : ℕ) (z : List ℚ) : vecOf d (castV z) = Rat.castHom ℝ ∘ vecQ d z := by
  funext j
  simp only [vecOf, vecQ, getD_map_cast, Function.comp]
  rfl

theorem gram_castR (d : ℕ) (Y : List (List ℚ)) :
    (matOf Y.length d (castR Y))ᵀ * matOf Y.length d (castR Y) = (gramQ Y d).map (Rat.castHom ℝ) := by
  rw [matOf_castR, gramQ, Matrix.map_mul, Matrix.transpose_map]

/-! ### the model's `gram`, `minor`, `replaceCol` in matrix terms -/

theorem sum_map_eq_sum_fin (Y : List (List ℚ)) (f : List ℚ → ℚ) :
    (Y.map f).sum = ∑ i : Fin Y.length, f (Y.getD i []) := by
  have : Y.map f = List.ofFn (fun i : Fin Y.length => f (Y.getD i [])) := by
    apply List.ext_getElem
    · simp
    · intro i h1 h2
      simp
  rw [this, List.sum_ofFn]

theorem getD_map_range {β : Type} (n : ℕ) (f : ℕ → β) (a : ℕ) (ha : a < n) (dflt : β) :
    ((List.range n).map f).getD a dflt = f a := by
  rw [List.getD_eq_getElem _ _ (by simpa using ha), List.getElem_map, List.getElem_range]

theorem qentry_gram (Y : List (List ℚ)) (d : ℕ) (a b : Fin d) :
    qentry (gram Y d) a b = gramQ Y d a b := by
  unfold qentry gram gramQ
  rw [getD_map_range d _ a a.2, getD_map_range d _ b b.2, sum_map_eq_sum_fin, Matrix.mul_apply]
  rfl

/-- `minor` is a Mathlib determinant -/
theorem minor_eq_det (G : QMat) (idx : List ℕ) (m : ℕ) (hm : idx.length = m) :
    minor G idx
      = Matrix.det (Matrix.of fun a b : Fin m => qentry G (idx.getD a 0) (idx.getD b 0)) := by
  subst hm
  exact detF_eq_det _ _

theorem minor_gram_range (Y : List (List ℚ)) (d : ℕ) :
    minor (gram Y d) (List.range d) = (gramQ Y d).det := by
  rw [minor_eq_det _ _ d (by simp)]
  congr 1
  ext a b
  simp only [Matrix.of_apply]
  rw [List.getD_eq_getElem _ _ (by simp), List.getD_eq_getElem _ _ (by simp), List.getElem_range,
    List.getElem_range]
  exact qentry_gram Y d a b

theorem qentry_replaceCol (G : QMat) (j : ℕ) (z : List ℚ) (a b : ℕ) (ha : a < G.length)
    (hb : b < (G.getD a []).length) :
    qentry (replaceCol G j z) a b = if b = j then z.getD a 0 else qentry G a b := by
  have h1 : (replaceCol G j z).getD a []
      = (G.getD a []).zipIdx.map fun (v, b) => if b = j then z.getD a 0 else v := by
    unfold replaceCol
    rw [List.getD_eq_getElem _ _ (by simpa using ha), List.getElem_map, List.getD_eq_getElem _ _ ha]
    simp only [List.getElem_zipIdx, Nat.zero_add]
  unfold qentry
  rw [h1, List.getD_eq_getElem _ _ (by simpa using hb), List.getElem_map,
    List.getD_eq_getElem (G.getD a []) _ hb]
  simp only [List.getElem_zipIdx, Nat.zero_add]

theorem gram_length (Y : List (List ℚ)) (d : ℕ) : (gram Y d).length = d := by simp [gram]

theorem gram_row_length (Y : List (List ℚ)) (d a : ℕ) (ha : a < d) :
    ((gram Y d).getD a []).length = d := by
  unfold gram
  rw [getD_map_range d _ a ha]
  simp

theorem minor_replaceCol (Y : List (List ℚ)) (d : ℕ) (z : List ℚ) (j : Fin d) :
    minor (replaceCol (gram Y d) j z) (List.range d) = Matrix.cramer (gramQ Y d) (vecQ d z) j := by
  rw [minor_eq_det _ _ d (by simp), Matrix.cramer_apply]
  congr 1
  ext a b
  simp only [Matrix.of_apply]
  rw [List.getD_eq_getElem _ _ (by simp), List.getD_eq_getElem _ _ (by simp), List.getElem_range,
    List.getElem_range, qentry_replaceCol _ _ _ _ _ (by rw [gram_length]; exact a.2)
      (by rw [gram_row_length _ _ _ a.2]; exact b.2), Matrix.updateCol_apply, qentry_gram]
  simp only [Fin.ext_iff, vecQ]

/-- the model's `quadForm` in matrix terms (over ℚ): Cramer's rule -/
theorem quadForm_eq (Y : List (List ℚ)) (d : ℕ) (z : List ℚ) :
    quadForm (gram Y d) d z
      = if (gramQ Y d).det = 0 then none
        else some ((vecQ d z ⬝ᵥ Matrix.cramer (gramQ Y d) (vecQ d z)) / (gramQ Y d).det) := by
  unfold quadForm
  simp only [minor_gram_range]
  congr 2
  rw [sum_range_map, dotProduct, ← Fin.sum_univ_eq_sum_range
    (fun j => z.getD j 0 * minor (replaceCol (gram Y d) j z) (List.range d)) d]
  congr 1
  apply Finset.sum_congr rfl
  intro j _
  rw [minor_replaceCol]
  rfl

/-- Cramer's rule for the quadratic form, over any field -/
theorem dot_cramer_div_det {K : Type*} [Field K] {n : Type*} [Fintype n] [DecidableEq n]
    (A : Matrix n n K) (z : n → K) :
    (z ⬝ᵥ Matrix.cramer A z) / A.det = z ⬝ᵥ (A⁻¹ *ᵥ z) := by
  rw [Matrix.inv_def, Ring.inverse_eq_inv', Matrix.smul_mulVec, dotProduct_smul,
    Matrix.cramer_eq_adjugate_mulVec, smul_eq_mul, div_eq_inv_mul]

theorem det_gram_castR (d : ℕ) (Y : List (List ℚ)) :
    ((matOf Y.length d (castR Y))ᵀ * matOf Y.length d (castR Y)).det
      = (((gramQ Y d).det : ℚ) : ℝ) := by
  rw [gram_castR]
  exact ((Rat.castHom ℝ).map_det (gramQ Y d)).symm

theorem qf_gram_castR (d : ℕ) (Y : List (List ℚ)) (z : List ℚ) :
    qf ((matOf Y.length d (castR Y))ᵀ * matOf Y.length d (castR Y)) (vecOf d (castV z))
      = (((vecQ d z ⬝ᵥ ((gramQ Y d)⁻¹ *ᵥ vecQ d z) : ℚ)) : ℝ) := by
  unfold qf
  rw [gram_castR, vecOf_castV, ← dot_cramer_div_det, ← dot_cramer_div_det,
    Matrix.cramer_eq_adjugate_mulVec, Matrix.cramer_eq_adjugate_mulVec]
  have h1 : ((gramQ Y d).map (Rat.castHom ℝ)).adjugate = (gramQ Y d).adjugate.map (Rat.castHom ℝ) :=
    ((Rat.castHom ℝ).map_adjugate (gramQ Y d)).symm
  have h2 : ((gramQ Y d).map (Rat.castHom ℝ)).det = Rat.castHom ℝ (gramQ Y d).det :=
    ((Rat.castHom ℝ).map_det (gramQ Y d)).symm
  have h3 : (gramQ Y d).adjugate.map (Rat.castHom ℝ) *ᵥ (Rat.castHom ℝ ∘ vecQ d z)
      = Rat.castHom ℝ ∘ ((gramQ Y d).adjugate *ᵥ vecQ d z) := by
    funext i
    exact ((Rat.castHom ℝ).map_mulVec _ _ i).symm
  rw [h1, h2, h3, ← RingHom.map_dotProduct]
  simp

/-- **quadForm_spec.** For every rational configuration `Y`, width `d` and rational row `z`, with
`M = matOf Y.length d (castR Y)` the real matrix of `Y`: the executable `quadForm (gram Y d) d z` is
`none` exactly when the real Gram matrix `MᵀM` is singular, and otherwise its value, cast to ℝ, is
`zᵀ (MᵀM)⁻¹ z` — the quadratic form `qf` of the ellipsoid test `inEll`. -/
theorem quadForm_spec (Y : List (List ℚ)) (d : ℕ) (z : List ℚ) :
    (quadForm (gram Y d) d z = none
        ↔ ((matOf Y.length d (castR Y))ᵀ * matOf Y.length d (castR Y)).det = 0)
    ∧ (∀ q : ℚ, quadForm (gram Y d) d z = some q →
        (q : ℝ) = qf ((matOf Y.length d (castR Y))ᵀ * matOf Y.length d (castR Y))
          (vecOf d (castV z))) := by
  rw [quadForm_eq, det_gram_castR, qf_gram_castR]
  constructor
  · by_cases h : (gramQ Y d).det = 0
    · simp [h]
    · simp [h]
  · intro q hq
    by_cases h : (gramQ Y d).det = 0
    · simp [h] at hq
    · rw [if_neg h, Option.some.injEq] at hq
      rw [← hq, dot_cramer_div_det]

/-- **inEll_iff_quadForm.** The harness's exact comparison `q ≤ 1` decides exactly `inEll`; by
`inEll_iff_svd_sum` (invertible Gram matrix) that is the code's `Σ_j ((z·v_j)/σ_j)² ≤ 1` for every
orthonormal basis of right singular vectors. -/
theorem inEll_iff_quadForm (Y : List (List ℚ)) (d : ℕ) (z : List ℚ) :
    inEll (matOf Y.length d (castR Y)) (vecOf d (castV z))
      ↔ ∃ q : ℚ, quadForm (gram Y d) d z = some q ∧ q ≤ 1 := by
  obtain ⟨h1, h2⟩ := quadForm_spec Y d z
  unfold inEll
  constructor
  · rintro ⟨hdet, hq⟩
    cases hqf : quadForm (gram Y d) d z with
    | none => exact absurd (h1.mp hqf) hdet
    | some q =>
      refine ⟨q, rfl, ?_⟩
      rw [← h2 q hqf] at hq
      exact_mod_cast hq
  · rintro ⟨q, hqf, hq⟩
    refine ⟨fun h0 => ?_, ?_⟩
    · rw [h1.mpr h0] at hqf
      exact absurd hqf (by simp)
    · rw [← h2 q hqf]
      exact_mod_cast hq

/-! ### `choose` enumerates the sublists of a given length -/

/-- `choose` for any element type -/
def chooseP {α : Type} : List α → ℕ → List (List α)
  | _, 0 => [[]]
  | [], _ + 1 => []
  | x :: xs, m + 1 => (chooseP xs m).map (x :: ·) ++ chooseP xs (m + 1)

theorem choose_eq_chooseP : ∀ (l : List ℕ) (m : ℕ), choose l m = chooseP l m
  | _, 0 => by cases ‹List ℕ› <;> rfl
  | [], _ + 1 => rfl
  | x :: xs, m + 1 => by
    rw [choose, chooseP, choose_eq_chooseP xs m, choose_eq_chooseP xs (m + 1)]

theorem chooseP_map {α β : Type} (f : α → β) : ∀ (l : List α) (m : ℕ),
    chooseP (l.map f) m = (chooseP l m).map (List.map f)
  | l, 0 => by cases l <;> rfl
  | [], _ + 1 => rfl
  | x :: xs, m + 1 => by
    simp only [List.map_cons, chooseP, List.map_append, List.map_map, chooseP_map f xs m,
      chooseP_map f xs (m + 1)]
    rfl

theorem chooseP_perm_sublistsLen {α : Type} : ∀ (l : List α) (m : ℕ),
    (chooseP l m).Perm (List.sublistsLen m l)
  | l, 0 => by cases l <;> simp [chooseP]
  | [], _ + 1 => by simp [chooseP]
  | x :: xs, m + 1 => by
    rw [chooseP, List.sublistsLen_succ_cons]
    exact List.perm_append_comm.trans
      ((chooseP_perm_sublistsLen xs (m + 1)).append ((chooseP_perm_sublistsLen xs m).map _))

theorem map_val_finRange (d : ℕ) : (List.finRange d).map Fin.val = List.range d := by
  apply List.ext_getElem
  · simp
  · intro i h1 h2
    simp

/-- the sum over `choose (range d) k` as a sum over the `k`-sublists of `finRange d` -/
theorem sum_choose_range (d k : ℕ) (F : List ℕ → ℚ) :
    ((choose (List.range d) k).map F).sum
      = ((List.sublistsLen k (List.finRange d)).map (fun l => F (l.map Fin.val))).sum := by
  rw [choose_eq_chooseP, ← map_val_finRange, chooseP_map, List.map_map]
  exact ((chooseP_perm_sublistsLen (List.finRange d) k).map _).sum_eq

/-- a sum over the `k`-subsets of `Fin d` as a sum over the `k`-sublists of `finRange d` -/
theorem sum_powersetCard_univ {β : Type*} [AddCommMonoid β] (d k : ℕ) (F : Finset (Fin d) → β) :
    ∑ t ∈ (Finset.univ : Finset (Fin d)).powersetCard k, F t
      = ((List.sublistsLen k (List.finRange d)).map (fun l => F l.toFinset)).sum := by
  have h1 : ∑ t ∈ (Finset.univ : Finset (Fin d)).powersetCard k, F t
      = (((Finset.univ : Finset (Fin d)).powersetCard k).val.map
          (fun t => F t.val.toFinset)).sum := by
    rw [Finset.sum_eq_multiset_sum]
    congr 1
    apply Multiset.map_congr rfl
    intro t _
    rw [Finset.val_toFinset]
  have h2 : ((Finset.univ : Finset (Fin d)).powersetCard k).val.map (fun t => F t.val.toFinset)
      = (((Finset.univ : Finset (Fin d)).powersetCard k).val.map Finset.val).map
          (fun m : Multiset (Fin d) => F m.toFinset) := by
    rw [Multiset.map_map]; rfl
  rw [h1, h2, Finset.map_val_val_powersetCard, Finset.val_univ_fin, Multiset.powersetCard_coe,
    Multiset.map_coe, Multiset.sum_coe, List.map_map]
  rfl

/-- the model's principal minor on an index list without repetition is the determinant of the
principal submatrix on the corresponding index set -/
theorem minor_gram_eq_submatrix_det (Y : List (List ℚ)) (d : ℕ) (l : List (Fin d)) (hl : l.Nodup) :
    minor (gram Y d) (l.map Fin.val)
      = ((gramQ Y d).submatrix (Subtype.val : ↥l.toFinset → Fin d) Subtype.val).det := by
  let e : Fin l.length ≃ ↥l.toFinset :=
    (List.Nodup.getEquiv l hl).trans (Equiv.subtypeEquivRight (fun x => (List.mem_toFinset).symm))
  rw [minor_eq_det _ _ l.length (by simp),
    ← Matrix.det_submatrix_equiv_self e ((gramQ Y d).submatrix Subtype.val Subtype.val)]
  congr 1
  ext a b
  simp only [Matrix.of_apply, Matrix.submatrix_apply]
  rw [List.getD_eq_getElem _ _ (by simp), List.getD_eq_getElem _ _ (by simp), List.getElem_map,
    List.getElem_map, qentry_gram]
  rfl

end CE.Geom

namespace CE.Svd
open Module Polynomial Matrix

/-- the characteristic polynomial of the Gram matrix `MᵀM` is `∏_i (X − σ_i²)` over the `d`
(sorted) singular values of `M` -/
theorem charpoly_gram_eq_prod {m : Type*} [Fintype m] [DecidableEq m] {d : ℕ}
    (M : Matrix m (Fin d) ℝ) :
    (Mᵀ * M).charpoly = ∏ i : Fin d, (X - C (sv M i ^ 2)) := by
  have hn : finrank ℝ (EuclideanSpace ℝ (Fin d)) = d := finrank_euclideanSpace_fin
  have h := (Matrix.toEuclideanLin M).isSymmetric_adjoint_comp_self.charpoly_eq hn
  have h0 : (Mᵀ * M).charpoly
      = (LinearMap.adjoint (Matrix.toEuclideanLin M) ∘ₗ Matrix.toEuclideanLin M).charpoly := by
    rw [adjoint_comp_self, charpoly_toEuclideanLin]
  rw [h0, h]
  apply Finset.prod_congr rfl
  intro i _
  unfold sv
  rw [(Matrix.toEuclideanLin M).sq_singularValues_fin hn i]
  rfl

/-- **Vieta for the Gram matrix.** The sum of the principal `k × k` minors of `MᵀM` is the `k`-th
elementary symmetric polynomial of the squared singular values. -/
theorem sum_minors_gram_eq_esymm {m : Type*} [Fintype m] [DecidableEq m] {d : ℕ}
    (M : Matrix m (Fin d) ℝ) (k : ℕ) (hk : k ≤ d) :
    ∑ s ∈ (Finset.univ : Finset (Fin d)).powersetCard k,
        ((Mᵀ * M).submatrix (Subtype.val : s → Fin d) Subtype.val).det
      = ∑ t ∈ (Finset.univ : Finset (Fin d)).powersetCard k, ∏ i ∈ t, sv M i ^ 2 := by
  have h1 := Matrix.charpoly_coeff_eq_sum_minors (Mᵀ * M) k (by simpa using hk)
  rw [charpoly_gram_eq_prod, Fintype.card_fin] at h1
  have h2 : (∏ i : Fin d, (X - C (sv M i ^ 2)))
      = ((Finset.univ.val.map fun i : Fin d => sv M i ^ 2).map fun t => X - C t).prod := by
    rw [Multiset.map_map]; rfl
  have hcard : Multiset.card (Finset.univ.val.map fun i : Fin d => sv M i ^ 2) = d := by simp
  rw [h2, Multiset.prod_X_sub_C_coeff _ (by rw [hcard]; omega), hcard,
    Nat.sub_sub_self hk, Finset.esymm_map_val] at h1
  have hne : ((-1 : ℝ)) ^ k ≠ 0 := pow_ne_zero _ (by norm_num)
  exact (mul_left_cancel₀ hne h1).symm

end CE.Svd

namespace CE.Geom
open CE.Kde CE.Svd CE.Gauss Matrix

/-- the model's `charCoeffs` over ℚ: sums of principal minors of the rational Gram matrix, in
Mathlib's terms -/
theorem charCoeffs_eq_sum_minors (Y : List (List ℚ)) (d m : ℕ) (hm : m < d) :
    (charCoeffs (gram Y d) d).getD m 0
      = ∑ s ∈ (Finset.univ : Finset (Fin d)).powersetCard (m + 1),
          ((gramQ Y d).submatrix (Subtype.val : s → Fin d) Subtype.val).det := by
  unfold charCoeffs
  rw [getD_map_range d _ m hm, sum_choose_range, sum_powersetCard_univ]
  congr 1
  apply List.map_congr_left
  intro l hl
  have hnd : l.Nodup := ((List.mem_sublistsLen.mp hl).1).nodup (List.nodup_finRange d)
  exact minor_gram_eq_submatrix_det Y d l hnd

/-- **charCoeffs_spec.** For every `m < d` the `m`-th entry of the executable `charCoeffs`, cast to
ℝ, is the elementary symmetric polynomial `e_{m+1}` of the squared singular values
`σ_0², …, σ_{d-1}²` (`σ_l = sv M l`, Mathlib's sorted singular values of the real matrix of `Y`). -/
theorem charCoeffs_spec (Y : List (List ℚ)) (d m : ℕ) (hm : m < d) :
    (((charCoeffs (gram Y d) d).getD m 0 : ℚ) : ℝ)
      = ∑ t ∈ (Finset.univ : Finset (Fin d)).powersetCard (m + 1),
          ∏ i ∈ t, sv (matOf Y.length d (castR Y)) i ^ 2 := by
  rw [charCoeffs_eq_sum_minors Y d m hm,
    ← sum_minors_gram_eq_esymm (matOf Y.length d (castR Y)) (m + 1) hm, gram_castR]
  push_cast
  apply Finset.sum_congr rfl
  intro s _
  rfl

/-- the same with Mathlib's `Multiset.esymm` -/
theorem charCoeffs_spec_esymm (Y : List (List ℚ)) (d m : ℕ) (hm : m < d) :
    (((charCoeffs (gram Y d) d).getD m 0 : ℚ) : ℝ)
      = ((Finset.univ : Finset (Fin d)).val.map
          fun i : Fin d => sv (matOf Y.length d (castR Y)) i ^ 2).esymm (m + 1) := by
  rw [charCoeffs_spec Y d m hm, Finset.esymm_map_val]

end CE.Geom

namespace CE.Svd
open Module Polynomial Matrix

/-- Vieta, expanded, for a `Fin d`-indexed family -/
theorem prod_X_sub_C_eq_sum {d : ℕ} (f : Fin d → ℝ) :
    ∏ i : Fin d, (X - C (f i))
      = ∑ j ∈ Finset.range (d + 1), (-1) ^ j
          * (C (∑ t ∈ (Finset.univ : Finset (Fin d)).powersetCard j, ∏ i ∈ t, f i) * X ^ (d - j)) := by
  have h2 : (∏ i : Fin d, (X - C (f i)))
      = ((Finset.univ.val.map f).map fun t => X - C t).prod := by
    rw [Multiset.map_map]; rfl
  rw [h2, Multiset.prod_X_sub_X_eq_sum_esymm]
  simp only [Multiset.card_map, Finset.card_val, Finset.card_univ, Fintype.card_fin,
    Finset.esymm_map_val]

/-- **The elementary symmetric polynomials pin the singular values.** An antitone non-negative `s`
with `e_k(s²) = e_k(σ²)` for `1 ≤ k ≤ d` is the sequence of singular values. -/
theorem sv_eq_of_esymm {m : Type*} [Fintype m] [DecidableEq m] {d : ℕ} (M : Matrix m (Fin d) ℝ)
    (s : Fin d → ℝ) (hanti : Antitone s) (h0 : ∀ i, 0 ≤ s i)
    (h : ∀ k, 1 ≤ k → k ≤ d →
      ∑ t ∈ (Finset.univ : Finset (Fin d)).powersetCard k, ∏ i ∈ t, s i ^ 2
        = ∑ t ∈ (Finset.univ : Finset (Fin d)).powersetCard k, ∏ i ∈ t, sv M i ^ 2)
    (i : Fin d) : sv M i = s i := by
  have hn : finrank ℝ (EuclideanSpace ℝ (Fin d)) = d := finrank_euclideanSpace_fin
  have hpq : ∏ i : Fin d, (X - C (sv M i ^ 2)) = ∏ i : Fin d, (X - C (s i ^ 2)) := by
    rw [prod_X_sub_C_eq_sum, prod_X_sub_C_eq_sum]
    apply Finset.sum_congr rfl
    intro j hj
    rcases Nat.eq_zero_or_pos j with rfl | hpos
    · simp
    · rw [h j hpos (by have := Finset.mem_range.mp hj; omega)]
  have hS := (Matrix.toEuclideanLin M).isSymmetric_adjoint_comp_self
  have hcp : (LinearMap.adjoint (Matrix.toEuclideanLin M) ∘ₗ Matrix.toEuclideanLin M).charpoly
      = ∏ i : Fin d, (X - C ((fun i => s i ^ 2) i : ℝ)) := by
    rw [adjoint_comp_self, charpoly_toEuclideanLin, charpoly_gram_eq_prod, hpq]
  have hev := hS.eigenvalues_eq_of_charpoly hn (fun i => s i ^ 2)
    (fun a b hab => pow_le_pow_left₀ (h0 b) (hanti hab) 2) hcp
  unfold sv
  rw [(Matrix.toEuclideanLin M).singularValues_fin hn i, hev, Real.sqrt_sq (h0 i)]

end CE.Svd

namespace CE.Geom
open CE.Kde CE.Svd CE.Gauss Matrix

/-- **sv_eq_of_charCoeffs.** The executable `charCoeffs` pin the singular values: any antitone
non-negative `S` whose squared entries have the elementary symmetric polynomials `charCoeffs` IS the
sequence of singular values of the configuration (what check (ii) of the harness establishes, up to
floating-point tolerance, for LAPACK's `S`). -/
theorem sv_eq_of_charCoeffs (Y : List (List ℚ)) (d : ℕ) (S : Fin d → ℝ) (hanti : Antitone S)
    (h0 : ∀ i, 0 ≤ S i)
    (h : ∀ m < d, ∑ t ∈ (Finset.univ : Finset (Fin d)).powersetCard (m + 1), ∏ i ∈ t, S i ^ 2
      = (((charCoeffs (gram Y d) d).getD m 0 : ℚ) : ℝ)) (i : Fin d) :
    sv (matOf Y.length d (castR Y)) i = S i := by
  apply sv_eq_of_esymm _ S hanti h0
  intro k hk1 hkd
  obtain ⟨m, rfl⟩ : ∃ m, k = m + 1 := ⟨k - 1, by omega⟩
  rw [h m (by omega), charCoeffs_spec Y d m (by omega)]

/-- the executable ellipsoid decision: `quadForm` is defined and `≤ 1` -/
def passQ (Y : List (List ℚ)) (d : ℕ) (z : List ℚ) : Bool :=
  match quadForm (gram Y d) d z with
  | some q => decide (q ≤ 1)
  | none => false

/-- the executable decision is the mathematical ellipsoid test -/
theorem passQ_iff (Y : List (List ℚ)) (d : ℕ) (z : List ℚ) :
    passQ Y d z = true ↔ inEll (matOf Y.length d (castR Y)) (vecOf d (castV z)) := by
  rw [inEll_iff_quadForm]
  unfold passQ
  cases quadForm (gram Y d) d z with
  | none => simp
  | some q => simp

/-- **ellCount_castR.** The count `hyperellipsoid_sum` inside `corrMath` of a rational configuration
is the number of offset rows accepted by the executable rational test. -/
theorem ellCount_castR (Y Z : List (List ℚ)) (d : ℕ) :
    ellCount (matOf Y.length d (castR Y)) ((castR Z).map (vecOf d)) = Z.countP (passQ Y d) := by
  unfold ellCount castR
  rw [List.map_map, List.countP_map]
  apply List.countP_congr
  intro z _
  simp only [Function.comp, decide_eq_true_eq]
  exact (passQ_iff Y d z).symm

/-- the singular values in `corrMath (castR Y) _` are those of `charCoeffs_spec` -/
theorem svOf_castR (Y : List (List ℚ)) (d : ℕ) (hd : dim Y = d) :
    svOf (castR Y) = sv (matOf Y.length d (castR Y)) := by
  subst hd
  unfold svOf
  rw [castR_length, dim_castR]

/-! ### non-vacuity: the local configuration `Y_0` of `X4` -/

section examples

/-- the centred local configuration `Y_0` of the sample `X4` of `C12Svd.lean`, over ℚ -/
def Y0q : List (List ℚ) := [[-4, -4], [5, -4], [-1, 8]]

example : castR Y0q = centred envSvd X4 0 [1, 2] := by
  rw [X4_Y0]
  norm_num [castR, Y0q]

example : gram Y0q 2 = [[42, -12], [-12, 96]] := by decide +kernel
example : charCoeffs (gram Y0q 2) 2 = [138, 3888] := by decide +kernel
/-- the neighbour offset `z = (9, 0)` of `Z_0`: `zᵀG⁻¹z = 2 > 1`, rejected -/
example : quadForm (gram Y0q 2) 2 [9, 0] = some 2 := by decide +kernel
/-- `z = (1, 1)`: `zᵀG⁻¹z = 1/24`, accepted -/
example : quadForm (gram Y0q 2) 2 [1, 1] = some (1 / 24) := by decide +kernel

example : ¬ inEll (matOf 3 2 (castR Y0q)) (vecOf 2 (castV [9, 0])) := by
  rw [show (3 : ℕ) = Y0q.length from rfl, ← passQ_iff]
  decide +kernel

example : inEll (matOf 3 2 (castR Y0q)) (vecOf 2 (castV [1, 1])) := by
  rw [show (3 : ℕ) = Y0q.length from rfl, ← passQ_iff]
  decide +kernel

/-- `σ_0² + σ_1² = 138`, `σ_0² σ_1² = 3888` for the singular values of `Y_0` -/
example : sv (matOf 3 2 (castR Y0q)) 0 ^ 2 + sv (matOf 3 2 (castR Y0q)) 1 ^ 2 = 138 := by
  have h := charCoeffs_spec Y0q 2 0 (by norm_num)
  rw [show charCoeffs (gram Y0q 2) 2 = [138, 3888] by decide +kernel] at h
  have h' : sv (matOf Y0q.length 2 (castR Y0q)) 0 ^ 2 + sv (matOf Y0q.length 2 (castR Y0q)) 1 ^ 2
      = 138 := by
    simpa [Finset.powersetCard_one, Fin.sum_univ_two] using h.symm
  exact h'

example : sv (matOf 3 2 (castR Y0q)) 0 ^ 2 * sv (matOf 3 2 (castR Y0q)) 1 ^ 2 = 3888 := by
  have h := charCoeffs_spec Y0q 2 1 (by norm_num)
  rw [show charCoeffs (gram Y0q 2) 2 = [138, 3888] by decide +kernel,
    show (1 + 1 : ℕ) = (Finset.univ : Finset (Fin 2)).card by simp, Finset.powersetCard_self] at h
  have h' : sv (matOf Y0q.length 2 (castR Y0q)) 0 ^ 2 * sv (matOf Y0q.length 2 (castR Y0q)) 1 ^ 2
      = 3888 := by
    simpa [Fin.prod_univ_two] using h.symm
  exact h'

end examples
end CE.Geom
