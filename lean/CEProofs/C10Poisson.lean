import CEModel.PoissonMI
import CEProofs.C13
import Mathlib.Algebra.BigOperators.Fin
import Mathlib.Data.List.OfFn
import Mathlib.Logic.Equiv.Fin.Basic
import Mathlib.Logic.Equiv.Fin.Rotate
import Mathlib.Tactic.Ring
import Mathlib.Tactic.Linarith

/-! # C10 (Poisson part, unconditional path): variable order and X/Y roles

Model: `CE.PoissonMI` (`CEModel/PoissonMI.lean`), the mirror of the branch `if Z is None:` of
`poisson_conditional_mutual_information`. Its input is the `d × d` matrix
`C = np.corrcoef(X.T, Y.T)` (`d = k_x + k_y`); the scalar Poisson entropy is an arbitrary function
`H : ℚ → ℚ` (every statement holds whatever `H` is, so all equalities are exact).

**Trusted here** (covered by the Gaussian/covariance part of C10 and by NumPy, not by this file):
`np.corrcoef` returns a symmetric matrix, does not depend on the order of the samples (so
*sample-order* invariance of this path is entirely inside `corrcoef`), and reordering the stacked
variables permutes its rows and columns simultaneously: `corrcoef(Y.T, X.T)[i][j] =
corrcoef(X.T, Y.T)[τ i][τ j]` with `τ` the block exchange.

Matrices: `matOfFn M` (`CEProofs/C13.lean`) is the list-of-rows form of `M : Fin n → Fin n → ℚ`;
every square list-of-rows matrix is of this form (`square_eq_matOfFn`), so the function-form
theorems quantify over all square matrices; `…_list` versions restate them on lists.

Property theorems
* `poissonMI_closed_form` (+ `_list`): the branch returns
  `Σ_j H(C_jj) − Σ_j H(C_jj − Σ_{i≠j} C_ij) − Σ_{i<j} C_ij`.
* `poissonMI_var_perm` (+ `_list`, and `poissonMI_var_equiv` between index types of equal size):
  for a **symmetric** `C` a simultaneous row/column permutation leaves the result unchanged.
* `poissonMI_swap_xy`: exchanging `X` (`kx` columns) and `Y` (`ky` columns).
* `poissonMI_col_perm`: reordering the columns inside `X` and inside `Y`.
* `poissonMIVec_var_perm`, `poissonMIVec_swap_xy`: the same for the *vectorised* entropy call
  `HV = poisson_entropy` (one call per vector), under the hypothesis `PermSymm HV` that a call acts
  entry-wise by a scalar function depending only on the multiset of the vector; and
  `entropyVec_permSymm`: the C13 model `CE.Poisson.entropyVec` (any `pmf`, `log`, tolerances,
  fuel) satisfies that hypothesis.
* `poissonMI_symm_needed`: without symmetry of `C` the exchange changes the result. -/
namespace CE.PoissonMI
open Finset CE.Poisson

/-! ### list-of-rows ↔ function form -/

theorem vec_eq {n : ℕ} (f : ℕ → ℚ) (v : Fin n → ℚ) (h : ∀ i (hi : i < n), f i = v ⟨i, hi⟩) :
    (List.range n).map f = List.ofFn v := by
  apply List.ext_getElem
  · simp
  · intro i h1 h2
    simp only [List.getElem_map, List.getElem_range, List.getElem_ofFn]
    exact h i (by simpa using h1)

theorem mat_eq {n : ℕ} (f : ℕ → ℕ → ℚ) (M : Fin n → Fin n → ℚ)
    (h : ∀ i j (hi : i < n) (hj : j < n), f i j = M ⟨i, hi⟩ ⟨j, hj⟩) :
    (List.range n).map (fun i => (List.range n).map (fun j => f i j)) = matOfFn M := by
  unfold matOfFn
  apply List.ext_getElem
  · simp
  · intro i h1 h2
    have hi : i < n := by simpa using h1
    simp only [List.getElem_map, List.getElem_range, List.getElem_ofFn]
    exact vec_eq (f i) (M ⟨i, hi⟩) (fun j hj => h i j hi hj)

theorem length_matOfFn {n : ℕ} (M : Fin n → Fin n → ℚ) : (matOfFn M).length = n := by
  simp [matOfFn]

theorem ent_matOfFn {n : ℕ} (M : Fin n → Fin n → ℚ) (i j : ℕ) (hi : i < n) (hj : j < n) :
    ent (matOfFn M) i j = M ⟨i, hi⟩ ⟨j, hj⟩ := by
  simp [ent, matOfFn, List.getD_eq_getElem?_getD, hi, hj]

theorem getD_ofFn {n : ℕ} (v : Fin n → ℚ) (i : ℕ) (hi : i < n) :
    (List.ofFn v).getD i 0 = v ⟨i, hi⟩ := by
  simp [List.getD_eq_getElem?_getD, hi]

/-- the function form of a square list-of-rows matrix: its real entries `C[i][j]` -/
def toFn (C : List (List ℚ)) (hsq : ∀ r ∈ C, r.length = C.length) :
    Fin C.length → Fin C.length → ℚ :=
  fun i j => (C[i.1])[j.1]'(by rw [hsq _ (List.getElem_mem i.2)]; exact j.2)

/-- **every square matrix is a `matOfFn`** (so the function-form theorems lose nothing) -/
theorem square_eq_matOfFn (C : List (List ℚ)) (hsq : ∀ r ∈ C, r.length = C.length) :
    C = matOfFn (toFn C hsq) := by
  unfold matOfFn toFn
  apply List.ext_getElem
  · simp
  · intro i h1 h2
    apply List.ext_getElem
    · simp [hsq _ (List.getElem_mem h1)]
    · intro j h3 h4
      simp

/-! ### the steps of the branch on `matOfFn M` -/

section steps
variable {n : ℕ}

theorem diagVec_ofFn (M : Fin n → Fin n → ℚ) :
    diagVec (matOfFn M) = List.ofFn (fun i => M i i) := by
  unfold diagVec
  rw [length_matOfFn]
  exact vec_eq _ _ (fun i hi => ent_matOfFn M i i hi hi)

theorem diagMat_ofFn (v : Fin n → ℚ) :
    diagMat (List.ofFn v) = matOfFn (fun i j => if i = j then v i else 0) := by
  unfold diagMat
  rw [List.length_ofFn]
  apply mat_eq
  intro i j hi hj
  simp only [getD_ofFn v i hi, Fin.mk.injEq]

theorem matSub_ofFn (A B : Fin n → Fin n → ℚ) :
    matSub (matOfFn A) (matOfFn B) = matOfFn (fun i j => A i j - B i j) := by
  unfold matSub
  rw [length_matOfFn]
  apply mat_eq
  intro i j hi hj
  rw [ent_matOfFn A i j hi hj, ent_matOfFn B i j hi hj]

theorem colSums_ofFn (L : Fin n → Fin n → ℚ) :
    colSums (matOfFn L) = List.ofFn (fun j => ∑ i, L i j) := by
  unfold colSums
  rw [length_matOfFn]
  apply vec_eq
  intro j hj
  rw [sum_range_map, Finset.sum_range]
  exact sum_congr rfl (fun i _ => ent_matOfFn L i j i.2 hj)

theorem fillDiagonal_ofFn (M : Fin n → Fin n → ℚ) (v : Fin n → ℚ) :
    fillDiagonal (matOfFn M) (List.ofFn v) = matOfFn (fun i j => if i = j then v i else M i j) := by
  unfold fillDiagonal
  rw [length_matOfFn]
  apply mat_eq
  intro i j hi hj
  simp only [getD_ofFn v i hi, ent_matOfFn M i j hi hj, Fin.mk.injEq]

theorem vsub_ofFn (a b : Fin n → ℚ) :
    vsub (List.ofFn a) (List.ofFn b) = List.ofFn (fun i => a i - b i) := by
  unfold vsub
  apply List.ext_getElem
  · simp
  · intro i h1 h2
    simp

theorem vadd_ofFn (a b : Fin n → ℚ) :
    vadd (List.ofFn a) (List.ofFn b) = List.ofFn (fun i => a i + b i) := by
  unfold vadd
  apply List.ext_getElem
  · simp
  · intro i h1 h2
    simp

/-- `s_j = np.sum(l_est, axis=0)[j]`, literally: `Σ_i (M_ij − [i = j]·M_ii)` -/
def offSum (M : Fin n → Fin n → ℚ) (j : Fin n) : ℚ :=
  ∑ i, (M i j - if i = j then M i i else 0)

/-- … which is the sum of the off-diagonal entries of column `j` -/
theorem offSum_eq_erase (M : Fin n → Fin n → ℚ) (j : Fin n) :
    offSum M j = ∑ i ∈ univ.erase j, M i j := by
  unfold offSum
  rw [← Finset.add_sum_erase univ _ (mem_univ j)]
  simp only [if_true, sub_self, zero_add]
  apply sum_congr rfl
  intro i hi
  rw [if_neg (ne_of_mem_erase hi), sub_zero]

theorem offSum_eq_sub (M : Fin n → Fin n → ℚ) (j : Fin n) :
    offSum M j = ∑ i, M i j - M j j := by
  unfold offSum
  rw [sum_sub_distrib]
  congr 1
  rw [Finset.sum_eq_single j (fun i _ hi => if_neg hi) (fun h => absurd (mem_univ j) h), if_pos rfl]

theorem lEst_ofFn (M : Fin n → Fin n → ℚ) :
    lEst (matOfFn M) = matOfFn (fun i j => M i j - if i = j then M i i else 0) := by
  unfold lEst
  rw [diagVec_ofFn, diagMat_ofFn, matSub_ofFn]

theorem colSums_lEst_ofFn (M : Fin n → Fin n → ℚ) :
    colSums (lEst (matOfFn M)) = List.ofFn (offSum M) := by
  rw [lEst_ofFn, colSums_ofFn]; rfl

/-- the new diagonal: `C_jj − s_j` -/
theorem newDiag_ofFn (M : Fin n → Fin n → ℚ) :
    newDiag (matOfFn M) = List.ofFn (fun j => M j j - offSum M j) := by
  unfold newDiag
  rw [diagVec_ofFn, colSums_lEst_ofFn, vsub_ofFn]

/-- `SXY` after `fill_diagonal` -/
def sxyFn (M : Fin n → Fin n → ℚ) : Fin n → Fin n → ℚ :=
  fun i j => if i = j then M i i - offSum M i else M i j

theorem sxy_ofFn (M : Fin n → Fin n → ℚ) : sxy (matOfFn M) = matOfFn (sxyFn M) := by
  unfold sxy
  rw [newDiag_ofFn, fillDiagonal_ofFn]; rfl

/-- `np.diag(SXY)` read back inside `poisson_joint_entropy` is the new diagonal -/
theorem diagVec_sxy_ofFn (M : Fin n → Fin n → ℚ) :
    diagVec (sxy (matOfFn M)) = List.ofFn (fun j => M j j - offSum M j) := by
  rw [sxy_ofFn, diagVec_ofFn]
  simp only [sxyFn, if_true]

theorem diagVec_sxy_eq_newDiag (M : Fin n → Fin n → ℚ) :
    diagVec (sxy (matOfFn M)) = newDiag (matOfFn M) := by
  rw [diagVec_sxy_ofFn, newDiag_ofFn]

/-- `Dcov_j = (C_jj − s_j) + s_j = C_jj` (exactly, over ℚ) -/
theorem dcov_ofFn (M : Fin n → Fin n → ℚ) :
    dcov (matOfFn M) = List.ofFn (fun j => M j j) := by
  unfold dcov
  rw [diagVec_sxy_ofFn, colSums_lEst_ofFn, vadd_ofFn]
  congr 1
  funext j
  ring

/-- the branch on `matOfFn M`, step by step -/
theorem poissonMIWith_ofFn (hs1 hs2 : List ℚ) (M : Fin n → Fin n → ℚ) :
    poissonMIWith hs1 hs2 (matOfFn M) = hs2.sum - jointEntropy hs1 (matOfFn (sxyFn M)) := by
  unfold poissonMIWith
  rw [sxy_ofFn]

theorem poissonMI_ofFn (H : ℚ → ℚ) (M : Fin n → Fin n → ℚ) :
    poissonMI H (matOfFn M) =
      ∑ j, H (M j j)
        - jointEntropy (List.ofFn (fun j => H (M j j - offSum M j))) (matOfFn (sxyFn M)) := by
  unfold poissonMI
  rw [poissonMIWith_ofFn, diagVec_sxy_ofFn, dcov_ofFn, List.map_ofFn, List.map_ofFn,
    List.sum_ofFn]
  rfl

end steps

/-! ## Closed form -/

/-- **Closed form of the unconditional Poisson path.** For every square matrix `C` (here
`matOfFn M`) and every entropy function `H`,
`poissonMI H C = Σ_j H(C_jj) − Σ_j H(C_jj − Σ_{i≠j} C_ij) − Σ_{i<j} C_ij`. -/
theorem poissonMI_closed_form {n : ℕ} (H : ℚ → ℚ) (M : Fin n → Fin n → ℚ) :
    poissonMI H (matOfFn M) =
      ∑ j, H (M j j) - ∑ j, H (M j j - ∑ i ∈ univ.erase j, M i j)
        - ∑ i, ∑ j, (if i < j then M i j else 0) := by
  rw [poissonMI_ofFn, jointEntropy_ofFn]
  have h1 : ∀ i j : Fin n, (if i < j then sxyFn M i j else 0) = (if i < j then M i j else 0) := by
    intro i j
    by_cases h : i < j
    · rw [if_pos h, if_pos h]
      exact if_neg (ne_of_lt h)
    · rw [if_neg h, if_neg h]
  simp only [h1, offSum_eq_erase]
  ring

/-- list form: for a square list-of-rows matrix the sums are over its real entries `C[i][j]` -/
theorem poissonMI_closed_form_list (H : ℚ → ℚ) (C : List (List ℚ))
    (hsq : ∀ r ∈ C, r.length = C.length) :
    poissonMI H C =
      ∑ j, H (toFn C hsq j j) - ∑ j, H (toFn C hsq j j - ∑ i ∈ univ.erase j, toFn C hsq i j)
        - ∑ i, ∑ j, (if i < j then toFn C hsq i j else 0) := by
  conv_lhs => rw [square_eq_matOfFn C hsq]
  exact poissonMI_closed_form H (toFn C hsq)

/-! ## Invariance under simultaneous row/column permutations -/

section perm
variable {n : ℕ}

theorem offSum_perm (M : Fin n → Fin n → ℚ) (σ : Equiv.Perm (Fin n)) (j : Fin n) :
    offSum (fun i j => M (σ i) (σ j)) j = offSum M (σ j) := by
  rw [offSum_eq_sub, offSum_eq_sub, Equiv.sum_comp σ (fun i => M i (σ j))]

theorem sxyFn_perm (M : Fin n → Fin n → ℚ) (σ : Equiv.Perm (Fin n)) (i j : Fin n) :
    sxyFn (fun i j => M (σ i) (σ j)) i j = sxyFn M (σ i) (σ j) := by
  unfold sxyFn
  rw [offSum_perm]
  by_cases h : i = j
  · rw [if_pos h, if_pos (by rw [h])]
  · rw [if_neg h, if_neg (fun h' => h (σ.injective h'))]

theorem sxyFn_symm (M : Fin n → Fin n → ℚ) (hsymm : ∀ i j, M i j = M j i) (i j : Fin n) :
    sxyFn M i j = sxyFn M j i := by
  unfold sxyFn
  by_cases h : i = j
  · subst h; rfl
  · rw [if_neg h, if_neg (fun h' => h h'.symm), hsymm]

/-- the step shared by the scalar and the vectorised statement: for *any* entropy values attached
to the variables (`h1` for the call inside `poisson_joint_entropy`, `h2` for the call on `Dcov`),
relabelling the variables of a symmetric matrix leaves `FT − TF` unchanged -/
theorem poissonMIWith_var_perm (h1 h2 : Fin n → ℚ) (M : Fin n → Fin n → ℚ)
    (hsymm : ∀ i j, M i j = M j i) (σ : Equiv.Perm (Fin n)) :
    poissonMIWith (List.ofFn (fun j => h1 (σ j))) (List.ofFn (fun j => h2 (σ j)))
        (matOfFn (fun i j => M (σ i) (σ j))) =
      poissonMIWith (List.ofFn h1) (List.ofFn h2) (matOfFn M) := by
  rw [poissonMIWith_ofFn, poissonMIWith_ofFn, List.sum_ofFn, List.sum_ofFn, Equiv.sum_comp σ h2]
  congr 1
  have hS : (sxyFn fun i j => M (σ i) (σ j)) = fun i j => sxyFn M (σ i) (σ j) := by
    funext i j; exact sxyFn_perm M σ i j
  rw [hS]
  exact joint_perm_symm h1 (sxyFn M) (sxyFn_symm M hsymm) σ

/-- **C10, Poisson unconditional path: variable-order invariance.** For a *symmetric* `d × d`
matrix `C` and any permutation `σ` of the `d` stacked variables, the matrix
`C'[i][j] = C[σ i][σ j]` gives the same estimate, for every entropy function `H`. -/
theorem poissonMI_var_perm (H : ℚ → ℚ) (M : Fin n → Fin n → ℚ)
    (hsymm : ∀ i j, M i j = M j i) (σ : Equiv.Perm (Fin n)) :
    poissonMI H (matOfFn (fun i j => M (σ i) (σ j))) = poissonMI H (matOfFn M) := by
  unfold poissonMI
  rw [diagVec_sxy_ofFn, diagVec_sxy_ofFn, dcov_ofFn, dcov_ofFn, List.map_ofFn, List.map_ofFn,
    List.map_ofFn, List.map_ofFn]
  have h1 : (H ∘ fun j => M (σ j) (σ j) - offSum (fun i j => M (σ i) (σ j)) j) =
      fun j => (fun j => H (M j j - offSum M j)) (σ j) := by
    funext j; simp only [Function.comp, offSum_perm]
  have h2 : (H ∘ fun j => M (σ j) (σ j)) = fun j => (fun j => H (M j j)) (σ j) := rfl
  rw [h1, h2]
  exact poissonMIWith_var_perm (fun j => H (M j j - offSum M j)) (fun j => H (M j j)) M hsymm σ

/-- the same between two index types of equal size (`e : Fin m ≃ Fin n` forces `m = n`); this is
the form needed for the block exchange `Fin (ky + kx) ≃ Fin (kx + ky)` -/
theorem poissonMI_var_equiv {m : ℕ} (H : ℚ → ℚ) (M : Fin n → Fin n → ℚ)
    (hsymm : ∀ i j, M i j = M j i) (e : Fin m ≃ Fin n) :
    poissonMI H (matOfFn (fun i j => M (e i) (e j))) = poissonMI H (matOfFn M) := by
  obtain rfl : m = n := Fin.equiv_iff_eq.mp ⟨e⟩
  exact poissonMI_var_perm H M hsymm e

/-- list form of `poissonMI_var_perm`: `C` a square, symmetric list-of-rows matrix, `σ` a
permutation of its indices, `C' = [[C[σ i][σ j] | j] | i]` -/
theorem poissonMI_var_perm_list (H : ℚ → ℚ) (C : List (List ℚ))
    (hsq : ∀ r ∈ C, r.length = C.length)
    (hsymm : ∀ i j, toFn C hsq i j = toFn C hsq j i) (σ : Equiv.Perm (Fin C.length)) :
    poissonMI H (List.ofFn (fun i => List.ofFn (fun j => toFn C hsq (σ i) (σ j)))) =
      poissonMI H C := by
  conv_rhs => rw [square_eq_matOfFn C hsq]
  exact poissonMI_var_perm H (toFn C hsq) hsymm σ

end perm

/-! ## Exchanging `X` and `Y`; reordering columns inside `X` and `Y` -/

/-- variable `i` of the stacking `(Y, X)` (`ky` then `kx` columns) is variable `swapIdx i` of the
stacking `(X, Y)`: column `i` of `Y` is variable `kx + i`, column `i − ky` of `X` is `i − ky` -/
def swapIdx (kx ky : ℕ) (i : Fin (ky + kx)) : Fin (kx + ky) :=
  if h : i.1 < ky then ⟨kx + i.1, by omega⟩ else ⟨i.1 - ky, by omega⟩

theorem swapIdx_swapIdx (kx ky : ℕ) (i : Fin (ky + kx)) : swapIdx ky kx (swapIdx kx ky i) = i := by
  apply Fin.ext
  unfold swapIdx
  by_cases h : i.1 < ky
  · simp only [h, dite_true]
    have : ¬ (kx + i.1 < kx) := by omega
    simp only [this, dite_false]
    omega
  · simp only [h, dite_false]
    have : i.1 - ky < kx := by omega
    simp only [this, dite_true]
    omega

/-- the block exchange as an equivalence -/
def swapEquiv (kx ky : ℕ) : Fin (ky + kx) ≃ Fin (kx + ky) where
  toFun := swapIdx kx ky
  invFun := swapIdx ky kx
  left_inv := swapIdx_swapIdx kx ky
  right_inv := swapIdx_swapIdx ky kx

/-- **C10, Poisson unconditional path: exchanging `X` and `Y`.** `M` is the (symmetric)
correlation matrix of the stacking `(X, Y)` with `kx` and `ky` columns; the correlation matrix of
the stacking `(Y, X)` is `M' i j = M (swapIdx i) (swapIdx j)`. Both give the same estimate. -/
theorem poissonMI_swap_xy (kx ky : ℕ) (H : ℚ → ℚ) (M : Fin (kx + ky) → Fin (kx + ky) → ℚ)
    (hsymm : ∀ i j, M i j = M j i) :
    poissonMI H (matOfFn (fun i j : Fin (ky + kx) => M (swapIdx kx ky i) (swapIdx kx ky j))) =
      poissonMI H (matOfFn M) :=
  poissonMI_var_equiv H M hsymm (swapEquiv kx ky)

/-- relabelling of the stacked variables when the columns of `X` are reordered by `σx` and those
of `Y` by `σy` -/
def blockPerm {kx ky : ℕ} (σx : Equiv.Perm (Fin kx)) (σy : Equiv.Perm (Fin ky)) :
    Equiv.Perm (Fin (kx + ky)) :=
  finSumFinEquiv.symm.trans ((Equiv.sumCongr σx σy).trans finSumFinEquiv)

theorem blockPerm_castAdd {kx ky : ℕ} (σx : Equiv.Perm (Fin kx)) (σy : Equiv.Perm (Fin ky))
    (i : Fin kx) : blockPerm σx σy (Fin.castAdd ky i) = Fin.castAdd ky (σx i) := by
  simp [blockPerm]

theorem blockPerm_natAdd {kx ky : ℕ} (σx : Equiv.Perm (Fin kx)) (σy : Equiv.Perm (Fin ky))
    (i : Fin ky) : blockPerm σx σy (Fin.natAdd kx i) = Fin.natAdd kx (σy i) := by
  simp [blockPerm]

/-- **C10, Poisson unconditional path: column order inside `X` and inside `Y`.** -/
theorem poissonMI_col_perm (kx ky : ℕ) (H : ℚ → ℚ) (M : Fin (kx + ky) → Fin (kx + ky) → ℚ)
    (hsymm : ∀ i j, M i j = M j i) (σx : Equiv.Perm (Fin kx)) (σy : Equiv.Perm (Fin ky)) :
    poissonMI H (matOfFn (fun i j => M (blockPerm σx σy i) (blockPerm σx σy j))) =
      poissonMI H (matOfFn M) :=
  poissonMI_var_perm H M hsymm (blockPerm σx σy)

/-! ## The vectorised entropy call

`poisson_entropy` is called once per *vector*; the number of terms of the series is shared by the
entries of one call (C13), so a call is not literally `List.map H`. What the invariance needs is
only that a call acts entry-wise through a scalar function that depends on the *multiset* of the
vector. -/

/-- a vectorised call that acts entry-wise by a scalar function depending only on the multiset of
its argument -/
def PermSymm (HV : List ℚ → List ℚ) : Prop :=
  ∃ h : List ℚ → ℚ → ℚ, (∀ l, HV l = l.map (h l)) ∧ (∀ l l', l.Perm l' → h l = h l')

theorem ofFn_comp_perm {n : ℕ} (f : Fin n → ℚ) (σ : Equiv.Perm (Fin n)) :
    (List.ofFn (fun j => f (σ j))).Perm (List.ofFn f) := by
  rw [List.ofFn_eq_map, List.ofFn_eq_map]
  have : (List.finRange n).map (fun j => f (σ j)) = ((List.finRange n).map σ).map f := by
    rw [List.map_map]; rfl
  rw [this]
  apply List.Perm.map
  rw [List.perm_ext_iff_of_nodup ((List.nodup_finRange n).map σ.injective) (List.nodup_finRange n)]
  intro a
  simp only [List.mem_map, List.mem_finRange, true_and]
  exact ⟨fun _ => trivial, fun _ => ⟨σ.symm a, σ.apply_symm_apply a⟩⟩

/-- **variable-order invariance with the vectorised entropy call** -/
theorem poissonMIVec_var_perm {n : ℕ} (HV : List ℚ → List ℚ) (hHV : PermSymm HV)
    (M : Fin n → Fin n → ℚ) (hsymm : ∀ i j, M i j = M j i) (σ : Equiv.Perm (Fin n)) :
    poissonMIVec HV (matOfFn (fun i j => M (σ i) (σ j))) = poissonMIVec HV (matOfFn M) := by
  obtain ⟨h, hmap, hperm⟩ := hHV
  unfold poissonMIVec
  rw [diagVec_sxy_ofFn, diagVec_sxy_ofFn, dcov_ofFn, dcov_ofFn, hmap, hmap, hmap, hmap]
  have e1 : (fun j => M (σ j) (σ j) - offSum (fun i j => M (σ i) (σ j)) j) =
      fun j => (fun j => M j j - offSum M j) (σ j) := by
    funext j; simp only [offSum_perm]
  rw [e1, hperm _ _ (ofFn_comp_perm (fun j => M j j - offSum M j) σ),
    hperm _ _ (ofFn_comp_perm (fun j => M j j) σ)]
  simp only [List.map_ofFn]
  exact poissonMIWith_var_perm (fun j => h _ (M j j - offSum M j)) (fun j => h _ (M j j)) M hsymm σ

theorem poissonMIVec_swap_xy (kx ky : ℕ) (HV : List ℚ → List ℚ) (hHV : PermSymm HV)
    (M : Fin (kx + ky) → Fin (kx + ky) → ℚ) (hsymm : ∀ i j, M i j = M j i) :
    poissonMIVec HV (matOfFn (fun i j : Fin (ky + kx) => M (swapIdx kx ky i) (swapIdx kx ky j))) =
      poissonMIVec HV (matOfFn M) := by
  have key : ∀ {m : ℕ} (e : Fin m ≃ Fin (kx + ky)),
      poissonMIVec HV (matOfFn (fun i j => M (e i) (e j))) = poissonMIVec HV (matOfFn M) := by
    intro m e
    obtain rfl : m = kx + ky := Fin.equiv_iff_eq.mp ⟨e⟩
    exact poissonMIVec_var_perm HV hHV M hsymm e
  exact key (swapEquiv kx ky)

/-- with a genuinely entry-wise call the vectorised form is `poissonMI` -/
theorem poissonMIVec_map (H : ℚ → ℚ) (C : List (List ℚ)) :
    poissonMIVec (List.map H) C = poissonMI H C := rfl

/-! ### the C13 model of `poisson_entropy` is such a call -/

theorem maxL_perm (d : ℚ) {l l' : List ℚ} (h : l.Perm l') : maxL d l = maxL d l' := by
  by_cases hl : l = []
  · subst hl; rw [h.nil_eq]
  · have hl' : l' ≠ [] := fun h' => hl (by subst h'; exact h.eq_nil)
    apply le_antisymm
    · exact maxL_le d l hl _ (fun x hx => le_maxL d l' x (h.subset hx))
    · exact maxL_le d l' hl' _ (fun x hx => le_maxL d l x (h.symm.subset hx))

theorem cont_perm (cast : ℕ → ℚ) (pmf : ℕ → ℚ → ℚ) (tol1 tol2 : ℚ) {l l' : List ℚ}
    (h : l.Perm l') (i : ℕ) : cont cast pmf tol1 tol2 l i = cont cast pmf tol1 tol2 l' i := by
  unfold cont smallAt
  rw [maxL_perm 0 (h.map _), maxL_perm 0 h, maxL_perm 0 (h.map (pmf (i - 1)))]

theorem stopIndex_perm (cast : ℕ → ℚ) (pmf : ℕ → ℚ → ℚ) (tol1 tol2 : ℚ) {l l' : List ℚ}
    (h : l.Perm l') (fuel i : ℕ) :
    stopIndex cast pmf tol1 tol2 l fuel i = stopIndex cast pmf tol1 tol2 l' fuel i := by
  induction fuel generalizing i with
  | zero => rfl
  | succ fuel ih =>
    unfold stopIndex
    rw [cont_perm cast pmf tol1 tol2 h i, ih]

/-- **`poisson_entropy` (C13 model) is a permutation-symmetric vectorised call**: entry `j` is
`-Σ_{k<K} plogp(pmf k λ_j)` with `K` the first index at which the loop condition fails, and the
loop condition looks at the vector only through `np.max` of permutation-equivariant vectors. -/
theorem entropyVec_permSymm (cast : ℕ → ℚ) (hcast : Monotone cast) (pmf : ℕ → ℚ → ℚ)
    (log : ℚ → ℚ) (tol1 tol2 : ℚ) (fuel : ℕ) :
    PermSymm (entropyVec cast pmf log tol1 tol2 fuel) :=
  ⟨fun l lam => entropySum pmf log lam (stopIndex cast pmf tol1 tol2 l fuel 1),
   fun l => entropyVec_closed_form cast hcast pmf log tol1 tol2 fuel l,
   fun l l' h => by funext lam; beta_reduce; rw [stopIndex_perm cast pmf tol1 tol2 h]⟩

/-- the hypothesis of `poissonMIVec_var_perm` holds for the C13 toy instance (whose vector call is
*not* `List.map` of one scalar function: `stopIndex` is 2 on `[1]` and 4 on `[0, 1, 2]`) -/
example : PermSymm (entropyVec (fun n => (n : ℚ)) toyPmf toyLog (1/100) (1/100) 10) :=
  entropyVec_permSymm _ mono_natCast toyPmf toyLog (1/100) (1/100) 10

/-! ## Non-vacuity and the role of symmetry -/

/-- a concrete symmetric "correlation matrix" of 3 variables -/
def C3 : List (List ℚ) := [[1, 1/2, 1/3], [1/2, 1, 1/4], [1/3, 1/4, 1]]

/-- `C3` with the variables relabelled by the 3-cycle `0 ↦ 1 ↦ 2 ↦ 0` -/
def C3' : List (List ℚ) := [[1, 1/4, 1/2], [1/4, 1, 1/3], [1/2, 1/3, 1]]

theorem C3_square : ∀ r ∈ C3, r.length = C3.length := by decide

theorem C3_symm : ∀ i j, toFn C3 C3_square i j = toFn C3 C3_square j i := by decide +kernel

/-- the steps on `C3`: column sums, the updated matrix, `Dcov`, and the value for `H x = x²` -/
example : colSums (lEst C3) = [5/6, 3/4, 7/12] ∧
    sxy C3 = [[1/6, 1/2, 1/3], [1/2, 1/4, 1/4], [1/3, 1/4, 5/12]] ∧
    dcov C3 = [1, 1, 1] ∧ poissonMI (fun x => x * x) C3 = 119/72 ∧
    poissonMI (fun x => x * x) C3' = 119/72 := by decide +kernel

/-- the hypotheses of `poissonMI_var_perm_list` are satisfiable by a non-trivial instance, and the
permuted matrix of the statement is the concrete `C3'` -/
example : poissonMI (fun x => x * x) C3' = poissonMI (fun x => x * x) C3 := by
  have h := poissonMI_var_perm_list (fun x => x * x) C3 C3_square C3_symm
    (finRotate 3 : Equiv.Perm (Fin C3.length))
  have e : (List.ofFn fun i => List.ofFn fun j =>
      toFn C3 C3_square ((finRotate 3 : Equiv.Perm (Fin C3.length)) i)
        ((finRotate 3 : Equiv.Perm (Fin C3.length)) j)) = C3' := by decide +kernel
  rw [← e]
  exact h

/-- `poissonMI_swap_xy` on `C3` with `kx = 1`, `ky = 2` -/
example : poissonMI (fun x => x * x)
      (matOfFn (fun i j : Fin (2 + 1) => toFn C3 C3_square (swapIdx 1 2 i) (swapIdx 1 2 j))) =
    poissonMI (fun x => x * x) (matOfFn (toFn C3 C3_square)) :=
  poissonMI_swap_xy 1 2 (fun x => x * x) (toFn C3 C3_square) C3_symm

example : matOfFn (fun i j : Fin (2 + 1) => toFn C3 C3_square (swapIdx 1 2 i) (swapIdx 1 2 j)) =
    [[1, 1/4, 1/2], [1/4, 1, 1/3], [1/2, 1/3, 1]] := by decide +kernel

/-- **Symmetry of `C` is needed.** For the non-symmetric `[[1, 1], [0, 1]]` exchanging the two
variables gives `[[1, 0], [1, 1]]` and a different result (`np.triu` picks another entry and the
column sums differ), already for `H x = x²`. -/
theorem poissonMI_symm_needed :
    ∃ (H : ℚ → ℚ) (M : Fin 2 → Fin 2 → ℚ) (σ : Equiv.Perm (Fin 2)),
      poissonMI H (matOfFn (fun i j => M (σ i) (σ j))) ≠ poissonMI H (matOfFn M) :=
  ⟨fun x => x * x, fun i j => if i ≤ j then 1 else 0, Equiv.swap 0 1, by decide +kernel⟩

example : poissonMI (fun x => x * x) [[1, 1], [0, 1]] = 0 ∧
    poissonMI (fun x => x * x) [[1, 0], [1, 1]] = 1 := by decide +kernel

/-- … and so is it for the constant entropy `H = 0` (only the `np.triu` term is left) -/
example : poissonMI (fun _ => 0) [[1, 1], [0, 1]] ≠ poissonMI (fun _ => 0) [[1, 0], [1, 1]] := by
  decide +kernel

end CE.PoissonMI
