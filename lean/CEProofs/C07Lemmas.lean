import CEModel.Discovery
import CEProofs.SelNodup
import CEProofs.C01Lemmas
import CEProofs.C01
import Mathlib.Data.List.Basic
import Mathlib.Data.List.Range

/-! # Congruence of the selection and edge loops in the oracles (used by C07)

If two oracle records agree on all candidate ids `< N` (and on conditioning lists of ids `< N`),
have the same visiting orders and the same cost, then every loop of the discovery model computes
the same state with either of them — provided every id it is asked about is `< N`, which is the
case for the forward phases and the edge loop by construction and for the backward phase as soon
as the visiting order only lists ids `< N`. Namespace `CE.Disc.Congr`. -/
namespace CE.Disc.Congr
open CE.Disc CE.Disc.Loop CE.Disc.SelNodup

/-- `o` and `o'` cannot be told apart by questions about ids `< N` -/
structure OAgree (N : Nat) (o o' : Oracles) : Prop where
  cost : o.cost = o'.cost
  order : ∀ c S, o.order c S = o'.order c S
  f : ∀ j Z, j < N → (∀ z ∈ Z, z < N) → o.f j Z = o'.f j Z
  test : ∀ c α j Z v, j < N → (∀ z ∈ Z, z < N) → o.test c α j Z v = o'.test c α j Z v

variable {N : Nat} {o o' : Oracles}

theorem fwdStd_congr (h : OAgree N o o') (α : Rat) :
    ∀ (fuel : Nat) (cands Z : List Nat) (st : St), (∀ x ∈ cands, x < N) → (∀ z ∈ Z, z < N) →
      fwdStd o α fuel cands Z st = fwdStd o' α fuel cands Z st
  | 0, _, _, _, _, _ => rfl
  | fuel+1, cands, Z, st, hc, hZ => by
      unfold fwdStd
      by_cases he : cands.isEmpty
      · simp [he]
      · have hne : cands ≠ [] := by simpa using he
        simp only [he, Bool.false_eq_true, ↓reduceIte]
        have hvals : cands.map (fun j => o.f j Z) = cands.map (fun j => o'.f j Z) :=
          List.map_congr_left (fun j hj => h.f j Z (hc j hj) hZ)
        rw [hvals]
        set k := argmaxIdx leTop (cands.map (fun j => o'.f j Z)) with hk
        have hklt : k < cands.length := by
          have := argmaxIdx_lt leTop (cands.map (fun j => o'.f j Z)) (by simpa using hne)
          simpa using this
        have hj : cands.getD k 0 < N := by
          have : cands.getD k 0 = cands[k] := by simp [List.getD, hklt]
          rw [this]; exact hc _ (List.getElem_mem hklt)
        have hsub : ∀ x ∈ cands.eraseIdx k, x < N := fun x hx =>
          hc x ((List.eraseIdx_sublist cands k).subset hx)
        rw [h.test _ _ _ _ _ hj hZ, h.cost]
        split
        · exact fwdStd_congr h α fuel _ _ _ hsub (by
            intro z hz
            rcases List.mem_append.1 hz with hz | hz
            · exact hZ z hz
            · rw [List.mem_singleton.1 hz]; exact hj)
        · exact fwdStd_congr h α fuel _ _ _ hsub hZ

theorem fwdAlt_congr (h : OAgree N o o') (α : Rat) :
    ∀ (fuel : Nat) (st : St), (∀ x ∈ st.S, x < N) →
      fwdAlt o α N fuel st = fwdAlt o' α N fuel st
  | 0, _, _ => rfl
  | fuel+1, st, hS => by
      unfold fwdAlt
      set remaining := (List.range N).filter (fun j => !st.S.contains j) with hrem
      have hr : ∀ x ∈ remaining, x < N := by
        intro x hx
        rw [hrem, List.mem_filter] at hx
        exact List.mem_range.1 hx.1
      by_cases he : remaining.isEmpty
      · simp [he]
      · have hne : remaining ≠ [] := by simpa using he
        simp only [he, Bool.false_eq_true, ↓reduceIte]
        have hvals : remaining.map (fun j => o.f j st.S) = remaining.map (fun j => o'.f j st.S) :=
          List.map_congr_left (fun j hj => h.f j st.S (hr j hj) hS)
        rw [hvals]
        set k := argmaxIdx leTop (remaining.map (fun j => o'.f j st.S)) with hk
        have hklt : k < remaining.length := by
          have := argmaxIdx_lt leTop (remaining.map (fun j => o'.f j st.S)) (by simpa using hne)
          simpa using this
        have hj : remaining.getD k 0 < N := by
          have : remaining.getD k 0 = remaining[k] := by simp [List.getD, hklt]
          rw [this]; exact hr _ (List.getElem_mem hklt)
        rw [h.test _ _ _ _ _ hj hS, h.cost]
        split
        · exact fwdAlt_congr h α fuel _ (by
            intro z hz
            rcases List.mem_append.1 hz with hz | hz
            · exact hS z hz
            · rw [List.mem_singleton.1 hz]; exact hj)
        · rfl

theorem bwdStep_congr (h : OAgree N o o') (α : Rat) (st : St) (j : Nat) (hj : j < N)
    (hS : ∀ x ∈ st.S, x < N) : bwdStep o α st j = bwdStep o' α st j := by
  have hZ : ∀ z ∈ (if st.S.length > 1 then st.S.filter (fun k => k != j) else []), z < N := by
    intro z hz
    split at hz
    · exact hS z (List.mem_filter.1 hz).1
    · simp at hz
  unfold bwdStep
  simp only [h.f _ _ hj hZ, h.test _ _ _ _ _ hj hZ, h.cost]

theorem foldl_bwdStep_congr (h : OAgree N o o') (α : Rat) :
    ∀ (visit : List Nat) (st : St), (∀ j ∈ visit, j < N) → Good N st.S →
      visit.foldl (bwdStep o α) st = visit.foldl (bwdStep o' α) st
  | [], _, _, _ => rfl
  | j :: visit, st, hv, hS => by
      rw [List.foldl_cons, List.foldl_cons,
        bwdStep_congr h α st j (hv j (List.mem_cons_self ..)) hS.2]
      exact foldl_bwdStep_congr h α visit _ (fun x hx => hv x (List.mem_cons_of_mem _ hx))
        (bwdStep_good o' α N st j hS)

theorem backward_congr (h : OAgree N o o') (α : Rat) (st : St)
    (hv : ∀ j ∈ o.order st.c st.S, j < N) (hS : Good N st.S) :
    backward o α st = backward o' α st := by
  unfold backward
  rw [← h.order]
  exact foldl_bwdStep_congr h α _ _ hv hS

theorem edgesFrom_congr (h : OAgree N o o') (αb : Rat) (L i : Nat) (S : List Nat)
    (hS : ∀ x ∈ S, x < N) :
    ∀ (l : List Nat) (d : Nat), (∀ x ∈ l, x < N) →
      edgesFrom o αb L i S d l = edgesFrom o' αb L i S d l
  | [], _, _ => rfl
  | c :: l, d, hl => by
      have hc : c < N := hl c (List.mem_cons_self ..)
      have hZ : ∀ z ∈ others S c, z < N := fun z hz => hS z (List.mem_filter.1 hz).1
      simp only [edgesFrom, edgeAt, h.f _ _ hc hZ, h.test _ _ _ _ _ hc hZ, h.cost]
      rw [edgesFrom_congr h αb L i S hS l _ (fun x hx => hl x (List.mem_cons_of_mem _ hx))]

theorem evsFrom_congr (h : OAgree N o o') (αb : Rat) (S : List Nat) (hS : ∀ x ∈ S, x < N) :
    ∀ (l : List Nat) (d : Nat), (∀ x ∈ l, x < N) →
      evsFrom o αb S d l = evsFrom o' αb S d l
  | [], _, _ => rfl
  | c :: l, d, hl => by
      have hc : c < N := hl c (List.mem_cons_self ..)
      have hZ : ∀ z ∈ others S c, z < N := fun z hz => hS z (List.mem_filter.1 hz).1
      simp only [evsFrom, evAt, h.f _ _ hc hZ, h.test _ _ _ _ _ hc hZ, h.cost]
      rw [evsFrom_congr h αb S hS l _ (fun x hx => hl x (List.mem_cons_of_mem _ hx))]

/-! ## The backward phase logs one `bwd` event per visited id -/

theorem foldl_bwdStep_evs (o : Oracles) (α : Rat) :
    ∀ (visit : List Nat) (st : St),
      (∀ e ∈ st.evs, e ∈ (visit.foldl (bwdStep o α) st).evs) ∧
      ∀ j ∈ visit, ∃ ev ∈ (visit.foldl (bwdStep o α) st).evs, ev.phase = .bwd ∧ ev.cand = j
  | [], st => ⟨fun _ he => he, by simp⟩
  | j :: visit, st => by
      obtain ⟨ih1, ih2⟩ := foldl_bwdStep_evs o α visit (bwdStep o α st j)
      rw [List.foldl_cons]
      refine ⟨fun e he => ih1 e ?_, fun j' hj' => ?_⟩
      · simp only [bwdStep, List.mem_append]
        exact Or.inl he
      · rcases List.mem_cons.1 hj' with rfl | hj'
        · have hmem : ∃ ev ∈ (bwdStep o α st j').evs, ev.phase = .bwd ∧ ev.cand = j' := by
            simp only [bwdStep, List.mem_append, List.mem_singleton]
            exact ⟨_, Or.inr rfl, rfl, rfl⟩
          obtain ⟨ev, hev, hp⟩ := hmem
          exact ⟨ev, ih1 ev hev, hp⟩
        · exact ih2 j' hj'

theorem backward_evs (o : Oracles) (α : Rat) (st : St) :
    ∀ j ∈ o.order st.c st.S, ∃ ev ∈ (backward o α st).evs, ev.phase = .bwd ∧ ev.cand = j := by
  unfold backward
  exact (foldl_bwdStep_evs o α _ _).2

/-! ## The loop over targets -/

section Targets
variable {m : Method} {orc orc' : Nat → Oracles} {lasso : Nat → List Nat} {αf αb : Rat} {L n : Nat}

theorem selSt_congr (hag : ∀ i, i < n → OAgree (n * L) (orc i) (orc' i)) {i : Nat} (hi : i < n)
    (c : Nat)
    (hv : (∀ ev ∈ (selSt m orc lasso αf αb L n i c).evs, ev.phase = .bwd → ev.cand < n * L) ∨
      (∀ c S, ∀ j ∈ (orc i).order c S, j < n * L)) :
    selSt m orc lasso αf αb L n i c = selSt m orc' lasso αf αb L n i c := by
  have h := hag i hi
  cases m with
  | standard =>
    simp only [selSt, ocseStd] at hv ⊢
    have hz : ∀ z ∈ (List.range L).map (fun t => colId L i (t + 1)), z < n * L := by
      intro z hz
      obtain ⟨t, ht, rfl⟩ := List.mem_map.1 hz
      have := List.mem_range.1 ht
      exact C01.colId_lt L n i (t + 1) hi (by omega) (by omega)
    rw [← fwdStd_congr h αf (n * L) (List.range (n * L)) _ _ (fun x hx => List.mem_range.1 hx) hz]
    apply backward_congr h αb _ _ (fwdStd_init_good ..)
    intro j hj
    rcases hv with hv | hv
    · obtain ⟨ev, hev, hph, rfl⟩ := backward_evs (orc i) αb _ j hj
      exact hv ev hev hph
    · exact hv _ _ j hj
  | alternative =>
    simp only [selSt, ocseAlt] at hv ⊢
    rw [← fwdAlt_congr h αf (n * L) _ (by simp)]
    apply backward_congr h αb _ _ (fwdAlt_good _ _ _ _ _ (good_nil _))
    intro j hj
    rcases hv with hv | hv
    · obtain ⟨ev, hev, hph, rfl⟩ := backward_evs (orc i) αb _ j hj
      exact hv ev hev hph
    · exact hv _ _ j hj
  | informationLasso => rfl
  | lasso => rfl

/-- members of a selected set are column ids `< n * L` (range part of the LASSO predicate only) -/
theorem stAt_lt (hl : (m = .informationLasso ∨ m = .lasso) → ∀ i, i < n → ∀ x ∈ lasso i, x < n * L)
    {i : Nat} (hi : i < n) : ∀ x ∈ (stAt m orc lasso αf αb L n i).S, x < n * L := by
  cases m
  · exact (ocseStd_good ..).2
  · exact (ocseAlt_good ..).2
  · exact hl (Or.inl rfl) i hi
  · exact hl (Or.inr rfl) i hi

/-- **congruence of `discoverWith` in the oracles** -/
theorem discoverWith_congr (hag : ∀ i, i < n → OAgree (n * L) (orc i) (orc' i))
    (hl : (m = .informationLasso ∨ m = .lasso) → ∀ i, i < n → ∀ x ∈ lasso i, x < n * L)
    (hv : (∀ ev ∈ (discoverWith m orc lasso αf αb L n).evs, ev.phase = .bwd → ev.cand < n * L) ∨
      (∀ i, i < n → ∀ c S, ∀ j ∈ (orc i).order c S, j < n * L)) :
    discoverWith m orc lasso αf αb L n = discoverWith m orc' lasso αf αb L n := by
  rw [discoverWith_eq] at hv
  -- counters and selection states agree target by target
  have key : ∀ i, i ≤ n →
      drawsBefore m orc lasso αf αb L n i = drawsBefore m orc' lasso αf αb L n i ∧
      ∀ i', i' < i → stAt m orc lasso αf αb L n i' = stAt m orc' lasso αf αb L n i' := by
    intro i
    induction i with
    | zero => exact fun _ => ⟨rfl, fun _ h => absurd h (Nat.not_lt_zero _)⟩
    | succ i ih =>
      intro hi
      obtain ⟨hd, hs⟩ := ih (by omega)
      have hst : stAt m orc lasso αf αb L n i = stAt m orc' lasso αf αb L n i := by
        unfold stAt
        rw [← hd]
        apply selSt_congr hag (by omega)
        rcases hv with hv | hv
        · left
          intro ev hev hph
          apply hv ev _ hph
          dsimp only
          rw [List.mem_flatMap]
          exact ⟨i, List.mem_range.2 (by omega), by
            unfold evsOf stAt
            exact List.mem_append_left _ hev⟩
        · exact Or.inr (hv i (by omega))
      refine ⟨?_, fun i' hi' => ?_⟩
      · show (selSt m orc lasso αf αb L n i (drawsBefore m orc lasso αf αb L n i)).c + _ = 
          (selSt m orc' lasso αf αb L n i (drawsBefore m orc' lasso αf αb L n i)).c + _
        have := hst
        unfold stAt at this
        rw [this, (hag i (by omega)).cost]
      · rcases Nat.lt_succ_iff_lt_or_eq.1 hi' with h | rfl
        · exact hs i' h
        · exact hst
  obtain ⟨hd, hs⟩ := key n (le_refl n)
  rw [discoverWith_eq, discoverWith_eq]
  have hE : ∀ i ∈ List.range n, edgesOf m orc lasso αf αb L n i = edgesOf m orc' lasso αf αb L n i := by
    intro i hi
    have hi := List.mem_range.1 hi
    unfold edgesOf
    rw [← hs i hi]
    exact edgesFrom_congr (hag i hi) αb L i _ (stAt_lt hl hi) _ _ (stAt_lt hl hi)
  have hV : ∀ i ∈ List.range n, evsOf m orc lasso αf αb L n i = evsOf m orc' lasso αf αb L n i := by
    intro i hi
    have hi := List.mem_range.1 hi
    unfold evsOf
    rw [← hs i hi]
    congr 1
    exact evsFrom_congr (hag i hi) αb _ (stAt_lt hl hi) _ _ (stAt_lt hl hi)
  have hS : ∀ i ∈ List.range n,
      (stAt m orc lasso αf αb L n i).S = (stAt m orc' lasso αf αb L n i).S := by
    intro i hi
    rw [hs i (List.mem_range.1 hi)]
  rw [List.flatMap_congr hE, List.flatMap_congr hV, hd, List.map_congr_left hS]

end Targets

end CE.Disc.Congr
