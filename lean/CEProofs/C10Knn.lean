import CEProofs.C11Lemmas

/-! # C10 (kNN part) — the kNN estimates ignore sample order, the order of the conditioning
columns and the roles of X and Y

Model: `CE.Knn.knnMI`, `CE.Knn.knnCMI` (`CEModel/Knn.lean`). All statements are exact equalities of
rational numbers (the property allows "up to rounding"; over ℚ there is none).

* `row_perm_mi`, `row_perm_cmi` (+ index forms `row_perm_mi_idx`, `row_perm_cmi_idx`): jointly
  reordering the rows of `X`, `Y` (and `Z`).
* `swap_xy_mi`, `swap_xy_cmi`: exchanging `X` and `Y`.
* `z_col_perm_cmi`: reordering the columns of `Z`.
-/
namespace CE.Knn

/-! ### row permutations -/

theorem miTerm_perm (m : Metric) (k : ℕ) {P P' : List (Pt × Pt)} (h : P.Perm P') (p : Pt × Pt) :
    miTerm m k P p = miTerm m k P' p := by
  unfold miTerm
  rw [radius_perm m k (h.map _), countIn_perm m (h.map Prod.fst), countIn_perm m (h.map Prod.snd)]

theorem miOf_perm (m : Metric) (k : ℕ) {P P' : List (Pt × Pt)} (h : P.Perm P') :
    miOf m k P = miOf m k P' := by
  unfold miOf
  have e : P'.map (miTerm m k P) = P'.map (miTerm m k P') :=
    List.map_congr_left (fun p _ => miTerm_perm m k h p)
  rw [h.length_eq, mean_perm (h.map (miTerm m k P)), e]

theorem cmiTerm_perm (m : Metric) (k : ℕ) {T T' : List (Pt × Pt × Pt)} (h : T.Perm T')
    (t : Pt × Pt × Pt) : cmiTerm m k T t = cmiTerm m k T' t := by
  unfold cmiTerm
  rw [radius_perm m k (h.map _), countIn_perm m (h.map (fun s => s.1 ++ s.2.2)),
    countIn_perm m (h.map (fun s => s.2.1 ++ s.2.2)), countIn_perm m (h.map (fun s => s.2.2))]

theorem cmiOf_perm (m : Metric) (k : ℕ) {T T' : List (Pt × Pt × Pt)} (h : T.Perm T') :
    cmiOf m k T = cmiOf m k T' := by
  unfold cmiOf
  have e : T'.map (cmiTerm m k T) = T'.map (cmiTerm m k T') :=
    List.map_congr_left (fun t _ => cmiTerm_perm m k h t)
  rw [mean_perm (h.map (cmiTerm m k T)), e]

/-- **row_perm (MI).** If the list of sample records `(xᵢ, yᵢ)` of `(X', Y')` is a permutation of
that of `(X, Y)` — i.e. the rows of `X` and `Y` were reordered jointly, by any permutation — the
estimate is unchanged. -/
theorem row_perm_mi (m : Metric) (k : ℕ) (X Y X' Y' : Sample) (h : X.length = Y.length)
    (h' : X'.length = Y'.length) (hp : (X.zip Y).Perm (X'.zip Y')) :
    knnMI m k X Y = knnMI m k X' Y' := by
  rw [knnMI_eq_miOf m k h, knnMI_eq_miOf m k h', miOf_perm m k hp]

/-- **row_perm (MI), index form** (`X[idx], Y[idx]` of numpy): `idx` any arrangement of `0..N−1`. -/
theorem row_perm_mi_idx (m : Metric) (k : ℕ) (X Y : Sample) (h : X.length = Y.length)
    (idx : List ℕ) (hidx : idx.Perm (List.range X.length)) :
    knnMI m k (idx.map (X.getD · [])) (idx.map (Y.getD · [])) = knnMI m k X Y := by
  apply row_perm_mi
  · simp
  · exact h
  · rw [List.zip_map', List.zip_eq_zipWith, zipWith_pair_eq X Y h]
    exact hidx.map _

/-- **row_perm (CMI).** Jointly reordering the rows of `X`, `Y`, `Z` leaves `knnCMI` unchanged. -/
theorem row_perm_cmi (m : Metric) (k : ℕ) (X Y Z X' Y' Z' : Sample) (hxy : X.length = Y.length)
    (hyz : Y.length = Z.length) (hxy' : X'.length = Y'.length) (hyz' : Y'.length = Z'.length)
    (hp : (zip3 X Y Z).Perm (zip3 X' Y' Z')) : knnCMI m k X Y Z = knnCMI m k X' Y' Z' := by
  rw [knnCMI_eq_cmiOf m k hxy hyz, knnCMI_eq_cmiOf m k hxy' hyz', cmiOf_perm m k hp]

/-- **row_perm (CMI), index form.** -/
theorem row_perm_cmi_idx (m : Metric) (k : ℕ) (X Y Z : Sample) (hxy : X.length = Y.length)
    (hyz : Y.length = Z.length) (idx : List ℕ) (hidx : idx.Perm (List.range X.length)) :
    knnCMI m k (idx.map (X.getD · [])) (idx.map (Y.getD · [])) (idx.map (Z.getD · []))
      = knnCMI m k X Y Z := by
  apply row_perm_cmi
  · simp
  · simp
  · exact hxy
  · exact hyz
  · rw [zip3_eq X Y Z hxy hyz]
    have : zip3 (idx.map (X.getD · [])) (idx.map (Y.getD · [])) (idx.map (Z.getD · []))
        = idx.map (fun i => (X.getD i [], Y.getD i [], Z.getD i [])) := by
      unfold zip3
      simp only [List.zipWith_map, List.zipWith_self]
    rw [this]
    exact hidx.map _

/-! ### relabelling the records: a generic congruence -/

section generic
variable {τ : Type}

/-- MI summand with arbitrary projections of a record to the joint and the two marginal rows -/
def gTerm2 (m : Metric) (k : ℕ) (T : List τ) (gJ gA gB : τ → Pt) (t : τ) : ℚ :=
  harm (countIn m (T.map gA) (gA t) (radius m k (T.map gJ) (gJ t)))
  + harm (countIn m (T.map gB) (gB t) (radius m k (T.map gJ) (gJ t)))

/-- CMI summand with arbitrary projections -/
def gTerm3 (m : Metric) (k : ℕ) (T : List τ) (gJ gA gB gC : τ → Pt) (t : τ) : ℚ :=
  harm (countIn m (T.map gA) (gA t) (radius m k (T.map gJ) (gJ t)))
  + harm (countIn m (T.map gB) (gB t) (radius m k (T.map gJ) (gJ t)))
  - harm (countIn m (T.map gC) (gC t) (radius m k (T.map gJ) (gJ t)))

theorem gTerm2_congr (m : Metric) (k : ℕ) (T : List τ) {gJ gJ' gA gA' gB gB' : τ → Pt} (t : τ)
    (hJ : ∀ s ∈ T, key m (gJ t) (gJ s) = key m (gJ' t) (gJ' s))
    (hA : ∀ s ∈ T, key m (gA t) (gA s) = key m (gA' t) (gA' s))
    (hB : ∀ s ∈ T, key m (gB t) (gB s) = key m (gB' t) (gB' s)) :
    gTerm2 m k T gJ gA gB t = gTerm2 m k T gJ' gA' gB' t := by
  unfold gTerm2
  rw [radius_congr m k T gJ gJ' _ _ hJ, countIn_congr m T gA gA' _ _ _ hA,
    countIn_congr m T gB gB' _ _ _ hB]

theorem gTerm3_congr (m : Metric) (k : ℕ) (T : List τ) {gJ gJ' gA gA' gB gB' gC gC' : τ → Pt}
    (t : τ)
    (hJ : ∀ s ∈ T, key m (gJ t) (gJ s) = key m (gJ' t) (gJ' s))
    (hA : ∀ s ∈ T, key m (gA t) (gA s) = key m (gA' t) (gA' s))
    (hB : ∀ s ∈ T, key m (gB t) (gB s) = key m (gB' t) (gB' s))
    (hC : ∀ s ∈ T, key m (gC t) (gC s) = key m (gC' t) (gC' s)) :
    gTerm3 m k T gJ gA gB gC t = gTerm3 m k T gJ' gA' gB' gC' t := by
  unfold gTerm3
  rw [radius_congr m k T gJ gJ' _ _ hJ, countIn_congr m T gA gA' _ _ _ hA,
    countIn_congr m T gB gB' _ _ _ hB, countIn_congr m T gC gC' _ _ _ hC]

end generic

theorem miTerm_map (m : Metric) (k : ℕ) (P : List (Pt × Pt)) (φ : Pt × Pt → Pt × Pt)
    (p : Pt × Pt) :
    miTerm m k (P.map φ) (φ p)
      = gTerm2 m k P (fun s => (φ s).1 ++ (φ s).2) (fun s => (φ s).1) (fun s => (φ s).2) p := by
  unfold miTerm gTerm2
  simp only [List.map_map]
  rfl

theorem cmiTerm_map (m : Metric) (k : ℕ) (T : List (Pt × Pt × Pt))
    (φ : Pt × Pt × Pt → Pt × Pt × Pt) (t : Pt × Pt × Pt) :
    cmiTerm m k (T.map φ) (φ t)
      = gTerm3 m k T (fun s => (φ s).1 ++ (φ s).2.1 ++ (φ s).2.2) (fun s => (φ s).1 ++ (φ s).2.2)
          (fun s => (φ s).2.1 ++ (φ s).2.2) (fun s => (φ s).2.2) t := by
  unfold cmiTerm gTerm3
  simp only [List.map_map]
  rfl

theorem miOf_map_congr (m : Metric) (k : ℕ) (P : List (Pt × Pt)) (φ : Pt × Pt → Pt × Pt)
    (h : ∀ p ∈ P, miTerm m k (P.map φ) (φ p) = miTerm m k P p) :
    miOf m k (P.map φ) = miOf m k P := by
  unfold miOf
  rw [List.length_map, List.map_map]
  have e : P.map (miTerm m k (P.map φ) ∘ φ) = P.map (miTerm m k P) :=
    List.map_congr_left (fun p hp => h p hp)
  rw [e]

theorem cmiOf_map_congr (m : Metric) (k : ℕ) (T : List (Pt × Pt × Pt))
    (φ : Pt × Pt × Pt → Pt × Pt × Pt)
    (h : ∀ t ∈ T, cmiTerm m k (T.map φ) (φ t) = cmiTerm m k T t) :
    cmiOf m k (T.map φ) = cmiOf m k T := by
  unfold cmiOf
  rw [List.map_map]
  have e : T.map (cmiTerm m k (T.map φ) ∘ φ) = T.map (cmiTerm m k T) :=
    List.map_congr_left (fun t ht => h t ht)
  rw [e]

theorem mem_zip3 {X Y Z : Sample} {t : Pt × Pt × Pt} (h : t ∈ zip3 X Y Z) :
    t.1 ∈ X ∧ t.2.1 ∈ Y ∧ t.2.2 ∈ Z := by
  unfold zip3 at h
  obtain ⟨i, hi, rfl⟩ := List.getElem_of_mem h
  simp only [List.getElem_zipWith]
  exact ⟨List.getElem_mem _, List.getElem_mem _, List.getElem_mem _⟩

/-! ### exchanging X and Y -/

/-- the key of a concatenated row does not depend on the order of the two blocks -/
theorem key_append_comm (m : Metric) (a b c d : Pt) (h1 : a.length = c.length)
    (h2 : b.length = d.length) : key m (b ++ a) (d ++ c) = key m (a ++ b) (c ++ d) := by
  rw [key_append m b a d c h2, key_append m a b c d h1, kop_comm]

/-- **swap_xy (MI).** For sample matrices (`N` rows each, constant row widths `dx`, `dy`)
`I(X;Y) = I(Y;X)` exactly. -/
theorem swap_xy_mi (m : Metric) (k : ℕ) (X Y : Sample) (dx dy : ℕ) (hlen : X.length = Y.length)
    (hX : ∀ x ∈ X, x.length = dx) (hY : ∀ y ∈ Y, y.length = dy) :
    knnMI m k Y X = knnMI m k X Y := by
  rw [knnMI_eq_miOf m k hlen, knnMI_eq_miOf m k hlen.symm, ← List.zip_swap]
  apply miOf_map_congr
  intro p hp
  have hpw : p.1.length = dx ∧ p.2.length = dy :=
    ⟨hX _ (List.of_mem_zip hp).1, hY _ (List.of_mem_zip hp).2⟩
  rw [miTerm_map]
  have := gTerm2_congr m k (X.zip Y) (gJ := fun s => (Prod.swap s).1 ++ (Prod.swap s).2)
    (gJ' := fun s => s.1 ++ s.2) (gA := fun s => (Prod.swap s).1) (gA' := fun s => s.2)
    (gB := fun s => (Prod.swap s).2) (gB' := fun s => s.1) p
    (fun s hs => key_append_comm m _ _ _ _
      (hpw.1.trans (hX _ (List.of_mem_zip hs).1).symm)
      (hpw.2.trans (hY _ (List.of_mem_zip hs).2).symm))
    (fun s _ => rfl) (fun s _ => rfl)
  rw [this]
  unfold gTerm2 miTerm
  exact add_comm _ _

/-- **swap_xy (CMI).** `I(X;Y|Z) = I(Y;X|Z)` exactly (constant row widths of `X` and `Y`). -/
theorem swap_xy_cmi (m : Metric) (k : ℕ) (X Y Z : Sample) (dx dy : ℕ) (hxy : X.length = Y.length)
    (hyz : Y.length = Z.length) (hX : ∀ x ∈ X, x.length = dx) (hY : ∀ y ∈ Y, y.length = dy) :
    knnCMI m k Y X Z = knnCMI m k X Y Z := by
  have hz : zip3 Y X Z = (zip3 X Y Z).map (fun t => (t.2.1, t.1, t.2.2)) := by
    unfold zip3
    apply List.ext_getElem
    · simp [hxy, hyz]
    · intro i h1 h2; simp
  rw [knnCMI_eq_cmiOf m k hxy hyz, knnCMI_eq_cmiOf m k hxy.symm (hxy.trans hyz), hz]
  apply cmiOf_map_congr
  intro t ht
  have htw := mem_zip3 ht
  rw [cmiTerm_map]
  have := gTerm3_congr m k (zip3 X Y Z)
    (gJ := fun s => s.2.1 ++ s.1 ++ s.2.2) (gJ' := fun s => s.1 ++ s.2.1 ++ s.2.2)
    (gA := fun s => s.2.1 ++ s.2.2) (gA' := fun s => s.2.1 ++ s.2.2)
    (gB := fun s => s.1 ++ s.2.2) (gB' := fun s => s.1 ++ s.2.2)
    (gC := fun s => s.2.2) (gC' := fun s => s.2.2) t
    (fun s hs => by
      have hsw := mem_zip3 hs
      have e1 : t.1.length = s.1.length := by rw [hX _ htw.1, hX _ hsw.1]
      have e2 : t.2.1.length = s.2.1.length := by rw [hY _ htw.2.1, hY _ hsw.2.1]
      rw [key_append m (t.2.1 ++ t.1) _ (s.2.1 ++ s.1) _ (by simp [e1, e2]),
        key_append m (t.1 ++ t.2.1) _ (s.1 ++ s.2.1) _ (by simp [e1, e2]),
        key_append_comm m _ _ _ _ e1 e2])
    (fun s _ => rfl) (fun s _ => rfl) (fun s _ => rfl)
  refine Eq.trans this ?_
  unfold gTerm3 cmiTerm
  rw [add_comm]

/-! ### reordering the columns of Z -/

theorem key_append_colperm (m : Metric) (idx : List ℕ) (n : ℕ) (hidx : idx.Perm (List.range n))
    (a c z w : Pt) (h : a.length = c.length) (hz : z.length = n) (hw : w.length = n) :
    key m (a ++ idx.map (z.getD · 0)) (c ++ idx.map (w.getD · 0)) = key m (a ++ z) (c ++ w) := by
  rw [key_append _ _ _ _ _ h, key_append _ _ _ _ _ h, key_colperm m idx n hidx z w hz hw]

/-- **z_col_perm (CMI).** Rearranging the columns of the conditioning matrix `Z` (every row
rearranged by the same arrangement `idx` of the positions `0..kz−1`, as `Z[:, idx]` in numpy)
leaves `knnCMI` unchanged. `X`, `Y`, `Z` are sample matrices: `N` rows each, constant widths. -/
theorem z_col_perm_cmi (m : Metric) (k : ℕ) (X Y Z : Sample) (dx dy kz : ℕ)
    (hxy : X.length = Y.length) (hyz : Y.length = Z.length)
    (hX : ∀ x ∈ X, x.length = dx) (hY : ∀ y ∈ Y, y.length = dy) (hZ : ∀ z ∈ Z, z.length = kz)
    (idx : List ℕ) (hidx : idx.Perm (List.range kz)) :
    knnCMI m k X Y (Z.map (fun r => idx.map (r.getD · 0))) = knnCMI m k X Y Z := by
  have hz : zip3 X Y (Z.map (fun r => idx.map (r.getD · 0)))
      = (zip3 X Y Z).map (fun t => (t.1, t.2.1, idx.map (t.2.2.getD · 0))) := by
    unfold zip3
    apply List.ext_getElem
    · simp
    · intro i h1 h2; simp
  rw [knnCMI_eq_cmiOf m k hxy hyz, knnCMI_eq_cmiOf m k hxy (by simpa using hyz), hz]
  apply cmiOf_map_congr
  intro t ht
  have htw := mem_zip3 ht
  rw [cmiTerm_map]
  have := gTerm3_congr m k (zip3 X Y Z)
    (gJ := fun s => s.1 ++ s.2.1 ++ idx.map (s.2.2.getD · 0)) (gJ' := fun s => s.1 ++ s.2.1 ++ s.2.2)
    (gA := fun s => s.1 ++ idx.map (s.2.2.getD · 0)) (gA' := fun s => s.1 ++ s.2.2)
    (gB := fun s => s.2.1 ++ idx.map (s.2.2.getD · 0)) (gB' := fun s => s.2.1 ++ s.2.2)
    (gC := fun s => idx.map (s.2.2.getD · 0)) (gC' := fun s => s.2.2) t
    (fun s hs => by
      have hsw := mem_zip3 hs
      exact key_append_colperm m idx kz hidx _ _ _ _
        (by simp [hX _ htw.1, hX _ hsw.1, hY _ htw.2.1, hY _ hsw.2.1])
        (hZ _ htw.2.2) (hZ _ hsw.2.2))
    (fun s hs => by
      have hsw := mem_zip3 hs
      exact key_append_colperm m idx kz hidx _ _ _ _
        (by rw [hX _ htw.1, hX _ hsw.1]) (hZ _ htw.2.2) (hZ _ hsw.2.2))
    (fun s hs => by
      have hsw := mem_zip3 hs
      exact key_append_colperm m idx kz hidx _ _ _ _
        (by rw [hY _ htw.2.1, hY _ hsw.2.1]) (hZ _ htw.2.2) (hZ _ hsw.2.2))
    (fun s hs => key_colperm m idx kz hidx _ _ (hZ _ htw.2.2) (hZ _ (mem_zip3 hs).2.2))
  exact this

/-! ### the hypotheses are satisfiable -/

/-- `row_perm_mi_idx`: rows taken in the order 2, 0, 1 -/
example : knnMI .euclidean 1 ([2, 0, 1].map (([[0], [1], [3]] : Sample).getD · []))
      ([2, 0, 1].map (([[0, 5], [2, 7], [1, 1]] : Sample).getD · []))
    = knnMI .euclidean 1 [[0], [1], [3]] [[0, 5], [2, 7], [1, 1]] := by
  apply row_perm_mi_idx
  · rfl
  · decide

/-- `row_perm_mi`: the same reordering given explicitly -/
example : knnMI .euclidean 1 [[0], [1], [3]] [[0, 5], [2, 7], [1, 1]]
    = knnMI .euclidean 1 [[3], [0], [1]] [[1, 1], [0, 5], [2, 7]] := by
  apply row_perm_mi
  · rfl
  · rfl
  · decide

/-- `row_perm_cmi` -/
example : knnCMI .chebyshev 2 [[0], [1], [3]] [[0, 5], [2, 7], [1, 1]] [[9], [6], [4]]
    = knnCMI .chebyshev 2 [[3], [0], [1]] [[1, 1], [0, 5], [2, 7]] [[4], [9], [6]] := by
  apply row_perm_cmi
  · rfl
  · rfl
  · rfl
  · rfl
  · decide

/-- `swap_xy_mi`, `swap_xy_cmi` (widths 1 and 2) -/
example : knnMI .cityblock 2 [[0, 5], [2, 7], [1, 1]] [[0], [1], [3]]
    = knnMI .cityblock 2 [[0], [1], [3]] [[0, 5], [2, 7], [1, 1]] := by
  apply swap_xy_mi (dx := 1) (dy := 2)
  · rfl
  · decide
  · decide

example : knnCMI .cityblock 2 [[0, 5], [2, 7], [1, 1]] [[0], [1], [3]] [[9], [6], [4]]
    = knnCMI .cityblock 2 [[0], [1], [3]] [[0, 5], [2, 7], [1, 1]] [[9], [6], [4]] := by
  apply swap_xy_cmi (dx := 1) (dy := 2)
  · rfl
  · rfl
  · decide
  · decide

/-- `z_col_perm_cmi`: the columns of a 3-column `Z` taken in the order 2, 0, 1 -/
example : knnCMI .chebyshev 1 [[0], [1], [3]] [[9], [6], [4]]
      (([[0, 5, 8], [2, 7, 3], [1, 1, 2]] : Sample).map (fun r => [2, 0, 1].map (r.getD · 0)))
    = knnCMI .chebyshev 1 [[0], [1], [3]] [[9], [6], [4]] [[0, 5, 8], [2, 7, 3], [1, 1, 2]] := by
  apply z_col_perm_cmi (dx := 1) (dy := 1) (kz := 3)
  · rfl
  · rfl
  · decide
  · decide
  · decide
  · decide

/-- … which is the matrix with rearranged columns -/
example : ([[0, 5, 8], [2, 7, 3], [1, 1, 2]] : Sample).map (fun r => [2, 0, 1].map (r.getD · 0))
    = [[8, 0, 5], [3, 2, 7], [2, 1, 1]] := by decide

end CE.Knn
