import CEProofs.C20Lemmas
import Mathlib.Data.Rat.Defs
import Mathlib.Algebra.Order.Field.Basic
import Mathlib.Algebra.Order.Ring.Rat
import Mathlib.Data.List.Pairwise

/-! # C20 — the circular layout places every node exactly once, equally spaced; the styling
arithmetic of `plot_causal_network` is total

All statements are about the executable model `CEModel/Plot.lean`, which mirrors
`_communities_seed_order`, `optimize_circular_order`, `_circular_positions` and the per-lag styling
arithmetic inside `plot_causal_network` of `causationentropy/core/plotting.py`; the correspondence
check compares the model with the Python on recorded move/accept streams and on random multigraphs.

What is proved (for all inputs):

* `seedOrder_perm` — whatever the community routine returns (overlapping, incomplete, repeated
  members, any order, or the `[set(G.nodes())]` fallback), the seed order is a permutation of the
  graph's node list: duplicate-free, exactly the graph's nodes.
* `optimise_perm`, `optimise_nodup_mem`, `layout_perm` — for every iteration budget, every stream
  of proposed moves (swap / block reversal, any indices, even out of range) and every stream of
  accept decisions, the optimiser returns a permutation of its seed order.  The objective, the
  temperature schedule and Python's `random` only decide *which* stream is played; none of them can
  break the permutation property.  Reproducibility for a given layout seed is purity of `optimise`
  in the stream (that `random.seed(rng)` reproduces the stream is trusted).
* `positions_distinct_equispaced`, `node_angles_distinct` — position `i` of `N` gets the angle
  `i/N` turns; these are pairwise distinct, in `[0,1)` and consecutive ones differ by `1/N`.  The
  Python multiplies by `2π` and applies `cos`/`sin` (floating point); that step is not modelled:
  on `[0,1)` turns the map `t ↦ (cos 2πt, sin 2πt)` is injective, which is a fact about real
  trigonometry, and the drawn coordinates are compared numerically by the harness.
* `normalise_range`, `normalise_divisor`, `normalise_all_zero`, `normalise_max_is_one`,
  `widths_range` — per-lag normalisation never divides by zero, lands in `[0,1]`, widths in
  `[w0,w1]`.
* `cmapIndex_lt` — the colour-map index is always in range.
* `arcRadius_total`, `arcRadius_nonneg`, `arcRadius_injective_on`, `arcRadius_strictMono_on`,
  `arcRadius_fallback_iff` — the arc radius is defined for every lag; distinct lags `≥ 1` get
  distinct radii, increasing with the lag.  (Observation, see
  `arcRadius_lag0_collides`: a lag `≤ 0` — e.g. the default `lag = 0` of an edge without a `lag`
  attribute — takes the `except ValueError` branch and shares the radius `0.1` with the first
  lag `> 1`.  This is harmless for totality.)
* `lagGroups_spec` — lags duplicate-free, strictly increasing, exactly the lags present; every
  group is non-empty (so `cmis.max()` is never taken over an empty array), holds `max 0 cmi` of
  exactly the edges of that lag in edge order, and all its entries are `≥ 0`.
* `style_total` — the pieces combined along the loop `for i, lag in enumerate(sorted_lags)`.

Scope notes.  Node ids are `Nat`, lags `Int`, information values exact rationals (`inf`/`NaN`
attributes are outside the model; `max(0.0, nan)` is `0.0` in Python).  The property quantifies
over graphs with at least two nodes: with fewer than two nodes and a positive iteration budget
`random.sample(range(N), 2)` raises `ValueError`, so no move stream exists there; the theorems
below hold for every list and every stream regardless.

**Not provable in a model** (sampled at run time by the harness instead): that the
matplotlib / NetworkX drawing calls do not raise, that a `(Figure, Axes)` pair is returned, and
that the Python graph object (nodes, edges, attributes) is not mutated by `plot_causal_network`. -/
namespace CE.Plot.C20
open CE.Plot List

/-! ## 1. `_communities_seed_order` -/

/-- the communities sorted by decreasing size, members by decreasing degree, concatenated
(`order` before de-duplication) -/
def commOrder (comms : List (List Nat)) (deg : Nat → Nat) : List Nat :=
  (comms.mergeSort (fun a b => decide (a.length ≥ b.length))).flatMap
    (fun c => c.mergeSort (fun a b => decide (deg a ≥ deg b)))

theorem seedOrder_eq (comms : List (List Nat)) (deg : Nat → Nat) (nodes : List Nat) :
    seedOrder comms deg nodes = dedup [] (commOrder comms deg ++ nodes) := rfl

theorem mem_commOrder (comms : List (List Nat)) (deg : Nat → Nat) (x : Nat) :
    x ∈ commOrder comms deg ↔ ∃ c ∈ comms, x ∈ c := by
  simp [commOrder, List.mem_flatMap, List.mem_mergeSort]

/-- the seed order never contains a node twice — no hypothesis on the communities at all -/
theorem seedOrder_nodup (comms : List (List Nat)) (deg : Nat → Nat) (nodes : List Nat) :
    (seedOrder comms deg nodes).Nodup := nodup_dedup _ _

/-- members of the seed order = members of the communities ∪ graph nodes -/
theorem mem_seedOrder (comms : List (List Nat)) (deg : Nat → Nat) (nodes : List Nat) (x : Nat) :
    x ∈ seedOrder comms deg nodes ↔ (∃ c ∈ comms, x ∈ c) ∨ x ∈ nodes := by
  rw [seedOrder_eq, mem_dedup, List.mem_append, mem_commOrder]
  simp

/-- **C20 (seed order).** For any community output whose members are graph nodes — overlapping,
incomplete, with repeated members, in any order — and any degree function, the seed order is a
permutation of the graph's (duplicate-free) node list. -/
theorem seedOrder_perm (comms : List (List Nat)) (deg : Nat → Nat) (nodes : List Nat)
    (hsub : ∀ c ∈ comms, ∀ x ∈ c, x ∈ nodes) (hnd : nodes.Nodup) :
    (seedOrder comms deg nodes).Perm nodes := by
  rw [List.perm_ext_iff_of_nodup (seedOrder_nodup _ _ _) hnd]
  intro x
  rw [mem_seedOrder]
  constructor
  · rintro (⟨c, hc, hx⟩ | h)
    · exact hsub c hc x hx
    · exact h
  · exact Or.inr

/-- corollary: duplicate-free, exactly the graph's nodes, same length -/
theorem seedOrder_nodup_mem (comms : List (List Nat)) (deg : Nat → Nat) (nodes : List Nat)
    (hsub : ∀ c ∈ comms, ∀ x ∈ c, x ∈ nodes) (hnd : nodes.Nodup) :
    (seedOrder comms deg nodes).Nodup ∧ (∀ x, x ∈ seedOrder comms deg nodes ↔ x ∈ nodes) ∧
      (seedOrder comms deg nodes).length = nodes.length :=
  ⟨seedOrder_nodup _ _ _, fun _ => (seedOrder_perm comms deg nodes hsub hnd).mem_iff,
    (seedOrder_perm comms deg nodes hsub hnd).length_eq⟩

/-- shape of the seed order: first the de-duplicated community order, then the missed graph nodes
in graph order -/
theorem seedOrder_shape (comms : List (List Nat)) (deg : Nat → Nat) (nodes : List Nat)
    (hnd : nodes.Nodup) :
    seedOrder comms deg nodes =
      dedup [] (commOrder comms deg) ++
        nodes.filter (fun n => !(commOrder comms deg).contains n) := by
  rw [seedOrder_eq, dedup_append, List.append_nil, dedup_of_nodup _ _ hnd]

/-- non-vacuity: overlapping, incomplete communities with a repeated member -/
example : (∀ c ∈ [[3, 1, 3], [1, 2, 3], [2]], ∀ x ∈ c, x ∈ [0, 1, 2, 3, 4]) ∧
    [0, 1, 2, 3, 4].Nodup := by decide

example : (seedOrder [[3, 1, 3], [1, 2, 3], [2]] (fun n => n) [0, 1, 2, 3, 4]).Perm
    [0, 1, 2, 3, 4] :=
  seedOrder_perm _ _ _ (by decide) (by decide)

/-- a concrete evaluation: larger community first, members by decreasing degree, repeated and
overlapping members dropped, missed nodes `0`, `4` appended in graph order -/
example : seedOrder [[3, 1, 3], [1, 2, 3, 5], [2]] (fun n => n) [0, 1, 2, 3, 4, 5] =
    [5, 3, 2, 1, 0, 4] := by
  have h : commOrder [[3, 1, 3], [1, 2, 3, 5], [2]] (fun n => n) = [5, 3, 2, 1, 3, 3, 1, 2] := by
    simp [commOrder, List.mergeSort, List.MergeSort.Internal.splitInTwo]
  rw [seedOrder_eq, h]
  decide

/-! ## 2. `optimize_circular_order` -/

theorem applyMove_perm (l : List Nat) (m : Move) : (applyMove l m).Perm l := by
  cases m with
  | swap i j => exact swapAt_perm l i j
  | rev i j => exact revBlock_perm l i j

/-- **C20 (optimiser).** For every seed order, every iteration budget (`steps.length`), every
stream of proposed moves and every stream of accept decisions, the result is a permutation of the
seed order. -/
theorem optimise_perm (seed : List Nat) (steps : List (Move × Bool)) :
    (optimise seed steps).Perm seed := by
  induction steps generalizing seed with
  | nil => exact List.Perm.refl _
  | cons s rest ih =>
    obtain ⟨m, acc⟩ := s
    simp only [optimise]
    refine (ih _).trans ?_
    split
    · exact applyMove_perm seed m
    · exact List.Perm.refl _

/-- corollary: if the seed order holds every graph node exactly once, so does the result -/
theorem optimise_nodup_mem (seed nodes : List Nat) (steps : List (Move × Bool))
    (hnd : seed.Nodup) (hmem : ∀ x, x ∈ seed ↔ x ∈ nodes) :
    (optimise seed steps).Nodup ∧ (∀ x, x ∈ optimise seed steps ↔ x ∈ nodes) ∧
      (optimise seed steps).length = seed.length :=
  ⟨(optimise_perm seed steps).nodup_iff.mpr hnd,
    fun x => ((optimise_perm seed steps).mem_iff).trans (hmem x),
    (optimise_perm seed steps).length_eq⟩

/-- each node occurs exactly once in the result -/
theorem optimise_count (seed : List Nat) (steps : List (Move × Bool)) (hnd : seed.Nodup)
    (x : Nat) (hx : x ∈ seed) : (optimise seed steps).count x = 1 := by
  rw [(optimise_perm seed steps).count_eq]
  exact List.count_eq_one_of_mem hnd hx

/-- budget `0`, or every proposal rejected: the seed order is returned unchanged -/
theorem optimise_all_rejected (seed : List Nat) (steps : List (Move × Bool))
    (h : ∀ s ∈ steps, s.2 = false) : optimise seed steps = seed := by
  induction steps generalizing seed with
  | nil => rfl
  | cons s rest ih =>
    obtain ⟨m, acc⟩ := s
    have hacc : acc = false := h (m, acc) List.mem_cons_self
    subst hacc
    simp only [optimise]
    exact ih _ (fun s hs => h s (List.mem_cons_of_mem _ hs))

/-- **C20 (layout, end to end).** The order handed to `_circular_positions` — seed order from any
community output, then any optimiser run — is a permutation of the graph's node list. -/
theorem layout_perm (comms : List (List Nat)) (deg : Nat → Nat) (nodes : List Nat)
    (steps : List (Move × Bool))
    (hsub : ∀ c ∈ comms, ∀ x ∈ c, x ∈ nodes) (hnd : nodes.Nodup) :
    (optimise (seedOrder comms deg nodes) steps).Perm nodes :=
  (optimise_perm _ _).trans (seedOrder_perm comms deg nodes hsub hnd)

/-- non-vacuity: a run with an accepted swap, a rejected move, an accepted block reversal and an
out-of-range proposal -/
example : optimise [10, 11, 12, 13, 14, 15]
    [(.swap 0 4, true), (.swap 1 2, false), (.rev 1 3, true), (.swap 2 9, true)] =
    [14, 13, 12, 11, 10, 15] := by decide

example : (optimise [10, 11, 12, 13, 14, 15]
    [(.swap 0 4, true), (.swap 1 2, false), (.rev 1 3, true)]).Nodup :=
  (optimise_nodup_mem _ [10, 11, 12, 13, 14, 15] _ (by decide) (fun _ => Iff.rfl)).1

/-! ## 3. `_circular_positions` -/

/-- **C20 (positions).** With `N ≥ 1` nodes, list position `i` gets the angle `i/N` turns
(`theta = 2π·i/N`; the factor `2π` and `cos`/`sin` are applied by the Python): distinct positions
get distinct angles, every angle of a position `i < N` is in `[0,1)` (so no two coincide modulo a
full turn either) and consecutive angles differ by exactly `1/N`. -/
theorem positions_distinct_equispaced (N : Nat) (hN : 1 ≤ N) :
    (∀ i j, turn N i = turn N j ↔ i = j) ∧
    (∀ i, i < N → 0 ≤ turn N i ∧ turn N i < 1) ∧
    (∀ i, turn N (i + 1) - turn N i = 1 / (N : Rat)) := by
  have hpos : (0 : Rat) < (N : Rat) := by exact_mod_cast hN
  have hne : (N : Rat) ≠ 0 := ne_of_gt hpos
  refine ⟨?_, ?_, ?_⟩
  · intro i j
    unfold turn
    constructor
    · intro h
      have h' : (i : Rat) = (j : Rat) := by
        have := congrArg (· * (N : Rat)) h
        simpa [div_mul_cancel₀ _ hne] using this
      exact_mod_cast h'
    · rintro rfl; rfl
  · intro i hi
    unfold turn
    have hi' : (i : Rat) < (N : Rat) := by exact_mod_cast hi
    have hi0 : (0 : Rat) ≤ (i : Rat) := by exact_mod_cast Nat.zero_le i
    exact ⟨div_nonneg hi0 (le_of_lt hpos), (div_lt_one hpos).mpr hi'⟩
  · intro i
    unfold turn
    push_cast
    field_simp
    ring

/-- every node of a duplicate-free order gets its own angle: `pos[n]` is written once, at
`i = order.idxOf n`, and two nodes share an angle only if they are the same node -/
theorem node_angles_distinct (order : List Nat) (x y : Nat) (hx : x ∈ order) (_hy : y ∈ order) :
    turn order.length (order.idxOf x) = turn order.length (order.idxOf y) ↔ x = y := by
  have hN : 1 ≤ order.length := List.length_pos_of_mem hx
  rw [(positions_distinct_equispaced order.length hN).1, List.idxOf_inj hx]

/-- the angles of the `N` positions are exactly `0, 1/N, …, (N-1)/N`, and in a duplicate-free
order the node at position `i` is looked up at position `i` -/
theorem node_angle_at (order : List Nat) (hnd : order.Nodup) (i : Nat) (hi : i < order.length) :
    turn order.length (order.idxOf order[i]) = (i : Rat) / (order.length : Rat) := by
  rw [hnd.idxOf_getElem i hi]; rfl

example : turn 4 0 = 0 ∧ turn 4 1 = 1 / 4 ∧ turn 4 2 = 1 / 2 ∧ turn 4 3 = 3 / 4 := by
  unfold turn; norm_num

/-! ## 4. per-lag normalisation and widths -/

/-- the divisor used by `normalise`: `cmis.max()` if positive, else `1` -/
def divisor (cmis : List Rat) : Rat := if maxR cmis > 0 then maxR cmis else 1

theorem divisor_pos (cmis : List Rat) : 0 < divisor cmis := by
  unfold divisor
  split
  · assumption
  · exact one_pos

/-- **C20 (no division by zero).** `normalise` divides by a strictly positive number: the group
maximum when that is positive, otherwise `1`. -/
theorem normalise_divisor (cmis : List Rat) :
    ∃ d : Rat, 0 < d ∧ (d = maxR cmis ∨ (maxR cmis ≤ 0 ∧ d = 1)) ∧
      normalise cmis = cmis.map (· / d) := by
  refine ⟨divisor cmis, divisor_pos cmis, ?_, rfl⟩
  unfold divisor
  split
  · exact Or.inl rfl
  · rename_i h; exact Or.inr ⟨not_lt.mp h, rfl⟩

/-- **C20 (normalised values).** For information values `≥ 0` (the code clamps with
`max(0.0, ·)`), every normalised value — the colour-map argument — is in `[0,1]`. -/
theorem normalise_range (cmis : List Rat) (h0 : ∀ x ∈ cmis, 0 ≤ x) :
    ∀ y ∈ normalise cmis, 0 ≤ y ∧ y ≤ 1 := by
  intro y hy
  change y ∈ cmis.map (· / divisor cmis) at hy
  obtain ⟨x, hx, rfl⟩ := List.mem_map.mp hy
  have hd := divisor_pos cmis
  refine ⟨div_nonneg (h0 x hx) (le_of_lt hd), ?_⟩
  rw [div_le_one hd]
  have hxm : x ≤ maxR cmis := le_maxR cmis x hx
  unfold divisor
  split
  · exact hxm
  · rename_i h; exact le_trans hxm (le_trans (not_lt.mp h) zero_le_one)

theorem normalise_length (cmis : List Rat) : (normalise cmis).length = cmis.length := by
  simp [normalise]

/-- a lag group whose information values are all `0` is normalised to all zeros (division by `1`,
not by `0`) -/
theorem normalise_all_zero (cmis : List Rat) (h : ∀ x ∈ cmis, x = 0) :
    normalise cmis = List.replicate cmis.length 0 := by
  rw [List.eq_replicate_iff]
  refine ⟨normalise_length cmis, ?_⟩
  intro y hy
  change y ∈ cmis.map (· / divisor cmis) at hy
  obtain ⟨x, hx, rfl⟩ := List.mem_map.mp hy
  simp [h x hx]

/-- when some value is positive the largest one is normalised to exactly `1` -/
theorem normalise_max_is_one (cmis : List Rat) (hpos : ∃ x ∈ cmis, 0 < x) :
    (1 : Rat) ∈ normalise cmis := by
  obtain ⟨x, hx, hx0⟩ := hpos
  have hm : 0 < maxR cmis := lt_of_lt_of_le hx0 (le_maxR cmis x hx)
  have hmem : maxR cmis ∈ cmis := maxR_mem cmis (List.ne_nil_of_mem hx)
  change (1 : Rat) ∈ cmis.map (· / divisor cmis)
  refine List.mem_map.mpr ⟨maxR cmis, hmem, ?_⟩
  have : divisor cmis = maxR cmis := by unfold divisor; rw [if_pos hm]
  change maxR cmis / divisor cmis = 1
  rw [this]; exact div_self (ne_of_gt hm)

/-- **C20 (widths).** For `w0 ≤ w1` and information values `≥ 0` every edge width is in
`[w0, w1]`. -/
theorem widths_range (w0 w1 : Rat) (hw : w0 ≤ w1) (cmis : List Rat) (h0 : ∀ x ∈ cmis, 0 ≤ x) :
    ∀ w ∈ widths w0 w1 cmis, w0 ≤ w ∧ w ≤ w1 := by
  intro w hw'
  unfold widths at hw'
  obtain ⟨y, hy, rfl⟩ := List.mem_map.mp hw'
  obtain ⟨hy0, hy1⟩ := normalise_range cmis h0 y hy
  have hd : 0 ≤ w1 - w0 := sub_nonneg.mpr hw
  constructor
  · have := mul_nonneg hd hy0
    linarith
  · have := mul_le_mul_of_nonneg_left hy1 hd
    linarith

theorem widths_length (w0 w1 : Rat) (cmis : List Rat) :
    (widths w0 w1 cmis).length = cmis.length := by
  simp [widths, normalise_length]

example : normalise [0, 0, 0] = [0, 0, 0] := by
  simp [normalise, maxR]

example : normalise [1, 4, 2] = [1 / 4, 1, 1 / 2] := by
  norm_num [normalise, maxR]

example : widths 1 3 [1, 4, 2] = [3 / 2, 3, 2] := by
  norm_num [widths, normalise, maxR]

example : widths 1 3 [0, 0] = [1, 1] := by
  simp [widths, normalise, maxR]

/-! ## 5. colour-map cycling -/

/-- **C20 (colour maps).** `colormaps[i % len(colormaps)]` never raises `IndexError`, however
many lag groups there are. -/
theorem cmapIndex_lt (i m : Nat) (hm : 0 < m) : cmapIndex i m < m := Nat.mod_lt _ hm

example : cmapIndex 7 5 = 2 ∧ cmapIndex 7 5 < 5 := by decide

/-! ## 6. arc radius -/

/-- `higher_lags = [lag for lag in sorted_lags if lag > 1]` -/
def higherLags (sortedLags : List Int) : List Int := sortedLags.filter (· > 1)

theorem mem_higherLags (sortedLags : List Int) (lag : Int) :
    lag ∈ higherLags sortedLags ↔ lag ∈ sortedLags ∧ 1 < lag := by
  simp [higherLags, List.mem_filter]

/-- **C20 (arc radius is total).** For any lag at all: `0` when `lag = 1`; `(k+1)/10` with `k`
the index of `lag` among the lags `> 1` when it occurs there (`higher_lags.index(lag)`);
`1/10` otherwise (the `except ValueError` branch). -/
theorem arcRadius_total (sortedLags : List Int) (lag : Int) :
    (lag = 1 → arcRadius sortedLags lag = 0) ∧
    (lag ≠ 1 → lag ∈ higherLags sortedLags →
      arcRadius sortedLags lag = (((higherLags sortedLags).idxOf lag : Nat) + 1 : Rat) / 10 ∧
      (higherLags sortedLags).idxOf lag < (higherLags sortedLags).length) ∧
    (lag ≠ 1 → lag ∉ higherLags sortedLags → arcRadius sortedLags lag = 1 / 10) := by
  refine ⟨?_, ?_, ?_⟩
  · intro h; simp [arcRadius, h]
  · intro h hm
    have hk : (higherLags sortedLags).idxOf? lag = some ((higherLags sortedLags).idxOf lag) :=
      (idxOf?_eq_some_iff_idxOf _ _ _).mpr ⟨hm, rfl⟩
    refine ⟨?_, List.idxOf_lt_length_iff.mpr hm⟩
    unfold arcRadius
    rw [if_neg h]
    change (match (higherLags sortedLags).idxOf? lag with
      | some k => ((k : Rat) + 1) / 10
      | none => 1 / 10) = _
    rw [hk]
  · intro h hm
    have hk : (higherLags sortedLags).idxOf? lag = none := List.idxOf?_eq_none_iff.mpr hm
    unfold arcRadius
    rw [if_neg h]
    change (match (higherLags sortedLags).idxOf? lag with
      | some k => ((k : Rat) + 1) / 10
      | none => 1 / 10) = _
    rw [hk]

/-- every lag `> 1` that is drawn (it is one of the group lags) finds its index: the fallback
branch is taken exactly by lags that are not `1` and not among the lags `> 1`, i.e. for a drawn lag
exactly by the lags `≤ 0` -/
theorem arcRadius_fallback_iff (sortedLags : List Int) (lag : Int) (hmem : lag ∈ sortedLags) :
    (lag ≠ 1 ∧ lag ∉ higherLags sortedLags) ↔ lag ≤ 0 := by
  rw [mem_higherLags]
  constructor
  · rintro ⟨h1, h2⟩
    have : ¬ 1 < lag := fun h => h2 ⟨hmem, h⟩
    omega
  · intro h
    exact ⟨by omega, fun h2 => by omega⟩

theorem arcRadius_nonneg (sortedLags : List Int) (lag : Int) : 0 ≤ arcRadius sortedLags lag := by
  obtain ⟨h1, h2, h3⟩ := arcRadius_total sortedLags lag
  by_cases h : lag = 1
  · rw [h1 h]
  · by_cases hm : lag ∈ higherLags sortedLags
    · rw [(h2 h hm).1]; positivity
    · rw [h3 h hm]; norm_num

/-- lags other than `1` get a strictly positive radius (a curved arc) -/
theorem arcRadius_pos (sortedLags : List Int) (lag : Int) (h : lag ≠ 1) :
    0 < arcRadius sortedLags lag := by
  obtain ⟨_, h2, h3⟩ := arcRadius_total sortedLags lag
  by_cases hm : lag ∈ higherLags sortedLags
  · rw [(h2 h hm).1]; positivity
  · rw [h3 h hm]; norm_num

/-- **C20 (parallel edges at different lags get different arcs).** Two lags `≥ 1` that are both
drawn and have the same arc radius are equal.  (No sortedness or `Nodup` hypothesis is needed:
`index` returns the first position.) -/
theorem arcRadius_injective_on (sortedLags : List Int) (a b : Int)
    (ha : a ∈ sortedLags) (hb : b ∈ sortedLags) (ha1 : 1 ≤ a) (hb1 : 1 ≤ b)
    (h : arcRadius sortedLags a = arcRadius sortedLags b) : a = b := by
  by_cases ea : a = 1
  · by_cases eb : b = 1
    · rw [ea, eb]
    · have h0 := (arcRadius_total sortedLags a).1 ea
      have hp := arcRadius_pos sortedLags b eb
      rw [← h, h0] at hp
      exact absurd hp (lt_irrefl _)
  · by_cases eb : b = 1
    · have h0 := (arcRadius_total sortedLags b).1 eb
      have hp := arcRadius_pos sortedLags a ea
      rw [h, h0] at hp
      exact absurd hp (lt_irrefl _)
    · have hma : a ∈ higherLags sortedLags := (mem_higherLags _ _).mpr ⟨ha, by omega⟩
      have hmb : b ∈ higherLags sortedLags := (mem_higherLags _ _).mpr ⟨hb, by omega⟩
      rw [((arcRadius_total sortedLags a).2.1 ea hma).1,
        ((arcRadius_total sortedLags b).2.1 eb hmb).1] at h
      have h' : (((higherLags sortedLags).idxOf a : Nat) : Rat) =
          (((higherLags sortedLags).idxOf b : Nat) : Rat) := by linarith
      have h'' : (higherLags sortedLags).idxOf a = (higherLags sortedLags).idxOf b := by
        exact_mod_cast h'
      exact (List.idxOf_inj hma).mp h''

/-- with the lags sorted increasingly (as `sorted(edge_data.keys())` is, see `lagGroups_spec`),
a larger lag `≥ 1` gets a strictly larger arc radius: the arcs are nested by lag -/
theorem arcRadius_strictMono_on (sortedLags : List Int) (hs : sortedLags.Pairwise (· < ·))
    (a b : Int) (ha : a ∈ sortedLags) (hb : b ∈ sortedLags) (ha1 : 1 ≤ a) (hab : a < b) :
    arcRadius sortedLags a < arcRadius sortedLags b := by
  have eb : b ≠ 1 := by omega
  by_cases ea : a = 1
  · rw [(arcRadius_total sortedLags a).1 ea]
    exact arcRadius_pos sortedLags b eb
  · have hma : a ∈ higherLags sortedLags := (mem_higherLags _ _).mpr ⟨ha, by omega⟩
    have hmb : b ∈ higherLags sortedLags := (mem_higherLags _ _).mpr ⟨hb, by omega⟩
    rw [((arcRadius_total sortedLags a).2.1 ea hma).1,
      ((arcRadius_total sortedLags b).2.1 eb hmb).1]
    have hs' : (higherLags sortedLags).Pairwise (· < ·) := hs.filter _
    have hlt := idxOf_lt_of_sorted _ hs' a b hma hmb hab
    have hlt' : (((higherLags sortedLags).idxOf a : Nat) : Rat) <
        (((higherLags sortedLags).idxOf b : Nat) : Rat) := by exact_mod_cast hlt
    linarith

example : arcRadius [1, 2, 5] 1 = 0 ∧ arcRadius [1, 2, 5] 2 = 1 / 10 ∧
    arcRadius [1, 2, 5] 5 = 1 / 5 := by
  refine ⟨by simp [arcRadius], ?_, ?_⟩ <;>
    norm_num [arcRadius, List.idxOf?_cons, List.filter]

/-- observation (not a totality issue): a lag `≤ 0` takes the `except ValueError` branch and is
drawn with the same curvature `0.1` as the first lag `> 1` -/
theorem arcRadius_lag0_collides : arcRadius [0, 2] 0 = arcRadius [0, 2] 2 := by
  norm_num [arcRadius, List.idxOf?_cons, List.filter]

/-! ## 7. grouping the edges by lag -/

/-- **C20 (lag groups).** The group lags are duplicate-free, strictly increasing and exactly the
lags occurring on the edges; every group is non-empty — `cmis.max()` is never taken over an empty
array — and holds `max 0 cmi` of exactly the edges with that lag, in edge order; all its entries
are `≥ 0`. -/
theorem lagGroups_spec (edges : List (Int × Rat)) :
    ((lagGroups edges).map (·.1)).Nodup ∧
    ((lagGroups edges).map (·.1)).Pairwise (· < ·) ∧
    (∀ l, l ∈ (lagGroups edges).map (·.1) ↔ ∃ e ∈ edges, e.1 = l) ∧
    (∀ g ∈ lagGroups edges,
      g.2 = ((edges.filter (fun e => e.1 = g.1)).map (fun e => max 0 e.2)) ∧
      g.2 ≠ [] ∧ ∀ x ∈ g.2, 0 ≤ x) := by
  have hmap : (lagGroups edges).map (·.1) =
      (edges.map (·.1)).eraseDups.mergeSort (fun a b => decide (a ≤ b)) := by
    simp [lagGroups, List.map_map, Function.comp_def]
  have hnd : ((lagGroups edges).map (·.1)).Nodup := by
    rw [hmap]
    exact (List.mergeSort_perm _ _).nodup_iff.mpr (nodup_eraseDups _)
  have hmem : ∀ l, l ∈ (lagGroups edges).map (·.1) ↔ ∃ e ∈ edges, e.1 = l := by
    intro l
    rw [hmap, List.mem_mergeSort, List.mem_eraseDups, List.mem_map]
  have hsorted : ((lagGroups edges).map (·.1)).Pairwise (· ≤ ·) := by
    rw [hmap]
    exact pairwise_mergeSort_int _
  refine ⟨hnd, ?_, hmem, ?_⟩
  · have := hsorted.and hnd
    exact this.imp (fun ⟨h1, h2⟩ => lt_of_le_of_ne h1 h2)
  · intro g hg
    have hg1 : g.1 ∈ (lagGroups edges).map (·.1) := List.mem_map.mpr ⟨g, hg, rfl⟩
    obtain ⟨e, he, hel⟩ := (hmem g.1).mp hg1
    have hg2 : g.2 = ((edges.filter (fun e => e.1 = g.1)).map (fun e => max 0 e.2)) := by
      unfold lagGroups at hg
      obtain ⟨l, _, rfl⟩ := List.mem_map.mp hg
      simp only
      congr 1
    refine ⟨hg2, ?_, ?_⟩
    · rw [hg2]
      intro hnil
      have : e ∈ edges.filter (fun e => e.1 = g.1) := by
        rw [List.mem_filter]; exact ⟨he, by simpa using hel⟩
      have hne := List.ne_nil_of_mem (List.mem_map_of_mem (f := fun e => max 0 e.2) this)
      exact hne hnil
    · intro x hx
      rw [hg2] at hx
      obtain ⟨e', _, rfl⟩ := List.mem_map.mp hx
      exact le_max_left _ _

/-- no edge is dropped: every edge's clamped value sits in the group of its lag -/
theorem lagGroups_covers (edges : List (Int × Rat)) (e : Int × Rat) (he : e ∈ edges) :
    ∃ g ∈ lagGroups edges, g.1 = e.1 ∧ max 0 e.2 ∈ g.2 := by
  obtain ⟨_, _, hmem, hgrp⟩ := lagGroups_spec edges
  obtain ⟨g, hg, hg1⟩ := List.mem_map.mp ((hmem e.1).mpr ⟨e, he, rfl⟩)
  refine ⟨g, hg, hg1, ?_⟩
  rw [(hgrp g hg).1]
  refine List.mem_map.mpr ⟨e, ?_, rfl⟩
  rw [List.mem_filter]
  exact ⟨he, by simpa using hg1.symm⟩

/-- non-vacuity: lag gap, parallel lags, a negative value clamped, an all-zero group -/
example : lagGroups [(3, 1 / 2), (1, 0), (3, -1), (0, 2), (1, 0)] =
    [(0, [2]), (1, [0, 0]), (3, [1 / 2, 0])] := by
  have h : ([3, 1, 3, 0, 1] : List Int).eraseDups = [3, 1, 0] := by decide
  unfold lagGroups
  simp only [List.map_cons, List.map_nil]
  rw [h, mergeSort_int_eq _ [0, 1, 3] (by decide) (by decide)]
  norm_num [List.filter_cons]

/-! ## 8. the styling loop `for i, lag in enumerate(sorted_lags)` as a whole -/

/-- **C20 (styling arithmetic is total).** For every edge list (any lags — gaps, `0`, negative —
and any information values, also negative or all zero), any width range `w0 ≤ w1` and any positive
number `m` of colour maps, for the `i`-th lag group `(lag, cmis)`: the group is non-empty, the
normalisation divides by a positive number, the normalised values are in `[0,1]`, the widths in
`[w0,w1]`, the colour-map index is `< m` and the arc radius is a well-defined number `≥ 0`. -/
theorem style_total (edges : List (Int × Rat)) (w0 w1 : Rat) (hw : w0 ≤ w1) (m : Nat) (hm : 0 < m)
    (i : Nat) (hi : i < (lagGroups edges).length) :
    let g := (lagGroups edges)[i]
    g.2 ≠ [] ∧
    (∃ d : Rat, 0 < d ∧ normalise g.2 = g.2.map (· / d)) ∧
    (∀ y ∈ normalise g.2, 0 ≤ y ∧ y ≤ 1) ∧
    (∀ w ∈ widths w0 w1 g.2, w0 ≤ w ∧ w ≤ w1) ∧
    cmapIndex i m < m ∧
    0 ≤ arcRadius ((lagGroups edges).map (·.1)) g.1 := by
  intro g
  have hg : g ∈ lagGroups edges := List.getElem_mem hi
  obtain ⟨_, _, _, hgrp⟩ := lagGroups_spec edges
  obtain ⟨_, hne, h0⟩ := hgrp g hg
  obtain ⟨d, hd, _, hnorm⟩ := normalise_divisor g.2
  exact ⟨hne, ⟨d, hd, hnorm⟩, normalise_range g.2 h0, widths_range w0 w1 hw g.2 h0,
    cmapIndex_lt i m hm, arcRadius_nonneg _ _⟩

/-- non-vacuity: seven lag groups (more than the five colour maps), one of them all zero -/
example :
    (lagGroups [(1, 0), (2, 1), (3, 1), (5, 2), (8, 1), (9, 1), (0, 3), (1, 0)]).length = 7 := by
  have h : ([1, 2, 3, 5, 8, 9, 0, 1] : List Int).eraseDups = [1, 2, 3, 5, 8, 9, 0] := by decide
  unfold lagGroups
  simp only [List.map_cons, List.map_nil, List.length_map, List.length_mergeSort]
  rw [h]; rfl

end CE.Plot.C20
