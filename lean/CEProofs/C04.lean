import CEProofs.C03
import CEProofs.C04Lemmas
import Mathlib.Data.Fintype.Fin
import Mathlib.Data.List.OfFn
import Mathlib.Data.Nat.Factorial.Basic

/-! # C04 — the permutation test controls false discoveries at (almost) the requested level

The null hypothesis is modelled as a finite uniform space (DESIGN.md §6 C04): the data
`(X₀, Y, Z)` are fixed, the observed predictor is `X₀∘σ₀` with `σ₀` uniform on
`Equiv.Perm (Fin N)` (rows of X exchangeable given (Y, Z)), the surrogate draws `π₁ … π_n` are
uniform and independent of `σ₀` and of each other, and the statistic `t σ` = "estimator value on
`(X₀∘σ, Y, Z)`" is an **arbitrary** function `Equiv.Perm (Fin N) → ℚ`.

A sample point is the tuple `y = (σ₀, π₁, …, π_n) : Fin (n+1) → Equiv.Perm (Fin N)`; all
`(N!)^(n+1)` tuples are equally likely. On it the code computes the null values
`t (σ₀ * π_k)` (it permutes the rows of the *observed* X), the observed value `t σ₀`, and the
verdict of the executable model `CE.Disc.decideTest` (the very function of C03):

`verdict t α y = (decideTest (null.map Val.fin) (Val.fin (t σ₀)) α).pass`.

Probabilities are stated in counting form: `P(pass) = #{y | verdict t α y} / (N!)^(n+1)`.

Main results (`lo = loIdx n α = ⌊(n-1)(1-α)⌋`):

* `shuffle_level`   — `(n+1)·#{pass} ≤ (n - lo)·(N!)^(n+1)`, i.e. `P(pass) ≤ (n-lo)/(n+1)`,
  for every statistic, every `N`, `n ≥ 1`, `0 < α < 1`;
* `level_lt`        — `(n-lo)/(n+1) < α + (2-2α)/(n+1)`;
* `level_le_alpha_plus_inv_n` — `P(pass) ≤ α + 1/n` under the decidable side condition `SC α n`;
* `c04_level_partial` — the general statement (no side condition); see its doc-comment for what is
  missing with respect to the literal text of the property;
* `verdict_eq_shuffleTest`, `shuffle_level_model` — the same on the executable `shuffleTest` with a
  concrete estimator and data (this fixes the composition order `σ₀ * π_k`);
* `literal_bound_fails` — a formal counterexample to the literal bound `α + 1/n` (adversarial
  statistic, `(α, n) = (0.05, 2)`). -/

namespace CE.Disc

open Finset C03 C04

/-! ## The model's verdict on the null-hypothesis sample space -/

section Model
variable {G : Type} [Group G]

/-- the `n` surrogate values the code computes at the sample point `y = (σ₀, π₁, …, π_n)`:
`null_k = t (σ₀ * π_k)` -/
def nullOf {n : ℕ} (t : G → ℚ) (y : Fin (n + 1) → G) : List ℚ :=
  List.ofFn (fun k : Fin n => t (y 0 * y k.succ))

/-- the verdict of the executable model at the sample point `y`: observed value `t σ₀`, null values
`nullOf t y`, decided by `decideTest` (C03) -/
def verdict {n : ℕ} (t : G → ℚ) (α : ℚ) (y : Fin (n + 1) → G) : Bool :=
  (decideTest ((nullOf t y).map Val.fin) (Val.fin (t (y 0))) α).pass

omit [Group G] in
theorem card_filter_eq_countP_ofFn {n : ℕ} (f : Fin n → ℚ) (p : ℚ → Bool) :
    (univ.filter (fun k : Fin n => p (f k) = true)).card = (List.ofFn f).countP p := by
  induction n with
  | zero => simp
  | succ n ih =>
    rw [Fin.card_filter_univ_succ', List.ofFn_succ, List.countP_cons, ih (fun k => f k.succ)]
    omega

/-- the number of *other* positions whose statistic is `≥` that of position 0 (in the sheared
tuple) is the model's count of null values `≥ obs` -/
theorem card_others_eq_geCount {n : ℕ} (t : G → ℚ) (y : Fin (n + 1) → G) :
    (univ.filter (fun k : Fin (n + 1) => k ≠ 0 ∧ t (y 0) ≤ t (y 0 * y k))).card
      = geCount (nullOf t y) (t (y 0)) := by
  rw [Fin.card_filter_univ_succ]
  simp only [ne_eq, not_true_eq_false, false_and, if_false, Fin.succ_ne_zero, not_false_eq_true,
    true_and]
  unfold geCount nullOf
  rw [← card_filter_eq_countP_ofFn]
  congr 1
  apply Finset.filter_congr
  intro k _
  simp

theorem length_nullOf {n : ℕ} (t : G → ℚ) (y : Fin (n + 1) → G) : (nullOf t y).length = n := by
  unfold nullOf; simp

/-- C03 at a sample point: a pass means position 0 is extreme at level `n-1-⌊h⌋` -/
theorem verdict_imp_extreme {n : ℕ} (hn : 1 ≤ n) (t : G → ℚ) (α : ℚ) (hα0 : 0 < α) (hα1 : α < 1)
    (y : Fin (n + 1) → G) (hv : verdict t α y = true) :
    (univ.filter (fun k : Fin (n + 1) => k ≠ 0 ∧ t (y 0) ≤ t (y 0 * y k))).card
      ≤ n - 1 - loIdx n α := by
  rw [card_others_eq_geCount]
  have h := count_ge_le_of_pass (nullOf t y) (by rw [length_nullOf]; exact hn) (t (y 0)) α hα0 hα1 hv
  rwa [length_nullOf] at h

/-- **Level of the model's test, any finite group of rearrangements.** -/
theorem shuffle_level_group [Fintype G] [DecidableEq G] (n : ℕ) (hn : 1 ≤ n) (t : G → ℚ) (α : ℚ)
    (hα0 : 0 < α) (hα1 : α < 1) :
    (n + 1) * (univ.filter (fun y : Fin (n + 1) → G => verdict t α y = true)).card
      ≤ (n - loIdx n α) * Fintype.card G ^ (n + 1) := by
  have h := level_bound t (n - 1 - loIdx n α) (fun y : Fin (n + 1) → G => verdict t α y = true)
    (fun y hy => verdict_imp_extreme hn t α hα0 hα1 y hy)
  have hlo := loIdx_le hn hα0 hα1
  have hc : n - 1 - loIdx n α + 1 = n - loIdx n α := by omega
  rw [hc, Fintype.card_fun, Fintype.card_fin] at h
  exact h

end Model

/-! ## The level theorem -/

/-- **`shuffle_level`.** For every statistic `t` (every estimator, every data set), every number of
rows `N`, every number of surrogates `n ≥ 1` and every `0 < α < 1`, among the `(N!)^(n+1)` equally
likely sample points `(σ₀, π₁, …, π_n)` the model's test passes on at most the fraction
`(n - ⌊(n-1)(1-α)⌋)/(n+1)`:
`(n+1) · #{pass} ≤ (n - ⌊(n-1)(1-α)⌋) · (N!)^(n+1)`
(the subtraction is a genuine one: `⌊(n-1)(1-α)⌋ < n`). -/
theorem shuffle_level (N n : ℕ) (hn : 1 ≤ n) (t : Equiv.Perm (Fin N) → ℚ) (α : ℚ)
    (hα0 : 0 < α) (hα1 : α < 1) :
    loIdx n α < n ∧
    (n + 1) * (univ.filter (fun y : Fin (n + 1) → Equiv.Perm (Fin N) => verdict t α y = true)).card
      ≤ (n - loIdx n α) * N.factorial ^ (n + 1) := by
  refine ⟨loIdx_lt hn hα0 hα1, ?_⟩
  have h := shuffle_level_group n hn t α hα0 hα1
  rwa [Fintype.card_perm, Fintype.card_fin] at h

example : (1 : ℕ) ≤ 20 ∧ (0 : ℚ) < 1 / 20 ∧ (1 / 20 : ℚ) < 1 := by norm_num

/-- probability that the model's test passes under the null hypothesis (counting measure on the
`(N!)^(n+1)` sample points) -/
def passProb (N n : ℕ) (t : Equiv.Perm (Fin N) → ℚ) (α : ℚ) : ℚ :=
  ((univ.filter (fun y : Fin (n + 1) → Equiv.Perm (Fin N) => verdict t α y = true)).card : ℚ)
    / ((N.factorial : ℚ) ^ (n + 1))

/-- the exact finite-sample bound `(n - ⌊(n-1)(1-α)⌋)/(n+1)` -/
def levelBound (n : ℕ) (α : ℚ) : ℚ := ((n : ℚ) - (loIdx n α : ℚ)) / ((n : ℚ) + 1)

/-- **`shuffle_level` as a probability:** `P(pass) ≤ (n - ⌊(n-1)(1-α)⌋)/(n+1)`. -/
theorem shuffle_level_prob (N n : ℕ) (hn : 1 ≤ n) (t : Equiv.Perm (Fin N) → ℚ) (α : ℚ)
    (hα0 : 0 < α) (hα1 : α < 1) :
    passProb N n t α ≤ levelBound n α := by
  obtain ⟨hlo, h⟩ := shuffle_level N n hn t α hα0 hα1
  unfold passProb levelBound
  have hF : (0 : ℚ) < (N.factorial : ℚ) ^ (n + 1) := by
    have : (0 : ℚ) < (N.factorial : ℚ) := by exact_mod_cast N.factorial_pos
    positivity
  have hn1 : (0 : ℚ) < (n : ℚ) + 1 := by positivity
  rw [div_le_div_iff₀ hF hn1]
  have hq : (((n + 1) * (univ.filter
      (fun y : Fin (n + 1) → Equiv.Perm (Fin N) => verdict t α y = true)).card : ℕ) : ℚ)
      ≤ (((n - loIdx n α) * N.factorial ^ (n + 1) : ℕ) : ℚ) := by exact_mod_cast h
  rw [Nat.cast_mul, Nat.cast_mul, Nat.cast_sub (le_of_lt hlo)] at hq
  push_cast at hq
  linarith

/-! ## Corollaries: how far the bound is from `α` -/

/-- **`level_lt`.** The bound is always below `α + (2-2α)/(n+1)`. -/
theorem level_lt (n : ℕ) (α : ℚ) :
    levelBound n α < α + (2 - 2 * α) / ((n : ℚ) + 1) := by
  have hn1 : (0 : ℚ) < (n : ℚ) + 1 := by positivity
  have hfl := h_lt_loIdx_succ n α
  unfold hIdx at hfl
  unfold levelBound
  rw [div_lt_iff₀ hn1]
  have hr : (α + (2 - 2 * α) / ((n : ℚ) + 1)) * ((n : ℚ) + 1) = α * ((n : ℚ) + 1) + (2 - 2 * α) := by
    field_simp
  rw [hr]
  nlinarith

/-- the decidable side condition under which the exact bound is `≤ α + 1/n`:
`(n - ⌊(n-1)(1-α)⌋)·n ≤ (nα+1)(n+1)` -/
def SC (α : ℚ) (n : ℕ) : Prop :=
  ((n : ℚ) - (loIdx n α : ℚ)) * (n : ℚ) ≤ ((n : ℚ) * α + 1) * ((n : ℚ) + 1)

instance (α : ℚ) (n : ℕ) : Decidable (SC α n) := by unfold SC; infer_instance

theorem levelBound_le_of_SC (n : ℕ) (hn : 1 ≤ n) (α : ℚ) (hsc : SC α n) :
    levelBound n α ≤ α + 1 / (n : ℚ) := by
  have hnpos : (0 : ℚ) < n := by exact_mod_cast hn
  have hn1 : (0 : ℚ) < (n : ℚ) + 1 := by positivity
  unfold levelBound
  unfold SC at hsc
  rw [div_le_iff₀ hn1]
  have hr : (α + 1 / (n : ℚ)) * ((n : ℚ) + 1) = ((n : ℚ) * α + 1) * ((n : ℚ) + 1) / (n : ℚ) := by
    field_simp
  rw [hr, le_div_iff₀ hnpos]
  exact hsc

/-- **`level_le_alpha_plus_inv_n`.** Under the side condition `SC α n` the test declares significance
with probability at most `α + 1/n_shuffles`, for every statistic (estimator), every data set and
every number of rows. -/
theorem level_le_alpha_plus_inv_n (N n : ℕ) (hn : 1 ≤ n) (t : Equiv.Perm (Fin N) → ℚ) (α : ℚ)
    (hα0 : 0 < α) (hα1 : α < 1) (hsc : SC α n) :
    passProb N n t α ≤ α + 1 / (n : ℚ) :=
  le_trans (shuffle_level_prob N n hn t α hα0 hα1) (levelBound_le_of_SC n hn α hsc)

theorem loIdx_eq (n : ℕ) (α : ℚ) (k : ℕ) (h1 : (k : ℚ) ≤ hIdx n α) (h2 : hIdx n α < (k : ℚ) + 1) :
    loIdx n α = k := by
  unfold loIdx
  have h0 : (0 : ℚ) ≤ hIdx n α := le_trans (Nat.cast_nonneg k) h1
  exact (Nat.floor_eq_iff h0).mpr ⟨h1, h2⟩

/-- `SC` holds for the default-like configuration `(α, n) = (0.05, 200)` … -/
example : SC (1 / 20) 200 := by
  unfold SC; rw [loIdx_eq 200 (1/20) 189 (by unfold hIdx; norm_num) (by unfold hIdx; norm_num)]
  norm_num

/-- … for `(0.05, 100)` … -/
example : SC (1 / 20) 100 := by
  unfold SC; rw [loIdx_eq 100 (1/20) 94 (by unfold hIdx; norm_num) (by unfold hIdx; norm_num)]
  norm_num

/-- … and for `(0.05, 20)` … -/
example : SC (1 / 20) 20 := by
  unfold SC; rw [loIdx_eq 20 (1/20) 18 (by unfold hIdx; norm_num) (by unfold hIdx; norm_num)]
  norm_num

/-- … but fails for `(0.05, 50)`: there the exact bound is `4/51 > 0.07 = α + 1/n`. -/
example : ¬ SC (1 / 20) 50 ∧ levelBound 50 (1 / 20) = 4 / 51 ∧
    (1 / 20 : ℚ) + 1 / (50 : ℕ) < 4 / 51 := by
  unfold SC levelBound
  rw [loIdx_eq 50 (1/20) 46 (by unfold hIdx; norm_num) (by unfold hIdx; norm_num)]
  norm_num

/-! ## The same statement on the executable `shuffleTest` with a concrete estimator and data -/

/-- the index list `[σ 0, …, σ (N-1)]` that `rng.permutation(N)` would return for `σ` -/
def idxList {N : ℕ} (σ : Equiv.Perm (Fin N)) : List ℕ := List.ofFn (fun r : Fin N => ((σ r : Fin N) : ℕ))

theorem permute_idxList {N : ℕ} (x : Col) (σ : Equiv.Perm (Fin N)) :
    permute x (idxList σ) = List.ofFn (fun r : Fin N => x.getD (σ r) 0) := by
  unfold permute idxList
  rw [List.map_ofFn]
  rfl

/-- permuting the rows of the observed predictor `X₀∘σ₀` with `π` gives `X₀∘(σ₀ * π)`: this is why
the null values are `t (σ₀ * π_k)` -/
theorem permute_permute {N : ℕ} (x : Col) (σ π : Equiv.Perm (Fin N)) :
    permute (permute x (idxList σ)) (idxList π) = permute x (idxList (σ * π)) := by
  rw [permute_idxList (permute x (idxList σ)) π, permute_idxList x (σ * π), permute_idxList x σ]
  congr 1
  funext r
  rw [List.getD_eq_getElem _ _ (by simp)]
  simp

/-- `idxList σ` is a rearrangement of the row indices `0..N-1` (so `permute_perm` of C03 applies) -/
theorem idxList_perm {N : ℕ} (σ : Equiv.Perm (Fin N)) : (idxList σ).Perm (List.range N) := by
  apply (List.perm_ext_iff_of_nodup ?_ List.nodup_range).mpr
  · intro a
    unfold idxList
    simp only [List.mem_ofFn, List.mem_range]
    constructor
    · rintro ⟨r, rfl⟩; exact (σ r).isLt
    · intro ha; exact ⟨σ.symm ⟨a, ha⟩, by simp⟩
  · unfold idxList
    rw [List.nodup_ofFn]
    intro a b hab
    exact σ.injective (Fin.ext hab)

/-- **The abstract verdict is the verdict of `shuffleTest`.** Fix data `(x₀, y, z)` and an estimator
whose value on `(x₀∘σ, y, z)` is the finite number `t σ`. At the sample point `w = (σ₀, π₁, …, π_n)`
the code observes `X = x₀∘σ₀`, computes `obs = est X y z`, draws the index lists of `π₁ … π_n` and
runs `shuffleTest`; its `Pass` is `verdict t α w`. -/
theorem verdict_eq_shuffleTest {N n : ℕ} (est : Est) (x₀ y : Col) (z : List Col)
    (t : Equiv.Perm (Fin N) → ℚ)
    (ht : ∀ σ, est (permute x₀ (idxList σ)) y z = Val.fin (t σ))
    (α : ℚ) (w : Fin (n + 1) → Equiv.Perm (Fin N)) :
    (shuffleTest est (List.ofFn (fun k : Fin n => idxList (w k.succ)))
        (permute x₀ (idxList (w 0))) y z (est (permute x₀ (idxList (w 0))) y z) α).pass
      = verdict t α w := by
  unfold shuffleTest verdict nullOf
  rw [List.map_ofFn, List.map_ofFn, ht]
  congr 3
  funext k
  simp only [Function.comp]
  rw [permute_permute, ht]

/-- **`shuffle_level` for the executable `shuffleTest`.** For every estimator `est` that is finite on
every row-rearrangement of the predictor column `x₀` (with `y`, `z` fixed), every `N`, `n ≥ 1`,
`0 < α < 1`: among the `(N!)^(n+1)` equally likely sample points `w = (σ₀, π₁, …, π_n)` — observed
predictor `x₀∘σ₀`, recorded generator draws `π₁ … π_n` — `shuffle_test` declares significance on at
most the fraction `(n - ⌊(n-1)(1-α)⌋)/(n+1)`. -/
theorem shuffle_level_model (N n : ℕ) (hn : 1 ≤ n) (est : Est) (x₀ y : Col) (z : List Col)
    (hfin : ∀ σ : Equiv.Perm (Fin N), ∃ q, est (permute x₀ (idxList σ)) y z = Val.fin q)
    (α : ℚ) (hα0 : 0 < α) (hα1 : α < 1) :
    (n + 1) * (univ.filter (fun w : Fin (n + 1) → Equiv.Perm (Fin N) =>
        (shuffleTest est (List.ofFn (fun k : Fin n => idxList (w k.succ)))
          (permute x₀ (idxList (w 0))) y z (est (permute x₀ (idxList (w 0))) y z) α).pass = true)).card
      ≤ (n - loIdx n α) * N.factorial ^ (n + 1) := by
  choose t ht using hfin
  simp only [verdict_eq_shuffleTest est x₀ y z t ht α]
  exact (shuffle_level N n hn t α hα0 hα1).2

/-- the hypotheses of `shuffle_level_model` are satisfiable (an estimator reading the first row) -/
example : ∀ σ : Equiv.Perm (Fin 3), ∃ q,
    (fun x _ _ => Val.fin (x.getD 0 0) : Est) (permute [5, 7, 9] (idxList σ)) [1, 2, 3] [] = Val.fin q :=
  fun _ => ⟨_, rfl⟩

/-! ## The general statement -/

/-- **`c04_level_partial`.** For every statistic `t` (every estimator and data set), every `N`,
`n ≥ 1` and `0 < α < 1`, under the null hypothesis the model's test passes with probability

* at most `(n - ⌊(n-1)(1-α)⌋)/(n+1)` (exact finite-sample bound),
* hence strictly less than `α + (2-2α)/(n+1)`,
* and at most `α + 1/n` whenever the decidable side condition `SC α n` holds
  (e.g. `(0.05, 200)`, `(0.05, 100)`, `(0.05, 20)`, see the examples above).

**Why `_partial`.** The property text asks for `P(pass) ≤ α + 1/n_shuffles` for all `(α, n)` and
every estimator. That literal bound is NOT provable for all `(α, n)` when the statistic is
adversarial: the threshold is the *interpolated* percentile `s[⌊h⌋] + γ (s[⌊h⌋+1] - s[⌊h⌋])`, and a
statistic whose values make every observed value that falls into the gap `(s[⌊h⌋], s[⌊h⌋+1])` exceed
the interpolated point (while ties have vanishing probability, `N! → ∞`) passes whenever at most
`n-1-⌊h⌋` null values are `≥ obs`, i.e. with probability approaching `(n - ⌊h⌋)/(n+1)`. For
`(α, n) = (0.05, 50)` this is `4/51 ≈ 0.0784 > 0.07 = α + 1/n` (last example above), so what is
missing is exactly the cases where `SC α n` fails; there only the two weaker bounds of this
theorem are available. A machine-checked instance of the failure of the literal bound is
`literal_bound_fails` below (`(α, n) = (0.05, 2)`, `N = 3`: `P(pass) = 125/216 > 0.55`).
(For statistics whose position inside a null gap is uniform the true level is
`α + (1-2α)/(n+1) < α + 1/n`; the tree is not blamed for the gap.) The second sentence of the
property (fraction of links of a whole discovered network on white noise) involves arg-max
selection before testing and is a measurement, not a theorem. -/
theorem c04_level_partial (N n : ℕ) (hn : 1 ≤ n) (t : Equiv.Perm (Fin N) → ℚ) (α : ℚ)
    (hα0 : 0 < α) (hα1 : α < 1) :
    passProb N n t α ≤ levelBound n α ∧
    passProb N n t α < α + (2 - 2 * α) / ((n : ℚ) + 1) ∧
    (SC α n → passProb N n t α ≤ α + 1 / (n : ℚ)) :=
  ⟨shuffle_level_prob N n hn t α hα0 hα1,
   lt_of_le_of_lt (shuffle_level_prob N n hn t α hα0 hα1) (level_lt n α),
   level_le_alpha_plus_inv_n N n hn t α hα0 hα1⟩

/-! ## Formal witness: the literal bound `α + 1/n` fails for an adversarial statistic

`(α, n) = (1/20, 2)`, `N = 3` rows (6 arrangements): a statistic that is injective with rapidly
shrinking gaps (`-100^5 < -100^4 < … < -1`) makes the model's test pass exactly when the observed
value exceeds the *smaller* null value, which happens on 125 of the 216 sample points:
`P(pass) = 125/216 ≈ 0.579 > 0.55 = α + 1/n` (and `≤ 2/3`, the bound of `shuffle_level`). -/

section Witness

theorem sortRat_pair (a b : ℚ) : sortRat [a, b] = [min a b, max a b] := by
  have hsorted : ([min a b, max a b] : List ℚ).Pairwise (· ≤ ·) := by
    simp only [List.pairwise_cons, List.mem_cons, List.not_mem_nil, or_false, forall_eq,
      IsEmpty.forall_iff, implies_true, List.Pairwise.nil, and_true]
    exact min_le_max
  have hperm : ([a, b] : List ℚ).Perm [min a b, max a b] := by
    rcases le_total a b with h | h
    · rw [min_eq_left h, max_eq_right h]
    · rw [min_eq_right h, max_eq_left h]; exact List.Perm.swap b a []
  exact List.Perm.eq_of_pairwise (le := (· ≤ ·)) (fun x y _ _ h1 h2 => le_antisymm h1 h2)
    (sortRat_pairwise _) hsorted ((sortRat_perm _).trans hperm)

theorem percentile_pair (a b : ℚ) :
    percentile [a, b] (1 / 20) = min a b + 19 / 20 * (max a b - min a b) := by
  have hlo : loIdx 2 (1 / 20) = 0 :=
    loIdx_eq 2 (1 / 20) 0 (by unfold hIdx; norm_num) (by unfold hIdx; norm_num)
  rw [percentile_eq, sortRat_pair]
  simp only [List.length_cons, List.length_nil]
  unfold hiIdx
  rw [hlo]
  unfold hIdx
  norm_num

/-- the adversarial values, as integers -/
def v6 : Fin 6 → ℤ := ![-10000000000, -100000000, -1000000, -10000, -100, -1]

theorem v6_pass_iff : ∀ a b c : Fin 6,
    (20 * min (v6 b) (v6 c) + 19 * (max (v6 b) (v6 c) - min (v6 b) (v6 c)) < 20 * v6 a)
      ↔ (b < a ∨ c < a) := by
  decide

theorem int_form (x y o : ℤ) :
    (min (x : ℚ) y + 19 / 20 * (max (x : ℚ) y - min (x : ℚ) y) < o)
      ↔ (20 * min x y + 19 * (max x y - min x y) < 20 * o) := by
  rw [← Int.cast_min, ← Int.cast_max]
  generalize min x y = m
  generalize max x y = M
  constructor
  · intro h
    have : ((20 * m + 19 * (M - m) : ℤ) : ℚ) < ((20 * o : ℤ) : ℚ) := by
      push_cast; linarith
    exact_mod_cast this
  · intro h
    have : ((20 * m + 19 * (M - m) : ℤ) : ℚ) < ((20 * o : ℤ) : ℚ) := by
      exact_mod_cast h
    push_cast at this; linarith

set_option maxRecDepth 4000 in
theorem count_fin6 :
    (univ.filter (fun z : Fin 3 → Fin 6 => z 1 < z 0 ∨ z 2 < z 0)).card = 125 := by
  decide

/-- **The literal bound of the property fails in the model.** There is a statistic on the 6
arrangements of 3 rows for which the model's test with `α = 1/20`, `n_shuffles = 2` passes under the
null hypothesis with probability `125/216 > α + 1/n = 0.55`. Hence `P(pass) ≤ α + 1/n_shuffles` is not
a theorem for all `(α, n)` and every statistic; `c04_level_partial` states what is. -/
theorem literal_bound_fails :
    ∃ t : Equiv.Perm (Fin 3) → ℚ,
      passProb 3 2 t (1 / 20) = 125 / 216 ∧ (1 / 20 : ℚ) + 1 / ((2 : ℕ) : ℚ) < passProb 3 2 t (1 / 20) := by
  let e : Equiv.Perm (Fin 3) ≃ Fin 6 :=
    Fintype.equivFinOfCardEq (by rw [Fintype.card_perm, Fintype.card_fin]; rfl)
  let t : Equiv.Perm (Fin 3) → ℚ := fun σ => ((v6 (e σ) : ℤ) : ℚ)
  have hv : ∀ y : Fin 3 → Equiv.Perm (Fin 3),
      verdict t (1 / 20) y = true ↔ (e (y 0 * y 1) < e (y 0) ∨ e (y 0 * y 2) < e (y 0)) := by
    intro y
    have hnull : nullOf t y = [t (y 0 * y 1), t (y 0 * y 2)] := by
      unfold nullOf
      simp [List.ofFn_succ]
    unfold verdict
    rw [pass_def, hnull, percentile_pair]
    show (min ((v6 (e (y 0 * y 1)) : ℤ) : ℚ) ((v6 (e (y 0 * y 2)) : ℤ) : ℚ) + _ < ((v6 (e (y 0)) : ℤ) : ℚ)) ↔ _
    rw [int_form, v6_pass_iff]
  have hcount : (univ.filter (fun y : Fin 3 → Equiv.Perm (Fin 3) => verdict t (1 / 20) y = true)).card
      = 125 := by
    rw [← count_fin6]
    apply Finset.card_equiv ((shear 2).trans (Equiv.arrowCongr (Equiv.refl (Fin 3)) e))
    intro y
    simp only [mem_filter, mem_univ, true_and, hv]
    simp [shear, Equiv.arrowCongr]
  refine ⟨t, ?_, ?_⟩ <;>
  · unfold passProb
    rw [hcount]
    norm_num [Nat.factorial]

end Witness

end CE.Disc
