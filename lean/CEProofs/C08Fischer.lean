import CEProofs.C08
import CEProofs.C08FischerLemmas

/-! # C08 — Fischer's inequality and non-negativity of the Gaussian estimator in all dimensions

`CEProofs/C08.lean` proves `1 ≤ ratio W 1 1 kz` (scalar `X`, `Y`) by Cauchy–Schwarz
(`nonneg_partial`).  Here the general case `k_x, k_y, k_z` arbitrary is proved.  Mathlib has no
Fischer inequality and no monotonicity of `det` on the Loewner order, so both are proved first
(`CE.Fischer`), over `ℝ`, from the spectral theorem:

* `det (1 + Q) ≥ 1` for `Q` PSD (eigenvalues `1 + λᵢ ≥ 1`);
* `det S ≤ det (S + P)` for `S`, `P` PSD (`S = LᵀL`, `S + P = Lᵀ (1 + L⁻ᵀ P L⁻¹) L`);
* **Fischer**: `det [[A, B], [Bᵀ, D]] ≤ det A · det D` for a PSD block matrix (Schur complement
  `D − BᵀA⁻¹B ≤ D`; when `A` is singular so is the block matrix).

Model side (`CE.Gauss`): the rational sample covariance matrix of any column selection, cast to
`ℝ`, is PSD (`(N−1)⁻¹ GᵀG`), hence so is every partial covariance `S(A|Z)` (a Schur complement).
Fischer applied to `S(X,Y|Z)` with diagonal blocks `S(X|Z)`, `S(Y|Z)` and the closed form
`ratio = det S(X|Z) · det S(Y|Z) / det S(X,Y|Z)` (`schur`) give `1 ≤ ratio`. -/

namespace CE.Fischer
open Matrix

variable {m n : Type*} [Fintype m] [Fintype n] [DecidableEq m] [DecidableEq n]

/-- **Fischer's inequality** for real positive semidefinite block matrices
`M = [[A, B], [C, D]]` (necessarily `C = Bᵀ`): `det M ≤ det A · det D`.  No definiteness or
non-singularity assumption on the blocks (`fischer_inequality_of_posDef` is the case `A` positive
definite; a PSD block matrix with singular `A` is singular). -/
theorem fischer_inequality {A : Matrix m m ℝ} {B : Matrix m n ℝ} {C : Matrix n m ℝ}
    {D : Matrix n n ℝ} (hM : (fromBlocks A B C D).PosSemidef) :
    (fromBlocks A B C D).det ≤ A.det * D.det := by
  have hC : C = Bᴴ := by
    have := hM.1
    rw [IsHermitian, fromBlocks_conjTranspose] at this
    exact (fromBlocks_inj.mp this).2.2.1.symm
  have hA : A.PosSemidef := by
    have := hM.submatrix (Sum.inl : m → m ⊕ n)
    rwa [show (fromBlocks A B C D).submatrix Sum.inl Sum.inl = A from rfl] at this
  by_cases h0 : A.det = 0
  · rw [det_fromBlocks_eq_zero_of_det_eq_zero hM h0, h0, zero_mul]
  · subst hC
    exact fischer_inequality_of_posDef B D (hA.posDef_iff_det_ne_zero.mpr h0) hM

/-- Fischer's inequality for an arbitrary positive semidefinite matrix indexed by a sum type:
`det M ≤ det M₁₁ · det M₂₂` -/
theorem fischer_inequality_toBlocks {M : Matrix (m ⊕ n) (m ⊕ n) ℝ} (hM : M.PosSemidef) :
    M.det ≤ M.toBlocks₁₁.det * M.toBlocks₂₂.det := by
  rw [← fromBlocks_toBlocks M] at hM
  have := fischer_inequality hM
  rwa [fromBlocks_toBlocks] at this

/-- non-vacuity: every Gram matrix `GᵀG` (columns of `G` split in two groups) satisfies the
hypothesis, so `det (GᵀG) ≤ det (GᵀG)₁₁ · det (GᵀG)₂₂` for every real matrix `G` -/
theorem gram_det_le {k : Type*} [Fintype k] (G : Matrix k (m ⊕ n) ℝ) :
    (Gᴴ * G).det ≤ (Gᴴ * G).toBlocks₁₁.det * (Gᴴ * G).toBlocks₂₂.det :=
  fischer_inequality_toBlocks (posSemidef_conjTranspose_mul_self G)

end CE.Fischer

namespace CE.Gauss
open Matrix CE.Fischer

/-! ## positive semidefiniteness of the model's (partial) covariance matrices -/

/-- the sample covariance matrix of any list of columns of any sample, as a real matrix, is
positive semidefinite -/
theorem covM_posSemidef (W : Sample) (cols : List ℕ) : (toR (covM W cols)).PosSemidef :=
  covE_posSemidef W (colAt cols)

/-- the partial covariance matrix `S(A|Z)` (least-squares residual covariance, `resid_cov`) is
positive semidefinite whenever `Σ_Z` is non-singular -/
theorem pcovM_posSemidef (W : Sample) (Z A : List ℕ) (hZ : (covM W Z).det ≠ 0) :
    (toR (pcovM W Z A)).PosSemidef :=
  pcovE_posSemidef W Z (colAt A) hZ

/-! ## Fischer's inequality for partial covariances; Koteljanskii's inequality -/

/-- **Fischer for residual covariances**: `det S(X,Y|Z) ≤ det S(X|Z) · det S(Y|Z)` -/
theorem det_pcovM_fischer (W : Sample) (X Y Z : List ℕ) (hZ : (covM W Z).det ≠ 0) :
    (pcovM W Z (X ++ Y)).det ≤ (pcovM W Z X).det * (pcovM W Z Y).det := by
  have h := pcovE_posSemidef W Z (Sum.elim (colAt X) (colAt Y)) hZ
  rw [pcovE_sum, toR_fromBlocks] at h
  have hF := fischer_inequality h
  rw [← toR_fromBlocks, ← pcovE_sum, ← toR_det, ← toR_det, ← toR_det, ← det_pcovM_append] at hF
  rw [pcovM_eq_pcovE W Z X, pcovM_eq_pcovE W Z Y]
  exact_mod_cast hF

/-- **Koteljanskii's inequality** (strong subadditivity of `log det`) for sample covariance
matrices, unconditionally: `det Σ_Z · det Σ_XYZ ≤ det Σ_XZ · det Σ_YZ`. -/
theorem covM_koteljanskii (W : Sample) (X Y Z : List ℕ) :
    (covM W Z).det * (covM W (X ++ Y ++ Z)).det
      ≤ (covM W (X ++ Z)).det * (covM W (Y ++ Z)).det := by
  by_cases hZ : (covM W Z).det = 0
  · rw [hZ, zero_mul]
    exact mul_nonneg (det_covM_nonneg W _) (det_covM_nonneg W _)
  · rw [det_covM_schur W X Z hZ, det_covM_schur W Y Z hZ, det_covM_schur W (X ++ Y) Z hZ]
    have h1 := det_pcovM_fischer W X Y Z hZ
    have h2 := det_covM_nonneg W Z
    nlinarith [mul_nonneg h2 h2]

/-! ## Non-negativity of the estimator -/

/-- `nonneg` on arbitrary column lists; only the two denominators of `ratioL` have to be nonzero -/
theorem ratioL_ge_one (W : Sample) (X Y Z : List ℕ) (hZ : corrDet W Z ≠ 0)
    (hXYZ : corrDet W (X ++ Y ++ Z) ≠ 0) : 1 ≤ ratioL W X Y Z := by
  obtain ⟨hZd, -⟩ := (corrDet_ne_zero_iff W _).mp hZ
  obtain ⟨hXYZd, hvar⟩ := (corrDet_ne_zero_iff W _).mp hXYZ
  rw [ratioL_schur W X Y Z hvar hZd]
  rw [det_covM_schur W (X ++ Y) Z hZd] at hXYZd
  have hpos : 0 < (pcovM W Z (X ++ Y)).det :=
    lt_of_le_of_ne (det_pcovM_nonneg W Z _ hZd) (Ne.symm (right_ne_zero_of_mul hXYZd))
  rw [one_le_div hpos]
  exact det_pcovM_fischer W X Y Z hZd

/-- **`nonneg_of_denominators`.** `1 ≤ ratio` (the estimate `½ log ratio` is `≥ 0`) for all block
sizes `kx, ky, kz ≥ 0` and every sample, as soon as the two correlation determinants in the
denominator (`det corr Z`, `det corr (X,Y,Z)`) are nonzero. -/
theorem nonneg_of_denominators (W : Sample) (kx ky kz : ℕ)
    (hZ : corrDet W (span (kx + ky) kz) ≠ 0)
    (hXYZ : corrDet W (span 0 kx ++ span kx ky ++ span (kx + ky) kz) ≠ 0) :
    1 ≤ ratio W kx ky kz := by
  rw [ratio_eq_ratioL]
  exact ratioL_ge_one W _ _ _ hZ hXYZ

/-- **`nonneg`.** Non-negativity of the Gaussian (conditional) mutual information in full
generality: for every sample `W` and all block sizes `kx`, `ky`, `kz` (vector-valued `X`, `Y`,
any conditioning block, `kz = 0` for `Z` absent), whenever the four correlation determinants used
by the code are nonzero (no singular sentinel), `1 ≤ ratio W kx ky kz`, i.e.
`½ · log ratio ≥ 0`.  Proof: `schur` + Fischer's inequality on the positive semidefinite residual
covariance `S(X,Y|Z)`.  This removes the restriction `kx = ky = 1` of `nonneg_partial`. -/
theorem nonneg (W : Sample) (kx ky kz : ℕ) (h : ∀ d ∈ dets W kx ky kz, d ≠ 0) :
    1 ≤ ratio W kx ky kz := by
  have hd : dets W kx ky kz = [corrDet W (span 0 kx ++ span (kx + ky) kz),
      corrDet W (span kx ky ++ span (kx + ky) kz), corrDet W (span (kx + ky) kz),
      corrDet W (span 0 kx ++ span kx ky ++ span (kx + ky) kz)] := rfl
  rw [hd] at h
  exact nonneg_of_denominators W kx ky kz (h _ (by simp)) (h _ (by simp))

/-! ## Non-vacuity: vector-valued `X`, `Y` -/

/-- a 6 × 4 sample: `X` = columns 0, 1 (`kx = 2`), `Y` = column 2, `Z` = column 3 -/
def W2 : Sample := [[1, 2, 0, 1], [2, 1, 1, 0], [3, 5, 1, 2], [4, 3, 3, 1], [5, 4, 2, 4], [0, 1, 2, 2]]

/-- a 7 × 5 sample: `kx = 2`, `ky = 2`, `kz = 1` (or `kx = 2`, `ky = 3`, `kz = 0`) -/
def W3 : Sample := [[1, 2, 0, 1, 3], [2, 1, 1, 0, 1], [3, 5, 1, 2, 0], [4, 3, 3, 1, 2],
  [5, 4, 2, 4, 1], [0, 1, 2, 2, 5], [2, 0, 4, 3, 2]]

/-- the guard of `nonneg` holds (kernel evaluation of the model over ℚ) -/
example : dets W2 2 1 1 = [2529 / 7840, 71 / 77, 1, 1137 / 5390] := by decide +kernel
example : ∀ d ∈ dets W2 2 1 1, d ≠ 0 := by decide +kernel
example : ∀ d ∈ dets W3 2 2 1, d ≠ 0 := by decide +kernel
example : ∀ d ∈ dets W3 2 3 0, d ≠ 0 := by decide +kernel

example : 1 ≤ ratio W2 2 1 1 := nonneg W2 2 1 1 (by decide +kernel)
example : 1 ≤ ratio W3 2 2 1 := nonneg W3 2 2 1 (by decide +kernel)
example : 1 ≤ ratio W3 2 3 0 := nonneg W3 2 3 0 (by decide +kernel)

/-- the values the theorem speaks about -/
example : (ratio W2 2 1 1, ratio W3 2 2 1, ratio W3 2 3 0)
    = (59853 / 42448, 337601 / 125195, 711909 / 125195) := by decide +kernel

/-- `det_pcovM_fischer`, `covM_koteljanskii`: the guard `det Σ_Z ≠ 0` holds on `W3` -/
example : (covM W3 (span (2 + 2) 1)).det ≠ 0 := by rw [det_covM_eq_detF]; decide +kernel

/-- `nonneg` contains `nonneg_partial` -/
example (W : Sample) (kz : ℕ) (h : ∀ d ∈ dets W 1 1 kz, d ≠ 0) : 1 ≤ ratio W 1 1 kz :=
  nonneg W 1 1 kz h

end CE.Gauss
