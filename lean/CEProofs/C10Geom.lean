import CEProofs.C12

/-! # C10 (geometric k-NN part): X/Y roles, conditioning-column order, sample order

Model: `CE.Geom.geomMI`, `CE.Geom.geomCMI` (`CEModel/Geometric.lean`), the mirror of
`geometric_knn_mutual_information` (before its final clamp `max(0, ·)`, see `clampMI`) and
`geometric_knn_conditional_mutual_information`. `α` is any linear ordered field; `log`, `sqrt`,
the SVD-based local correction `corr`, the guards and the constants are the uninterpreted
parameters of the model (`Env`, `logN`, `c : Consts α`), the same for both sides of every equation
(they depend only on `N`, `k` and the block dimensions).

The route is `geom_rotate` of `CEProofs/C12.lean`: a rearrangement of the coordinates of every row
(the same arrangement `idx` of `0..d−1` for all rows, `S[:, idx]` in numpy) is one of the maps
covered by `IsRot` (`isRot_colperm`), the joint samples `(y ++ x)` / `(x ++ y)`,
`(y ++ x ++ z)` / `(x ++ y ++ z)` and `(w ++ z[idx])` / `(w ++ z)` are such rearrangements of
each other, and the joint dimensions `dx + dy = dy + dx` select the same constants.

Property theorems
* `isRot_colperm` — a coordinate rearrangement satisfies `IsRot` (respects differences and column
  means, preserves sums of squares). Unconditional.
* `H_colperm_partial` — the block entropy is unchanged by rearranging the columns of the block.
* `geomMI_swap_xy_partial`, `geomCMI_swap_xy_partial` — exchanging `X` and `Y`.
* `geomCMI_z_col_perm_partial` — rearranging the columns of `Z`.
* `geomMI_row_perm`, `geomCMI_row_perm` — jointly reordering the rows of `X`, `Y` (and `Z`);
  **unconditional** in `log`, `sqrt`, `corr` (from `geom_row_perm`), for tie-free blocks and
  `1 ≤ k < N`.

The `_partial` theorems have the hypothesis `CorrColPermInv E`: the local correction
`corr Y_i Z_i` of a local configuration (centred neighbourhood `Y_i`, neighbour offsets `Z_i`) does
not change when the coordinates of the configuration are rearranged. MISSING: that the real
SVD-based correction has this property. It is a special case of the invariance of the correction
under orthogonal maps of the configuration (`hcorr_rot` of `geom_rotate`, see
`corrColPermInv_of_rot`): a column rearrangement multiplies `Y_i`, `Z_i` by a permutation matrix
on the right, which leaves the singular values and the ellipsoid membership test unchanged and only
rearranges the right singular vectors. That hypothesis is DISCHARGED for the mathematical
SVD-based correction `corrMath` in `CEProofs/C10GeomSvd.lean` (`corrColPermInv_envSvd` and the
`…_real` versions of the theorems below); what remains outside Lean is that LAPACK's
floating-point SVD is the mathematical one (tied numerically, cf. `CEProofs/C12Spectral.lean`).
Everything else is proved: the distance keys, the neighbour lists, every `ρ_i`, and the fact that
the local configurations of the rearranged sample are exactly the rearranged configurations.
No tie-freeness, guard or `k` hypothesis is needed for these three (the keys are *equal*, so even
the tie-breaking of the model's stable argsort agrees), and neither is `|X| = |Y| = |Z|` (`hcat`
truncates like `zip`; the Python raises on unequal lengths). -/

set_option linter.unusedSectionVars false

namespace CE.Geom
open CE.Kde

section field
variable {α : Type} [Field α] [LinearOrder α] [IsStrictOrderedRing α]

/-! ### coordinate rearrangements -/

/-- `r[idx]`: the row with its coordinates taken in the order `idx` (the form used in
`CE.Kde.cmi_z_col_perm`) -/
def colPerm (idx : List ℕ) (r : List α) : List α := idx.map (r.getD · 0)

theorem colPerm_length (idx : List ℕ) (r : List α) : (colPerm idx r).length = idx.length := by
  simp [colPerm]

theorem colPerm_append (p q : List ℕ) (r : List α) :
    colPerm (p ++ q) r = colPerm p r ++ colPerm q r := by
  simp [colPerm]

/-- indices shifted past a prefix read the rest of the row -/
theorem colPerm_shift (q : List ℕ) (pre r : List α) :
    colPerm (q.map (pre.length + ·)) (pre ++ r) = colPerm q r := by
  unfold colPerm
  rw [List.map_map]
  apply List.map_congr_left
  intro i _
  simp only [Function.comp, List.getD_eq_getElem?_getD]
  rw [List.getElem?_append_right (by omega)]
  congr 2
  omega

/-- indices inside a prefix read the prefix -/
theorem colPerm_prefix (q : List ℕ) (r post : List α) (hq : ∀ i ∈ q, i < r.length) :
    colPerm q (r ++ post) = colPerm q r := by
  unfold colPerm
  apply List.map_congr_left
  intro i hi
  simp only [List.getD_eq_getElem?_getD]
  rw [List.getElem?_append_left (hq i hi)]

theorem colPerm_range_self (r : List α) : colPerm (List.range r.length) r = r := by
  unfold colPerm
  apply List.ext_getElem
  · simp
  · intro i h1 h2
    simp [h2]

/-- **isRot_colperm.** Rearranging the coordinates of rows of width `d` by an arrangement `idx` of
`0..d−1` is one of the maps covered by `geom_rotate`: it commutes with differences and with column
means and preserves sums of squares. -/
theorem isRot_colperm (E : Env α) (d : ℕ) (idx : List ℕ) (hidx : idx.Perm (List.range d)) :
    IsRot E d (colPerm idx) where
  sub := by
    intro x y hx hy
    unfold vsub colPerm
    simp only [List.zipWith_map, List.zipWith_self]
    apply List.map_congr_left
    intro i hi
    have hi' : i < d := List.mem_range.mp (hidx.subset hi)
    have hix : i < x.length := by omega
    have hiy : i < y.length := by omega
    rw [List.getD_eq_getElem _ _ hix, List.getD_eq_getElem _ _ hiy,
      List.getD_eq_getElem _ _ (by simp only [List.length_zipWith]; omega), List.getElem_zipWith]
  norm := by
    intro v hv
    unfold sqnorm colPerm
    rw [List.map_map]
    have e : v.map (fun x => x * x) = (List.range d).map ((fun x => x * x) ∘ (v.getD · 0)) := by
      apply List.ext_getElem
      · simp [hv]
      · intro i h1 h2
        have : i < v.length := by simpa using h1
        simp [this]
    rw [e]
    exact sumL_perm (hidx.map _)
  mean := by
    intro P hP hw
    have hlen : idx.length = d := by simpa using hidx.length_eq
    obtain ⟨a, P', rfl⟩ := List.exists_cons_of_ne_nil hP
    have hdim : dim (a :: P') = d := by simpa [dim] using hw a (by simp)
    have hdim' : dim ((a :: P').map (colPerm idx)) = d := by simp [dim, colPerm, hlen]
    unfold colMean
    rw [hdim, hdim']
    unfold colPerm
    apply List.ext_getElem
    · simp [hlen]
    · intro n h1 h2
      have hn : n < d := by simpa using h1
      have hn' : n < idx.length := by omega
      have hin : idx[n] < d := List.mem_range.mp (hidx.subset (List.getElem_mem hn'))
      simp only [List.getElem_map, List.getElem_range, List.length_map, List.map_map]
      rw [List.getD_eq_getElem _ _ (by simpa using hin)]
      simp only [List.getElem_map, List.getElem_range]
      congr 2
      apply List.map_congr_left
      intro r _
      simp [Function.comp, hn']

/-! ### the hypothesis on the local correction -/

/-- the local correction does not depend on the order of the coordinates of the local
configuration (a special case of its invariance under orthogonal maps) -/
def CorrColPermInv (E : Env α) : Prop :=
  ∀ (d : ℕ) (idx : List ℕ), idx.Perm (List.range d) →
    ∀ Y Z : List (List α), (∀ r ∈ Y, r.length = d) → (∀ r ∈ Z, r.length = d) →
      E.corr (Y.map (colPerm idx)) (Z.map (colPerm idx)) = E.corr Y Z

/-- … it follows from `hcorr_rot` of `geom_rotate` (invariance under every map satisfying `IsRot`) -/
theorem corrColPermInv_of_rot (E : Env α)
    (hcorr_rot : ∀ (d : ℕ) (R : List α → List α), IsRot E d R →
      ∀ Y Z : List (List α), (∀ r ∈ Y, r.length = d) → (∀ r ∈ Z, r.length = d) →
        E.corr (Y.map R) (Z.map R) = E.corr Y Z) : CorrColPermInv E :=
  fun d idx hidx => hcorr_rot d (colPerm idx) (isRot_colperm E d idx hidx)

/-! ### the block entropy under a column rearrangement -/

theorem dim_map_colPerm (S : List (List α)) (d : ℕ) (hS : ∀ r ∈ S, r.length = d) (idx : List ℕ)
    (hlen : idx.length = d) : dim (S.map (colPerm idx)) = dim S := by
  cases S with
  | nil => rfl
  | cons a S => simp [dim, colPerm, hlen, hS a (by simp)]

/-- **H_colperm_partial.** The entropy of a block `S` of width `d` (with the constants of its own
dimension) is unchanged when the columns of `S` are rearranged, **given** `CorrColPermInv`. -/
theorem H_colperm_partial (E : Env α) (hcorr : CorrColPermInv E) (logN : α) (c : Consts α)
    (S : List (List α)) (k d : ℕ) (hS : ∀ r ∈ S, r.length = d) (idx : List ℕ)
    (hidx : idx.Perm (List.range d)) :
    H E logN c (S.map (colPerm idx)) k = H E logN c S k := by
  unfold H
  rw [dim_map_colPerm S d hS idx (by simpa using hidx.length_eq)]
  exact geom_rotate E d (colPerm idx) (isRot_colperm E d idx hidx) (hcorr d idx hidx) logN _ _ S k hS

/-! ### the three arrangements -/

/-- `(x ++ y) ↦ (y ++ x)` -/
def swapIdx (dx dy : ℕ) : List ℕ := (List.range dy).map (dx + ·) ++ List.range dx

/-- `(x ++ y ++ z) ↦ (y ++ x ++ z)` -/
def swap3Idx (dx dy dz : ℕ) : List ℕ := swapIdx dx dy ++ (List.range dz).map ((dx + dy) + ·)

/-- `(w ++ z) ↦ (w ++ z[idx])` -/
def tailIdx (dw : ℕ) (idx : List ℕ) : List ℕ := List.range dw ++ idx.map (dw + ·)

theorem swapIdx_perm (dx dy : ℕ) : (swapIdx dx dy).Perm (List.range (dx + dy)) := by
  unfold swapIdx
  rw [List.range_add]
  exact List.perm_append_comm

theorem swap3Idx_perm (dx dy dz : ℕ) : (swap3Idx dx dy dz).Perm (List.range (dx + dy + dz)) := by
  unfold swap3Idx
  rw [List.range_add (n := dx + dy) (m := dz)]
  exact (swapIdx_perm dx dy).append_right _

theorem tailIdx_perm (dw dz : ℕ) (idx : List ℕ) (hidx : idx.Perm (List.range dz)) :
    (tailIdx dw idx).Perm (List.range (dw + dz)) := by
  unfold tailIdx
  rw [List.range_add]
  exact (hidx.map _).append_left _

theorem colPerm_swapIdx (x y : List α) : colPerm (swapIdx x.length y.length) (x ++ y) = y ++ x := by
  unfold swapIdx
  rw [colPerm_append, colPerm_shift, colPerm_range_self,
    colPerm_prefix _ _ _ (fun i hi => List.mem_range.mp hi), colPerm_range_self]

theorem colPerm_swap3Idx (x y z : List α) :
    colPerm (swap3Idx x.length y.length z.length) (x ++ y ++ z) = y ++ x ++ z := by
  have hxy : x.length + y.length = (x ++ y).length := by simp
  unfold swap3Idx
  rw [colPerm_append, hxy, colPerm_shift, colPerm_range_self,
    colPerm_prefix _ (x ++ y) z (fun i hi => by
      have := List.mem_range.mp ((swapIdx_perm x.length y.length).subset hi)
      simpa using this),
    colPerm_swapIdx]

theorem colPerm_tailIdx (w z : List α) (idx : List ℕ) :
    colPerm (tailIdx w.length idx) (w ++ z) = w ++ colPerm idx z := by
  unfold tailIdx
  rw [colPerm_append, colPerm_shift, colPerm_prefix _ _ _ (fun i hi => List.mem_range.mp hi),
    colPerm_range_self]

theorem hcat_width (X Y : List (List α)) (dx dy : ℕ) (hX : ∀ x ∈ X, x.length = dx)
    (hY : ∀ y ∈ Y, y.length = dy) : ∀ r ∈ hcat X Y, r.length = dx + dy := by
  intro r hr
  rw [hcat_eq_map_zip] at hr
  obtain ⟨⟨x, y⟩, hm, rfl⟩ := List.mem_map.mp hr
  have := List.of_mem_zip hm
  simp [hX x this.1, hY y this.2]

/-- `hstack(Y, X) = hstack(X, Y)[:, swapIdx]` -/
theorem hcat_swap (X Y : List (List α)) (dx dy : ℕ) (hX : ∀ x ∈ X, x.length = dx)
    (hY : ∀ y ∈ Y, y.length = dy) : hcat Y X = (hcat X Y).map (colPerm (swapIdx dx dy)) := by
  rw [hcat_swap_eq_map_zip, hcat_eq_map_zip, List.map_map]
  apply List.map_congr_left
  intro p hp
  have := List.of_mem_zip hp
  simp only [Function.comp]
  rw [← hX _ this.1, ← hY _ this.2, colPerm_swapIdx]

/-- `hstack(Y, X, Z) = hstack(X, Y, Z)[:, swap3Idx]` -/
theorem hcat3_swap (X Y Z : List (List α)) (dx dy dz : ℕ) (hX : ∀ x ∈ X, x.length = dx)
    (hY : ∀ y ∈ Y, y.length = dy) (hZ : ∀ z ∈ Z, z.length = dz) :
    hcat (hcat Y X) Z = (hcat (hcat X Y) Z).map (colPerm (swap3Idx dx dy dz)) := by
  rw [hcat3_swap_eq, hcat3_eq, List.map_map]
  apply List.map_congr_left
  intro t ht
  have := mem_zip3 ht
  simp only [Function.comp]
  rw [← hX _ this.1, ← hY _ this.2.1, ← hZ _ this.2.2, colPerm_swap3Idx]

/-- `hstack(W, Z[:, idx]) = hstack(W, Z)[:, tailIdx]` -/
theorem hcat_tail (W Z : List (List α)) (dw : ℕ) (hW : ∀ w ∈ W, w.length = dw) (idx : List ℕ) :
    hcat W (Z.map (colPerm idx)) = (hcat W Z).map (colPerm (tailIdx dw idx)) := by
  rw [hcat_eq_map_zip, hcat_eq_map_zip, List.zip_map_right, List.map_map, List.map_map]
  apply List.map_congr_left
  intro p hp
  have := List.of_mem_zip hp
  simp only [Function.comp, Prod.map_fst, Prod.map_snd, id]
  rw [← hW _ this.1, colPerm_tailIdx]

/-! ## C10: exchanging X and Y -/

/-- **geomMI_swap_xy_partial.** `geomMI … Y X = geomMI … X Y` for sample matrices of constant row
widths `dx`, `dy`, **given** `CorrColPermInv E` (see the header for what is missing): `HX + HY`
commutes, the joint sample `(y ++ x)` is a coordinate rearrangement of `(x ++ y)` and
`dim = dy + dx = dx + dy` selects the same constants. -/
theorem geomMI_swap_xy_partial (E : Env α) (hcorr : CorrColPermInv E) (logN : α) (c : Consts α)
    (X Y : List (List α)) (k dx dy : ℕ) (hX : ∀ x ∈ X, x.length = dx)
    (hY : ∀ y ∈ Y, y.length = dy) :
    geomMI E logN c Y X k = geomMI E logN c X Y k := by
  unfold geomMI
  rw [hcat_swap X Y dx dy hX hY,
    H_colperm_partial E hcorr logN c _ k (dx + dy) (hcat_width X Y dx dy hX hY) _
      (swapIdx_perm dx dy)]
  ring

/-- … hence also after the final clamp `max(0, ·)` of `geometric_knn_mutual_information` -/
theorem clamp_geomMI_swap_xy_partial (E : Env α) (hcorr : CorrColPermInv E) (logN : α)
    (c : Consts α) (X Y : List (List α)) (k dx dy : ℕ) (hX : ∀ x ∈ X, x.length = dx)
    (hY : ∀ y ∈ Y, y.length = dy) :
    clampMI (geomMI E logN c Y X k) = clampMI (geomMI E logN c X Y k) := by
  rw [geomMI_swap_xy_partial E hcorr logN c X Y k dx dy hX hY]

/-- **geomCMI_swap_xy_partial.** `geomCMI … Y X Z = geomCMI … X Y Z`, **given**
`CorrColPermInv E`: `HXZ + HYZ` commutes, `HZ` is literally the same, and the joint sample
`(y ++ x ++ z)` is a coordinate rearrangement of `(x ++ y ++ z)`. -/
theorem geomCMI_swap_xy_partial (E : Env α) (hcorr : CorrColPermInv E) (logN : α) (c : Consts α)
    (X Y Z : List (List α)) (k dx dy dz : ℕ) (hX : ∀ x ∈ X, x.length = dx)
    (hY : ∀ y ∈ Y, y.length = dy) (hZ : ∀ z ∈ Z, z.length = dz) :
    geomCMI E logN c Y X Z k = geomCMI E logN c X Y Z k := by
  unfold geomCMI
  rw [hcat3_swap X Y Z dx dy dz hX hY hZ,
    H_colperm_partial E hcorr logN c _ k (dx + dy + dz)
      (hcat_width _ Z (dx + dy) dz (hcat_width X Y dx dy hX hY) hZ) _ (swap3Idx_perm dx dy dz)]
  ring

/-! ## C10: reordering the columns of Z -/

/-- **geomCMI_z_col_perm_partial.** Rearranging the columns of the conditioning matrix `Z` (every
row by the same arrangement `idx` of `0..dz−1`, `Z[:, idx]` in numpy) leaves `geomCMI` unchanged,
**given** `CorrColPermInv E`: each of the four blocks `(X,Z)`, `(Y,Z)`, `(X,Y,Z)`, `Z` is
replaced by a coordinate rearrangement of itself. -/
theorem geomCMI_z_col_perm_partial (E : Env α) (hcorr : CorrColPermInv E) (logN : α)
    (c : Consts α) (X Y Z : List (List α)) (k dx dy dz : ℕ) (hX : ∀ x ∈ X, x.length = dx)
    (hY : ∀ y ∈ Y, y.length = dy) (hZ : ∀ z ∈ Z, z.length = dz) (idx : List ℕ)
    (hidx : idx.Perm (List.range dz)) :
    geomCMI E logN c X Y (Z.map (colPerm idx)) k = geomCMI E logN c X Y Z k := by
  have blk : ∀ (W : List (List α)) (dw : ℕ), (∀ w ∈ W, w.length = dw) →
      H E logN c (hcat W (Z.map (colPerm idx))) k = H E logN c (hcat W Z) k := by
    intro W dw hW
    rw [hcat_tail W Z dw hW idx]
    exact H_colperm_partial E hcorr logN c _ k (dw + dz) (hcat_width W Z dw dz hW hZ) _
      (tailIdx_perm dw dz idx hidx)
  unfold geomCMI
  rw [blk X dx hX, blk Y dy hY, blk (hcat X Y) (dx + dy) (hcat_width X Y dx dy hX hY),
    H_colperm_partial E hcorr logN c Z k dz hZ idx hidx]

/-! ## C10: jointly reordering the rows (unconditional in `log`, `sqrt`, `corr`) -/

theorem row_hcat (X Y : List (List α)) (hlen : X.length = Y.length) (i : ℕ) (hi : i < X.length) :
    row (hcat X Y) i = row X i ++ row Y i := by
  unfold row hcat
  rw [List.getD_eq_getElem _ _ (by simp only [List.length_zipWith]; omega),
    List.getD_eq_getElem _ _ hi, List.getD_eq_getElem _ _ (by omega), List.getElem_zipWith]

theorem hcat_length (X Y : List (List α)) (hlen : X.length = Y.length) :
    (hcat X Y).length = X.length := by
  unfold hcat
  simp only [List.length_zipWith]; omega

/-- `hstack(X[idx], Y[idx]) = hstack(X, Y)[idx]` -/
theorem hcat_rowperm (X Y : List (List α)) (hlen : X.length = Y.length) (idx : List ℕ)
    (hidx : ∀ i ∈ idx, i < X.length) :
    hcat (idx.map (row X)) (idx.map (row Y)) = idx.map (row (hcat X Y)) := by
  unfold hcat
  rw [List.zipWith_map, List.zipWith_self]
  apply List.map_congr_left
  intro i hi
  exact (row_hcat X Y hlen i (hidx i hi)).symm

/-- the block entropy (constants of the block's own dimension) under a reordering of the rows -/
theorem H_row_perm (E : Env α) (logN : α) (c : Consts α) (S : List (List α)) (k d : ℕ)
    (hS : ∀ r ∈ S, r.length = d) (htf : ∀ r ∈ sqKeys S, r.Nodup) (hk : 1 ≤ k)
    (hkN : k < S.length) (idx : List ℕ) (hidx : idx.Perm (List.range S.length)) :
    H E logN c (idx.map (row S)) k = H E logN c S k := by
  have hdim : dim (idx.map (row S)) = dim S := by
    have hlen : idx.length = S.length := by simpa using hidx.length_eq
    cases idx with
    | nil => simp at hlen; omega
    | cons i idx =>
      have hi : i < S.length := List.mem_range.mp (hidx.subset (by simp))
      cases S with
      | nil => simp at hkN
      | cons a S =>
        simp only [dim, List.map_cons, List.headD_cons]
        rw [row_length hS hi, hS a (by simp)]
  unfold H
  rw [hdim]
  exact geom_row_perm E logN _ _ S k htf hk hkN idx hidx

/-- **geomMI_row_perm.** Jointly reordering the rows of `X` and `Y` by any arrangement `idx` of
`0..N−1` (`X[idx], Y[idx]` in numpy) leaves `geomMI` unchanged — with **no** hypothesis on `log`,
`sqrt`, `corr`. `X`, `Y` are `N`-row matrices of constant widths; each of the three blocks `X`,
`Y`, `(X,Y)` is tie-free (pairwise distinct keys in every row of its key matrix, so that the
argsort is determined) and `1 ≤ k < N`. -/
theorem geomMI_row_perm (E : Env α) (logN : α) (c : Consts α) (X Y : List (List α))
    (k dx dy : ℕ) (hlen : X.length = Y.length)
    (hX : ∀ x ∈ X, x.length = dx) (hY : ∀ y ∈ Y, y.length = dy)
    (htfX : ∀ r ∈ sqKeys X, r.Nodup) (htfY : ∀ r ∈ sqKeys Y, r.Nodup)
    (htfXY : ∀ r ∈ sqKeys (hcat X Y), r.Nodup) (hk : 1 ≤ k) (hkN : k < X.length)
    (idx : List ℕ) (hidx : idx.Perm (List.range X.length)) :
    geomMI E logN c (idx.map (row X)) (idx.map (row Y)) k = geomMI E logN c X Y k := by
  have hmem : ∀ i ∈ idx, i < X.length := fun i hi => List.mem_range.mp (hidx.subset hi)
  have hXY := hcat_length X Y hlen
  unfold geomMI
  rw [hcat_rowperm X Y hlen idx hmem,
    H_row_perm E logN c X k dx hX htfX hk hkN idx hidx,
    H_row_perm E logN c Y k dy hY htfY hk (hlen ▸ hkN) idx (hlen ▸ hidx),
    H_row_perm E logN c (hcat X Y) k (dx + dy) (hcat_width X Y dx dy hX hY) htfXY hk
      (hXY.symm ▸ hkN) idx (hXY.symm ▸ hidx)]

/-- **geomCMI_row_perm.** Jointly reordering the rows of `X`, `Y`, `Z` leaves `geomCMI` unchanged —
with **no** hypothesis on `log`, `sqrt`, `corr`; the four blocks `(X,Z)`, `(Y,Z)`, `(X,Y,Z)`, `Z`
are tie-free and `1 ≤ k < N`. -/
theorem geomCMI_row_perm (E : Env α) (logN : α) (c : Consts α) (X Y Z : List (List α))
    (k dx dy dz : ℕ) (hxy : X.length = Y.length) (hyz : Y.length = Z.length)
    (hX : ∀ x ∈ X, x.length = dx) (hY : ∀ y ∈ Y, y.length = dy) (hZ : ∀ z ∈ Z, z.length = dz)
    (htfXZ : ∀ r ∈ sqKeys (hcat X Z), r.Nodup) (htfYZ : ∀ r ∈ sqKeys (hcat Y Z), r.Nodup)
    (htfXYZ : ∀ r ∈ sqKeys (hcat (hcat X Y) Z), r.Nodup) (htfZ : ∀ r ∈ sqKeys Z, r.Nodup)
    (hk : 1 ≤ k) (hkN : k < X.length)
    (idx : List ℕ) (hidx : idx.Perm (List.range X.length)) :
    geomCMI E logN c (idx.map (row X)) (idx.map (row Y)) (idx.map (row Z)) k
      = geomCMI E logN c X Y Z k := by
  have hmem : ∀ i ∈ idx, i < X.length := fun i hi => List.mem_range.mp (hidx.subset hi)
  have hxz : X.length = Z.length := hxy.trans hyz
  have lXZ := hcat_length X Z hxz
  have lYZ : (hcat Y Z).length = X.length := (hcat_length Y Z hyz).trans hxy.symm
  have lXY := hcat_length X Y hxy
  have lXYZ : (hcat (hcat X Y) Z).length = X.length :=
    (hcat_length (hcat X Y) Z (lXY.trans hxz)).trans lXY
  unfold geomCMI
  rw [hcat_rowperm X Z hxz idx hmem, hcat_rowperm Y Z hyz idx (fun i hi => hxy ▸ hmem i hi),
    hcat_rowperm X Y hxy idx hmem,
    hcat_rowperm (hcat X Y) Z (lXY.trans hxz) idx (fun i hi => lXY.symm ▸ hmem i hi),
    H_row_perm E logN c (hcat X Z) k (dx + dz) (hcat_width X Z dx dz hX hZ) htfXZ hk
      (lXZ.symm ▸ hkN) idx (lXZ.symm ▸ hidx),
    H_row_perm E logN c (hcat Y Z) k (dy + dz) (hcat_width Y Z dy dz hY hZ) htfYZ hk
      (lYZ.symm ▸ hkN) idx (lYZ.symm ▸ hidx),
    H_row_perm E logN c (hcat (hcat X Y) Z) k (dx + dy + dz)
      (hcat_width _ Z (dx + dy) dz (hcat_width X Y dx dy hX hY) hZ) htfXYZ hk
      (lXYZ.symm ▸ hkN) idx (lXYZ.symm ▸ hidx),
    H_row_perm E logN c Z k dz hZ htfZ hk (hxz ▸ hkN) idx (hxz ▸ hidx)]

end field

/-! ### the hypotheses are satisfiable -/

section examples

/-- `isRot_colperm`: the arrangement 2, 0, 1 of three coordinates -/
example : IsRot envQ 3 (colPerm [2, 0, 1]) := isRot_colperm envQ 3 [2, 0, 1] (by decide)

example : colPerm [2, 0, 1] ([5, 7, 9] : List ℚ) = [9, 5, 7] := by decide

/-- the (non-constant) stand-in correction of C12, `Σ |Y_i|² + 3 Σ |Z_i|²`, does not depend on the
order of the coordinates -/
theorem envRot_corrColPermInv : CorrColPermInv envRot := by
  intro d idx hidx Y Z hY hZ
  have h : ∀ W : List (List ℚ), (∀ r ∈ W, r.length = d) →
      (W.map (colPerm idx)).map sqnorm = W.map sqnorm := by
    intro W hW
    rw [List.map_map]
    exact List.map_congr_left (fun r hr => (isRot_colperm envRot d idx hidx).norm r (hW r hr))
  simp only [envRot, h Y hY, h Z hZ]

/-- … while the stand-in of `envQ` (first coordinate of the first row of `Y_i`) does -/
example : ¬ CorrColPermInv envQ := by
  intro h
  have := h 2 [1, 0] (by decide) [[1, 2]] [] (by decide) (by decide)
  revert this
  norm_num [envQ, colPerm, sumL]

/-- a tie-free sample of 4 records: `X` of width 1, `Y` and `Z` of width 2 -/
def Xq : List (List ℚ) := [[0], [1], [3], [7]]
def Yq : List (List ℚ) := [[0, 5], [2, 7], [1, 1], [6, 2]]
def Zq : List (List ℚ) := [[2, 9], [1, 4], [1, 7], [7, 7]]
def cq : Consts ℚ := fun d => (1 / (d + 1 : ℚ), d / 4)

/-- `geomMI_swap_xy_partial`, `geomCMI_swap_xy_partial` (`k = 2`) -/
example : geomMI envRot 2 cq Yq Xq 2 = geomMI envRot 2 cq Xq Yq 2 :=
  geomMI_swap_xy_partial envRot envRot_corrColPermInv 2 cq Xq Yq 2 1 2 (by decide) (by decide)

example : geomCMI envRot 2 cq Yq Xq Zq 2 = geomCMI envRot 2 cq Xq Yq Zq 2 :=
  geomCMI_swap_xy_partial envRot envRot_corrColPermInv 2 cq Xq Yq Zq 2 1 2 2
    (by decide) (by decide) (by decide)

/-- the two joint samples really are different matrices -/
example : hcat Yq Xq = [[0, 5, 0], [2, 7, 1], [1, 1, 3], [6, 2, 7]] ∧
    hcat Xq Yq = [[0, 0, 5], [1, 2, 7], [3, 1, 1], [7, 6, 2]] ∧
    (hcat Xq Yq).map (colPerm (swapIdx 1 2)) = hcat Yq Xq := by decide

/-- `geomCMI_z_col_perm_partial`: the two columns of `Z` exchanged -/
example : geomCMI envRot 2 cq Xq Yq (Zq.map (colPerm [1, 0])) 2 = geomCMI envRot 2 cq Xq Yq Zq 2 :=
  geomCMI_z_col_perm_partial envRot envRot_corrColPermInv 2 cq Xq Yq Zq 2 1 2 2
    (by decide) (by decide) (by decide) [1, 0] (by decide)

example : Zq.map (colPerm [1, 0]) = [[9, 2], [4, 1], [7, 1], [7, 7]] := by decide

/-- the key matrices of the blocks: pairwise distinct keys in every row -/
example : sqKeys Xq = [[0, 1, 9, 49], [1, 0, 4, 36], [9, 4, 0, 16], [49, 36, 16, 0]] ∧
    sqKeys Yq = [[0, 8, 17, 45], [8, 0, 37, 41], [17, 37, 0, 26], [45, 41, 26, 0]] ∧
    sqKeys Zq = [[0, 26, 5, 29], [26, 0, 9, 45], [5, 9, 0, 36], [29, 45, 36, 0]] ∧
    sqKeys (hcat Xq Yq) = [[0, 9, 26, 94], [9, 0, 41, 77], [26, 41, 0, 42], [94, 77, 42, 0]] ∧
    sqKeys (hcat Xq Zq) = [[0, 27, 14, 78], [27, 0, 13, 81], [14, 13, 0, 52], [78, 81, 52, 0]] ∧
    sqKeys (hcat Yq Zq) = [[0, 34, 22, 74], [34, 0, 46, 86], [22, 46, 0, 62], [74, 86, 62, 0]] ∧
    sqKeys (hcat (hcat Xq Yq) Zq)
      = [[0, 35, 31, 123], [35, 0, 50, 122], [31, 50, 0, 78], [123, 122, 78, 0]] := by
  norm_num [sqKeys, sqdist, sumL, hcat, Xq, Yq, Zq]

/-- `geomMI_row_perm`, `geomCMI_row_perm`: rows taken in the order 2, 0, 3, 1; the stand-ins of
`envQ` (no invariance of `corr` is needed) -/
example : geomMI envQ 2 cq ([2, 0, 3, 1].map (row Xq)) ([2, 0, 3, 1].map (row Yq)) 2
    = geomMI envQ 2 cq Xq Yq 2 :=
  geomMI_row_perm envQ 2 cq Xq Yq 2 1 2 rfl (by decide) (by decide)
    (by norm_num [sqKeys, sqdist, sumL, Xq]) (by norm_num [sqKeys, sqdist, sumL, Yq])
    (by norm_num [sqKeys, sqdist, sumL, hcat, Xq, Yq]) (by decide) (by decide) _ (by decide)

example : geomCMI envQ 2 cq ([2, 0, 3, 1].map (row Xq)) ([2, 0, 3, 1].map (row Yq))
      ([2, 0, 3, 1].map (row Zq)) 2
    = geomCMI envQ 2 cq Xq Yq Zq 2 :=
  geomCMI_row_perm envQ 2 cq Xq Yq Zq 2 1 2 2 rfl rfl (by decide) (by decide) (by decide)
    (by norm_num [sqKeys, sqdist, sumL, hcat, Xq, Zq])
    (by norm_num [sqKeys, sqdist, sumL, hcat, Yq, Zq])
    (by norm_num [sqKeys, sqdist, sumL, hcat, Xq, Yq, Zq])
    (by norm_num [sqKeys, sqdist, sumL, Zq]) (by decide) (by decide) _ (by decide)

example : [2, 0, 3, 1].map (row Yq) = [[1, 1], [0, 5], [6, 2], [2, 7]] := by decide

end examples

end CE.Geom
