import CEModel.Linalg
import Mathlib.Data.List.Basic
import Mathlib.Data.List.Nodup
import Mathlib.Data.List.Perm.Basic
import Mathlib.Tactic.SplitIfs

/-! # C16 — lag subnetworks partition the edges; the companion matrix has VAR block form

Statements about `CE.Lin.subEdges`, `maxLag`, `companion` (with `zeros`, `setBlock`, `adjacency`,
`identity`), the executable model that the correspondence check compares with `subnetwork` and
`companion_matrix` of `core/linalg.py`. Nodes are positions in `G.nodes()`; the lag-`k`
subnetwork has the same node set (all `n` nodes, implicit in the model) and the edge list
`subEdges es k`. -/
namespace CE.Lin

/-! ## subnetworks -/

/-- the simple-digraph edge made from a multigraph edge (`cmi` default 0.0, `p_value` default 1.0) -/
def toS (e : GEdge) : SEdge := { u := e.u, v := e.v, cmi := e.cmi.getD 0, p := e.p.getD 1 }

/-- the multigraph edges whose `lag` attribute is `k` -/
def lagClass (es : List GEdge) (k : Int) : List GEdge := es.filter (fun e => e.lag == some k)

/-- the `(source, target, lag)` triple of an edge -/
def triple (e : GEdge) : Nat × Nat × Option Int := (e.u, e.v, e.lag)

theorem subEdges_eq (es : List GEdge) (k : Int) : subEdges es k = (lagClass es k).map toS := rfl

theorem mem_lagClass {es : List GEdge} {k : Int} {e : GEdge} :
    e ∈ lagClass es k ↔ e ∈ es ∧ e.lag = some k := by
  simp [lagClass]

/-- **C16 `sub_edges`.** The lag-`k` subnetwork has exactly the edges whose lag is `k`, with their
endpoints, their `cmi` (default 0) and their p-value (default 1); and it has as many edges as
there are multigraph edges with that lag (listed in the same order). -/
theorem sub_edges (es : List GEdge) (k : Int) :
    (∀ u v c p, (⟨u, v, c, p⟩ : SEdge) ∈ subEdges es k ↔
      ∃ e ∈ es, e.lag = some k ∧ e.u = u ∧ e.v = v ∧ c = e.cmi.getD 0 ∧ p = e.p.getD 1) ∧
    (subEdges es k).length = es.countP (fun e => e.lag == some k) ∧
    subEdges es k = (es.filter (fun e => e.lag == some k)).map toS := by
  refine ⟨?_, ?_, rfl⟩
  · intro u v c p
    rw [subEdges_eq, List.mem_map]
    constructor
    · rintro ⟨e, he, h⟩
      obtain ⟨h1, h2⟩ := mem_lagClass.1 he
      simp only [toS, SEdge.mk.injEq] at h
      exact ⟨e, h1, h2, h.1, h.2.1, h.2.2.1.symm, h.2.2.2.symm⟩
    · rintro ⟨e, h1, h2, rfl, rfl, rfl, rfl⟩
      exact ⟨e, mem_lagClass.2 ⟨h1, h2⟩, rfl⟩
  · rw [subEdges_eq, List.length_map, lagClass, List.countP_eq_length_filter]

theorem mem_subEdges {es : List GEdge} {k : Int} {s : SEdge} :
    s ∈ subEdges es k ↔ ∃ e ∈ es, e.lag = some k ∧ toS e = s := by
  rw [subEdges_eq, List.mem_map]
  constructor
  · rintro ⟨e, he, h⟩
    exact ⟨e, (mem_lagClass.1 he).1, (mem_lagClass.1 he).2, h⟩
  · rintro ⟨e, h1, h2, h⟩
    exact ⟨e, mem_lagClass.2 ⟨h1, h2⟩, h⟩

example : subEdges [⟨0, 1, some 1, some (1 / 2), none⟩, ⟨1, 2, some 2, none, some (1 / 20)⟩,
    ⟨2, 2, none, none, none⟩, ⟨1, 0, some 1, none, none⟩] 1
    = [⟨0, 1, 1 / 2, 1⟩, ⟨1, 0, 0, 1⟩] := by
  simp [subEdges]

/-! ## partition -/

theorem triple_inj {es : List GEdge} (hnd : (es.map triple).Nodup) {a b : GEdge}
    (ha : a ∈ es) (hb : b ∈ es) (h : triple a = triple b) : a = b :=
  List.inj_on_of_nodup_map hnd ha hb h

theorem filter_or_perm {α : Type} (p q : α → Bool) : ∀ (l : List α),
    (∀ a ∈ l, p a = true → q a = false) →
    (l.filter (fun a => p a || q a)).Perm (l.filter p ++ l.filter q) := by
  intro l
  induction l with
  | nil => intro _; simp
  | cons a l ih =>
    intro h
    have ih' := ih (fun b hb => h b (List.mem_cons_of_mem _ hb))
    have ha := h a (List.mem_cons_self ..)
    cases hp : p a <;> cases hq : q a
    · simpa [List.filter_cons, hp, hq] using ih'
    · simp only [List.filter_cons, hp, hq, Bool.or_true, if_true, Bool.false_eq_true, if_false]
      exact (List.Perm.cons a ih').trans List.perm_middle.symm
    · simp only [List.filter_cons, hp, hq, Bool.or_false, if_true, Bool.false_eq_true, if_false,
        List.cons_append]
      exact List.Perm.cons a ih'
    · rw [ha hp] at hq; cases hq

theorem flatMap_lagClass_perm (es : List GEdge) : ∀ (ks : List Int), ks.Nodup →
    (ks.flatMap (lagClass es)).Perm
      (es.filter (fun e => ks.any (fun k => e.lag == some k))) := by
  intro ks
  induction ks with
  | nil => intro _; simp
  | cons k ks ih =>
    intro hnd
    obtain ⟨hk, hks⟩ := List.nodup_cons.1 hnd
    have h1 := ih hks
    rw [List.flatMap_cons]
    have h2 := filter_or_perm (fun e : GEdge => e.lag == some k)
      (fun e => ks.any (fun k => e.lag == some k)) es (by
        intro e _ he
        have he' : e.lag = some k := by simpa using he
        rw [Bool.eq_false_iff]
        intro hq
        obtain ⟨k', hk', hk''⟩ := List.any_eq_true.1 hq
        have : e.lag = some k' := by simpa using hk''
        rw [he'] at this
        cases this
        exact hk hk')
    simp only [List.any_cons]
    exact (List.Perm.append_left _ h1).trans h2.symm

/-- **C16 `partition`.** For a multigraph with pairwise distinct `(source, target, lag)` triples:
(i) every edge with a lag attribute appears in the subnetwork of its lag, with its attributes;
(ii) every edge of the lag-`k` subnetwork comes from exactly one multigraph edge, and that edge
has lag `k`; (iii) the edge families of two different lags are disjoint; (iv) no subnetwork has
two edges with the same endpoints (so the simple `DiGraph` loses nothing). -/
theorem partition (es : List GEdge) (hnd : (es.map triple).Nodup) :
    (∀ e ∈ es, ∀ k, e.lag = some k → toS e ∈ subEdges es k ∧ e ∈ lagClass es k) ∧
    (∀ k, ∀ s ∈ subEdges es k, ∃ e, (e ∈ es ∧ e.lag = some k ∧ toS e = s) ∧
      ∀ e' ∈ es, e'.lag = some k → e'.u = s.u → e'.v = s.v → e' = e) ∧
    (∀ k k', k ≠ k' → ∀ e, e ∈ lagClass es k → e ∉ lagClass es k') ∧
    (∀ k, ((subEdges es k).map (fun s => (s.u, s.v))).Nodup) := by
  refine ⟨?_, ?_, ?_, ?_⟩
  · intro e he k hk
    exact ⟨mem_subEdges.2 ⟨e, he, hk, rfl⟩, mem_lagClass.2 ⟨he, hk⟩⟩
  · intro k s hs
    obtain ⟨e, he, hk, rfl⟩ := mem_subEdges.1 hs
    refine ⟨e, ⟨he, hk, rfl⟩, ?_⟩
    intro e' he' hk' hu hv
    apply triple_inj hnd he' he
    simp only [triple, hk, hk']
    simp only [toS] at hu hv
    rw [hu, hv]
  · intro k k' hne e h1 h2
    have := (mem_lagClass.1 h1).2
    rw [(mem_lagClass.1 h2).2] at this
    cases this
    exact hne rfl
  · intro k
    rw [subEdges_eq, List.map_map]
    have h1 : (lagClass es k).Pairwise (fun a b => triple a ≠ triple b) :=
      (List.pairwise_map.1 hnd).sublist List.filter_sublist
    rw [List.Nodup, List.pairwise_map]
    refine h1.imp_of_mem ?_
    intro a b ha hb hne heq
    apply hne
    simp only [Function.comp, toS, Prod.mk.injEq] at heq
    simp only [triple, (mem_lagClass.1 ha).2, (mem_lagClass.1 hb).2, heq.1, heq.2]

/-- **C16 `partition_perm`.** Counting form of the partition (no uniqueness needed): for any
duplicate-free list `ks` of lags containing every lag that occurs, the concatenation of the
lag classes is a rearrangement of the edges that carry a lag attribute; hence the edge counts of
the subnetworks add up to the number of lagged edges. -/
theorem partition_perm (es : List GEdge) (ks : List Int) (hks : ks.Nodup)
    (hall : ∀ e ∈ es, ∀ k, e.lag = some k → k ∈ ks) :
    (ks.flatMap (lagClass es)).Perm (es.filter (fun e => e.lag.isSome)) ∧
    (ks.map (fun k => (subEdges es k).length)).sum = (es.filter (fun e => e.lag.isSome)).length := by
  have h1 := flatMap_lagClass_perm es ks hks
  have h2 : es.filter (fun e => ks.any (fun k => e.lag == some k))
      = es.filter (fun e => e.lag.isSome) := by
    apply List.filter_congr
    intro e he
    cases hl : e.lag with
    | none => simp
    | some k =>
      have := hall e he k hl
      simp only [Option.isSome_some, List.any_eq_true]
      exact ⟨k, this, by simp⟩
  rw [h2] at h1
  refine ⟨h1, ?_⟩
  rw [← h1.length_eq, List.length_flatMap]
  congr 1
  apply List.map_congr_left
  intro k _
  rw [subEdges_eq, List.length_map]

example : ([⟨0, 1, some 1, none, none⟩, ⟨0, 1, some 2, none, none⟩, ⟨1, 1, some 0, none, none⟩,
    ⟨2, 0, none, none, none⟩] : List GEdge).map triple |>.Nodup := by decide

/-- hypotheses of `partition_perm` on a concrete instance -/
example : ([0, 1, 2] : List Int).Nodup ∧
    ∀ e ∈ ([⟨0, 1, some 1, none, none⟩, ⟨0, 1, some 2, none, none⟩, ⟨1, 1, some 0, none, none⟩,
      ⟨2, 0, none, none, none⟩] : List GEdge), ∀ k, e.lag = some k → k ∈ ([0, 1, 2] : List Int) := by
  decide

/-! ## `maxLag` -/

theorem foldl_max_spec (f : GEdge → Int) : ∀ (es : List GEdge) (a : Int),
    a ≤ es.foldl (fun m e => max m (f e)) a ∧
    (∀ e ∈ es, f e ≤ es.foldl (fun m e => max m (f e)) a) ∧
    (es.foldl (fun m e => max m (f e)) a = a ∨
      ∃ e ∈ es, f e = es.foldl (fun m e => max m (f e)) a) := by
  intro es
  induction es with
  | nil => intro a; simp
  | cons e es ih =>
    intro a
    obtain ⟨h1, h2, h3⟩ := ih (max a (f e))
    simp only [List.foldl_cons]
    refine ⟨by omega, ?_, ?_⟩
    · intro e' he'
      rcases List.mem_cons.1 he' with rfl | he'
      · omega
      · exact h2 e' he'
    · rcases h3 with h3 | ⟨e', he', h3⟩
      · by_cases hle : f e ≤ a
        · left; rw [h3]; omega
        · right; exact ⟨e, List.mem_cons_self .., by rw [h3]; omega⟩
      · right; exact ⟨e', List.mem_cons_of_mem _ he', h3⟩

/-- `maxLag` is the largest lag: non-negative, an upper bound of every lag (missing lag = 0),
and either 0 or attained by some edge. -/
theorem maxLag_spec (es : List GEdge) :
    0 ≤ maxLag es ∧ (∀ e ∈ es, e.lag.getD 0 ≤ maxLag es) ∧
    (maxLag es = 0 ∨ ∃ e ∈ es, e.lag = some (maxLag es)) := by
  obtain ⟨h1, h2, h3⟩ := foldl_max_spec (fun e => e.lag.getD 0) es 0
  refine ⟨h1, h2, ?_⟩
  rcases h3 with h3 | ⟨e, he, h3⟩
  · exact Or.inl h3
  · by_cases hz : maxLag es = 0
    · exact Or.inl hz
    · right
      refine ⟨e, he, ?_⟩
      change e.lag.getD 0 = maxLag es at h3
      cases hl : e.lag with
      | none => rw [hl] at h3; exact absurd h3.symm hz
      | some k => rw [hl] at h3; simpa using h3

theorem maxLag_eq_zero_iff (es : List GEdge) :
    maxLag es = 0 ↔ ∀ e ∈ es, ∀ k, e.lag = some k → k ≤ 0 := by
  obtain ⟨h1, h2, h3⟩ := maxLag_spec es
  constructor
  · intro h e he k hk
    have := h2 e he
    rw [hk, h] at this
    simpa using this
  · intro h
    rcases h3 with h3 | ⟨e, he, h3⟩
    · exact h3
    · have := h e he _ h3
      omega

/-- **C16 `companion_empty`.** When no edge has a positive lag (in particular when there are no
edges, or only lag-0 / lag-less edges) the companion matrix is the empty `0 × 0` matrix. -/
theorem companion_empty (n : Nat) (es : List GEdge)
    (h : ∀ e ∈ es, ∀ k, e.lag = some k → k ≤ 0) : companion n es = [] := by
  have : maxLag es = 0 := (maxLag_eq_zero_iff es).2 h
  simp [companion, this]

/-- the form asked for in the task: `maxLag es = 0 → companion n es = []` -/
theorem companion_empty' (n : Nat) (es : List GEdge) (h : maxLag es = 0) : companion n es = [] := by
  simp [companion, h]

example : companion 3 [⟨0, 1, some 0, none, none⟩, ⟨2, 2, none, none, none⟩] = [] := by decide

/-! ## tabulated matrices -/

/-- the `R × Cc` list-of-rows matrix with entries `f r c` -/
def tab (R Cc : Nat) (f : Nat → Nat → Nat) : NMat :=
  (List.range R).map (fun r => (List.range Cc).map (fun c => f r c))

/-- entry `(r, c)` of a list-of-rows matrix, `none` outside the shape -/
def entry? (M : NMat) (r c : Nat) : Option Nat := M[r]?.bind (·[c]?)

theorem tab_length (R Cc : Nat) (f : Nat → Nat → Nat) : (tab R Cc f).length = R := by
  simp [tab]

theorem tab_row_length (R Cc : Nat) (f : Nat → Nat → Nat) :
    ∀ row ∈ tab R Cc f, row.length = Cc := by
  intro row h
  obtain ⟨r, _, rfl⟩ := List.mem_map.1 h
  simp

theorem entry?_tab (R Cc : Nat) (f : Nat → Nat → Nat) {r c : Nat} (hr : r < R) (hc : c < Cc) :
    entry? (tab R Cc f) r c = some (f r c) := by
  simp [entry?, tab, hr, hc]

theorem tab_congr (R Cc : Nat) (f g : Nat → Nat → Nat)
    (h : ∀ r < R, ∀ c < Cc, f r c = g r c) : tab R Cc f = tab R Cc g := by
  unfold tab
  apply List.map_congr_left
  intro r hr
  apply List.map_congr_left
  intro c hc
  exact h r (List.mem_range.1 hr) c (List.mem_range.1 hc)

theorem zeros_eq_tab (R Cc : Nat) : zeros R Cc = tab R Cc (fun _ _ => 0) := by
  apply List.ext_getElem
  · simp [zeros, tab]
  · intro r h1 h2
    apply List.ext_getElem
    · simp [zeros, tab]
    · intro c h3 h4
      simp [zeros, tab]

theorem adjacency_eq_tab (n : Nat) (ss : List SEdge) :
    adjacency n ss = tab n n (fun u v => if ss.any (fun e => e.u == u && e.v == v) then 1 else 0) :=
  rfl

theorem identity_eq_tab (n : Nat) :
    identity n = tab n n (fun i j => if i = j then 1 else 0) := rfl

/-- `C[r0 : r0+br, c0 : c0+bc] = B` in tabulated form -/
theorem setBlock_tab (R Cc r0 c0 br bc : Nat) (f g : Nat → Nat → Nat) :
    setBlock (tab R Cc f) r0 c0 (tab br bc g) =
      tab R Cc (fun r c =>
        if r0 ≤ r ∧ r < r0 + br ∧ c0 ≤ c ∧ c < c0 + bc then g (r - r0) (c - c0) else f r c) := by
  unfold setBlock
  apply List.ext_getElem
  · simp [tab]
  · intro r h1 h2
    have hr : r < R := by simpa [tab] using h2
    rw [List.getElem_mapIdx]
    simp only [tab_length]
    have hrow : (tab R Cc f)[r]'(by simpa [tab] using hr) = (List.range Cc).map (fun c => f r c) := by
      simp [tab]
    have hrow' : (tab R Cc (fun r c =>
        if r0 ≤ r ∧ r < r0 + br ∧ c0 ≤ c ∧ c < c0 + bc then g (r - r0) (c - c0) else f r c))[r]'h2
        = (List.range Cc).map (fun c =>
          if r0 ≤ r ∧ r < r0 + br ∧ c0 ≤ c ∧ c < c0 + bc then g (r - r0) (c - c0) else f r c) := by
      simp [tab]
    rw [hrow, hrow']
    by_cases hw : r0 ≤ r ∧ r < r0 + br
    · rw [if_pos hw]
      have hb : (tab br bc g).getD (r - r0) [] = (List.range bc).map (fun c => g (r - r0) c) := by
        have : r - r0 < br := by omega
        simp [tab, List.getD_eq_getElem?_getD, this]
      simp only [hb, List.length_map, List.length_range]
      apply List.ext_getElem
      · simp
      · intro c h3 h4
        have hc : c < Cc := by simpa using h4
        simp only [List.getElem_mapIdx, List.getElem_map, List.getElem_range]
        by_cases hcw : c0 ≤ c ∧ c < c0 + bc
        · have : c - c0 < bc := by omega
          rw [if_pos hcw, if_pos ⟨hw.1, hw.2, hcw.1, hcw.2⟩]
          simp [List.getD_eq_getElem?_getD, this]
        · rw [if_neg hcw, if_neg (fun h => hcw ⟨h.2.2.1, h.2.2.2⟩)]
    · rw [if_neg hw]
      apply List.map_congr_left
      intro c _
      rw [if_neg (fun h => hw ⟨h.1, h.2.1⟩)]

/-- the entry function after writing the first `m` blocks of a loop `for l in range(m)` -/
def blockIter (f : Nat → Nat → Nat) (r0 c0 : Nat → Nat) (br bc : Nat)
    (g : Nat → Nat → Nat → Nat) : Nat → Nat → Nat → Nat
  | 0 => f
  | m + 1 => fun r c =>
    if r0 m ≤ r ∧ r < r0 m + br ∧ c0 m ≤ c ∧ c < c0 m + bc then g m (r - r0 m) (c - c0 m)
    else blockIter f r0 c0 br bc g m r c

theorem foldl_setBlock_tab (R Cc : Nat) (f : Nat → Nat → Nat) (r0 c0 : Nat → Nat) (br bc : Nat)
    (B : Nat → NMat) (g : Nat → Nat → Nat → Nat) (hB : ∀ l, B l = tab br bc (g l)) (m : Nat) :
    (List.range m).foldl (fun C l => setBlock C (r0 l) (c0 l) (B l)) (tab R Cc f)
      = tab R Cc (blockIter f r0 c0 br bc g m) := by
  induction m with
  | zero => rfl
  | succ m ih =>
    rw [List.range_succ, List.foldl_append, ih, List.foldl_cons, List.foldl_nil, hB, setBlock_tab]
    rfl

/-! ## closed forms of the two loops -/

/-- adjacency entry of the lag-`(l+1)` subnetwork -/
def adjFn (es : List GEdge) (l u v : Nat) : Nat :=
  if (subEdges es ((l : Int) + 1)).any (fun e => e.u == u && e.v == v) then 1 else 0

theorem topIter_closed (n : Nat) (f : Nat → Nat → Nat) (g : Nat → Nat → Nat → Nat) (m r c : Nat) :
    blockIter f (fun _ => 0) (fun l => l * n) n n g m r c
      = if r < n ∧ c < m * n then g (c / n) r (c % n) else f r c := by
  induction m with
  | zero => simp [blockIter]
  | succ m ih =>
    simp only [blockIter]
    have e1 : (m + 1) * n = m * n + n := Nat.succ_mul m n
    by_cases hw : 0 ≤ r ∧ r < 0 + n ∧ m * n ≤ c ∧ c < m * n + n
    · rw [if_pos hw]
      have hd : c / n = m := Nat.div_eq_of_lt_le hw.2.2.1 (by rw [e1]; exact hw.2.2.2)
      have hm : c % n = c - m * n := by
        have := Nat.div_add_mod c n
        rw [hd, Nat.mul_comm] at this
        omega
      rw [if_pos ⟨by omega, by omega⟩, hd, hm, Nat.sub_zero]
    · rw [if_neg hw, ih]
      by_cases h1 : r < n ∧ c < m * n
      · rw [if_pos h1, if_pos ⟨h1.1, by omega⟩]
      · rw [if_neg h1, if_neg (fun h => by omega)]

theorem botIter_closed (n : Nat) (F : Nat → Nat → Nat) (hF : ∀ r c, n ≤ r → F r c = 0)
    (m r c : Nat) :
    blockIter F (fun k => (k + 1) * n) (fun k => k * n) n n
        (fun _ i j => if i = j then 1 else 0) m r c
      = if n ≤ r ∧ r < (m + 1) * n then (if c = r - n then 1 else 0) else F r c := by
  induction m with
  | zero =>
    simp only [blockIter, Nat.zero_add, Nat.one_mul]
    rw [if_neg (by omega)]
  | succ m ih =>
    dsimp only [blockIter]
    rw [ih]
    have e1 : (m + 1) * n = m * n + n := Nat.succ_mul m n
    have e2 : (m + 1 + 1) * n = (m + 1) * n + n := Nat.succ_mul (m + 1) n
    by_cases hn : n ≤ r
    · rw [hF r c hn]
      split_ifs <;> omega
    · split_ifs <;> first | rfl | omega

/-- entry function of the companion matrix: first block row = adjacency matrices by lag,
identity blocks below the block diagonal, zero elsewhere -/
def compFn (n : Nat) (es : List GEdge) (r c : Nat) : Nat :=
  if r < n then adjFn es (c / n) r (c % n) else if c = r - n then 1 else 0

/-- the companion matrix in tabulated (index-function) form -/
theorem companion_eq_tab (n : Nat) (es : List GEdge) (hK : (maxLag es).toNat ≠ 0) :
    companion n es
      = tab (n * (maxLag es).toNat) (n * (maxLag es).toNat) (compFn n es) := by
  have hdef : companion n es =
      if (maxLag es).toNat = 0 then [] else
      (List.range ((maxLag es).toNat - 1)).foldl
        (fun C k => setBlock C ((k + 1) * n) (k * n) (identity n))
        ((List.range (maxLag es).toNat).foldl
          (fun C l => setBlock C 0 (l * n) (adjacency n (subEdges es ((l : Int) + 1))))
          (zeros (n * (maxLag es).toNat) (n * (maxLag es).toNat))) := rfl
  rw [hdef, if_neg hK, zeros_eq_tab]
  generalize (maxLag es).toNat = K at hK ⊢
  have h1 := foldl_setBlock_tab (n * K) (n * K) (fun _ _ => 0) (fun _ => 0) (fun l => l * n) n n
    (fun l => adjacency n (subEdges es ((l : Int) + 1))) (adjFn es) (fun l => rfl) K
  rw [h1]
  have h2 := foldl_setBlock_tab (n * K) (n * K)
    (blockIter (fun _ _ => 0) (fun _ => 0) (fun l => l * n) n n (adjFn es) K)
    (fun k => (k + 1) * n) (fun k => k * n) n n
    (fun _ => identity n) (fun _ i j => if i = j then 1 else 0) (fun _ => rfl) (K - 1)
  rw [h2]
  apply tab_congr
  intro r hr c hc
  have hF : ∀ r c, n ≤ r →
      blockIter (fun _ _ => 0) (fun _ => 0) (fun l => l * n) n n (adjFn es) K r c = 0 := by
    intro r c h
    rw [topIter_closed, if_neg (by omega)]
  rw [botIter_closed n _ hF, topIter_closed]
  have hK1 : K - 1 + 1 = K := by omega
  rw [hK1, Nat.mul_comm K n]
  unfold compFn
  by_cases h : r < n
  · rw [if_neg (by omega), if_pos ⟨h, hc⟩, if_pos h]
  · rw [if_pos ⟨by omega, hr⟩, if_neg h]

theorem adjFn_eq_one_iff (es : List GEdge) (l u v : Nat) :
    adjFn es l u v = 1 ↔ ∃ e ∈ es, e.u = u ∧ e.v = v ∧ e.lag = some ((l + 1 : Nat) : Int) := by
  unfold adjFn
  have hcast : ((l + 1 : Nat) : Int) = (l : Int) + 1 := by omega
  rw [hcast]
  constructor
  · intro h
    have h' : (subEdges es ((l : Int) + 1)).any (fun e => e.u == u && e.v == v) = true := by
      by_contra hne
      rw [if_neg hne] at h
      cases h
    obtain ⟨s, hs, hp⟩ := List.any_eq_true.1 h'
    obtain ⟨e, he, hl, rfl⟩ := mem_subEdges.1 hs
    simp only [toS, Bool.and_eq_true, beq_iff_eq] at hp
    exact ⟨e, he, hp.1, hp.2, hl⟩
  · rintro ⟨e, he, hu, hv, hl⟩
    have : (subEdges es ((l : Int) + 1)).any (fun e => e.u == u && e.v == v) = true := by
      apply List.any_eq_true.2
      refine ⟨toS e, mem_subEdges.2 ⟨e, he, hl, rfl⟩, ?_⟩
      simp [toS, hu, hv]
    rw [if_pos this]

theorem compFn_zero_or_one (n : Nat) (es : List GEdge) (r c : Nat) :
    compFn n es r c = 0 ∨ compFn n es r c = 1 := by
  unfold compFn adjFn
  split
  · split <;> simp
  · split <;> simp

theorem compFn_eq_one_iff (n : Nat) (es : List GEdge) (r c : Nat) :
    compFn n es r c = 1 ↔
      (r < n ∧ ∃ e ∈ es, e.u = r ∧ e.v = c % n ∧ e.lag = some ((c / n + 1 : Nat) : Int)) ∨
      (n ≤ r ∧ c = r - n) := by
  unfold compFn
  by_cases h : r < n
  · rw [if_pos h, adjFn_eq_one_iff]
    constructor
    · intro h'; exact Or.inl ⟨h, h'⟩
    · rintro (⟨_, h'⟩ | ⟨h', _⟩)
      · exact h'
      · omega
  · rw [if_neg h]
    constructor
    · intro h'
      have : c = r - n := by
        by_contra hne
        rw [if_neg hne] at h'
        cases h'
      exact Or.inr ⟨by omega, this⟩
    · rintro (⟨h', _⟩ | ⟨_, h'⟩)
      · exact absurd h' h
      · rw [if_pos h']

/-- **C16 `companion_entry`.** For `n` nodes and largest lag `K = maxLag es ≥ 1` the companion
matrix is `nK × nK`, every entry is 0 or 1, and entry `(r, c)` is 1 iff
(`r < n` and there is an edge `node r → node (c % n)` with lag `c / n + 1`) or
(`r ≥ n` and `c = r − n`): first block row `[A₁ … A_K]` (source row, target column, node
insertion order), identities on the sub-diagonal blocks, zero everywhere else.

No hypothesis on the edges is needed for the model: edges with an endpoint `≥ n`, with lag `≤ 0`
or without a lag never match the right-hand side and are ignored by the model as well. (In the
code nodes are the `n` positions, so endpoints are `< n`; lags are `≥ 0` in the property.) -/
theorem companion_entry (n : Nat) (es : List GEdge) (hK : 1 ≤ (maxLag es).toNat) :
    (companion n es).length = n * (maxLag es).toNat ∧
    (∀ row ∈ companion n es, row.length = n * (maxLag es).toNat) ∧
    ∀ r c, r < n * (maxLag es).toNat → c < n * (maxLag es).toNat →
      ∃ x, entry? (companion n es) r c = some x ∧ (x = 0 ∨ x = 1) ∧
        (x = 1 ↔
          (r < n ∧ ∃ e ∈ es, e.u = r ∧ e.v = c % n ∧ e.lag = some ((c / n + 1 : Nat) : Int)) ∨
          (n ≤ r ∧ c = r - n)) := by
  have h := companion_eq_tab n es (by omega)
  rw [h]
  refine ⟨tab_length _ _ _, tab_row_length _ _ _, ?_⟩
  intro r c hr hc
  exact ⟨compFn n es r c, entry?_tab _ _ _ hr hc, compFn_zero_or_one n es r c,
    compFn_eq_one_iff n es r c⟩

/-- the hypothesis of `companion_entry` holds as soon as some edge has a positive lag -/
theorem maxLag_toNat_pos (es : List GEdge) (e : GEdge) (he : e ∈ es) (k : Int)
    (hk : e.lag = some k) (hpos : 1 ≤ k) : 1 ≤ (maxLag es).toNat := by
  have := (maxLag_spec es).2.1 e he
  rw [hk] at this
  simp only [Option.getD_some] at this
  omega

/-- **C16 `companion_edge`.** Every edge with a positive lag `k` and endpoints `< n` is
represented: `k ≤ K` and entry `(u, (k−1)·n + v)` of the companion matrix is 1; and `K` itself is
the lag of some edge. -/
theorem companion_edge (n : Nat) (es : List GEdge) (e : GEdge) (he : e ∈ es) (k : Nat)
    (hk : e.lag = some ((k + 1 : Nat) : Int)) (hu : e.u < n) (hv : e.v < n) :
    k + 1 ≤ (maxLag es).toNat ∧
    entry? (companion n es) e.u (k * n + e.v) = some 1 ∧
    ∃ e' ∈ es, e'.lag = some (((maxLag es).toNat : Nat) : Int) := by
  obtain ⟨h0, h1, h2⟩ := maxLag_spec es
  have hle := h1 e he
  rw [hk] at hle
  simp only [Option.getD_some] at hle
  have hK : k + 1 ≤ (maxLag es).toNat := by omega
  refine ⟨hK, ?_, ?_⟩
  · have hn : 0 < n := by omega
    have hc : k * n + e.v < n * (maxLag es).toNat := by
      have : (k + 1) * n ≤ (maxLag es).toNat * n := Nat.mul_le_mul_right n hK
      rw [Nat.succ_mul] at this
      rw [Nat.mul_comm n]
      omega
    have hr : e.u < n * (maxLag es).toNat := by
      have : n * 1 ≤ n * (maxLag es).toNat := Nat.mul_le_mul_left n (by omega)
      omega
    obtain ⟨x, hx, _, hiff⟩ := (companion_entry n es (by omega)).2.2 e.u (k * n + e.v) hr hc
    have hd : (k * n + e.v) / n = k := Nat.div_eq_of_lt_le (by omega) (by rw [Nat.succ_mul]; omega)
    have hm : (k * n + e.v) % n = e.v := by
      rw [Nat.mul_comm, Nat.mul_add_mod, Nat.mod_eq_of_lt hv]
    have : x = 1 := hiff.2 (Or.inl ⟨hu, e, he, rfl, hm.symm, by rw [hd]; exact hk⟩)
    rw [hx, this]
  · rcases h2 with h2 | ⟨e', he', h2⟩
    · rw [h2] at hle; omega
    · refine ⟨e', he', ?_⟩
      rw [h2, Int.toNat_of_nonneg h0]

/-- the hypothesis of `companion_entry` / `companion_edge` on a concrete multigraph with a
self-loop, a lag-0 edge, a lag-less edge and two lags on the same pair -/
example : 1 ≤ (maxLag [⟨0, 1, some 1, none, none⟩, ⟨0, 1, some 3, none, none⟩,
    ⟨1, 1, some 2, none, none⟩, ⟨2, 0, some 0, none, none⟩, ⟨2, 1, none, none, none⟩]).toNat := by
  decide

/-- the docstring example of `companion_matrix`: 3 nodes, edges 0→1 (lag 1), 1→2 (lag 2) -/
example : companion 3 [⟨0, 1, some 1, some (1 / 2), some (1 / 100)⟩,
    ⟨1, 2, some 2, some (3 / 10), some (1 / 20)⟩]
    = [[0, 1, 0, 0, 0, 0],
       [0, 0, 0, 0, 0, 1],
       [0, 0, 0, 0, 0, 0],
       [1, 0, 0, 0, 0, 0],
       [0, 1, 0, 0, 0, 0],
       [0, 0, 1, 0, 0, 0]] := by decide

end CE.Lin
