import CEModel.Discovery
import CEProofs.C01Lemmas
import Mathlib.Data.List.Basic
import Mathlib.Data.List.Range
import Mathlib.Data.List.Flatten
import Mathlib.Data.Rat.Defs

/-! # C01 — a reported edge `u → v` at lag `τ` really is `X_u(t-τ)` informing `X_v(t)`

All statements are about the executable model `CE.Disc.discover` (`CEModel/Discovery.lean`),
which mirrors `discover_network` of `causationentropy/core/discovery.py`; they hold for **every**
series, estimator `est`, permutation stream `perms`, LASSO oracle `lasso` and parameter record.

* `lagged_entry` — index map of `X_lagged` / `Y_all`: row `r` is time `t = L + r ∈ [L, T-1]`,
  the predictor column of `(j, τ)` holds `series[t - τ, j]`, the target column `series[t, i]`.
* `label_bijective` (`label_colId`, `colId_label`, `label_range`) — `feature_names`.
* `edge_semantics` / `edge_semantics_edges` — which estimator call an edge's `cmi` is.
* `edges_closed_form` / `pvalue_formula` — the whole edge list, including the p-values, as an
  explicit formula of the selected sets and the draw counters.
* a concrete non-vacuity example at the end (`T = 7, n = 2, L = 2`).

Not covered by these theorems (measured by the harness, see DESIGN §6 C01): "agrees with an
independent permutation estimate up to sampling error". -/
namespace CE.Disc.C01
open CE.Disc CE.Disc.Loop

/-! ## Lag indexing -/

/-- `entry` reads the list-of-rows representation (DESIGN's `ofRows_get`) -/
theorem entry_getElem (s : Mat) (t j : Nat) (ht : t < s.length) (hj : j < (s[t]).length) :
    entry s t j = s[t][j] := by
  simp [entry, List.getD, ht, hj]

theorem lagCol_length (s : Mat) (L T j τ : Nat) : (lagCol s L T j τ).length = T - L := by
  simp [lagCol]

theorem targetCol_length (s : Mat) (L T i : Nat) : (targetCol s L T i).length = T - L := by
  simp [targetCol]

/-- **C01 `lagged_entry`.** For a lag `1 ≤ τ ≤ L` and a row `r < T - L`: both columns have
`T - L` rows; row `r` is the time `t = L + r`, which lies in the common window `[L, T-1]`; the
target column holds `series[t, i]` and the predictor column of `(j, τ)` holds `series[t', j]` for
the time `t'` with `t' + τ = t` (i.e. `t' = t - τ`, stated without truncated subtraction). -/
theorem lagged_entry (s : Mat) (T L j i τ r : Nat) (h1 : 1 ≤ τ) (h2 : τ ≤ L) (hr : r < T - L) :
    (lagCol s L T j τ).length = T - L ∧ (targetCol s L T i).length = T - L ∧
    L ≤ L + r ∧ L + r < T ∧
    (targetCol s L T i)[r]? = some (entry s (L + r) i) ∧
    ∃ t', t' + τ = L + r ∧ t' < T ∧ (lagCol s L T j τ)[r]? = some (entry s t' j) := by
  refine ⟨lagCol_length .., targetCol_length .., by omega, by omega, ?_, L - τ + r, by omega,
    by omega, ?_⟩
  · simp [targetCol, hr]
  · simp [lagCol, hr]

/-- the same with the subtraction written out: `L + r - τ` is a genuine difference as `τ ≤ L` -/
theorem lagged_entry_sub (s : Mat) (T L j τ r : Nat) (_h1 : 1 ≤ τ) (h2 : τ ≤ L) (hr : r < T - L) :
    τ ≤ L + r ∧ (lagCol s L T j τ)[r]? = some (entry s (L + r - τ) j) := by
  refine ⟨by omega, ?_⟩
  have : L - τ + r = L + r - τ := by omega
  simp [lagCol, hr, this]

/-- column `c` of `X_lagged` is the lagged column of its label (by definition) -/
theorem xCol_eq (s : Mat) (L T c : Nat) :
    xCol s L T c = lagCol s L T (label L c).1 (label L c).2 := rfl

/-! ## Labels -/

/-- `feature_names[colId j τ] = (j, τ)` -/
theorem label_colId (L j τ : Nat) (h1 : 1 ≤ τ) (h2 : τ ≤ L) : label L (colId L j τ) = (j, τ) := by
  have hL : 0 < L := by omega
  have hlt : τ - 1 < L := by omega
  unfold label colId
  rw [Nat.add_comm, Nat.add_mul_div_right _ _ hL, Nat.add_mul_mod_self_right,
    Nat.div_eq_of_lt hlt, Nat.mod_eq_of_lt hlt]
  simp; omega

/-- column `colId j τ` of `X_lagged` is variable `j` delayed by `τ` (DESIGN's
`(Xlag s)[r][colId j τ] = s[L + r - τ][j]`, together with `lagged_entry`) -/
theorem xCol_colId (s : Mat) (L T j τ : Nat) (h1 : 1 ≤ τ) (h2 : τ ≤ L) :
    xCol s L T (colId L j τ) = lagCol s L T j τ := by
  rw [xCol_eq, label_colId L j τ h1 h2]

/-- the initial conditioning set of the standard method (`Z_init`): the ids handed to the
selection are the target's own lags `1..L`, i.e. the columns `series[L-τ : T-τ, i]` -/
theorem ownLags_cols (s : Mat) (L T i : Nat) :
    ((List.range L).map (fun t => colId L i (t + 1))).map (xCol s L T) =
      (List.range L).map (fun t => lagCol s L T i (t + 1)) := by
  rw [List.map_map]
  apply List.map_congr_left
  intro t ht
  have := List.mem_range.1 ht
  exact xCol_colId s L T i (t + 1) (by omega) (by omega)

/-- `colId (feature_names[c]) = c` (for every `L`) -/
theorem colId_label (L c : Nat) : colId L (label L c).1 (label L c).2 = c := by
  unfold label colId
  simp only [Nat.add_sub_cancel]
  exact Nat.div_add_mod' c L

/-- `label L` is injective -/
theorem label_injective (L : Nat) {c c' : Nat} (h : label L c = label L c') : c = c' := by
  rw [← colId_label L c, ← colId_label L c', h]

/-- the label of a column id `c < n * L` is a variable `< n` and a lag in `1..L`, and conversely -/
theorem label_range (L n c : Nat) (hL : 1 ≤ L) :
    (c < n * L ↔ (label L c).1 < n) ∧ 1 ≤ (label L c).2 ∧ (label L c).2 ≤ L := by
  unfold label
  refine ⟨(Nat.div_lt_iff_lt_mul (by omega)).symm, by simp, ?_⟩
  have := Nat.mod_lt c (show L > 0 by omega)
  simp only; omega

theorem colId_lt (L n j τ : Nat) (hj : j < n) (h1 : 1 ≤ τ) (h2 : τ ≤ L) : colId L j τ < n * L := by
  unfold colId
  calc j * L + (τ - 1) < j * L + L := by omega
    _ = (j + 1) * L := by rw [Nat.add_mul, Nat.one_mul]
    _ ≤ n * L := Nat.mul_le_mul_right L hj

/-- **C01 `label_bijective`.** For `1 ≤ L`, `label L` is a bijection from the column ids
`[0, n L)` onto `[0, n) × [1, L]`, with inverse `colId L`. -/
theorem label_bijective (L n : Nat) (hL : 1 ≤ L) :
    (∀ c, c < n * L →
      (label L c).1 < n ∧ 1 ≤ (label L c).2 ∧ (label L c).2 ≤ L ∧
      colId L (label L c).1 (label L c).2 = c) ∧
    (∀ j τ, j < n → 1 ≤ τ → τ ≤ L →
      colId L j τ < n * L ∧ label L (colId L j τ) = (j, τ)) := by
  refine ⟨fun c hc => ?_, fun j τ hj h1 h2 => ⟨colId_lt L n j τ hj h1 h2, label_colId L j τ h1 h2⟩⟩
  obtain ⟨h, h1, h2⟩ := label_range L n c hL
  exact ⟨h.1 hc, h1, h2, colId_label L c⟩

/-! ## Edges -/

/-- Python's `Z_cond` for the edge of selected column `c` of a target whose selected set is `S`:
the lagged columns of the *other* selected column ids, in selection order (`[]` = `None`) -/
def condCols (s : Mat) (L T : Nat) (S : List Nat) (c : Nat) : List Col :=
  (S.filter (fun k => k != c)).map (fun c' => lagCol s L T (label L c').1 (label L c').2)

/-- fraction of the `nSh` surrogates built from the permutations `perms d, …, perms (d+nSh-1)`
— applied to the predictor `x` only, `y` and `Z` untouched — whose information is `≥ obs` -/
def surrogateFraction (est : Est) (perms : Nat → List Nat) (nSh d : Nat) (x y : Col) (Z : List Col)
    (obs : Val) : Rat :=
  (((List.range nSh).countP (fun k => Val.ge (est (permute x (perms (d + k))) y Z) obs) : Nat) : Rat)
    / (nSh : Rat)

/-- the edge reported for selected column `c` of target `i` (selected set `S`), its shuffle test
starting when `d` permutations have been drawn from the stream -/
def edgeOfCol (est : Est) (perms : Nat → List Nat) (s : Mat) (L T nSh i : Nat) (S : List Nat)
    (d c : Nat) : Edge :=
  { src := (label L c).1, dst := i, lag := (label L c).2,
    cmi := est (lagCol s L T (label L c).1 (label L c).2) (targetCol s L T i) (condCols s L T S c),
    p := surrogateFraction est perms nSh d (lagCol s L T (label L c).1 (label L c).2)
      (targetCol s L T i) (condCols s L T S c)
      (est (lagCol s L T (label L c).1 (label L c).2) (targetCol s L T i) (condCols s L T S c)) }

/-- unfolding `oraclesOf` / `shuffleTest` / `decideTest` in one emitted edge -/
theorem edgeAt_oraclesOf (est : Est) (perms : Nat → List Nat) (s : Mat) (L T nSh i : Nat) (αb : Rat)
    (S : List Nat) (d c : Nat) :
    edgeAt (oraclesOf est perms s L T nSh i) αb L i S d c = edgeOfCol est perms s L T nSh i S d c := by
  simp only [edgeAt, edgeOfCol, oraclesOf, shuffleTest, decideTest, others, condCols,
    surrogateFraction, xCol, List.countP_map, List.length_map, List.length_range, List.map_map]
  rfl

/-- the edges into one target, cut out of a list that is ordered by target -/
theorem filter_dst_flatMap_range (f : Nat → List Edge) (hf : ∀ i', ∀ e ∈ f i', e.dst = i') :
    ∀ (n i : Nat),
      ((List.range n).flatMap f).filter (fun e => e.dst == i) = if i < n then f i else []
  | 0, i => by simp
  | n+1, i => by
      rw [List.range_succ, List.flatMap_append, List.filter_append,
        filter_dst_flatMap_range f hf n i]
      simp only [List.flatMap_singleton]
      by_cases hin : i = n
      · subst hin
        have : (f i).filter (fun e => e.dst == i) = f i :=
          List.filter_eq_self.2 (fun e he => by simp [hf i e he])
        simp [this]
      · have : (f n).filter (fun e => e.dst == i) = [] :=
          List.filter_eq_nil_iff.2 (fun e he => by simp [hf n e he]; omega)
        rw [this]
        by_cases h : i < n
        · simp [h, Nat.lt_succ_of_lt h]
        · have : ¬ i < n + 1 := by omega
          simp [h, this]

/-- the conditioning columns of an edge `e`, read off a returned edge list alone: the lagged
columns `X_u'(t - τ')` of the **other** edges `(u' → e.dst, lag τ')` into the same target
(`(u', τ') ≠ (e.src, e.lag)`), in edge order; `[]` is Python's `None` -/
def otherEdgeCols (s : Mat) (L T : Nat) (edges : List Edge) (e : Edge) : List Col :=
  (edges.filter (fun e' => e'.dst == e.dst && !(e'.src == e.src && e'.lag == e.lag))).map
    (fun e' => lagCol s L T e'.src e'.lag)

section Discover
variable {P : Params} {est : Est} {perms : Nat → List Nat} {lasso : Nat → List Nat}
  {s : Mat} {T n : Nat} {r : Result}

/-- **C01 `edges_closed_form_draws`** (the whole result in closed form, draw counters pinned).
If `discover` returns `r`, let `m` be the parsed method and `st i := Loop.stAt m … i` the state
after the selection of target `i` (`(st i).S` its selected set, `(st i).c` the number of
permutations drawn so far; `Loop.drawsBefore` threads the counter: selection of target `i` starts
at `drawsBefore i`, and `drawsBefore (i+1) = (st i).c + |S_i| * nShuffles`). Then `r.sel` lists the
selected sets in target order, `r.draws` is the total number of draws, the edge list is ordered by
target, and the `k`-th edge into `i` is `edgeOfCol … S_i ((st i).c + k * nShuffles) S_i[k]`. -/
theorem edges_closed_form_draws (h : discover P est perms lasso s T n = .ok r) :
    ∃ m, parseMethod P.method = some m ∧
      r.sel = (List.range n).map (fun i =>
        (stAt m (fun i => oraclesOf est perms s P.L T P.nShuffles i) lasso P.αf P.αb P.L n i).S) ∧
      r.draws = drawsBefore m (fun i => oraclesOf est perms s P.L T P.nShuffles i) lasso
        P.αf P.αb P.L n n ∧
      r.edges = (List.range n).flatMap (fun i => r.edges.filter (fun e => e.dst == i)) ∧
      ∀ i, i < n →
        (r.edges.filter (fun e => e.dst == i)).length =
          (stAt m (fun i => oraclesOf est perms s P.L T P.nShuffles i) lasso
            P.αf P.αb P.L n i).S.length ∧
        ∀ k, (r.edges.filter (fun e => e.dst == i))[k]? =
          (stAt m (fun i => oraclesOf est perms s P.L T P.nShuffles i) lasso
            P.αf P.αb P.L n i).S[k]?.map (fun c =>
            edgeOfCol est perms s P.L T P.nShuffles i
              (stAt m (fun i => oraclesOf est perms s P.L T P.nShuffles i) lasso
                P.αf P.αb P.L n i).S
              ((stAt m (fun i => oraclesOf est perms s P.L T P.nShuffles i) lasso
                P.αf P.αb P.L n i).c + k * P.nShuffles) c) := by
  obtain ⟨m, hm, -, -, rfl⟩ := discover_ok h
  refine ⟨m, hm, ?_⟩
  rw [discoverWith_eq]
  set orc := fun i => oraclesOf est perms s P.L T P.nShuffles i with horc
  have hdst : ∀ i', ∀ e ∈ edgesOf m orc lasso P.αf P.αb P.L n i', e.dst = i' :=
    fun i' e he => edgesFrom_dst he
  have hfil : ∀ i, i < n → ((List.range n).flatMap (edgesOf m orc lasso P.αf P.αb P.L n)).filter
      (fun e => e.dst == i) = edgesOf m orc lasso P.αf P.αb P.L n i := by
    intro i hi
    rw [filter_dst_flatMap_range _ hdst, if_pos hi]
  refine ⟨rfl, rfl, ?_, ?_⟩
  · dsimp only
    apply List.flatMap_congr
    intro i hi
    exact (hfil i (List.mem_range.1 hi)).symm
  · intro i hi
    refine ⟨?_, ?_⟩
    · dsimp only
      rw [hfil i hi, edgesOf, edgesFrom_length]
    · intro k
      dsimp only
      rw [hfil i hi, edgesOf, edgesFrom_getElem?]
      congr 1
      funext c
      exact edgeAt_oraclesOf ..

/-- **C01 `edges_closed_form`** (the whole edge list, in closed form). If `discover` returns `r`:
there is one selected set per target (`r.sel`, in target order); the edge list is ordered by
target; and for every target `i < n` with selected set `S` there is a draw counter `d` (the number
of permutations consumed when the edge loop of `i` starts, pinned in `edges_closed_form_draws`)
such that the edges into `i` are, in selection order, exactly one edge per selected column: the
`k`-th one is `edgeOfCol … S (d + k * nShuffles) S[k]`, i.e. source and lag are the label of `S[k]`,
the cmi is the estimator applied to the lagged source column, the aligned target column and the
lagged columns of the other selected ids, and the p-value is the fraction of the next `nShuffles`
row-shuffled surrogates of that same predictor column whose value is `≥ cmi`. -/
theorem edges_closed_form (h : discover P est perms lasso s T n = .ok r) :
    r.sel.length = n ∧
    r.edges = (List.range n).flatMap (fun i => r.edges.filter (fun e => e.dst == i)) ∧
    ∀ i, i < n → ∃ S d, r.sel[i]? = some S ∧
      (r.edges.filter (fun e => e.dst == i)).length = S.length ∧
      ∀ k, (r.edges.filter (fun e => e.dst == i))[k]? =
        S[k]?.map (fun c => edgeOfCol est perms s P.L T P.nShuffles i S (d + k * P.nShuffles) c) := by
  obtain ⟨m, -, hsel, -, hfl, hcf⟩ := edges_closed_form_draws h
  refine ⟨by simp [hsel], hfl, fun i hi => ⟨_, _, by simp [hsel, hi], hcf i hi⟩⟩

/-- **C01 `edge_semantics`.** If `discover` returns `r`, then for every target `i < n` with
selected set `S = r.sel[i]`: the edges into `i` are, in selection order, exactly one edge per
selected column `c`, from the variable and with the lag that label `c`, and its `cmi` is
`est (X_src delayed by lag) (X_i at the present time) Z` with `Z` the lagged columns of the *other*
selected ids of the same target, in selection order (`[]` is Python's `None`). -/
theorem edge_semantics (h : discover P est perms lasso s T n = .ok r) :
    ∀ i, i < n → ∃ S, r.sel[i]? = some S ∧
      (r.edges.filter (fun e => e.dst == i)).map (fun e => (e.src, e.dst, e.lag, e.cmi)) =
        S.map (fun c => ((label P.L c).1, i, (label P.L c).2,
          est (lagCol s P.L T (label P.L c).1 (label P.L c).2) (targetCol s P.L T i)
            (condCols s P.L T S c))) := by
  intro i hi
  obtain ⟨-, -, hcf⟩ := edges_closed_form h
  obtain ⟨S, d, hS, hlen, hk⟩ := hcf i hi
  refine ⟨S, hS, ?_⟩
  apply List.ext_getElem?
  intro k
  rw [List.getElem?_map, List.getElem?_map, hk k]
  cases S[k]? <;> simp [edgeOfCol]

/-- an edge of the result, located: its target `i < n`, the position `k` of its column `c` in the
selected set `S` of `i`, and the draw counter `d` at which the edge loop of `i` starts -/
theorem edge_mem (h : discover P est perms lasso s T n = .ok r) {e : Edge} (he : e ∈ r.edges) :
    ∃ i S d k c, i < n ∧ r.sel[i]? = some S ∧ S[k]? = some c ∧
      e = edgeOfCol est perms s P.L T P.nShuffles i S (d + k * P.nShuffles) c := by
  obtain ⟨-, hfl, hcf⟩ := edges_closed_form h
  rw [hfl, List.mem_flatMap] at he
  obtain ⟨i, hi, hei⟩ := he
  have hi := List.mem_range.1 hi
  obtain ⟨S, d, hS, hlen, hk⟩ := hcf i hi
  obtain ⟨k, hek⟩ := List.mem_iff_getElem?.1 hei
  rw [hk k] at hek
  cases hSk : S[k]? with
  | none => simp [hSk] at hek
  | some c => exact ⟨i, S, d, k, c, hi, hS, hSk, by simpa [hSk] using hek.symm⟩

/-- if the edges `es` carry, in order, the labels of the column ids `l`, then the lagged columns
of the edges whose `(source, lag)` differs from the label of `c` are the lagged columns of the ids
`≠ c` (because `label` is injective) -/
theorem other_edges_cols (s : Mat) (L T : Nat) (c : Nat) :
    ∀ (es : List Edge) (l : List Nat), es.map (fun e => (e.src, e.lag)) = l.map (label L) →
      (es.filter (fun e' => !(e'.src == (label L c).1 && e'.lag == (label L c).2))).map
        (fun e' => lagCol s L T e'.src e'.lag)
      = (l.filter (fun k => k != c)).map (fun c' => lagCol s L T (label L c').1 (label L c').2)
  | [], [], _ => rfl
  | [], _ :: _, h => by simp at h
  | _ :: _, [], h => by simp at h
  | e' :: es, c' :: l, h => by
      simp only [List.map_cons, List.cons.injEq] at h
      obtain ⟨he', hrest⟩ := h
      have ih := other_edges_cols s L T c es l hrest
      have hsrc : e'.src = (label L c').1 := congrArg Prod.fst he'
      have hlag : e'.lag = (label L c').2 := congrArg Prod.snd he'
      rw [List.filter_cons, List.filter_cons]
      by_cases hc : c' = c
      · subst hc
        have h1 : (!(e'.src == (label L c').1 && e'.lag == (label L c').2)) = false := by
          simp [hsrc, hlag]
        have h2 : (c' != c') = false := by simp
        rw [h1, h2]
        simpa using ih
      · have hne : ¬ ((label L c').1 = (label L c).1 ∧ (label L c').2 = (label L c).2) := by
          rintro ⟨h1, h2⟩
          exact hc (label_injective L (Prod.ext h1 h2))
        have h1 : (!(e'.src == (label L c).1 && e'.lag == (label L c).2)) = true := by
          have : (e'.src == (label L c).1 && e'.lag == (label L c).2) = false := by
            rw [Bool.eq_false_iff]
            intro hb
            apply hne
            simpa [hsrc, hlag] using hb
          rw [this]; rfl
        have h2 : (c' != c) = true := by simpa using hc
        rw [if_pos h1, if_pos h2, List.map_cons, List.map_cons, ih, hsrc, hlag]

/-- the other reported edges into a target carry exactly the other selected columns -/
theorem otherEdgeCols_eq (h : discover P est perms lasso s T n = .ok r) {i : Nat} (hi : i < n)
    {S : List Nat} (hS : r.sel[i]? = some S) (d c : Nat) :
    otherEdgeCols s P.L T r.edges (edgeOfCol est perms s P.L T P.nShuffles i S d c) =
      condCols s P.L T S c := by
  obtain ⟨S', hS', hmap⟩ := edge_semantics h i hi
  obtain rfl : S' = S := by rw [hS] at hS'; exact (Option.some.inj hS').symm
  have hfil : r.edges.filter (fun e' => e'.dst == i && !(e'.src == (label P.L c).1 &&
      e'.lag == (label P.L c).2)) =
      (r.edges.filter (fun e' => e'.dst == i)).filter
        (fun e' => !(e'.src == (label P.L c).1 && e'.lag == (label P.L c).2)) := by
    rw [List.filter_filter]
    apply List.filter_congr
    intro x _
    exact Bool.and_comm ..
  have hlab : (r.edges.filter (fun e' => e'.dst == i)).map (fun e => (e.src, e.lag)) =
      S'.map (label P.L) := by
    have := congrArg (List.map (fun q : Nat × Nat × Nat × Val => (q.1, q.2.2.1))) hmap
    simpa [List.map_map, Function.comp_def] using this
  have := other_edges_cols s P.L T c _ _ hlab
  simp only [otherEdgeCols, edgeOfCol, condCols]
  rw [hfil, this]

/-- **C01 `edge_semantics_edges`** (the same, read off the returned graph alone). For every edge
`e = (u → v, lag τ, cmi)` of the result, `cmi = est (X_u delayed by τ) (X_v at the present time) Z`
where `Z` lists, in edge order, the columns `X_u'` delayed by `τ'` of the **other** reported edges
`(u' → v, lag τ')` into the same target (`(u', τ') ≠ (u, τ)`); no other edge into `v` ⇒ `Z = []`,
Python's `None`. All columns are taken over the common window (`lagged_entry`). -/
theorem edge_semantics_edges (h : discover P est perms lasso s T n = .ok r) :
    ∀ e ∈ r.edges, e.cmi =
      est (lagCol s P.L T e.src e.lag) (targetCol s P.L T e.dst) (otherEdgeCols s P.L T r.edges e) := by
  intro e he
  obtain ⟨i, S, d, k, c, hi, hS, hSk, rfl⟩ := edge_mem h he
  rw [otherEdgeCols_eq h hi hS]
  rfl

/-- **C01 `pvalue_formula`.** For every edge `e` of the result there is a draw counter `d` (pinned
in `edges_closed_form_draws`: the edge loop of the target continues the single stream where the
selection left it, `nShuffles` draws per edge) such that `e.p` is the number of `k < nShuffles`
with `est (X permuted by perms (d+k)) y Z ≥ e.cmi`, divided by `nShuffles`: only the predictor
column `X = X_src(t - lag)` is permuted; `y = X_dst(t)` and the conditioning columns `Z` (those of
the other edges into `e.dst`) are the unpermuted ones of `edge_semantics_edges`. -/
theorem pvalue_formula (h : discover P est perms lasso s T n = .ok r) :
    ∀ e ∈ r.edges, ∃ d, e.p =
      (((List.range P.nShuffles).countP (fun k =>
        Val.ge (est (permute (lagCol s P.L T e.src e.lag) (perms (d + k))) (targetCol s P.L T e.dst)
          (otherEdgeCols s P.L T r.edges e)) e.cmi) : Nat) : Rat) / (P.nShuffles : Rat) := by
  intro e he
  obtain ⟨i, S, d, k, c, hi, hS, hSk, rfl⟩ := edge_mem h he
  refine ⟨d + k * P.nShuffles, ?_⟩
  rw [otherEdgeCols_eq h hi hS]
  rfl

end Discover

/-! ## Non-vacuity: a concrete run (`T = 7`, `n = 2`, `L = 2`)

The kernel cannot evaluate the percentile (a well-founded `mergeSort` on `Rat`) inside the two oCSE
selections, so the fully evaluated instance uses the `lasso` method with a fixed LASSO oracle (no
selection runs; the edge loop, the estimator and the shuffle tests are evaluated by the kernel).
For the other three methods `discover` is shown to succeed on the same input (the hypotheses of
the theorems above are satisfiable for them as well). -/

def exSeries : Mat := [[0,1],[1,3],[2,0],[3,5],[4,2],[5,9],[6,4]]

/-- a concrete estimator: `(Σ_r x_r y_r) / (1 + number of conditioning columns)` -/
def exEst : Est := fun x y z =>
  .fin (((List.zipWith (· * ·) x y).foldl (· + ·) 0) / (1 + z.length))

def exPerms : Nat → List Nat := fun c =>
  if c % 3 = 0 then [1,0,2,4,3] else if c % 3 = 1 then [4,3,2,1,0] else [2,0,1,3,4]

def exLasso : Nat → List Nat := fun i => if i = 0 then [2] else [0, 3]

def exP (m : String) : Params :=
  { method := m, information := "gaussian", L := 2, αf := 1/20, αb := 1/20, nShuffles := 3 }

/-- three edges: `X1(t-1) → X0`, `X0(t-1) → X1`, `X1(t-2) → X1` -/
theorem example_run :
    ∃ r, discover (exP "lasso") exEst exPerms exLasso exSeries 7 2 = .ok r ∧
      r.edges.map (fun e => (e.src, e.dst, e.lag)) = [(1, 0, 1), (0, 1, 1), (1, 1, 2)] ∧
      r.edges.map (fun e => e.cmi) = [.fin 90, .fin 36, .fin 34] ∧
      r.edges.map (fun e => e.p) = [0, 1/3, 0] ∧
      r.sel = [[2], [0, 3]] ∧ r.draws = 9 :=
  ⟨_, rfl, by decide +kernel, by decide +kernel, by decide +kernel, by decide +kernel,
    by decide +kernel⟩

example : ∃ r, discover (exP "standard") exEst exPerms exLasso exSeries 7 2 = .ok r := ⟨_, rfl⟩
example : ∃ r, discover (exP "alternative") exEst exPerms exLasso exSeries 7 2 = .ok r := ⟨_, rfl⟩
example : ∃ r, discover (exP "information_lasso") exEst exPerms exLasso exSeries 7 2 = .ok r :=
  ⟨_, rfl⟩

/-- `lagged_entry` on the example: the column of `(variable 1, lag 2)` and the target column of
variable `0`, as times `t - 2` and `t` for `t = 2..6` -/
example : lagCol exSeries 2 7 1 2 = [1, 3, 0, 5, 2] ∧ targetCol exSeries 2 7 0 = [2, 3, 4, 5, 6] ∧
    label 2 (colId 2 1 2) = (1, 2) := by decide +kernel

end CE.Disc.C01
