import CEModel.Poisson
import Mathlib.Algebra.Order.Field.Basic
import Mathlib.Algebra.BigOperators.Intervals
import Mathlib.Algebra.Order.BigOperators.Group.Finset
import Mathlib.Order.Monotone.Basic
import Mathlib.Tactic.Linarith
import Mathlib.Tactic.Ring

/-! # C13 — helper lemmas about `maxL`, `psum`, `entropySum`, the loop state and `stopIndex`

Everything is stated over an arbitrary linearly ordered field `α` with an abstract
`pmf : ℕ → α → α`, `log : α → α` and a monotone embedding `cast : ℕ → α`. Mathlib's instances
(`Field`, `LinearOrder`) unify with the core classes the model is written over. -/
namespace CE.Poisson

set_option linter.unusedSectionVars false

variable {α : Type} [Field α] [LinearOrder α] [IsStrictOrderedRing α]

/-! ### `maxL` is `np.max` on non-empty lists -/

@[simp] theorem maxL_nil (d : α) : maxL d [] = d := rfl
@[simp] theorem maxL_singleton (d a : α) : maxL d [a] = a := rfl
theorem maxL_cons_cons (d a b : α) (as : List α) :
    maxL d (a :: b :: as) = max a (maxL d (b :: as)) := rfl

theorem le_maxL (d : α) : ∀ (l : List α) (x : α), x ∈ l → x ≤ maxL d l := by
  intro l
  induction l with
  | nil => intro x hx; cases hx
  | cons a as ih =>
    intro x hx
    cases as with
    | nil =>
      rcases List.mem_cons.mp hx with rfl | h
      · exact le_refl _
      · cases h
    | cons b bs =>
      rw [maxL_cons_cons]
      rcases List.mem_cons.mp hx with rfl | h
      · exact le_max_left _ _
      · exact le_trans (ih x h) (le_max_right _ _)

/-- on a non-empty list the default is irrelevant and the maximum is attained -/
theorem maxL_mem (d : α) : ∀ (l : List α), l ≠ [] → maxL d l ∈ l := by
  intro l
  induction l with
  | nil => intro h; exact absurd rfl h
  | cons a as ih =>
    intro _
    cases as with
    | nil => simp
    | cons b bs =>
      rw [maxL_cons_cons]
      rcases max_choice a (maxL d (b :: bs)) with h | h
      · rw [h]; exact List.mem_cons_self ..
      · rw [h]; exact List.mem_cons_of_mem _ (ih (by simp))

theorem maxL_le (d : α) (l : List α) (hl : l ≠ []) (b : α) (h : ∀ x ∈ l, x ≤ b) :
    maxL d l ≤ b := h _ (maxL_mem d l hl)

/-- the maximum over the one-element sub-vector is below the maximum over the whole vector -/
theorem maxL_map_singleton_le (f : α → α) (lams : List α) (lam : α) (hmem : lam ∈ lams) :
    maxL 0 ([lam].map f) ≤ maxL 0 (lams.map f) := by
  simp only [List.map_cons, List.map_nil, maxL_singleton]
  exact le_maxL 0 _ _ (List.mem_map.mpr ⟨lam, hmem, rfl⟩)

/-! ### partial sums as interval sums -/

theorem psum_sub (pmf : ℕ → α → α) (lam : α) (a b : ℕ) (hab : a ≤ b) :
    psum pmf lam b - psum pmf lam a = ∑ k ∈ Finset.Ico a b, pmf k lam := by
  induction b, hab using Nat.le_induction with
  | base => simp
  | succ b hb ih =>
    rw [Finset.sum_Ico_succ_top hb, ← ih]
    show psum pmf lam b + pmf b lam - psum pmf lam a = _
    ring

theorem psum_eq_sum (pmf : ℕ → α → α) (lam : α) (n : ℕ) :
    psum pmf lam n = ∑ k ∈ Finset.range n, pmf k lam := by
  have := psum_sub pmf lam 0 n (Nat.zero_le _)
  rw [← Nat.Ico_zero_eq_range, ← this]
  show _ = psum pmf lam n - 0
  ring

theorem entropySum_sub (pmf : ℕ → α → α) (log : α → α) (lam : α) (a b : ℕ) (hab : a ≤ b) :
    entropySum pmf log lam b =
      entropySum pmf log lam a - ∑ k ∈ Finset.Ico a b, plogp log (pmf k lam) := by
  induction b, hab using Nat.le_induction with
  | base => simp
  | succ b hb ih =>
    rw [Finset.sum_Ico_succ_top hb]
    show entropySum pmf log lam b - plogp log (pmf b lam) = _
    rw [ih]; ring

theorem entropySum_eq_sum (pmf : ℕ → α → α) (log : α → α) (lam : α) (n : ℕ) :
    entropySum pmf log lam n = - ∑ k ∈ Finset.range n, plogp log (pmf k lam) := by
  have := entropySum_sub pmf log lam 0 n (Nat.zero_le _)
  rw [← Nat.Ico_zero_eq_range, this]
  show (0 : α) - _ = _
  ring

/-! ### the loop state in closed form -/

/-- the state of the loop when its condition is evaluated before iteration `i` -/
def stateAt (cast : ℕ → α) (pmf : ℕ → α → α) (log : α → α) (lams : List α) (i : ℕ) : St α :=
  { i := i,
    psums := lams.map (fun l => psum pmf l i),
    small := smallAt cast pmf lams i,
    ent := lams.map (fun l => entropySum pmf log l i) }

theorem zipWith_map_map {β γ δ ε : Type} (g : γ → δ → ε) (f₁ : β → γ) (f₂ : β → δ)
    (l : List β) :
    List.zipWith g (l.map f₁) (l.map f₂) = l.map (fun x => g (f₁ x) (f₂ x)) := by
  induction l with
  | nil => rfl
  | cons a as ih => simp only [List.map_cons, List.zipWith_cons_cons, ih]

theorem initSt_eq (cast : ℕ → α) (pmf : ℕ → α → α) (log : α → α) (lams : List α) :
    initSt pmf log lams = stateAt cast pmf log lams 1 := by
  unfold initSt stateAt
  congr 1
  · apply List.map_congr_left
    intro l _
    show pmf 0 l = 0 + pmf 0 l
    rw [zero_add]

theorem smallAt_succ (cast : ℕ → α) (hcast : Monotone cast) (pmf : ℕ → α → α) (lams : List α)
    (i : ℕ) (hi : 1 ≤ i) :
    smallAt cast pmf lams (i + 1) =
      if cast i < maxL 0 lams then smallAt cast pmf lams i else maxL 0 (lams.map (pmf i)) := by
  by_cases h : cast i < maxL 0 lams
  · have h' : cast (i - 1) < maxL 0 lams := lt_of_le_of_lt (hcast (Nat.sub_le i 1)) h
    rw [if_pos h]
    unfold smallAt
    rw [if_neg (by simp [h]), if_neg (fun hh => hh.2 h')]
  · rw [if_neg h]
    unfold smallAt
    rw [if_pos ⟨by omega, by simpa using h⟩]
    simp

theorem stepSt_stateAt (cast : ℕ → α) (hcast : Monotone cast) (pmf : ℕ → α → α) (log : α → α)
    (lams : List α) (i : ℕ) (hi : 1 ≤ i) :
    stepSt cast pmf log lams (stateAt cast pmf log lams i) = stateAt cast pmf log lams (i + 1) := by
  unfold stepSt
  show St.mk _ _ _ _ = St.mk _ _ _ _
  congr 1
  · exact zipWith_map_map _ _ _ _
  · exact (smallAt_succ cast hcast pmf lams i hi).symm
  · exact zipWith_map_map _ _ _ _

theorem condB_stateAt (cast : ℕ → α) (pmf : ℕ → α → α) (log : α → α) (tol1 tol2 : α)
    (lams : List α) (i : ℕ) :
    condB tol1 tol2 (stateAt cast pmf log lams i) = cont cast pmf tol1 tol2 lams i := by
  unfold condB cont stateAt
  simp only [List.map_map]
  rfl

theorem run_stateAt (cast : ℕ → α) (hcast : Monotone cast) (pmf : ℕ → α → α) (log : α → α)
    (tol1 tol2 : α) (lams : List α) :
    ∀ (fuel i : ℕ), 1 ≤ i →
      run cast pmf log tol1 tol2 lams fuel (stateAt cast pmf log lams i) =
        stateAt cast pmf log lams (stopIndex cast pmf tol1 tol2 lams fuel i) := by
  intro fuel
  induction fuel with
  | zero => intro i _; rfl
  | succ fuel ih =>
    intro i hi
    unfold run stopIndex
    rw [condB_stateAt]
    by_cases hc : cont cast pmf tol1 tol2 lams i = true
    · rw [if_pos hc, if_pos hc, stepSt_stateAt cast hcast pmf log lams i hi]
      exact ih (i + 1) (by omega)
    · rw [if_neg hc, if_neg hc]

/-! ### `stopIndex` -/

theorem le_stopIndex (cast : ℕ → α) (pmf : ℕ → α → α) (tol1 tol2 : α) (lams : List α) :
    ∀ (fuel i : ℕ), i ≤ stopIndex cast pmf tol1 tol2 lams fuel i := by
  intro fuel
  induction fuel with
  | zero => intro i; exact le_refl _
  | succ fuel ih =>
    intro i
    unfold stopIndex
    split
    · exact le_trans (Nat.le_succ i) (ih (i + 1))
    · exact le_refl _

theorem stopIndex_le (cast : ℕ → α) (pmf : ℕ → α → α) (tol1 tol2 : α) (lams : List α) :
    ∀ (fuel i : ℕ), stopIndex cast pmf tol1 tol2 lams fuel i ≤ i + fuel := by
  intro fuel
  induction fuel with
  | zero => intro i; exact le_refl _
  | succ fuel ih =>
    intro i
    unfold stopIndex
    split
    · have := ih (i + 1); omega
    · omega

/-- the loop condition holds at every index strictly before the stop index -/
theorem cont_before_stop (cast : ℕ → α) (pmf : ℕ → α → α) (tol1 tol2 : α) (lams : List α) :
    ∀ (fuel i k : ℕ), i ≤ k → k < stopIndex cast pmf tol1 tol2 lams fuel i →
      cont cast pmf tol1 tol2 lams k = true := by
  intro fuel
  induction fuel with
  | zero => intro i k h1 h2; exact absurd h2 (by simp only [stopIndex]; omega)
  | succ fuel ih =>
    intro i k h1 h2
    unfold stopIndex at h2
    split at h2
    · rcases Nat.eq_or_lt_of_le h1 with rfl | h
      · assumption
      · exact ih (i + 1) k h h2
    · omega

/-- either the fuel ran out or the loop condition fails at the stop index -/
theorem stop_reason (cast : ℕ → α) (pmf : ℕ → α → α) (tol1 tol2 : α) (lams : List α) :
    ∀ (fuel i : ℕ), stopIndex cast pmf tol1 tol2 lams fuel i = i + fuel ∨
      cont cast pmf tol1 tol2 lams (stopIndex cast pmf tol1 tol2 lams fuel i) = false := by
  intro fuel
  induction fuel with
  | zero => intro i; left; rfl
  | succ fuel ih =>
    intro i
    unfold stopIndex
    split
    · rcases ih (i + 1) with h | h
      · left; omega
      · right; exact h
    · rename_i h; right; simpa using h

end CE.Poisson
