import Mathlib.Algebra.Order.Field.Basic
import Mathlib.Algebra.BigOperators.Group.Finset.Basic
import Mathlib.Algebra.Order.BigOperators.Group.Finset
import Mathlib.Data.Fintype.Pi
import Mathlib.Data.Fintype.BigOperators
import Mathlib.Data.Fintype.Perm
import Mathlib.Logic.Equiv.Fin.Basic
import Mathlib.Tactic.Linarith
import Mathlib.Data.Finset.Max
import Mathlib.GroupTheory.Perm.Basic

/-! # C04 — helper lemmas: exactness of a permutation test for any statistic (counting form)

Appendix B.2 and B.2b of DESIGN.md, unchanged up to the namespace and linter clean-ups.

* `Extreme t c x a` — position `a` of the tuple `x` is "extreme at level `c`": at most `c` *other*
  entries have a statistic `≥` its own (ties count against).
* `card_extreme_le` — rank lemma: at most `c+1` positions of any tuple are extreme at level `c`.
* `card_extreme_pos_eq` — swapping two positions is a bijection of tuples.
* `exactness` — `(n+1)·#{x | x₀ extreme at level c} ≤ (c+1)·|V|^(n+1)`.
* `shear`, `level_bound` — transport to the code's sampling scheme: observed arrangement `σ₀`,
  surrogates `σ₀ * π_k` (the rows of the *observed* X are permuted), for any finite group. -/

namespace CE.Disc.C04

open Finset

section Exactness
variable {V : Type} [Fintype V] [DecidableEq V]

/-- `a` is "extreme at level c" in the tuple `x`: at most `c` other entries have a statistic ≥ its own. -/
def Extreme {m : ℕ} (t : V → ℚ) (c : ℕ) (x : Fin m → V) (a : Fin m) : Prop :=
  ((univ.filter (fun i => i ≠ a ∧ t (x a) ≤ t (x i))).card ≤ c)

instance {m : ℕ} (t : V → ℚ) (c : ℕ) (x : Fin m → V) (a : Fin m) : Decidable (Extreme t c x a) := by
  unfold Extreme; infer_instance

omit [Fintype V] [DecidableEq V] in
/-- rank lemma: at most c+1 positions are extreme at level c. -/
theorem card_extreme_le {m : ℕ} (t : V → ℚ) (c : ℕ) (x : Fin m → V) :
    (univ.filter (fun a => Extreme t c x a)).card ≤ c + 1 := by
  by_contra hcon
  push Not at hcon
  set E := univ.filter (fun a => Extreme t c x a) with hE
  have hne : E.Nonempty := by
    apply card_pos.mp; omega
  -- pick the extreme position with minimal statistic
  obtain ⟨a, haE, hmin⟩ := exists_min_image E (fun a => t (x a)) hne
  have ha : Extreme t c x a := (mem_filter.mp haE).2
  -- all other members of E have statistic ≥ that of a
  have hsub : E.erase a ⊆ univ.filter (fun i => i ≠ a ∧ t (x a) ≤ t (x i)) := by
    intro i hi
    rw [mem_erase] at hi
    simp only [mem_filter, mem_univ, true_and]
    exact ⟨hi.1, hmin i hi.2⟩
  have h1 := card_le_card hsub
  rw [card_erase_of_mem haE] at h1
  unfold Extreme at ha
  omega

omit [DecidableEq V] in
/-- swapping positions 0 and a is a bijection of tuples that moves extremeness from a to 0 -/
theorem card_extreme_pos_eq {m : ℕ} (t : V → ℚ) (c : ℕ) (a b : Fin m) :
    (univ.filter (fun x : Fin m → V => Extreme t c x a)).card =
    (univ.filter (fun x : Fin m → V => Extreme t c x b)).card := by
  let e : (Fin m → V) ≃ (Fin m → V) := (Equiv.swap a b).arrowCongr (Equiv.refl V)
  apply card_bij (fun x _ => e x)
  · intro x hx
    simp only [mem_filter, mem_univ, true_and] at hx ⊢
    unfold Extreme at hx ⊢
    have : (univ.filter (fun i => i ≠ b ∧ t (e x b) ≤ t (e x i))).card
         = (univ.filter (fun i => i ≠ a ∧ t (x a) ≤ t (x i))).card := by
      apply card_bij (fun i _ => Equiv.swap a b i)
      · intro i hi
        simp only [mem_filter, mem_univ, true_and] at hi ⊢
        refine ⟨?_, ?_⟩
        · intro h
          apply hi.1
          have := congrArg (Equiv.swap a b) h
          simpa using this
        · have h2 := hi.2
          simp only [e, Equiv.arrowCongr_apply, Equiv.coe_refl, Function.comp, id, Equiv.symm_swap,
            Equiv.swap_apply_right] at h2
          exact h2
      · intro i _ j _ h; exact (Equiv.swap a b).injective h
      · intro j hj
        simp only [mem_filter, mem_univ, true_and] at hj
        refine ⟨Equiv.swap a b j, ?_, by simp⟩
        simp only [mem_filter, mem_univ, true_and]
        refine ⟨?_, ?_⟩
        · intro h
          apply hj.1
          have := congrArg (Equiv.swap a b) h
          simpa using this
        · simp only [e, Equiv.arrowCongr_apply, Equiv.coe_refl, Function.comp, id, Equiv.symm_swap,
            Equiv.swap_apply_right, Equiv.swap_apply_self]
          exact hj.2
    rw [this]; exact hx
  · intro x _ y _ h; exact e.injective h
  · intro y hy
    refine ⟨e.symm y, ?_, by simp⟩
    simp only [mem_filter, mem_univ, true_and] at hy ⊢
    -- symmetric argument: apply the forward direction to e.symm = e
    unfold Extreme at hy ⊢
    have : (univ.filter (fun i => i ≠ a ∧ t (e.symm y a) ≤ t (e.symm y i))).card
         = (univ.filter (fun i => i ≠ b ∧ t (y b) ≤ t (y i))).card := by
      apply card_bij (fun i _ => Equiv.swap a b i)
      · intro i hi
        simp only [mem_filter, mem_univ, true_and] at hi ⊢
        refine ⟨?_, ?_⟩
        · intro h
          apply hi.1
          have := congrArg (Equiv.swap a b) h
          simpa using this
        · have h2 := hi.2
          simp only [e, Equiv.arrowCongr_symm, Equiv.arrowCongr_apply, Equiv.coe_refl, Function.comp, id,
            Equiv.symm_swap, Equiv.swap_apply_left, Equiv.refl_symm] at h2
          exact h2
      · intro i _ j _ h; exact (Equiv.swap a b).injective h
      · intro j hj
        simp only [mem_filter, mem_univ, true_and] at hj
        refine ⟨Equiv.swap a b j, ?_, by simp⟩
        simp only [mem_filter, mem_univ, true_and]
        refine ⟨?_, ?_⟩
        · intro h
          apply hj.1
          have := congrArg (Equiv.swap a b) h
          simpa using this
        · simp only [e, Equiv.arrowCongr_symm, Equiv.arrowCongr_apply, Equiv.coe_refl, Function.comp, id,
            Equiv.symm_swap, Equiv.swap_apply_left, Equiv.refl_symm, Equiv.swap_apply_self]
          exact hj.2
    rw [this]; exact hy

omit [DecidableEq V] in
/-- Exactness (counting form): among all |V|^(n+1) tuples, the fraction whose position 0 is
extreme at level c is at most (c+1)/(n+1). -/
theorem exactness {n : ℕ} (t : V → ℚ) (c : ℕ) :
    (n + 1) * (univ.filter (fun x : Fin (n+1) → V => Extreme t c x 0)).card
      ≤ (c + 1) * Fintype.card (Fin (n+1) → V) := by
  have hsum : ∑ a : Fin (n+1), (univ.filter (fun x : Fin (n+1) → V => Extreme t c x a)).card
      = (n + 1) * (univ.filter (fun x : Fin (n+1) → V => Extreme t c x 0)).card := by
    rw [Finset.sum_congr rfl (fun a _ => card_extreme_pos_eq t c a 0)]
    simp
  rw [← hsum]
  -- double counting
  have hdc : ∑ a : Fin (n+1), (univ.filter (fun x : Fin (n+1) → V => Extreme t c x a)).card
      = ∑ x : Fin (n+1) → V, (univ.filter (fun a => Extreme t c x a)).card := by
    simp only [card_filter]
    rw [Finset.sum_comm]
  rw [hdc]
  calc ∑ x : Fin (n+1) → V, (univ.filter (fun a => Extreme t c x a)).card
      ≤ ∑ _x : Fin (n+1) → V, (c + 1) := Finset.sum_le_sum (fun x _ => card_extreme_le t c x)
    _ = (c + 1) * Fintype.card (Fin (n+1) → V) := by simp [mul_comm]

end Exactness

section Transport
variable {G : Type} [Fintype G] [DecidableEq G] [Group G]

/-- (σ₀, π₁..π_n) ↦ (σ₀, σ₀π₁, …, σ₀π_n) as a bijection of (n+1)-tuples -/
def shear (n : ℕ) : (Fin (n+1) → G) ≃ (Fin (n+1) → G) where
  toFun y := fun i => if i = 0 then y 0 else y 0 * y i
  invFun x := fun i => if i = 0 then x 0 else (x 0)⁻¹ * x i
  left_inv y := by
    funext i; by_cases h : i = 0 <;> simp [h]
  right_inv x := by
    funext i; by_cases h : i = 0 <;> simp [h]

omit [DecidableEq G] in
/-- the verdict as the code computes it: observed statistic t σ₀ against null t (σ₀ π_k);
`verdict` is any predicate that implies "at most c null values are ≥ the observed one" (C03). -/
theorem level_bound {n : ℕ} (t : G → ℚ) (c : ℕ)
    (verdict : (Fin (n+1) → G) → Prop) [DecidablePred verdict]
    (hv : ∀ y, verdict y →
      (univ.filter (fun k : Fin (n+1) => k ≠ 0 ∧ t (y 0) ≤ t (y 0 * y k))).card ≤ c) :
    (n + 1) * (univ.filter verdict).card ≤ (c + 1) * Fintype.card (Fin (n+1) → G) := by
  have hsub : (univ.filter verdict).card ≤
      (univ.filter (fun x : Fin (n+1) → G => Extreme t c x 0)).card := by
    apply card_le_card_of_injOn (fun y => shear n y)
    · intro y hy
      simp only [coe_filter, mem_univ, true_and, Set.mem_ofPred_eq] at hy ⊢
      unfold Extreme
      have h := hv y hy
      have heq : (univ.filter (fun i : Fin (n+1) => i ≠ 0 ∧ t (shear n y 0) ≤ t (shear n y i)))
          = (univ.filter (fun k : Fin (n+1) => k ≠ 0 ∧ t (y 0) ≤ t (y 0 * y k))) := by
        apply filter_congr
        intro i _
        by_cases hi : i = 0
        · simp [hi]
        · simp [shear, hi]
      rw [heq]; exact h
    · intro a _ b _ hab; exact (shear n).injective hab
  calc (n + 1) * (univ.filter verdict).card
      ≤ (n + 1) * (univ.filter (fun x : Fin (n+1) → G => Extreme t c x 0)).card :=
        Nat.mul_le_mul_left _ hsub
    _ ≤ (c + 1) * Fintype.card (Fin (n+1) → G) := exactness t c

end Transport

end CE.Disc.C04
