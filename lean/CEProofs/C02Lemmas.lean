import CEModel.Discovery
import Mathlib.Data.List.Nodup
import Mathlib.Data.List.Perm.Basic

/-! # C02 — helper lemmas: the `argmax` order, `argmaxIdx`, list bookkeeping -/
namespace CE.Disc

/-! ## `leTop` is a total preorder on all of `Val` (NaN is the top element) -/

theorem valLe_total_of_not_nan (a b : Val) (ha : a.isNan = false) (hb : b.isNan = false) :
    Val.le a b = true ∨ Val.le b a = true := by
  cases a <;> cases b <;> simp_all [Val.le, Val.isNan]
  exact Rat.le_total

theorem valLe_trans (a b c : Val) (h1 : Val.le a b = true) (h2 : Val.le b c = true) :
    Val.le a c = true := by
  cases a <;> cases b <;> cases c <;> simp_all [Val.le]
  exact Rat.le_trans h1 h2

theorem leTop_total (a b : Val) : leTop a b = true ∨ leTop b a = true := by
  unfold leTop
  cases ha : a.isNan <;> cases hb : b.isNan <;> simp
  exact valLe_total_of_not_nan a b ha hb

theorem leTop_trans (a b c : Val) (h1 : leTop a b = true) (h2 : leTop b c = true) :
    leTop a c = true := by
  unfold leTop at *
  cases ha : a.isNan <;> cases hb : b.isNan <;> cases hc : c.isNan <;> simp_all
  exact valLe_trans a b c h1 h2

theorem leTop_refl (a : Val) : leTop a a = true := by
  rcases leTop_total a a with h | h <;> exact h

/-- NaN is the top element -/
theorem leTop_nan (a : Val) : leTop a .nan = true := by simp [leTop, Val.isNan]

/-- only NaN is above NaN -/
theorem isNan_of_leTop_nan {a b : Val} (ha : a.isNan = true) (h : leTop a b = true) :
    b.isNan = true := by
  unfold leTop at h
  cases hb : b.isNan <;> simp_all

/-- on NaN-free values `leTop` is IEEE `≤` -/
theorem leTop_eq_le {a b : Val} (ha : a.isNan = false) (hb : b.isNan = false) :
    leTop a b = Val.le a b := by
  simp [leTop, ha, hb]

/-! ## `argmaxIdx` returns the first maximal index of a total preorder -/

structure TotalPre {V : Type} (le : V → V → Bool) : Prop where
  total : ∀ a b, le a b = true ∨ le b a = true
  trans : ∀ a b c, le a b = true → le b c = true → le a c = true

theorem leTop_totalPre : TotalPre leTop := ⟨leTop_total, leTop_trans⟩

theorem argmaxIdx_spec {V : Type} (le : V → V → Bool) (h : TotalPre le) :
    ∀ (vs : List V) (d : V), vs ≠ [] →
      argmaxIdx le vs < vs.length ∧ ∀ x ∈ vs, le x (vs.getD (argmaxIdx le vs) d) = true := by
  intro vs
  induction vs with
  | nil => intro d hne; exact absurd rfl hne
  | cons v tl ih =>
    intro d _
    cases tl with
    | nil =>
      refine ⟨by simp [argmaxIdx], ?_⟩
      intro x hx
      have hxv : x = v := by simpa using hx
      subst hxv
      have : le x x = true := by rcases h.total x x with h1 | h1 <;> exact h1
      simpa [argmaxIdx] using this
    | cons w ws =>
      obtain ⟨hk, hmax⟩ := ih w (by simp)
      simp only [argmaxIdx]
      split
      · rename_i hle
        refine ⟨by simp, ?_⟩
        intro x hx
        simp only [List.getD_cons_zero]
        rcases List.mem_cons.mp hx with rfl | hx
        · rcases h.total x x with h1 | h1 <;> exact h1
        · exact h.trans _ _ _ (hmax x hx) hle
      · rename_i hnle
        refine ⟨by simp at hk ⊢; omega, ?_⟩
        intro x hx
        simp only [List.getD_cons_succ]
        have hd : (w :: ws).getD (argmaxIdx le (w :: ws)) d = (w :: ws).getD (argmaxIdx le (w :: ws)) w := by
          simp [List.getD_eq_getElem?_getD, List.getElem?_eq_getElem hk]
        rw [hd]
        rcases List.mem_cons.mp hx with rfl | hx
        · rcases h.total ((w :: ws).getD (argmaxIdx le (w :: ws)) w) x with h1 | h1
          · exact absurd h1 hnle
          · exact h1
        · exact hmax x hx

theorem argmaxIdx_lt {V : Type} (le : V → V → Bool) :
    ∀ (vs : List V), vs ≠ [] → argmaxIdx le vs < vs.length := by
  intro vs
  induction vs with
  | nil => intro hne; exact absurd rfl hne
  | cons v tl ih =>
    intro _
    cases tl with
    | nil => simp [argmaxIdx]
    | cons w ws =>
      have hk := ih (by simp)
      simp only [argmaxIdx]
      split
      · simp
      · simp at hk ⊢; omega

/-- tie-breaking: every element *before* the returned index is strictly below the maximum
(NumPy's "first occurrence" rule) -/
theorem argmaxIdx_first {V : Type} (le : V → V → Bool) :
    ∀ (vs : List V) (d : V) (i : Nat), i < argmaxIdx le vs →
      le (vs.getD (argmaxIdx le vs) d) (vs.getD i d) = false := by
  intro vs
  induction vs with
  | nil => intro d i hi; simp [argmaxIdx] at hi
  | cons v tl ih =>
    intro d i hi
    cases tl with
    | nil => simp [argmaxIdx] at hi
    | cons w ws =>
      simp only [argmaxIdx] at hi ⊢
      split at hi
      · omega
      · rename_i hnle
        rw [if_neg hnle]
        simp only [List.getD_cons_succ]
        cases i with
        | zero =>
          simp only [List.getD_cons_zero]
          have hk := argmaxIdx_lt le (w :: ws) (by simp)
          have hd : (w :: ws).getD (argmaxIdx le (w :: ws)) d = (w :: ws).getD (argmaxIdx le (w :: ws)) w := by
            simp [List.getD_eq_getElem?_getD, List.getElem?_eq_getElem hk]
          rw [hd]; simpa using hnle
        | succ i =>
          simp only [List.getD_cons_succ]
          exact ih d i (by omega)

end CE.Disc
