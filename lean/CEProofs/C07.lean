import CEModel.Discovery
import CEProofs.SelNodup
import CEProofs.C01Lemmas
import CEProofs.C01
import CEProofs.C07Lemmas
import Mathlib.Data.List.Basic
import Mathlib.Data.List.Range

/-! # C07 — discovery is a deterministic function of (data, parameters) only

**Thin by design** (DESIGN §6 C07). The model `CE.Disc.discover` is a pure Lean function of the
parameters, the estimator, the permutation stream of the call's own fresh generator, the LASSO
oracle and the series; it has no access to a global generator, to earlier calls or to the
presentation of the data. The theorems `history_independent`, `globals_untouched` and
`deterministic` below therefore only record that the model *needs no state*: they are immediate.
All assurance that the *implementation* is such a function comes from the tie (history-differential
runs, observation of the generator the code really uses, `np.random.get_state()` /
`random.getstate()` before and after, all presentations of the same numbers).

The one statement with real content is `presentation_independent`: the result depends on the
series only through the entries `entry s t j` of the `T × n` window (`t < T`, `j < n`) — whatever
else the list-of-rows object contains (further rows, longer or shorter rows) is never read.
Hypotheses, all about things the model takes as recorded data: the LASSO oracle lists column ids
`< n * L` (its range predicate), and the backward phase only visits column ids `< n * L` (in the
Python code the visiting order is `rng.permutation(S)`, a permutation of selected ids; the model
replays a recorded order, so this is stated — either as a property of the logged `bwd` events of
the run, or of the stream). `presentation_independent_rows` needs no hypothesis at all but asks
the entries to agree in every column. -/
namespace CE.Disc.C07
open CE.Disc CE.Disc.Loop CE.Disc.Congr

/-! ## The series is read through `entry` on the `T × n` window only -/

section Window
variable {s s' : Mat} {T n : Nat}

/-- a lagged predictor column with a valid id only reads the window -/
theorem xCol_window (hent : ∀ t, t < T → ∀ j, j < n → entry s t j = entry s' t j) (L : Nat)
    {c : Nat} (hc : c < n * L) : xCol s L T c = xCol s' L T c := by
  have hL : 1 ≤ L := by
    rcases Nat.eq_zero_or_pos L with rfl | h
    · simp at hc
    · exact h
  obtain ⟨h1, h2, h3⟩ := C01.label_range L n c hL
  unfold xCol lagCol
  apply List.map_congr_left
  intro r hr
  have hr := List.mem_range.1 hr
  exact hent _ (by omega) _ (h1.1 hc)

/-- the aligned target column of a variable `i < n` only reads the window -/
theorem targetCol_window (hent : ∀ t, t < T → ∀ j, j < n → entry s t j = entry s' t j) (L : Nat)
    {i : Nat} (hi : i < n) : targetCol s L T i = targetCol s' L T i := by
  unfold targetCol
  apply List.map_congr_left
  intro r hr
  have hr := List.mem_range.1 hr
  exact hent _ (by omega) _ hi

/-- the oracles induced by two series with the same window agree on all valid column ids -/
theorem oraclesOf_agree (hent : ∀ t, t < T → ∀ j, j < n → entry s t j = entry s' t j)
    (est : Est) (perms : Nat → List Nat) (L nSh : Nat) {i : Nat} (hi : i < n) :
    OAgree (n * L) (oraclesOf est perms s L T nSh i) (oraclesOf est perms s' L T nSh i) where
  cost := rfl
  order := fun _ _ => rfl
  f := fun j Z hj hZ => by
    have hZ' : Z.map (xCol s L T) = Z.map (xCol s' L T) :=
      List.map_congr_left (fun z hz => xCol_window hent L (hZ z hz))
    simp only [oraclesOf, xCol_window hent L hj, targetCol_window hent L hi, hZ']
  test := fun c α j Z v hj hZ => by
    have hZ' : Z.map (xCol s L T) = Z.map (xCol s' L T) :=
      List.map_congr_left (fun z hz => xCol_window hent L (hZ z hz))
    simp only [oraclesOf, xCol_window hent L hj, targetCol_window hent L hi, hZ']

end Window

section Presentation
variable {P : Params} {est : Est} {perms : Nat → List Nat} {lasso : Nat → List Nat}
  {s s' : Mat} {T n : Nat}

theorem presentation_core (hent : ∀ t, t < T → ∀ j, j < n → entry s t j = entry s' t j)
    (hl : IsLassoMethod P.method → ∀ i, i < n → ∀ c ∈ lasso i, c < n * P.L)
    (hvis : (∀ r, discover P est perms lasso s T n = .ok r →
        ∀ ev ∈ r.evs, ev.phase = .bwd → ev.cand < n * P.L) ∨
      (∀ c, ∀ j ∈ perms c, j < n * P.L)) :
    discover P est perms lasso s' T n = discover P est perms lasso s T n := by
  unfold discover at hvis ⊢
  cases hm : parseMethod P.method with
  | none => rfl
  | some m =>
    simp only [hm] at hvis ⊢
    by_cases hi : P.information ∈ supportedInformation
    · by_cases hT : T ≤ P.L + 2
      · simp [hi, hT]
      · simp only [List.contains_eq_mem, hi, hT, decide_true, Bool.not_true, Bool.false_eq_true,
          ↓reduceIte, Except.ok.injEq, forall_eq'] at hvis ⊢
        symm
        apply discoverWith_congr (fun i hi' => oraclesOf_agree hent est perms P.L P.nShuffles hi')
        · exact fun hm' => hl (isLassoMethod_of_parse hm hm')
        · rcases hvis with hvis | hvis
          · exact Or.inl hvis
          · exact Or.inr (fun _ _ c _ j hj => hvis c j hj)
    · simp [hi]

/-- **C07 `presentation_independent`.** Two list-of-rows objects whose entries agree on the
`T × n` window give the same result (same error, or the same edges, lags, cmi, p-values, events,
selected sets and draw count), provided the LASSO oracle (for the two LASSO methods) lists column
ids `< n L` and every logged backward visit of the run on `s` concerns a column id `< n L`. -/
theorem presentation_independent (hent : ∀ t, t < T → ∀ j, j < n → entry s t j = entry s' t j)
    (hl : IsLassoMethod P.method → ∀ i, i < n → ∀ c ∈ lasso i, c < n * P.L)
    (hvis : ∀ r, discover P est perms lasso s T n = .ok r →
      ∀ ev ∈ r.evs, ev.phase = .bwd → ev.cand < n * P.L) :
    discover P est perms lasso s' T n = discover P est perms lasso s T n :=
  presentation_core hent hl (Or.inl hvis)

/-- the same with the visiting-order hypothesis put on the stream: every recorded list only
contains numbers `< n L` (satisfiable whenever `T - L ≤ n L`, e.g. the example below) -/
theorem presentation_independent_stream
    (hent : ∀ t, t < T → ∀ j, j < n → entry s t j = entry s' t j)
    (hl : IsLassoMethod P.method → ∀ i, i < n → ∀ c ∈ lasso i, c < n * P.L)
    (hperm : ∀ c, ∀ j ∈ perms c, j < n * P.L) :
    discover P est perms lasso s' T n = discover P est perms lasso s T n :=
  presentation_core hent hl (Or.inr hperm)

/-- the LASSO methods log no backward event, so for them only the range predicate is needed -/
theorem lasso_no_bwd (hm : IsLassoMethod P.method) {r : Result}
    (h : discover P est perms lasso s T n = .ok r) : ∀ ev ∈ r.evs, ev.phase = .edge := by
  obtain ⟨m, hpm, -, -, rfl⟩ := discover_ok h
  have hm' : m = .informationLasso ∨ m = .lasso := parse_of_isLassoMethod hpm hm
  rw [discoverWith_eq]
  intro ev hev
  obtain ⟨i, -, hev⟩ := List.mem_flatMap.1 hev
  have hnil : (stAt m (fun i => oraclesOf est perms s P.L T P.nShuffles i) lasso P.αf P.αb P.L n i).evs
      = [] := by
    rcases hm' with rfl | rfl <;> rfl
  unfold evsOf at hev
  rw [hnil, List.nil_append] at hev
  have key : ∀ (o : Oracles) (αb : Rat) (S l : List Nat) (d : Nat),
      ∀ ev ∈ evsFrom o αb S d l, ev.phase = .edge := by
    intro o αb S l
    induction l with
    | nil => intro d ev hev; simp [evsFrom] at hev
    | cons c l ih =>
      intro d ev hev
      simp only [evsFrom, List.mem_cons] at hev
      rcases hev with rfl | hev
      · rfl
      · exact ih _ ev hev
  exact key _ _ _ _ _ ev hev

theorem presentation_independent_lasso (hm : IsLassoMethod P.method)
    (hent : ∀ t, t < T → ∀ j, j < n → entry s t j = entry s' t j)
    (hl : ∀ i, i < n → ∀ c ∈ lasso i, c < n * P.L) :
    discover P est perms lasso s' T n = discover P est perms lasso s T n :=
  presentation_independent hent (fun _ => hl) (fun r hr ev hev hph => by
    rw [lasso_no_bwd hm hr ev hev] at hph
    cases hph)

/-- **C07 `presentation_independent_rows`** (no hypothesis on oracles or stream). If the entries of
rows `t < T` agree in *every* column — e.g. both objects are genuine `T × n` arrays holding the
same numbers — the results are equal, for every method, stream and LASSO oracle: the series is
only read through `entry`, at times `< T`. -/
theorem presentation_independent_rows (hL : 1 ≤ P.L)
    (hent : ∀ t, t < T → ∀ j, entry s t j = entry s' t j) :
    discover P est perms lasso s' T n = discover P est perms lasso s T n := by
  have hx : xCol s' P.L T = xCol s P.L T := by
    funext c
    unfold xCol lagCol
    apply List.map_congr_left
    intro r hr
    have hr := List.mem_range.1 hr
    have := Nat.mod_lt c (show P.L > 0 by omega)
    exact (hent _ (by simp only [label]; omega) _).symm
  have hy : targetCol s' P.L T = targetCol s P.L T := by
    funext i
    unfold targetCol
    apply List.map_congr_left
    intro r hr
    have hr := List.mem_range.1 hr
    exact (hent _ (by omega) _).symm
  have : (fun i => oraclesOf est perms s' P.L T P.nShuffles i) =
      (fun i => oraclesOf est perms s P.L T P.nShuffles i) := by
    funext i
    simp only [oraclesOf, hx, hy]
  unfold discover
  rw [this]

end Presentation

/-! ## History independence (immediate on a pure model)

The world a call could conceivably depend on: the state of NumPy's and Python's global random
generators and the list of calls made so far. What a call is made of — the parameters and the data
— is a `Call`; the estimator named by the parameters, the stream of the call's own fresh
`default_rng(42)` and the answers of the (deterministic) LASSO solver are functions of the call,
collected in `Env`. -/

structure Call where
  P : Params
  s : Mat
  T : Nat
  n : Nat

structure Env where
  /-- the estimator selected by name and hyper-parameters -/
  estOf : Params → Est
  /-- the stream of a generator created inside the call from the literal seed -/
  permsOf : Call → Nat → List Nat
  /-- the LASSO selections computed from the call's data -/
  lassoOf : Call → Nat → List Nat

structure World where
  npGlobal : Nat
  pyGlobal : Nat
  history : List Call

/-- a call in a world: the result is `discover` of the call's own ingredients; the world is left
as it was, except that the call is appended to the history -/
def discoverW (env : Env) (w : World) (c : Call) : World × Except Err Result :=
  ({ w with history := w.history ++ [c] },
   discover c.P (env.estOf c.P) (env.permsOf c) (env.lassoOf c) c.s c.T c.n)

/-- things that can happen between two calls -/
inductive Action
  | call (c : Call)
  | seedNp (k : Nat)
  | seedPy (k : Nat)
  | drawNp
  | drawPy

def step (env : Env) (w : World) : Action → World
  | .call c => (discoverW env w c).1
  | .seedNp k => { w with npGlobal := k }
  | .seedPy k => { w with pyGlobal := k }
  | .drawNp => { w with npGlobal := w.npGlobal + 1 }
  | .drawPy => { w with pyGlobal := w.pyGlobal + 1 }

def run (env : Env) (w : World) (as : List Action) : World := as.foldl (step env) w

/-- **C07 `history_independent`.** The result of a call is the same after any two histories
(interleaved other calls, reseeded or advanced global generators), from any two initial worlds. -/
theorem history_independent (env : Env) (w₁ w₂ : World) (h₁ h₂ : List Action) (c : Call) :
    (discoverW env (run env w₁ h₁) c).2 = (discoverW env (run env w₂ h₂) c).2 := rfl

/-- **C07 `globals_untouched`.** A call neither reads (see `history_independent`) nor advances
the global generators; it only adds itself to the history. -/
theorem globals_untouched (env : Env) (w : World) (c : Call) :
    (discoverW env w c).1.npGlobal = w.npGlobal ∧ (discoverW env w c).1.pyGlobal = w.pyGlobal ∧
    (discoverW env w c).1.history = w.history ++ [c] := ⟨rfl, rfl, rfl⟩

/-- **C07 `deterministic`.** Two calls with equal data and parameters return identical results,
whatever the worlds they are made in. -/
theorem deterministic (env : Env) (w₁ w₂ : World) (c₁ c₂ : Call) (h : c₁ = c₂) :
    (discoverW env w₁ c₁).2 = (discoverW env w₂ c₂).2 := by
  subst h; rfl

/-- the same for two presentations of the same window (the content is `presentation_independent`):
if the environment's ingredients do not depend on the presentation either -/
theorem presentation_independent_world (env : Env) (w₁ w₂ : World) (c₁ c₂ : Call)
    (hP : c₁.P = c₂.P) (hT : c₁.T = c₂.T) (hn : c₁.n = c₂.n)
    (hperm : env.permsOf c₁ = env.permsOf c₂) (hlasso : env.lassoOf c₁ = env.lassoOf c₂)
    (hent : ∀ t, t < c₁.T → ∀ j, j < c₁.n → entry c₁.s t j = entry c₂.s t j)
    (hl : IsLassoMethod c₁.P.method → ∀ i, i < c₁.n → ∀ c ∈ env.lassoOf c₁ i, c < c₁.n * c₁.P.L)
    (hvis : ∀ r, (discoverW env w₁ c₁).2 = .ok r →
      ∀ ev ∈ r.evs, ev.phase = .bwd → ev.cand < c₁.n * c₁.P.L) :
    (discoverW env w₂ c₂).2 = (discoverW env w₁ c₁).2 := by
  unfold discoverW at hvis ⊢
  dsimp only at hvis ⊢
  rw [← hP, ← hT, ← hn, ← hperm, ← hlasso]
  exact presentation_independent hent hl hvis

/-! ## Non-vacuity -/

/-- the series of the C01 example with a junk third column, a short row and two extra rows -/
def exSeriesPadded : Mat :=
  [[0,1,77],[1,3],[2,0,5,5],[3,5,-1],[4,2],[5,9,8],[6,4,0],[100,100],[7]]

theorem exSeries_window : ∀ t, t < 7 → ∀ j, j < 2 →
    entry C01.exSeries t j = entry exSeriesPadded t j := by decide +kernel

/-- `presentation_independent_lasso` applies to the example of C01 (three edges) … -/
example : discover (C01.exP "lasso") C01.exEst C01.exPerms C01.exLasso exSeriesPadded 7 2 =
    discover (C01.exP "lasso") C01.exEst C01.exPerms C01.exLasso C01.exSeries 7 2 :=
  presentation_independent_lasso (Or.inr rfl) exSeries_window (by
    intro i hi
    have : i = 0 ∨ i = 1 := by omega
    rcases this with rfl | rfl <;> simp [C01.exLasso, C01.exP])

/-- … and `presentation_independent_stream` to the two oCSE methods on the same data with a
stream whose lists stay below `n L = 4` -/
example (m : String) : discover (C01.exP m) C01.exEst (fun c => if c % 2 = 0 then [3,1,0,2] else [2,0,3,1])
      C01.exLasso exSeriesPadded 7 2 =
    discover (C01.exP m) C01.exEst (fun c => if c % 2 = 0 then [3,1,0,2] else [2,0,3,1])
      C01.exLasso C01.exSeries 7 2 :=
  presentation_independent_stream exSeries_window (by
    intro _ i hi
    have : i = 0 ∨ i = 1 := by omega
    rcases this with rfl | rfl <;> simp [C01.exLasso, C01.exP]) (by
    intro c j hj
    split at hj <;> simp at hj <;> simp [C01.exP] <;> omega)

/-- the window hypothesis is not vacuous either: the padded object is a different list of rows -/
example : exSeriesPadded ≠ C01.exSeries := by decide +kernel

end CE.Disc.C07
