import CEProofs.C02Lemmas
import CEModel.OcseSpec

/-! # C02 — edge selection follows the oCSE forward/backward rule on every landscape

Everything is about the executable model `CEModel/Discovery.lean` (`fwdStd`, `fwdAlt`, `backward`,
`ocseStd`, `ocseAlt`, `edgeLoop`), for **all** oracles `o : Oracles`: any information landscape
`o.f`, any verdicts `o.test` (stateful ones included: they may depend on the draw counter), any
backward visiting order `o.order`, any number of candidates, any initial conditioning ids.

Layout: (1) declarative spec as inductive relations over the event trace, (2) refinement theorems
(model ⊑ spec), (3) consequences proved from the spec relations only, (4) the decidable checker
`specOK` (`CEModel/OcseSpec.lean`) is complete for the model and sound for the lenient spec,
(5) non-vacuity examples.

The relations are parametrised by `rel`, the way conditioning lists are compared: `Eq` (ordered
ids, what the model produces) or `List.Perm` (as sets — what `specOK` checks on traces recorded from
the implementation, because estimators ignore column order). -/
namespace CE.Disc

/-! ## 1. Declarative spec -/

/-- the verdicts in a trace are the oracle's answers at determined moments: the first test is
started after `c` draws, every test consumes `o.cost` draws; `c'` is the counter afterwards -/
inductive Consulted (o : Oracles) : Nat → List Ev → Nat → Prop
  | nil (c : Nat) : Consulted o c [] c
  | cons {c c' : Nat} {e : Ev} {evs : List Ev} :
      (e.pass, e.p) = o.test c e.level e.cand e.cond e.obs →
      Consulted o (c + o.cost) evs c' → Consulted o c (e :: evs) c'

/-- one forward test: candidate `e.cand` is undecided (`∈ U`), the conditioning is `Z` (up to
`rel`), the level is `α`, the observed value is `f` of the candidate and is `leTop`-maximal among
the values of all undecided candidates -/
structure FwdTestOK (rel : List Nat → List Nat → Prop) (f : Nat → List Nat → Val) (α : Rat)
    (U Z : List Nat) (e : Ev) : Prop where
  phase : e.phase = .fwd
  level : e.level = α
  mem   : e.cand ∈ U
  cond  : rel e.cond Z
  obs   : e.obs = f e.cand e.cond
  max   : ∀ c ∈ U, leTop (f c e.cond) e.obs = true

/-- standard forward phase. `FwdStdSpec rel f α zinit U S evs R`: from undecided candidates `U` and
accepted-so-far `S`, the tests `evs` are performed and `R` is the accepted set at the end.
Conditioning is always `zinit ++ S`; a rejected candidate is discarded and the phase goes on until
no candidate is left. -/
inductive FwdStdSpec (rel : List Nat → List Nat → Prop) (f : Nat → List Nat → Val) (α : Rat)
    (zinit : List Nat) : List Nat → List Nat → List Ev → List Nat → Prop
  | done (S : List Nat) : FwdStdSpec rel f α zinit [] S [] S
  | accept {U S : List Nat} {e : Ev} {evs : List Ev} {R : List Nat} :
      FwdTestOK rel f α U (zinit ++ S) e → e.pass = true →
      FwdStdSpec rel f α zinit (U.erase e.cand) (S ++ [e.cand]) evs R →
      FwdStdSpec rel f α zinit U S (e :: evs) R
  | reject {U S : List Nat} {e : Ev} {evs : List Ev} {R : List Nat} :
      FwdTestOK rel f α U (zinit ++ S) e → e.pass = false →
      FwdStdSpec rel f α zinit (U.erase e.cand) S evs R →
      FwdStdSpec rel f α zinit U S (e :: evs) R

/-- the undecided candidates of the alternative variant: all of `0..n-1` not yet accepted, ascending -/
def altUndecided (n : Nat) (S : List Nat) : List Nat := (List.range n).filter (fun j => !S.contains j)

/-- alternative forward phase: undecided = every not-yet-accepted candidate, conditioning = the
accepted ones only, and **no test after the first rejection**. -/
inductive FwdAltSpec (rel : List Nat → List Nat → Prop) (f : Nat → List Nat → Val) (α : Rat)
    (n : Nat) : List Nat → List Ev → List Nat → Prop
  | done {S : List Nat} : altUndecided n S = [] → FwdAltSpec rel f α n S [] S
  | accept {S : List Nat} {e : Ev} {evs : List Ev} {R : List Nat} :
      FwdTestOK rel f α (altUndecided n S) S e → e.pass = true →
      FwdAltSpec rel f α n (S ++ [e.cand]) evs R →
      FwdAltSpec rel f α n S (e :: evs) R
  | reject {S : List Nat} {e : Ev} :
      FwdTestOK rel f α (altUndecided n S) S e → e.pass = false →
      FwdAltSpec rel f α n S [e] S

/-- one backward test of predictor `j` against the current survivors `S` minus itself -/
structure BwdTestOK (rel : List Nat → List Nat → Prop) (f : Nat → List Nat → Val) (α : Rat)
    (S : List Nat) (j : Nat) (e : Ev) : Prop where
  phase : e.phase = .bwd
  level : e.level = α
  cand  : e.cand = j
  cond  : rel e.cond (S.filter (fun k => k != j))
  obs   : e.obs = f j e.cond

/-- backward phase. `BwdSpec rel f α visit S evs R`: the predictors `visit` are tested one after the
other, each against the survivors at that moment minus itself (which is the empty list when it
is the only survivor), and removed iff the test fails; `R` = survivors at the end. -/
inductive BwdSpec (rel : List Nat → List Nat → Prop) (f : Nat → List Nat → Val) (α : Rat) :
    List Nat → List Nat → List Ev → List Nat → Prop
  | done (S : List Nat) : BwdSpec rel f α [] S [] S
  | keep {j : Nat} {visit S : List Nat} {e : Ev} {evs : List Ev} {R : List Nat} :
      BwdTestOK rel f α S j e → e.pass = true →
      BwdSpec rel f α visit S evs R → BwdSpec rel f α (j :: visit) S (e :: evs) R
  | drop {j : Nat} {visit S : List Nat} {e : Ev} {evs : List Ev} {R : List Nat} :
      BwdTestOK rel f α S j e → e.pass = false →
      BwdSpec rel f α visit (S.filter (fun k => k != j)) evs R →
      BwdSpec rel f α (j :: visit) S (e :: evs) R

/-- the whole selection for one target: forward phase (`std = true`: standard with initial
conditioning `zinit`; `std = false`: alternative), then the backward phase visiting the forward
set `F` in some order `visit` (a permutation of `F`). -/
structure OcseParts (rel : List Nat → List Nat → Prop) (std : Bool) (f : Nat → List Nat → Val)
    (αf αb : Rat) (n : Nat) (zinit : List Nat) (evs : List Ev) (R : List Nat)
    (fe be : List Ev) (F visit R' : List Nat) : Prop where
  split  : evs = fe ++ be
  fwd    : if std then FwdStdSpec rel f αf zinit (List.range n) [] fe F
           else FwdAltSpec rel f αf n [] fe F
  perm   : visit.Perm F
  bwd    : BwdSpec rel f αb visit F be R'
  result : rel R R'

/-- `evs` is a run of the oCSE rule with result `R` -/
def OcseSpec (rel : List Nat → List Nat → Prop) (std : Bool) (f : Nat → List Nat → Val)
    (αf αb : Rat) (n : Nat) (zinit : List Nat) (evs : List Ev) (R : List Nat) : Prop :=
  ∃ fe be F visit R', OcseParts rel std f αf αb n zinit evs R fe be F visit R'

/-- `Eq` is one of the two admissible ways of comparing conditioning lists -/
theorem C02.eq_perm : ∀ a b : List Nat, a = b → a.Perm b := fun _ _ h => h ▸ List.Perm.refl _

/-! ## 2. Refinement: the code-shaped model satisfies the spec -/

theorem Consulted.counter {o : Oracles} {c c' : Nat} {evs : List Ev} (h : Consulted o c evs c') :
    c' = c + evs.length * o.cost := by
  induction h with
  | nil c => simp
  | cons _ _ ih => rw [ih, List.length_cons, Nat.add_mul]; omega

theorem Consulted.append {o : Oracles} {c c' c'' : Nat} {e1 e2 : List Ev}
    (h1 : Consulted o c e1 c') (h2 : Consulted o c' e2 c'') : Consulted o c (e1 ++ e2) c'' := by
  induction h1 with
  | nil c => simpa using h2
  | cons hv _ ih => exact Consulted.cons hv (ih h2)

/-- one iteration of `standard_forward` -/
theorem fwdStd_step (o : Oracles) (α : Rat) (fuel : Nat) (cands Z : List Nat) (st : St)
    (k : Nat) (hkdef : argmaxIdx leTop (cands.map (fun j => o.f j Z)) = k) (hk : k < cands.length) :
    fwdStd o α (fuel + 1) cands Z st =
      let j := cands[k]
      let ev := mkEv .fwd α j Z (o.f j Z) (o.test st.c α j Z (o.f j Z))
      if (o.test st.c α j Z (o.f j Z)).1 then
        fwdStd o α fuel (cands.eraseIdx k) (Z ++ [j])
          { S := st.S ++ [j], c := st.c + o.cost, evs := st.evs ++ [ev] }
      else
        fwdStd o α fuel (cands.eraseIdx k) Z
          { S := st.S, c := st.c + o.cost, evs := st.evs ++ [ev] } := by
  have hne : cands.isEmpty = false := by
    cases cands with
    | nil => simp at hk
    | cons _ _ => rfl
  have hj : cands.getD k 0 = cands[k] := by
    simp [List.getD_eq_getElem?_getD, List.getElem?_eq_getElem hk]
  have hv : (cands.map (fun j => o.f j Z)).getD k .nan = o.f cands[k] Z := by
    simp [List.getD_eq_getElem?_getD, List.getElem?_eq_getElem hk]
  simp only [fwdStd, hne, Bool.false_eq_true, ↓reduceIte, hkdef, hj, hv]

theorem fwdStd_refines (o : Oracles) (α : Rat) (zinit : List Nat) :
    ∀ (fuel : Nat) (cands : List Nat) (st : St), cands.Nodup → cands.length ≤ fuel →
      ∃ evs, (fwdStd o α fuel cands (zinit ++ st.S) st).evs = st.evs ++ evs ∧
        FwdStdSpec Eq o.f α zinit cands st.S evs (fwdStd o α fuel cands (zinit ++ st.S) st).S ∧
        Consulted o st.c evs (fwdStd o α fuel cands (zinit ++ st.S) st).c := by
  intro fuel
  induction fuel with
  | zero =>
    intro cands st _ hl
    have : cands = [] := List.eq_nil_of_length_eq_zero (by omega)
    subst this
    exact ⟨[], by simp [fwdStd], by simpa [fwdStd] using FwdStdSpec.done st.S, by simpa [fwdStd] using Consulted.nil st.c⟩
  | succ fuel ih =>
    intro cands st hnd hl
    by_cases hemp : cands = []
    · subst hemp
      exact ⟨[], by simp [fwdStd], by simpa [fwdStd] using FwdStdSpec.done st.S, by simpa [fwdStd] using Consulted.nil st.c⟩
    · have hvne : cands.map (fun j => o.f j (zinit ++ st.S)) ≠ [] := by simpa using hemp
      obtain ⟨hk, hmaxv⟩ := argmaxIdx_spec leTop leTop_totalPre _ Val.nan hvne
      generalize hkdef : argmaxIdx leTop (cands.map (fun j => o.f j (zinit ++ st.S))) = k at hk hmaxv
      have hk' : k < cands.length := by simpa using hk
      have hval : (cands.map (fun j => o.f j (zinit ++ st.S))).getD k .nan = o.f cands[k] (zinit ++ st.S) := by
        simp [List.getD_eq_getElem?_getD, List.getElem?_eq_getElem hk']
      rw [hval] at hmaxv
      rw [fwdStd_step o α fuel cands _ st k hkdef hk']
      have herase : cands.eraseIdx k = cands.erase cands[k] := (hnd.erase_getElem k hk').symm
      have hlen : (cands.eraseIdx k).length ≤ fuel := by
        rw [List.length_eraseIdx_of_lt hk']; omega
      have hnd' : (cands.eraseIdx k).Nodup := hnd.eraseIdx k
      dsimp only
      generalize hjdef : cands[k] = j at *
      have hjmem : j ∈ cands := hjdef ▸ List.getElem_mem hk'
      generalize hevdef : mkEv .fwd α j (zinit ++ st.S) (o.f j (zinit ++ st.S))
            (o.test st.c α j (zinit ++ st.S) (o.f j (zinit ++ st.S))) = ev
      have hcand : ev.cand = j := by rw [← hevdef]; rfl
      have hpass : ev.pass = (o.test st.c α j (zinit ++ st.S) (o.f j (zinit ++ st.S))).1 := by
        rw [← hevdef]; rfl
      have hcons : (ev.pass, ev.p) = o.test st.c ev.level ev.cand ev.cond ev.obs := by
        rw [← hevdef]; rfl
      have hok : FwdTestOK Eq o.f α cands (zinit ++ st.S) ev := by
        rw [← hevdef]
        exact ⟨rfl, rfl, hjmem, rfl, rfl, fun c hc => hmaxv _ (List.mem_map.mpr ⟨c, hc, rfl⟩)⟩
      rw [herase] at hnd' hlen
      simp only [herase]
      split
      · rename_i hp
        obtain ⟨evs, h1, h2, h3⟩ := ih (cands.erase j)
          { S := st.S ++ [j], c := st.c + o.cost, evs := st.evs ++ [ev] } hnd' hlen
        simp only [← List.append_assoc] at h1 h2 h3
        refine ⟨ev :: evs, by rw [h1]; simp, ?_, Consulted.cons hcons h3⟩
        exact FwdStdSpec.accept hok (hpass ▸ hp) (hcand ▸ h2)
      · rename_i hp
        obtain ⟨evs, h1, h2, h3⟩ := ih (cands.erase j)
          { S := st.S, c := st.c + o.cost, evs := st.evs ++ [ev] } hnd' hlen
        refine ⟨ev :: evs, by rw [h1]; simp, ?_, Consulted.cons hcons h3⟩
        exact FwdStdSpec.reject hok (by rw [hpass]; simpa using hp) (hcand ▸ h2)

/-! ### alternative forward phase -/

theorem altUndecided_nodup (n : Nat) (S : List Nat) : (altUndecided n S).Nodup :=
  (List.nodup_range).filter _

theorem mem_altUndecided {n : Nat} {S : List Nat} {j : Nat} :
    j ∈ altUndecided n S ↔ j < n ∧ j ∉ S := by
  simp [altUndecided]

theorem altUndecided_snoc (n : Nat) (S : List Nat) (j : Nat) :
    altUndecided n (S ++ [j]) = (altUndecided n S).erase j := by
  rw [(altUndecided_nodup n S).erase_eq_filter, altUndecided, altUndecided, List.filter_filter]
  apply List.filter_congr
  intro x _
  by_cases hxj : x = j <;> by_cases hxS : x ∈ S <;> simp [hxj, hxS]

/-- one iteration of `alternative_forward` -/
theorem fwdAlt_step (o : Oracles) (α : Rat) (n fuel : Nat) (st : St)
    (k : Nat) (hkdef : argmaxIdx leTop ((altUndecided n st.S).map (fun j => o.f j st.S)) = k)
    (hk : k < (altUndecided n st.S).length) :
    fwdAlt o α n (fuel + 1) st =
      let j := (altUndecided n st.S)[k]
      let ev := mkEv .fwd α j st.S (o.f j st.S) (o.test st.c α j st.S (o.f j st.S))
      if (o.test st.c α j st.S (o.f j st.S)).1 then
        fwdAlt o α n fuel { S := st.S ++ [j], c := st.c + o.cost, evs := st.evs ++ [ev] }
      else
        { S := st.S, c := st.c + o.cost, evs := st.evs ++ [ev] } := by
  have hne : (altUndecided n st.S).isEmpty = false := by
    cases h : altUndecided n st.S with
    | nil => simp [h] at hk
    | cons _ _ => rfl
  have hj : (altUndecided n st.S).getD k 0 = (altUndecided n st.S)[k] := by
    simp [List.getD_eq_getElem?_getD, List.getElem?_eq_getElem hk]
  have hv : ((altUndecided n st.S).map (fun j => o.f j st.S)).getD k .nan
      = o.f (altUndecided n st.S)[k] st.S := by
    simp [List.getD_eq_getElem?_getD, List.getElem?_eq_getElem hk]
  unfold altUndecided at hne hj hv hkdef
  simp only [fwdAlt, hne, Bool.false_eq_true, ↓reduceIte, hkdef, hj, hv]
  rfl

theorem fwdAlt_refines (o : Oracles) (α : Rat) (n : Nat) :
    ∀ (fuel : Nat) (st : St), (altUndecided n st.S).length ≤ fuel →
      ∃ evs, (fwdAlt o α n fuel st).evs = st.evs ++ evs ∧
        FwdAltSpec Eq o.f α n st.S evs (fwdAlt o α n fuel st).S ∧
        Consulted o st.c evs (fwdAlt o α n fuel st).c := by
  intro fuel
  induction fuel with
  | zero =>
    intro st hl
    have : altUndecided n st.S = [] := List.eq_nil_of_length_eq_zero (by omega)
    exact ⟨[], by simp [fwdAlt], by simpa [fwdAlt] using FwdAltSpec.done this,
      by simpa [fwdAlt] using Consulted.nil st.c⟩
  | succ fuel ih =>
    intro st hl
    by_cases hemp : altUndecided n st.S = []
    · have h0 : fwdAlt o α n (fuel + 1) st = st := by
        unfold altUndecided at hemp
        simp only [fwdAlt, hemp, List.isEmpty_nil, ↓reduceIte]
      rw [h0]
      exact ⟨[], by simp, FwdAltSpec.done hemp, Consulted.nil st.c⟩
    · have hvne : (altUndecided n st.S).map (fun j => o.f j st.S) ≠ [] := by simpa using hemp
      obtain ⟨hk, hmaxv⟩ := argmaxIdx_spec leTop leTop_totalPre _ Val.nan hvne
      generalize hkdef : argmaxIdx leTop ((altUndecided n st.S).map (fun j => o.f j st.S)) = k at hk hmaxv
      have hk' : k < (altUndecided n st.S).length := by simpa using hk
      have hval : ((altUndecided n st.S).map (fun j => o.f j st.S)).getD k .nan
          = o.f (altUndecided n st.S)[k] st.S := by
        simp [List.getD_eq_getElem?_getD, List.getElem?_eq_getElem hk']
      rw [hval] at hmaxv
      rw [fwdAlt_step o α n fuel st k hkdef hk']
      dsimp only
      have hjmem' : (altUndecided n st.S)[k] ∈ altUndecided n st.S := List.getElem_mem hk'
      generalize hjdef : (altUndecided n st.S)[k] = j at *
      have hlen : (altUndecided n (st.S ++ [j])).length ≤ fuel := by
        rw [altUndecided_snoc, List.length_erase_of_mem hjmem']; omega
      generalize hevdef : mkEv .fwd α j st.S (o.f j st.S) (o.test st.c α j st.S (o.f j st.S)) = ev
      have hcand : ev.cand = j := by rw [← hevdef]; rfl
      have hpass : ev.pass = (o.test st.c α j st.S (o.f j st.S)).1 := by rw [← hevdef]; rfl
      have hcons : (ev.pass, ev.p) = o.test st.c ev.level ev.cand ev.cond ev.obs := by
        rw [← hevdef]; rfl
      have hok : FwdTestOK Eq o.f α (altUndecided n st.S) st.S ev := by
        rw [← hevdef]
        exact ⟨rfl, rfl, hjmem', rfl, rfl, fun c hc => hmaxv _ (List.mem_map.mpr ⟨c, hc, rfl⟩)⟩
      split
      · rename_i hp
        obtain ⟨evs, h1, h2, h3⟩ := ih
          { S := st.S ++ [j], c := st.c + o.cost, evs := st.evs ++ [ev] } hlen
        refine ⟨ev :: evs, by rw [h1]; simp, ?_, Consulted.cons hcons h3⟩
        exact FwdAltSpec.accept hok (hpass ▸ hp) (hcand ▸ h2)
      · rename_i hp
        refine ⟨[ev], rfl, ?_, Consulted.cons hcons (Consulted.nil _)⟩
        exact FwdAltSpec.reject hok (by rw [hpass]; simpa using hp)

/-! ### backward phase -/

theorem C02.filter_ne_of_length_le_one {S : List Nat} {j : Nat} (hj : j ∈ S) (hl : ¬ S.length > 1) :
    S.filter (fun k => k != j) = [] := by
  match S, hj, hl with
  | [x], hj, _ =>
    have : j = x := by simpa using hj
    subst this; simp
  | _ :: _ :: _, _, hl => simp at hl

/-- the visits of `backward`, for any list of predictors to visit that are distinct members of the
current (duplicate-free) survivor list -/
theorem bwdFold_refines (o : Oracles) (α : Rat) :
    ∀ (visit : List Nat) (st : St), st.S.Nodup → visit.Nodup → (∀ j ∈ visit, j ∈ st.S) →
      ∃ evs, (visit.foldl (bwdStep o α) st).evs = st.evs ++ evs ∧
        BwdSpec Eq o.f α visit st.S evs (visit.foldl (bwdStep o α) st).S ∧
        Consulted o st.c evs (visit.foldl (bwdStep o α) st).c := by
  intro visit
  induction visit with
  | nil => intro st _ _ _; exact ⟨[], by simp, BwdSpec.done _, Consulted.nil _⟩
  | cons j visit ih =>
    intro st hS hV hmem
    have hj : j ∈ st.S := hmem j (List.mem_cons_self)
    have hZ : (if st.S.length > 1 then st.S.filter (fun k => k != j) else []) = st.S.filter (fun k => k != j) := by
      split
      · rfl
      · rename_i hl; exact (C02.filter_ne_of_length_le_one hj hl).symm
    obtain ⟨hjv, hV'⟩ := List.nodup_cons.mp hV
    generalize hevdef : mkEv .bwd α j (st.S.filter (fun k => k != j)) (o.f j (st.S.filter (fun k => k != j)))
      (o.test st.c α j (st.S.filter (fun k => k != j)) (o.f j (st.S.filter (fun k => k != j)))) = ev
    have hstep : bwdStep o α st j =
        { S := if ev.pass then st.S else st.S.filter (fun k => k != j), c := st.c + o.cost,
          evs := st.evs ++ [ev] } := by
      rw [← hevdef]
      simp only [bwdStep, hZ, mkEv, hS.erase_eq_filter]
      rfl
    have hcons : (ev.pass, ev.p) = o.test st.c ev.level ev.cand ev.cond ev.obs := by
      rw [← hevdef]; rfl
    have hok : BwdTestOK Eq o.f α st.S j ev := by
      rw [← hevdef]; exact ⟨rfl, rfl, rfl, rfl, rfl⟩
    rw [List.foldl_cons, hstep]
    cases hp : ev.pass with
    | true =>
      simp only [↓reduceIte]
      obtain ⟨evs, h1, h2, h3⟩ := ih { S := st.S, c := st.c + o.cost, evs := st.evs ++ [ev] } hS hV'
        (fun x hx => hmem x (List.mem_cons_of_mem _ hx))
      exact ⟨ev :: evs, by rw [h1]; simp, BwdSpec.keep hok hp h2, Consulted.cons hcons h3⟩
    | false =>
      simp only [Bool.false_eq_true, ↓reduceIte]
      obtain ⟨evs, h1, h2, h3⟩ := ih
        { S := st.S.filter (fun k => k != j), c := st.c + o.cost, evs := st.evs ++ [ev] }
        (hS.filter _) hV'
        (fun x hx => by
          have hxj : x ≠ j := fun h => hjv (h ▸ hx)
          simpa [hxj] using hmem x (List.mem_cons_of_mem _ hx))
      exact ⟨ev :: evs, by rw [h1]; simp, BwdSpec.drop hok hp h2, Consulted.cons hcons h3⟩

/-- `backward` refines `BwdSpec` for **every** visiting order that is a permutation of the
duplicate-free forward set; one draw is consumed for the order before the first test.
(Under this hypothesis every visited `j` is a current survivor, so Python's `S.remove(j)` never
raises and its `len(S) > 1` guard agrees with "survivors minus `j`"; outside it — impossible for
`rng.permutation(S_init)` — the model's `erase` is a totalisation and nothing is claimed.) -/
theorem backward_refines (o : Oracles) (α : Rat) (st : St) (hS : st.S.Nodup)
    (hperm : (o.order st.c st.S).Perm st.S) :
    ∃ evs, (backward o α st).evs = st.evs ++ evs ∧
      BwdSpec Eq o.f α (o.order st.c st.S) st.S evs (backward o α st).S ∧
      Consulted o (st.c + 1) evs (backward o α st).c := by
  have := bwdFold_refines o α (o.order st.c st.S) { st with c := st.c + 1 } hS
    (hperm.nodup_iff.mpr hS) (fun j hj => hperm.mem_iff.mp hj)
  simpa [backward] using this

/-! ### the two oCSE drivers -/

/-- the forward pass of `standard_optimal_causation_entropy` started after `c` draws -/
abbrev fwdStdRun (o : Oracles) (αf : Rat) (n : Nat) (zinit : List Nat) (c : Nat) : St :=
  fwdStd o αf n (List.range n) zinit { S := [], c := c, evs := [] }

/-- the forward pass of `alternative_optimal_causation_entropy` started after `c` draws -/
abbrev fwdAltRun (o : Oracles) (αf : Rat) (n : Nat) (c : Nat) : St :=
  fwdAlt o αf n n { S := [], c := c, evs := [] }

theorem fwdStdRun_refines (o : Oracles) (αf : Rat) (n : Nat) (zinit : List Nat) (c : Nat) :
    FwdStdSpec Eq o.f αf zinit (List.range n) [] (fwdStdRun o αf n zinit c).evs (fwdStdRun o αf n zinit c).S ∧
    Consulted o c (fwdStdRun o αf n zinit c).evs (fwdStdRun o αf n zinit c).c := by
  obtain ⟨evs, h1, h2, h3⟩ := fwdStd_refines o αf zinit n (List.range n) { S := [], c := c, evs := [] }
    List.nodup_range (by simp)
  simp only [List.append_nil, List.nil_append] at h1 h2 h3
  rw [← h1] at h2 h3
  exact ⟨h2, h3⟩

theorem fwdAltRun_refines (o : Oracles) (αf : Rat) (n : Nat) (c : Nat) :
    FwdAltSpec Eq o.f αf n [] (fwdAltRun o αf n c).evs (fwdAltRun o αf n c).S ∧
    Consulted o c (fwdAltRun o αf n c).evs (fwdAltRun o αf n c).c := by
  obtain ⟨evs, h1, h2, h3⟩ := fwdAlt_refines o αf n n { S := [], c := c, evs := [] }
    (by simp [altUndecided])
  simp only [List.nil_append] at h1 h2 h3
  rw [← h1] at h2 h3
  exact ⟨h2, h3⟩

/-! ## 3. Consequences of the spec (proved from the relations, not from the code) -/

section consequences
variable {rel : List Nat → List Nat → Prop} {f : Nat → List Nat → Val} {α : Rat}

/-- candidates of the passing events, in order -/
def acceptedOf (evs : List Ev) : List Nat := (evs.filter (fun e => e.pass)).map (fun e => e.cand)
/-- candidates of the failing events, in order -/
def failedOf (evs : List Ev) : List Nat := (evs.filter (fun e => !e.pass)).map (fun e => e.cand)
/-- candidates of all events, in order -/
def testedOf (evs : List Ev) : List Nat := evs.map (fun e => e.cand)

@[simp] theorem acceptedOf_nil : acceptedOf [] = [] := rfl
@[simp] theorem failedOf_nil : failedOf [] = [] := rfl
@[simp] theorem testedOf_nil : testedOf [] = [] := rfl
@[simp] theorem testedOf_cons (e : Ev) (evs : List Ev) : testedOf (e :: evs) = e.cand :: testedOf evs := rfl
theorem acceptedOf_cons_pass {e : Ev} (evs : List Ev) (h : e.pass = true) :
    acceptedOf (e :: evs) = e.cand :: acceptedOf evs := by simp [acceptedOf, h]
theorem acceptedOf_cons_fail {e : Ev} (evs : List Ev) (h : e.pass = false) :
    acceptedOf (e :: evs) = acceptedOf evs := by simp [acceptedOf, h]
theorem failedOf_cons_pass {e : Ev} (evs : List Ev) (h : e.pass = true) :
    failedOf (e :: evs) = failedOf evs := by simp [failedOf, h]
theorem failedOf_cons_fail {e : Ev} (evs : List Ev) (h : e.pass = false) :
    failedOf (e :: evs) = e.cand :: failedOf evs := by simp [failedOf, h]

/-- the standard forward phase performs exactly one test per candidate (so exactly `n` tests) -/
theorem FwdStdSpec.tested_perm {zinit U S evs R} (h : FwdStdSpec rel f α zinit U S evs R) :
    (testedOf evs).Perm U := by
  induction h with
  | done S => exact List.Perm.refl _
  | accept hok _ _ ih => exact ((List.perm_cons_erase hok.mem).trans (List.Perm.cons _ ih.symm)).symm
  | reject hok _ _ ih => exact ((List.perm_cons_erase hok.mem).trans (List.Perm.cons _ ih.symm)).symm

theorem FwdStdSpec.length {zinit U S evs R} (h : FwdStdSpec rel f α zinit U S evs R) :
    evs.length = U.length := by
  simpa [testedOf] using h.tested_perm.length_eq

/-- the accepted set is the initial one followed by the candidates of the passing tests, in order -/
theorem FwdStdSpec.result_eq {zinit U S evs R} (h : FwdStdSpec rel f α zinit U S evs R) :
    R = S ++ acceptedOf evs := by
  induction h with
  | done S => simp
  | accept _ hp _ ih => rw [ih, acceptedOf_cons_pass _ hp]; simp
  | reject _ hp _ ih => rw [ih, acceptedOf_cons_fail _ hp]

/-- trace form of the standard forward rule: the test `e` performed after the tests `pre` is a forward
test at level `α`, conditioned on `zinit ++ S ++` (candidates accepted in `pre`), its observed value is
`f` of its candidate and is maximal among all candidates not tested in `pre` -/
theorem FwdStdSpec.event {zinit U S evs R} (h : FwdStdSpec rel f α zinit U S evs R) :
    ∀ pre e post, evs = pre ++ e :: post →
      e.phase = .fwd ∧ e.level = α ∧ e.cand ∈ U ∧ rel e.cond (zinit ++ (S ++ acceptedOf pre)) ∧
      e.obs = f e.cand e.cond ∧
      ∀ c ∈ U, c ∉ testedOf pre → leTop (f c e.cond) e.obs = true := by
  induction h with
  | done S => intro pre e post h; simp at h
  | @accept U S e0 evs R hok hp _ ih =>
    intro pre e post heq
    cases pre with
    | nil =>
      simp only [List.nil_append, List.cons.injEq] at heq
      obtain ⟨rfl, _⟩ := heq
      exact ⟨hok.phase, hok.level, hok.mem, by simpa using hok.cond, hok.obs, fun c hc _ => hok.max c hc⟩
    | cons p pre =>
      simp only [List.cons_append, List.cons.injEq] at heq
      obtain ⟨rfl, heq⟩ := heq
      obtain ⟨h1, h2, h3, h4, h5, h6⟩ := ih pre e post heq
      refine ⟨h1, h2, List.mem_of_mem_erase h3, ?_, h5, ?_⟩
      · rw [acceptedOf_cons_pass _ hp]; simpa using h4
      · intro c hc hnot
        simp only [testedOf_cons, List.mem_cons, not_or] at hnot
        exact h6 c ((List.mem_erase_of_ne hnot.1).mpr hc) hnot.2
  | @reject U S e0 evs R hok hp _ ih =>
    intro pre e post heq
    cases pre with
    | nil =>
      simp only [List.nil_append, List.cons.injEq] at heq
      obtain ⟨rfl, _⟩ := heq
      exact ⟨hok.phase, hok.level, hok.mem, by simpa using hok.cond, hok.obs, fun c hc _ => hok.max c hc⟩
    | cons p pre =>
      simp only [List.cons_append, List.cons.injEq] at heq
      obtain ⟨rfl, heq⟩ := heq
      obtain ⟨h1, h2, h3, h4, h5, h6⟩ := ih pre e post heq
      refine ⟨h1, h2, List.mem_of_mem_erase h3, ?_, h5, ?_⟩
      · rw [acceptedOf_cons_fail _ hp]; exact h4
      · intro c hc hnot
        simp only [testedOf_cons, List.mem_cons, not_or] at hnot
        exact h6 c ((List.mem_erase_of_ne hnot.1).mpr hc) hnot.2

/-! ### alternative forward phase -/

theorem FwdAltSpec.result_eq {n S evs R} (h : FwdAltSpec rel f α n S evs R) :
    R = S ++ acceptedOf evs := by
  induction h with
  | done _ => simp
  | accept _ hp _ ih => rw [ih, acceptedOf_cons_pass _ hp]; simp
  | reject _ hp => rw [acceptedOf_cons_fail _ hp]; simp

/-- no test is performed after the first rejection -/
theorem FwdAltSpec.stop {n S evs R} (h : FwdAltSpec rel f α n S evs R) :
    ∀ pre e post, evs = pre ++ e :: post → e.pass = false → post = [] := by
  induction h with
  | done _ => intro pre e post h; simp at h
  | @accept S e0 evs R _ hp _ ih =>
    intro pre e post heq hf
    cases pre with
    | nil =>
      simp only [List.nil_append, List.cons.injEq] at heq
      obtain ⟨rfl, _⟩ := heq
      rw [hp] at hf; cases hf
    | cons p pre =>
      simp only [List.cons_append, List.cons.injEq] at heq
      exact ih pre e post heq.2 hf
  | reject _ _ =>
    intro pre e post heq _
    cases pre with
    | nil => simp only [List.nil_append, List.cons.injEq] at heq; exact heq.2.symm
    | cons p pre => simp at heq

/-- the phase only ends without a rejection when every candidate has been accepted -/
theorem FwdAltSpec.exhaust {n S evs R} (h : FwdAltSpec rel f α n S evs R)
    (hall : ∀ e ∈ evs, e.pass = true) : ∀ j < n, j ∈ R := by
  induction h with
  | @done S hemp =>
    intro j hj
    by_contra hjS
    have : j ∈ altUndecided n S := mem_altUndecided.mpr ⟨hj, hjS⟩
    rw [hemp] at this; cases this
  | accept _ _ _ ih => exact ih (fun e he => hall e (List.mem_cons_of_mem _ he))
  | @reject S e _ hp =>
    have := hall e (List.mem_cons_self)
    rw [hp] at this; cases this

theorem FwdAltSpec.event {n S evs R} (h : FwdAltSpec rel f α n S evs R) :
    ∀ pre e post, evs = pre ++ e :: post →
      e.phase = .fwd ∧ e.level = α ∧ e.cand < n ∧ e.cand ∉ S ++ acceptedOf pre ∧
      rel e.cond (S ++ acceptedOf pre) ∧ e.obs = f e.cand e.cond ∧
      (∀ c < n, c ∉ S ++ acceptedOf pre → leTop (f c e.cond) e.obs = true) ∧
      (∀ p ∈ pre, p.pass = true) := by
  induction h with
  | done _ => intro pre e post h; simp at h
  | @accept S e0 evs R hok hp _ ih =>
    intro pre e post heq
    cases pre with
    | nil =>
      simp only [List.nil_append, List.cons.injEq] at heq
      obtain ⟨rfl, _⟩ := heq
      have hm := mem_altUndecided.mp hok.mem
      exact ⟨hok.phase, hok.level, hm.1, by simpa using hm.2, by simpa using hok.cond, hok.obs,
        fun c hc hn => hok.max c (mem_altUndecided.mpr ⟨hc, by simpa using hn⟩), by simp⟩
    | cons p pre =>
      simp only [List.cons_append, List.cons.injEq] at heq
      obtain ⟨rfl, heq⟩ := heq
      obtain ⟨h1, h2, h3, h4, h5, h6, h7, h8⟩ := ih pre e post heq
      rw [acceptedOf_cons_pass _ hp]
      simp only [List.append_assoc, List.singleton_append] at h4 h5 h7
      exact ⟨h1, h2, h3, h4, h5, h6, h7, by
        intro q hq
        rcases List.mem_cons.mp hq with rfl | hq
        · exact hp
        · exact h8 q hq⟩
  | @reject S e0 hok hp =>
    intro pre e post heq
    cases pre with
    | nil =>
      simp only [List.nil_append, List.cons.injEq] at heq
      obtain ⟨rfl, _⟩ := heq
      have hm := mem_altUndecided.mp hok.mem
      exact ⟨hok.phase, hok.level, hm.1, by simpa using hm.2, by simpa using hok.cond, hok.obs,
        fun c hc hn => hok.max c (mem_altUndecided.mpr ⟨hc, by simpa using hn⟩), by simp⟩
    | cons p pre => simp at heq

/-- every test of the alternative forward phase is on a fresh candidate `< n` -/
theorem FwdAltSpec.tested {n S evs R} (h : FwdAltSpec rel f α n S evs R) :
    (testedOf evs).Nodup ∧ ∀ x ∈ testedOf evs, x < n ∧ x ∉ S := by
  induction h with
  | done _ => simp
  | @accept S e evs R hok _ _ ih =>
    have hm := mem_altUndecided.mp hok.mem
    refine ⟨?_, ?_⟩
    · rw [testedOf_cons, List.nodup_cons]
      refine ⟨fun hx => ?_, ih.1⟩
      exact (ih.2 _ hx).2 (by simp)
    · intro x hx
      rcases List.mem_cons.mp hx with rfl | hx
      · exact hm
      · exact ⟨(ih.2 x hx).1, fun hS => (ih.2 x hx).2 (List.mem_append_left _ hS)⟩
  | @reject S e hok _ =>
    have hm := mem_altUndecided.mp hok.mem
    simpa [testedOf] using hm

/-! ### backward phase -/

/-- survivors of `F` after the backward tests `evs`: those that did not fail -/
def survivorsOf (F : List Nat) (evs : List Ev) : List Nat :=
  F.filter (fun x => !(failedOf evs).contains x)

@[simp] theorem survivorsOf_nil (F : List Nat) : survivorsOf F [] = F := by simp [survivorsOf]

theorem survivorsOf_cons_pass (F : List Nat) {e : Ev} (evs : List Ev) (h : e.pass = true) :
    survivorsOf F (e :: evs) = survivorsOf F evs := by
  simp [survivorsOf, failedOf_cons_pass _ h]

theorem survivorsOf_cons_fail (F : List Nat) {e : Ev} (evs : List Ev) (h : e.pass = false) :
    survivorsOf F (e :: evs) = survivorsOf (F.filter (fun k => k != e.cand)) evs := by
  simp only [survivorsOf, failedOf_cons_fail _ h, List.filter_filter]
  apply List.filter_congr
  intro x _
  by_cases hx : x = e.cand <;> simp [hx]

/-- the backward tests are on the visited predictors, in the visiting order -/
theorem BwdSpec.tested {visit S evs R} (h : BwdSpec rel f α visit S evs R) :
    testedOf evs = visit := by
  induction h with
  | done _ => rfl
  | keep hok _ _ ih => rw [testedOf_cons, ih, hok.cand]
  | drop hok _ _ ih => rw [testedOf_cons, ih, hok.cand]

/-- result = the predictors that did not fail their backward test -/
theorem BwdSpec.result_eq {visit S evs R} (h : BwdSpec rel f α visit S evs R) :
    R = survivorsOf S evs := by
  induction h with
  | done _ => simp
  | keep _ hp _ ih => rw [ih, survivorsOf_cons_pass _ _ hp]
  | drop hok hp _ ih => rw [ih, survivorsOf_cons_fail _ _ hp, hok.cand]

/-- trace form of the backward rule: the test `e` performed after the tests `pre` is at level `α`,
conditioned on the survivors at that moment minus its own predictor -/
theorem BwdSpec.event {visit S evs R} (h : BwdSpec rel f α visit S evs R) :
    ∀ pre e post, evs = pre ++ e :: post →
      e.phase = .bwd ∧ e.level = α ∧
      rel e.cond ((survivorsOf S pre).filter (fun k => k != e.cand)) ∧ e.obs = f e.cand e.cond := by
  induction h with
  | done _ => intro pre e post h; simp at h
  | @keep j visit S e0 evs R hok hp _ ih =>
    intro pre e post heq
    cases pre with
    | nil =>
      simp only [List.nil_append, List.cons.injEq] at heq
      obtain ⟨rfl, _⟩ := heq
      exact ⟨hok.phase, hok.level, by simpa [hok.cand] using hok.cond, by rw [hok.obs, hok.cand]⟩
    | cons p pre =>
      simp only [List.cons_append, List.cons.injEq] at heq
      obtain ⟨rfl, heq⟩ := heq
      rw [survivorsOf_cons_pass _ _ hp]
      exact ih pre e post heq
  | @drop j visit S e0 evs R hok hp _ ih =>
    intro pre e post heq
    cases pre with
    | nil =>
      simp only [List.nil_append, List.cons.injEq] at heq
      obtain ⟨rfl, _⟩ := heq
      exact ⟨hok.phase, hok.level, by simpa [hok.cand] using hok.cond, by rw [hok.obs, hok.cand]⟩
    | cons p pre =>
      simp only [List.cons_append, List.cons.injEq] at heq
      obtain ⟨rfl, heq⟩ := heq
      rw [survivorsOf_cons_fail _ _ hp, hok.cand]
      exact ih pre e post heq

/-! ### whole selection -/

theorem acceptedOf_sublist (evs : List Ev) : (acceptedOf evs).Sublist (testedOf evs) :=
  (List.filter_sublist).map _

theorem failedOf_sublist (evs : List Ev) : (failedOf evs).Sublist (testedOf evs) :=
  (List.filter_sublist).map _

theorem testedOf_append (a b : List Ev) : testedOf (a ++ b) = testedOf a ++ testedOf b := by
  simp [testedOf]

/-- in a trace whose tests are on pairwise distinct candidates, no other test is on the candidate of `e` -/
theorem C02.split_unique {evs : List Ev} (hnd : (testedOf evs).Nodup) {e : Ev} (he : e ∈ evs) :
    ∃ pre post, evs = pre ++ e :: post ∧ ∀ e' ∈ pre ++ post, e'.cand ≠ e.cand := by
  obtain ⟨pre, post, rfl⟩ := List.append_of_mem he
  refine ⟨pre, post, rfl, ?_⟩
  intro e' he' heq
  rw [testedOf_append, testedOf_cons, List.nodup_append] at hnd
  obtain ⟨_, h2, h3⟩ := hnd
  rcases List.mem_append.mp he' with h | h
  · exact h3 _ (List.mem_map.mpr ⟨e', h, rfl⟩) _ (List.mem_cons_self) heq
  · have := (List.nodup_cons.mp h2).1
    exact this (by rw [← heq]; exact List.mem_map.mpr ⟨e', h, rfl⟩)

theorem mem_acceptedOf {evs : List Ev} {x : Nat} :
    x ∈ acceptedOf evs ↔ ∃ e ∈ evs, e.pass = true ∧ e.cand = x := by
  simp [acceptedOf, and_assoc]

theorem mem_failedOf {evs : List Ev} {x : Nat} :
    x ∈ failedOf evs ↔ ∃ e ∈ evs, e.pass = false ∧ e.cand = x := by
  simp [failedOf, and_assoc]

theorem mem_survivorsOf {F : List Nat} {evs : List Ev} {x : Nat} :
    x ∈ survivorsOf F evs ↔ x ∈ F ∧ x ∉ failedOf evs := by
  simp [survivorsOf]

/-- the forward set of either variant is duplicate-free, inside `0..n-1`, and is the list of
candidates of the passing forward tests, which are on pairwise distinct candidates -/
theorem C02.fwd_set {std : Bool} {αf : Rat} {n : Nat} {zinit : List Nat} {fe : List Ev} {F : List Nat}
    (h : if std then FwdStdSpec rel f αf zinit (List.range n) [] fe F else FwdAltSpec rel f αf n [] fe F) :
    F = acceptedOf fe ∧ (testedOf fe).Nodup ∧ (∀ x ∈ testedOf fe, x < n) := by
  cases std with
  | true =>
    simp only [↓reduceIte] at h
    have hp := h.tested_perm
    refine ⟨by simpa using h.result_eq, hp.nodup_iff.mpr List.nodup_range, ?_⟩
    intro x hx
    exact List.mem_range.mp (hp.mem_iff.mp hx)
  | false =>
    simp only [Bool.false_eq_true, ↓reduceIte] at h
    exact ⟨by simpa using h.result_eq, h.tested.1, fun x hx => (h.tested.2 x hx).1⟩

end consequences

/-! ### consequences for a whole selection run (`rel` is `Eq` or `List.Perm`) -/

section top
variable {rel : List Nat → List Nat → Prop} {f : Nat → List Nat → Val} {std : Bool} {αf αb : Rat}
  {n : Nat} {zinit : List Nat} {evs : List Ev} {R : List Nat} {fe be : List Ev} {F visit R' : List Nat}

/-- the forward tests: level `αf`, candidate in range, conditioning = initial set (standard variant
only) ++ everything accepted before, observed value = `f`, maximal among the candidates still
undecided (standard: not yet tested; alternative: not yet accepted) -/
theorem OcseParts.fwd_event (h : OcseParts rel std f αf αb n zinit evs R fe be F visit R') :
    ∀ pre e post, fe = pre ++ e :: post →
      e.phase = .fwd ∧ e.level = αf ∧ e.cand < n ∧
      rel e.cond ((if std then zinit else []) ++ acceptedOf pre) ∧ e.obs = f e.cand e.cond ∧
      ∀ c < n, c ∉ (if std then testedOf pre else acceptedOf pre) → leTop (f c e.cond) e.obs = true := by
  intro pre e post heq
  have hf := h.fwd
  cases std with
  | true =>
    simp only [↓reduceIte] at hf ⊢
    obtain ⟨h1, h2, h3, h4, h5, h6⟩ := hf.event pre e post heq
    exact ⟨h1, h2, List.mem_range.mp h3, by simpa using h4, h5,
      fun c hc hn => h6 c (List.mem_range.mpr hc) hn⟩
  | false =>
    simp only [Bool.false_eq_true, ↓reduceIte] at hf ⊢
    obtain ⟨h1, h2, h3, _, h5, h6, h7, _⟩ := hf.event pre e post heq
    exact ⟨h1, h2, h3, h5, h6, by simpa using h7⟩

/-- alternative variant: no forward test after the first rejection -/
theorem OcseParts.alt_stop (h : OcseParts rel false f αf αb n zinit evs R fe be F visit R') :
    ∀ pre e post, fe = pre ++ e :: post → e.pass = false → post = [] := by
  have hf := h.fwd
  simp only [Bool.false_eq_true, ↓reduceIte] at hf
  exact hf.stop

/-- standard variant: exactly one forward test per candidate, hence exactly `n` forward tests -/
theorem OcseParts.std_tests (h : OcseParts rel true f αf αb n zinit evs R fe be F visit R') :
    (testedOf fe).Perm (List.range n) ∧ fe.length = n := by
  have hf := h.fwd
  simp only [↓reduceIte] at hf
  exact ⟨hf.tested_perm, by simpa using hf.length⟩

/-- the backward tests: level `αb`, conditioning = the survivors at that moment minus the tested
predictor, observed value = `f` -/
theorem OcseParts.bwd_event (h : OcseParts rel std f αf αb n zinit evs R fe be F visit R') :
    ∀ pre e post, be = pre ++ e :: post →
      e.phase = .bwd ∧ e.level = αb ∧
      rel e.cond ((survivorsOf F pre).filter (fun k => k != e.cand)) ∧ e.obs = f e.cand e.cond :=
  h.bwd.event

/-- each predictor of the forward set gets exactly one backward test -/
theorem OcseParts.bwd_tested (h : OcseParts rel std f αf αb n zinit evs R fe be F visit R') :
    (testedOf be).Perm F ∧ (testedOf be).Nodup := by
  have hp : (testedOf be).Perm F := by rw [h.bwd.tested]; exact h.perm
  have hfs := C02.fwd_set h.fwd
  refine ⟨hp, hp.nodup_iff.mpr ?_⟩
  rw [hfs.1]; exact hfs.2.1.sublist (acceptedOf_sublist _)

/-- **parents = accepted forward and not failed backward** -/
theorem OcseParts.mem_result_iff (h : OcseParts rel std f αf αb n zinit evs R fe be F visit R')
    (hrel : ∀ a b, rel a b → a.Perm b) (x : Nat) :
    x ∈ R ↔ x ∈ acceptedOf fe ∧ x ∉ failedOf be := by
  rw [(hrel _ _ h.result).mem_iff, h.bwd.result_eq, mem_survivorsOf, (C02.fwd_set h.fwd).1]

/-- the result is a subset of the candidates `0..n-1` -/
theorem OcseParts.subset (h : OcseParts rel std f αf αb n zinit evs R fe be F visit R')
    (hrel : ∀ a b, rel a b → a.Perm b) : ∀ x ∈ R, x ∈ List.range n := by
  intro x hx
  have hfs := C02.fwd_set h.fwd
  exact List.mem_range.mpr (hfs.2.2 x ((acceptedOf_sublist fe).subset ((h.mem_result_iff hrel x).mp hx).1))

/-- the result has no duplicates -/
theorem OcseParts.nodup (h : OcseParts rel std f αf αb n zinit evs R fe be F visit R')
    (hrel : ∀ a b, rel a b → a.Perm b) : R.Nodup := by
  have hfs := C02.fwd_set h.fwd
  rw [(hrel _ _ h.result).nodup_iff, h.bwd.result_eq, survivorsOf, hfs.1]
  exact (hfs.2.1.sublist (acceptedOf_sublist _)).filter _

/-- every reported parent passed exactly one forward test (level `αf`, conditioning = initial ++
accepted before it, value `f`, maximal among the undecided) and exactly one backward test (level
`αb`, conditioning = survivors at that moment minus itself, value `f`) -/
theorem OcseParts.parent_tests (h : OcseParts rel std f αf αb n zinit evs R fe be F visit R')
    (hrel : ∀ a b, rel a b → a.Perm b) {x : Nat} (hx : x ∈ R) :
    (∃ pre e post, fe = pre ++ e :: post ∧ e.cand = x ∧ (∀ e' ∈ pre ++ post, e'.cand ≠ x) ∧
      e.pass = true ∧ e.phase = .fwd ∧ e.level = αf ∧
      rel e.cond ((if std then zinit else []) ++ acceptedOf pre) ∧ e.obs = f x e.cond ∧
      ∀ c < n, c ∉ (if std then testedOf pre else acceptedOf pre) → leTop (f c e.cond) e.obs = true) ∧
    (∃ pre e post, be = pre ++ e :: post ∧ e.cand = x ∧ (∀ e' ∈ pre ++ post, e'.cand ≠ x) ∧
      e.pass = true ∧ e.phase = .bwd ∧ e.level = αb ∧
      rel e.cond ((survivorsOf F pre).filter (fun k => k != x)) ∧ e.obs = f x e.cond) := by
  obtain ⟨hacc, hnf⟩ := (h.mem_result_iff hrel x).mp hx
  have hfs := C02.fwd_set h.fwd
  constructor
  · obtain ⟨e, he, hp, hc⟩ := mem_acceptedOf.mp hacc
    obtain ⟨pre, post, heq, huniq⟩ := C02.split_unique hfs.2.1 he
    obtain ⟨h1, h2, _, h4, h5, h6⟩ := h.fwd_event pre e post heq
    exact ⟨pre, e, post, heq, hc, hc ▸ huniq, hp, h1, h2, h4, hc ▸ h5, h6⟩
  · have hxF : x ∈ testedOf be := h.bwd_tested.1.mem_iff.mpr (hfs.1 ▸ hacc)
    obtain ⟨e, he, hc⟩ := List.mem_map.mp hxF
    obtain ⟨pre, post, heq, huniq⟩ := C02.split_unique h.bwd_tested.2 he
    obtain ⟨h1, h2, h3, h4⟩ := h.bwd_event pre e post heq
    have hp : e.pass = true := by
      cases hp : e.pass with
      | true => rfl
      | false => exact absurd (mem_failedOf.mpr ⟨e, he, hp, hc⟩) hnf
    exact ⟨pre, e, post, heq, hc, hc ▸ huniq, hp, h1, h2, hc ▸ h3, hc ▸ h4⟩

/-- every forward-accepted predictor that is not reported failed its (unique) backward test -/
theorem OcseParts.dropped_failed (h : OcseParts rel std f αf αb n zinit evs R fe be F visit R')
    (hrel : ∀ a b, rel a b → a.Perm b) {x : Nat} (hxF : x ∈ F) (hxR : x ∉ R) :
    ∃ pre e post, be = pre ++ e :: post ∧ e.cand = x ∧ (∀ e' ∈ pre ++ post, e'.cand ≠ x) ∧
      e.pass = false ∧ e.phase = .bwd ∧ e.level = αb ∧
      rel e.cond ((survivorsOf F pre).filter (fun k => k != x)) ∧ e.obs = f x e.cond := by
  have hfs := C02.fwd_set h.fwd
  have hfail : x ∈ failedOf be := by
    by_contra hnf
    exact hxR ((h.mem_result_iff hrel x).mpr ⟨hfs.1 ▸ hxF, hnf⟩)
  obtain ⟨e, he, hp, hc⟩ := mem_failedOf.mp hfail
  obtain ⟨pre, post, heq, huniq⟩ := C02.split_unique h.bwd_tested.2 he
  obtain ⟨h1, h2, h3, h4⟩ := h.bwd_event pre e post heq
  exact ⟨pre, e, post, heq, hc, hc ▸ huniq, hp, h1, h2, hc ▸ h3, hc ▸ h4⟩

end top

/-! ### the edge loop (C01's edge semantics at oracle level) -/

/-- the edge reported for survivor `s` of the selected set `S` of target `i`, when its test starts
after `c` draws: labelled `label L s`, cmi = `f s (S minus s)`, p = p-value of that test at level `αb` -/
def edgeOf (o : Oracles) (αb : Rat) (L i : Nat) (S : List Nat) (c : Nat) (s : Nat) : Edge :=
  { src := (label L s).1, dst := i, lag := (label L s).2,
    cmi := o.f s (S.filter (fun k => k != s)),
    p := (o.test c αb s (S.filter (fun k => k != s)) (o.f s (S.filter (fun k => k != s)))).2 }

/-- the test event of that edge -/
def edgeEvOf (o : Oracles) (αb : Rat) (S : List Nat) (c : Nat) (s : Nat) : Ev :=
  mkEv .edge αb s (S.filter (fun k => k != s)) (o.f s (S.filter (fun k => k != s)))
    (o.test c αb s (S.filter (fun k => k != s)) (o.f s (S.filter (fun k => k != s))))

theorem edgeLoop_fold (o : Oracles) (αb : Rat) (L i : Nat) (S : List Nat) (c : Nat) :
    ∀ (T : List Nat) (k : Nat) (es : List Edge) (evs : List Ev),
      T.foldl (fun (acc : List Edge × List Ev × Nat) s =>
        let (es, evs, c) := acc
        let Z := S.filter (fun k => k != s)
        let v := o.f s Z
        let r := o.test c αb s Z v
        (es ++ [{ src := (label L s).1, dst := i, lag := (label L s).2, cmi := v, p := r.2 }],
         evs ++ [mkEv .edge αb s Z v r], c + o.cost)) (es, evs, c + k * o.cost)
      = (es ++ (T.zipIdx k).map (fun sk => edgeOf o αb L i S (c + sk.2 * o.cost) sk.1),
         evs ++ (T.zipIdx k).map (fun sk => edgeEvOf o αb S (c + sk.2 * o.cost) sk.1),
         c + (k + T.length) * o.cost) := by
  intro T
  induction T with
  | nil => intro k es evs; simp
  | cons s T ih =>
    intro k es evs
    have hc : c + k * o.cost + o.cost = c + (k + 1) * o.cost := by rw [Nat.add_mul]; omega
    simp only [List.foldl_cons, hc, ih (k + 1), List.zipIdx_cons, List.map_cons, List.length_cons]
    simp only [edgeOf, edgeEvOf, List.append_assoc, List.singleton_append, Prod.mk.injEq, true_and]
    congr 2; omega

/-- `edgeLoop` yields exactly one edge per survivor, in order: the `k`-th survivor `s` gives the edge
labelled `label L s` into `i` whose cmi is `f s (S minus s)` and whose p is the p-value of the test at
level `αb` started after `c + k·cost` draws; its events are those tests; `S.length · cost` draws are consumed -/
theorem edgeLoop_spec (o : Oracles) (αb : Rat) (L i : Nat) (S : List Nat) (c : Nat) :
    (edgeLoop o αb L i S c).1 = S.zipIdx.map (fun sk => edgeOf o αb L i S (c + sk.2 * o.cost) sk.1) ∧
    (edgeLoop o αb L i S c).2.1 = S.zipIdx.map (fun sk => edgeEvOf o αb S (c + sk.2 * o.cost) sk.1) ∧
    (edgeLoop o αb L i S c).2.2 = c + S.length * o.cost := by
  have := edgeLoop_fold o αb L i S c S 0 [] []
  simp only [Nat.zero_mul, Nat.add_zero, List.nil_append, Nat.zero_add] at this
  unfold edgeLoop
  rw [this]
  exact ⟨rfl, rfl, rfl⟩

/-- one edge per survivor, in order, carrying its `label` -/
theorem edgeLoop_labels (o : Oracles) (αb : Rat) (L i : Nat) (S : List Nat) (c : Nat) :
    (edgeLoop o αb L i S c).1.map (fun e => ((e.src, e.lag), e.dst)) = S.map (fun s => (label L s, i)) ∧
    (edgeLoop o αb L i S c).1.map (fun e => e.cmi) = S.map (fun s => o.f s (S.filter (fun k => k != s))) := by
  rw [(edgeLoop_spec o αb L i S c).1]
  simp only [List.map_map]
  constructor
  · have : ((fun e : Edge => ((e.src, e.lag), e.dst)) ∘ fun sk : Nat × Nat => edgeOf o αb L i S (c + sk.2 * o.cost) sk.1)
        = (fun s => (label L s, i)) ∘ Prod.fst := by
      funext sk; rfl
    rw [this, ← List.map_map, List.zipIdx_map_fst]
  · have : ((fun e : Edge => e.cmi) ∘ fun sk : Nat × Nat => edgeOf o αb L i S (c + sk.2 * o.cost) sk.1)
        = (fun s => o.f s (S.filter (fun k => k != s))) ∘ Prod.fst := by
      funext sk; rfl
    rw [this, ← List.map_map, List.zipIdx_map_fst]

/-- edges ↔ survivors: every survivor `s` has an edge `label L s → i` with cmi `f s (S minus s)`,
and every edge arises in this way -/
theorem edgeLoop_mem (o : Oracles) (αb : Rat) (L i : Nat) (S : List Nat) (c : Nat) :
    (∀ s ∈ S, ∃ e ∈ (edgeLoop o αb L i S c).1, (e.src, e.lag) = label L s ∧ e.dst = i ∧
      e.cmi = o.f s (S.filter (fun k => k != s))) ∧
    (∀ e ∈ (edgeLoop o αb L i S c).1, ∃ s ∈ S, (e.src, e.lag) = label L s ∧ e.dst = i ∧
      e.cmi = o.f s (S.filter (fun k => k != s))) := by
  rw [(edgeLoop_spec o αb L i S c).1]
  constructor
  · intro s hs
    obtain ⟨k, hk⟩ : ∃ k, (s, k) ∈ S.zipIdx := by
      obtain ⟨k, hk, rfl⟩ := List.getElem_of_mem hs
      exact ⟨k, by simp [List.mem_zipIdx_iff_getElem?, hk]⟩
    exact ⟨_, List.mem_map.mpr ⟨(s, k), hk, rfl⟩, rfl, rfl, rfl⟩
  · intro e he
    obtain ⟨sk, hsk, rfl⟩ := List.mem_map.mp he
    refine ⟨sk.1, ?_, rfl, rfl, rfl⟩
    have : sk.1 ∈ S.zipIdx.map Prod.fst := List.mem_map.mpr ⟨sk, hsk, rfl⟩
    rwa [List.zipIdx_map_fst] at this

/-! ### the two oCSE drivers -/

/-- the forward set of the standard variant is duplicate-free -/
theorem fwdStdRun_nodup (o : Oracles) (αf : Rat) (n : Nat) (zinit : List Nat) (c : Nat) :
    (fwdStdRun o αf n zinit c).S.Nodup := by
  have hfs := C02.fwd_set (std := true) (by simpa using (fwdStdRun_refines o αf n zinit c).1)
  rw [hfs.1]; exact hfs.2.1.sublist (acceptedOf_sublist _)

/-- the forward set of the alternative variant is duplicate-free -/
theorem fwdAltRun_nodup (o : Oracles) (αf : Rat) (n : Nat) (c : Nat) :
    (fwdAltRun o αf n c).S.Nodup := by
  have hfs := C02.fwd_set (std := false) (zinit := []) (by simpa using (fwdAltRun_refines o αf n c).1)
  rw [hfs.1]; exact hfs.2.1.sublist (acceptedOf_sublist _)

/-- `standard_optimal_causation_entropy` satisfies the oCSE rule for every landscape, all verdicts
and every backward order that is a permutation of the forward set; the verdicts are the oracle's
answers at counters `c, c+cost, …` (forward), one draw for the order, then `c₁+1, c₁+1+cost, …` -/
theorem ocseStd_refines (o : Oracles) (αf αb : Rat) (n : Nat) (zinit : List Nat) (c : Nat)
    (hperm : (o.order (fwdStdRun o αf n zinit c).c (fwdStdRun o αf n zinit c).S).Perm
      (fwdStdRun o αf n zinit c).S) :
    ∃ be,
      OcseParts Eq true o.f αf αb n zinit (ocseStd o αf αb n zinit c).evs (ocseStd o αf αb n zinit c).S
        (fwdStdRun o αf n zinit c).evs be (fwdStdRun o αf n zinit c).S
        (o.order (fwdStdRun o αf n zinit c).c (fwdStdRun o αf n zinit c).S)
        (ocseStd o αf αb n zinit c).S ∧
      Consulted o c (fwdStdRun o αf n zinit c).evs (fwdStdRun o αf n zinit c).c ∧
      Consulted o ((fwdStdRun o αf n zinit c).c + 1) be (ocseStd o αf αb n zinit c).c := by
  obtain ⟨hf, hc⟩ := fwdStdRun_refines o αf n zinit c
  have hnd := fwdStdRun_nodup o αf n zinit c
  obtain ⟨be, h1, h2, h3⟩ := backward_refines o αb (fwdStdRun o αf n zinit c) hnd hperm
  exact ⟨be, ⟨h1, by simpa using hf, hperm, h2, rfl⟩, hc, h3⟩

/-- the same for `alternative_optimal_causation_entropy` -/
theorem ocseAlt_refines (o : Oracles) (αf αb : Rat) (n : Nat) (c : Nat)
    (hperm : (o.order (fwdAltRun o αf n c).c (fwdAltRun o αf n c).S).Perm (fwdAltRun o αf n c).S) :
    ∃ be,
      OcseParts Eq false o.f αf αb n [] (ocseAlt o αf αb n c).evs (ocseAlt o αf αb n c).S
        (fwdAltRun o αf n c).evs be (fwdAltRun o αf n c).S
        (o.order (fwdAltRun o αf n c).c (fwdAltRun o αf n c).S)
        (ocseAlt o αf αb n c).S ∧
      Consulted o c (fwdAltRun o αf n c).evs (fwdAltRun o αf n c).c ∧
      Consulted o ((fwdAltRun o αf n c).c + 1) be (ocseAlt o αf αb n c).c := by
  obtain ⟨hf, hc⟩ := fwdAltRun_refines o αf n c
  have hnd := fwdAltRun_nodup o αf n c
  obtain ⟨be, h1, h2, h3⟩ := backward_refines o αb (fwdAltRun o αf n c) hnd hperm
  exact ⟨be, ⟨h1, by simpa using hf, hperm, h2, rfl⟩, hc, h3⟩


/-! ## 4. The decidable checker `specOK` -/

section checker
variable {rel : List Nat → List Nat → Prop} {f : Nat → List Nat → Val}

theorem chkBwd_complete (hrel : ∀ a b, rel a b → a.Perm b) {α : Rat} {visit S evs R'}
    (h : BwdSpec rel f α visit S evs R') :
    ∀ (V result : List Nat), visit.Perm V → result.Perm R' → chkBwd f α V S evs result = true := by
  induction h with
  | done S =>
    intro V result hV hR
    have : V = [] := hV.symm.eq_nil
    subst this
    simp [chkBwd, List.isPerm_iff, hR]
  | @keep j visit S e evs R hok hp _ ih =>
    intro V result hV hR
    obtain ⟨hjV, hV'⟩ := List.cons_perm_iff_perm_erase.mp hV
    have h1 : e.cond.isPerm (S.filter (fun k => k != e.cand)) = true := by
      rw [List.isPerm_iff, hok.cand]; exact hrel _ _ hok.cond
    have h2 : e.obs = f e.cand e.cond := by rw [hok.cand]; exact hok.obs
    have h3 : V.contains e.cand = true := by rw [hok.cand]; simpa using hjV
    have h4 := ih (V.erase e.cand) result (by rw [hok.cand]; exact hV') hR
    simp only [chkBwd, hok.phase, hok.level, h1, h3, hp, ↓reduceIte, h4, decide_true, ← h2, Bool.and_self]
  | @drop j visit S e evs R hok hp _ ih =>
    intro V result hV hR
    obtain ⟨hjV, hV'⟩ := List.cons_perm_iff_perm_erase.mp hV
    have h1 : e.cond.isPerm (S.filter (fun k => k != e.cand)) = true := by
      rw [List.isPerm_iff, hok.cand]; exact hrel _ _ hok.cond
    have h2 : e.obs = f e.cand e.cond := by rw [hok.cand]; exact hok.obs
    have h3 : V.contains e.cand = true := by rw [hok.cand]; simpa using hjV
    have h4 := ih (V.erase e.cand) result (by rw [hok.cand]; exact hV') hR
    rw [← hok.cand] at h4
    simp only [chkBwd, hok.phase, hok.level, h1, h3, hp, Bool.false_eq_true, ↓reduceIte, h4, decide_true,
      ← h2, Bool.and_self]

theorem BwdSpec.head_phase {α : Rat} {visit S e es R'} (h : BwdSpec rel f α visit S (e :: es) R') :
    e.phase = .bwd := by
  cases h with
  | keep hok _ _ => exact hok.phase
  | drop hok _ _ => exact hok.phase

/-- handing over to the backward checker when the forward phase is over -/
theorem chkFwd_handover (alt : Bool) (αf αb : Rat) (z0 S be result)
    (hph : ∀ e es, be = e :: es → e.phase = .bwd)
    (hb : chkBwd f αb S S be result = true) :
    chkFwd alt f αf αb z0 [] S be result = true := by
  cases be with
  | nil => simpa [chkFwd] using hb
  | cons e es =>
    have : e.phase ≠ .fwd := by rw [hph e es rfl]; decide
    simp only [chkFwd, this, ↓reduceIte, List.isEmpty_nil, Bool.true_and]
    exact hb

theorem FwdTestOK.checks (hrel : ∀ a b, rel a b → a.Perm b) {α : Rat} {U Z : List Nat} {e : Ev}
    (hok : FwdTestOK rel f α U Z e) :
    (decide (e.level = α) && U.contains e.cand && e.cond.isPerm Z &&
      decide (e.obs = f e.cand e.cond) && U.all (fun c => leTop (f c e.cond) e.obs)) = true := by
  have h1 : e.cond.isPerm Z = true := List.isPerm_iff.mpr (hrel _ _ hok.cond)
  have h2 : U.contains e.cand = true := by simpa using hok.mem
  have h3 : U.all (fun c => leTop (f c e.cond) e.obs) = true := by
    rw [List.all_eq_true]; exact hok.max
  simp only [hok.level, h1, h2, h3, decide_true, ← hok.obs, Bool.and_self]

theorem chkFwd_complete_std (hrel : ∀ a b, rel a b → a.Perm b) {αf αb : Rat} {z0 U S fe F}
    (h : FwdStdSpec rel f αf z0 U S fe F) :
    ∀ (be : List Ev) (visit R' result : List Nat), BwdSpec rel f αb visit F be R' → visit.Perm F →
      result.Perm R' → chkFwd false f αf αb z0 U S (fe ++ be) result = true := by
  induction h with
  | done S =>
    intro be visit R' result hb hV hR
    exact chkFwd_handover false αf αb z0 S be result (fun e es h => (h ▸ hb).head_phase)
      (chkBwd_complete hrel hb S result hV hR)
  | @accept U S e evs R hok hp _ ih =>
    intro be visit R' result hb hV hR
    have := hok.checks hrel
    simp only [List.cons_append, chkFwd, hok.phase, ↓reduceIte, this, hp, Bool.true_and]
    exact ih be visit R' result hb hV hR
  | @reject U S e evs R hok hp _ ih =>
    intro be visit R' result hb hV hR
    have := hok.checks hrel
    simp only [List.cons_append, chkFwd, hok.phase, ↓reduceIte, this, hp, Bool.true_and, Bool.false_eq_true]
    exact ih be visit R' result hb hV hR

theorem chkFwd_complete_alt (hrel : ∀ a b, rel a b → a.Perm b) {αf αb : Rat} {n : Nat} {S fe F}
    (h : FwdAltSpec rel f αf n S fe F) :
    ∀ (be : List Ev) (visit R' result : List Nat), BwdSpec rel f αb visit F be R' → visit.Perm F →
      result.Perm R' → chkFwd true f αf αb [] (altUndecided n S) S (fe ++ be) result = true := by
  induction h with
  | @done S hemp =>
    intro be visit R' result hb hV hR
    rw [hemp]
    exact chkFwd_handover true αf αb [] S be result (fun e es h => (h ▸ hb).head_phase)
      (chkBwd_complete hrel hb S result hV hR)
  | @accept S e evs R hok hp _ ih =>
    intro be visit R' result hb hV hR
    have := hok.checks hrel
    simp only [List.cons_append, chkFwd, hok.phase, ↓reduceIte, List.nil_append, this, hp, Bool.true_and]
    rw [← altUndecided_snoc]
    exact ih be visit R' result hb hV hR
  | @reject S e hok hp =>
    intro be visit R' result hb hV hR
    have := hok.checks hrel
    simp only [List.cons_append, chkFwd, hok.phase, ↓reduceIte, List.nil_append, this, hp, Bool.true_and,
      Bool.false_eq_true]
    exact chkBwd_complete hrel hb S result hV hR

/-- **completeness of the checker**: every run of the declarative rule (conditioning lists compared
exactly or as sets) is accepted -/
theorem specOK_complete (hrel : ∀ a b, rel a b → a.Perm b) {std : Bool} {αf αb : Rat} {n : Nat}
    {zinit : List Nat} {evs : List Ev} {R : List Nat}
    (h : OcseSpec rel std f αf αb n zinit evs R) :
    specOK std f αf αb n zinit evs R = true := by
  obtain ⟨fe, be, F, visit, R', hp⟩ := h
  have hf := hp.fwd
  unfold specOK
  rw [hp.split]
  cases std with
  | true =>
    simp only [↓reduceIte] at hf ⊢
    exact chkFwd_complete_std hrel hf be visit R' R hp.bwd hp.perm (hrel _ _ hp.result)
  | false =>
    simp only [Bool.false_eq_true, ↓reduceIte] at hf ⊢
    have := chkFwd_complete_alt hrel hf be visit R' R hp.bwd hp.perm (hrel _ _ hp.result)
    simpa [altUndecided] using this

/-! ### soundness of the checker -/

theorem chkBwd_sound {α : Rat} : ∀ (evs : List Ev) (V S result : List Nat),
    chkBwd f α V S evs result = true →
    ∃ R', BwdSpec List.Perm f α (testedOf evs) S evs R' ∧ (testedOf evs).Perm V ∧ result.Perm R' := by
  intro evs
  induction evs with
  | nil =>
    intro V S result h
    simp only [chkBwd, Bool.and_eq_true, List.isEmpty_iff, List.isPerm_iff] at h
    exact ⟨S, BwdSpec.done S, by rw [h.1]; exact List.Perm.refl _, h.2⟩
  | cons e es ih =>
    intro V S result h
    simp only [chkBwd, Bool.and_eq_true, decide_eq_true_eq, List.isPerm_iff] at h
    obtain ⟨⟨⟨⟨⟨hph, hlv⟩, hV⟩, hcond⟩, hobs⟩, hrest⟩ := h
    have hV' : e.cand ∈ V := by simpa using hV
    obtain ⟨R', h1, h2, h3⟩ := ih _ _ _ hrest
    have hok : BwdTestOK List.Perm f α S e.cand e := ⟨hph, hlv, rfl, hcond, hobs⟩
    have hperm : (testedOf (e :: es)).Perm V :=
      ((List.perm_cons_erase hV').trans (List.Perm.cons _ h2.symm)).symm
    cases hp : e.pass with
    | true =>
      simp only [hp, ↓reduceIte] at h1
      exact ⟨R', BwdSpec.keep hok hp h1, hperm, h3⟩
    | false =>
      simp only [hp, Bool.false_eq_true, ↓reduceIte] at h1
      exact ⟨R', BwdSpec.drop hok hp h1, hperm, h3⟩

theorem FwdTestOK.of_checks {α : Rat} {U Z : List Nat} {e : Ev} (hph : e.phase = .fwd)
    (h : (decide (e.level = α) && U.contains e.cand && e.cond.isPerm Z &&
      decide (e.obs = f e.cand e.cond) && U.all (fun c => leTop (f c e.cond) e.obs)) = true) :
    FwdTestOK List.Perm f α U Z e := by
  simp only [Bool.and_eq_true, decide_eq_true_eq, List.isPerm_iff, List.all_eq_true] at h
  obtain ⟨⟨⟨⟨h1, h2⟩, h3⟩, h4⟩, h5⟩ := h
  exact ⟨hph, h1, by simpa using h2, h3, h4, h5⟩

theorem chkFwd_sound_std {αf αb : Rat} {z0 : List Nat} : ∀ (evs : List Ev) (U S result : List Nat),
    chkFwd false f αf αb z0 U S evs result = true →
    ∃ fe be F R', evs = fe ++ be ∧ FwdStdSpec List.Perm f αf z0 U S fe F ∧
      BwdSpec List.Perm f αb (testedOf be) F be R' ∧ (testedOf be).Perm F ∧ result.Perm R' := by
  intro evs
  induction evs with
  | nil =>
    intro U S result h
    simp only [chkFwd, Bool.and_eq_true, List.isEmpty_iff] at h
    obtain ⟨R', h1, h2, h3⟩ := chkBwd_sound _ _ _ _ h.2
    exact ⟨[], [], S, R', rfl, h.1 ▸ FwdStdSpec.done S, h1, h2, h3⟩
  | cons e es ih =>
    intro U S result h
    by_cases hph : e.phase = .fwd
    · simp only [chkFwd, hph, ↓reduceIte, Bool.false_eq_true] at h
      rw [Bool.and_eq_true] at h
      have hok := FwdTestOK.of_checks hph h.1
      cases hp : e.pass with
      | true =>
        simp only [hp, ↓reduceIte] at h
        obtain ⟨fe, be, F, R', h0, h1, h2, h3, h4⟩ := ih _ _ _ h.2
        exact ⟨e :: fe, be, F, R', by rw [h0]; rfl, FwdStdSpec.accept hok hp h1, h2, h3, h4⟩
      | false =>
        simp only [hp, Bool.false_eq_true, ↓reduceIte] at h
        obtain ⟨fe, be, F, R', h0, h1, h2, h3, h4⟩ := ih _ _ _ h.2
        exact ⟨e :: fe, be, F, R', by rw [h0]; rfl, FwdStdSpec.reject hok hp h1, h2, h3, h4⟩
    · simp only [chkFwd, hph, ↓reduceIte, Bool.and_eq_true, List.isEmpty_iff] at h
      obtain ⟨R', h1, h2, h3⟩ := chkBwd_sound _ _ _ _ h.2
      exact ⟨[], e :: es, S, R', rfl, h.1 ▸ FwdStdSpec.done S, h1, h2, h3⟩

theorem chkFwd_sound_alt {αf αb : Rat} {n : Nat} : ∀ (evs : List Ev) (S result : List Nat),
    chkFwd true f αf αb [] (altUndecided n S) S evs result = true →
    ∃ fe be F R', evs = fe ++ be ∧ FwdAltSpec List.Perm f αf n S fe F ∧
      BwdSpec List.Perm f αb (testedOf be) F be R' ∧ (testedOf be).Perm F ∧ result.Perm R' := by
  intro evs
  induction evs with
  | nil =>
    intro S result h
    simp only [chkFwd, Bool.and_eq_true, List.isEmpty_iff] at h
    obtain ⟨R', h1, h2, h3⟩ := chkBwd_sound _ _ _ _ h.2
    exact ⟨[], [], S, R', rfl, FwdAltSpec.done h.1, h1, h2, h3⟩
  | cons e es ih =>
    intro S result h
    by_cases hph : e.phase = .fwd
    · simp only [chkFwd, hph, ↓reduceIte, List.nil_append] at h
      rw [Bool.and_eq_true] at h
      have hok := FwdTestOK.of_checks hph h.1
      cases hp : e.pass with
      | true =>
        simp only [hp, ↓reduceIte] at h
        rw [← altUndecided_snoc] at h
        obtain ⟨fe, be, F, R', h0, h1, h2, h3, h4⟩ := ih _ _ h.2
        exact ⟨e :: fe, be, F, R', by rw [h0]; rfl, FwdAltSpec.accept hok hp h1, h2, h3, h4⟩
      | false =>
        simp only [hp, Bool.false_eq_true, ↓reduceIte] at h
        obtain ⟨R', h1, h2, h3⟩ := chkBwd_sound _ _ _ _ h.2
        exact ⟨[e], es, S, R', rfl, FwdAltSpec.reject hok hp, h1, h2, h3⟩
    · simp only [chkFwd, hph, ↓reduceIte, Bool.and_eq_true, List.isEmpty_iff] at h
      obtain ⟨R', h1, h2, h3⟩ := chkBwd_sound _ _ _ _ h.2
      exact ⟨[], e :: es, S, R', rfl, FwdAltSpec.done h.1, h1, h2, h3⟩

/-- **soundness of the checker**: an accepted trace is a run of the declarative oCSE rule in which
conditioning lists (and the reported parent list) are read as sets with multiplicity; hence all the
consequences `OcseParts.*` (with `rel := List.Perm`) hold for it -/
theorem specOK_sound {std : Bool} {αf αb : Rat} {n : Nat} {zinit : List Nat} {evs : List Ev}
    {R : List Nat} (h : specOK std f αf αb n zinit evs R = true) :
    OcseSpec List.Perm std f αf αb n zinit evs R := by
  unfold specOK at h
  cases std with
  | true =>
    simp only [Bool.not_true, ↓reduceIte] at h
    obtain ⟨fe, be, F, R', h0, h1, h2, h3, h4⟩ := chkFwd_sound_std _ _ _ _ h
    exact ⟨fe, be, F, testedOf be, R', ⟨h0, by simpa using h1, h3, h2, h4⟩⟩
  | false =>
    simp only [Bool.not_false, Bool.false_eq_true, ↓reduceIte] at h
    have h' : chkFwd true f αf αb [] (altUndecided n []) [] evs R = true := by
      simpa [altUndecided] using h
    obtain ⟨fe, be, F, R', h0, h1, h2, h3, h4⟩ := chkFwd_sound_alt _ _ _ h'
    exact ⟨fe, be, F, testedOf be, R', ⟨h0, by simpa using h1, h3, h2, h4⟩⟩

/-- `specOK` decides the lenient rule -/
theorem specOK_iff {std : Bool} {αf αb : Rat} {n : Nat} {zinit : List Nat} {evs : List Ev}
    {R : List Nat} :
    specOK std f αf αb n zinit evs R = true ↔ OcseSpec List.Perm std f αf αb n zinit evs R :=
  ⟨specOK_sound, specOK_complete (fun _ _ h => h)⟩

/-! ### the model's traces are accepted, for all oracles -/

/-- every trace of `ocseStd` is accepted by `specOK`: any landscape, any verdicts, any number of
candidates, any initial conditioning, any backward order that is a permutation of the forward set -/
theorem specOK_of_model_std (o : Oracles) (αf αb : Rat) (n : Nat) (zinit : List Nat) (c : Nat)
    (hperm : (o.order (fwdStdRun o αf n zinit c).c (fwdStdRun o αf n zinit c).S).Perm
      (fwdStdRun o αf n zinit c).S) :
    specOK true o.f αf αb n zinit (ocseStd o αf αb n zinit c).evs (ocseStd o αf αb n zinit c).S = true := by
  obtain ⟨be, hp, _, _⟩ := ocseStd_refines o αf αb n zinit c hperm
  exact specOK_complete C02.eq_perm ⟨_, _, _, _, _, hp⟩

/-- every trace of `ocseAlt` is accepted by `specOK` (whatever `zinit` is passed: it is ignored) -/
theorem specOK_of_model_alt (o : Oracles) (αf αb : Rat) (n : Nat) (zinit : List Nat) (c : Nat)
    (hperm : (o.order (fwdAltRun o αf n c).c (fwdAltRun o αf n c).S).Perm (fwdAltRun o αf n c).S) :
    specOK false o.f αf αb n zinit (ocseAlt o αf αb n c).evs (ocseAlt o αf αb n c).S = true := by
  obtain ⟨be, hp, _, _⟩ := ocseAlt_refines o αf αb n c hperm
  have hp' : OcseParts Eq false o.f αf αb n zinit (ocseAlt o αf αb n c).evs (ocseAlt o αf αb n c).S
      _ _ _ _ _ := ⟨hp.split, hp.fwd, hp.perm, hp.bwd, hp.result⟩
  exact specOK_complete C02.eq_perm ⟨_, _, _, _, _, hp'⟩

/-- both variants, for oracles whose backward order always permutes a duplicate-free argument -/
theorem specOK_of_model (o : Oracles) (hperm : ∀ c S, S.Nodup → (o.order c S).Perm S)
    (αf αb : Rat) (n : Nat) (zinit : List Nat) (c : Nat) :
    specOK true o.f αf αb n zinit (ocseStd o αf αb n zinit c).evs (ocseStd o αf αb n zinit c).S = true ∧
    specOK false o.f αf αb n zinit (ocseAlt o αf αb n c).evs (ocseAlt o αf αb n c).S = true :=
  ⟨specOK_of_model_std o αf αb n zinit c (hperm _ _ (fwdStdRun_nodup o αf n zinit c)),
   specOK_of_model_alt o αf αb n zinit c (hperm _ _ (fwdAltRun_nodup o αf n c))⟩

end checker

/-! ## Summary at model level -/

/-- `ocseStd` is a run of the oCSE rule (ordered conditioning lists) -/
theorem ocseStd_spec (o : Oracles) (αf αb : Rat) (n : Nat) (zinit : List Nat) (c : Nat)
    (hperm : (o.order (fwdStdRun o αf n zinit c).c (fwdStdRun o αf n zinit c).S).Perm
      (fwdStdRun o αf n zinit c).S) :
    OcseSpec Eq true o.f αf αb n zinit (ocseStd o αf αb n zinit c).evs (ocseStd o αf αb n zinit c).S := by
  obtain ⟨be, hp, _, _⟩ := ocseStd_refines o αf αb n zinit c hperm
  exact ⟨_, _, _, _, _, hp⟩

/-- `ocseAlt` is a run of the oCSE rule (ordered conditioning lists) -/
theorem ocseAlt_spec (o : Oracles) (αf αb : Rat) (n : Nat) (c : Nat)
    (hperm : (o.order (fwdAltRun o αf n c).c (fwdAltRun o αf n c).S).Perm (fwdAltRun o αf n c).S) :
    OcseSpec Eq false o.f αf αb n [] (ocseAlt o αf αb n c).evs (ocseAlt o αf αb n c).S := by
  obtain ⟨be, hp, _, _⟩ := ocseAlt_refines o αf αb n c hperm
  exact ⟨_, _, _, _, _, hp⟩

/-- **model-level statement of the rule for `ocseStd`**: the reported parents are duplicate-free,
inside `0..n-1`, and are exactly the candidates whose (unique) forward test passed and whose
(unique) backward test did not fail -/
theorem ocseStd_result (o : Oracles) (αf αb : Rat) (n : Nat) (zinit : List Nat) (c : Nat)
    (hperm : (o.order (fwdStdRun o αf n zinit c).c (fwdStdRun o αf n zinit c).S).Perm
      (fwdStdRun o αf n zinit c).S) :
    ∃ be, (ocseStd o αf αb n zinit c).evs = (fwdStdRun o αf n zinit c).evs ++ be ∧
      (ocseStd o αf αb n zinit c).S.Nodup ∧ (∀ x ∈ (ocseStd o αf αb n zinit c).S, x < n) ∧
      (fwdStdRun o αf n zinit c).S = acceptedOf (fwdStdRun o αf n zinit c).evs ∧
      (ocseStd o αf αb n zinit c).S = survivorsOf (fwdStdRun o αf n zinit c).S be ∧
      ∀ x, x ∈ (ocseStd o αf αb n zinit c).S ↔
        x ∈ acceptedOf (fwdStdRun o αf n zinit c).evs ∧ x ∉ failedOf be := by
  obtain ⟨be, hp, _, _⟩ := ocseStd_refines o αf αb n zinit c hperm
  exact ⟨be, hp.split, hp.nodup C02.eq_perm, fun x hx => List.mem_range.mp (hp.subset C02.eq_perm x hx),
    (C02.fwd_set hp.fwd).1, hp.bwd.result_eq, hp.mem_result_iff C02.eq_perm⟩

/-- the same for `ocseAlt` -/
theorem ocseAlt_result (o : Oracles) (αf αb : Rat) (n : Nat) (c : Nat)
    (hperm : (o.order (fwdAltRun o αf n c).c (fwdAltRun o αf n c).S).Perm (fwdAltRun o αf n c).S) :
    ∃ be, (ocseAlt o αf αb n c).evs = (fwdAltRun o αf n c).evs ++ be ∧
      (ocseAlt o αf αb n c).S.Nodup ∧ (∀ x ∈ (ocseAlt o αf αb n c).S, x < n) ∧
      (fwdAltRun o αf n c).S = acceptedOf (fwdAltRun o αf n c).evs ∧
      (ocseAlt o αf αb n c).S = survivorsOf (fwdAltRun o αf n c).S be ∧
      ∀ x, x ∈ (ocseAlt o αf αb n c).S ↔
        x ∈ acceptedOf (fwdAltRun o αf n c).evs ∧ x ∉ failedOf be := by
  obtain ⟨be, hp, _, _⟩ := ocseAlt_refines o αf αb n c hperm
  exact ⟨be, hp.split, hp.nodup C02.eq_perm, fun x hx => List.mem_range.mp (hp.subset C02.eq_perm x hx),
    (C02.fwd_set hp.fwd).1, hp.bwd.result_eq, hp.mem_result_iff C02.eq_perm⟩

/-- consequence for any run of the rule: parents ⊆ candidates, no duplicates -/
theorem OcseSpec.subset_nodup {rel : List Nat → List Nat → Prop} (hrel : ∀ a b, rel a b → a.Perm b)
    {std : Bool} {f : Nat → List Nat → Val} {αf αb : Rat} {n : Nat} {zinit : List Nat} {evs : List Ev}
    {R : List Nat} (h : OcseSpec rel std f αf αb n zinit evs R) :
    (∀ x ∈ R, x ∈ List.range n) ∧ R.Nodup := by
  obtain ⟨fe, be, F, visit, R', hp⟩ := h
  exact ⟨hp.subset hrel, hp.nodup hrel⟩

/-- the draw counter after `ocseStd`: `cost` per test plus one draw for the backward order -/
theorem ocseStd_draws (o : Oracles) (αf αb : Rat) (n : Nat) (zinit : List Nat) (c : Nat)
    (hperm : (o.order (fwdStdRun o αf n zinit c).c (fwdStdRun o αf n zinit c).S).Perm
      (fwdStdRun o αf n zinit c).S) :
    (ocseStd o αf αb n zinit c).c = c + (ocseStd o αf αb n zinit c).evs.length * o.cost + 1 ∧
    (fwdStdRun o αf n zinit c).evs.length = n := by
  obtain ⟨be, hp, h1, h2⟩ := ocseStd_refines o αf αb n zinit c hperm
  have := h1.counter
  have := h2.counter
  refine ⟨?_, hp.std_tests.2⟩
  rw [hp.split, List.length_append, Nat.add_mul]
  omega

/-- the draw counter after `ocseAlt` -/
theorem ocseAlt_draws (o : Oracles) (αf αb : Rat) (n : Nat) (c : Nat)
    (hperm : (o.order (fwdAltRun o αf n c).c (fwdAltRun o αf n c).S).Perm (fwdAltRun o αf n c).S) :
    (ocseAlt o αf αb n c).c = c + (ocseAlt o αf αb n c).evs.length * o.cost + 1 := by
  obtain ⟨be, hp, h1, h2⟩ := ocseAlt_refines o αf αb n c hperm
  have := h1.counter
  have := h2.counter
  rw [hp.split, List.length_append, Nat.add_mul]
  omega

/-! ### NaN branch (DESIGN §5.3): a NaN candidate wins `argmax`; the real test rejects it -/

/-- if some undecided candidate has a NaN value, the tested candidate's observed value is NaN -/
theorem FwdTestOK.nan_first {rel : List Nat → List Nat → Prop} {f : Nat → List Nat → Val} {α : Rat}
    {U Z : List Nat} {e : Ev} (hok : FwdTestOK rel f α U Z e) {c : Nat} (hc : c ∈ U)
    (hnan : (f c e.cond).isNan = true) : e.obs.isNan = true :=
  isNan_of_leTop_nan hnan (hok.max c hc)

/-- the significance test of the model rejects a NaN observed value, whatever the null values -/
theorem decideTest_nan_rejected (null : List Val) (α : Rat) : (decideTest null .nan α).pass = false := by
  simp only [decideTest, Val.gt]
  split <;> rfl

/-- with the model's own significance test (`oraclesOf`: abstract estimator + recorded permutations):
a NaN candidate among the undecided ones makes the tested value NaN, and that test is rejected -/
theorem nan_candidate_is_tested_first_and_rejected (est : Est) (perms : Nat → List Nat) (s : Mat)
    (L T nSh i : Nat) {rel : List Nat → List Nat → Prop} {α : Rat} {U Z : List Nat} {e : Ev}
    (hok : FwdTestOK rel (oraclesOf est perms s L T nSh i).f α U Z e) {c : Nat} (hc : c ∈ U)
    (hnan : ((oraclesOf est perms s L T nSh i).f c e.cond).isNan = true) (k : Nat)
    (hv : (e.pass, e.p) = (oraclesOf est perms s L T nSh i).test k e.level e.cand e.cond e.obs) :
    e.obs.isNan = true ∧ e.pass = false := by
  have hobs := hok.nan_first hc hnan
  refine ⟨hobs, ?_⟩
  have hobs' : e.obs = .nan := by
    cases h : e.obs <;> simp_all [Val.isNan]
  have := congrArg Prod.fst hv
  simp only [oraclesOf, shuffleTest, hobs', decideTest_nan_rejected] at this
  exact this

/-- on a NaN-free landscape the tested candidate is IEEE-`≥` every undecided candidate -/
theorem FwdTestOK.ge_of_not_nan {rel : List Nat → List Nat → Prop} {f : Nat → List Nat → Val} {α : Rat}
    {U Z : List Nat} {e : Ev} (hok : FwdTestOK rel f α U Z e)
    (hfree : ∀ c ∈ U, (f c e.cond).isNan = false) : ∀ c ∈ U, Val.le (f c e.cond) e.obs = true := by
  intro c hc
  have hobs : e.obs.isNan = false := by rw [hok.obs]; exact hfree _ hok.mem
  rw [← leTop_eq_le (hfree c hc) hobs]
  exact hok.max c hc

/-! ## 5. Non-vacuity: a concrete 3-candidate run -/

/-- landscape with a NaN entry, verdicts depending on level and candidate, reversed backward order,
two draws per test -/
def C02.exO : Oracles where
  f c Z := if c = 1 ∧ Z.length = 2 then .nan else .fin (((c * 7 + Z.length * 3 + Z.sum) % 5 : Nat) : Rat)
  test _ α c _ v := (if α = 1/20 then (c != 1 && Val.le (.fin 0) v) else c != 0, 1 / 4)
  order _ S := S.reverse
  cost := 2

/-- standard: 2 accepted, 1 (NaN, maximal) rejected, 0 accepted; backward visits 0 then 2: 0 dropped -/
example : (ocseStd C02.exO (1/20) (1/10) 3 [7] 0).S = [2] ∧
    (ocseStd C02.exO (1/20) (1/10) 3 [7] 0).evs.map (fun e => (e.phase, e.level, e.cand, e.cond, e.pass)) =
      [(.fwd, 1/20, 2, [7], true), (.fwd, 1/20, 1, [7, 2], false), (.fwd, 1/20, 0, [7, 2], true),
       (.bwd, 1/10, 0, [2], false), (.bwd, 1/10, 2, [], true)] ∧
    (ocseStd C02.exO (1/20) (1/10) 3 [7] 0).c = 11 := by decide +kernel

/-- alternative: 2 accepted, then 1 rejected and the phase stops (0 is never tested) -/
example : (ocseAlt C02.exO (1/20) (1/10) 3 0).S = [2] ∧
    (ocseAlt C02.exO (1/20) (1/10) 3 0).evs.map (fun e => (e.phase, e.level, e.cand, e.cond, e.pass)) =
      [(.fwd, 1/20, 2, [], true), (.fwd, 1/20, 1, [2], false), (.bwd, 1/10, 2, [], true)] := by
  decide +kernel

/-- the permutation hypothesis of the refinement theorems holds for `C02.exO` -/
example : ∀ c S, S.Nodup → (C02.exO.order c S).Perm S := fun _ S _ => List.reverse_perm S

/-- the checker accepts these traces … -/
example : specOK true C02.exO.f (1/20) (1/10) 3 [7] (ocseStd C02.exO (1/20) (1/10) 3 [7] 0).evs [2] = true ∧
    specOK false C02.exO.f (1/20) (1/10) 3 [] (ocseAlt C02.exO (1/20) (1/10) 3 0).evs [2] = true := by
  decide +kernel

/-- … also with the conditioning ids listed in another order (`C02.exO.f` is symmetric in them) … -/
example : specOK true C02.exO.f (1/20) (1/10) 3 [7]
    ((ocseStd C02.exO (1/20) (1/10) 3 [7] 0).evs.map (fun e => { e with cond := e.cond.reverse })) [2] = true := by
  decide +kernel

/-- … and rejects a wrong parent list, a dropped test, and swapped significance levels -/
example : specOK true C02.exO.f (1/20) (1/10) 3 [7] (ocseStd C02.exO (1/20) (1/10) 3 [7] 0).evs [2, 0] = false ∧
    specOK true C02.exO.f (1/20) (1/10) 3 [7] ((ocseStd C02.exO (1/20) (1/10) 3 [7] 0).evs.eraseIdx 1) [2] = false ∧
    specOK true C02.exO.f (1/10) (1/20) 3 [7] (ocseStd C02.exO (1/20) (1/10) 3 [7] 0).evs [2] = false := by
  decide +kernel

/-- edge loop on two survivors: one edge each, in order, labelled with (variable, lag) -/
example : (edgeLoop C02.exO (1/10) 2 0 [0, 3] 5).1.map (fun e => (e.src, e.dst, e.lag, e.cmi)) =
    [(0, 0, 1, .fin 1), (1, 0, 2, .fin 4)] ∧ (edgeLoop C02.exO (1/10) 2 0 [0, 3] 5).2.2 = 9 := by
  decide +kernel

end CE.Disc
