import CEModel.Kde
import Mathlib.Algebra.BigOperators.Group.List.Basic
import Mathlib.Algebra.Field.Basic
import Mathlib.Algebra.Order.Ring.Rat
import Mathlib.Data.List.Perm.Basic
import Mathlib.Data.List.GetD
import Mathlib.Data.List.Zip
import Mathlib.Data.Rat.Defs
import Mathlib.Tactic.Ring
import Mathlib.Tactic.NormNum

/-! # C10 (KDE part) and the thin KDE part of C11

Model: `CE.Kde.entropy`, `CE.Kde.mi`, `CE.Kde.cmi` (`CEModel/Kde.lean`, section `generic`), the
mirror of `kde_entropy`, `kde_mutual_information`, `kde_conditional_mutual_information` (Gaussian
kernel). The model is written over core type classes; here `α` is **any field** (Mathlib's
`Field α` instances unify with the core `Add/Sub/Mul/Div/Neg/OfNat 0` classes of the model, no
specialisation to ℚ was needed) and `exp log : α → α` are **arbitrary functions**: every statement
holds for whatever `exp` and `log` are, so all equalities are exact (the property allows "up to
rounding"; in a field there is none).

C10:
* `entropy_row_perm` — the KDE entropy of a sample depends only on the multiset of its rows.
* `mi_row_perm`, `cmi_row_perm` (+ index forms `mi_row_perm_idx`, `cmi_row_perm_idx`) — jointly
  reordering the rows of `X`, `Y` (and `Z`).
* `sqdist_swap`, `mi_swap_xy`, `cmi_swap_xy` — exchanging `X` and `Y`.
* `sqdist_colperm`, `cmi_z_col_perm` — reordering the columns of `Z`.

C11 (KDE part; **definitional**): `entropy_formula`, `mi_def`, `cmi_def`. The KDE formula *is* the
model's definition — these theorems only restate it in Mathlib vocabulary (`List.sum`) and pin the
signs of the entropy combination. The weight of C11-KDE is carried by the reference evaluation in
the harness (the same polymorphic definition executed at `Float` against the real functions).

`dim S` is the width of the *first* row of `S` (`X.shape[1]`); the theorems therefore assume that
`X`, `Y`, `Z` are matrices: every row of a block has the same width (`hX`, `hY`, `hZ`). No
non-emptiness assumption is needed. -/
namespace CE.Kde

/-! ### C11 (KDE): the formulas are the definitions -/

section defs
variable {α : Type} [Add α] [Sub α] [Mul α] [Div α] [Neg α] [OfNat α 0]

/-- **mi_def** (definitional). `kde MI = H(X) + H(Y) − H(X,Y)`, each entropy taken with the
constants `k d = (c_d, 2h_d²)` of that block's own dimension `d`. -/
theorem mi_def (exp log : α → α) (k : Consts α) (n : α) (X Y : List (List α)) :
    mi exp log k n X Y
      = entropy exp log (k (dim X)).1 (k (dim X)).2 n X
        + entropy exp log (k (dim Y)).1 (k (dim Y)).2 n Y
        - entropy exp log (k (dim (hcat X Y))).1 (k (dim (hcat X Y))).2 n (hcat X Y) := rfl

/-- **cmi_def** (definitional). `kde CMI = H(X,Z) + H(Y,Z) − H(X,Y,Z) − H(Z)`. -/
theorem cmi_def (exp log : α → α) (k : Consts α) (n : α) (X Y Z : List (List α)) :
    cmi exp log k n X Y Z
      = entropy exp log (k (dim (hcat X Z))).1 (k (dim (hcat X Z))).2 n (hcat X Z)
        + entropy exp log (k (dim (hcat Y Z))).1 (k (dim (hcat Y Z))).2 n (hcat Y Z)
        - entropy exp log (k (dim (hcat (hcat X Y) Z))).1 (k (dim (hcat (hcat X Y) Z))).2 n
            (hcat (hcat X Y) Z)
        - entropy exp log (k (dim Z)).1 (k (dim Z)).2 n Z := rfl

end defs

section field
variable {α : Type} [Field α]

/-! ### sums -/

theorem sumL_eq_sum (l : List α) : sumL l = l.sum := by
  induction l with
  | nil => rfl
  | cons a l ih => simp only [sumL, List.sum_cons, ih]

theorem sumL_perm {l l' : List α} (h : l.Perm l') : sumL l = sumL l' := by
  rw [sumL_eq_sum, sumL_eq_sum, h.sum_eq]

theorem sumL_append (l l' : List α) : sumL (l ++ l') = sumL l + sumL l' := by
  simp only [sumL_eq_sum, List.sum_append]

/-- **entropy_formula** (C11, KDE part; definitional up to `sumL = List.sum`): the model's entropy
is minus the mean, over the samples `x`, of `log` of the kernel density estimate
`c · Σ_j exp(−|x − x_j|²/(2h²)) / N` at `x`. -/
theorem entropy_formula (exp log : α → α) (c twoHsq n : α) (rows : List (List α)) :
    entropy exp log c twoHsq n rows
      = -((rows.map (fun x =>
            log (c * (rows.map (fun xj => exp (-(sqdist x xj / twoHsq)))).sum / n))).sum / n) := by
  simp only [entropy, density, sumL_eq_sum]

/-! ### the squared distance under concatenation and coordinate permutation -/

theorem sqdist_append (a b c d : List α) (h : a.length = c.length) :
    sqdist (a ++ b) (c ++ d) = sqdist a c + sqdist b d := by
  unfold sqdist
  rw [List.zipWith_append h, sumL_append]

/-- **sqdist_swap.** The squared distance between two concatenated rows does not depend on the
order of the two blocks. -/
theorem sqdist_swap (a b c d : List α) (h1 : a.length = c.length) (h2 : b.length = d.length) :
    sqdist (b ++ a) (d ++ c) = sqdist (a ++ b) (c ++ d) := by
  rw [sqdist_append _ _ _ _ h2, sqdist_append _ _ _ _ h1, add_comm]

/-- **sqdist_colperm.** Rearranging the coordinates of two rows of width `d` by the same
arrangement `idx` of the positions `0..d−1` does not change their squared distance. -/
theorem sqdist_colperm (idx : List ℕ) (d : ℕ) (hidx : idx.Perm (List.range d)) (z w : List α)
    (hz : z.length = d) (hw : w.length = d) :
    sqdist (idx.map (z.getD · 0)) (idx.map (w.getD · 0)) = sqdist z w := by
  unfold sqdist
  have e1 : List.zipWith (fun x y : α => (x - y) * (x - y)) (idx.map (z.getD · 0))
      (idx.map (w.getD · 0))
      = idx.map (fun i => (z.getD i 0 - w.getD i 0) * (z.getD i 0 - w.getD i 0)) := by
    simp only [List.zipWith_map, List.zipWith_self]
  have e2 : List.zipWith (fun x y : α => (x - y) * (x - y)) z w
      = (List.range d).map (fun i => (z.getD i 0 - w.getD i 0) * (z.getD i 0 - w.getD i 0)) := by
    apply List.ext_getElem
    · simp [hz, hw]
    · intro i h1 h2
      have hi : i < d := by simpa using h2
      simp [hz, hw, hi]
  rw [e1, e2]
  exact sumL_perm (hidx.map _)

/-! ### entropy: row permutations and relabelling of the rows -/

theorem density_row_perm (exp : α → α) (c t n : α) {rows rows' : List (List α)}
    (h : rows'.Perm rows) (x : List α) :
    density exp c t n rows' x = density exp c t n rows x := by
  unfold density
  rw [sumL_perm (h.map _)]

/-- **entropy_row_perm.** The KDE entropy does not depend on the order of the sample: both the
inner sum (the density at a point) and the outer sum (the mean over the points) are sums over
the rows. -/
theorem entropy_row_perm (exp log : α → α) (c t n : α) {rows rows' : List (List α)}
    (h : rows'.Perm rows) : entropy exp log c t n rows' = entropy exp log c t n rows := by
  unfold entropy
  have e : rows.map (fun x => log (density exp c t n rows' x))
      = rows.map (fun x => log (density exp c t n rows x)) :=
    List.map_congr_left (fun x _ => by rw [density_row_perm exp c t n h])
  rw [sumL_perm (h.map _), e]

/-- Two samples given as images `T.map f`, `T.map g` of one list of records with the same
pairwise squared distances have the same entropy. -/
theorem entropy_map_congr {β : Type} (exp log : α → α) (c t n : α) (T : List β)
    (f g : β → List α) (h : ∀ p ∈ T, ∀ q ∈ T, sqdist (f p) (f q) = sqdist (g p) (g q)) :
    entropy exp log c t n (T.map f) = entropy exp log c t n (T.map g) := by
  unfold entropy
  have e : (T.map f).map (fun x => log (density exp c t n (T.map f) x))
      = (T.map g).map (fun x => log (density exp c t n (T.map g) x)) := by
    rw [List.map_map, List.map_map]
    apply List.map_congr_left
    intro p hp
    have e2 : (T.map f).map (fun xj => exp (-(sqdist (f p) xj / t)))
        = (T.map g).map (fun xj => exp (-(sqdist (g p) xj / t))) := by
      rw [List.map_map, List.map_map]
      exact List.map_congr_left (fun q hq => by simp only [Function.comp, h p hp q hq])
    simp only [Function.comp, density, e2]
  rw [e]

/-! ### the dimension-indexed entropy `Hk` used by `mi` / `cmi` -/

/-- entropy with the constants selected by the sample's own dimension -/
def Hk (exp log : α → α) (k : Consts α) (n : α) (S : List (List α)) : α :=
  entropy exp log (k (dim S)).1 (k (dim S)).2 n S

theorem mi_eq_Hk (exp log : α → α) (k : Consts α) (n : α) (X Y : List (List α)) :
    mi exp log k n X Y = Hk exp log k n X + Hk exp log k n Y - Hk exp log k n (hcat X Y) := rfl

theorem cmi_eq_Hk (exp log : α → α) (k : Consts α) (n : α) (X Y Z : List (List α)) :
    cmi exp log k n X Y Z = Hk exp log k n (hcat X Z) + Hk exp log k n (hcat Y Z)
      - Hk exp log k n (hcat (hcat X Y) Z) - Hk exp log k n Z := rfl

omit [Field α] in
theorem dim_perm {S S' : List (List α)} {d : ℕ} (h : S'.Perm S) (hw : ∀ r ∈ S, r.length = d) :
    dim S' = dim S := by
  cases S with
  | nil => rw [h.eq_nil]
  | cons a S =>
    cases S' with
    | nil => exact absurd h.symm.eq_nil (by simp)
    | cons b S' =>
      simp only [dim, List.headD_cons]
      rw [hw a (by simp), hw b (h.subset (by simp))]

omit [Field α] in
theorem dim_map_congr {β : Type} (T : List β) (f g : β → List α)
    (h : ∀ t ∈ T, (f t).length = (g t).length) : dim (T.map f) = dim (T.map g) := by
  cases T with
  | nil => rfl
  | cons a T => simpa [dim] using h a (by simp)

theorem Hk_perm (exp log : α → α) (k : Consts α) (n : α) {S S' : List (List α)} {d : ℕ}
    (h : S'.Perm S) (hw : ∀ r ∈ S, r.length = d) : Hk exp log k n S' = Hk exp log k n S := by
  unfold Hk
  rw [dim_perm h hw, entropy_row_perm exp log _ _ n h]

theorem Hk_map_congr {β : Type} (exp log : α → α) (k : Consts α) (n : α) (T : List β)
    (f g : β → List α) (hl : ∀ t ∈ T, (f t).length = (g t).length)
    (h : ∀ p ∈ T, ∀ q ∈ T, sqdist (f p) (f q) = sqdist (g p) (g q)) :
    Hk exp log k n (T.map f) = Hk exp log k n (T.map g) := by
  unfold Hk
  rw [dim_map_congr T f g hl, entropy_map_congr exp log _ _ n T f g h]

/-! ### blocks as images of the list of sample records -/

omit [Field α] in
theorem hcat_eq_map_zip (X Y : List (List α)) :
    hcat X Y = (X.zip Y).map (fun p => p.1 ++ p.2) := by
  induction X generalizing Y with
  | nil => simp [hcat]
  | cons x X ih =>
    cases Y with
    | nil => simp [hcat]
    | cons y Y => have := ih Y; simp only [hcat] at this; simp [hcat, this]

omit [Field α] in
theorem hcat_swap_eq_map_zip (X Y : List (List α)) :
    hcat Y X = (X.zip Y).map (fun p => p.2 ++ p.1) := by
  rw [hcat_eq_map_zip, ← List.zip_swap X Y, List.map_map]
  rfl

/-- the list of sample records `(xᵢ, yᵢ, zᵢ)` -/
def zip3 (X Y Z : List (List α)) : List (List α × List α × List α) := X.zip (Y.zip Z)

omit [Field α] in
theorem mem_zip3 {X Y Z : List (List α)} {t : List α × List α × List α} (h : t ∈ zip3 X Y Z) :
    t.1 ∈ X ∧ t.2.1 ∈ Y ∧ t.2.2 ∈ Z := by
  obtain ⟨a, b, c⟩ := t
  have h1 := List.of_mem_zip h
  exact ⟨h1.1, (List.of_mem_zip h1.2).1, (List.of_mem_zip h1.2).2⟩

omit [Field α] in
theorem hcat3_eq (X Y Z : List (List α)) :
    hcat (hcat X Y) Z = (zip3 X Y Z).map (fun t => t.1 ++ t.2.1 ++ t.2.2) := by
  unfold zip3 hcat
  apply List.ext_getElem
  · simp
  · intro i h1 h2; simp

omit [Field α] in
theorem hcat3_swap_eq (X Y Z : List (List α)) :
    hcat (hcat Y X) Z = (zip3 X Y Z).map (fun t => t.2.1 ++ t.1 ++ t.2.2) := by
  unfold zip3 hcat
  apply List.ext_getElem
  · simp only [List.length_zipWith, List.length_map, List.length_zip]; omega
  · intro i h1 h2; simp

omit [Field α] in
theorem hcatXZ_eq (X Y Z : List (List α)) (hxy : X.length = Y.length) (hyz : Y.length = Z.length) :
    hcat X Z = (zip3 X Y Z).map (fun t => t.1 ++ t.2.2) := by
  unfold zip3 hcat
  apply List.ext_getElem
  · simp only [List.length_zipWith, List.length_map, List.length_zip]; omega
  · intro i h1 h2; simp

omit [Field α] in
theorem hcatYZ_eq (X Y Z : List (List α)) (hxy : X.length = Y.length) (hyz : Y.length = Z.length) :
    hcat Y Z = (zip3 X Y Z).map (fun t => t.2.1 ++ t.2.2) := by
  unfold zip3 hcat
  apply List.ext_getElem
  · simp only [List.length_zipWith, List.length_map, List.length_zip]; omega
  · intro i h1 h2; simp

omit [Field α] in
theorem Z_eq (X Y Z : List (List α)) (hxy : X.length = Y.length) (hyz : Y.length = Z.length) :
    Z = (zip3 X Y Z).map (fun t => t.2.2) := by
  unfold zip3
  apply List.ext_getElem
  · simp only [List.length_map, List.length_zip]; omega
  · intro i h1 h2; simp

/-! ### C10: joint row permutations -/

/-- **mi_row_perm.** If the list of sample records `(xᵢ, yᵢ)` of `(X', Y')` is a permutation of
that of `(X, Y)` — the rows of `X` and `Y` were reordered jointly, by any permutation — the KDE
mutual information is unchanged. `X`, `Y` are matrices of constant widths `dx`, `dy`. -/
theorem mi_row_perm (exp log : α → α) (k : Consts α) (n : α) (X Y X' Y' : List (List α))
    (dx dy : ℕ) (hlen : X.length = Y.length) (hlen' : X'.length = Y'.length)
    (hX : ∀ x ∈ X, x.length = dx) (hY : ∀ y ∈ Y, y.length = dy)
    (hp : (X'.zip Y').Perm (X.zip Y)) :
    mi exp log k n X' Y' = mi exp log k n X Y := by
  have pX : X'.Perm X := by
    have := hp.map Prod.fst
    rwa [List.map_fst_zip (by omega), List.map_fst_zip (by omega)] at this
  have pY : Y'.Perm Y := by
    have := hp.map Prod.snd
    rwa [List.map_snd_zip (by omega), List.map_snd_zip (by omega)] at this
  have pXY : (hcat X' Y').Perm (hcat X Y) := by
    rw [hcat_eq_map_zip, hcat_eq_map_zip]; exact hp.map _
  have hXY : ∀ r ∈ hcat X Y, r.length = dx + dy := by
    intro r hr
    rw [hcat_eq_map_zip] at hr
    obtain ⟨⟨x, y⟩, hm, rfl⟩ := List.mem_map.mp hr
    have := List.of_mem_zip hm
    simp [hX x this.1, hY y this.2]
  rw [mi_eq_Hk, mi_eq_Hk, Hk_perm exp log k n pX hX, Hk_perm exp log k n pY hY,
    Hk_perm exp log k n pXY hXY]

omit [Field α] in
theorem zip_eq_map_range (X Y : List (List α)) (h : X.length = Y.length) :
    X.zip Y = (List.range X.length).map (fun i => (X.getD i [], Y.getD i [])) := by
  apply List.ext_getElem
  · simp [h]
  · intro i h1 h2
    have hi : i < X.length := by simpa using h2
    simp [hi, h ▸ hi]

/-- **mi_row_perm, index form** (`X[idx], Y[idx]` of numpy): `idx` any arrangement of `0..N−1`. -/
theorem mi_row_perm_idx (exp log : α → α) (k : Consts α) (n : α) (X Y : List (List α))
    (dx dy : ℕ) (hlen : X.length = Y.length)
    (hX : ∀ x ∈ X, x.length = dx) (hY : ∀ y ∈ Y, y.length = dy)
    (idx : List ℕ) (hidx : idx.Perm (List.range X.length)) :
    mi exp log k n (idx.map (X.getD · [])) (idx.map (Y.getD · [])) = mi exp log k n X Y := by
  apply mi_row_perm exp log k n X Y _ _ dx dy hlen (by simp) hX hY
  rw [List.zip_map', zip_eq_map_range X Y hlen]
  exact hidx.map _

/-- **cmi_row_perm.** Jointly reordering the rows of `X`, `Y`, `Z` (the list of records
`(xᵢ, yᵢ, zᵢ)` is permuted) leaves the KDE conditional mutual information unchanged. -/
theorem cmi_row_perm (exp log : α → α) (k : Consts α) (n : α) (X Y Z X' Y' Z' : List (List α))
    (dx dy dz : ℕ) (hxy : X.length = Y.length) (hyz : Y.length = Z.length)
    (hxy' : X'.length = Y'.length) (hyz' : Y'.length = Z'.length)
    (hX : ∀ x ∈ X, x.length = dx) (hY : ∀ y ∈ Y, y.length = dy) (hZ : ∀ z ∈ Z, z.length = dz)
    (hp : (zip3 X' Y' Z').Perm (zip3 X Y Z)) :
    cmi exp log k n X' Y' Z' = cmi exp log k n X Y Z := by
  have w : ∀ t ∈ zip3 X Y Z, t.1.length = dx ∧ t.2.1.length = dy ∧ t.2.2.length = dz :=
    fun t ht => ⟨hX _ (mem_zip3 ht).1, hY _ (mem_zip3 ht).2.1, hZ _ (mem_zip3 ht).2.2⟩
  have key : ∀ (f : List α × List α × List α → List α) (d : ℕ),
      (∀ t ∈ zip3 X Y Z, (f t).length = d) →
      Hk exp log k n ((zip3 X' Y' Z').map f) = Hk exp log k n ((zip3 X Y Z).map f) := by
    intro f d hf
    apply Hk_perm exp log k n (hp.map f) (d := d)
    intro r hr
    obtain ⟨t, ht, rfl⟩ := List.mem_map.mp hr
    exact hf t ht
  rw [cmi_eq_Hk, cmi_eq_Hk, hcat3_eq, hcat3_eq, hcatXZ_eq X Y Z hxy hyz,
    hcatXZ_eq X' Y' Z' hxy' hyz', hcatYZ_eq X Y Z hxy hyz, hcatYZ_eq X' Y' Z' hxy' hyz']
  conv => lhs; arg 2; rw [Z_eq X' Y' Z' hxy' hyz']
  conv => rhs; arg 2; rw [Z_eq X Y Z hxy hyz]
  rw [key _ (dx + dz) (fun t ht => by simp [w t ht]),
    key _ (dy + dz) (fun t ht => by simp [w t ht]),
    key _ (dx + dy + dz) (fun t ht => by simp [w t ht, Nat.add_assoc]),
    key _ dz (fun t ht => (w t ht).2.2)]

omit [Field α] in
theorem zip3_eq_map_range (X Y Z : List (List α)) (hxy : X.length = Y.length)
    (hyz : Y.length = Z.length) :
    zip3 X Y Z = (List.range X.length).map (fun i => (X.getD i [], Y.getD i [], Z.getD i [])) := by
  unfold zip3
  apply List.ext_getElem
  · simp [hxy, hyz]
  · intro i h1 h2
    have hi : i < X.length := by simpa using h2
    simp [hi, hxy ▸ hi, hyz ▸ hxy ▸ hi]

/-- **cmi_row_perm, index form.** -/
theorem cmi_row_perm_idx (exp log : α → α) (k : Consts α) (n : α) (X Y Z : List (List α))
    (dx dy dz : ℕ) (hxy : X.length = Y.length) (hyz : Y.length = Z.length)
    (hX : ∀ x ∈ X, x.length = dx) (hY : ∀ y ∈ Y, y.length = dy) (hZ : ∀ z ∈ Z, z.length = dz)
    (idx : List ℕ) (hidx : idx.Perm (List.range X.length)) :
    cmi exp log k n (idx.map (X.getD · [])) (idx.map (Y.getD · [])) (idx.map (Z.getD · []))
      = cmi exp log k n X Y Z := by
  apply cmi_row_perm exp log k n X Y Z _ _ _ dx dy dz hxy hyz (by simp) (by simp) hX hY hZ
  rw [zip3_eq_map_range X Y Z hxy hyz]
  unfold zip3
  rw [List.zip_map', List.zip_map']
  exact hidx.map _

/-! ### C10: exchanging X and Y -/

/-- **mi_swap_xy.** `I(X;Y) = I(Y;X)` exactly: `H(X) + H(Y)` commutes, the joint dimensions
`dx + dy` and `dy + dx` select the same constants, and the joint squared distances agree
(`sqdist_swap`). -/
theorem mi_swap_xy (exp log : α → α) (k : Consts α) (n : α) (X Y : List (List α)) (dx dy : ℕ)
    (hX : ∀ x ∈ X, x.length = dx) (hY : ∀ y ∈ Y, y.length = dy) :
    mi exp log k n Y X = mi exp log k n X Y := by
  have w : ∀ p ∈ X.zip Y, p.1.length = dx ∧ p.2.length = dy :=
    fun p hp => ⟨hX _ (List.of_mem_zip hp).1, hY _ (List.of_mem_zip hp).2⟩
  have e : Hk exp log k n (hcat Y X) = Hk exp log k n (hcat X Y) := by
    rw [hcat_swap_eq_map_zip, hcat_eq_map_zip]
    apply Hk_map_congr
    · intro t _; simp [Nat.add_comm]
    · intro p hp q hq
      exact sqdist_swap _ _ _ _ ((w p hp).1.trans (w q hq).1.symm) ((w p hp).2.trans (w q hq).2.symm)
  rw [mi_eq_Hk, mi_eq_Hk, e, add_comm]

/-- **cmi_swap_xy.** `I(X;Y|Z) = I(Y;X|Z)` exactly. -/
theorem cmi_swap_xy (exp log : α → α) (k : Consts α) (n : α) (X Y Z : List (List α)) (dx dy : ℕ)
    (hX : ∀ x ∈ X, x.length = dx) (hY : ∀ y ∈ Y, y.length = dy) :
    cmi exp log k n Y X Z = cmi exp log k n X Y Z := by
  have e : Hk exp log k n (hcat (hcat Y X) Z) = Hk exp log k n (hcat (hcat X Y) Z) := by
    rw [hcat3_swap_eq, hcat3_eq]
    apply Hk_map_congr
    · intro t _; simp only [List.length_append]; omega
    · intro p hp q hq
      have e1 : p.1.length = q.1.length := by rw [hX _ (mem_zip3 hp).1, hX _ (mem_zip3 hq).1]
      have e2 : p.2.1.length = q.2.1.length := by rw [hY _ (mem_zip3 hp).2.1, hY _ (mem_zip3 hq).2.1]
      rw [sqdist_append (p.2.1 ++ p.1) _ (q.2.1 ++ q.1) _ (by simp [e1, e2]),
        sqdist_append (p.1 ++ p.2.1) _ (q.1 ++ q.2.1) _ (by simp [e1, e2]),
        sqdist_swap _ _ _ _ e1 e2]
  rw [cmi_eq_Hk, cmi_eq_Hk, e, add_comm (Hk exp log k n (hcat Y Z))]

/-! ### C10: reordering the columns of Z -/

/-- **cmi_z_col_perm.** Rearranging the columns of the conditioning matrix `Z` (every row
rearranged by the same arrangement `idx` of the positions `0..dz−1`, as `Z[:, idx]` in numpy)
leaves the KDE conditional mutual information unchanged. -/
theorem cmi_z_col_perm (exp log : α → α) (k : Consts α) (n : α) (X Y Z : List (List α))
    (dx dy dz : ℕ) (hX : ∀ x ∈ X, x.length = dx) (hY : ∀ y ∈ Y, y.length = dy)
    (hZ : ∀ z ∈ Z, z.length = dz) (idx : List ℕ) (hidx : idx.Perm (List.range dz)) :
    cmi exp log k n X Y (Z.map (fun r => idx.map (r.getD · 0))) = cmi exp log k n X Y Z := by
  have hidxlen : idx.length = dz := by simpa using hidx.length_eq
  -- a block `W ++ Z[:, idx]` against `W ++ Z`
  have blk : ∀ W : List (List α), ∀ dw : ℕ, (∀ r ∈ W, r.length = dw) →
      Hk exp log k n (hcat W (Z.map (fun r => idx.map (r.getD · 0))))
        = Hk exp log k n (hcat W Z) := by
    intro W dw hW
    have e : hcat W (Z.map (fun r => idx.map (r.getD · 0)))
        = (W.zip Z).map (fun p => p.1 ++ idx.map (p.2.getD · 0)) := by
      rw [hcat_eq_map_zip, List.zip_map_right, List.map_map]; rfl
    rw [e, hcat_eq_map_zip]
    apply Hk_map_congr
    · intro t ht; simp [hidxlen, hZ _ (List.of_mem_zip ht).2]
    · intro p hp q hq
      have hp' := List.of_mem_zip hp
      have hq' := List.of_mem_zip hq
      have e1 : p.1.length = q.1.length := by rw [hW _ hp'.1, hW _ hq'.1]
      rw [sqdist_append _ _ _ _ e1, sqdist_append _ _ _ _ e1,
        sqdist_colperm idx dz hidx _ _ (hZ _ hp'.2) (hZ _ hq'.2)]
  have hXY : ∀ r ∈ hcat X Y, r.length = dx + dy := by
    intro r hr
    rw [hcat_eq_map_zip] at hr
    obtain ⟨⟨x, y⟩, hm, rfl⟩ := List.mem_map.mp hr
    have := List.of_mem_zip hm
    simp [hX x this.1, hY y this.2]
  have eZ : Hk exp log k n (Z.map (fun r => idx.map (r.getD · 0))) = Hk exp log k n Z := by
    have := Hk_map_congr exp log k n Z (fun r => idx.map (r.getD · 0)) id
      (fun t ht => by simp [hidxlen, hZ _ ht])
      (fun p hp q hq => sqdist_colperm idx dz hidx _ _ (hZ _ hp) (hZ _ hq))
    rwa [List.map_id] at this
  rw [cmi_eq_Hk, cmi_eq_Hk, blk X dx hX, blk Y dy hY, blk (hcat X Y) (dx + dy) hXY, eZ]

end field

/-! ### the hypotheses are satisfiable (ℚ, with arbitrary stand-ins for `exp`, `log`) -/

section examples

/-- stand-ins: any functions will do -/
def exq : ℚ → ℚ := fun x => 1 / (1 + x * x)
def lgq : ℚ → ℚ := fun x => x * x - 3 * x
def kq : Consts ℚ := fun d => (1 / (d + 1 : ℚ), 2 + d)

/-- `entropy_row_perm` -/
example : entropy exq lgq 2 3 3 [[3, 1], [0, 5], [1, 1]] = entropy exq lgq 2 3 3 [[0, 5], [1, 1], [3, 1]] :=
  entropy_row_perm _ _ _ _ _ (by decide)

/-- `mi_row_perm_idx`: rows taken in the order 2, 0, 1 -/
example : mi exq lgq kq 3 ([2, 0, 1].map (([[0], [1], [3]] : List (List ℚ)).getD · []))
      ([2, 0, 1].map (([[0, 5], [2, 7], [1, 1]] : List (List ℚ)).getD · []))
    = mi exq lgq kq 3 [[0], [1], [3]] [[0, 5], [2, 7], [1, 1]] := by
  apply mi_row_perm_idx (dx := 1) (dy := 2)
  · rfl
  · decide
  · decide
  · decide

/-- `mi_row_perm`: the same reordering given explicitly -/
example : mi exq lgq kq 3 [[3], [0], [1]] [[1, 1], [0, 5], [2, 7]]
    = mi exq lgq kq 3 [[0], [1], [3]] [[0, 5], [2, 7], [1, 1]] := by
  apply mi_row_perm (dx := 1) (dy := 2)
  · rfl
  · rfl
  · decide
  · decide
  · decide

/-- `cmi_row_perm` -/
example : cmi exq lgq kq 3 [[3], [0], [1]] [[1, 1], [0, 5], [2, 7]] [[4], [9], [6]]
    = cmi exq lgq kq 3 [[0], [1], [3]] [[0, 5], [2, 7], [1, 1]] [[9], [6], [4]] := by
  apply cmi_row_perm (dx := 1) (dy := 2) (dz := 1)
  · rfl
  · rfl
  · rfl
  · rfl
  · decide
  · decide
  · decide
  · decide

/-- `mi_swap_xy`, `cmi_swap_xy` (widths 1 and 2) -/
example : mi exq lgq kq 3 [[0, 5], [2, 7], [1, 1]] [[0], [1], [3]]
    = mi exq lgq kq 3 [[0], [1], [3]] [[0, 5], [2, 7], [1, 1]] := by
  apply mi_swap_xy (dx := 1) (dy := 2)
  · decide
  · decide

example : cmi exq lgq kq 3 [[0, 5], [2, 7], [1, 1]] [[0], [1], [3]] [[9], [6], [4]]
    = cmi exq lgq kq 3 [[0], [1], [3]] [[0, 5], [2, 7], [1, 1]] [[9], [6], [4]] := by
  apply cmi_swap_xy (dx := 1) (dy := 2)
  · decide
  · decide

/-- `cmi_z_col_perm`: the columns of a 3-column `Z` taken in the order 2, 0, 1 -/
example : cmi exq lgq kq 3 [[0], [1], [3]] [[9], [6], [4]]
      (([[0, 5, 8], [2, 7, 3], [1, 1, 2]] : List (List ℚ)).map (fun r => [2, 0, 1].map (r.getD · 0)))
    = cmi exq lgq kq 3 [[0], [1], [3]] [[9], [6], [4]] [[0, 5, 8], [2, 7, 3], [1, 1, 2]] := by
  apply cmi_z_col_perm (dx := 1) (dy := 1) (dz := 3)
  · decide
  · decide
  · decide
  · decide

/-- … which is the matrix with rearranged columns -/
example : ([[0, 5, 8], [2, 7, 3], [1, 1, 2]] : List (List ℚ)).map (fun r => [2, 0, 1].map (r.getD · 0))
    = [[8, 0, 5], [3, 2, 7], [2, 1, 1]] := by decide

/-- the statements are not vacuous equalities between constants: with these stand-ins the
estimate does depend on the data, and reordering the rows of `Y` *alone* changes it -/
example : mi exq lgq kq 3 [[0], [1], [3]] [[0], [5], [1]]
    ≠ mi exq lgq kq 3 [[0], [1], [3]] [[5], [0], [1]] := by
  norm_num [mi, entropy, density, sumL, sqdist, hcat, dim, exq, lgq, kq]

end examples

end CE.Kde
