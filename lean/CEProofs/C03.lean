import CEProofs.C03Lemmas

/-! # C03 — permutation test: surrogates shuffle X only; the verdict is coherent with its p-value

All statements are about `CE.Disc.shuffleTest` / `CE.Disc.decideTest` (with `percentile`,
`sortRat`, `permute`), the executable model that the correspondence check compares with
`shuffle_test` of `causationentropy/core/discovery.py` (after the repair `Pass = observed >
threshold`, strict).

Notation used throughout (`n = null.length`, `s = sortRat null` the ascending null values):

* `hIdx n α  = (n-1)(1-α)`            — NumPy's fractional index of the `100(1-α)` percentile,
* `loIdx n α = ⌊hIdx n α⌋`, `hiIdx n α = min (loIdx n α + 1) (n-1)` — the two bracketing ranks,
* `geCount null obs = #{k | null_k ≥ obs}`.

Quantification: every list `null : List ℚ` of finite surrogate values with `n ≥ 1` (the property
asks for `n ≥ 2` only), every finite observed value, every `0 < α < 1`, every estimator, every
list of index lists `perms` (the recorded draws of the generator). Non-finite surrogate values are
outside the property's quantifier ("on which the estimator is finite"). -/

namespace CE.Disc

open C03

/-- number of null values `≥ obs` (a count over rationals) -/
def geCount (null : List ℚ) (obs : ℚ) : ℕ := null.countP (fun q => decide (obs ≤ q))

/-! ## The model on finite inputs, in closed form -/

/-- `decideTest` on finite values: threshold = interpolated percentile, verdict = strict comparison,
p-value = `geCount / n`, value echoed. -/
theorem decideTest_fin (null : List ℚ) (obs α : ℚ) :
    decideTest (null.map Val.fin) (Val.fin obs) α =
      { thr := Val.fin (percentile null α), value := Val.fin obs,
        pass := decide (percentile null α < obs),
        p := (geCount null obs : ℚ) / (null.length : ℚ) } := by
  unfold decideTest
  simp only [mapM_finOf_fin, countP_ge_fin, List.length_map]
  rfl

/-- the model's indices are `loIdx` / `hiIdx` -/
theorem percentile_eq (null : List ℚ) (α : ℚ) :
    percentile null α =
      (sortRat null).getD (loIdx null.length α) 0 +
        (hIdx null.length α - (loIdx null.length α : ℚ)) *
          ((sortRat null).getD (hiIdx null.length α) 0 - (sortRat null).getD (loIdx null.length α) 0) := by
  unfold percentile hiIdx loIdx hIdx
  simp only [floor_toNat_eq]

/-! ## Threshold: at the (1-α) quantile of the surrogate values -/

/-- **Threshold bracket.** The reported threshold is the finite number `percentile null α`, the
two bracketing ranks `⌊h⌋ ≤ min(⌊h⌋+1, n-1)` are valid indices of the sorted null, and the threshold
lies between the null values of these two ranks, `h = (n-1)(1-α)`: it is *at the (1-α) quantile*
(not the α quantile) of the surrogate values. -/
theorem thr_bracket (null : List ℚ) (hn : 1 ≤ null.length) (obs α : ℚ) (hα0 : 0 < α) (hα1 : α < 1) :
    (decideTest (null.map Val.fin) (Val.fin obs) α).thr = Val.fin (percentile null α) ∧
    ∃ (hlo : loIdx null.length α < (sortRat null).length)
      (hhi : hiIdx null.length α < (sortRat null).length),
      loIdx null.length α ≤ hiIdx null.length α ∧
      (sortRat null)[loIdx null.length α] ≤ percentile null α ∧
      percentile null α ≤ (sortRat null)[hiIdx null.length α] := by
  refine ⟨by rw [decideTest_fin], ?_⟩
  have hlo : loIdx null.length α < (sortRat null).length := by
    rw [length_sortRat]; exact loIdx_lt hn hα0 hα1
  have hhi : hiIdx null.length α < (sortRat null).length := by
    rw [length_sortRat]; exact hiIdx_lt hn α
  have hle := loIdx_le_hiIdx hn hα0 hα1
  refine ⟨hlo, hhi, hle, ?_⟩
  have hmono := getD_mono_of_pairwise (sortRat_pairwise null) _ _ hle hhi
  rw [percentile_eq]
  rw [List.getD_eq_getElem _ _ hlo, List.getD_eq_getElem _ _ hhi] at hmono ⊢
  have hγ0 : 0 ≤ hIdx null.length α - (loIdx null.length α : ℚ) := by
    have := loIdx_le_h hn hα1 (n := null.length) (α := α); linarith
  have hγ1 : hIdx null.length α - (loIdx null.length α : ℚ) ≤ 1 := by
    have := h_lt_loIdx_succ null.length α; linarith
  constructor <;> nlinarith

/-- the same bracket through the total accessor `getD` (as the driver reports it) -/
theorem thr_bracket_getD (null : List ℚ) (hn : 1 ≤ null.length) (α : ℚ) (hα0 : 0 < α) (hα1 : α < 1) :
    (sortRat null).getD (loIdx null.length α) 0 ≤ percentile null α ∧
    percentile null α ≤ (sortRat null).getD (hiIdx null.length α) 0 := by
  obtain ⟨-, hlo, hhi, -, h1, h2⟩ := thr_bracket null hn 0 α hα0 hα1
  rw [List.getD_eq_getElem _ _ hlo, List.getD_eq_getElem _ _ hhi]
  exact ⟨h1, h2⟩

example : (1 : ℕ) ≤ ([3, 1, 2] : List ℚ).length ∧ (0 : ℚ) < 1 / 20 ∧ (1 / 20 : ℚ) < 1 := by
  norm_num

/-! ## p-value and echoed value -/

/-- **p-value definition.** `P_value = #{k | null_k ≥ observed} / n`, the count over `Val.ge` being
the count over rationals, and `Value` echoes the observed value. -/
theorem p_value_def (null : List ℚ) (obs α : ℚ) :
    (decideTest (null.map Val.fin) (Val.fin obs) α).p = (geCount null obs : ℚ) / (null.length : ℚ) ∧
    (null.map Val.fin).countP (fun v => Val.ge v (Val.fin obs)) = geCount null obs ∧
    (decideTest (null.map Val.fin) (Val.fin obs) α).value = Val.fin obs := by
  rw [decideTest_fin]
  exact ⟨rfl, countP_ge_fin null obs, rfl⟩

/-- the verdict is the strict comparison with the threshold -/
theorem pass_def (null : List ℚ) (obs α : ℚ) :
    (decideTest (null.map Val.fin) (Val.fin obs) α).pass = true ↔ percentile null α < obs := by
  rw [decideTest_fin]; simp

/-! ## Coherence in bracket form (any threshold inside the bracket, e.g. NumPy's rounded one) -/

/-- **Pass side, bracket form (counts).** If `obs` exceeds *any* number `t ≥ s[⌊h⌋]`, at most
`n-1-⌊h⌋` null values are `≥ obs`. -/
theorem geCount_le_of_gt (null : List ℚ) (hn : 1 ≤ null.length) (obs α t : ℚ)
    (hα0 : 0 < α) (hα1 : α < 1)
    (hlo : (sortRat null).getD (loIdx null.length α) 0 ≤ t) (hgt : t < obs) :
    geCount null obs ≤ null.length - 1 - loIdx null.length α := by
  unfold geCount
  rw [countP_sortRat]
  apply count_ge_le_of_pass null.length (fun i => (sortRat null).getD i 0) _ obs t _
    (loIdx_lt hn hα0 hα1) hlo hgt
  intro i j hij hj
  exact getD_mono_of_pairwise (sortRat_pairwise null) i j hij (by rw [length_sortRat]; exact hj)

/-- **Fail side, bracket form (counts).** If `obs` is at most *any* number `t ≤ s[min(⌊h⌋+1,n-1)]`,
at least `n - min(⌊h⌋+1,n-1)` null values are `≥ obs`. -/
theorem geCount_ge_of_le (null : List ℚ) (hn : 1 ≤ null.length) (obs α t : ℚ)
    (hhi : t ≤ (sortRat null).getD (hiIdx null.length α) 0) (hle : obs ≤ t) :
    null.length - hiIdx null.length α ≤ geCount null obs := by
  unfold geCount
  rw [countP_sortRat]
  apply count_ge_ge_of_fail null.length (fun i => (sortRat null).getD i 0) _ obs t _
    (hiIdx_lt hn α) hhi hle
  intro i j hij hj
  exact getD_mono_of_pairwise (sortRat_pairwise null) i j hij (by rw [length_sortRat]; exact hj)

/-- **Coherence, pass side, bracket form.** For ANY threshold `t` with `s[lo] ≤ t`
(`lo = ⌊(n-1)(1-α)⌋`): `obs > t` implies `#{null ≥ obs}/n ≤ α + 1/n`. -/
theorem coherent_pass_bracket (null : List ℚ) (hn : 1 ≤ null.length) (obs α t : ℚ)
    (hα0 : 0 < α) (hα1 : α < 1)
    (hlo : (sortRat null).getD (loIdx null.length α) 0 ≤ t) (hgt : t < obs) :
    (geCount null obs : ℚ) / (null.length : ℚ) ≤ α + 1 / (null.length : ℚ) :=
  p_le_of_count null.length hn α hα0 hα1 _ (geCount_le_of_gt null hn obs α t hα0 hα1 hlo hgt)

/-- **Coherence, fail side, bracket form.** For ANY threshold `t` with `t ≤ s[hi]`
(`hi = min(⌊(n-1)(1-α)⌋+1, n-1)`): `obs ≤ t` implies `#{null ≥ obs}/n ≥ α - 1/n`. -/
theorem coherent_fail_bracket (null : List ℚ) (hn : 1 ≤ null.length) (obs α t : ℚ)
    (hα0 : 0 < α) (hα1 : α < 1)
    (hhi : t ≤ (sortRat null).getD (hiIdx null.length α) 0) (hle : obs ≤ t) :
    α - 1 / (null.length : ℚ) ≤ (geCount null obs : ℚ) / (null.length : ℚ) :=
  p_ge_of_count null.length hn α hα0 hα1 _ (geCount_ge_of_le null hn obs α t hhi hle)

/-- the bracket hypotheses are satisfiable with a threshold different from the exact one -/
example : (sortRat [3, 1, 2, 5]).getD (loIdx 4 (1/20)) 0 ≤ (3001 : ℚ) / 1000 ∧
    (3001 : ℚ) / 1000 ≤ (sortRat [3, 1, 2, 5]).getD (hiIdx 4 (1/20)) 0 := by
  have hs : sortRat [3, 1, 2, 5] = [1, 2, 3, 5] := by
    have hp : (sortRat [3, 1, 2, 5]).Perm [1, 2, 3, 5] :=
      (sortRat_perm _).trans (by decide)
    exact List.Perm.eq_of_pairwise (le := (· ≤ ·)) (fun a b _ _ h1 h2 => le_antisymm h1 h2)
      (sortRat_pairwise _) (by norm_num) hp
  have hlo : loIdx 4 (1/20) = 2 := by
    unfold loIdx hIdx; rw [Nat.floor_eq_iff (by norm_num)]; norm_num
  rw [hs]; unfold hiIdx; rw [hlo]; norm_num

/-! ## Coherence of the model's own verdict -/

/-- **pass ⇒ at most `n-1-⌊h⌋` null values are ≥ obs** (the form used by C04). -/
theorem count_ge_le_of_pass (null : List ℚ) (hn : 1 ≤ null.length) (obs α : ℚ)
    (hα0 : 0 < α) (hα1 : α < 1)
    (hpass : (decideTest (null.map Val.fin) (Val.fin obs) α).pass = true) :
    geCount null obs ≤ null.length - 1 - loIdx null.length α :=
  geCount_le_of_gt null hn obs α _ hα0 hα1 (thr_bracket_getD null hn α hα0 hα1).1
    ((pass_def null obs α).mp hpass)

/-- **Significance is declared only if `p ≤ α + 1/n`.** -/
theorem pass_imp_p_le (null : List ℚ) (hn : 1 ≤ null.length) (obs α : ℚ)
    (hα0 : 0 < α) (hα1 : α < 1)
    (hpass : (decideTest (null.map Val.fin) (Val.fin obs) α).pass = true) :
    (decideTest (null.map Val.fin) (Val.fin obs) α).p ≤ α + 1 / (null.length : ℚ) := by
  rw [(p_value_def null obs α).1]
  exact coherent_pass_bracket null hn obs α _ hα0 hα1 (thr_bracket_getD null hn α hα0 hα1).1
    ((pass_def null obs α).mp hpass)

/-- **Significance is withheld only if `p ≥ α - 1/n`.** -/
theorem fail_imp_p_ge (null : List ℚ) (hn : 1 ≤ null.length) (obs α : ℚ)
    (hα0 : 0 < α) (hα1 : α < 1)
    (hfail : (decideTest (null.map Val.fin) (Val.fin obs) α).pass = false) :
    α - 1 / (null.length : ℚ) ≤ (decideTest (null.map Val.fin) (Val.fin obs) α).p := by
  rw [(p_value_def null obs α).1]
  have hle : obs ≤ percentile null α := by
    by_contra h
    push Not at h
    rw [(pass_def null obs α).mpr h] at hfail
    exact Bool.noConfusion hfail
  exact coherent_fail_bracket null hn obs α _ hα0 hα1 (thr_bracket_getD null hn α hα0 hα1).2 hle

/-- **A value tied with the whole null is never significant** (and its p-value is 1). This is the
clamp-floor / sentinel situation: every surrogate value equals the observed one. -/
theorem all_tied_not_pass (null : List ℚ) (hn : 1 ≤ null.length) (obs α : ℚ)
    (hα0 : 0 < α) (hα1 : α < 1) (htied : ∀ q ∈ null, q = obs) :
    (decideTest (null.map Val.fin) (Val.fin obs) α).pass = false ∧
    (decideTest (null.map Val.fin) (Val.fin obs) α).p = 1 := by
  constructor
  · obtain ⟨-, hlo, -, -, h1, -⟩ := thr_bracket null hn obs α hα0 hα1
    have hmem : (sortRat null)[loIdx null.length α] ∈ null :=
      (sortRat_perm null).mem_iff.mp (List.getElem_mem hlo)
    rw [htied _ hmem] at h1
    cases hp : (decideTest (null.map Val.fin) (Val.fin obs) α).pass with
    | false => rfl
    | true => exact absurd ((pass_def null obs α).mp hp) (not_lt.mpr h1)
  · rw [(p_value_def null obs α).1]
    have hc : geCount null obs = null.length := by
      unfold geCount
      rw [List.countP_eq_length]
      intro q hq
      simp [htied q hq]
    have hnpos : (0 : ℚ) < null.length := by exact_mod_cast hn
    rw [hc, div_self (ne_of_gt hnpos)]

example : ∀ q ∈ ([0, 0, 0, 0] : List ℚ), q = 0 := by simp

/-! ## Surrogates: exactly `perms.length` estimator evaluations, X reordered, Y and Z untouched -/

/-- **Surrogates.** The test is `decideTest` applied to the list of estimator values on
`(X∘π_k, Y, Z)`, one per recorded permutation, in order: `Y` and `Z` are passed through unchanged and
only `X` is re-indexed; there are exactly `perms.length` evaluations and the `k`-th null value is
`est (permute x π_k) y z`. -/
theorem surrogates (est : Est) (perms : List (List ℕ)) (x y : Col) (z : List Col) (obs : Val) (α : ℚ) :
    shuffleTest est perms x y z obs α
      = decideTest (perms.map (fun π => est (permute x π) y z)) obs α ∧
    (perms.map (fun π => est (permute x π) y z)).length = perms.length ∧
    ∀ (k : ℕ) (hk : k < perms.length),
      (perms.map (fun π => est (permute x π) y z))[k]'(by simpa using hk)
        = est (permute x perms[k]) y z := by
  refine ⟨rfl, by simp, ?_⟩
  intro k hk
  simp

/-- **Surrogates reorder the rows of X only.** If `π` is a permutation of the row indices
`0..T-1` then `permute x π` is a rearrangement of `x` (same multiset of rows), with row `r` of the
surrogate equal to row `π[r]` of `x`. -/
theorem permute_perm (x : Col) (π : List ℕ) (hπ : π.Perm (List.range x.length)) :
    (permute x π).Perm x ∧ (permute x π).length = x.length ∧
    ∀ (r : ℕ) (hr : r < π.length) (hx : π[r] < x.length),
      (permute x π)[r]'(by unfold permute; simpa using hr) = x[π[r]] := by
  refine ⟨?_, ?_, ?_⟩
  · have h1 : (permute x π).Perm ((List.range x.length).map (fun r => x.getD r 0)) :=
      hπ.map _
    have h2 : (List.range x.length).map (fun r => x.getD r 0) = x := by
      apply List.ext_getElem (by simp)
      intro i h1 h2
      simp only [List.getElem_map, List.getElem_range]
      exact List.getD_eq_getElem _ _ h2
    rwa [h2] at h1
  · unfold permute; rw [List.length_map, hπ.length_eq, List.length_range]
  · intro r hr hx
    unfold permute
    simp only [List.getElem_map]
    exact List.getD_eq_getElem _ _ hx

example : ([2, 0, 1] : List ℕ).Perm (List.range ([10, 20, 30] : Col).length) := by decide

/-! ## Everything at the level of `shuffleTest` -/

/-- **C03 assembled for `shuffle_test`.** For every estimator that is finite on all surrogates,
every recorded permutation stream with `n = perms.length ≥ 1`, every finite observed value and
`0 < α < 1`: there is the list `null` of the `n` surrogate values `est (X∘π_k) Y Z` such that the
returned record has `Value = obs`, `P_value = #{null ≥ obs}/n`, a finite `Threshold` inside the
`(1-α)`-quantile bracket of the sorted null, `Pass ↔ obs > Threshold`, and the verdict is coherent:
`Pass → p ≤ α + 1/n`, `¬Pass → p ≥ α - 1/n`, and `Pass` is false if all null values tie with `obs`. -/
theorem shuffleTest_spec (est : Est) (perms : List (List ℕ)) (x y : Col) (z : List Col)
    (obs α : ℚ) (hn : 1 ≤ perms.length) (hα0 : 0 < α) (hα1 : α < 1)
    (hfin : ∀ π ∈ perms, ∃ q, est (permute x π) y z = Val.fin q) :
    ∃ null : List ℚ,
      perms.map (fun π => est (permute x π) y z) = null.map Val.fin ∧
      null.length = perms.length ∧
      let r := shuffleTest est perms x y z (Val.fin obs) α
      r.value = Val.fin obs ∧
      r.p = (geCount null obs : ℚ) / (perms.length : ℚ) ∧
      r.thr = Val.fin (percentile null α) ∧
      (sortRat null).getD (loIdx perms.length α) 0 ≤ percentile null α ∧
      percentile null α ≤ (sortRat null).getD (hiIdx perms.length α) 0 ∧
      (r.pass = true ↔ percentile null α < obs) ∧
      (r.pass = true → r.p ≤ α + 1 / (perms.length : ℚ)) ∧
      (r.pass = false → α - 1 / (perms.length : ℚ) ≤ r.p) ∧
      ((∀ q ∈ null, q = obs) → r.pass = false ∧ r.p = 1) := by
  obtain ⟨null, hnull⟩ := exists_rat_list (perms.map (fun π => est (permute x π) y z)) (by
    intro v hv
    obtain ⟨π, hπ, rfl⟩ := List.mem_map.mp hv
    exact hfin π hπ)
  have hlen : null.length = perms.length := by
    have := congrArg List.length hnull
    simpa using this.symm
  have hn' : 1 ≤ null.length := by omega
  refine ⟨null, hnull, hlen, ?_⟩
  show _ ∧ _
  unfold shuffleTest
  rw [hnull, ← hlen]
  refine ⟨(p_value_def null obs α).2.2, (p_value_def null obs α).1,
    (thr_bracket null hn' obs α hα0 hα1).1, (thr_bracket_getD null hn' α hα0 hα1).1,
    (thr_bracket_getD null hn' α hα0 hα1).2, pass_def null obs α,
    pass_imp_p_le null hn' obs α hα0 hα1, fail_imp_p_ge null hn' obs α hα0 hα1,
    all_tied_not_pass null hn' obs α hα0 hα1⟩

/-- the hypotheses of `shuffleTest_spec` are satisfiable (a finite estimator, two permutations) -/
example : let est : Est := fun x _ _ => Val.fin (x.getD 0 0)
    let perms : List (List ℕ) := [[1, 0], [0, 1]]
    1 ≤ perms.length ∧ ∀ π ∈ perms, ∃ q, est (permute [5, 7] π) [1, 2] [] = Val.fin q := by
  intro est perms
  exact ⟨by decide, fun π _ => ⟨_, rfl⟩⟩

/-! ## Negative witness: the pinned (unrepaired) comparison `≥` -/

/-- the verdict as the pinned tree computed it: `Pass = observed >= threshold` -/
def decideTestGE (null : List Val) (obs : Val) (α : ℚ) : TestResult :=
  { decideTest null obs α with pass := Val.ge obs (decideTest null obs α).thr }

/-- **The repaired defect.** With `≥` instead of `>` an observed value tied with a fully tied null
of 4 values is declared significant although its p-value is 1. -/
example : (decideTestGE ([0, 0, 0, 0].map Val.fin) (Val.fin 0) (1/20)).pass = true ∧
    (decideTestGE ([0, 0, 0, 0].map Val.fin) (Val.fin 0) (1/20)).p = 1 ∧
    (decideTest ([0, 0, 0, 0].map Val.fin) (Val.fin 0) (1/20)).pass = false := by
  have hs : sortRat [0, 0, 0, 0] = [0, 0, 0, 0] := by
    unfold sortRat; exact List.mergeSort_of_pairwise (by simp)
  have hthr : percentile [0, 0, 0, 0] (1/20) = 0 := by
    rw [percentile_eq, hs]
    have h0 : ∀ i, ([0, 0, 0, 0] : List ℚ).getD i 0 = 0 := by
      intro i
      rcases i with _ | _ | _ | _ | i <;> simp
    rw [h0, h0]; ring
  unfold decideTestGE
  rw [decideTest_fin, hthr]
  refine ⟨by decide, ?_, by decide⟩
  show ((geCount [0, 0, 0, 0] 0 : ℕ) : ℚ) / (([0, 0, 0, 0] : List ℚ).length : ℚ) = 1
  have : geCount [0, 0, 0, 0] 0 = 4 := by decide
  rw [this]; norm_num

end CE.Disc

/-! ### the decision as a function of its comparison operators (translator tie) -/
namespace CE.Disc

/-- **decideTestG_codeShape.** With the operators the translator reads off the current source
(obligation `ObC03`: `Generated.shuffleShape = codeShape`, re-checked on every run) the generic
decision is the `decideTest` that every C03 / C04 theorem is about. -/
theorem decideTestG_codeShape (null : List Val) (obs : Val) (α : Rat) :
    decideTestG codeShape null obs α = decideTest null obs α := rfl

end CE.Disc
