import CEModel.Discovery
import CEProofs.SelNodup
import CEProofs.C01Lemmas
import CEProofs.C01
import Mathlib.Data.List.Basic
import Mathlib.Data.List.Range
import Mathlib.Data.List.Nodup
import Mathlib.Data.List.Flatten
import Mathlib.Data.Rat.Defs
import Mathlib.Algebra.Order.Field.Basic
import Mathlib.Tactic.Positivity

/-! # C06 — the discovered graph is well-formed; bad requests are rejected

Statements about the executable model `CE.Disc.discover`, for **every** series, estimator,
permutation stream, parameter record, and every LASSO oracle that satisfies its range predicate
`LassoOK` (duplicate-free lists of column ids `< n * L`; only required when the method is one of
the two LASSO methods — for the two oCSE methods the corresponding fact about the selected sets is
proved in `CEProofs/SelNodup.lean` for all oracles).

* `rejects` — the guards: `NotImplementedError` iff method or estimator name is unsupported,
  otherwise `ValueError` iff `T ≤ L + 2`; these are the only errors.
* `edge_wf` — every edge joins two nodes, `1 ≤ lag ≤ L`, `p = k / nShuffles` with `k ≤ nShuffles`;
  `p_in_unit` — hence `0 ≤ p ≤ 1`.
* `no_duplicate_triple` — no `(source, target, lag)` occurs twice.
* `cmi_not_finite_negative` — if `est` never returns a finite negative number, no edge carries one
  (for the real dispatcher that hypothesis is C09's floor theorem).
* `nodes_exact` — the node list of the model.

Part of the property that is *not* a theorem about this model: "the caller's data object is left
bit-for-bit unchanged" — the model is a pure function of an immutable value `s : Mat`, so there is
nothing to state; the harness compares the caller's object byte-wise before/after (DESIGN §6 C06).
Likewise the node *names* (`X0..X{n-1}` or the data-frame labels) are attached by position outside
the model. -/
namespace CE.Disc.C06
open CE.Disc CE.Disc.Loop

/-- the node list of the model: the variables `0 .. n-1` in input order (`G.add_nodes_from
(var_names)`; node `j` is printed as `var_names[j]`, i.e. `X{j}` or the `j`-th column label) -/
def nodes (n : Nat) : List Nat := List.range n

/-- range predicate of the LASSO oracle: for every target a duplicate-free list of column ids -/
def LassoOK (lasso : Nat → List Nat) (n L : Nat) : Prop :=
  ∀ i, i < n → (lasso i).Nodup ∧ ∀ c ∈ lasso i, c < n * L

/-- the documented lists of names (obligation `ObC06`) -/
theorem methodNames_eq :
    methodNames = ["standard", "alternative", "information_lasso", "lasso"] := rfl

theorem supportedInformation_eq :
    supportedInformation = ["gaussian", "knn", "kde", "geometric_knn", "poisson"] := rfl

section
variable (P : Params) (est : Est) (perms : Nat → List Nat) (lasso : Nat → List Nat)
  (s : Mat) (T n : Nat)

/-- `discover` as a three-way case distinction on its guards (method, then information, then
length — the order of the Python code; the first two raise the same exception) -/
theorem discover_cases :
    (P.method ∉ methodNames ∧ discover P est perms lasso s T n = .error .notImplemented) ∨
    (P.method ∈ methodNames ∧ P.information ∉ supportedInformation ∧
      discover P est perms lasso s T n = .error .notImplemented) ∨
    (P.method ∈ methodNames ∧ P.information ∈ supportedInformation ∧ T ≤ P.L + 2 ∧
      discover P est perms lasso s T n = .error .valueError) ∨
    (P.method ∈ methodNames ∧ P.information ∈ supportedInformation ∧ P.L + 2 < T ∧
      ∃ r, discover P est perms lasso s T n = .ok r) := by
  unfold discover
  cases hm : parseMethod P.method with
  | none =>
    exact Or.inl ⟨(parseMethod_eq_none_iff _).1 hm, rfl⟩
  | some m =>
    have hmem : P.method ∈ methodNames := by
      by_contra hcon
      rw [(parseMethod_eq_none_iff _).2 hcon] at hm
      cases hm
    by_cases hi : P.information ∈ supportedInformation
    · by_cases hT : T ≤ P.L + 2
      · exact Or.inr (Or.inr (Or.inl ⟨hmem, hi, hT, by simp [hi, hT]⟩))
      · exact Or.inr (Or.inr (Or.inr ⟨hmem, hi, by omega, discoverWith m (fun i => oraclesOf est perms s P.L T P.nShuffles i) lasso P.αf P.αb P.L n,
          by simp [hi, hT]⟩))
    · exact Or.inr (Or.inl ⟨hmem, hi, by simp [hi]⟩)

/-- **C06 `rejects`.** `discover` raises `NotImplementedError` iff the method is not one of the
four names or the estimator is not one of the five; it raises `ValueError` iff both names are
supported and `T ≤ L + 2`; it returns a graph iff both names are supported and `T > L + 2`.
(`Err` has no other value, so these are the only errors.) -/
theorem rejects :
    (discover P est perms lasso s T n = .error .notImplemented ↔
      (P.method ∉ methodNames ∨ P.information ∉ supportedInformation)) ∧
    (discover P est perms lasso s T n = .error .valueError ↔
      (P.method ∈ methodNames ∧ P.information ∈ supportedInformation ∧ T ≤ P.L + 2)) ∧
    ((∃ r, discover P est perms lasso s T n = .ok r) ↔
      (P.method ∈ methodNames ∧ P.information ∈ supportedInformation ∧ P.L + 2 < T)) := by
  rcases discover_cases P est perms lasso s T n with
    ⟨h1, h⟩ | ⟨h1, h2, h⟩ | ⟨h1, h2, h3, h⟩ | ⟨h1, h2, h3, r, h⟩
  · simp [h, h1]
  · simp [h, h1, h2]
  · simp [h, h1, h2, h3]
  · simp [h, h1, h2, h3]

/-- every error is one of the two (trivial: `Err` has two constructors) -/
theorem only_errors (e : Err) (_h : discover P est perms lasso s T n = .error e) :
    e = .notImplemented ∨ e = .valueError := by
  cases e <;> simp

end

section
variable {P : Params} {est : Est} {perms : Nat → List Nat} {lasso : Nat → List Nat}
  {s : Mat} {T n : Nat} {r : Result}

/-- the selected set of every target is duplicate-free and within `range (n * L)` -/
theorem sel_good (h : discover P est perms lasso s T n = .ok r)
    (hl : IsLassoMethod P.method → LassoOK lasso n P.L) :
    ∀ i, i < n → ∃ S, r.sel[i]? = some S ∧ S.Nodup ∧ ∀ c ∈ S, c < n * P.L := by
  obtain ⟨m, hm, hsel, -⟩ := C01.edges_closed_form_draws h
  intro i hi
  refine ⟨(stAt m (fun i => oraclesOf est perms s P.L T P.nShuffles i) lasso P.αf P.αb P.L n i).S,
    by simp [hsel, hi], ?_⟩
  apply stAt_good
  intro hm'
  exact hl (isLassoMethod_of_parse hm hm') i hi

/-- **C06 `edge_wf`.** Every edge of a returned graph joins two nodes (`src, dst < n`), carries a
lag in `1..L`, and a p-value `k / nShuffles` for a natural number `k ≤ nShuffles`. (`1 ≤ L` is the
documented domain `max_lag ≥ 1`; the Python code fails in `np.column_stack` for `max_lag = 0`.) -/
theorem edge_wf (h : discover P est perms lasso s T n = .ok r) (hL : 1 ≤ P.L)
    (hl : IsLassoMethod P.method → LassoOK lasso n P.L) :
    ∀ e ∈ r.edges, e.src < n ∧ e.dst < n ∧ 1 ≤ e.lag ∧ e.lag ≤ P.L ∧
      ∃ k : Nat, k ≤ P.nShuffles ∧ e.p = (k : Rat) / (P.nShuffles : Rat) := by
  intro e he
  obtain ⟨i, S, d, k, c, hi, hS, hSk, rfl⟩ := C01.edge_mem h he
  obtain ⟨S', hS', -, hlt⟩ := sel_good h hl i hi
  obtain rfl : S' = S := by rw [hS] at hS'; exact (Option.some.inj hS').symm
  have hc : c < n * P.L := hlt c (List.mem_of_getElem? hSk)
  obtain ⟨h1, h2, h3⟩ := C01.label_range P.L n c hL
  refine ⟨h1.1 hc, hi, h2, h3, _, ?_, rfl⟩
  exact (List.countP_le_length).trans (by simp)

/-- **C06 `p_in_unit`.** With at least one shuffle the p-value of every edge lies in `[0, 1]`
(and is a multiple of `1 / nShuffles` by `edge_wf`). -/
theorem p_in_unit (h : discover P est perms lasso s T n = .ok r) (hL : 1 ≤ P.L)
    (hl : IsLassoMethod P.method → LassoOK lasso n P.L) (hn : 1 ≤ P.nShuffles) :
    ∀ e ∈ r.edges, 0 ≤ e.p ∧ e.p ≤ 1 := by
  intro e he
  obtain ⟨-, -, -, -, k, hk, hp⟩ := edge_wf h hL hl e he
  have hpos : (0 : Rat) < (P.nShuffles : Rat) := by exact_mod_cast hn
  have hk' : (k : Rat) ≤ (P.nShuffles : Rat) := by exact_mod_cast hk
  rw [hp]
  exact ⟨by positivity, (div_le_one hpos).2 hk'⟩

/-- **C06 `nodes_exact`.** Both end points of every edge are nodes of the graph, whose node list
is `0, 1, …, n-1` in input order. -/
theorem nodes_exact (h : discover P est perms lasso s T n = .ok r) (hL : 1 ≤ P.L)
    (hl : IsLassoMethod P.method → LassoOK lasso n P.L) :
    nodes n = List.range n ∧ (nodes n).length = n ∧
    ∀ e ∈ r.edges, e.src ∈ nodes n ∧ e.dst ∈ nodes n := by
  refine ⟨rfl, by simp [nodes], fun e he => ?_⟩
  obtain ⟨h1, h2, -⟩ := edge_wf h hL hl e he
  exact ⟨List.mem_range.2 h1, List.mem_range.2 h2⟩

/-- **C06 `no_duplicate_triple`.** No `(source, target, lag)` triple occurs twice in a returned
graph: the selected set of every target is duplicate-free, `label` is injective, and edges of
different targets differ in their target. -/
theorem no_duplicate_triple (h : discover P est perms lasso s T n = .ok r)
    (hl : IsLassoMethod P.method → LassoOK lasso n P.L) :
    (r.edges.map (fun e => (e.src, e.dst, e.lag))).Nodup := by
  obtain ⟨-, hfl, -⟩ := C01.edges_closed_form h
  have hinto : ∀ i, i < n → ∃ S : List Nat, S.Nodup ∧
      (r.edges.filter (fun e => e.dst == i)).map (fun e => (e.src, e.dst, e.lag)) =
        S.map (fun c => ((label P.L c).1, i, (label P.L c).2)) := by
    intro i hi
    obtain ⟨S, hS, hmap⟩ := C01.edge_semantics h i hi
    obtain ⟨S', hS', hnd, -⟩ := sel_good h hl i hi
    obtain rfl : S' = S := by rw [hS] at hS'; exact (Option.some.inj hS').symm
    refine ⟨S', hnd, ?_⟩
    have := congrArg (List.map (fun q : Nat × Nat × Nat × Val => (q.1, q.2.1, q.2.2.1))) hmap
    simpa [List.map_map, Function.comp_def] using this
  rw [hfl, List.map_flatMap, List.nodup_flatMap]
  refine ⟨fun i hi => ?_, ?_⟩
  · obtain ⟨S, hnd, hmap⟩ := hinto i (List.mem_range.1 hi)
    rw [hmap]
    apply hnd.map
    intro c c' hcc
    simp only [Prod.mk.injEq, true_and] at hcc
    exact C01.label_injective P.L (Prod.ext hcc.1 hcc.2)
  · apply List.nodup_range.imp
    intro i i' hne
    simp only [Function.onFun]
    intro x hx hx'
    obtain ⟨e, he, rfl⟩ := List.mem_map.1 hx
    obtain ⟨e', he', hee⟩ := List.mem_map.1 hx'
    have h1 : e.dst = i := by simpa using (List.mem_filter.1 he).2
    have h2 : e'.dst = i' := by simpa using (List.mem_filter.1 he').2
    have h3 : e'.dst = e.dst := congrArg (fun q : Nat × Nat × Nat => q.2.1) hee
    exact hne (by rw [← h1, ← h2, h3])

/-- **C06 `cmi_not_finite_negative`.** If the estimator never returns a finite negative number
(C09's `dispatch_floor` for the real dispatcher), no edge carries a finite negative `cmi`
(NaN and `±∞` are not excluded, as in the property text). -/
theorem cmi_not_finite_negative (h : discover P est perms lasso s T n = .ok r)
    (hest : ∀ x y z q, est x y z = .fin q → 0 ≤ q) :
    ∀ e ∈ r.edges, ∀ q, e.cmi = .fin q → 0 ≤ q := by
  intro e he q hq
  rw [C01.edge_semantics_edges h e he] at hq
  exact hest _ _ _ q hq

end

/-! ## Non-vacuity -/

/-- the LASSO oracle of the C01 example satisfies the range predicate, the run succeeds and has
three edges: the hypotheses of all theorems above hold on a non-trivial instance -/
example : LassoOK C01.exLasso 2 2 ∧ IsLassoMethod (C01.exP "lasso").method ∧ 1 ≤ (C01.exP "lasso").L ∧
    1 ≤ (C01.exP "lasso").nShuffles ∧
    ∃ r, discover (C01.exP "lasso") C01.exEst C01.exPerms C01.exLasso C01.exSeries 7 2 = .ok r ∧
      r.edges.length = 3 := by
  refine ⟨?_, Or.inr rfl, by decide, by decide, ?_⟩
  · intro i hi
    have : i = 0 ∨ i = 1 := by omega
    rcases this with rfl | rfl <;> simp [C01.exLasso]
  · obtain ⟨r, hr, h3, -⟩ := C01.example_run
    exact ⟨r, hr, by simpa using congrArg List.length h3⟩

/-- all three outcomes of `rejects` occur -/
example : discover (C01.exP "greedy") C01.exEst C01.exPerms C01.exLasso C01.exSeries 7 2
    = .error .notImplemented := rfl
example : discover { C01.exP "standard" with information := "spearman" } C01.exEst C01.exPerms
    C01.exLasso C01.exSeries 7 2 = .error .notImplemented := rfl
example : discover { C01.exP "standard" with L := 5 } C01.exEst C01.exPerms C01.exLasso
    C01.exSeries 7 2 = .error .valueError := rfl
/-- the estimator of the example is not sign-definite in general, but a floored one is -/
example : ∀ x y z q, (fun _ _ _ => Val.fin 0 : Est) x y z = .fin q → 0 ≤ q := by
  intro x y z q h
  simp only [Val.fin.injEq] at h
  exact h ▸ le_refl _

end CE.Disc.C06
