import CEModel.Synthetic
import Mathlib.Algebra.Order.Field.Basic
import Mathlib.Algebra.BigOperators.Group.List.Basic
import Mathlib.Data.Rat.Defs
import Mathlib.Tactic.Linarith
import Mathlib.Tactic.Ring
import Mathlib.Tactic.FieldSimp
import Mathlib.Tactic.NormNum

/-! # C18 — synthetic generators emit data that their returned ground truth explains

Statements about `CE.Syn.linearSeries`, `buildA`, `poissonRate`, the executable model (over core
`Rat` = ℚ) that the correspondence check compares with `linear_stochastic_gaussian_process` and
`poisson_coupled_oscillators` of `datasets/synthetic.py`. Random draws (`ws`, `R`) and the
spectral radius `rad` are inputs of the model (recorded from the run); determinism for a given
seed is purity of these functions.

Shape hypotheses: none of the algebraic statements needs one. `dot` and `zipWith` truncate to the
shorter argument and `vscale` preserves length, so `matVec`, `vadd`, `vscale` commute with scaling
for lists of *any* lengths. Shapes are only needed (and stated) for `linearSeries_shape`, for the
subtraction form `residual_sub`, for `buildA_shape` and for the indexed sum in
`rate_formula_index`. -/
namespace CE.Syn

/-! ## linear algebra of the list model (no shape hypotheses) -/

theorem dot_vscale_right (c : ℚ) : ∀ (row x : Vec), dot row (vscale c x) = c * dot row x := by
  intro row
  induction row with
  | nil => intro x; simp [dot]
  | cons a as ih =>
    intro x
    cases x with
    | nil => simp [dot, vscale]
    | cons b bs =>
      have := ih bs
      simp only [vscale, List.map_cons, dot] at this ⊢
      rw [this]; ring

theorem dot_map_left (g : ℚ) : ∀ (row x : Vec), dot (row.map (· * g)) x = dot row x * g := by
  intro row
  induction row with
  | nil => intro x; simp [dot]
  | cons a as ih =>
    intro x
    cases x with
    | nil => simp [dot]
    | cons b bs => simp only [List.map_cons, dot, ih bs]; ring

/-- `A (c v) = c (A v)` -/
theorem matVec_vscale (A : Mat) (c : ℚ) (x : Vec) :
    matVec A (vscale c x) = vscale c (matVec A x) := by
  simp only [matVec, vscale, List.map_map]
  apply List.map_congr_left
  intro row _
  exact dot_vscale_right c row x

theorem vadd_vscale (c : ℚ) : ∀ (a b : Vec),
    vadd (vscale c a) (vscale c b) = vscale c (vadd a b) := by
  intro a
  induction a with
  | nil => intro b; simp [vadd, vscale]
  | cons x xs ih =>
    intro b
    cases b with
    | nil => simp [vadd, vscale]
    | cons y ys =>
      have := ih ys
      simp only [vadd, vscale, List.map_cons, List.zipWith_cons_cons] at this ⊢
      rw [this, mul_add]

theorem vscale_one (a : Vec) : vscale 1 a = a := by
  simp [vscale]

theorem vscale_vscale (c d : ℚ) (a : Vec) : vscale c (vscale d a) = vscale (c * d) a := by
  simp only [vscale, List.map_map]
  apply List.map_congr_left
  intro x _
  simp only [Function.comp]
  ring

/-! ## the AR(1) recursion -/

theorem linearSeriesAux_in_eps (A : Mat) (ε : ℚ) : ∀ (ws : List Vec) (p : Vec),
    linearSeriesAux A ε (vscale ε p) ws = (linearSeriesAux A 1 p ws).map (vscale ε) := by
  intro ws
  induction ws with
  | nil => intro p; rfl
  | cons w ws ih =>
    intro p
    have e : vadd (matVec A (vscale ε p)) (vscale ε w)
        = vscale ε (vadd (matVec A p) (vscale 1 w)) := by
      rw [matVec_vscale, vadd_vscale, vscale_one]
    simp only [linearSeriesAux, List.map_cons]
    rw [e, ih]

/-- **C18 `linear_in_eps`.** The series is exactly linear in ε: `X(ε) = ε • X(1)`, row by row,
for every matrix `A`, every ε and every noise array (no shape hypothesis is needed). -/
theorem linear_in_eps (A : Mat) (ε : ℚ) (ws : List Vec) :
    linearSeries A ε ws = (linearSeries A 1 ws).map (vscale ε) := by
  cases ws with
  | nil => rfl
  | cons w0 ws =>
    simp only [linearSeries, List.map_cons, vscale_one]
    rw [linearSeriesAux_in_eps]

/-- consequence used by the harness check `X(ε₁)/ε₁ = X(ε₂)/ε₂` -/
theorem linear_in_eps_two (A : Mat) (ε₁ ε₂ : ℚ) (ws : List Vec) :
    (linearSeries A ε₁ ws).map (vscale ε₂) = (linearSeries A ε₂ ws).map (vscale ε₁) := by
  rw [linear_in_eps A ε₁, linear_in_eps A ε₂, List.map_map, List.map_map]
  apply List.map_congr_left
  intro x _
  simp only [Function.comp, vscale_vscale, mul_comm]

example : linearSeries [[1 / 2, 0], [1, 1 / 3]] 3 [[1, 2], [0, 1], [5, -1]]
    = (linearSeries [[1 / 2, 0], [1, 1 / 3]] 1 [[1, 2], [0, 1], [5, -1]]).map (vscale 3) :=
  linear_in_eps _ _ _

theorem linearSeriesAux_length (A : Mat) (ε : ℚ) : ∀ (ws : List Vec) (p : Vec),
    (linearSeriesAux A ε p ws).length = ws.length := by
  intro ws
  induction ws with
  | nil => intro p; rfl
  | cons w ws ih => intro p; simp only [linearSeriesAux, List.length_cons, ih]

theorem linearSeries_length (A : Mat) (ε : ℚ) (ws : List Vec) :
    (linearSeries A ε ws).length = ws.length := by
  cases ws with
  | nil => rfl
  | cons w0 ws => simp only [linearSeries, List.length_cons, linearSeriesAux_length]

theorem linearSeriesAux_step (A : Mat) (ε : ℚ) : ∀ (ws : List Vec) (p : Vec) (t : ℕ) (x w : Vec),
    (p :: linearSeriesAux A ε p ws)[t]? = some x → ws[t]? = some w →
    (linearSeriesAux A ε p ws)[t]? = some (vadd (matVec A x) (vscale ε w)) := by
  intro ws
  induction ws with
  | nil => intro p t x w _ hw; simp at hw
  | cons w' ws ih =>
    intro p t x w hx hw
    cases t with
    | zero =>
      simp only [List.getElem?_cons_zero, Option.some.injEq] at hx hw
      subst hx; subst hw
      simp [linearSeriesAux]
    | succ t =>
      simp only [linearSeriesAux, List.getElem?_cons_succ] at hx hw ⊢
      exact ih _ t x w hx hw

/-- **C18 `residual`.** The returned series has one row per noise row, starts at `X₀ = ε w₀`, and
every consecutive pair of rows satisfies `X_{t+1} = A X_t + ε w_{t+1}` (index form). -/
theorem residual (A : Mat) (ε : ℚ) (ws : List Vec) :
    (linearSeries A ε ws).length = ws.length ∧
    (∀ w0, ws[0]? = some w0 → (linearSeries A ε ws)[0]? = some (vscale ε w0)) ∧
    (∀ t x w, (linearSeries A ε ws)[t]? = some x → ws[t + 1]? = some w →
      (linearSeries A ε ws)[t + 1]? = some (vadd (matVec A x) (vscale ε w))) := by
  refine ⟨linearSeries_length A ε ws, ?_, ?_⟩
  · intro w0 h
    cases ws with
    | nil => simp at h
    | cons w ws =>
      simp only [List.getElem?_cons_zero, Option.some.injEq] at h
      subst h
      simp [linearSeries]
  · intro t x w hx hw
    cases ws with
    | nil => simp at hw
    | cons w0 ws =>
      simp only [linearSeries, List.getElem?_cons_succ] at hx hw ⊢
      exact linearSeriesAux_step A ε ws _ t x w hx hw

example : (linearSeries [[1 / 2, 0], [1, 1 / 3]] 3 [[1, 2], [0, 1], [5, -1]])[1]? =
    some (vadd (matVec [[1 / 2, 0], [1, 1 / 3]] (vscale 3 [1, 2])) (vscale 3 [0, 1])) := by
  rfl

/-- component-wise subtraction, to state the residual as `X_{t+1} − A X_t = ε w_{t+1}` -/
def vsub (a b : Vec) : Vec := List.zipWith (· - ·) a b

theorem vsub_vadd_cancel : ∀ (a b : Vec), b.length ≤ a.length → vsub (vadd a b) a = b := by
  intro a
  induction a with
  | nil => intro b h; cases b with
    | nil => rfl
    | cons _ _ => simp at h
  | cons x xs ih =>
    intro b h
    cases b with
    | nil => rfl
    | cons y ys =>
      have := ih ys (by simpa using h)
      simp only [vsub, vadd, List.zipWith_cons_cons] at this ⊢
      rw [this]; congr 1; ring

/-- **C18 `residual_sub`.** When the noise row has (at most) as many entries as `A` has rows —
in the code both are `n` — the one-step residual of the returned series with respect to the
returned matrix is exactly the seed's white noise scaled by ε. -/
theorem residual_sub (A : Mat) (ε : ℚ) (ws : List Vec) (t : ℕ) (x x' w : Vec)
    (hx : (linearSeries A ε ws)[t]? = some x) (hx' : (linearSeries A ε ws)[t + 1]? = some x')
    (hw : ws[t + 1]? = some w) (hlen : w.length ≤ A.length) :
    vsub x' (matVec A x) = vscale ε w := by
  have h := (residual A ε ws).2.2 t x w hx hw
  rw [hx'] at h
  simp only [Option.some.injEq] at h
  rw [h]
  exact vsub_vadd_cancel _ _ (by simpa [matVec, vscale] using hlen)

theorem linearSeriesAux_shape (A : Mat) (ε : ℚ) : ∀ (ws : List Vec) (p : Vec),
    (∀ w ∈ ws, w.length = A.length) →
    ∀ x ∈ linearSeriesAux A ε p ws, x.length = A.length := by
  intro ws
  induction ws with
  | nil => intro p _ x hx; simp [linearSeriesAux] at hx
  | cons w ws ih =>
    intro p hws x hx
    simp only [linearSeriesAux, List.mem_cons] at hx
    rcases hx with rfl | hx
    · have := hws w (by simp)
      simp [vadd, vscale, matVec, this]
    · exact ih _ (fun w' hw' => hws w' (by simp [hw'])) x hx

/-- shape `(T, n)`: with `T` noise rows of length `n` and an `A` with `n` rows, the series has
`T` rows of length `n`. -/
theorem linearSeries_shape (A : Mat) (ε : ℚ) (ws : List Vec)
    (hws : ∀ w ∈ ws, w.length = A.length) :
    (linearSeries A ε ws).length = ws.length ∧
    ∀ x ∈ linearSeries A ε ws, x.length = A.length := by
  refine ⟨linearSeries_length A ε ws, ?_⟩
  cases ws with
  | nil => intro x hx; simp [linearSeries] at hx
  | cons w0 ws =>
    intro x hx
    simp only [linearSeries, List.mem_cons] at hx
    rcases hx with rfl | hx
    · simpa [vscale] using hws w0 (by simp)
    · exact linearSeriesAux_shape A ε ws _ (fun w' hw' => hws w' (by simp [hw'])) x hx

/-! ## the returned ground-truth matrix -/

/-- entry `(i, j)` of a list-of-rows matrix, `none` outside the shape -/
def entry? (M : Mat) (i j : ℕ) : Option ℚ := M[i]?.bind (·[j]?)

/-- the Hadamard product `Adjᵀ ∘ R` the code forms first -/
def hadamard (adjT R : Mat) : Mat :=
  List.zipWith (fun ra rr => List.zipWith (· * ·) ra rr) adjT R

/-- the scalar map applied to every entry of `Adjᵀ ∘ R` -/
def scaleEntry (rad thresh ρ : ℚ) (a : ℚ) : ℚ := if rad > thresh then a / rad * ρ else a * ρ

theorem buildA_eq (adjT R : Mat) (rad thresh ρ : ℚ) :
    buildA adjT R rad thresh ρ
      = (hadamard adjT R).map (fun row => row.map (scaleEntry rad thresh ρ)) := by
  unfold buildA hadamard scaleEntry
  by_cases h : rad > thresh
  · simp only [h, if_true, List.map_map]
    apply List.map_congr_left
    intro row _
    simp [Function.comp]
  · simp only [h, if_false]

theorem entry?_map (M : Mat) (g : ℚ → ℚ) (i j : ℕ) :
    entry? (M.map (fun row => row.map g)) i j = (entry? M i j).map g := by
  unfold entry?
  rw [List.getElem?_map]
  cases M[i]? with
  | none => rfl
  | some row => simp

theorem entry?_hadamard (adjT R : Mat) (i j : ℕ) (a : ℚ) :
    entry? (hadamard adjT R) i j = some a ↔
      ∃ x y, entry? adjT i j = some x ∧ entry? R i j = some y ∧ a = x * y := by
  unfold entry? hadamard
  constructor
  · intro h
    obtain ⟨row, hrow, hj⟩ := Option.bind_eq_some_iff.1 h
    obtain ⟨ra, rr, h1, h2, rfl⟩ := List.getElem?_zipWith_eq_some.1 hrow
    obtain ⟨x, y, h3, h4, rfl⟩ := List.getElem?_zipWith_eq_some.1 hj
    exact ⟨x, y, by simp [h1, h3], by simp [h2, h4], rfl⟩
  · rintro ⟨x, y, hx, hy, rfl⟩
    obtain ⟨ra, h1, h3⟩ := Option.bind_eq_some_iff.1 hx
    obtain ⟨rr, h2, h4⟩ := Option.bind_eq_some_iff.1 hy
    refine Option.bind_eq_some_iff.2 ⟨List.zipWith (· * ·) ra rr, ?_, ?_⟩
    · exact List.getElem?_zipWith_eq_some.2 ⟨ra, rr, h1, h2, rfl⟩
    · exact List.getElem?_zipWith_eq_some.2 ⟨x, y, h3, h4, rfl⟩

/-- **C18 `buildA_entry`.** Entry `(i, j)` of the returned matrix exists iff it exists in both
`Adjᵀ` and `R`, and then it is `Adjᵀ[i][j] · R[i][j]`, divided by the spectral radius when that is
above the threshold, times ρ. -/
theorem buildA_entry (adjT R : Mat) (rad thresh ρ : ℚ) (i j : ℕ) (a : ℚ) :
    entry? (buildA adjT R rad thresh ρ) i j = some a ↔
      ∃ x y, entry? adjT i j = some x ∧ entry? R i j = some y ∧
        a = if rad > thresh then x * y / rad * ρ else x * y * ρ := by
  rw [buildA_eq, entry?_map]
  constructor
  · intro h
    obtain ⟨b, hb, rfl⟩ := Option.map_eq_some_iff.1 h
    obtain ⟨x, y, hx, hy, rfl⟩ := (entry?_hadamard adjT R i j b).1 hb
    exact ⟨x, y, hx, hy, rfl⟩
  · rintro ⟨x, y, hx, hy, rfl⟩
    exact Option.map_eq_some_iff.2 ⟨x * y, (entry?_hadamard adjT R i j _).2 ⟨x, y, hx, hy, rfl⟩, rfl⟩

/-- **C18 `support`.** The returned matrix is supported on the transposed graph: a non-zero entry
`(i, j)` of `buildA adjT …` forces a non-zero entry `(i, j)` of `adjT` (= entry `(j, i)` of the
adjacency matrix), for every `R`, `rad`, `thresh`, ρ. -/
theorem support (adjT R : Mat) (rad thresh ρ : ℚ) (i j : ℕ) (a : ℚ)
    (ha : entry? (buildA adjT R rad thresh ρ) i j = some a) (hne : a ≠ 0) :
    ∃ b, entry? adjT i j = some b ∧ b ≠ 0 := by
  obtain ⟨x, y, hx, _, rfl⟩ := (buildA_entry adjT R rad thresh ρ i j a).1 ha
  refine ⟨x, hx, ?_⟩
  rintro rfl
  apply hne
  split <;> simp

example : entry? (buildA [[0, 1], [1, 0]] [[1 / 2, -1 / 3], [1 / 5, 1]] 2 (1 / 1000) (1 / 2)) 0 1
    = some (-1 / 12) := by
  norm_num [entry?, buildA]

/-- shape: for `n × n` inputs the result is `n × n` -/
theorem buildA_shape (adjT R : Mat) (rad thresh ρ : ℚ) (n : ℕ)
    (h1 : adjT.length = n) (h2 : R.length = n)
    (h3 : ∀ row ∈ adjT, row.length = n) (h4 : ∀ row ∈ R, row.length = n) :
    (buildA adjT R rad thresh ρ).length = n ∧
    ∀ row ∈ buildA adjT R rad thresh ρ, row.length = n := by
  rw [buildA_eq]
  refine ⟨by simp [hadamard, h1, h2], ?_⟩
  intro row hrow
  obtain ⟨r0, hr0, rfl⟩ := List.mem_map.1 hrow
  rw [List.length_map]
  unfold hadamard at hr0
  obtain ⟨i, hi, rfl⟩ := List.mem_iff_getElem.1 hr0
  simp only [List.getElem_zipWith, List.length_zipWith]
  rw [h3 _ (List.getElem_mem _), h4 _ (List.getElem_mem _), Nat.min_self]

/-- `(g • A) v = g • (A v)` for entrywise scaling of a list-of-rows matrix -/
theorem matVec_map_scale (A : Mat) (g : ℚ) (v : Vec) :
    matVec (A.map (fun row => row.map (· * g))) v = vscale g (matVec A v) := by
  simp only [matVec, vscale, List.map_map]
  apply List.map_congr_left
  intro row _
  simp only [Function.comp, dot_map_left]
  ring

theorem buildA_matVec (adjT R : Mat) (rad thresh ρ : ℚ) (v : Vec) :
    matVec (buildA adjT R rad thresh ρ) v
      = vscale (if rad > thresh then ρ / rad else ρ) (matVec (hadamard adjT R) v) := by
  rw [← matVec_map_scale, buildA_eq]
  congr 1
  apply List.map_congr_left
  intro row _
  apply List.map_congr_left
  intro a _
  unfold scaleEntry
  split
  · ring
  · ring

/-- **C18 `radius_scaling`.** In the normalising branch (`rad > thresh`; in the code
`thresh = 1e-12`, so `rad > 0`), every eigen-equation `A₀ v = μ v` of `A₀ = Adjᵀ ∘ R` becomes
`A v = (ρ μ / rad) v` for the returned `A`: eigenvalues, hence the spectral radius, scale by
`ρ / rad`. (That `rad` *is* the spectral radius of `A₀` is NumPy's `eigvals`, trusted; then the
returned matrix has spectral radius ρ.) No shape hypothesis is needed. -/
theorem radius_scaling (adjT R : Mat) (rad thresh ρ μ : ℚ) (v : Vec)
    (hrad : rad > thresh) (heig : matVec (hadamard adjT R) v = vscale μ v) :
    matVec (buildA adjT R rad thresh ρ) v = vscale (ρ * μ / rad) v := by
  rw [buildA_matVec, heig, vscale_vscale, if_pos hrad]
  congr 1
  ring

/-- the other branch (`rad ≤ thresh`, e.g. an acyclic graph, all eigenvalues 0): no division,
eigenvalues scale by ρ. -/
theorem radius_scaling_small (adjT R : Mat) (rad thresh ρ μ : ℚ) (v : Vec)
    (hrad : ¬ rad > thresh) (heig : matVec (hadamard adjT R) v = vscale μ v) :
    matVec (buildA adjT R rad thresh ρ) v = vscale (ρ * μ) v := by
  rw [buildA_matVec, heig, vscale_vscale, if_neg hrad]

/-- the eigen-equation hypothesis is satisfiable non-trivially: a 2-cycle with weights 2 and 1/2
has eigenvector (2, 1) with eigenvalue 1 -/
example : matVec (hadamard [[0, 1], [1, 0]] [[5, 2], [1 / 2, 7]]) [2, 1] = vscale 1 [2, 1] := by
  norm_num [matVec, hadamard, dot, vscale]

/-! ## Poisson network rates -/

theorem total_eq_sum (a : Vec) : total a = a.sum := by
  induction a with
  | nil => rfl
  | cons x xs ih => simp only [total, List.sum_cons, ih]

/-- **C18 `rate_formula`.** The rate of node `i` is `max(floor, λ + c · Σ_j A[j][i] · x_j)`, the
sum running over the rows `j` of `A` paired with the entries of the previous state `x`
(column `i` of `A`: in-neighbours of `i`). -/
theorem rate_formula (floor lam c : ℚ) (A : Mat) (x : Vec) (i : ℕ) :
    poissonRate floor lam c A x i
      = max floor (lam + c * (List.zipWith (fun row xj => row.getD i 0 * xj) A x).sum) := by
  unfold poissonRate
  simp only [total_eq_sum, List.zipWith_map_left]

theorem zipWith_sum_index (f : List ℚ → ℚ) : ∀ (A : Mat) (x : Vec) (n : ℕ),
    A.length = n → x.length = n →
    (List.zipWith (fun row xj => f row * xj) A x).sum
      = ((List.range n).map (fun j => f (A.getD j []) * x.getD j 0)).sum := by
  intro A
  induction A with
  | nil => intro x n hA _; subst hA; simp
  | cons r rs ih =>
    intro x n hA hx
    cases x with
    | nil => subst hx; simp at hA
    | cons y ys =>
      subst hA
      have := ih ys rs.length rfl (by simpa using hx)
      simp only [List.length_cons, List.zipWith_cons_cons, List.sum_cons, this,
        List.range_succ_eq_map, List.map_cons, List.map_map]
      congr 1

/-- **C18 `rate_formula_index`.** Indexed form for an `n`-row matrix and an `n`-vector:
`rate_i = max(floor, λ + c · Σ_{j<n} A[j][i] · x_j)`. (All `getD` are in range for `j < n`
when every row has more than `i` entries, as in the code where `A` is `n × n` and `i < n`.) -/
theorem rate_formula_index (floor lam c : ℚ) (A : Mat) (x : Vec) (i n : ℕ)
    (hA : A.length = n) (hx : x.length = n) :
    poissonRate floor lam c A x i
      = max floor (lam + c *
          ((List.range n).map (fun j => (A.getD j []).getD i 0 * x.getD j 0)).sum) := by
  rw [rate_formula, zipWith_sum_index (fun row => row.getD i 0) A x n hA hx]

/-- **C18 `rate_ge_floor`.** The rate handed to the sampler is never below the floor (0.1 in the
code), hence positive. -/
theorem rate_ge_floor (floor lam c : ℚ) (A : Mat) (x : Vec) (i : ℕ) :
    floor ≤ poissonRate floor lam c A x i := by
  unfold poissonRate
  exact le_max_left _ _

theorem rate_pos (floor lam c : ℚ) (A : Mat) (x : Vec) (i : ℕ) (h : 0 < floor) :
    0 < poissonRate floor lam c A x i :=
  lt_of_lt_of_le h (rate_ge_floor floor lam c A x i)

/-- **C18 `rate_eq`.** Whenever `λ + c · Σ_j A[j][i] x_j` is at least the floor, the rate is
exactly that value. -/
theorem rate_eq (floor lam c : ℚ) (A : Mat) (x : Vec) (i : ℕ)
    (h : floor ≤ lam + c * (List.zipWith (fun row xj => row.getD i 0 * xj) A x).sum) :
    poissonRate floor lam c A x i
      = lam + c * (List.zipWith (fun row xj => row.getD i 0 * xj) A x).sum := by
  rw [rate_formula]
  exact max_eq_right h

theorem zipWith_sum_nonneg (i : ℕ) : ∀ (A : Mat) (x : Vec),
    (∀ row ∈ A, ∀ a ∈ row, 0 ≤ a) → (∀ b ∈ x, 0 ≤ b) →
    0 ≤ (List.zipWith (fun row xj => row.getD i 0 * xj) A x).sum := by
  intro A
  induction A with
  | nil => intro x _ _; simp
  | cons r rs ih =>
    intro x hA hx
    cases x with
    | nil => simp
    | cons y ys =>
      have h1 := ih ys (fun row h => hA row (by simp [h])) (fun b h => hx b (by simp [h]))
      have hy := hx y (by simp)
      have hr : 0 ≤ r.getD i 0 := by
        rw [List.getD_eq_getElem?_getD]
        cases h : r[i]? with
        | none => simp
        | some a => exact hA r (by simp) a (List.mem_of_getElem? h)
      simp only [List.zipWith_cons_cons, List.sum_cons]
      have := mul_nonneg hr hy
      linarith

/-- **C18 `rate_eq_of_nonneg`.** In the regime of the property (`λ_base ≥ floor`, coupling `≥ 0`,
0/1 adjacency, non-negative counts) the floor is inactive and the conditional mean of node `i`
is exactly `λ_base + coupling · Σ_j A[j][i] X_j(t−1)`. -/
theorem rate_eq_of_nonneg (floor lam c : ℚ) (A : Mat) (x : Vec) (i : ℕ)
    (hlam : floor ≤ lam) (hc : 0 ≤ c)
    (hA : ∀ row ∈ A, ∀ a ∈ row, 0 ≤ a) (hx : ∀ b ∈ x, 0 ≤ b) :
    poissonRate floor lam c A x i
      = lam + c * (List.zipWith (fun row xj => row.getD i 0 * xj) A x).sum := by
  apply rate_eq
  have := mul_nonneg hc (zipWith_sum_nonneg i A x hA hx)
  linarith

example : poissonRate (1 / 10) 2 (3 / 10) [[0, 1], [1, 0]] [4, 7] 0 = 2 + 3 / 10 * 7 := by
  norm_num [poissonRate, total]

/-- the floor is active for negative coupling -/
example : poissonRate (1 / 10) 2 (-1) [[0, 1], [1, 0]] [4, 7] 0 = 1 / 10 := by
  norm_num [poissonRate, total]

end CE.Syn
