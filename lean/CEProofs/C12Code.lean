import CEProofs.C12
/-! C12 — the code-shaped entry of `geometric_knn_entropy` after fix `dab500f` (centre the sample first) equals the
estimator of the published formula that all other C12 theorems are about. -/
set_option linter.unusedSectionVars false
namespace CE.Geom
open CE.Kde
variable {α : Type} [Field α] [LinearOrder α] [IsStrictOrderedRing α]

theorem vsub_eq_vadd_neg (r m : List α) : vsub r m = vadd r (m.map (- ·)) := by
  unfold vsub vadd
  rw [List.zipWith_map_right]
  congr 1
  funext a b
  exact sub_eq_add_neg a b

theorem centreAll_eq_translate (E : Env α) (X : List (List α)) :
    centreAll E X = translate X ((colMean E X).map (- ·)) := by
  unfold centreAll translate
  exact List.map_congr_left (fun r _ => vsub_eq_vadd_neg r _)

/-- **entropyCode_eq.** The estimator as the code runs it since fix `dab500f` — centre the sample
first, keep the caller's distance matrix — is the estimator of the published formula, for every
rectangular sample and every distance matrix with rows no longer than the sample. (Centring is
the translation by minus the column means; `entropy_translate`.) -/
theorem entropyCode_eq (E : Env α) (hcast : ∀ m, E.cast m = (m : α)) (logN logCd dOverN : α)
    (X Xdist : List (List α)) (k : ℕ) (hw : ∀ r ∈ X, r.length = dim X)
    (hD : ∀ r ∈ Xdist, r.length ≤ X.length) :
    entropyCode E logN logCd dOverN X Xdist k = entropy E logN logCd dOverN X Xdist k := by
  unfold entropyCode
  rw [centreAll_eq_translate]
  refine entropy_translate E hcast logN logCd dOverN X Xdist _ k ?_ hD
  intro r hr
  simp [colMean, hw r hr]

/-- with the distance matrix of the sample itself -/
theorem entropyCode_eq_entropyOf (E : Env α) (hcast : ∀ m, E.cast m = (m : α)) (logN logCd dOverN : α)
    (X : List (List α)) (k : ℕ) (hw : ∀ r ∈ X, r.length = dim X) :
    entropyCode E logN logCd dOverN X (sqKeys X) k = entropyOf E logN logCd dOverN X k :=
  entropyCode_eq E hcast logN logCd dOverN X _ k hw (sqKeys_row_length X)

/-- non-vacuity: centring really changes the sample the local computations see -/
example : centreAll envQ [[1, 2], [3, 6], [8, 1]] = [[-3, -1], [-1, 3], [4, -2]] := by decide +kernel

example : entropyCode envQ 0 0 1 [[1, 2], [3, 6], [8, 1], [4, 4]] (sqKeys [[1, 2], [3, 6], [8, 1], [4, 4]]) 2
    = entropyOf envQ 0 0 1 [[1, 2], [3, 6], [8, 1], [4, 4]] 2 :=
  entropyCode_eq_entropyOf envQ (fun _ => rfl) 0 0 1 _ 2 (by decide)
end CE.Geom
